(* C13 -- String operations equal their textbook meaning and are memory-safe.
   Only statements; every proof is `exact <lemma>` into C13_Proofs.v.
   Reading: a C-string argument s (no NUL byte inside) sits in a buffer s ++ 0 :: rest; `= Ok v` says the operation
   terminated (no NoFuel), stayed inside every buffer it touched (no Oob), met no undefined behaviour (no Ub) and
   returned v, where v is written with the textbook functions of lib/Str.v and C13_Text.v. *)
From Coq Require Import NArith ZArith Bool List.
From CppUVerif Require Import lib.CMem lib.CMemFacts gen.Gen_LoopC13.   (* before the model: its Ok/Oob/NoFuel are the unqualified ones below *)
From CppUVerif Require Import lib.Str lib.CSem gen.Gen_LeafC13 C13_Text C13_Model C13_Proofs C13_Replace C13_Printable C13_Concat C13_Alloc C13_Atoi C13_Main C13_LeafTie
                              C13_Pool C13_PoolProofs C13_Life C13_LifeProofs C13_LifeProofs2 C13_LifeSplit C13_Loose C13_Chain C13_Coll C13_LifeMain.
From CppUVerif Require C12_Safe.
From CppUVerif Require Import C13_SrcTie C13_SrcTie2 C13_SrcTie3 C13_SrcTie4 C13_SrcSpec C13_SrcSpec2 C13_SrcSpec3 C13_SrcSpec4.
Import ListNotations.
Local Open Scope N_scope.

Theorem C13_StrLen_spec : forall s r, NN s -> StrLen (s ++ 0 :: r) = Ok (length s).
Proof. exact StrLen_ok. Qed.
Print Assumptions C13_StrLen_spec.

Theorem C13_StrCmp_spec : forall a b ra rb, NN a -> NN b ->
  exists d, StrCmp (a ++ 0 :: ra) (b ++ 0 :: rb) = Ok d /\ Z.sgn d = cmp_z (str_cmp a b).
Proof. exact StrCmp_ok. Qed.
Print Assumptions C13_StrCmp_spec.

Theorem C13_StrNCmp_spec : forall n a b ra rb, NN a -> NN b ->
  exists d, StrNCmp (a ++ 0 :: ra) (b ++ 0 :: rb) n = Ok d /\ Z.sgn d = cmp_z (t_ncmp n a b).
Proof. exact StrNCmp_ok. Qed.
Print Assumptions C13_StrNCmp_spec.

Theorem C13_MemCmp_spec : forall n a b, (n <= length a)%nat -> (n <= length b)%nat ->
  exists d, MemCmp a b n = Ok d /\ Z.sgn d = cmp_z (t_ncmp n a b).
Proof. exact MemCmp_ok. Qed.
Print Assumptions C13_MemCmp_spec.

Theorem C13_StrStr_spec : forall a b ra rb, NN a -> NN b -> StrStr (a ++ 0 :: ra) (b ++ 0 :: rb) = Ok (find_sub a b).
Proof. exact StrStr_ok. Qed.
Print Assumptions C13_StrStr_spec.

(* StrNCpy writes exactly min(n, strlen+1) cells and nothing else *)
Theorem C13_StrNCpy_spec : forall n s r pre mid post, (1 <= n)%nat -> NN s -> length mid = Nat.min n (S (length s)) ->
  StrNCpy_loop (pre ++ mid ++ post) (length pre) (s ++ 0 :: r) n = Ok (pre ++ firstn (length mid) (s ++ [0]) ++ post).
Proof. exact StrNCpy_loop_ok. Qed.
Print Assumptions C13_StrNCpy_spec.

Theorem C13_construct_spec : forall s r, NN s -> newFrom (s ++ 0 :: r) = Ok (s ++ [0]).
Proof. exact newFrom_ok. Qed.
Print Assumptions C13_construct_spec.

Theorem C13_contains_spec : forall a b ra rb, NN a -> NN b -> contains_m (a ++ 0 :: ra) (b ++ 0 :: rb) = Ok (contains a b).
Proof. exact contains_ok. Qed.
Print Assumptions C13_contains_spec.

Theorem C13_startsWith_spec : forall a b ra rb, NN a -> NN b -> startsWith_m (a ++ 0 :: ra) (b ++ 0 :: rb) = Ok (is_prefix b a).
Proof. exact startsWith_ok. Qed.
Print Assumptions C13_startsWith_spec.

Theorem C13_endsWith_spec : forall a b ra rb, NN a -> NN b -> endsWith_m (a ++ 0 :: ra) (b ++ 0 :: rb) = Ok (t_ends_with a b).
Proof. exact endsWith_ok. Qed.
Print Assumptions C13_endsWith_spec.

Theorem C13_count_spec : forall a b ra rb, NN a -> NN b -> count_m (a ++ 0 :: ra) (b ++ 0 :: rb) = Ok (t_count a b).
Proof. exact count_ok. Qed.
Print Assumptions C13_count_spec.

Theorem C13_equal_spec : forall a b ra rb, NN a -> NN b -> equal_m (a ++ 0 :: ra) (b ++ 0 :: rb) = Ok (bytes_eqb a b).
Proof. exact equal_ok. Qed.
Print Assumptions C13_equal_spec.

Theorem C13_findFrom_spec : forall a r st ch, NN a -> findFrom_m (a ++ 0 :: r) st ch = Ok (t_find_from a st ch).
Proof. exact findFrom_ok. Qed.
Print Assumptions C13_findFrom_spec.

Theorem C13_lowerCase_spec : forall s r, NN s -> lowerCase_m (s ++ 0 :: r) = Ok (lower s ++ [0]).
Proof. exact lowerCase_ok. Qed.
Print Assumptions C13_lowerCase_spec.

Theorem C13_replaceChar_spec : forall s c1 c2, NN s -> replaceChar_m (s ++ [0]) c1 c2 = Ok (t_repl_char c1 c2 s ++ [0]).
Proof. exact replaceChar_ok. Qed.
Print Assumptions C13_replaceChar_spec.

(* all begin positions and amounts, including out-of-range ones and npos *)
Theorem C13_subString_spec : forall a r b n, NN a ->
  exists buf, subString_m (a ++ 0 :: r) b n = Ok buf /\ cstr_of buf = Some (t_substr a b n).
Proof. exact subString_ok. Qed.
Print Assumptions C13_subString_spec.

Theorem C13_subString_old_refuted : ~ (forall a b n, nonul a = true -> subString_old (cs a) b n <> Oob).
Proof. exact subString_old_refuted. Qed.
Print Assumptions C13_subString_old_refuted.

Theorem C13_ordinal_spec : forall n, ordinal_m n = t_ordinal n.
Proof. exact ordinal_ok. Qed.
Print Assumptions C13_ordinal_spec.

Theorem C13_ordinal_old_refuted : ~ (forall n, n < 4294967296 -> ordinal_old n = t_ordinal n).
Proof. exact ordinal_old_refuted. Qed.
Print Assumptions C13_ordinal_old_refuted.

(* replace(const char*, const char* ) after the D9/D19 repairs: leftmost non-overlapping substitution, exact buffer size *)
Theorem C13_replaceStr_spec : forall a to w, NN a -> NN to -> NN w ->
  exists buf, replaceStr_m (cs a) (cs to) (cs w) = Ok buf /\ cstr_of buf = Some (t_replace a to w).
Proof. exact replaceStr_ok. Qed.
Print Assumptions C13_replaceStr_spec.

Theorem C13_replaceStr_old_overlap_refuted :
  ~ (forall a to w, nonul a = true -> nonul to = true -> nonul w = true -> replaceStr_old (cs a) (cs to) (cs w) <> Oob).
Proof. exact replaceStr_old_overlap_refuted. Qed.
Print Assumptions C13_replaceStr_old_overlap_refuted.

Theorem C13_replaceStr_old_wrong_refuted :
  ~ (forall a to w buf, nonul a = true -> nonul to = true -> nonul w = true ->
       replaceStr_old (cs a) (cs to) (cs w) = Ok buf -> cstr_of buf = Some (t_replace a to w)).
Proof. exact replaceStr_old_wrong_refuted. Qed.
Print Assumptions C13_replaceStr_old_wrong_refuted.

Theorem C13_replaceStr_old_empty_refuted :
  ~ (forall a w, nonul a = true -> nonul w = true -> exists buf, replaceStr_old (cs a) (cs []) (cs w) = Ok buf).
Proof. exact replaceStr_old_empty_refuted. Qed.
Print Assumptions C13_replaceStr_old_empty_refuted.

(* printable(): exact size pre-computation, escape table, bytes >= 0x80 as \xNN (D11 repair) *)
Theorem C13_printable_spec : forall a, BY a -> NN a ->
  exists buf, printable_m (cs a) = Ok buf /\ cstr_of buf = Some (t_printable a).
Proof. exact printable_ok. Qed.
Print Assumptions C13_printable_spec.

Theorem C13_printable_old_refuted :
  ~ (forall a buf, nonul a = true -> printable_old (cs a) = Ok buf -> cstr_of buf = Some (t_printable a)).
Proof. exact printable_old_refuted. Qed.
Print Assumptions C13_printable_old_refuted.

Theorem C13_append_spec : forall a b ra rb, NN a -> NN b -> append_m (a ++ 0 :: ra) (b ++ 0 :: rb) = Ok (a ++ b ++ [0]).
Proof. exact append_ok. Qed.
Print Assumptions C13_append_spec.

Theorem C13_plus_spec : forall a b ra rb, NN a -> NN b -> plus_m (a ++ 0 :: ra) (b ++ 0 :: rb) = Ok (a ++ b ++ [0]).
Proof. exact plus_ok. Qed.
Print Assumptions C13_plus_spec.

Theorem C13_copyToBuffer_spec : forall a r dn, NN a -> copyToBuffer_m (a ++ 0 :: r) (fresh dn) dn = Ok (t_copy_out a dn).
Proof. exact copyToBuffer_ok. Qed.
Print Assumptions C13_copyToBuffer_spec.

(* every buffer of an object's life (any sequence of the buffer-management primitives, then the destructor) is returned
   exactly once and with the size it was requested with *)
Theorem C13_alloc_pairing : forall ps, paired (life ps) = true.
Proof. exact alloc_pairing. Qed.
Print Assumptions C13_alloc_pairing.

(* VStringFromFormat (100-byte fast path and allocated slow path): same text, temporary buffer paired *)
Theorem C13_format_spec : forall text, NN text -> format_m text = Ok (text ++ [0]).
Proof. exact format_ok. Qed.
Print Assumptions C13_format_spec.

Theorem C13_format_paired : forall size, paired (format_log size) = true.
Proof. exact format_paired. Qed.
Print Assumptions C13_format_paired.

Theorem C13_format_wrong_size_refuted : ~ (forall size, paired (format_log_wrong size) = true).
Proof. exact format_wrong_refuted. Qed.
Print Assumptions C13_format_wrong_size_refuted.

Theorem C13_alloc_wrong_size_detected : forall d, paired (rev (snd (deallocateInternalBuffer (step_wrong init d)))) = false.
Proof. exact wrong_size_not_paired. Qed.
Print Assumptions C13_alloc_wrong_size_detected.

(* AtoI: blanks (' ', 0x09..0x0D) skipped, one optional sign, the maximal digit run as a number (0 if none), for every byte string
   whose digit run fits an int (the contract of atoi): Ok = no read past the terminator, no signed overflow *)
Theorem C13_AtoI_spec : forall s r, BY s -> (t_dec_value (t_atoi_digits s) <= 2147483647)%Z -> AtoI (s ++ 0 :: r) = Ok (t_atoi s).
Proof. exact AtoI_ok. Qed.
Print Assumptions C13_AtoI_spec.

(* in particular for every string with at most 9 digits *)
Theorem C13_AtoI_spec_9_digits : forall s r, BY s -> (length (t_atoi_digits s) <= 9)%nat -> AtoI (s ++ 0 :: r) = Ok (t_atoi s).
Proof. exact AtoI_ok_9. Qed.
Print Assumptions C13_AtoI_spec_9_digits.

(* the precondition is needed: "2147483648" overflows the int of the code *)
Theorem C13_AtoI_overflow_is_ub : AtoI (cs [50;49;52;55;52;56;51;54;52;56]) = Ub.
Proof. exact AtoI_overflow_ub. Qed.
Print Assumptions C13_AtoI_overflow_is_ub.

(* AtoU: no sign handling; every byte string (unsigned arithmetic: the digit run's value modulo 2^32) *)
Theorem C13_AtoU_spec : forall s r, BY s -> AtoU (s ++ 0 :: r) = Ok (t_atou s).
Proof. exact AtoU_ok. Qed.
Print Assumptions C13_AtoU_spec.

Theorem C13_AtoU_fits_is_the_value : forall s, t_fits_unsigned s = true -> t_atou s = t_dec_value (t_atou_digits s).
Proof. exact t_atou_fits. Qed.
Print Assumptions C13_AtoU_fits_is_the_value.

(* every operation of a valid scenario: never Oob / NoFuel / Ub ... *)
Theorem C13_run_safe : forall o, valid o = true -> o_val (run o) <> VErr.
Proof. exact run_safe. Qed.
Print Assumptions C13_run_safe.

(* ... and the executable oracle used on the implementation's observations accepts every model observation *)
Theorem C13_run_meets_spec : forall o, valid o = true -> spec o (run o) = true.
Proof. exact run_meets_spec. Qed.
Print Assumptions C13_run_meets_spec.

(* ---------------- life cycle: allocation pairing observed on every operation, on the objects alive at the end, on sequences *)
(* ANY number of objects sharing the string allocator, any interleaving of their buffer-management primitives (arguments, results
   and temporaries of every public operation, operation sequences on the same objects), all objects destroyed at the end: every
   buffer is returned exactly once and with the size it was requested with *)
Theorem C13_pool_pairing : forall n ops, paired (pool_log n ops) = true.
Proof. exact pool_pairing. Qed.
Print Assumptions C13_pool_pairing.

(* padStringsToSameLength on strings of la and lb bytes (both arguments constructed, padded, destroyed): its event log is paired *)
Theorem C13_pad_paired : forall la lb, paired (pad_log la lb) = true.
Proof. exact pad_paired. Qed.
Print Assumptions C13_pad_paired.

(* the seeded variant (padded block of M + 1 bytes adopted with setInternalBufferTo(padded, M)) is not, as soon as something is padded *)
Theorem C13_pad_wrong_size_refuted : ~ (forall la lb, paired (pad_log_wrong la lb) = true).
Proof. exact pad_wrong_refuted. Qed.
Print Assumptions C13_pad_wrong_size_refuted.

Theorem C13_pad_wrong_size_unseen_without_padding : forall la, paired (pad_log_wrong la la) = true.
Proof. exact pad_wrong_same_length. Qed.
Print Assumptions C13_pad_wrong_size_unseen_without_padding.

Theorem C13_repeat_spec : forall s r k, NN s -> newRepeat (s ++ 0 :: r) k = Ok (t_concat_rep s k ++ [0]).
Proof. exact newRepeat_ok. Qed.
Print Assumptions C13_repeat_spec.

(* both strings, any pad character but NUL: the shorter one gets the pad characters in front, the other is untouched *)
Theorem C13_pad_spec : forall a ra b rb ch, NN a -> NN b -> ch <> 0 ->
  pad_m (a ++ 0 :: ra) (b ++ 0 :: rb) ch = Ok (pad_bufs a ra b rb ch).
Proof. exact pad_ok. Qed.
Print Assumptions C13_pad_spec.

(* replace(const char*, const char* ) hands over a buffer of exactly the new length + 1 *)
Theorem C13_replaceStr_exact_buffer : forall a to w, NN a -> NN to -> NN w -> replaceStr_m (cs a) (cs to) (cs w) = Ok (cs (t_replace a to w)).
Proof. exact replaceStr_exact. Qed.
Print Assumptions C13_replaceStr_exact_buffer.

(* every SEQUENCE of the 32 sequence steps applied to the same four objects (three named ones and the RESULT OBJECT obj[3], which is the
   very object an operation returned -- constructor, copy, subString / subStringFromTill with or without truncation, lowerCase,
   printable, operator+, the formatters, repeat, an element of a split collection -- and is consumed in place by the following steps):
   if every buffer holds the C string of its textbook value, with ANY slack behind the terminator (LB: the recorded buffer size
   need not be size() + 1), then the whole sequence is Ok (memory-safe, terminating), the buffers hold the textbook values
   afterwards (again with any slack) and the log of the observer steps (size / isEmpty, at, == / contains / startsWith / endsWith /
   count, copyToBuffer, findFrom) is the textbook log *)
Theorem C13_sequence_spec : forall ops st strs, Forall2 LB st strs -> Forall OKS strs -> valid_ops strs ops = true ->
  exists st', mrun st ops = Ok (st', snd (t_run strs ops)) /\ Forall2 LB st' (fst (t_run strs ops)) /\ Forall OKS (fst (t_run strs ops)).
Proof. exact mrun_ok. Qed.
Print Assumptions C13_sequence_spec.

(* one step, from any state that satisfies the invariant: Ok, and the invariant again *)
Theorem C13_sequence_step_spec : forall st strs q, Forall2 LB st strs -> Forall OKS strs -> valid_sop q = true -> valid_at strs q = true ->
  exists st', mstep st q = Ok st' /\ Forall2 LB st' (t_sstep strs q) /\ Forall OKS (t_sstep strs q).
Proof. exact mstep_okL. Qed.
Print Assumptions C13_sequence_step_spec.

(* one observer, on buffers with any slack: the textbook answer *)
Theorem C13_sequence_observers_spec : forall st strs q, Forall2 LB st strs -> Forall OKS strs -> valid_sop q = true ->
  mobs st q = Ok (t_sobs strs q).
Proof. exact mobs_ok. Qed.
Print Assumptions C13_sequence_observers_spec.

(* the in-place consumers and second-level producers that were proved on exact buffers only, now on a buffer with any slack r *)
Theorem C13_replaceChar_slack_spec : forall s r c1 c2, NN s -> replaceChar_m (s ++ 0 :: r) c1 c2 = Ok (t_repl_char c1 c2 s ++ 0 :: r).
Proof. exact replaceChar_okg. Qed.
Print Assumptions C13_replaceChar_slack_spec.

Theorem C13_replaceStr_slack_spec : forall a r0 to w, NN a -> NN to -> NN w ->
  exists r', replaceStr_m (a ++ 0 :: r0) (cs to) (cs w) = Ok (t_replace a to w ++ 0 :: r').
Proof. exact replaceStr_okg. Qed.
Print Assumptions C13_replaceStr_slack_spec.

Theorem C13_printable_slack_spec : forall a r, BY a -> NN a ->
  exists buf, printable_m (a ++ 0 :: r) = Ok buf /\ cstr_of buf = Some (t_printable a).
Proof. exact printable_okg. Qed.
Print Assumptions C13_printable_slack_spec.

Theorem C13_subStringFromTill_slack_spec : forall a r c1 c2, NN a -> N.of_nat (length a) < NPOS ->
  exists buf, subStringFromTill_m (a ++ 0 :: r) c1 c2 = Ok buf /\ cstr_of buf = Some (t_from_till a c1 c2).
Proof. exact fromTill_okg. Qed.
Print Assumptions C13_subStringFromTill_slack_spec.

Theorem C13_split_slack_spec : forall a r d, NN a -> d <> 0 ->
  exists bufs, split_m (a ++ 0 :: r) (cs [d]) = Ok bufs /\ Forall2 C12_Safe.holds bufs (t_split_all d a).
Proof. exact split_okg. Qed.
Print Assumptions C13_split_slack_spec.

(* the chain on its own: the object subString returned -- truncated or not, from a buffer with any slack -- used directly as the
   left-hand side of += holds exactly the textbook concatenation *)
Theorem C13_subString_then_append : forall a r b m x rx, NN a -> NN x ->
  exists buf, subString_m (a ++ 0 :: r) b m = Ok buf /\ append_m buf (x ++ 0 :: rx) = Ok (cs (t_substr a b m ++ x)).
Proof. exact subString_then_append. Qed.
Print Assumptions C13_subString_then_append.

(* operator+= taking the old length from the recorded buffer size instead of size(): the same function on every exact buffer (why no
   single operation and no chain through a copy or an assignment shows the difference) ... *)
Theorem C13_append_from_recorded_size_agrees_on_exact_buffers : forall a b rb, NN a -> NN b ->
  append_recorded (cs a) (b ++ 0 :: rb) = append_m (cs a) (b ++ 0 :: rb).
Proof. exact append_recorded_exact. Qed.
Print Assumptions C13_append_from_recorded_size_agrees_on_exact_buffers.

(* ... and wrong on the object a truncating subString returned ("abc".subString(0, 1) += "x" stays "a") *)
Theorem C13_append_from_recorded_size_refuted : ~ append_recorded_stmt.
Proof. exact append_recorded_refuted. Qed.
Print Assumptions C13_append_from_recorded_size_refuted.

(* the scenario language of the check (C13_Life.v): the pairing verdict of EVERY scenario is true ... *)
Theorem C13_scn_paired : forall s, o_paired (run_scn s) = true.
Proof. exact pairing_scn_ok. Qed.
Print Assumptions C13_scn_paired.

(* split(delimiter, collection), every string and one-byte delimiter: pieces keep their delimiter, a non-empty remainder is last, the
   empty string is one empty piece (loop lemmas of C12_Safe.v reused) *)
Theorem C13_split_spec : forall a d, NN a -> d <> 0 -> vlist (split_m (cs a) (cs [d])) = VL (t_split_all d a).
Proof. exact split_ok. Qed.
Print Assumptions C13_split_spec.

Theorem C13_subStringFromTill_spec : forall a c1 c2, NN a -> N.of_nat (length a) < NPOS ->
  vstr (subStringFromTill_m (cs a) c1 c2) = VB (t_from_till a c1 c2).
Proof. exact fromTill_ok. Qed.
Print Assumptions C13_subStringFromTill_spec.

(* StringFromMaskedBits (after the D11b repair), every 64-bit value and mask, every byte count *)
Theorem C13_maskedBits_spec : forall v m byteCount, v < ULONG_MOD -> m < ULONG_MOD -> maskedBits_m v m byteCount = Ok (t_masked v m byteCount).
Proof. exact masked_ok. Qed.
Print Assumptions C13_maskedBits_spec.

Theorem C13_binary_spec : forall bytes, Forall (fun c => c < 256) bytes -> binary_m bytes (length bytes) = Ok (t_binary bytes).
Proof. exact binary_ok. Qed.
Print Assumptions C13_binary_spec.

(* ... and the executable oracle used on the implementation's observations accepts the model observation of EVERY valid scenario
   (single operations, repeat, padding, split, subStringFromTill, the formatters, operation sequences), which is never an error value *)
Theorem C13_scn_meets_spec : forall s, valid_scn s = true -> spec_scn s (run_scn s) = true.
Proof. exact scn_meets_spec. Qed.
Print Assumptions C13_scn_meets_spec.

Theorem C13_scn_safe : forall s, valid_scn s = true -> o_val (run_scn s) <> VErr.
Proof. exact scn_safe. Qed.
Print Assumptions C13_scn_safe.

Theorem C13_scn_embeds_operations : forall o, run_scn (SOp o) = run o /\ valid_scn (SOp o) = valid o /\ forall ob, spec_scn (SOp o) ob = spec o ob.
Proof. exact scn_embeds. Qed.
Print Assumptions C13_scn_embeds_operations.

(* ---- split() with a delimiter of EVERY length, and the SimpleStringCollection as an object with a history (C13_Coll.v) ---- *)
(* the textbook split t_split_str d s (C13_Life.v): walking s, a token ends with the byte at which an occurrence of d STARTS
   (occurrences may overlap; the empty delimiter occurs at every byte); what is left behind the last token is the last token unless
   s ends with d.  It has as many tokens as count() finds occurrences, one more unless the text ends with the delimiter ... *)
Theorem C13_split_textbook_token_count : forall d s, length (t_split_str d s) = (t_count s d + (if t_ends_with s d then 0 else 1))%nat.
Proof. exact t_split_str_length. Qed.
Print Assumptions C13_split_textbook_token_count.

(* ... the tokens and the rest put together again are the text: no byte is invented, none appears twice ... *)
Theorem C13_split_textbook_concat : forall d s, concat (fst (t_cuts d s)) ++ snd (t_cuts d s) = s.
Proof. exact t_cuts_concat. Qed.
Print Assumptions C13_split_textbook_concat.

(* ... when the text ends with a non-empty delimiter x :: d the tokens are the text WITHOUT its last |d| bytes: nothing is lost for a
   one-byte delimiter; for a longer one the delimiter's tail belongs to no token ("a--" at "--" is the one token "a-") ... *)
Theorem C13_split_textbook_delimiter_tail : forall x d s, t_ends_with s (x :: d) = true ->
  t_split_str (x :: d) s = fst (t_cuts (x :: d) s) /\ concat (t_split_str (x :: d) s) ++ d = s.
Proof. exact t_split_str_tail. Qed.
Print Assumptions C13_split_textbook_delimiter_tail.

(* ... and for a one-byte delimiter it is the definition of C13_split_spec / C13_sequence_spec *)
Theorem C13_split_textbook_single_byte : forall c s, t_split_str [c] s = t_split_all c s.
Proof. exact t_split_str_single. Qed.
Print Assumptions C13_split_textbook_single_byte.

(* split(): EVERY text, EVERY delimiter (empty, one byte, longer, overlapping itself, longer than the text, equal to it), any slack
   behind the two terminators, the collection in ANY earlier state: Ok (memory-safe, terminating), afterwards the collection's array is
   exactly the C strings of the textbook tokens and size_ is their number -- nothing of what the collection held before survives *)
Theorem C13_split_any_delimiter_spec : forall c a ra d rd, NN a -> NN d ->
  exists c', c_split c (a ++ 0 :: ra) (d ++ 0 :: rd) = Ok c'
             /\ c_arr c' = map cs (t_split_str d a) /\ c_size c' = length (t_split_str d a) /\ c_empty c' = c_empty c.
Proof. exact c_split_ok. Qed.
Print Assumptions C13_split_any_delimiter_spec.

(* one step (split / allocate / col[i] = s / the observers) from ANY state satisfying the invariant CI (size_ = length of the array,
   the array = the C strings of the textbook list): Ok, and the invariant again for the textbook list after the step *)
Theorem C13_collection_step_spec : forall c items q, CI c items -> valid_cop q = true ->
  exists c', kstep c q = Ok c' /\ CI c' (t_kstep items q).
Proof. exact kstep_ok. Qed.
Print Assumptions C13_collection_step_spec.

(* size(), col[i] for EVERY size_t i (outside the range: ""), the whole collection: the textbook answers *)
Theorem C13_collection_observers_spec : forall c items q, CI c items -> kobs c q = Ok (t_kobs items q).
Proof. exact kobs_ok. Qed.
Print Assumptions C13_collection_observers_spec.

(* EVERY history of steps on one collection *)
Theorem C13_collection_history_spec : forall ops c items, CI c items -> forallb valid_cop ops = true ->
  exists c' items' lg, krun c ops = Ok (c', lg) /\ CI c' items' /\ lg ++ t_snap items' = t_krun items ops.
Proof. exact krun_ok. Qed.
Print Assumptions C13_collection_history_spec.

(* NOT the code: allocate() keeping an array that is big enough.  On a fresh collection it is the same function ... *)
Theorem C13_collection_keep_array_unseen_when_fresh : forall a d, c_split_keep c_new a d = c_split c_new a d.
Proof. exact collection_keep_array_fresh. Qed.
Print Assumptions C13_collection_keep_array_unseen_when_fresh.

(* ... on a collection that holds a longer result it is wrong ("a,b,c,d" then "x,y": size() stays 4, "c," and "d" survive) *)
Theorem C13_collection_keep_array_refuted : ~ collection_keep_array_stmt.
Proof. exact collection_keep_array_refuted. Qed.
Print Assumptions C13_collection_keep_array_refuted.

(* NOT the code: a scan that steps over the WHOLE delimiter while the token count comes from the overlapping count().  For delimiters
   of at most one byte it is the code's loop ... *)
Theorem C13_split_whole_delimiter_step_unseen_for_short_delimiters : forall c a d rd, (length d <= 1)%nat -> NN d ->
  c_split_whole c a (d ++ 0 :: rd) = c_split c a (d ++ 0 :: rd).
Proof. exact split_whole_delimiter_short. Qed.
Print Assumptions C13_split_whole_delimiter_step_unseen_for_short_delimiters.

(* ... for a delimiter that overlaps itself it reads NULL + length ("aaa" at "aa") *)
Theorem C13_split_whole_delimiter_step_refuted : ~ split_whole_delimiter_stmt.
Proof. exact split_whole_delimiter_refuted. Qed.
Print Assumptions C13_split_whole_delimiter_step_refuted.

(* the character predicates and ToLower of the model ARE the source: equal, on every char value, to the definitions that
   tools/cxx2coq.py regenerates from clang's AST of SimpleString.cpp on every run (gen/Gen_Leaf.v) *)
Theorem C13_leaf_functions_are_the_source : forall c, c < 256 ->
    leaf_isDigit (sc c) = b2z (isDigit c) /\ leaf_isSpace (sc c) = b2z (isSpace c) /\
    leaf_isControl (sc c) = b2z (isControl c) /\ leaf_isControlWithShortEscapeSequence (sc c) = b2z (isControlShort c) /\
    leaf_ToLower (sc c) = sc (to_lower c).
Proof. exact C13_LeafTie.C13_leaf_functions_are_the_source. Qed.
Print Assumptions C13_leaf_functions_are_the_source.

(* ------------------------------------------------------------------------------------------------------------------
   The looping primitives of the model ARE the source: equal -- for every byte memory, every pointer and every sufficient
   fuel, including the inputs on which the code leaves a block (both sides say Oob) -- to the functions that tools/cxx2gal.py
   regenerates from clang's AST of SimpleString.cpp on every run (gen/Gen_LoopC13.v; memory model lib/CMem.v).
   ------------------------------------------------------------------------------------------------------------------ *)
Local Open Scope Z_scope.

Theorem C13_src_StrLen_is_the_model : forall fuel m b o, mem_ok m -> (length (view m (Ptr b o)) < fuel)%nat ->
  Z.of_nat (length (view m (Ptr b o))) < M64 ->
  src_StrLen fuel m (Ptr b o) = lift Z.of_nat (StrLen (view m (Ptr b o))).
Proof. exact src_StrLen_tie. Qed.
Print Assumptions C13_src_StrLen_is_the_model.

Theorem C13_src_StrCmp_is_the_model : forall fuel m b1 o1 b2 o2, mem_ok m -> (length (view m (Ptr b1 o1)) < fuel)%nat ->
  src_StrCmp fuel m (Ptr b1 o1) (Ptr b2 o2) = lift (fun z => z) (StrCmp (view m (Ptr b1 o1)) (view m (Ptr b2 o2))).
Proof. exact src_StrCmp_tie. Qed.
Print Assumptions C13_src_StrCmp_is_the_model.

Theorem C13_src_StrNCmp_is_the_model : forall fuel m b1 o1 b2 o2 n, mem_ok m -> 0 <= n < M64 ->
  (length (view m (Ptr b1 o1)) < fuel)%nat ->
  src_StrNCmp fuel m (Ptr b1 o1) (Ptr b2 o2) n =
    lift (fun z => z) (StrNCmp (view m (Ptr b1 o1)) (view m (Ptr b2 o2)) (Z.to_nat n)).
Proof. exact src_StrNCmp_tie. Qed.
Print Assumptions C13_src_StrNCmp_is_the_model.

Theorem C13_src_MemCmp_is_the_model : forall fuel m b1 o1 b2 o2 n, mem_ok m -> 0 <= n < M64 ->
  (length (view m (Ptr b1 o1)) < fuel)%nat ->
  src_MemCmp fuel m (Ptr b1 o1) (Ptr b2 o2) n =
    lift (fun z => z) (MemCmp (view m (Ptr b1 o1)) (view m (Ptr b2 o2)) (Z.to_nat n)).
Proof. exact src_MemCmp_tie. Qed.
Print Assumptions C13_src_MemCmp_is_the_model.

(* the model measures the needle before the loop, the source inside it: they differ only for an EMPTY haystack and a needle
   without terminator (the model says Oob, the source returns NULL without reading the needle further) -- excluded here *)
Theorem C13_src_StrStr_is_the_model : forall fuel m b1 o1 b2 o2, mem_ok m -> (length (view m (Ptr b1 o1)) < fuel)%nat ->
  (length (view m (Ptr b2 o2)) < fuel)%nat -> Z.of_nat (length (view m (Ptr b2 o2))) < M64 ->
  (forall r, view m (Ptr b1 o1) = 0%N :: r -> StrLen (view m (Ptr b2 o2)) = C13_Model.Oob -> view m (Ptr b2 o2) = []) ->
  src_StrStr fuel m (Ptr b1 o1) (Ptr b2 o2) =
    lift (fun r => match r with Some k => Ptr b1 (o1 + Z.of_nat k) | None => Null end)
         (StrStr (view m (Ptr b1 o1)) (view m (Ptr b2 o2))).
Proof. exact src_StrStr_tie. Qed.
Print Assumptions C13_src_StrStr_is_the_model.

Theorem C13_src_StrNCpy_is_the_model : forall fuel m bd od bs os n, mem_ok m -> bd <> bs -> (bd < length m)%nat -> 0 <= od ->
  0 <= n < M64 -> (length (view m (Ptr bs os)) < fuel)%nat ->
  src_StrNCpy fuel m (Ptr bd od) (Ptr bs os) n =
    match StrNCpy (block m bd) (Z.to_nat od) (view m (Ptr bs os)) (Z.to_nat n) with
    | C13_Model.Ok d' => FOk (Ptr bd od, upd m bd d') | _ => FOob end.
Proof. exact src_StrNCpy_tie. Qed.
Print Assumptions C13_src_StrNCpy_is_the_model.

Theorem C13_src_AtoU_is_the_model : forall fuel m b o, mem_ok m -> (length (view m (Ptr b o)) < fuel)%nat ->
  src_AtoU fuel m (Ptr b o) = lift (fun z => z) (AtoU (view m (Ptr b o))).
Proof. exact src_AtoU_tie. Qed.
Print Assumptions C13_src_AtoU_is_the_model.

(* signed overflow is undefined behaviour in the source (the translation wraps, the model says Ub): excluded *)
Theorem C13_src_AtoI_is_the_model : forall fuel m b o, mem_ok m -> (length (view m (Ptr b o)) < fuel)%nat ->
  AtoI (view m (Ptr b o)) <> C13_Model.Ub ->
  src_AtoI fuel m (Ptr b o) = lift (fun z => z) (AtoI (view m (Ptr b o))).
Proof. exact src_AtoI_tie. Qed.
Print Assumptions C13_src_AtoI_is_the_model.

(* ------------------------------------------------------------------------------------------------------------------
   ... hence the translated source has the textbook meaning on C strings, is memory safe and terminates (FOk = returned within
   the fuel without any access outside the blocks of its arguments); a fuel just above the string length suffices.
   ------------------------------------------------------------------------------------------------------------------ *)
Theorem C13_src_StrLen_spec : forall fuel m b o s r, mem_ok m -> cstr_at m (Ptr b o) s r ->
  (length (s ++ 0%N :: r) < fuel)%nat -> Z.of_nat (length (s ++ 0%N :: r)) < M64 ->
  src_StrLen fuel m (Ptr b o) = FOk (Z.of_nat (length s)).
Proof. exact src_StrLen_spec. Qed.
Print Assumptions C13_src_StrLen_spec.

Theorem C13_src_StrCmp_spec : forall fuel m b1 o1 b2 o2 a ra c rc, mem_ok m ->
  cstr_at m (Ptr b1 o1) a ra -> cstr_at m (Ptr b2 o2) c rc -> (length (a ++ 0%N :: ra) < fuel)%nat ->
  exists d, src_StrCmp fuel m (Ptr b1 o1) (Ptr b2 o2) = FOk d /\ Z.sgn d = cmp_z (str_cmp a c).
Proof. exact src_StrCmp_spec. Qed.
Print Assumptions C13_src_StrCmp_spec.

Theorem C13_src_StrNCmp_spec : forall fuel m b1 o1 b2 o2 a ra c rc n, mem_ok m ->
  cstr_at m (Ptr b1 o1) a ra -> cstr_at m (Ptr b2 o2) c rc -> 0 <= n < M64 -> (length (a ++ 0%N :: ra) < fuel)%nat ->
  exists d, src_StrNCmp fuel m (Ptr b1 o1) (Ptr b2 o2) n = FOk d /\ Z.sgn d = cmp_z (t_ncmp (Z.to_nat n) a c).
Proof. exact src_StrNCmp_spec. Qed.
Print Assumptions C13_src_StrNCmp_spec.

Theorem C13_src_MemCmp_spec : forall fuel m b1 o1 b2 o2 n, mem_ok m -> 0 <= n < M64 ->
  (Z.to_nat n <= length (view m (Ptr b1 o1)))%nat -> (Z.to_nat n <= length (view m (Ptr b2 o2)))%nat ->
  (length (view m (Ptr b1 o1)) < fuel)%nat ->
  exists d, src_MemCmp fuel m (Ptr b1 o1) (Ptr b2 o2) n = FOk d /\
            Z.sgn d = cmp_z (t_ncmp (Z.to_nat n) (view m (Ptr b1 o1)) (view m (Ptr b2 o2))).
Proof. exact src_MemCmp_spec. Qed.
Print Assumptions C13_src_MemCmp_spec.

Theorem C13_src_StrStr_spec : forall fuel m b1 o1 b2 o2 a ra c rc, mem_ok m ->
  cstr_at m (Ptr b1 o1) a ra -> cstr_at m (Ptr b2 o2) c rc ->
  (length (a ++ 0%N :: ra) < fuel)%nat -> (length (c ++ 0%N :: rc) < fuel)%nat -> Z.of_nat (length (c ++ 0%N :: rc)) < M64 ->
  src_StrStr fuel m (Ptr b1 o1) (Ptr b2 o2) =
    FOk (match find_sub a c with Some k => Ptr b1 (o1 + Z.of_nat k) | None => Null end).
Proof. exact src_StrStr_spec. Qed.
Print Assumptions C13_src_StrStr_spec.

Theorem C13_src_StrNCpy_spec : forall fuel m bd bs os n s r pre mid post, mem_ok m -> bd <> bs -> (bd < length m)%nat ->
  1 <= n < M64 -> cstr_at m (Ptr bs os) s r -> block m bd = pre ++ mid ++ post ->
  length mid = Nat.min (Z.to_nat n) (S (length s)) -> (length (s ++ 0%N :: r) < fuel)%nat ->
  src_StrNCpy fuel m (Ptr bd (Z.of_nat (length pre))) (Ptr bs os) n =
    FOk (Ptr bd (Z.of_nat (length pre)), upd m bd (pre ++ firstn (length mid) (s ++ [0%N]) ++ post)).
Proof. exact src_StrNCpy_spec. Qed.
Print Assumptions C13_src_StrNCpy_spec.

Theorem C13_src_AtoU_spec : forall fuel m b o s r, mem_ok m -> view m (Ptr b o) = s ++ 0%N :: r -> BY s ->
  (length (s ++ 0%N :: r) < fuel)%nat -> src_AtoU fuel m (Ptr b o) = FOk (t_atou s).
Proof. exact src_AtoU_spec. Qed.
Print Assumptions C13_src_AtoU_spec.

Theorem C13_src_AtoI_spec : forall fuel m b o s r, mem_ok m -> view m (Ptr b o) = s ++ 0%N :: r -> BY s ->
  t_dec_value (t_atoi_digits s) <= 2147483647 ->
  (length (s ++ 0%N :: r) < fuel)%nat -> src_AtoI fuel m (Ptr b o) = FOk (t_atoi s).
Proof. exact src_AtoI_spec. Qed.
Print Assumptions C13_src_AtoI_spec.

(* ------------------------------------------------------------------------------------------------------------------
   ... and the SimpleString methods built on the primitives, translated from the same file with the object's buffer_ as the
   pointer argument (this first, then the SimpleString argument): textbook meaning, memory safety, termination.
   ------------------------------------------------------------------------------------------------------------------ *)
Theorem C13_src_size_spec :
  forall (fuel : nat) (m : memory) (b : nat) (o : Z) (s r : list N),
  mem_ok m ->
  cstr_at m (Ptr b o) s r ->
  (length (s ++ 0%N :: r) < fuel)%nat ->
  Z.of_nat (length (s ++ 0%N :: r)) < M64 -> src_size fuel m (Ptr b o) = FOk (Z.of_nat (length s)).
Proof. exact C13_SrcSpec2.src_size_spec. Qed.
Print Assumptions C13_src_size_spec.

Theorem C13_src_isEmpty_spec :
  forall (fuel : nat) (m : memory) (b : nat) (o : Z) (s r : list N),
  mem_ok m ->
  cstr_at m (Ptr b o) s r ->
  (length (s ++ 0%N :: r) < fuel)%nat ->
  Z.of_nat (length (s ++ 0%N :: r)) < M64 -> src_isEmpty fuel m (Ptr b o) = FOk (b2z (length s =? 0)%nat).
Proof. exact src_isEmpty_spec. Qed.
Print Assumptions C13_src_isEmpty_spec.

Theorem C13_src_at_spec :
  forall (fuel : nat) (m : memory) (b : nat) (o pos : Z) (l : list N),
  mem_ok m ->
  view m (Ptr b o) = l ->
  (Z.to_nat pos < length l)%nat ->
  0 <= pos -> src_at fuel m (Ptr b o) pos = FOk (schar (nth (Z.to_nat pos) l 0%N)).
Proof. exact src_at_spec. Qed.
Print Assumptions C13_src_at_spec.

Theorem C13_src_at_oob :
  forall (fuel : nat) (m : memory) (b : nat) (o pos : Z) (l : list N),
  mem_ok m ->
  view m (Ptr b o) = l ->
  0 <= o -> (length l <= Z.to_nat pos)%nat /\ 0 <= pos \/ o + pos < 0 -> src_at fuel m (Ptr b o) pos = FOob.
Proof. exact src_at_oob. Qed.
Print Assumptions C13_src_at_oob.

Theorem C13_src_contains_spec :
  forall (fuel : nat) (m : memory) (b1 : nat) (o1 : Z) (b2 : nat) (o2 : Z) (a ra c rc : list N),
  mem_ok m ->
  cstr_at m (Ptr b1 o1) a ra ->
  cstr_at m (Ptr b2 o2) c rc ->
  (length (a ++ 0%N :: ra) < fuel)%nat ->
  (length (c ++ 0%N :: rc) < fuel)%nat ->
  Z.of_nat (length (c ++ 0%N :: rc)) < M64 ->
  src_contains fuel m (Ptr b1 o1) (Ptr b2 o2) = FOk (b2z (contains a c)).
Proof. exact src_contains_spec. Qed.
Print Assumptions C13_src_contains_spec.

Theorem C13_src_startsWith_spec :
  forall (fuel : nat) (m : memory) (b1 : nat) (o1 : Z) (b2 : nat) (o2 : Z) (a ra c rc : list N),
  mem_ok m ->
  cstr_at m (Ptr b1 o1) a ra ->
  cstr_at m (Ptr b2 o2) c rc ->
  (length (a ++ 0%N :: ra) < fuel)%nat ->
  (length (c ++ 0%N :: rc) < fuel)%nat ->
  Z.of_nat (length (a ++ 0%N :: ra)) < M64 ->
  Z.of_nat (length (c ++ 0%N :: rc)) < M64 ->
  src_startsWith fuel m (Ptr b1 o1) (Ptr b2 o2) = FOk (b2z (is_prefix c a)).
Proof. exact src_startsWith_spec. Qed.
Print Assumptions C13_src_startsWith_spec.

Theorem C13_src_endsWith_spec :
  forall (fuel : nat) (m : memory) (b1 : nat) (o1 : Z) (b2 : nat) (o2 : Z) (a ra c rc : list N),
  mem_ok m ->
  cstr_at m (Ptr b1 o1) a ra ->
  cstr_at m (Ptr b2 o2) c rc ->
  (length (a ++ 0%N :: ra) < fuel)%nat ->
  (length (c ++ 0%N :: rc) < fuel)%nat ->
  Z.of_nat (length (a ++ 0%N :: ra)) < M64 ->
  Z.of_nat (length (c ++ 0%N :: rc)) < M64 ->
  src_endsWith fuel m (Ptr b1 o1) (Ptr b2 o2) = FOk (b2z (t_ends_with a c)).
Proof. exact src_endsWith_spec. Qed.
Print Assumptions C13_src_endsWith_spec.

Theorem C13_src_equal_spec :
  forall (fuel : nat) (m : memory) (b1 : nat) (o1 : Z) (b2 : nat) (o2 : Z) (a ra c rc : list N),
  mem_ok m ->
  cstr_at m (Ptr b1 o1) a ra ->
  cstr_at m (Ptr b2 o2) c rc ->
  (length (a ++ 0%N :: ra) < fuel)%nat -> src_equal fuel m (Ptr b1 o1) (Ptr b2 o2) = FOk (b2z (bytes_eqb a c)).
Proof. exact src_equal_spec. Qed.
Print Assumptions C13_src_equal_spec.

Theorem C13_src_count_spec :
  forall (fuel : nat) (m : memory) (b1 : nat) (o1 : Z) (b2 : nat) (o2 : Z) (a ra c rc : list N),
  mem_ok m ->
  cstr_at m (Ptr b1 o1) a ra ->
  cstr_at m (Ptr b2 o2) c rc ->
  (length (a ++ 0%N :: ra) < fuel)%nat ->
  (length (c ++ 0%N :: rc) < fuel)%nat ->
  Z.of_nat (length (a ++ 0%N :: ra)) < M64 ->
  Z.of_nat (length (c ++ 0%N :: rc)) < M64 ->
  src_count fuel m (Ptr b1 o1) (Ptr b2 o2) = FOk (Z.of_nat (t_count a c)).
Proof. exact src_count_spec. Qed.
Print Assumptions C13_src_count_spec.

Theorem C13_src_findFrom_spec :
  forall (fuel : nat) (m : memory) (b : nat) (o : Z) (a r : list N) (start : Z) (ch : N),
  mem_ok m ->
  cstr_at m (Ptr b o) a r ->
  (length (a ++ 0%N :: r) < fuel)%nat ->
  Z.of_nat (length (a ++ 0%N :: r)) < M64 ->
  0 <= start < M64 ->
  0 <= o ->
  (ch < 256)%N ->
  src_findFrom fuel m (Ptr b o) start (schar ch) =
  FOk match t_find_from a (Z.to_N start) ch with
  | Some i => Z.of_N i
  | None => 18446744073709551615
  end.
Proof. exact src_findFrom_spec. Qed.
Print Assumptions C13_src_findFrom_spec.

Theorem C13_src_find_spec :
  forall (fuel : nat) (m : memory) (b : nat) (o : Z) (a r : list N) (ch : N),
  mem_ok m ->
  cstr_at m (Ptr b o) a r ->
  (length (a ++ 0%N :: r) < fuel)%nat ->
  Z.of_nat (length (a ++ 0%N :: r)) < M64 ->
  0 <= o ->
  (ch < 256)%N ->
  src_find fuel m (Ptr b o) (schar ch) =
  FOk match t_find_from a 0 ch with
  | Some i => Z.of_N i
  | None => 18446744073709551615
  end.
Proof. exact src_find_spec. Qed.
Print Assumptions C13_src_find_spec.

Theorem C13_src_replaceChar_spec :
  forall (fuel : nat) (m : memory) (b : nat) (o : Z) (pre s r : list N) (c1 c2 : N),
  mem_ok m ->
  (b < length m)%nat ->
  0 <= o ->
  block m b = pre ++ s ++ 0%N :: r ->
  length pre = Z.to_nat o ->
  NN s ->
  (c1 < 256)%N ->
  (c2 < 256)%N ->
  (length (s ++ 0%N :: r) < fuel)%nat ->
  Z.of_nat (length (s ++ 0%N :: r)) < M64 ->
  src_replaceChar fuel m (Ptr b o) (schar c1) (schar c2) =
  FOk (tt, upd m b (pre ++ t_repl_char c1 c2 s ++ 0%N :: r)).
Proof. exact src_replaceChar_spec. Qed.
Print Assumptions C13_src_replaceChar_spec.

Theorem C13_src_getPrintableSize_spec :
  forall (fuel : nat) (m : memory) (b : nat) (o : Z) (s r : list N),
  mem_ok m ->
  cstr_at m (Ptr b o) s r ->
  0 <= o ->
  (length (s ++ 0%N :: r) < fuel)%nat ->
  Z.of_nat (length (s ++ 0%N :: r)) < M64 ->
  Z.of_nat (4 * length s) < M64 ->
  src_getPrintableSize fuel m (Ptr b o) = FOk (Z.of_nat (length (t_printable s))).
Proof. exact src_getPrintableSize_spec. Qed.
Print Assumptions C13_src_getPrintableSize_spec.

Theorem C13_src_copyToBuffer_spec :
  forall (fuel : nat) (m : memory) (b : nat) (o : Z) (bd : nat) (s r dst : list N) (dn : nat),
  mem_ok m ->
  bd <> b ->
  (bd < length m)%nat ->
  cstr_at m (Ptr b o) s r ->
  0 <= o ->
  block m bd = dst ->
  length dst = dn ->
  (1 <= dn)%nat ->
  Z.of_nat dn < M64 ->
  (length (s ++ 0%N :: r) < fuel)%nat ->
  Z.of_nat (length (s ++ 0%N :: r)) < M64 ->
  src_copyToBuffer fuel m (Ptr b o) (Ptr bd 0) (Z.of_nat dn) =
  FOk
  (tt, upd m bd (firstn (Nat.min (dn - 1) (length s)) s ++ 0%N :: skipn (S (Nat.min (dn - 1) (length s))) dst)).
Proof. exact src_copyToBuffer_spec. Qed.
Print Assumptions C13_src_copyToBuffer_spec.

Theorem C13_src_copyToBuffer_fresh :
  forall (fuel : nat) (m : memory) (b : nat) (o : Z) (bd : nat) (s r : list N) (dn : nat),
  mem_ok m ->
  bd <> b ->
  (bd < length m)%nat ->
  cstr_at m (Ptr b o) s r ->
  0 <= o ->
  block m bd = fresh dn ->
  (1 <= dn)%nat ->
  Z.of_nat dn < M64 ->
  (length (s ++ 0%N :: r) < fuel)%nat ->
  Z.of_nat (length (s ++ 0%N :: r)) < M64 ->
  src_copyToBuffer fuel m (Ptr b o) (Ptr bd 0) (Z.of_nat dn) = FOk (tt, upd m bd (t_copy_out s dn)).
Proof. exact src_copyToBuffer_fresh. Qed.
Print Assumptions C13_src_copyToBuffer_fresh.

(* ---------------- ALIASING: the argument of an operation points into the object's OWN buffer (C13_Alias.v: buffers in a heap of blocks, a
   released block cannot be read, a pointer is turned into cells at the moment the code reads through it) *)
From CppUVerif Require Import C13_Alias C13_AliasProofs.

(* s = s.asCharString() + k (also: SimpleString t(s.asCharString() + k); s = t) for EVERY offset into the buffer, the terminator included:
   no released or foreign cell is read, the object's new live buffer holds exactly the suffix *)
Theorem C13_alias_assign_from_own_buffer : forall h sid s k, AI (h, sid) s -> OKS s -> (k <= length s)%nat ->
  exists st', assign_cstr h sid k = Ok st' /\ AI st' (skipn k s).
Proof. exact assign_cstr_ok. Qed.
Print Assumptions C13_alias_assign_from_own_buffer.

(* s += s.asCharString() + k, s += s (k = 0) *)
Theorem C13_alias_append_from_own_buffer : forall h sid s k, AI (h, sid) s -> OKS s -> (k <= length s)%nat ->
  exists st', append_ptr h sid k = Ok st' /\ AI st' (s ++ skipn k s).
Proof. exact append_ptr_ok. Qed.
Print Assumptions C13_alias_append_from_own_buffer.

(* s.replace(s.asCharString() + k1, s.asCharString() + k2) *)
Theorem C13_alias_replace_from_own_buffer : forall h sid s k1 k2, AI (h, sid) s -> OKS s -> (k1 <= length s)%nat -> (k2 <= length s)%nat ->
  exists st', replace_ptr h sid k1 k2 = Ok st' /\ AI st' (t_replace s (skipn k1 s) (skipn k2 s)).
Proof. exact replace_ptr_ok. Qed.
Print Assumptions C13_alias_replace_from_own_buffer.

(* every statement of the aliasing language from every state satisfying the invariant: Ok, the invariant again, the textbook value *)
Theorem C13_alias_step_spec : forall st s q, AI st s -> OKS s -> valid_aop s q = true ->
  exists st', astep st q = Ok st' /\ AI st' (t_astep s q) /\ OKS (t_astep s q).
Proof. exact astep_ok. Qed.
Print Assumptions C13_alias_step_spec.

(* every observer (==, contains, startsWith, endsWith, count with a pointer into itself / with itself, StrStr and StrCmp inside one buffer)
   reports the textbook entry *)
Theorem C13_alias_observers_spec : forall st s q, AI st s -> OKS s -> valid_aop s q = true -> aobs st q = Ok (t_aobs s q).
Proof. exact aobs_ok. Qed.
Print Assumptions C13_alias_observers_spec.

(* every history *)
Theorem C13_alias_history_spec : forall ops st s, AI st s -> OKS s -> valid_aops s ops = true ->
  exists st' s', arun st ops = Ok (st', tl (t_arun s ops)) /\ AI st' s' /\ OKS s' /\ hd [] (t_arun s ops) = s'.
Proof. exact arun_ok. Qed.
Print Assumptions C13_alias_history_spec.

(* the scenario language of the check, extended by the aliasing histories: the oracle accepts every model observation, which is never an error *)
Theorem C13_xscn_meets_spec : forall x, valid_x x = true -> spec_x x (run_x x) = true.
Proof. exact x_meets_spec. Qed.
Print Assumptions C13_xscn_meets_spec.
Theorem C13_xscn_safe : forall x, valid_x x = true -> o_val (run_x x) <> VErr.
Proof. exact x_safe. Qed.
Print Assumptions C13_xscn_safe.
Theorem C13_xscn_embeds_scenarios : forall s, run_x (XOld s) = run_scn s /\ valid_x (XOld s) = valid_scn s /\ forall ob, spec_x (XOld s) ob = spec_scn s ob.
Proof. intro s. repeat split. Qed.
Print Assumptions C13_xscn_embeds_scenarios.

(* refuted variant: a direct overload operator=(const char* ) that releases the old buffer before reading its argument reads a released
   buffer for EVERY pointer into the own buffer ... *)
Theorem C13_alias_assign_direct_refuted : forall h sid k, assign_cstr_direct h sid sid k = Oob.
Proof. exact assign_direct_own_refuted. Qed.
Print Assumptions C13_alias_assign_direct_refuted.
(* ... and is the same assignment whenever the argument lives in another live block (why no test with a literal or a second object sees it) *)
Theorem C13_alias_assign_direct_unseen_for_foreign_arguments : forall h sid ob s a k, AI (h, sid) s -> ob <> sid -> h_get h ob = Some (cs a) -> OKS a ->
  (k <= length a)%nat -> exists st', assign_cstr_direct h sid ob k = Ok st' /\ AI st' (skipn k a).
Proof. exact assign_direct_foreign_same_value. Qed.
Print Assumptions C13_alias_assign_direct_unseen_for_foreign_arguments.
