(* C15: how the object heap of the TRANSLATED LocationToFailAllocNode / FailableMemoryAllocator (gen/Gen_HeapC15.v, lib/CHeap.v)
   represents the values of the hand-written model (C15_Model.v): a pending node is a block of 5 cells in the declaration order
   of class LocationToFailAllocNode (the generated off_... constants are checked against this order below), the pending list is
   a NULL-terminated chain of such blocks from the allocator's head_ cell, the allocator object (own members only) is a block of
   2 cells [head_; currentAllocNumber_].  A source file name of type const char-pointer is an opaque integer in the translation: the
   representation is relative to an encoding fc : list N -> Z of file names (the theorems of C15_HeapTie.v assume that it is
   injective and never 0; file_ == 0 means "global index node").
   Definitions and their basic facts only; the theorems about the translated functions are in C15_HeapTie.v. *)
From Coq Require Import ZArith NArith Bool List Lia.
From CppUVerif Require Import lib.CSem lib.CMem lib.CMemFacts lib.CHeap lib.Str gen.Gen_HeapC15 C15_Model.
Import ListNotations.
Local Open Scope Z_scope.

(* the cell order used below is the order of the class definitions as clang reports it now *)
Lemma node_layout_is_the_source :
  off_LocationToFailAllocNode_allocNumberToFail_ = 0 /\ off_LocationToFailAllocNode_actualAllocNumber_ = 1 /\
  off_LocationToFailAllocNode_file_ = 2 /\ off_LocationToFailAllocNode_line_ = 3 /\ off_LocationToFailAllocNode_next_ = 4 /\
  cells_LocationToFailAllocNode = 5 /\
  off_FailableMemoryAllocator_head_ = 0 /\ off_FailableMemoryAllocator_currentAllocNumber_ = 1 /\
  cells_FailableMemoryAllocator = 2.
Proof. repeat split; reflexivity. Qed.

(* values of the model that are C values of the fields' types: int allocNumberToFail_, int actualAllocNumber_, size_t line_ *)
Definition int_ok (z : Z) : Prop := - 2 ^ 31 <= z < 2 ^ 31.
Definition node_ok (nd : node) : Prop :=
  int_ok (n_num nd) /\ int_ok (n_act nd) /\ match n_loc nd with Some l => (snd l < 2 ^ 64)%N | None => True end.

Section Rep.
  Variable fc : list N -> Z.                     (* the address of the string literal naming a file *)

  Definition file_code (o : option loc) : Z := match o with Some l => fc (fst l) | None => 0 end.
  Definition line_code (o : option loc) : Z := match o with Some l => Z.of_N (snd l) | None => 0 end.

  (* the cells of one LocationToFailAllocNode whose next_ is nxt: allocNumberToFail_ actualAllocNumber_ file_ line_ next_ *)
  Definition node_cells (nd : node) (nxt : hptr) : list val :=
    [VInt (n_num nd); VInt (n_act nd); VInt (file_code (n_loc nd)); VInt (line_code (n_loc nd)); VPtr nxt].

  (* chain h p bs ns: from pointer p the blocks bs (in this order) hold the nodes ns, linked by next_, ending in NULL *)
  Fixpoint chain (h : heap) (p : hptr) (bs : list nat) (ns : list node) : Prop :=
    match ns, bs with
    | [], [] => p = HNull
    | n :: ns', b :: bs' => p = HPtr b 0 /\ exists nxt, hblock h b = node_cells n nxt /\ chain h nxt bs' ns'
    | _, _ => False
    end.

  (* the FailableMemoryAllocator object is block bt = [head_; currentAllocNumber_]; the pending nodes are the blocks bs *)
  Definition fail_at (h : heap) (bt : nat) (bs : list nat) (s : st) : Prop :=
    exists hd, hblock h bt = [VPtr hd; VInt (s_cur s)] /\ chain h hd bs (s_nodes s) /\ NoDup bs /\
               Forall node_ok (s_nodes s) /\ int_ok (s_cur s) /\
               Forall (fun b => (b < length h)%nat) bs /\ ~ In bt bs /\ (bt < length h)%nat.

  (* basic facts *)
  Lemma node_cells_length nd nxt : length (node_cells nd nxt) = 5%nat. Proof. reflexivity. Qed.
  Lemma node_cells_layout nd nxt :
    nth_error (node_cells nd nxt) (Z.to_nat off_LocationToFailAllocNode_allocNumberToFail_) = Some (VInt (n_num nd)) /\
    nth_error (node_cells nd nxt) (Z.to_nat off_LocationToFailAllocNode_actualAllocNumber_) = Some (VInt (n_act nd)) /\
    nth_error (node_cells nd nxt) (Z.to_nat off_LocationToFailAllocNode_file_) = Some (VInt (file_code (n_loc nd))) /\
    nth_error (node_cells nd nxt) (Z.to_nat off_LocationToFailAllocNode_line_) = Some (VInt (line_code (n_loc nd))) /\
    nth_error (node_cells nd nxt) (Z.to_nat off_LocationToFailAllocNode_next_) = Some (VPtr nxt) /\
    Z.of_nat (length (node_cells nd nxt)) = cells_LocationToFailAllocNode.
  Proof. repeat split; reflexivity. Qed.
  Lemma fail_at_layout h bt bs s : fail_at h bt bs s ->
    exists hd, nth_error (hblock h bt) (Z.to_nat off_FailableMemoryAllocator_head_) = Some (VPtr hd) /\
               nth_error (hblock h bt) (Z.to_nat off_FailableMemoryAllocator_currentAllocNumber_) = Some (VInt (s_cur s)) /\
               Z.of_nat (length (hblock h bt)) = cells_FailableMemoryAllocator.
  Proof. intros [hd [H _]]. exists hd. rewrite H. repeat split; reflexivity. Qed.

  Lemma chain_nil_inv h p bs : chain h p bs [] -> p = HNull /\ bs = [].
  Proof. destruct bs; cbn; [intro H; split; [exact H | reflexivity] | intros []]. Qed.
  Lemma chain_cons_inv h p bs n ns : chain h p bs (n :: ns) ->
    exists b bs' nxt, bs = b :: bs' /\ p = HPtr b 0 /\ hblock h b = node_cells n nxt /\ chain h nxt bs' ns.
  Proof.
    destruct bs as [|b bs']; cbn; [intros []|]. intros [Hp [nxt [Hb Hc]]]. exists b, bs', nxt. repeat split; assumption.
  Qed.
  Lemma chain_length h : forall ns p bs, chain h p bs ns -> length bs = length ns.
  Proof.
    induction ns as [|n ns IH]; intros p bs H.
    - apply chain_nil_inv in H. destruct H as [_ ->]. reflexivity.
    - apply chain_cons_inv in H. destruct H as [b [bs' [nxt [-> [_ [_ Hc]]]]]]. cbn. f_equal. exact (IH _ _ Hc).
  Qed.
  (* a chain only depends on the blocks it goes through *)
  Lemma chain_frame h h' : forall ns p bs, (forall b, In b bs -> hblock h' b = hblock h b) -> chain h p bs ns -> chain h' p bs ns.
  Proof.
    induction ns as [|n ns IH]; intros p bs Hf H.
    - apply chain_nil_inv in H. destruct H as [-> ->]. reflexivity.
    - apply chain_cons_inv in H. destruct H as [b [bs' [nxt [-> [-> [Hb Hc]]]]]]. cbn. split; [reflexivity|]. exists nxt. split.
      + rewrite Hf by (left; reflexivity). exact Hb.
      + apply IH; [|exact Hc]. intros b' Hin. apply Hf. right. exact Hin.
  Qed.
End Rep.

(* the arithmetic of the two int counters: x++ does not wrap below 2^31 - 1 *)
Lemma int_ok_incr z : int_ok z -> z + 1 < 2 ^ 31 -> cw 32 true (z + 1) = z + 1 /\ int_ok (z + 1).
Proof.
  unfold int_ok. intros H L. split; [|lia]. apply cw_s_small; [lia|]. change (32 - 1) with 31. lia.
Qed.
