(* C11 -- termination of the wait loop on every outcome stream, exact failure lists, transparency of tolerated EINTRs,
   independence of each test from what happened before it *)
From Coq Require Import NArith ZArith List Bool Arith Lia ZifyBool.
From CppUVerif Require Import gen.Gen_C11 C11_Model C11_Words C11_Proofs.
Import ListNotations.
Local Open Scope N_scope.

Definition ends_loop (o : wout) : bool :=
  match o with WErr => true | WStat w => wifexited w || wifsignaled w | WEintr => false end.
Definition is_eintr (o : wout) : bool := match o with WEintr => true | _ => false end.
Definition count_eintr (ws : list wout) : nat := length (filter is_eintr ws).

(* ---- the loop looks at a prefix only ---- *)
Lemma calls_le : forall ws r, (lr_calls (parent_loop r ws) <= length ws)%nat.
Proof.
  induction ws as [|o tl IH]; intro r; [simpl; lia|].
  destruct o as [| |w]; simpl.
  - destruct (gives_up r); simpl; [lia|]. specialize (IH (r + 1)). lia.
  - lia.
  - destruct (wifexited w || wifsignaled w); simpl; [lia|]. specialize (IH r). lia.
Qed.

Lemma loop_app : forall ws r rest, lr_end (parent_loop r ws) <> EndStreamOut -> parent_loop r (ws ++ rest) = parent_loop r ws.
Proof.
  induction ws as [|o tl IH]; intros r rest H; [simpl in H; congruence|].
  destruct o as [| |w]; simpl in *.
  - destruct (gives_up r); [reflexivity|]. simpl in H. rewrite IH by exact H. reflexivity.
  - reflexivity.
  - destruct (wifexited w || wifsignaled w); [reflexivity|]. simpl in H. rewrite IH by exact H. reflexivity.
Qed.

Lemma loop_firstn : forall ws r, parent_loop r (firstn (lr_calls (parent_loop r ws)) ws) = parent_loop r ws.
Proof.
  induction ws as [|o tl IH]; intro r; [reflexivity|].
  destruct o as [| |w]; simpl.
  - destruct (gives_up r) eqn:G; simpl; rewrite G; [reflexivity|]. rewrite IH. reflexivity.
  - reflexivity.
  - destruct (wifexited w || wifsignaled w) eqn:G; simpl; rewrite G; [reflexivity|]. rewrite IH. reflexivity.
Qed.

(* ---- it ends at the first outcome that ends a wait ---- *)
Lemma terminal_ends : forall ws1 t ws2 r, ends_loop t = true ->
  lr_end (parent_loop r (ws1 ++ t :: ws2)) <> EndStreamOut /\ (lr_calls (parent_loop r (ws1 ++ t :: ws2)) <= S (length ws1))%nat.
Proof.
  induction ws1 as [|o tl IH]; intros t ws2 r Ht.
  - simpl. destruct t as [| |w]; simpl in *; try discriminate.
    + split; [congruence|lia].
    + rewrite Ht. simpl. split; [congruence|lia].
  - destruct o as [| |w]; simpl.
    + destruct (gives_up r); simpl; [split; [congruence|lia]|].
      destruct (IH t ws2 (r + 1) Ht) as [I1 I2]. split; [exact I1|lia].
    + split; [congruence|lia].
    + destruct (wifexited w || wifsignaled w); simpl; [split; [congruence|lia]|].
      destruct (IH t ws2 r Ht) as [I1 I2]. split; [exact I1|lia].
Qed.

(* ---- EINTR: never more than budget+1 consumed; more than the budget in the stream always ends the loop ---- *)
Lemma eintr_bounded : forall ws r,
  (count_eintr (firstn (lr_calls (parent_loop r ws)) ws) <= S (budget_of r))%nat.
Proof.
  induction ws as [|o tl IH]; intro r; [simpl; unfold count_eintr; simpl; lia|].
  destruct o as [| |w]; simpl.
  - rewrite gives_up_budget. destruct (budget_of r) as [|b] eqn:B; simpl.
    + unfold count_eintr. simpl. lia.
    + specialize (IH (r + 1)). rewrite (budget_succ _ _ B) in IH. unfold count_eintr in *. simpl. lia.
  - unfold count_eintr. simpl. lia.
  - destruct (wifexited w || wifsignaled w); simpl; unfold count_eintr in *; simpl; [lia|]. specialize (IH r). lia.
Qed.

Lemma eintr_overrun_ends : forall ws r, (budget_of r < count_eintr ws)%nat -> lr_end (parent_loop r ws) <> EndStreamOut.
Proof.
  induction ws as [|o tl IH]; intros r H; [unfold count_eintr in H; simpl in H; lia|].
  destruct o as [| |w]; simpl.
  - rewrite gives_up_budget. destruct (budget_of r) as [|b] eqn:B; simpl; [congruence|].
    apply IH. rewrite (budget_succ _ _ B). unfold count_eintr in *. simpl in H. lia.
  - congruence.
  - destruct (wifexited w || wifsignaled w); simpl; [congruence|]. apply IH. unfold count_eintr in *. simpl in H. exact H.
Qed.

(* running out of oracle means: nothing in the list ends a wait and the EINTRs fit the budget *)
Lemma stream_out_only_if : forall ws r, lr_end (parent_loop r ws) = EndStreamOut ->
  forallb (fun o => negb (ends_loop o)) ws = true /\ (count_eintr ws <= budget_of r)%nat /\ lr_calls (parent_loop r ws) = length ws.
Proof.
  induction ws as [|o tl IH]; intros r H; [repeat split; unfold count_eintr; simpl; lia|].
  destruct o as [| |w]; simpl in *.
  - rewrite gives_up_budget in *. destruct (budget_of r) as [|b] eqn:B; simpl in H; [discriminate|].
    destruct (IH (r + 1) H) as [I1 [I2 I3]]. rewrite (budget_succ _ _ B) in I2. unfold count_eintr in *. simpl.
    repeat split; [exact I1|lia|lia].
  - discriminate.
  - destruct (wifexited w || wifsignaled w) eqn:G; simpl in *; [discriminate|].
    destruct (IH r H) as [I1 [I2 I3]]. unfold count_eintr in *. simpl. repeat split; [exact I1|exact I2|lia].
Qed.

(* ---- for every infinite oracle stream ---- *)
Definition prefix (f : nat -> wout) (n : nat) : list wout := map f (seq 0 n).
Lemma prefix_split f n m : (n <= m)%nat -> prefix f m = prefix f n ++ map f (seq n (m - n)).
Proof.
  intro H. unfold prefix. rewrite <- map_app. f_equal.
  replace m with (n + (m - n))%nat at 1 by lia. rewrite seq_app. reflexivity.
Qed.
Lemma prefix_S f n : prefix f (S n) = prefix f n ++ [f n].
Proof. unfold prefix. rewrite seq_S, map_app. reflexivity. Qed.
Lemma prefix_length f n : length (prefix f n) = n.
Proof. unfold prefix. rewrite map_length, seq_length. reflexivity. Qed.

Lemma loop_terminates_stream : forall (f : nat -> wout) n,
  ends_loop (f n) = true \/ (tolerated < count_eintr (prefix f (S n)))%nat ->
  forall m, (n < m)%nat ->
  lr_end (parent_loop 0 (prefix f m)) <> EndStreamOut /\
  (lr_calls (parent_loop 0 (prefix f m)) <= S n)%nat /\
  parent_loop 0 (prefix f m) = parent_loop 0 (prefix f (S n)).
Proof.
  intros f n H m Hm.
  assert (E : lr_end (parent_loop 0 (prefix f (S n))) <> EndStreamOut).
  { destruct H as [H|H].
    - rewrite prefix_S. apply (terminal_ends (prefix f n) (f n) [] 0 H).
    - apply eintr_overrun_ends. rewrite budget_0. exact H. }
  rewrite (prefix_split f (S n) m) by lia. rewrite loop_app by exact E.
  repeat split; [exact E|].
  pose proof (calls_le (prefix f (S n)) 0) as C. rewrite prefix_length in C. exact C.
Qed.

(* ---- the exact list of failures, in order, on symbolic streams ---- *)
Definition fail_of (o : sout) : list failure :=
  match o with
  | SErr _ => [FWait]
  | SEintr => []
  | SEv (EvExit k) => if k =? 0 then [] else [FExit]
  | SEv (EvKill s _) => [FKilled s]
  | SEv (EvStop _) => [FStopped]
  | SEv EvCont => []
  end.
Definition is_stop (o : sout) : bool := match o with SEv (EvStop _) => true | _ => false end.
Definition seen (r : N) (ws : list sout) : list sout := firstn (lr_calls (parent_loop r (map conc ws))) ws.

Lemma fails_exact : forall ws r, forallb sout_ok ws = true ->
  lr_fails (parent_loop r (map conc ws)) =
    flat_map fail_of (seen r ws) ++ (match lr_end (parent_loop r (map conc ws)) with EndGaveUp => [FEintr] | _ => [] end) /\
  lr_conts (parent_loop r (map conc ws)) = length (filter is_stop (seen r ws)).
Proof.
  unfold seen. induction ws as [|o tl IH]; intros r Hok; [split; reflexivity|].
  simpl in Hok. apply andb_prop in Hok. destruct Hok as [Ho Htl].
  destruct o as [| |e].
  - cbn [map conc parent_loop]. destruct (gives_up r); [split; reflexivity|].
    destruct (IH (r + 1) Htl) as [I1 I2]. cbn -[parent_loop]. rewrite I1, I2. split; reflexivity.
  - split; reflexivity.
  - cbn [map conc]. rewrite (loop_step_ev r e _ Ho). destruct (IH r Htl) as [I1 I2].
    destruct e as [k|s c|s|]; cbn -[parent_loop].
    + rewrite app_nil_r. destruct (k =? 0); split; reflexivity.
    + split; reflexivity.
    + rewrite I1, I2. split; reflexivity.
    + rewrite I1, I2. split; reflexivity.
Qed.

(* no failure <=> what the parent saw is: tolerated EINTRs / continue notifications only, then exit status 0 *)
Definition quiet (o : sout) : Prop := o = SEintr \/ o = SEv EvCont.

Lemma no_failure_iff : forall ws r, forallb sout_ok ws = true ->
  lr_end (parent_loop r (map conc ws)) <> EndStreamOut ->
  (lr_fails (parent_loop r (map conc ws)) = [] <->
   exists pre, seen r ws = pre ++ [SEv (EvExit 0)] /\ Forall quiet pre).
Proof.
  unfold seen. induction ws as [|o tl IH]; intros r Hok Hend; [simpl in Hend; congruence|].
  simpl in Hok. apply andb_prop in Hok. destruct Hok as [Ho Htl].
  assert (SHIFT : forall (x : sout) l, (exists pre, x :: l = pre ++ [SEv (EvExit 0)] /\ Forall quiet pre) ->
                  x <> SEv (EvExit 0) -> quiet x /\ exists pre, l = pre ++ [SEv (EvExit 0)] /\ Forall quiet pre).
  { intros x l [pre [E Q]] Hx. destruct pre as [|p pre]; simpl in E.
    - inversion E. congruence.
    - inversion E; subst. inversion Q; subst. split; [assumption|]. exists pre. split; [reflexivity|assumption]. }
  destruct o as [| |e].
  - cbn [map conc parent_loop] in *. destruct (gives_up r).
    + simpl. split; [discriminate|]. intros [pre [E _]]. destruct pre as [|p [|q pre]]; simpl in E; inversion E.
    + cbn -[parent_loop] in *. rewrite (IH (r + 1) Htl Hend). split.
      * intros [pre [E Q]]. exists (SEintr :: pre). rewrite E. split; [reflexivity|]. constructor; [left; reflexivity|exact Q].
      * intro H. apply SHIFT in H; [tauto|discriminate].
  - simpl. split; [discriminate|]. intros [pre [E _]]. destruct pre as [|p [|q pre]]; simpl in E; inversion E.
  - cbn [map conc] in *. rewrite (loop_step_ev r e _ Ho) in *.
    destruct e as [k|s c|s|]; cbn -[parent_loop] in *.
    + destruct (N.eqb_spec k 0) as [->|Hk].
      * split; [|reflexivity]. intros _. exists []. split; [reflexivity|constructor].
      * split; [discriminate|]. intros [pre [E _]]. destruct pre as [|p [|q pre]]; simpl in E; inversion E. congruence.
    + split; [discriminate|]. intros [pre [E _]]. destruct pre as [|p [|q pre]]; simpl in E; inversion E.
    + split; [discriminate|]. intro H. apply SHIFT in H; [|discriminate]. destruct H as [[Q|Q] _]; discriminate.
    + rewrite (IH r Htl Hend). split.
      * intros [pre [E Q]]. exists (SEv EvCont :: pre). rewrite E. split; [reflexivity|]. constructor; [right; reflexivity|exact Q].
      * intro H. apply SHIFT in H; [tauto|discriminate].
Qed.
