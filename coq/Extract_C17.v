From Coq Require Import ExtrOcamlBasic.
From CppUVerif Require Import C17_Model.
Extraction "c17_model.ml" C17_Model.run C17_Model.spec C17_Model.valid.
