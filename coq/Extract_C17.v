From Coq Require Import ExtrOcamlBasic ZArith.
From CppUVerif Require Import C17_Model.
Extraction "c17_model.ml" C17_Model.run C17_Model.spec C17_Model.valid C17_Model.pool_size BinInt.Z.of_N.
