From Coq Require Import ExtrOcamlBasic ZArith.
From CppUVerif Require Import C17_Model C17_ModelP.
Extraction "c17_model.ml" C17_ModelP.prun C17_ModelP.pspec C17_ModelP.pvalid C17_ModelP.has_throw C17_Model.pool_size BinInt.Z.of_N.
