From Coq Require Import ZArith NArith Bool List Lia. From CppUVerif Require Import lib.CSem lib.CMem lib.CMemFacts lib.Str gen.Gen_LeafC13 gen.Gen_LoopC13 C13_Model C13_LeafTie C13_SrcTie. Import ListNotations. Local Open Scope Z_scope.
(* C13: the translated SimpleString::AtoU and SimpleString::AtoI (gen/Gen_LoopC13.v) are EQUAL to AtoU / AtoI of C13_Model.v,
   for every memory of bytes, every pointer and every sufficient fuel (reads outside the block: both sides say Oob).
   AtoI: the model says Ub when the accumulated int exceeds INT_MAX (signed overflow), the translated source wraps; the tie
   is stated for the inputs on which the model does not say Ub. *)

(* ------------------------------------------------------------------ bytes *)
Lemma schar_sc c : (c < 256)%N -> schar c = sc c.
Proof.
  intro H. unfold sc. destruct (N.ltb_spec c 128) as [L|L]; [apply schar_small; exact L | apply schar_big; lia].
Qed.

Lemma schar_eq_45 f : (f < 256)%N -> (schar f =? 45) = (f =? 45)%N.
Proof. intro H. exact (schar_inj f 45 H eq_refl). Qed.
Lemma schar_eq_43 f : (f < 256)%N -> (schar f =? 43) = (f =? 43)%N.
Proof. intro H. exact (schar_inj f 43 H eq_refl). Qed.

Lemma digit_val c : (c < 256)%N -> isDigit c = true -> sc c = Z.of_N c /\ 48 <= Z.of_N c <= 57.
Proof.
  intro Hc. unfold isDigit, sc. destruct (N.ltb_spec c 128) as [L|L]; intro H; apply andb_true_iff in H; destruct H as [H1 H2];
    apply Z.leb_le in H1; apply Z.leb_le in H2; lia.
Qed.

(* ------------------------------------------------------------------ the two accumulator steps *)
Lemma atou_step acc d : 0 <= d <= 9 ->
  cw 32 false (cw 32 false (cw 32 false (cw 32 false (acc * 10)) + cw 32 false (cw 32 true d))) = (acc * 10 + d) mod UINT_MOD.
Proof.
  intro H.
  assert (E1 : cw 32 true d = d) by (apply cw_s_small; [lia | change (2 ^ (32 - 1)) with 2147483648; lia]).
  rewrite E1.
  assert (E2 : cw 32 false d = d) by (apply cw_u_small; change (2 ^ 32) with 4294967296; lia).
  rewrite E2. rewrite !cw_u. change UINT_MOD with (2 ^ 32).
  rewrite !Zmod_mod. rewrite Zplus_mod_idemp_l. reflexivity.
Qed.

Lemma atoi_step acc d : 0 <= acc -> 0 <= d <= 9 -> acc * 10 + d <= INT_MAX ->
  cw 32 true (cw 32 true (cw 32 true (cw 32 true (acc * 10)) + cw 32 true d)) = acc * 10 + d.
Proof.
  intros Ha Hd Hv. unfold INT_MAX in Hv.
  assert (E1 : cw 32 true (acc * 10) = acc * 10) by (apply cw_s_small; [lia | change (2 ^ (32 - 1)) with 2147483648; lia]).
  rewrite !E1.
  assert (E2 : cw 32 true d = d) by (apply cw_s_small; [lia | change (2 ^ (32 - 1)) with 2147483648; lia]).
  rewrite E2.
  assert (E3 : cw 32 true (acc * 10 + d) = acc * 10 + d) by (apply cw_s_small; [lia | change (2 ^ (32 - 1)) with 2147483648; lia]).
  rewrite !E3. reflexivity.
Qed.

(* ------------------------------------------------------------------ the loops that skip white space *)
Lemma AtoU_loop1_tie : forall l fuel0 fuel m b o, bytes_ok l -> view m (Ptr b o) = l -> (length l < fuel)%nat ->
  match skip_space l with
  | C13_Model.Ok q => exists o', src_AtoU_loop1 fuel0 fuel m (Ptr b o) = Go (Ptr b o') /\ view m (Ptr b o') = q /\
                                 (length q <= length l)%nat /\ q <> []
  | _ => src_AtoU_loop1 fuel0 fuel m (Ptr b o) = CMem.Oob
  end.
Proof.
  induction l as [|c r IH]; intros fuel0 fuel m b o Hb Hv Hf.
  - destruct fuel as [|fuel]; [cbn in Hf; lia|]. cbn [src_AtoU_loop1 skip_space].
    rewrite (view_nil_load _ _ Hv). reflexivity.
  - destruct fuel as [|fuel]; [cbn in Hf; lia|]. cbn [src_AtoU_loop1 skip_space].
    rewrite (view_cons_load _ _ _ _ _ Hv).
    pose proof (Forall_inv Hb) as Hc. pose proof (Forall_inv_tail Hb) as Hr. cbn beta in Hc.
    rewrite (schar_sc c Hc), (tie_isSpace c Hc), b2z_z2b.
    destruct (isSpace c).
    + destruct (view_padd1 _ _ _ _ _ Hv) as [Hp Hv']. rewrite Hp.
      assert (Hf' : (length r < fuel)%nat) by (cbn in Hf; lia).
      specialize (IH fuel0 fuel m b (o + 1) Hr Hv' Hf').
      destruct (skip_space r) as [q| | |]; try exact IH.
      destruct IH as [o' [H1 [H2 [H3 H4]]]]. exists o'.
      split; [exact H1|]. split; [exact H2|]. split; [cbn [length]; lia | exact H4].
    + exists o. split; [reflexivity|]. split; [exact Hv|]. split; [lia | discriminate].
Qed.

Lemma AtoI_loop1_tie : forall l fuel0 fuel m b o, bytes_ok l -> view m (Ptr b o) = l -> (length l < fuel)%nat ->
  match skip_space l with
  | C13_Model.Ok q => exists o', src_AtoI_loop1 fuel0 fuel m (Ptr b o) = Go (Ptr b o') /\ view m (Ptr b o') = q /\
                                 (length q <= length l)%nat /\ q <> []
  | _ => src_AtoI_loop1 fuel0 fuel m (Ptr b o) = CMem.Oob
  end.
Proof.
  induction l as [|c r IH]; intros fuel0 fuel m b o Hb Hv Hf.
  - destruct fuel as [|fuel]; [cbn in Hf; lia|]. cbn [src_AtoI_loop1 skip_space].
    rewrite (view_nil_load _ _ Hv). reflexivity.
  - destruct fuel as [|fuel]; [cbn in Hf; lia|]. cbn [src_AtoI_loop1 skip_space].
    rewrite (view_cons_load _ _ _ _ _ Hv).
    pose proof (Forall_inv Hb) as Hc. pose proof (Forall_inv_tail Hb) as Hr. cbn beta in Hc.
    rewrite (schar_sc c Hc), (tie_isSpace c Hc), b2z_z2b.
    destruct (isSpace c).
    + destruct (view_padd1 _ _ _ _ _ Hv) as [Hp Hv']. rewrite Hp.
      assert (Hf' : (length r < fuel)%nat) by (cbn in Hf; lia).
      specialize (IH fuel0 fuel m b (o + 1) Hr Hv' Hf').
      destruct (skip_space r) as [q| | |]; try exact IH.
      destruct IH as [o' [H1 [H2 [H3 H4]]]]. exists o'.
      split; [exact H1|]. split; [exact H2|]. split; [cbn [length]; lia | exact H4].
    + exists o. split; [reflexivity|]. split; [exact Hv|]. split; [lia | discriminate].
Qed.

(* ------------------------------------------------------------------ AtoU *)
Lemma AtoU_loop2_tie : forall l fuel0 fuel m b o acc, bytes_ok l -> view m (Ptr b o) = l -> (length l < fuel)%nat ->
  match atou_loop l acc with
  | C13_Model.Ok r => exists p, src_AtoU_loop2 fuel0 fuel m (Ptr b o) acc = Go (p, r)
  | _ => src_AtoU_loop2 fuel0 fuel m (Ptr b o) acc = CMem.Oob
  end.
Proof.
  induction l as [|c r IH]; intros fuel0 fuel m b o acc Hb Hv Hf.
  - destruct fuel as [|fuel]; [cbn in Hf; lia|]. cbn [src_AtoU_loop2 atou_loop].
    rewrite (view_nil_load _ _ Hv). reflexivity.
  - destruct fuel as [|fuel]; [cbn in Hf; lia|]. cbn [src_AtoU_loop2 atou_loop].
    rewrite (view_cons_load _ _ _ _ _ Hv).
    pose proof (Forall_inv Hb) as Hc. pose proof (Forall_inv_tail Hb) as Hr. cbn beta in Hc.
    unfold c_ge. rewrite (schar_sc c Hc), (tie_isDigit c Hc), !b2z_z2b.
    destruct (isDigit c) eqn:Hd; cbn [andb]; [|eexists; reflexivity].
    destruct (48 <=? sc c) eqn:H48; [|eexists; reflexivity].
    destruct (digit_val c Hc Hd) as [Hs Hr48]. rewrite Hs.
    destruct (view_padd1 _ _ _ _ _ Hv) as [Hp Hv']. rewrite Hp.
    rewrite (atou_step acc (Z.of_N c - 48)) by lia.
    apply IH; [exact Hr | exact Hv' | cbn in Hf; lia].
Qed.

Lemma src_AtoU_tie : forall fuel m b o, mem_ok m -> (length (view m (Ptr b o)) < fuel)%nat ->
  src_AtoU fuel m (Ptr b o) = lift (fun z => z) (AtoU (view m (Ptr b o))).
Proof.
  intros fuel m b o Hm Hf. unfold src_AtoU, AtoU.
  pose proof (AtoU_loop1_tie (view m (Ptr b o)) fuel fuel m b o (view_ok _ _ Hm) eq_refl Hf) as H1.
  destruct (skip_space (view m (Ptr b o))) as [q| | |]; cbn [bind lift]; try (rewrite H1; reflexivity).
  destruct H1 as [o' [H1 [H2 [H3 _]]]]. rewrite H1.
  assert (Hq : bytes_ok q) by (rewrite <- H2; apply view_ok; exact Hm).
  assert (Hfq : (length q < fuel)%nat) by lia.
  pose proof (AtoU_loop2_tie q fuel fuel m b o' 0 Hq H2 Hfq) as L2.
  destruct (atou_loop q 0) as [r| | |]; cbn [lift]; try (rewrite L2; reflexivity).
  destruct L2 as [p L2]. rewrite L2. reflexivity.
Qed.

(* ------------------------------------------------------------------ AtoI *)
Lemma AtoI_loop2_tie : forall l fuel0 fuel m b o acc, bytes_ok l -> view m (Ptr b o) = l -> (length l < fuel)%nat ->
  0 <= acc <= INT_MAX ->
  match atoi_loop l acc with
  | C13_Model.Ok r => (exists p, src_AtoI_loop2 fuel0 fuel m (Ptr b o) acc = Go (p, r)) /\ 0 <= r <= INT_MAX
  | C13_Model.Ub => True
  | _ => src_AtoI_loop2 fuel0 fuel m (Ptr b o) acc = CMem.Oob
  end.
Proof.
  induction l as [|c r IH]; intros fuel0 fuel m b o acc Hb Hv Hf Ha.
  - destruct fuel as [|fuel]; [cbn in Hf; lia|]. cbn [src_AtoI_loop2 atoi_loop].
    rewrite (view_nil_load _ _ Hv). reflexivity.
  - destruct fuel as [|fuel]; [cbn in Hf; lia|]. cbn [src_AtoI_loop2 atoi_loop].
    rewrite (view_cons_load _ _ _ _ _ Hv).
    pose proof (Forall_inv Hb) as Hc. pose proof (Forall_inv_tail Hb) as Hr. cbn beta in Hc.
    rewrite (schar_sc c Hc), (tie_isDigit c Hc), !b2z_z2b.
    destruct (isDigit c) eqn:Hd; [|split; [eexists; reflexivity | exact Ha]].
    destruct (digit_val c Hc Hd) as [Hs Hr48]. rewrite Hs.
    destruct (Z.ltb_spec INT_MAX (acc * 10 + (Z.of_N c - 48))) as [Hov|Hov]; [exact I|].
    destruct (view_padd1 _ _ _ _ _ Hv) as [Hp Hv']. rewrite Hp.
    rewrite (atoi_step acc (Z.of_N c - 48)) by lia.
    apply IH; [exact Hr | exact Hv' | cbn in Hf; lia | lia].
Qed.

Lemma src_AtoI_tie : forall fuel m b o, mem_ok m -> (length (view m (Ptr b o)) < fuel)%nat ->
  AtoI (view m (Ptr b o)) <> C13_Model.Ub ->
  src_AtoI fuel m (Ptr b o) = lift (fun z => z) (AtoI (view m (Ptr b o))).
Proof.
  intros fuel m b o Hm Hf Hub. unfold src_AtoI. unfold AtoI in Hub |- *.
  pose proof (AtoI_loop1_tie (view m (Ptr b o)) fuel fuel m b o (view_ok _ _ Hm) eq_refl Hf) as H1.
  destruct (skip_space (view m (Ptr b o))) as [q| | |]; cbn [bind lift]; try (rewrite H1; reflexivity).
  destruct H1 as [o' [H1 [H2 [H3 H4]]]]. rewrite H1.
  assert (Hq : bytes_ok q) by (rewrite <- H2; apply view_ok; exact Hm).
  destruct q as [|f q']; [contradiction|]. clear H4.
  rewrite (view_cons_load _ _ _ _ _ H2).
  pose proof (Forall_inv Hq) as Hc. pose proof (Forall_inv_tail Hq) as Hr. cbn beta in Hc.
  destruct (view_padd1 _ _ _ _ _ H2) as [Hp Hv'].
  cbn [bind rd] in Hub |- *. unfold c_eq. rewrite (schar_eq_45 f Hc), (schar_eq_43 f Hc), !b2z_z2b.
  assert (Ha0 : 0 <= 0 <= INT_MAX) by (unfold INT_MAX; lia).
  assert (Hfq : (length q' < fuel)%nat) by (cbn [length] in H3; lia).
  assert (Hfq0 : (length (f :: q') < fuel)%nat) by lia.
  assert (Hadv : adv 1 (f :: q') = C13_Model.Ok q') by reflexivity.
  destruct (f =? 45)%N eqn:E45; [|destruct (f =? 43)%N eqn:E43]; cbn [orb] in Hub |- *.
  - rewrite Hadv in Hub |- *. cbn [bind] in Hub |- *. rewrite Hp.
    pose proof (AtoI_loop2_tie q' fuel fuel m b (o' + 1) 0 Hr Hv' Hfq Ha0) as L2.
    destruct (atoi_loop q' 0) as [r| | |]; cbn [bind lift] in Hub |- *; try (rewrite L2; reflexivity); [|congruence].
    destruct L2 as [[p L2] Hb]. rewrite L2. cbn [finish]. f_equal.
    apply cw_s_small; [lia | change (2 ^ (32 - 1)) with 2147483648; unfold INT_MAX in Hb; lia].
  - rewrite Hadv in Hub |- *. cbn [bind] in Hub |- *. rewrite Hp.
    pose proof (AtoI_loop2_tie q' fuel fuel m b (o' + 1) 0 Hr Hv' Hfq Ha0) as L2.
    destruct (atoi_loop q' 0) as [r| | |]; cbn [bind lift] in Hub |- *; try (rewrite L2; reflexivity); [|congruence].
    destruct L2 as [[p L2] Hb]. rewrite L2. reflexivity.
  - cbn [bind] in Hub |- *.
    pose proof (AtoI_loop2_tie (f :: q') fuel fuel m b o' 0 Hq H2 Hfq0 Ha0) as L2.
    destruct (atoi_loop (f :: q') 0) as [r| | |]; cbn [bind lift] in Hub |- *; try (rewrite L2; reflexivity); [|congruence].
    destruct L2 as [[p L2] Hb]. rewrite L2. reflexivity.
Qed.

(* ------------------------------------------------------------------ non-vacuity *)
(* block 0 = " 42x\0" , block 1 = "\t-17\0", block 2 = "+9" (no terminator: the digit loop leaves the block) *)
Definition ex_mem : memory := [[32; 52; 50; 120; 0]; [9; 45; 49; 55; 0]; [43; 57]]%N.

Example src_AtoU_ex : src_AtoU 10 ex_mem (Ptr 0 0) = FOk 42 /\ src_AtoU 10 ex_mem (Ptr 2 1) = FOob.
Proof. vm_compute. split; reflexivity. Qed.
Example src_AtoI_ex :
  src_AtoI 10 ex_mem (Ptr 1 0) = FOk (-17) /\ src_AtoI 10 ex_mem (Ptr 0 0) = FOk 42 /\ src_AtoI 10 ex_mem (Ptr 2 0) = FOob.
Proof. vm_compute. repeat split; reflexivity. Qed.
