(* C09 -- reading a stored value back through EVERY family of read-back accessors (model part, no proofs).
   The value is stored as the return value of an expected call (MockExpectedCall::andReturnValue(T), or the C table's
   andReturnXValue) -- or directly in a MockNamedValue -- and read back through
     FNamed            MockNamedValue::getXValue()
     FActual / Def     MockCheckedActualCall::returnXValue() / returnXValueOrDefault(d)        (src/CppUTestExt/MockActualCall.cpp)
     FSupport / Def    MockSupport::xReturnValue() / returnXValueOrDefault(d)                  (src/CppUTestExt/MockSupport.cpp)
     FCActual / Def    mock_c()->actualCall(..)->xReturnValue() / returnXValueOrDefault(d)     (src/CppUTestExt/MockSupport_c.cpp)
     FCSupport / Def   mock_c()->xReturnValue() / returnXValueOrDefault(d)
     FCActualTagged / FCSupportTagged   the MockValue_c tagged union of ->returnValue(): the member named by the tag.
   Every accessor of every family forwards to the named-value getter of its own type (`route_of`); its C return type
   converts what the getter hands back (`via_route`), which is the identity exactly when the getter is the one of that type. *)
From Coq Require Import ZArith Bool List.
From CppUVerif Require Import lib.CInt lib.Dbl lib.Str C09_Model.
Import ListNotations.
Local Open Scope Z_scope.

(* what an accessor hands back, canonical: strings by content (up to the first NUL) or NULL, doubles by their bit pattern
   (every NaN as 7ff8000000000000), pointers by address, buffers by content *)
Inductive rval :=
| RBool (b : bool) | RInt (z : Z) | RDbl (bits : Z) | RStr (s : option (list N)) | RAddr (a : Z) | RMem (m : list N).

Inductive acc := ABool | AInt (g : getter) | ADouble | AStr | APtr | AConstPtr | AFun | AMem.

(* the C type an integer accessor returns / the accessor of a stored integer's own type *)
Definition rty (g : getter) : ity :=
  match g with GInt => TInt | GUInt => TUInt | GLong => TLong | GULong => TULong | GLLong => TLLong | GULLong => TULLong end.
Definition getter_of_ty (t : ity) : getter :=
  match t with TInt => GInt | TUInt => GUInt | TLong => GLong | TULong => GULong | TLLong => GLLong | TULLong => GULLong end.

(* IEEE-754 binary64 bit pattern of a double; a finite m * 2^e has biased exponent e + 1075 (subnormals: e = -1074, m < 2^52) *)
Definition dbl_bits (d : dbl) : Z :=
  match d with
  | BinarySingleNaN.B754_zero s => if s then 9223372036854775808 else 0
  | BinarySingleNaN.B754_infinity s => (if s then 9223372036854775808 else 0) + 9218868437227405312
  | BinarySingleNaN.B754_nan => 9221120237041090560
  | BinarySingleNaN.B754_finite s m e _ =>
      (if s then 9223372036854775808 else 0) + ((e + 1075) * 4503599627370496 + Zpos m - 4503599627370496)
  end.

(* the non-integer getters of MockNamedValue: STRCMP_EQUAL(<own type name>, type_) then the union member *)
Definition nv_get (a : acc) (v : value) : option rval :=
  match a with
  | AInt g => option_map RInt (get g v)
  | ABool => match v with VBool b => Some (RBool b) | _ => None end
  | ADouble => match v with VDouble d _ => Some (RDbl (dbl_bits d)) | _ => None end
  | AStr => match v with VStr s => Some (RStr (option_map cut_nul s)) | _ => None end
  | APtr => match v with VPtr p => Some (RAddr p) | _ => None end
  | AConstPtr => match v with VConstPtr p => Some (RAddr p) | _ => None end
  | AFun => match v with VFun p => Some (RAddr p) | _ => None end
  | AMem => match v with VMem m => Some (RMem m) | _ => None end
  end.

Inductive family := FNamed | FActual | FActualDef | FSupport | FSupportDef
                  | FCActual | FCActualDef | FCSupport | FCSupportDef | FCActualTagged | FCSupportTagged.
Inductive mode := MPlain | MDefault | MTagged.
Definition fam_mode (f : family) : mode :=
  match f with
  | FNamed | FActual | FSupport | FCActual | FCSupport => MPlain
  | FActualDef | FSupportDef | FCActualDef | FCSupportDef => MDefault
  | FCActualTagged | FCSupportTagged => MTagged
  end.
(* a memory buffer cannot be a return value: only MockNamedValue itself has that getter *)
Definition offers (f : family) (a : acc) : bool :=
  match a, f with AMem, FNamed => true | AMem, _ => false | _, _ => true end.

(* the table: the named-value getter an integer accessor forwards to, and the C type it returns *)
Record route := { r_getter : getter; r_ret : ity }.
Definition route_of (f : family) (g : getter) : route := {| r_getter := g; r_ret := rty g |}.
Definition via_route (r : route) (v : value) : option Z := option_map (cast (r_ret r)) (get (r_getter r) v).
(* red-team variant (round 3, C09-2): returnUnsignedIntValue() = (unsigned int) returnUnsignedLongIntValue() *)
Definition route_truncating : route := {| r_getter := GULong; r_ret := TUInt |}.

Definition nv_read (f : family) (a : acc) (v : value) : option rval :=
  match a with AInt g => option_map RInt (via_route (route_of f g) v) | _ => nv_get a v end.

(* MockNamedValue(name): type "int", value 0 -- what the layers read when no return value was set *)
Definition unset_value : value := VInt TInt 0.
(* the accessor of the value's own type = the member the MockValue_c tag names *)
Definition own_acc (v : value) : acc :=
  match v with
  | VBool _ => ABool | VInt t _ => AInt (getter_of_ty t) | VDouble _ _ => ADouble | VStr _ => AStr
  | VPtr _ => APtr | VConstPtr _ => AConstPtr | VFun _ => AFun | VMem _ => AMem end.
Definition acc_idx (a : acc) : nat :=
  match a with
  | ABool => 0 | AInt GInt => 1 | AInt GUInt => 2 | AInt GLong => 3 | AInt GULong => 4 | AInt GLLong => 5 | AInt GULLong => 6
  | ADouble => 7 | AStr => 8 | APtr => 9 | AConstPtr => 10 | AFun => 11 | AMem => 12 end%nat.
Definition acc_eqb (a b : acc) : bool := Nat.eqb (acc_idx a) (acc_idx b).

(* one read: None = no value handed back (the test failed; for the tagged families also: the tag names another member) *)
Definition read (f : family) (a : acc) (st : option value) (d : rval) : option rval :=
  let v := match st with Some v => v | None => unset_value end in
  match fam_mode f with
  | MPlain => nv_read f a v
  | MDefault => match st with None => Some d | Some _ => nv_read f a v end
  | MTagged => if acc_eqb a (own_acc v) then nv_read f a v else None
  end.

(* -------- scenarios of the extended language -------- *)
Inductive store_path := ViaCpp | ViaC.        (* andReturnValue(T) / the C table's andReturnXValue(T): both store the value as it is *)
Record rd := { rd_fam : family; rd_via : store_path; rd_acc : acc; rd_stored : option value; rd_default : rval }.
Inductive xscenario := XOld (s : scenario) | XRead (r : rd).
Inductive xobs := OOld (o : obs) | ORead (r : option rval).

Definition default_ok (a : acc) (d : rval) : bool :=
  match a, d with
  | ABool, RBool _ | AStr, RStr None | APtr, RAddr _ | AConstPtr, RAddr _ | AFun, RAddr _ | AMem, RMem _ => true
  | AStr, RStr (Some l) => bytes_eqb (cut_nul l) l          (* canonical: no NUL inside *)
  | ADouble, RDbl b => b =? dbl_bits (dbl_of_bits b)        (* canonical: a 64-bit pattern, NaN as 7ff8000000000000 *)
  | AInt g, RInt z => in_range (rty g) z
  | _, _ => false end.
Definition is_named (f : family) : bool := match f with FNamed => true | _ => false end.
Definition is_mem (v : value) : bool := match v with VMem _ => true | _ => false end.
Definition x_valid (s : xscenario) : bool :=
  match s with
  | XOld s => sc_valid s
  | XRead r =>
      offers (rd_fam r) (rd_acc r) && default_ok (rd_acc r) (rd_default r)
      && match rd_stored r with Some v => valid v && (is_named (rd_fam r) || negb (is_mem v)) | None => true end
      && match rd_via r with ViaCpp => true | ViaC => negb (is_named (rd_fam r)) end
  end.

Definition x_run (s : xscenario) : xobs :=
  match s with
  | XOld s => OOld (sc_run s)
  | XRead r => ORead (read (rd_fam r) (rd_acc r) (rd_stored r) (rd_default r))
  end.

(* -------- spec: the property's sentence about integer read-back, nothing else --------
   "reading a stored integer back through any of the integer getters either returns exactly that integer or fails the test,
   never a different number": judged by the same `getter_ok` as the six getters of the old scenarios.  Where nothing was
   stored, and for the non-integer accessors, the property is silent. *)
Definition read_ok (st : option value) (a : acc) (res : option rval) : bool :=
  match a, st with
  | AInt _, Some v =>
      match res with None => true | Some (RInt z') => getter_ok v (Some z') | Some _ => false end
  | _, _ => true
  end.
Definition x_spec (s : xscenario) (o : xobs) : bool :=
  match s, o with
  | XOld s, OOld o => sc_spec s o
  | XRead r, ORead res => read_ok (rd_stored r) (rd_acc r) res
  | _, _ => false
  end.
