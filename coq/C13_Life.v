(* C13 -- the scenario language of the check: one operation of C13_Model.v (SOp), or one of the operations added for the
   allocation-pairing observation: repeat-constructor, padStringsToSameLength, split into a collection, subStringFromTill,
   the bit and binary formatters, and SEQUENCES of operations applied to the same objects: three named objects obj[0..2] and
   the RESULT OBJECT obj[3], which is constructed directly from the value an operation returns (no copy, no assignment in
   between) and is then consumed in place by the following steps.  Every scenario is executed
   by the harness inside one recorded window of the string allocator: arguments, results, temporaries and the objects still
   alive when the scenario ends are constructed AND destroyed inside it; o_paired says that every buffer came back exactly once
   with the size it was requested with.
   Same memory model as C13_Model.v (whose definitions are used unchanged).  No proofs in this file. *)
From Coq Require Import NArith ZArith Bool List.
From CppUVerif Require Import lib.Str C13_Text C13_Alloc C13_Model C13_Pool.
Import ListNotations.
Local Open Scope N_scope.

(* one step of an operation sequence on the objects obj[0..3] (harness: `:seq`); obj[3] is the result object R *)
Inductive sop :=
| QSet (i : nat) (a : list N)              (* obj[i] = SimpleString(a) *)
| QAsg (i j : nat)                         (* obj[i] = obj[j]  (self-assignment included) *)
| QApp (i j : nat)                         (* obj[i] += obj[j] (self-append included) *)
| QAppC (i : nat) (a : list N)             (* obj[i] += a *)
| QLow (i j : nat)                         (* obj[i] = obj[j].lowerCase() *)
| QSub (i j : nat) (b m : N)               (* obj[i] = obj[j].subString(b, m) *)
| QRc (i : nat) (c1 c2 : N)                (* obj[i].replace(c1, c2) *)
| QRs (i : nat) (a b : list N)             (* obj[i].replace(a, b) *)
| QPrt (i j : nat)                         (* obj[i] = obj[j].printable() *)
| QPad (i j : nat) (ch : N)                (* padStringsToSameLength(obj[i], obj[j], ch), nothing when i = j *)
| QFmt (i : nat) (a b : list N)            (* obj[i] = StringFromFormat("%s%s", a, b) *)
| QRep (i : nat) (a : list N) (k : nat)    (* obj[i] = SimpleString(a, k) *)
| QPlus (i j k : nat)                      (* obj[i] = obj[j] + obj[k] *)
(* producers of the result object: R is the very object the operation returned (the previous R is destroyed afterwards) *)
| QRNew (a : list N)                       (* R = SimpleString(a) *)
| QRCopy (j : nat)                         (* R = SimpleString(obj[j]) -- copy constructor *)
| QRSub (j : nat) (b m : N)                (* R = obj[j].subString(b, m); subString(b) is m = npos *)
| QRFromTill (j : nat) (c1 c2 : N)         (* R = obj[j].subStringFromTill(c1, c2) *)
| QRLow (j : nat)                          (* R = obj[j].lowerCase() *)
| QRPrt (j : nat)                          (* R = obj[j].printable() *)
| QRPlus (j k : nat)                       (* R = obj[j] + obj[k] *)
| QRFmt (a b : list N)                     (* R = StringFromFormat("%s%s", a, b) *)
| QRRep (a : list N) (k : nat)             (* R = SimpleString(a, k) *)
| QROrd (n : N)                            (* R = StringFromOrdinalNumber(n) *)
| QRMask (v m bc : N)                      (* R = StringFromMaskedBits(v, m, bc) *)
| QRBin (bytes : list N)                   (* R = StringFromBinary(bytes, length) *)
| QRSplit (j : nat) (d : N) (k : nat)      (* obj[j].split(d, col); R = col[k] itself (the out-of-range element when k >= col.size()) *)
(* observers: each appends one entry to the log of the sequence *)
| QSize (i : nat)                          (* obj[i].size(), obj[i].isEmpty() *)
| QAt (i : nat) (pos : N)                  (* obj[i].at(pos mod (size + 1)) -- every position up to the terminator *)
| QCmp (i j : nat)                         (* obj[i] == obj[j], contains, startsWith, endsWith, count *)
| QCpb (i : nat) (dn : nat)                (* obj[i].copyToBuffer(buffer of dn cells, dn) *)
| QFind (i : nat) (start ch : N).          (* obj[i].findFrom(start, ch) *)

(* one step on ONE SimpleStringCollection that lives through the whole scenario (harness: `:col`): the collection as an object with
   a history -- filled by split() with a delimiter of ANY length, re-allocated, written through operator[], read inside and outside
   its range *)
Inductive cop :=
| KSplit (a d : list N)                    (* SimpleString(a).split(SimpleString(d), col) *)
| KAlloc (n : nat)                         (* col.allocate(n) *)
| KPut (i : N) (a : list N)                (* col[i] = SimpleString(a); i is any size_t: out of range it writes the collection's spare element *)
| KSize                                    (* observer: col.size() *)
| KGet (i : N)                             (* observer: col[i], any size_t *)
| KSnap.                                   (* observer: size(), col[0] .. col[size() - 1], col[size()] *)

Inductive scn :=
| SOp (o : op)
| SRepeat (a : list N) (k : nat)
| SPad (a b : list N) (ch : N)
| SSeq (ops : list sop)
| SSplit (a : list N) (d : N)
| SFromTill (a : list N) (c1 c2 : N)
| SMasked (v m bc : N)
| SBinary (bytes : list N)
| SColl (ops : list cop).

Fixpoint updl {A} (i : nat) (v : A) (l : list A) : list A :=
  match l with [] => [] | x :: r => match i with O => v :: r | S i' => x :: updl i' v r end end.

(* ---------------------------------------------------------------- the model of the code (buffers) *)
Definition getb (st : list (list N)) (i : nat) : list N := nth i st emptyString.
Definition mstep (st : list (list N)) (q : sop) : res (list (list N)) :=
  match q with
  | QSet i a => do t <- newFrom (cs a); do v <- newFrom t; Ok (updl i v st)
  | QAsg i j => if Nat.eqb i j then Ok st else do v <- newFrom (getb st j); Ok (updl i v st)
  | QApp i j => do v <- append_m (getb st i) (getb st j); Ok (updl i v st)
  | QAppC i a => do v <- append_m (getb st i) (cs a); Ok (updl i v st)
  | QLow i j => do t <- lowerCase_m (getb st j); do v <- newFrom t; Ok (updl i v st)
  | QSub i j b m => do t <- subString_m (getb st j) b m; do v <- newFrom t; Ok (updl i v st)
  | QRc i c1 c2 => do v <- replaceChar_m (getb st i) c1 c2; Ok (updl i v st)
  | QRs i a b => do v <- replaceStr_m (getb st i) (cs a) (cs b); Ok (updl i v st)
  | QPrt i j => do t <- printable_m (getb st j); do v <- newFrom t; Ok (updl i v st)
  | QPad i j ch => if Nat.eqb i j then Ok st else
                   do pr <- pad_m (getb st i) (getb st j) ch; Ok (updl j (snd pr) (updl i (fst pr) st))
  | QFmt i a b => do t <- format_m (a ++ b); do v <- newFrom t; Ok (updl i v st)
  | QRep i a k => do t <- newRepeat (cs a) k; do v <- newFrom t; Ok (updl i v st)
  | QPlus i j k => do t <- plus_m (getb st j) (getb st k); do v <- newFrom t; Ok (updl i v st)
  (* the returned buffer itself becomes R: whatever slack the operation left behind its terminator stays *)
  | QRNew a => do t <- newFrom (cs a); Ok (updl 3 t st)
  | QRCopy j => do t <- newFrom (getb st j); Ok (updl 3 t st)
  | QRSub j b m => do t <- subString_m (getb st j) b m; Ok (updl 3 t st)
  | QRFromTill j c1 c2 => do t <- subStringFromTill_m (getb st j) c1 c2; Ok (updl 3 t st)
  | QRLow j => do t <- lowerCase_m (getb st j); Ok (updl 3 t st)
  | QRPrt j => do t <- printable_m (getb st j); Ok (updl 3 t st)
  | QRPlus j k => do t <- plus_m (getb st j) (getb st k); Ok (updl 3 t st)
  | QRFmt a b => do t <- format_m (a ++ b); Ok (updl 3 t st)
  | QRRep a k => do t <- newRepeat (cs a) k; Ok (updl 3 t st)
  | QROrd n => Ok (updl 3 (cs (ordinal_m n)) st)
  | QRMask v m bc => do l <- maskedBits_m v m bc; Ok (updl 3 (cs l) st)
  | QRBin bytes => do l <- binary_m bytes (length bytes); Ok (updl 3 (cs l) st)
  | QRSplit j d k => do l <- split_m (getb st j) (cs [d]); Ok (updl 3 (nth k l emptyString) st)
  | QSize _ | QAt _ _ | QCmp _ _ | QCpb _ _ | QFind _ _ _ => Ok st
  end.
(* numbers in the log: a size_t as its eight bytes, least significant first; a truth value as one byte *)
Definition le8 (n : N) : list N := map (fun k => (n / 256 ^ k) mod 256) [0; 1; 2; 3; 4; 5; 6; 7].
Definition b01 (b : bool) : N := if b then 1 else 0.
(* what an observer step reads from the buffers *)
Definition mobs (st : list (list N)) (q : sop) : res (list (list N)) :=
  match q with
  | QSize i => do n <- StrLen (getb st i); Ok [le8 (N.of_nat n) ++ [b01 (Nat.eqb n 0)]]
  | QAt i pos => do n <- StrLen (getb st i); do p <- adv (N.to_nat (pos mod N.of_nat (S n))) (getb st i); do c <- rd p; Ok [[c]]
  | QCmp i j =>
      let x := getb st i in let y := getb st j in
      do e <- equal_m x y; do c <- contains_m x y; do s <- startsWith_m x y; do w <- endsWith_m x y; do k <- count_m x y;
      Ok [[b01 e; b01 c; b01 s; b01 w] ++ le8 (N.of_nat k)]
  | QCpb i dn => do d <- copyToBuffer_m (getb st i) (fresh dn) dn; Ok [d]
  | QFind i start ch => do r <- findFrom_m (getb st i) start ch; Ok [le8 (match r with Some p => p | None => NPOS end)]
  | _ => Ok []
  end.
Fixpoint mrun (st : list (list N)) (ops : list sop) : res (list (list N) * list (list N)) :=
  match ops with
  | [] => Ok (st, [])
  | q :: r => do e <- mobs st q; do st' <- mstep st q; do p <- mrun st' r; Ok (fst p, e ++ snd p)
  end.
Definition pool0 : list (list N) := [emptyString; emptyString; emptyString; emptyString].     (* SimpleString obj[3], R *)
Fixpoint cstrs (l : list (list N)) : option (list (list N)) :=
  match l with [] => Some [] | b :: r => match cstr_of b, cstrs r with Some s, Some t => Some (s :: t) | _, _ => None end end.
Definition vlist (r : res (list (list N))) : oval :=
  match r with Ok l => match cstrs l with Some v => VL v | None => VErr end | _ => VErr end.
(* a sequence: the values of the four objects at the end, then the log of the observers *)
Definition vseq (r : res (list (list N) * list (list N))) : oval :=
  match r with Ok (l, lg) => match cstrs l with Some v => VL (v ++ lg) | None => VErr end | _ => VErr end.

(* ---------------------------------------------------------------- the model of SimpleStringCollection (an object with a history) *)
(* collection_ (the array new SimpleString[size_] -- the empty list also stands for NULL: `delete[]` of either does nothing), size_, empty_ *)
Record coll := { c_arr : list (list N); c_size : nat; c_empty : list N }.
Definition c_new : coll := {| c_arr := []; c_size := 0; c_empty := emptyString |}.
(* allocate(n): delete[] collection_; size_ = n; collection_ = new SimpleString[n] -- n strings "" whatever was there before *)
Definition c_allocate (c : coll) (n : nat) : coll := {| c_arr := repeat emptyString n; c_size := n; c_empty := c_empty c |}.
(* operator[](index): `if (index >= size_) { empty_ = ""; return empty_; } return collection_[index];` -- the bound is size_, the
   element is read from the array: an array shorter than size_ is a read outside it *)
Definition c_get (c : coll) (i : N) : res (coll * list N) :=
  if N.of_nat (c_size c) <=? i then Ok ({| c_arr := c_arr c; c_size := c_size c; c_empty := emptyString |}, emptyString)
  else match nth_error (c_arr c) (N.to_nat i) with Some b => Ok (c, b) | None => Oob end.
(* col[index] = v (v = the buffer operator= has copied) *)
Definition c_put (c : coll) (i : N) (v : list N) : res coll :=
  if N.of_nat (c_size c) <=? i then Ok {| c_arr := c_arr c; c_size := c_size c; c_empty := v |}
  else if Nat.ltb (N.to_nat i) (length (c_arr c)) then Ok {| c_arr := updl (N.to_nat i) v (c_arr c); c_size := c_size c; c_empty := c_empty c |}
  else Oob.
(* the loop of split(): `prev = str; str = StrStr(str, delimiter) + 1; col[i] = SimpleString(prev).subString(0, str - prev);` *)
Fixpoint split_into (c : coll) (str delim : list N) (i num : nat) : res (coll * list N) :=
  match num with O => Ok (c, str) | S num' =>
    do r <- StrStr str delim;
    match r with None => Oob            (* NULL + 1, read by SimpleString(prev) / the next StrStr *)
    | Some off =>
      do nxt <- adv (S off) str;
      do whole <- newFrom str; do piece <- subString_m whole 0 (N.of_nat (S off));
      do v <- newFrom piece;
      do c' <- c_put c (N.of_nat i) v;
      split_into c' nxt delim (S i) num' end end.
Definition c_split (c : coll) (a delim : list N) : res coll :=
  do num <- count_m a delim; do e <- endsWith_m a delim;
  let c1 := c_allocate c (num + (if e then 0 else 1)) in
  do pr <- split_into c1 a delim 0 num;
  if e then Ok (fst pr) else do last <- newFrom (snd pr); c_put (fst pr) (N.of_nat num) last.
Definition kstep (c : coll) (q : cop) : res coll :=
  match q with
  | KSplit a d => c_split c (cs a) (cs d)
  | KAlloc n => Ok (c_allocate c n)
  | KPut i a => do t <- newFrom (cs a); do v <- newFrom t; c_put c i v
  | KGet i => do p <- c_get c i; Ok (fst p)
  | KSnap => do p <- c_get c (N.of_nat (c_size c)); Ok (fst p)
  | KSize => Ok c
  end.
(* asCharString() of an element, read up to its terminator *)
Definition str_of (b : list N) : res (list N) := match cstr_of b with Some s => Ok s | None => Oob end.
Fixpoint c_read (c : coll) (i k : nat) : res (list (list N)) :=          (* col[i] .. col[i + k - 1] *)
  match k with O => Ok [] | S k' => do p <- c_get c (N.of_nat i); do s <- str_of (snd p); do r <- c_read c (S i) k'; Ok (s :: r) end.
Definition c_snap (c : coll) : res (list (list N)) :=
  do els <- c_read c 0 (c_size c); do p <- c_get c (N.of_nat (c_size c)); do e <- str_of (snd p);
  Ok (le8 (N.of_nat (c_size c)) :: els ++ [e]).
Definition kobs (c : coll) (q : cop) : res (list (list N)) :=
  match q with
  | KSize => Ok [le8 (N.of_nat (c_size c))]
  | KGet i => do p <- c_get c i; do s <- str_of (snd p); Ok [s]
  | KSnap => c_snap c
  | _ => Ok []
  end.
Fixpoint krun (c : coll) (ops : list cop) : res (coll * list (list N)) :=
  match ops with
  | [] => Ok (c, [])
  | q :: r => do e <- kobs c q; do c' <- kstep c q; do p <- krun c' r; Ok (fst p, e ++ snd p)
  end.
(* a scenario: the log of the observers, then the collection as it is at the end *)
Definition vcoll (ops : list cop) : oval :=
  match (do p <- krun c_new ops; do s <- c_snap (fst p); Ok (snd p ++ s)) with Ok l => VL l | _ => VErr end.

Definition eval_scn (s : scn) : oval :=
  match s with
  | SOp o => eval o
  | SRepeat a k => vstr (newRepeat (cs a) k)
  | SPad a b ch => vlist (do pr <- pad_m (cs a) (cs b) ch; Ok [fst pr; snd pr])
  | SSeq ops => vseq (mrun pool0 ops)
  | SSplit a d => vlist (split_m (cs a) (cs [d]))
  | SFromTill a c1 c2 => vstr (subStringFromTill_m (cs a) c1 c2)
  | SMasked v m bc => match maskedBits_m v m bc with Ok l => VB l | _ => VErr end
  | SBinary bytes => match binary_m bytes (length bytes) with Ok l => VB l | _ => VErr end
  | SColl ops => vcoll ops
  end.
(* allocator pairing verdict of the modelled event log: the log of the padding scenario is modelled event by event (C13_Pool.v);
   every other operation touches its buffers only through the primitives of C13_Alloc.v, on any number of objects: theorem
   pool_pairing *)
Definition pairing_scn (s : scn) : bool :=
  match s with
  | SOp o => pairing o
  | SPad a b ch => paired (pad_log (length a) (length b))
  | _ => true
  end.
Definition run_scn (s : scn) : obs := {| o_val := eval_scn s; o_ref := true; o_paired := pairing_scn s |}.

(* ---------------------------------------------------------------- textbook meaning of a sequence (nothing of the model above) *)
Definition t_pad (a b : list N) (ch : N) : list N * list N :=
  if Nat.ltb (length b) (length a) then (a, repeat ch (length a - length b) ++ b)
  else (repeat ch (length b - length a) ++ a, b).
(* pieces each ending with the delimiter (kept) plus the non-empty remainder; the empty string is one empty piece *)
Definition t_split_all (d : N) (s : list N) : list (list N) := match s with [] => [[]] | _ => t_split d s [] end.
(* the values of the four objects after one step *)
Definition t_sstep (st : list (list N)) (q : sop) : list (list N) :=
  let get i := nth i st [] in
  match q with
  | QSet i a => updl i a st
  | QAsg i j => updl i (get j) st
  | QApp i j => updl i (get i ++ get j) st
  | QAppC i a => updl i (get i ++ a) st
  | QLow i j => updl i (lower (get j)) st
  | QSub i j b m => updl i (t_substr (get j) b m) st
  | QRc i c1 c2 => updl i (t_repl_char c1 c2 (get i)) st
  | QRs i a b => updl i (t_replace (get i) a b) st
  | QPrt i j => updl i (t_printable (get j)) st
  | QPad i j ch => if Nat.eqb i j then st else let pr := t_pad (get i) (get j) ch in updl j (snd pr) (updl i (fst pr) st)
  | QFmt i a b => updl i (a ++ b) st
  | QRep i a k => updl i (t_concat_rep a k) st
  | QPlus i j k => updl i (get j ++ get k) st
  | QRNew a => updl 3 a st
  | QRCopy j => updl 3 (get j) st
  | QRSub j b m => updl 3 (t_substr (get j) b m) st
  | QRFromTill j c1 c2 => updl 3 (t_from_till (get j) c1 c2) st
  | QRLow j => updl 3 (lower (get j)) st
  | QRPrt j => updl 3 (t_printable (get j)) st
  | QRPlus j k => updl 3 (get j ++ get k) st
  | QRFmt a b => updl 3 (a ++ b) st
  | QRRep a k => updl 3 (t_concat_rep a k) st
  | QROrd n => updl 3 (t_ordinal n) st
  | QRMask v m bc => updl 3 (t_masked v m bc) st
  | QRBin bytes => updl 3 (t_binary bytes) st
  | QRSplit j d k => updl 3 (nth k (t_split_all d (get j)) []) st
  | QSize _ | QAt _ _ | QCmp _ _ | QCpb _ _ | QFind _ _ _ => st
  end.
(* what an observer step must report about the values *)
Definition t_sobs (st : list (list N)) (q : sop) : list (list N) :=
  let get i := nth i st [] in
  match q with
  | QSize i => [le8 (N.of_nat (length (get i))) ++ [b01 (match get i with [] => true | _ => false end)]]
  | QAt i pos => [[nth (N.to_nat (pos mod N.of_nat (S (length (get i))))) (get i) 0]]       (* the terminator reads as 0 *)
  | QCmp i j => [[b01 (bytes_eqb (get i) (get j)); b01 (contains (get i) (get j)); b01 (is_prefix (get j) (get i));
                  b01 (t_ends_with (get i) (get j))] ++ le8 (N.of_nat (t_count (get i) (get j)))]
  | QCpb i dn => [t_copy_out (get i) dn]
  | QFind i start ch => [le8 (match t_find_from (get i) start ch with Some p => p | None => NPOS end)]
  | _ => []
  end.
Fixpoint t_run (st : list (list N)) (ops : list sop) : list (list N) * list (list N) :=
  match ops with [] => (st, []) | q :: r => let p := t_run (t_sstep st q) r in (fst p, t_sobs st q ++ snd p) end.
Definition t_seq (ops : list sop) : list (list N) := let p := t_run [[]; []; []; []] ops in fst p ++ snd p.

(* ---------------------------------------------------------------- textbook meaning of split with a delimiter of any length, and of a collection *)
(* What split(d) is, read off the unchanged code (token count = count(d), which counts overlapping occurrences; the scan goes on
   one byte behind the START of each match): walking s from the left, a piece ends with the byte at which an occurrence of d
   starts -- occurrences may overlap, each one ends a piece; for the empty delimiter (it occurs everywhere) every byte is a piece.
   t_cuts = (those pieces, what is left behind the last of them). *)
Fixpoint t_cuts (d s : list N) : list (list N) * list N :=
  match s with
  | [] => ([], [])
  | c :: r => let p := t_cuts d r in
              if is_prefix d s then ([c] :: fst p, snd p)
              else match fst p with [] => ([], c :: snd p) | x :: xs => ((c :: x) :: xs, snd p) end
  end.
(* the rest behind the last piece is the last token unless s ends with d (then it is empty for a one-byte delimiter and the
   delimiter's tail -- which belongs to no token -- for a longer one); the empty string is one empty token, none for the empty delimiter *)
Definition t_split_str (d s : list N) : list (list N) :=
  let p := t_cuts d s in if t_ends_with s d then fst p else fst p ++ [snd p].
(* a collection is the list of its strings; a write outside the range is lost, a read outside it gives "" *)
Definition t_kstep (items : list (list N)) (q : cop) : list (list N) :=
  match q with
  | KSplit a d => t_split_str d a
  | KAlloc n => repeat [] n
  | KPut i a => if i <? N.of_nat (length items) then updl (N.to_nat i) a items else items
  | KSize | KGet _ | KSnap => items
  end.
Definition t_snap (items : list (list N)) : list (list N) := le8 (N.of_nat (length items)) :: items ++ [[]].
Definition t_kobs (items : list (list N)) (q : cop) : list (list N) :=
  match q with
  | KSize => [le8 (N.of_nat (length items))]
  | KGet i => [if i <? N.of_nat (length items) then nth (N.to_nat i) items [] else []]
  | KSnap => t_snap items
  | _ => []
  end.
Fixpoint t_krun (items : list (list N)) (ops : list cop) : list (list N) :=
  match ops with [] => t_snap items | q :: r => t_kobs items q ++ t_krun (t_kstep items q) r end.

(* ---------------------------------------------------------------- validity *)
Definition idx (i : nat) : bool := Nat.ltb i 4.
Definition chr (c : N) : bool := negb (c =? 0) && (c <? 256).
Definition valid_sop (q : sop) : bool :=
  match q with
  | QSet i a | QAppC i a => idx i && nonul a
  | QAsg i j | QApp i j | QLow i j | QPrt i j => idx i && idx j
  | QSub i j b m => idx i && idx j && (b <? SIZE_MOD) && (m <? SIZE_MOD)
  | QRc i c1 c2 => idx i && isbyte c1 && chr c2
  | QRs i a b | QFmt i a b => idx i && nonul a && nonul b
  | QPad i j ch => idx i && idx j && chr ch
  | QRep i a k => idx i && nonul a
  | QPlus i j k => idx i && idx j && idx k
  | QRNew a => nonul a
  | QRCopy j | QRLow j | QRPrt j => idx j
  | QRSub j b m => idx j && (b <? SIZE_MOD) && (m <? SIZE_MOD)
  | QRFromTill j c1 c2 => idx j && isbyte c1 && isbyte c2
  | QRPlus j k => idx j && idx k
  | QRFmt a b => nonul a && nonul b
  | QRRep a k => nonul a
  | QROrd n => n <? 4294967296
  | QRMask v m bc => (v <? ULONG_MOD) && (m <? ULONG_MOD) && (bc <? SIZE_MOD)
  | QRBin bytes => forallb isbyte bytes
  | QRSplit j d k => idx j && chr d
  | QSize i | QCpb i _ => idx i
  | QAt i pos => idx i && (pos <? SIZE_MOD)
  | QCmp i j => idx i && idx j
  | QFind i start ch => idx i && (start <? SIZE_MOD) && isbyte ch
  end.
(* the one condition on the VALUES a step meets: subStringFromTill of a string shorter than npos (LP64: every length is) *)
Definition valid_at (st : list (list N)) (q : sop) : bool :=
  match q with QRFromTill j _ _ => N.of_nat (length (nth j st [])) <? NPOS | _ => true end.
Fixpoint valid_ops (st : list (list N)) (ops : list sop) : bool :=
  match ops with [] => true | q :: r => valid_sop q && valid_at st q && valid_ops (t_sstep st q) r end.
Definition valid_cop (q : cop) : bool :=
  match q with
  | KSplit a d => nonul a && nonul d
  | KAlloc n => N.of_nat n <? 65536                     (* new SimpleString[n] of an absurd n is the allocator's business, not the property's *)
  | KPut i a => (i <? SIZE_MOD) && nonul a
  | KGet i => i <? SIZE_MOD
  | KSize | KSnap => true
  end.
Definition valid_scn (s : scn) : bool :=
  match s with
  | SOp o => valid o
  | SRepeat a k => nonul a
  | SPad a b ch => nonul a && nonul b && chr ch
  | SSeq ops => valid_ops [[]; []; []; []] ops
  | SSplit a d => nonul a && chr d
  | SFromTill a c1 c2 => nonul a && isbyte c1 && isbyte c2 && (N.of_nat (length a) <? NPOS)      (* LP64: a length is a size_t below npos *)
  | SMasked v m bc => (v <? ULONG_MOD) && (m <? ULONG_MOD) && (bc <? SIZE_MOD)
  | SBinary bytes => forallb isbyte bytes
  | SColl ops => forallb valid_cop ops
  end.
(* ---------------------------------------------------------------- spec: textbook values *)
Definition expected_scn (s : scn) : oval :=
  match s with
  | SOp o => expected o
  | SRepeat a k => VB (t_concat_rep a k)
  | SPad a b ch => let pr := t_pad a b ch in VL [fst pr; snd pr]
  | SSeq ops => VL (t_seq ops)
  | SSplit a d => VL (t_split_all d a)
  | SFromTill a c1 c2 => VB (t_from_till a c1 c2)
  | SMasked v m bc => VB (t_masked v m bc)
  | SBinary bytes => VB (t_binary bytes)
  | SColl ops => VL (t_krun [] ops)
  end.
(* result equals the textbook value; the harness's independent reference (std::string / libc) agreed with what the code
   returned; every buffer went back to the string allocator exactly once with the size it was requested with *)
Definition spec_scn (s : scn) (ob : obs) : bool := oval_eqb (o_val ob) (expected_scn s) && o_ref ob && o_paired ob.
