(* C13 -- the scenario language of the check: one operation of C13_Model.v (SOp), or one of the operations added for the
   allocation-pairing observation: repeat-constructor, padStringsToSameLength, split into a collection, subStringFromTill,
   the bit and binary formatters, and SEQUENCES of operations applied to the same three objects.  Every scenario is executed
   by the harness inside one recorded window of the string allocator: arguments, results, temporaries and the objects still
   alive when the scenario ends are constructed AND destroyed inside it; o_paired says that every buffer came back exactly once
   with the size it was requested with.
   Same memory model as C13_Model.v (whose definitions are used unchanged).  No proofs in this file. *)
From Coq Require Import NArith ZArith Bool List.
From CppUVerif Require Import lib.Str C13_Text C13_Alloc C13_Model C13_Pool.
Import ListNotations.
Local Open Scope N_scope.

(* one step of an operation sequence on the objects obj[0..2] (harness: `:seq`) *)
Inductive sop :=
| QSet (i : nat) (a : list N)              (* obj[i] = SimpleString(a) *)
| QAsg (i j : nat)                         (* obj[i] = obj[j]  (self-assignment included) *)
| QApp (i j : nat)                         (* obj[i] += obj[j] (self-append included) *)
| QAppC (i : nat) (a : list N)             (* obj[i] += a *)
| QLow (i j : nat)                         (* obj[i] = obj[j].lowerCase() *)
| QSub (i j : nat) (b m : N)               (* obj[i] = obj[j].subString(b, m) *)
| QRc (i : nat) (c1 c2 : N)                (* obj[i].replace(c1, c2) *)
| QRs (i : nat) (a b : list N)             (* obj[i].replace(a, b) *)
| QPrt (i j : nat)                         (* obj[i] = obj[j].printable() *)
| QPad (i j : nat) (ch : N)                (* padStringsToSameLength(obj[i], obj[j], ch), nothing when i = j *)
| QFmt (i : nat) (a b : list N)            (* obj[i] = StringFromFormat("%s%s", a, b) *)
| QRep (i : nat) (a : list N) (k : nat)    (* obj[i] = SimpleString(a, k) *)
| QPlus (i j k : nat).                     (* obj[i] = obj[j] + obj[k] *)

Inductive scn :=
| SOp (o : op)
| SRepeat (a : list N) (k : nat)
| SPad (a b : list N) (ch : N)
| SSeq (ops : list sop)
| SSplit (a : list N) (d : N)
| SFromTill (a : list N) (c1 c2 : N)
| SMasked (v m bc : N)
| SBinary (bytes : list N).

Fixpoint updl {A} (i : nat) (v : A) (l : list A) : list A :=
  match l with [] => [] | x :: r => match i with O => v :: r | S i' => x :: updl i' v r end end.

(* ---------------------------------------------------------------- the model of the code (buffers) *)
Definition getb (st : list (list N)) (i : nat) : list N := nth i st emptyString.
Definition mstep (st : list (list N)) (q : sop) : res (list (list N)) :=
  match q with
  | QSet i a => do t <- newFrom (cs a); do v <- newFrom t; Ok (updl i v st)
  | QAsg i j => if Nat.eqb i j then Ok st else do v <- newFrom (getb st j); Ok (updl i v st)
  | QApp i j => do v <- append_m (getb st i) (getb st j); Ok (updl i v st)
  | QAppC i a => do v <- append_m (getb st i) (cs a); Ok (updl i v st)
  | QLow i j => do t <- lowerCase_m (getb st j); do v <- newFrom t; Ok (updl i v st)
  | QSub i j b m => do t <- subString_m (getb st j) b m; do v <- newFrom t; Ok (updl i v st)
  | QRc i c1 c2 => do v <- replaceChar_m (getb st i) c1 c2; Ok (updl i v st)
  | QRs i a b => do v <- replaceStr_m (getb st i) (cs a) (cs b); Ok (updl i v st)
  | QPrt i j => do t <- printable_m (getb st j); do v <- newFrom t; Ok (updl i v st)
  | QPad i j ch => if Nat.eqb i j then Ok st else
                   do pr <- pad_m (getb st i) (getb st j) ch; Ok (updl j (snd pr) (updl i (fst pr) st))
  | QFmt i a b => do t <- format_m (a ++ b); do v <- newFrom t; Ok (updl i v st)
  | QRep i a k => do t <- newRepeat (cs a) k; do v <- newFrom t; Ok (updl i v st)
  | QPlus i j k => do t <- plus_m (getb st j) (getb st k); do v <- newFrom t; Ok (updl i v st)
  end.
Fixpoint mrun (st : list (list N)) (ops : list sop) : res (list (list N)) :=
  match ops with [] => Ok st | q :: r => do st' <- mstep st q; mrun st' r end.
Definition pool0 : list (list N) := [emptyString; emptyString; emptyString].     (* SimpleString obj[3] *)
Fixpoint cstrs (l : list (list N)) : option (list (list N)) :=
  match l with [] => Some [] | b :: r => match cstr_of b, cstrs r with Some s, Some t => Some (s :: t) | _, _ => None end end.
Definition vlist (r : res (list (list N))) : oval :=
  match r with Ok l => match cstrs l with Some v => VL v | None => VErr end | _ => VErr end.

Definition eval_scn (s : scn) : oval :=
  match s with
  | SOp o => eval o
  | SRepeat a k => vstr (newRepeat (cs a) k)
  | SPad a b ch => vlist (do pr <- pad_m (cs a) (cs b) ch; Ok [fst pr; snd pr])
  | SSeq ops => vlist (mrun pool0 ops)
  | SSplit a d => vlist (split_m (cs a) (cs [d]))
  | SFromTill a c1 c2 => vstr (subStringFromTill_m (cs a) c1 c2)
  | SMasked v m bc => match maskedBits_m v m bc with Ok l => VB l | _ => VErr end
  | SBinary bytes => match binary_m bytes (length bytes) with Ok l => VB l | _ => VErr end
  end.
(* allocator pairing verdict of the modelled event log: the log of the padding scenario is modelled event by event (C13_Pool.v);
   every other operation touches its buffers only through the primitives of C13_Alloc.v, on any number of objects: theorem
   pool_pairing *)
Definition pairing_scn (s : scn) : bool :=
  match s with
  | SOp o => pairing o
  | SPad a b ch => paired (pad_log (length a) (length b))
  | _ => true
  end.
Definition run_scn (s : scn) : obs := {| o_val := eval_scn s; o_ref := true; o_paired := pairing_scn s |}.

(* ---------------------------------------------------------------- validity *)
Definition idx (i : nat) : bool := Nat.ltb i 3.
Definition chr (c : N) : bool := negb (c =? 0) && (c <? 256).
Definition valid_sop (q : sop) : bool :=
  match q with
  | QSet i a | QAppC i a => idx i && nonul a
  | QAsg i j | QApp i j | QLow i j | QPrt i j => idx i && idx j
  | QSub i j b m => idx i && idx j && (b <? SIZE_MOD) && (m <? SIZE_MOD)
  | QRc i c1 c2 => idx i && isbyte c1 && chr c2
  | QRs i a b | QFmt i a b => idx i && nonul a && nonul b
  | QPad i j ch => idx i && idx j && chr ch
  | QRep i a k => idx i && nonul a
  | QPlus i j k => idx i && idx j && idx k
  end.
Definition valid_scn (s : scn) : bool :=
  match s with
  | SOp o => valid o
  | SRepeat a k => nonul a
  | SPad a b ch => nonul a && nonul b && chr ch
  | SSeq ops => forallb valid_sop ops
  | SSplit a d => nonul a && chr d
  | SFromTill a c1 c2 => nonul a && isbyte c1 && isbyte c2 && (N.of_nat (length a) <? NPOS)      (* LP64: a length is a size_t below npos *)
  | SMasked v m bc => (v <? ULONG_MOD) && (m <? ULONG_MOD) && (bc <? SIZE_MOD)
  | SBinary bytes => forallb isbyte bytes
  end.
(* ---------------------------------------------------------------- spec: textbook values (nothing of the model above) *)
Definition t_pad (a b : list N) (ch : N) : list N * list N :=
  if Nat.ltb (length b) (length a) then (a, repeat ch (length a - length b) ++ b)
  else (repeat ch (length b - length a) ++ a, b).
Definition t_sstep (st : list (list N)) (q : sop) : list (list N) :=
  let get i := nth i st [] in
  match q with
  | QSet i a => updl i a st
  | QAsg i j => updl i (get j) st
  | QApp i j => updl i (get i ++ get j) st
  | QAppC i a => updl i (get i ++ a) st
  | QLow i j => updl i (lower (get j)) st
  | QSub i j b m => updl i (t_substr (get j) b m) st
  | QRc i c1 c2 => updl i (t_repl_char c1 c2 (get i)) st
  | QRs i a b => updl i (t_replace (get i) a b) st
  | QPrt i j => updl i (t_printable (get j)) st
  | QPad i j ch => if Nat.eqb i j then st else let pr := t_pad (get i) (get j) ch in updl j (snd pr) (updl i (fst pr) st)
  | QFmt i a b => updl i (a ++ b) st
  | QRep i a k => updl i (t_concat_rep a k) st
  | QPlus i j k => updl i (get j ++ get k) st
  end.
(* pieces each ending with the delimiter (kept) plus the non-empty remainder; the empty string is one empty piece *)
Definition t_split_all (d : N) (s : list N) : list (list N) := match s with [] => [[]] | _ => t_split d s [] end.
Definition t_seq (ops : list sop) : list (list N) := fold_left t_sstep ops [[]; []; []].
Definition expected_scn (s : scn) : oval :=
  match s with
  | SOp o => expected o
  | SRepeat a k => VB (t_concat_rep a k)
  | SPad a b ch => let pr := t_pad a b ch in VL [fst pr; snd pr]
  | SSeq ops => VL (t_seq ops)
  | SSplit a d => VL (t_split_all d a)
  | SFromTill a c1 c2 => VB (t_from_till a c1 c2)
  | SMasked v m bc => VB (t_masked v m bc)
  | SBinary bytes => VB (t_binary bytes)
  end.
(* result equals the textbook value; the harness's independent reference (std::string / libc) agreed with what the code
   returned; every buffer went back to the string allocator exactly once with the size it was requested with *)
Definition spec_scn (s : scn) (ob : obs) : bool := oval_eqb (o_val ob) (expected_scn s) && o_ref ob && o_paired ob.
