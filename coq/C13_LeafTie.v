(* C13: the character predicates and ToLower of the hand-written model are EQUAL to the definitions that tools/cxx2coq.py
   regenerates from /repo's SimpleString.cpp on every run (gen/Gen_Leaf.v).  A change to one of these leaf functions in the
   source changes Gen_Leaf.v and these lemmas are re-checked against it. *)
From Coq Require Import ZArith NArith Bool List Lia.
From CppUVerif Require Import lib.CSem lib.Str gen.Gen_LeafC13 C13_Model.
Import ListNotations.

Definition all_bytes : list N := map N.of_nat (seq 0 256).
Lemma in_all_bytes c : (c < 256)%N -> In c all_bytes.
Proof.
  intro H. unfold all_bytes. rewrite <- (N2Nat.id c). apply in_map. apply in_seq. lia.
Qed.
Lemma byte_sweep (P : N -> bool) : forallb P all_bytes = true -> forall c, (c < 256)%N -> P c = true.
Proof. intros H c Hc. rewrite forallb_forall in H. apply H. apply in_all_bytes. exact Hc. Qed.

(* a byte c is the char whose value is sc c (char is signed on this platform) *)
Lemma tie_isDigit c : (c < 256)%N -> leaf_isDigit (sc c) = b2z (isDigit c).
Proof. intro H. apply Z.eqb_eq. revert c H. apply byte_sweep. vm_compute. reflexivity. Qed.
Lemma tie_isSpace c : (c < 256)%N -> leaf_isSpace (sc c) = b2z (isSpace c).
Proof. intro H. apply Z.eqb_eq. revert c H. apply byte_sweep. vm_compute. reflexivity. Qed.
Lemma tie_isControl c : (c < 256)%N -> leaf_isControl (sc c) = b2z (isControl c).
Proof. intro H. apply Z.eqb_eq. revert c H. apply byte_sweep. vm_compute. reflexivity. Qed.
Lemma tie_isControlShort c : (c < 256)%N -> leaf_isControlWithShortEscapeSequence (sc c) = b2z (isControlShort c).
Proof. intro H. apply Z.eqb_eq. revert c H. apply byte_sweep. vm_compute. reflexivity. Qed.
Lemma tie_ToLower c : (c < 256)%N -> leaf_ToLower (sc c) = sc (to_lower c).
Proof. intro H. apply Z.eqb_eq. revert c H. apply byte_sweep. vm_compute. reflexivity. Qed.

Definition C13_leaf_functions_are_the_source_stmt : Prop :=
  forall c, (c < 256)%N ->
    leaf_isDigit (sc c) = b2z (isDigit c) /\ leaf_isSpace (sc c) = b2z (isSpace c) /\
    leaf_isControl (sc c) = b2z (isControl c) /\ leaf_isControlWithShortEscapeSequence (sc c) = b2z (isControlShort c) /\
    leaf_ToLower (sc c) = sc (to_lower c).
Lemma C13_leaf_functions_are_the_source : C13_leaf_functions_are_the_source_stmt.
Proof.
  intros c H. repeat split; [apply tie_isDigit | apply tie_isSpace | apply tie_isControl | apply tie_isControlShort | apply tie_ToLower]; exact H.
Qed.
