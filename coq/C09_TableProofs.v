(* Theorems about the branch table regenerated from the source on every run (gen/Gen_C09.v). *)
From Coq Require Import ZArith Bool List Lia.
From CppUVerif Require Import lib.CInt lib.Dbl lib.Str C09_Table gen.Gen_C09 C09_Model C09_Proofs.
Import ListNotations.
Local Open Scope Z_scope.

Ltac branch_tac :=
  let z1 := fresh "z1" in let z2 := fresh "z2" in let H1 := fresh "H1" in let H2 := fresh "H2" in
  intros z1 z2 H1 H2; apply in_range_iff in H1; apply in_range_iff in H2;
  cbn [lo hi b_self b_other] in H1, H2;
  cbv [interp opnd b_self b_other b_guard b_l b_r o_cast o_side o_field ity_eqb];
  f_equal; unfold c_eq;
  repeat match goal with |- context [common ?a ?b] => let v := eval vm_compute in (common a b) in change (common a b) with v end;
  first
    [ cast_ok; reflexivity
    | match goal with
      | |- (0 <=? ?z) && _ = _ => destruct (Z.leb_spec 0 z); cbn [andb];
                                  [ cast_ok; reflexivity | symmetry; apply Z.eqb_neq; lia ]
      end ].

Lemma branch_exact : forall b, In b equals_branches ->
  forall z1 z2, in_range (b_self b) z1 = true -> in_range (b_other b) z2 = true -> interp b z1 z2 = Some (z1 =? z2).
Proof.
  intros b Hin. unfold equals_branches in Hin. cbn [In] in Hin.
  repeat (destruct Hin as [Hb | Hin]; [ subst b; branch_tac | ]).
  contradiction.
Qed.

Lemma lookup_In tbl t1 t2 b : lookup tbl t1 t2 = Some b -> In b tbl /\ b_self b = t1 /\ b_other b = t2.
Proof.
  unfold lookup. intro H. apply find_some in H. destruct H as [Hin Hc].
  apply andb_true_iff in Hc. destruct Hc as [Ha Hb]. apply ity_eqb_eq in Ha. apply ity_eqb_eq in Hb. auto.
Qed.

Lemma table_complete : forall t1 t2, t1 <> t2 -> exists b, lookup equals_branches t1 t2 = Some b.
Proof.
  intros t1 t2 Hne. destruct t1, t2; try (exfalso; apply Hne; reflexivity); vm_compute; eexists; reflexivity.
Qed.

(* what the source's if/else-if chain computes for two integers of different types *)
Lemma source_chain_exact t1 t2 z1 z2 :
  t1 <> t2 -> in_range t1 z1 = true -> in_range t2 z2 = true ->
  exists b, lookup equals_branches t1 t2 = Some b /\ interp b z1 z2 = Some (z1 =? z2)
            /\ interp b z1 z2 = Some (int_equals t1 z1 t2 z2).
Proof.
  intros Hne H1 H2. destruct (table_complete t1 t2 Hne) as [b Hb]. exists b. split; [exact Hb|].
  destruct (lookup_In _ _ _ _ Hb) as [Hin [Hs Ho]]. subst t1 t2.
  rewrite (branch_exact b Hin z1 z2 H1 H2). split; [reflexivity|].
  rewrite int_equals_math by assumption. reflexivity.
Qed.
