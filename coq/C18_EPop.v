(* C18 -- environment mode: construction and destruction of the object keep the books balanced: the destructor's frees (with
   the underlying allocator's own strings served by that allocator itself) return every header and buffer of every list to U and
   the node table to the default malloc allocator, so that everything obtained since the construction is back. *)
From Coq Require Import NArith Arith Bool List Lia Permutation.
From CppUVerif Require Import gen.Gen_C18 C18_Model C18_Lists C18_Inv C18_Sim C18_ModelG C18_GInv C18_GSim C18_ModelE C18_EInv C18_EBooks C18_ELife C18_EOps.
Import ListNotations.
Local Open Scope N_scope.

Definition others_of (t : N) (live : list lentry) : list lentry := filter (fun e => negb (owned_by t e)) live.

Lemma others_dir : forall t live, 2 <= t -> dir_ids (others_of t live) = dir_ids live.
Proof.
  intros t live Ht. unfold dir_ids, others_of. f_equal. induction live as [|e r IH]; [reflexivity|]. simpl.
  destruct (owned_by t e) eqn:O; simpl.
  - rewrite IH. replace (is_dir e) with false; [reflexivity|]. symmetry. unfold owned_by in O. apply N.eqb_eq in O. eapply is_dir_false; eauto.
  - destruct (is_dir e); rewrite IH; reflexivity.
Qed.
Lemma NoDup_map_filter : forall (A B : Type) (f : A -> B) (p : A -> bool) l, NoDup (map f l) -> NoDup (map f (filter p l)).
Proof.
  intros A B f p l. induction l as [|x r IH]; intros H; [constructor|]. simpl in *. inversion H as [|? ? Ha Hr]; subst.
  destruct (p x); [|apply IH; exact Hr]. simpl. constructor; [|apply IH; exact Hr].
  intros G. apply Ha. apply in_map_iff in G. destruct G as [y [E G]]. apply filter_In in G. apply in_map_iff. exists y. tauto.
Qed.
Lemma lvk_others : forall t live, lvk (others_of t live) t = [].
Proof.
  intros t live. unfold lvk, others_of. induction live as [|e r IH]; [reflexivity|]. simpl.
  destruct (owned_by t e) eqn:O; simpl; [exact IH | rewrite O; exact IH].
Qed.

(* the object is gone: what it held is pending, the buffers in use on its account are no more *)
Lemma BI_pop : forall st tab t base b live, BI [] (Some (st, tab)) t base b live -> 2 <= t -> BI (tab :: ids st) None t base b (others_of t live).
Proof.
  intros st tab t base b live [B1 B2 B3 B4 B5 B6 B7 B8 B9] Ht.
  assert (Hsub : forall e, In e (others_of t live) -> In e live) by (intros e H; apply filter_In in H; tauto).
  constructor; rewrite ?(others_dir t live Ht).
  - simpl in *. exact B1.
  - intros id H. apply B2. cbn [held] in H. rewrite app_nil_r in H. exact H.
  - intros id H1 H2. destruct (B3 id H1 H2) as [G|[G|G]]; [left; exact G | right; left | right; right; exact G].
    cbn [held]. rewrite app_nil_r. exact G.
  - exact B4.
  - intros e H. apply B5. apply Hsub. exact H.
  - intros e H. pose proof H as H'. apply filter_In in H'. destruct H' as [_ H'].
    destruct (B6 e (Hsub e H)) as [G|[_ G]]; [left; exact G|]. unfold owned_by in H'. rewrite G, N.eqb_refl in H'. discriminate.
  - exact B7.
  - unfold lids, others_of. apply NoDup_map_filter. exact B8.
  - exact B9.
Qed.

(* ---------------------------------------------------------------- the destructor's calls *)
Definition ev_id (e : ev) : N := match e with EA id _ => id | EF id _ => id end.

Lemma direct_frees_ok : forall rf l pend rpend t base b live e nx',
  BI pend None t base b live -> Permutation pend (map ev_id l ++ rpend) ->
  (forall x, In x l -> exists id sz a, x = EF id sz /\ xszof (xo b) id = Some (who_U, a) /\ size_ok a sz 0 = true) ->
  direct_frees rf (xlen b) l = (e, nx') ->
  exists b', x_applies 0 live b e = Some b' /\ nx' = xlen b' /\ bgrow b b' /\ BI rpend None t base b' live.
Proof.
  intros rf l. induction l as [|x r IH]; intros pend rpend t base b live e nx' B P F D.
  - cbn [direct_frees] in D. inversion D; subst. exists b. split; [reflexivity|]. split; [reflexivity|]. split; [apply bgrow_refl|].
    simpl in P. apply (BI_move pend rpend None None); [simpl; rewrite !app_nil_r; exact P | tauto | exact B].
  - destruct (F x (or_introl eq_refl)) as [id [sz [a [Ex [Ox Sx]]]]]. subst x. cbn [direct_frees] in D.
    destruct (dlife rf (xlen b)) as [e1 nx1] eqn:D1. destruct (direct_frees rf nx1 r) as [e2 nx2] eqn:D2. inversion D; subst e nx'. clear D.
    cbn [map ev_id app] in P.
    assert (Hp : In id pend) by (eapply Permutation_in; [apply Permutation_sym; exact P | left; reflexivity]).
    assert (Hnf : ~ In id (xf b)) by (apply (bi_rng _ _ _ _ _ _ B id); apply in_or_app; left; exact Hp).
    assert (Hnl : ~ In id (lids live)).
    { intros H. apply (lids_all_dir _ _ _ _ _ _ B) in H. pose proof (bi_nodup _ _ _ _ _ _ B) as N. simpl in N. eapply NoDup_app_disj; eauto. }
    set (bA := free1 b id).
    assert (XA1 : x_apply 0 live b (XF who_U id sz) = Some bA) by (eapply apply_XF; eauto).
    assert (BA : BI (map ev_id r ++ rpend) None t base bA live) by (eapply BI_XF; [exact P | exact B]).
    assert (LA : xlen bA = xlen b) by reflexivity.
    rewrite <- LA in D1. destruct (odlife_ok _ None t base bA live rf 0 e1 nx1 BA I D1) as [bB [XB [PB1 [PB2 [PB3 _]]]]].
    rewrite PB1 in D2.
    destruct (IH (map ev_id r ++ rpend) rpend t base bB live e2 nx2 PB3 (Permutation_refl _)) as [bC [XC [PC1 [PC2 PC3]]]]; [|exact D2|].
    + intros y Hy. destruct (F y (or_intror Hy)) as [id' [sz' [a' [Ey [Oy Sy]]]]]. exists id', sz', a'. split; [exact Ey|]. split; [|exact Sy].
      destruct PB2 as [G _]. apply G. apply (bgrow_free1 b id). exact Oy.
    + exists bC. split; [cbn [x_applies]; rewrite XA1, x_applies_app, XB; exact XC|]. split; [exact PC1|]. split; [|exact PC3].
      eapply bgrow_trans; [apply bgrow_free1|]. eapply bgrow_trans; [exact PB2 | exact PC2].
Qed.

(* what clearAllIncludingCurrentlyUsedMemory gives back: every header and buffer of every list, with the size of its class / 0 *)
Lemma destroy_list_ids : forall sz bl, map ev_id (destroy_list sz bl) = flat_map (fun blk => [b_mem blk; b_hdr blk]) bl.
Proof. intros sz bl. induction bl as [|x r IH]; [reflexivity|]. simpl. rewrite IH. reflexivity. Qed.
Lemma in_destroy_list : forall sz bl x, In x (destroy_list sz bl) -> exists blk, In blk bl /\ (x = EF (b_mem blk) sz \/ x = EF (b_hdr blk) block_hdr_size).
Proof.
  intros sz bl x H. unfold destroy_list in H. apply in_flat_map in H. destruct H as [blk [H1 H2]]. exists blk. split; [exact H1|].
  simpl in H2. destruct H2 as [H2|[H2|[]]]; auto.
Qed.
Lemma flat_map_pointwise : forall (A B : Type) (f g : A -> list B) l, (forall x, Permutation (f x) (g x)) -> Permutation (flat_map f l) (flat_map g l).
Proof. intros A B f g l H. induction l as [|x r IH]; [constructor|]. simpl. apply Permutation_app; [apply H | exact IH]. Qed.
Lemma swapped_ids : forall k bl, Permutation (flat_map (fun blk => [b_mem blk; b_hdr blk]) bl) (flat_map kb_ids (map (pair k) bl)).
Proof. intros k bl. induction bl as [|x r IH]; [constructor|]. simpl. eapply perm_trans; [apply perm_swap|]. constructor. constructor. exact IH. Qed.

Definition wipe_evs (st : state) : list ev :=
  flat_map (fun nd => destroy_list (n_size nd) (n_free nd ++ n_used nd)) (s_cache st) ++ destroy_list 0 (s_non st).
Lemma wipe_evs_ids : forall st, Permutation (map ev_id (wipe_evs st)) (ids st).
Proof.
  intros st. unfold wipe_evs, ids, kblocks. rewrite map_app, flat_map_app. apply Permutation_app.
  - induction (s_cache st) as [|nd r IH]; [constructor|]. simpl. rewrite map_app, flat_map_app. apply Permutation_app; [|exact IH].
    rewrite destroy_list_ids. unfold kb_node. apply swapped_ids.
  - rewrite destroy_list_ids. apply swapped_ids.
Qed.
Lemma in_wipe_evs : forall st x, In x (wipe_evs st) -> exists k blk, In (k, blk) (kblocks st) /\
  (x = EF (b_mem blk) (match k with Some s => s | None => 0 end) \/ x = EF (b_hdr blk) block_hdr_size).
Proof.
  intros st x H. unfold wipe_evs in H. apply in_app_iff in H. destruct H as [H|H].
  - apply in_flat_map in H. destruct H as [nd [H1 H2]]. apply in_destroy_list in H2. destruct H2 as [blk [H2 H3]].
    exists (Some (n_size nd)), blk. split; [|exact H3]. unfold kblocks. apply in_or_app. left. apply in_flat_map. exists nd. split; [exact H1|].
    unfold kb_node. apply in_map. exact H2.
  - apply in_destroy_list in H. destruct H as [blk [H2 H3]]. exists None, blk. split; [|exact H3].
    unfold kblocks. apply in_or_app. right. apply in_map. exact H2.
Qed.

Lemma pop_ok : forall st tab t base b live rf e nx',
  BI [] (Some (st, tab)) t base b live -> KI st tab t b live -> direct_frees rf (xlen b) (o_evs (snd (clear_all st))) = (e, nx') ->
  exists b', x_applies 0 (others_of t live) b (e ++ [XF who_D tab node_array_size]) = Some b' /\ nx' = xlen b' /\ bgrow b b' /\
             BI [] None t base b' (others_of t live).
Proof.
  intros st tab t base b live rf e nx' B K D. rewrite clear_all_eq in D. cbn [snd o_evs mk_out] in D. fold (wipe_evs st) in D.
  pose proof (ki_tag _ _ _ _ _ K) as Ht. set (others := others_of t live) in *.
  pose proof (BI_pop st tab t base b live B Ht) as B0. fold others in B0.
  destruct (direct_frees_ok rf (wipe_evs st) (tab :: ids st) [tab] t base b others e nx' B0) as [b1 [X1 [P1 [P2 P3]]]]; [| |exact D|].
  { eapply perm_trans; [apply Permutation_cons_append|]. apply Permutation_app_tail. apply Permutation_sym. apply wipe_evs_ids. }
  { intros x Hx. apply in_wipe_evs in Hx. destruct Hx as [k [blk [Hk Hx]]]. destruct (ki_blk _ _ _ _ _ K _ Hk) as [Oh [Om _]]. cbn [fst snd] in Oh, Om.
    destruct Hx as [->| ->].
    - destruct k as [s|].
      + exists (b_mem blk), s, s. split; [reflexivity|]. split; [exact Om | apply size_ok_same].
      + destruct Om as [a [Ha Om]]. exists (b_mem blk), 0, a. split; [reflexivity|]. split; [exact Om|].
        unfold size_ok. replace (cached_bound <? a) with true by (symmetry; apply N.ltb_lt; exact Ha). rewrite N.eqb_refl. apply orb_true_r.
    - exists (b_hdr blk), block_hdr_size, block_hdr_size. split; [reflexivity|]. split; [exact Oh | apply size_ok_same]. }
  assert (Ot : xszof (xo b1) tab = Some (who_D, node_array_size)) by (destruct P2 as [G _]; apply G; exact (ki_tab _ _ _ _ _ K)).
  assert (Hnf : ~ In tab (xf b1)) by (apply (bi_rng _ _ _ _ _ _ P3 tab); left; reflexivity).
  assert (Hnl : ~ In tab (lids others)).
  { intros H. apply (lids_all_dir _ _ _ _ _ _ P3) in H. pose proof (bi_nodup _ _ _ _ _ _ P3) as N. simpl in N. inversion N; subst. auto. }
  set (b2 := free1 b1 tab).
  assert (X2 : x_apply 0 others b1 (XF who_D tab node_array_size) = Some b2) by (eapply apply_XF; eauto; apply size_ok_same).
  assert (B2 : BI [] None t base b2 others) by (eapply BI_XF; [apply Permutation_refl | exact P3]).
  exists b2. split; [rewrite x_applies_app, X1; cbn [x_applies]; rewrite X2; reflexivity|]. split; [exact P1|].
  split; [eapply bgrow_trans; [exact P2 | apply bgrow_free1]|]. exact B2.
Qed.

(* nothing is out but the blocks of buffers in use that an allocator served directly *)
Lemma cover_check : forall t b live base', BI [] None t 0 b live ->
  forallb (fun id => memN id (xf b) || memN id (lids live)) (range_from base' (length (xo b) - N.to_nat base')) = true.
Proof.
  intros t b live base' B. apply forallb_forall. intros id Hr. apply range_from_In in Hr.
  assert (Hlt : id < xlen b) by (unfold xlen; lia).
  destruct (bi_cov _ _ _ _ _ _ B id) as [G|[G|G]]; [lia | exact Hlt | | destruct G |].
  - apply orb_true_iff. left. apply memN_In. exact G.
  - apply orb_true_iff. right. apply memN_In. apply dir_in_lids. exact G.
Qed.

(* ---------------------------------------------------------------- construction *)
Lemma fresh_blocks : kblocks fresh_cache = [] /\ ublocks fresh_cache = [] /\ map n_size (s_cache fresh_cache) = class_sizes.
Proof. repeat split; reflexivity. Qed.

Lemma lvk_all_dir : forall live t, (forall e, In e live -> le_own e < 2) -> 2 <= t -> lvk live t = [].
Proof.
  intros live t H Ht. unfold lvk. induction live as [|e r IH]; [reflexivity|]. simpl.
  assert (O : owned_by t e = false). { unfold owned_by. apply N.eqb_neq. pose proof (H e (or_introl eq_refl)). lia. }
  rewrite O. apply IH. intros x Hx. apply H. right. exact Hx.
Qed.

Lemma push_ok : forall t0 base0 b live t, BI [] None t0 base0 b live -> 2 <= t ->
  BI [] (Some (fresh_cache, xlen b)) t base0 (grow1 b who_D node_array_size) live /\
  KI fresh_cache (xlen b) t (grow1 b who_D node_array_size) live.
Proof.
  intros t0 base0 b live t B Ht. pose proof (BI_XA [] None t0 base0 b live who_D node_array_size B) as B1.
  destruct B1 as [B1 B2 B3 B4 B5 B6 B7 B8 B9]. destruct fresh_blocks as [F1 [F2 F3]].
  assert (Hdir : forall e, In e live -> le_own e < 2).
  { intros e H. destruct (B6 e H) as [G|[G _]]; [exact G | congruence]. }
  assert (Hi : ids fresh_cache = []) by (unfold ids; rewrite F1; reflexivity).
  split.
  - constructor; cbn [held]; rewrite ?Hi.
    + simpl in *. exact B1.
    + intros id H. apply B2. simpl in *. exact H.
    + intros id H1 H2. destruct (B3 id H1 H2) as [G|[G|G]]; [left; exact G | right; left; simpl in *; exact G | right; right; exact G].
    + exact B4.
    + exact B5.
    + intros e H. left. apply Hdir. exact H.
    + exact B7.
    + exact B8.
    + exact B9.
  - constructor.
    + exact F3.
    + rewrite F1. intros kb [].
    + unfold outk. rewrite F2. simpl. rewrite (lvk_all_dir live t Hdir Ht). constructor.
    + apply grow1_new.
    + intros e H1 H2. apply Hdir in H1. lia.
    + exact Ht.
Qed.
