(* C02 -- sessions: several runs (CommandLineTestRunner command lines, or rounds of direct API calls) on ONE registry.
   Part F: every run of every valid session meets the oracle (run_meets_spec).
   Part G: the selection of a run is a function of that run's own filters, whatever state the earlier runs left
           (stale filter fields, run-ignored switch, list order); the state a history leaves; listing runs.
   Part H: the runner that installs filters only when the command line gives some (`install_keep`) is refuted. *)
From Coq Require Import NArith Arith Bool List Lia Permutation.
From CppUVerif Require Import lib.Str C13_Model C02_Model C02_Proofs.
Import ListNotations.
Local Open Scope N_scope.

Lemma forallb_weaken {A} (p q : A -> bool) l : (forall x, p x = true -> q x = true) -> forallb p l = true -> forallb q l = true.
Proof. intros H F. rewrite forallb_forall in *. intros x Hx. apply H, F, Hx. Qed.

Lemma parity_snoc prev c : parity (prev ++ [c]) = xorb (parity prev) (reverses c).
Proof. unfold parity. rewrite fold_left_app. reflexivity. Qed.
Lemma existsb_snoc {A} (p : A -> bool) l x : existsb p (l ++ [x]) = existsb p l || p x.
Proof. rewrite existsb_app. cbn. rewrite orb_false_r. reflexivity. Qed.

(* ================================================================== Part F *)
Section Session.
Variable ts : list test.
Let n := length ts.
Hypothesis Hids : natlist_eqb (map t_id ts) (seq 0 n) = true.
Hypothesis Htests : forallb test_ok ts = true.

Definition order_of (b : bool) : list nat := if b then seq 0 n else rev (seq 0 n).
Lemma rev_order_of b : rev (order_of b) = order_of (negb b).
Proof. unfold order_of. destruct b; cbn [negb]; [reflexivity | apply rev_involutive]. Qed.

(* what the runs `prev` leave: the registered tests in some order (the exact one while nothing was shuffled), the run-ignored
   switch on iff some run asked for it.  NOTHING is assumed about the filter fields. *)
Definition Inv (prev : list runcfg) (st : rstate) : Prop :=
  Permutation (st_reg st) ts
  /\ (existsb shuffles prev = false -> map t_id (st_reg st) = order_of (parity prev))
  /\ st_ri st = hist_ri prev.

Lemma cfg_ok_parts c : cfg_ok c = true ->
  forallb filter_ok (u_gf c) = true /\ forallb filter_ok (u_nf c) = true /\ forallb (fun r => r <? 2147483648) (u_rands c) = true.
Proof.
  unfold cfg_ok. intro H. apply andb_true_iff in H. destruct H as [H _]. apply andb_true_iff in H. destruct H as [H _].
  apply andb_true_iff in H. destruct H as [H R]. apply andb_true_iff in H. destruct H as [G F]. repeat split; assumption.
Qed.

Lemma valid1_virt prev c ri : cfg_ok c = true -> valid1 (virt ts prev c ri) = true.
Proof.
  intro H. destruct (cfg_ok_parts c H) as [G [F R]]. unfold valid1, virt. cbn [s_tests s_gf s_nf s_rands s_route].
  fold n. rewrite Hids, Htests, G, F, R. reflexivity.
Qed.

Lemma repeat_loop_ok prev c ri : cfg_ok c = true -> forall m reg,
  (m <> 0%nat -> u_shuffle c = true -> existsb shuffles (prev ++ [c]) = true) ->
  Permutation reg ts ->
  (existsb shuffles (prev ++ [c]) = false -> map t_id reg = order_of (parity (prev ++ [c]))) ->
  exists reps reg', repeat_loop c (u_gf c) (u_nf c) ri m reg = Some (reps, reg') /\ length reps = m
    /\ forallb (rep_ok (virt ts prev c ri)) reps = true
    /\ Permutation reg' ts
    /\ (existsb shuffles (prev ++ [c]) = false -> map t_id reg' = order_of (parity (prev ++ [c]))).
Proof.
  intro Hc. pose proof (valid1_virt prev c ri Hc) as V.
  induction m as [|m IH]; intros reg Hsh P O; cbn [repeat_loop].
  - exists [], reg. repeat split; assumption.
  - destruct (u_shuffle c) eqn:Sh.
    + assert (E : existsb shuffles (prev ++ [c]) = true) by (apply Hsh; [discriminate|reflexivity]).
      unfold shuffle_tests. rewrite pointer_array_id.
      destruct (shuffle_ok (u_seed c) (u_rands c) reg) as [l [seeds [drawn [E1 [Pl _]]]]]. rewrite E1.
      assert (P' : Permutation l ts) by (eapply Permutation_trans; eassumption).
      assert (O' : existsb shuffles (prev ++ [c]) = false -> map t_id l = order_of (parity (prev ++ [c]))) by (rewrite E; discriminate).
      pose proof (rep_ok_of_perm (virt ts prev c ri) V l seeds drawn P' O') as R. cbn [virt s_gf s_nf s_ri] in R.
      destruct (run_all_tests (u_gf c) (u_nf c) ri l) as [w k].
      destruct (IH l (fun _ _ => E) P' O') as [reps [reg' [E' [L' [F' [P'' O'']]]]]]. rewrite E'.
      eexists. eexists. split; [reflexivity|]. split; [cbn; lia|]. split; [cbn [forallb]; rewrite R, F'; reflexivity|]. split; assumption.
    + pose proof (rep_ok_of_perm (virt ts prev c ri) V reg [] [] P O) as R. cbn [virt s_gf s_nf s_ri] in R.
      destruct (run_all_tests (u_gf c) (u_nf c) ri reg) as [w k].
      destruct (IH reg (fun _ (H : false = true) => False_ind _ (diff_false_true H)) P O) as [reps [reg' [E' [L' [F' [P'' O'']]]]]]. rewrite E'.
      eexists. eexists. split; [reflexivity|]. split; [cbn; lia|]. split; [cbn [forallb]; rewrite R, F'; reflexivity|]. split; assumption.
Qed.

Lemma hist_ri_snoc prev c : hist_ri (prev ++ [c]) = hist_ri prev || u_ri c.
Proof. apply existsb_snoc. Qed.

(* one run from ANY state that the invariant admits: it terminates without leaving the array, its repetitions meet the oracle
   for the run's own configuration, the invariant holds again, and the registry's filter fields are the run's own *)
Lemma run_cfg_ok prev c st : cfg_ok c = true -> Inv prev st ->
  exists reps st', run_cfg st c = Some (reps, st') /\ run_ok ts prev c reps = true /\ Inv (prev ++ [c]) st'
    /\ st_gf st' = u_gf c /\ st_nf st' = u_nf c.
Proof.
  intros Hc [P [O Ri]]. unfold run_cfg, run_cfg_with. cbn [install st_reg st_gf st_nf st_ri].
  destruct (u_list c =? 0) eqn:L; cbn [negb].
  - (* a run of the tests *)
    assert (Rv : reverses c = u_rev c) by (unfold reverses; rewrite L; apply andb_true_r).
    assert (S1 : existsb shuffles (prev ++ [c]) = false -> existsb shuffles prev = false).
    { rewrite existsb_snoc. intro H. apply orb_false_iff in H. exact (proj1 H). }
    assert (Start : exists reg1, (if u_rev c then reverse_tests (st_reg st) else Some (st_reg st)) = Some reg1
              /\ Permutation reg1 ts
              /\ (existsb shuffles (prev ++ [c]) = false -> map t_id reg1 = order_of (parity (prev ++ [c])))).
    { rewrite parity_snoc, Rv. destruct (u_rev c).
      - unfold reverse_tests. rewrite pointer_array_id, reverse_ok. exists (rev (st_reg st)). split; [reflexivity|]. split.
        + eapply Permutation_trans; [apply Permutation_sym, Permutation_rev | exact P].
        + intro H. rewrite map_rev, (O (S1 H)), rev_order_of. destruct (parity prev); reflexivity.
      - exists (st_reg st). split; [reflexivity|]. split; [exact P|]. intro H. rewrite xorb_false_r. apply O, S1, H. }
    destruct Start as [reg1 [E1 [P1 O1]]]. rewrite E1.
    assert (Hsh : u_repeat c <> 0%nat -> u_shuffle c = true -> existsb shuffles (prev ++ [c]) = true).
    { intros Hm Sh. rewrite existsb_snoc. unfold shuffles at 2. rewrite Sh, L. cbn [andb].
      destruct (u_repeat c); [congruence|]. cbn. apply orb_true_r. }
    destruct (repeat_loop_ok prev c (st_ri st || u_ri c) Hc (u_repeat c) reg1 Hsh P1 O1) as [reps [reg2 [E2 [L2 [F2 [P2 O2]]]]]].
    rewrite E2. exists reps. eexists. split; [reflexivity|]. split; [|split; [|split; reflexivity]].
    + unfold run_ok. rewrite L, L2, Nat.eqb_refl. cbn [andb]. revert F2. apply forallb_weaken. intros r Hr.
      rewrite Ri in Hr. destruct (u_ri c).
      * rewrite orb_true_r in Hr. rewrite Hr. reflexivity.
      * rewrite orb_false_r in Hr. destruct (hist_ri prev); [rewrite Hr; apply orb_true_r | rewrite Hr; reflexivity].
    + split; [exact P2|]. split; [exact O2|]. cbn [st_ri]. rewrite hist_ri_snoc, Ri. reflexivity.
  - (* a listing run: initializeTestRun, list, return *)
    exists []. eexists. split; [reflexivity|]. split; [|split; [|split; reflexivity]].
    + unfold run_ok. rewrite L. reflexivity.
    + assert (Rv : reverses c = false) by (unfold reverses; rewrite L; apply andb_false_r).
      assert (Sv : shuffles c = false) by (unfold shuffles; rewrite L, andb_false_r; reflexivity).
      split; [exact P|]. cbn [install st_reg st_ri]. split.
      * rewrite existsb_snoc, Sv, orb_false_r, parity_snoc, Rv, xorb_false_r. exact O.
      * rewrite hist_ri_snoc, Ri. reflexivity.
Qed.

Lemma run_cfgs_ok : forall cs prev st, forallb cfg_ok cs = true -> Inv prev st ->
  exists rs, run_cfgs st cs = Some rs /\ runs_ok ts prev cs rs = true.
Proof.
  induction cs as [|c cs IH]; intros prev st F I.
  - exists []. split; reflexivity.
  - cbn [forallb] in F. apply andb_true_iff in F. destruct F as [Hc F].
    destruct (run_cfg_ok prev c st Hc I) as [reps [st' [E [R [I' _]]]]].
    destruct (IH (prev ++ [c]) st' F I') as [rs [E' R']].
    exists (reps :: rs). split.
    + unfold run_cfgs in *. cbn [run_cfgs_with]. unfold run_cfg in E. rewrite E, E'. reflexivity.
    + cbn [runs_ok]. rewrite R, R'. reflexivity.
Qed.

Lemma inv_start : Inv [] (st0 ts).
Proof.
  unfold Inv, st0. cbn [st_reg st_ri]. rewrite registry_of_rev. split; [apply Permutation_sym, Permutation_rev|]. split; [|reflexivity].
  intros _. rewrite map_rev. apply natlist_eqb_eq in Hids. rewrite Hids. reflexivity.
Qed.
End Session.

Lemma valid1_parts s : valid1 s = true ->
  natlist_eqb (map t_id (s_tests s)) (seq 0 (length (s_tests s))) = true /\ forallb test_ok (s_tests s) = true /\ cfg_ok (cfg_of s) = true.
Proof.
  unfold valid1, cfg_ok. cbn [cfg_of u_gf u_nf u_rands u_route u_repeat u_shuffle u_seed u_list]. intro W.
  apply andb_true_iff in W. destruct W as [W Rt]. apply andb_true_iff in W. destruct W as [W Rd].
  apply andb_true_iff in W. destruct W as [W D]. apply andb_true_iff in W. destruct W as [W C].
  apply andb_true_iff in W. destruct W as [A B]. split; [exact A|]. split; [exact B|]. rewrite C, D, Rd, Rt. reflexivity.
Qed.
Lemma valid_cfgs s : valid s = true -> forallb cfg_ok (runs_of s) = true.
Proof.
  unfold valid. intro V. apply andb_true_iff in V. destruct V as [V1 V2]. unfold runs_of. cbn [forallb].
  rewrite (proj2 (proj2 (valid1_parts s V1))), V2. reflexivity.
Qed.

Lemma run_opt_ok s : valid s = true ->
  exists rs, run_opt s = Some (mkObs rs (totals (length (s_tests s)) (concat rs))) /\ runs_ok (s_tests s) [] (runs_of s) rs = true.
Proof.
  intro V. pose proof (valid_cfgs s V) as F. unfold valid in V. apply andb_true_iff in V. destruct V as [V1 _].
  destruct (valid1_parts s V1) as [A [B _]].
  destruct (run_cfgs_ok (s_tests s) A B (runs_of s) [] (st0 (s_tests s)) F (inv_start (s_tests s) A)) as [rs [E R]].
  exists rs. split; [|exact R]. unfold run_opt, run_opt_with. unfold run_cfgs in E. rewrite E. reflexivity.
Qed.

Lemma run_meets_spec : forall s, valid s = true -> spec s (run s) = true.
Proof.
  intros s V. destruct (run_opt_ok s V) as [rs [E R]]. unfold run, run_with. unfold run_opt in E. rewrite E.
  unfold spec. cbn [o_runs o_totals]. rewrite R. cbn [andb]. apply nlist_eqb_refl.
Qed.

(* ---- what the oracle's repetition clause gives, in Prop *)
Lemma rep_ok_counts s r : rep_ok s r = true ->
  c_tests (r_cnt r) = N.of_nat (length (s_tests s)) /\ c_tests (r_cnt r) = c_run (r_cnt r) + c_ign (r_cnt r) + c_filt (r_cnt r)
  /\ Permutation (r_order r) (seq 0 (length (s_tests s)))
  /\ c_filt (r_cnt r) = count_if (fun t => negb (selected s t)) (s_tests s)
  /\ forall t, In t (s_tests s) -> occurrences (ETestStarted (t_id t)) (r_word r) = b2n (selected s t).
Proof.
  unfold rep_ok. intro F.
  apply andb_true_iff in F. destruct F as [F Q4]. apply andb_true_iff in F. destruct F as [F _]. apply andb_true_iff in F. destruct F as [F _].
  apply andb_true_iff in F. destruct F as [F Q2]. apply andb_true_iff in F. destruct F as [F Q1].
  apply andb_true_iff in F. destruct F as [F On]. do 2 (apply andb_true_iff in F; destruct F as [F _]).
  apply N.eqb_eq in Q1. apply N.eqb_eq in Q2. apply N.eqb_eq in Q4. repeat split; try assumption.
  - apply is_perm_ids_sound. exact F.
  - intros t Ht. rewrite forallb_forall in On. specialize (On t Ht). apply andb_true_iff in On. apply N.eqb_eq. exact (proj1 On).
Qed.

(* the property's reading of one run of a session: the run's own filters select *)
Definition own_selected (c : runcfg) (t : test) : bool := accepted (u_gf c) (t_group t) && accepted (u_nf c) (t_name t).

Definition rep_facts (ts : list test) (c : runcfg) (r : rep_obs) : Prop :=
  c_tests (r_cnt r) = N.of_nat (length ts) /\ c_tests (r_cnt r) = c_run (r_cnt r) + c_ign (r_cnt r) + c_filt (r_cnt r)
  /\ Permutation (r_order r) (seq 0 (length ts))
  /\ c_filt (r_cnt r) = count_if (fun t => negb (own_selected c t)) ts
  /\ forall t, In t ts -> occurrences (ETestStarted (t_id t)) (r_word r) = b2n (own_selected c t).
Definition run_facts (ts : list test) (c : runcfg) (reps : list rep_obs) : Prop :=
  length reps = (if u_list c =? 0 then u_repeat c else 0%nat) /\ forall r, In r reps -> rep_facts ts c r.

Lemma run_ok_facts ts prev c reps : run_ok ts prev c reps = true -> run_facts ts c reps.
Proof.
  unfold run_ok. intro H. apply andb_true_iff in H. destruct H as [L F]. apply Nat.eqb_eq in L. split; [exact L|].
  intros r Hr. rewrite forallb_forall in F. specialize (F r Hr). apply orb_true_iff in F. destruct F as [F|F].
  - exact (rep_ok_counts _ r F).
  - apply andb_true_iff in F. exact (rep_ok_counts _ r (proj2 F)).
Qed.
Lemma runs_ok_facts ts : forall cs prev rs, runs_ok ts prev cs rs = true -> Forall2 (run_facts ts) cs rs.
Proof.
  induction cs as [|c cs IH]; intros prev [|reps rs] H; cbn [runs_ok] in H; try discriminate H; [constructor|].
  apply andb_true_iff in H. destruct H as [R H]. constructor; [exact (run_ok_facts ts prev c reps R) | exact (IH _ _ H)].
Qed.

(* every run of every valid session: as many repetitions as the run asks for (none when it only lists), in each the counters
   identity, the order a permutation of the registered tests, and the selection = the run's own filters *)
Lemma session_counts s : valid s = true -> Forall2 (run_facts (s_tests s)) (runs_of s) (o_runs (run s)).
Proof.
  intro V. destruct (run_opt_ok s V) as [rs [E R]]. unfold run, run_with. unfold run_opt in E. rewrite E. cbn [o_runs].
  exact (runs_ok_facts _ _ _ _ R).
Qed.

(* ================================================================== Part G: selection depends on the run's own filters only *)
Lemma repeat_loop_words c gf nf ri : forall m reg reps reg', repeat_loop c gf nf ri m reg = Some (reps, reg') ->
  Permutation reg' reg /\ length reps = m
  /\ forall r, In r reps -> exists l, Permutation l reg /\ r_order r = map t_id l
       /\ r_word r = fst (run_all_tests gf nf ri l) /\ r_cnt r = snd (run_all_tests gf nf ri l).
Proof.
  induction m as [|m IH]; intros reg reps reg' H; cbn [repeat_loop] in H.
  - inversion H; subst. split; [apply Permutation_refl|]. split; [reflexivity|]. intros r [].
  - assert (Sh : exists l seeds drawn, (if u_shuffle c then shuffle_tests (u_seed c) (u_rands c) reg else Some (reg, [], [])) = Some (l, seeds, drawn)
                  /\ Permutation l reg).
    { destruct (u_shuffle c).
      - unfold shuffle_tests. rewrite pointer_array_id. destruct (shuffle_ok (u_seed c) (u_rands c) reg) as [l [sd [dr [E [P _]]]]].
        exists l, sd, dr. split; assumption.
      - exists reg, [], []. split; [reflexivity | apply Permutation_refl]. }
    destruct Sh as [l [seeds [drawn [E P]]]]. rewrite E in H.
    destruct (run_all_tests gf nf ri l) as [w k] eqn:RA.
    destruct (repeat_loop c gf nf ri m l) as [[reps1 reg1]|] eqn:RL; [|discriminate H]. inversion H; subst.
    destruct (IH l reps1 reg' RL) as [P1 [L1 W1]]. split; [eapply Permutation_trans; eassumption|]. split; [cbn; lia|].
    intros r [<-|Hr].
    + exists l. cbn [r_order r_word r_cnt]. rewrite RA. repeat split; try reflexivity. exact P.
    + destruct (W1 r Hr) as [l' [Pl' Rest]]. exists l'. split; [eapply Permutation_trans; eassumption | exact Rest].
Qed.

Lemma should_run_own c t : forallb filter_ok (u_gf c) = true -> forallb filter_ok (u_nf c) = true -> test_ok t = true ->
  should_run (u_gf c) (u_nf c) t = own_selected c t.
Proof.
  intros G F T. unfold should_run, own_selected. unfold test_ok in T. apply andb_true_iff in T. destruct T as [T1 T2].
  rewrite (shell_match_accepted _ _ G T1), (shell_match_accepted _ _ F T2). reflexivity.
Qed.

Definition state_ok (st : rstate) : Prop := NoDup (map t_id (st_reg st)) /\ forall t, In t (st_reg st) -> test_ok t = true.

(* ANY state -- whatever filters are still on the registry, whatever the run-ignored switch and the order are -- and any run:
   in every repetition a registered test is started exactly once iff the run's OWN filters select it, never otherwise; the
   filtered-out counter counts exactly the tests the run's own filters refuse; the counters identity holds. *)
Lemma selection_own_filters st c reps st' :
  state_ok st -> forallb filter_ok (u_gf c) = true -> forallb filter_ok (u_nf c) = true ->
  run_cfg st c = Some (reps, st') ->
  forall r, In r reps ->
    (forall t, In t (st_reg st) -> occurrences (ETestStarted (t_id t)) (r_word r) = b2n (own_selected c t))
    /\ c_filt (r_cnt r) = count_if (fun t => negb (own_selected c t)) (st_reg st)
    /\ c_tests (r_cnt r) = N.of_nat (length (st_reg st))
    /\ c_tests (r_cnt r) = c_run (r_cnt r) + c_ign (r_cnt r) + c_filt (r_cnt r).
Proof.
  intros [ND TK] G F H r Hr. unfold run_cfg, run_cfg_with in H. cbn [install st_reg st_gf st_nf st_ri] in H.
  destruct (u_list c =? 0); cbn [negb] in H; [|inversion H; subst; destruct Hr].
  assert (St : exists reg1, (if u_rev c then reverse_tests (st_reg st) else Some (st_reg st)) = Some reg1 /\ Permutation reg1 (st_reg st)).
  { destruct (u_rev c).
    - unfold reverse_tests. rewrite pointer_array_id, reverse_ok. eexists. split; [reflexivity | apply Permutation_sym, Permutation_rev].
    - eexists. split; [reflexivity | apply Permutation_refl]. }
  destruct St as [reg1 [E1 P1]]. rewrite E1 in H.
  destruct (repeat_loop c (u_gf c) (u_nf c) (st_ri st || u_ri c) (u_repeat c) reg1) as [[reps2 reg2]|] eqn:RL; [|discriminate H].
  inversion H; subst. destruct (repeat_loop_words _ _ _ _ _ _ _ _ RL) as [_ [_ W]]. destruct (W r Hr) as [l [Pl [_ [Ew Ek]]]].
  assert (P : Permutation l (st_reg st)) by (eapply Permutation_trans; eassumption).
  assert (NDl : NoDup (map t_id l)).
  { eapply Permutation_NoDup; [apply Permutation_sym, Permutation_map; exact P | exact ND]. }
  pose proof (exactly_once (u_gf c) (u_nf c) (st_ri st || u_ri c) l NDl) as [X _]. cbn zeta in X. rewrite <- Ew in X.
  pose proof (counts_identity (u_gf c) (u_nf c) (st_ri st || u_ri c) l) as C. cbn zeta in C. rewrite <- Ek in C.
  destruct C as [C1 [C2 [_ [_ C4]]]].
  split; [|split; [|split]].
  - intros t Ht. assert (Hl : In t l) by (eapply Permutation_in; [apply Permutation_sym; exact P | exact Ht]).
    rewrite (proj1 (X t Hl)). rewrite (should_run_own c t G F (TK t Ht)). reflexivity.
  - rewrite C4. rewrite (count_if_perm _ _ _ P). apply count_if_ext. intros t Ht. rewrite (should_run_own c t G F (TK t Ht)). reflexivity.
  - rewrite C1. rewrite (Permutation_length P). reflexivity.
  - exact C2.
Qed.

(* ... in particular a run that gives no filter at all selects every test, whatever filters an earlier run installed *)
Lemma no_filters_select_all st c reps st' :
  state_ok st -> u_gf c = [] -> u_nf c = [] -> run_cfg st c = Some (reps, st') ->
  forall r, In r reps ->
    (forall t, In t (st_reg st) -> occurrences (ETestStarted (t_id t)) (r_word r) = 1)
    /\ c_filt (r_cnt r) = 0 /\ c_run (r_cnt r) + c_ign (r_cnt r) = N.of_nat (length (st_reg st)).
Proof.
  intros S G F H r Hr.
  assert (Gk : forallb filter_ok (u_gf c) = true) by (rewrite G; reflexivity).
  assert (Fk : forallb filter_ok (u_nf c) = true) by (rewrite F; reflexivity).
  destruct (selection_own_filters st c reps st' S Gk Fk H r Hr) as [A [B [C D]]].
  assert (Sel : forall t, own_selected c t = true) by (intro t; unfold own_selected; rewrite G, F; reflexivity).
  assert (Z : c_filt (r_cnt r) = 0).
  { rewrite B. rewrite (count_if_ext _ (fun _ => false)) by (intros t _; rewrite Sel; reflexivity).
    clear. induction (st_reg st) as [|y l IH]; [reflexivity|]. rewrite count_if_cons, IH. reflexivity. }
  split; [|split].
  - intros t Ht. rewrite (A t Ht), Sel. reflexivity.
  - exact Z.
  - rewrite <- C, D, Z. lia.
Qed.

(* filters of one kind only: the other kind does not restrict, whatever an earlier run left in that field *)
Lemma one_kind_only st c reps st' :
  state_ok st -> forallb filter_ok (u_gf c) = true -> forallb filter_ok (u_nf c) = true ->
  run_cfg st c = Some (reps, st') -> forall r, In r reps -> forall t, In t (st_reg st) ->
    (u_nf c = [] -> occurrences (ETestStarted (t_id t)) (r_word r) = b2n (accepted (u_gf c) (t_group t)))
    /\ (u_gf c = [] -> occurrences (ETestStarted (t_id t)) (r_word r) = b2n (accepted (u_nf c) (t_name t))).
Proof.
  intros S G F H r Hr t Ht. destruct (selection_own_filters st c reps st' S G F H r Hr) as [A _].
  rewrite (A t Ht). unfold own_selected. split; intro E; rewrite E; cbn [accepted]; [rewrite andb_true_r|]; reflexivity.
Qed.

(* ---- the state a history leaves *)
Fixpoint state_after_with (inst : rstate -> runcfg -> rstate) (st : rstate) (cs : list runcfg) : option rstate :=
  match cs with
  | [] => Some st
  | c :: cs' => match run_cfg_with inst st c with Some (_, st') => state_after_with inst st' cs' | None => None end
  end.
Definition state_after := state_after_with install.

Definition last_gf (st : rstate) (cs : list runcfg) := match rev cs with [] => st_gf st | c :: _ => u_gf c end.
Definition last_nf (st : rstate) (cs : list runcfg) := match rev cs with [] => st_nf st | c :: _ => u_nf c end.

Lemma state_after_ok ts :
  natlist_eqb (map t_id ts) (seq 0 (length ts)) = true -> forallb test_ok ts = true ->
  forall cs prev st, forallb cfg_ok cs = true -> Inv ts prev st ->
  exists st', state_after st cs = Some st' /\ Inv ts (prev ++ cs) st' /\ st_gf st' = last_gf st cs /\ st_nf st' = last_nf st cs.
Proof.
  intros A B. induction cs as [|c cs IH]; intros prev st F I.
  - exists st. rewrite app_nil_r. repeat split; try reflexivity; apply I.
  - cbn [forallb] in F. apply andb_true_iff in F. destruct F as [Hc F].
    destruct (run_cfg_ok ts A B prev c st Hc I) as [reps [st1 [E [_ [I1 [G1 F1]]]]]].
    destruct (IH (prev ++ [c]) st1 F I1) as [st' [E' [I' [G' F']]]]. exists st'.
    unfold state_after in *. cbn [state_after_with]. unfold run_cfg in E. rewrite E. split; [exact E'|].
    rewrite <- app_assoc in I'. split; [exact I'|].
    unfold last_gf, last_nf in *. cbn [rev]. destruct (rev cs) as [|d ds]; cbn [app]; [|split; assumption].
    rewrite G', F'. split; assumption.
Qed.

(* the history of a valid session leaves: every registered test exactly once in the list (nothing lost, nothing duplicated, over
   any number of reversals and shuffles), run-ignored on iff some run asked for it, and in the filter fields the filters of the
   LAST run only (NULL when that run gave none) *)
Lemma session_state ts cs :
  natlist_eqb (map t_id ts) (seq 0 (length ts)) = true -> forallb test_ok ts = true -> forallb cfg_ok cs = true ->
  exists st, state_after (st0 ts) cs = Some st
    /\ Permutation (st_reg st) ts /\ st_ri st = hist_ri cs
    /\ st_gf st = last_gf (st0 ts) cs /\ st_nf st = last_nf (st0 ts) cs.
Proof.
  intros A B F. destruct (state_after_ok ts A B cs [] (st0 ts) F (inv_start ts A)) as [st [E [[P [_ R]] [G N]]]].
  exists st. cbn [app] in *. repeat split; assumption.
Qed.

Lemma inv_state_ok ts prev st :
  natlist_eqb (map t_id ts) (seq 0 (length ts)) = true -> forallb test_ok ts = true -> Inv ts prev st -> state_ok st.
Proof.
  intros A B [P _]. split.
  - eapply Permutation_NoDup; [apply Permutation_sym, Permutation_map; exact P|]. apply natlist_eqb_eq in A. rewrite A. apply seq_NoDup.
  - intros t Ht. rewrite forallb_forall in B. apply B. eapply Permutation_in; eassumption.
Qed.

(* for ANY TWO histories: the same run started after either selects the same tests in every repetition and filters out the
   same number -- the selection of a run is a function of that run's own filters *)
Lemma selection_history_independent ts h1 h2 c st1 st2 reps1 reps2 st1' st2' :
  natlist_eqb (map t_id ts) (seq 0 (length ts)) = true -> forallb test_ok ts = true ->
  forallb cfg_ok h1 = true -> forallb cfg_ok h2 = true -> cfg_ok c = true ->
  state_after (st0 ts) h1 = Some st1 -> state_after (st0 ts) h2 = Some st2 ->
  run_cfg st1 c = Some (reps1, st1') -> run_cfg st2 c = Some (reps2, st2') ->
  length reps1 = length reps2
  /\ forall r1 r2, In r1 reps1 -> In r2 reps2 ->
       c_filt (r_cnt r1) = c_filt (r_cnt r2)
       /\ forall t, In t ts -> occurrences (ETestStarted (t_id t)) (r_word r1) = occurrences (ETestStarted (t_id t)) (r_word r2).
Proof.
  intros A B F1 F2 Hc E1 E2 R1 R2.
  destruct (state_after_ok ts A B h1 [] (st0 ts) F1 (inv_start ts A)) as [s1 [E1' [I1 _]]].
  destruct (state_after_ok ts A B h2 [] (st0 ts) F2 (inv_start ts A)) as [s2 [E2' [I2 _]]].
  rewrite E1 in E1'. rewrite E2 in E2'. inversion E1'; inversion E2'; subst s1 s2. cbn [app] in I1, I2.
  destruct (cfg_ok_parts c Hc) as [G [F _]].
  pose proof (inv_state_ok ts h1 st1 A B I1) as K1. pose proof (inv_state_ok ts h2 st2 A B I2) as K2.
  destruct (run_cfg_ok ts A B h1 c st1 Hc I1) as [q1 [w1 [Q1 [O1 _]]]]. rewrite R1 in Q1. inversion Q1; subst q1 w1.
  destruct (run_cfg_ok ts A B h2 c st2 Hc I2) as [q2 [w2 [Q2 [O2 _]]]]. rewrite R2 in Q2. inversion Q2; subst q2 w2.
  destruct (run_ok_facts _ _ _ _ O1) as [L1 _]. destruct (run_ok_facts _ _ _ _ O2) as [L2 _].
  split; [congruence|]. intros r1 r2 H1 H2.
  destruct (selection_own_filters st1 c reps1 st1' K1 G F R1 r1 H1) as [X1 [Y1 _]].
  destruct (selection_own_filters st2 c reps2 st2' K2 G F R2 r2 H2) as [X2 [Y2 _]].
  destruct I1 as [P1 _]. destruct I2 as [P2 _]. split.
  - rewrite Y1, Y2. rewrite (count_if_perm _ _ _ P1), (count_if_perm _ _ _ P2). reflexivity.
  - intros t Ht. rewrite X1, X2; [reflexivity | |]; eapply Permutation_in; try eassumption; apply Permutation_sym; assumption.
Qed.

(* a listing run (-lg / -ln / -ll): initializeTestRun and nothing else -- no repetition, the list untouched *)
Lemma listing_runs_nothing st c : u_list c <> 0 -> run_cfg st c = Some ([], install st c) /\ st_reg (install st c) = st_reg st.
Proof.
  intro H. unfold run_cfg, run_cfg_with. destruct (N.eqb_spec (u_list c) 0); [contradiction|]. split; reflexivity.
Qed.

(* ================================================================== Part H: the refuted runner *)
(* initializeTestRun that installs a filter list on the registry only when the command line gives one:
     if (arguments_->getGroupFilters()) registry_->setGroupFilters(arguments_->getGroupFilters());   (same for names) *)
Definition install_keep (st : rstate) (c : runcfg) : rstate :=
  mkSt (st_reg st) (match u_gf c with [] => st_gf st | g => g end) (match u_nf c with [] => st_nf st | f => f end) (st_ri st || u_ri c).

Definition keep_meets_spec_stmt : Prop := forall s, valid s = true -> spec s (run_with install_keep s) = true.

(* Alpha.one Alpha.two Beta.one Gamma.three;  run 1: -sg Alpha;  run 2: no filter option *)
Definition ex_four : list test :=
  [mkTest 0 [65;108] [111] false; mkTest 1 [65;108] [116] false; mkTest 2 [66;101] [111] false; mkTest 3 [71;97] [104] true].
Definition plain_run (gf nf : list tfilter) : runcfg := mkRun gf nf false false false 1 [] 1%nat 1 false 0.
Definition ex_stale_group : scenario :=
  mkScn ex_four [mkFilter [65;108] true false] [] false false false 1 [] 1%nat 1 false [plain_run [] []].
(* run 1: -n o (names with an o);  run 2: -g l only (group filters given, no name filter) *)
Definition ex_stale_name : scenario :=
  mkScn ex_four [] [mkFilter [111] false false] false false false 1 [] 1%nat 1 false [plain_run [mkFilter [108] false false] []].

Lemma keep_refuted : ~ keep_meets_spec_stmt.
Proof. intro H. specialize (H ex_stale_group eq_refl). vm_compute in H. discriminate H. Qed.
Lemma keep_refuted_one_kind : valid ex_stale_name = true /\ spec ex_stale_name (run_with install_keep ex_stale_name) = false
  /\ spec ex_stale_name (run ex_stale_name) = true.
Proof. vm_compute. repeat split. Qed.

(* ---------------- examples: the hypotheses are satisfiable *)
Example ex_stale_valid : valid ex_stale_group = true /\ spec ex_stale_group (run ex_stale_group) = true.
Proof. vm_compute. split; reflexivity. Qed.
(* the code's runner: run 1 filters two tests out, run 2 none; the refuted one: run 2 still filters two out *)
Example ex_stale_counts :
  map (map r_cnt) (o_runs (run ex_stale_group)) = [[mkCnt 4 2 0 2]; [mkCnt 4 3 1 0]]
  /\ map (map r_cnt) (o_runs (run_with install_keep ex_stale_group)) = [[mkCnt 4 2 0 2]; [mkCnt 4 2 0 2]].
Proof. vm_compute. split; reflexivity. Qed.
(* a session with a listing run in the middle, a reversal, a shuffle, -ri in the first run only, repeat 2 *)
Definition ex_session : scenario :=
  mkScn ex_four [mkFilter [65;108] true false] [] true true false 1 [] 1%nat 1 false
    [mkRun [] [mkFilter [111] false true] false false false 1 [] 1%nat 1 false 2;
     mkRun [] [] false true true 7 [2; 0; 1] 2%nat 0 false 0].
Example ex_session_ok : valid ex_session = true /\ spec ex_session (run ex_session) = true
  /\ map (map r_cnt) (o_runs (run ex_session)) = [[mkCnt 4 2 0 2]; []; [mkCnt 4 4 0 0; mkCnt 4 4 0 0]]
  /\ map (map r_order) (o_runs (run ex_session)) = [[[0; 1; 2; 3]]; []; [[0; 2; 3; 1]; [1; 2; 0; 3]]]%nat.
Proof. vm_compute. repeat split. Qed.
Example ex_state_ok : state_ok (st0 ex_four).
Proof. split; [vm_compute; repeat constructor; cbn; intuition discriminate|]. intros t H. cbn in H. intuition (subst; reflexivity). Qed.
Example ex_state_after : exists st, state_after (st0 ex_four) (runs_of ex_session) = Some st
  /\ st_gf st = [] /\ st_nf st = [] /\ st_ri st = true /\ map t_id (st_reg st) = [1; 2; 0; 3]%nat.
Proof. eexists. split; [vm_compute; reflexivity|]. repeat split. Qed.
Example ex_listing : run_cfg (st0 ex_four) (mkRun [mkFilter [65] false false] [] false true true 3 [] 2%nat 1 false 1)
  = Some ([], mkSt (registry_of ex_four) [mkFilter [65] false false] [] false).
Proof. vm_compute. reflexivity. Qed.
