(* C08 -- executable mirror (layer L) of the mock matching machinery:
     src/CppUTestExt/MockSupport.cpp          (expectNCalls, actualCall, checkExpectations, clear, strictOrder, ignoreOtherCalls)
     src/CppUTestExt/MockActualCall.cpp       (MockCheckedActualCall: withName, checkInputParameter, completeCallWhenMatchIsFound,
                                               discardCurrentlyMatchingExpectations, checkExpectations, returnValue)
     src/CppUTestExt/MockExpectedCall.cpp     (MockCheckedExpectedCall: flags, counters, call-order window, callWasMade, reset)
     src/CppUTestExt/MockExpectedCallsList.cpp (pruning primitives)
     src/CppUTestExt/MockFailure.cpp          (which failure, which expectations it lists)
   Core fragment: expectOneCall/expectNCalls with typed input parameters, andReturnValue, ignoreOtherParameters, actualCall +
   withParameter + returnValue, checkExpectations, clear, strictOrder, ignoreOtherCalls.  Not yet: onObject, output parameters,
   custom comparators, scopes, enable/disable, tracing.

   Representation.  expectations_ is a list that is only ever appended to.  potentiallyMatchingExpectations_ of the call in
   progress is built by one in-order pass over expectations_ and afterwards only shrinks through pruning passes, so it is always
   an in-order sub-list of expectations_; it is represented by the membership bit e_pot on each expectation ("first in the list"
   = first with the bit).  matchingExpectation_ (a pointer into the same objects) is the bit e_cur.  Every loop of the source is one
   `map` here, in the same order.  A scenario stops at its first failure (the reporter leaves the test), so every operation
   returns either the next state or the failure.

   The parameter `fx` selects the code after (true) / before (false) the repair `fix: a new actual call starts from a clean
   matching state` (MockCheckedActualCall constructor resets the candidates' matching flags); see run_old and C08_Proofs. *)
From Coq Require Import ZArith NArith Bool List.
From CppUVerif Require Import lib.CInt lib.Str.
Import ListNotations.

Definition name := N.   (* function / parameter names: the harness uses the strings "f<hex>" / "p<hex>" *)

(* typed parameter / return values of the core fragment *)
Inductive pv := PBool (b : bool) | PInt (t : ity) (z : Z) | PStr (s : list N) | PPtr (a : Z).

Definition pv_valid (v : pv) : bool :=
  match v with
  | PInt t z => in_range t z
  | PStr s => negb (existsb (N.eqb 0) s)
  | PPtr a => (0 <=? a)%Z && (a <? 18446744073709551616)%Z
  | PBool _ => true
  end.

(* MockNamedValue::equals restricted to these kinds: integers of any two types by mathematical value (this is theorem
   C09_int_equal_iff about the branch-for-branch model of equals; restated as veq_is_C09_equals in C08_Proofs), the other kinds
   by tag and content *)
Definition veq (a b : pv) : bool :=
  match a, b with
  | PBool x, PBool y => Bool.eqb x y
  | PInt _ x, PInt _ y => (x =? y)%Z
  | PStr x, PStr y => bytes_eqb x y
  | PPtr x, PPtr y => (x =? y)%Z
  | _, _ => false
  end.

(* exact equality incl. the integer type: used for returned values *)
Definition pv_eqb (a b : pv) : bool :=
  match a, b with
  | PInt t x, PInt u y => ity_eqb t u && (x =? y)%Z
  | _, _ => veq a b
  end.

(* ---------------------------------------------------------------- expectations *)
Record param := { p_name : name; p_val : pv; p_flag : bool (* matchesActualCall_ *) }.

Record expn := {
  e_name : name;
  e_params : list param;      (* inputParameters_, in the order they were added *)
  e_ign : bool;               (* ignoreOtherParameters_ *)
  e_fin : bool;               (* isActualCallMatchFinalized_ *)
  e_lo : N; e_hi : N;         (* initial/finalExpectedCallOrder_; e_lo = 0 is NO_EXPECTED_CALL_ORDER *)
  e_ooo : bool;               (* outOfOrder_ *)
  e_ret : option pv;          (* returnValue_; None = its name is "" (no return value set) *)
  e_act : N; e_exp : N;       (* actualCalls_, expectedCalls_ *)
  e_pot : bool;               (* member of the current call's potentiallyMatchingExpectations_ *)
  e_cur : bool                (* is the current call's matchingExpectation_ *)
}.

Definition set_params (e : expn) (ps : list param) : expn :=
  {| e_name := e_name e; e_params := ps; e_ign := e_ign e; e_fin := e_fin e; e_lo := e_lo e; e_hi := e_hi e; e_ooo := e_ooo e;
     e_ret := e_ret e; e_act := e_act e; e_exp := e_exp e; e_pot := e_pot e; e_cur := e_cur e |}.
Definition set_fin (e : expn) (b : bool) : expn :=
  {| e_name := e_name e; e_params := e_params e; e_ign := e_ign e; e_fin := b; e_lo := e_lo e; e_hi := e_hi e; e_ooo := e_ooo e;
     e_ret := e_ret e; e_act := e_act e; e_exp := e_exp e; e_pot := e_pot e; e_cur := e_cur e |}.
Definition set_pot (e : expn) (b : bool) : expn :=
  {| e_name := e_name e; e_params := e_params e; e_ign := e_ign e; e_fin := e_fin e; e_lo := e_lo e; e_hi := e_hi e; e_ooo := e_ooo e;
     e_ret := e_ret e; e_act := e_act e; e_exp := e_exp e; e_pot := b; e_cur := e_cur e |}.
Definition set_cur (e : expn) (b : bool) : expn :=
  {| e_name := e_name e; e_params := e_params e; e_ign := e_ign e; e_fin := e_fin e; e_lo := e_lo e; e_hi := e_hi e; e_ooo := e_ooo e;
     e_ret := e_ret e; e_act := e_act e; e_exp := e_exp e; e_pot := e_pot e; e_cur := b |}.
Definition set_count (e : expn) (act : N) (ooo : bool) : expn :=
  {| e_name := e_name e; e_params := e_params e; e_ign := e_ign e; e_fin := e_fin e; e_lo := e_lo e; e_hi := e_hi e; e_ooo := ooo;
     e_ret := e_ret e; e_act := act; e_exp := e_exp e; e_pot := e_pot e; e_cur := e_cur e |}.

Definition set_flag (p : param) (b : bool) : param := {| p_name := p_name p; p_val := p_val p; p_flag := b |}.

(* MockCheckedExpectedCall *)
Definition relates (f : name) (e : expn) : bool := (e_name e =? f)%N.
Definition is_fulfilled (e : expn) : bool := (e_act e =? e_exp e)%N.
Definition can_match (e : expn) : bool := (e_act e <? e_exp e)%N.
Definition params_matching (e : expn) : bool := forallb p_flag (e_params e).          (* areParametersMatchingActualCall *)
Definition is_matching (e : expn) : bool := params_matching e.                        (* && wasPassedToObject_ (always true here) *)
Definition is_matching_fin (e : expn) : bool := is_matching e && (negb (e_ign e) || e_fin e).
Definition reset_e (e : expn) : expn :=                                               (* resetActualCallMatchingState *)
  set_fin (set_params e (map (fun p => set_flag p false) (e_params e))) false.
Definition find_param (n : name) (ps : list param) : option param := find (fun p => (p_name p =? n)%N) ps.   (* getValueByName *)
Definition has_input_name (n : name) (e : expn) : bool :=
  match find_param n (e_params e) with Some _ => true | None => false end.
Definition has_input (n : name) (v : pv) (e : expn) : bool :=                         (* hasInputParameter *)
  match find_param n (e_params e) with Some q => veq (p_val q) v | None => e_ign e end.
Definition mark (n : name) (e : expn) : expn :=                                       (* inputParameterWasPassed *)
  set_params e (map (fun p => if (p_name p =? n)%N then set_flag p true else p) (e_params e)).
Definition call_was_made (order : N) (e : expn) : expn :=                             (* callWasMade *)
  let ooo := if negb (e_lo e =? 0)%N && ((order <? e_lo e)%N || (e_hi e <? order)%N) then true else e_ooo e in
  reset_e (set_count e (e_act e + 1)%N ooo).

(* MockExpectedCallsList: the list object is the set of expectations with e_pot *)
Definition drop (e : expn) : expn := set_pot e false.
Definition keep_if (pred : expn -> bool) (es : list expn) : list expn :=              (* onlyKeepExpectations... + prune *)
  map (fun e => if e_pot e && negb (pred e) then drop e else e) es.
Definition pot_empty (es : list expn) : bool := negb (existsb e_pot es).               (* isEmpty *)
Definition only_keep_unmatching (es : list expn) : list expn :=                        (* onlyKeepUnmatchingExpectations *)
  map (fun e => if e_pot e && is_matching_fin e then drop (reset_e e) else e) es.
Definition for_pot (f : expn -> expn) (es : list expn) : list expn :=                  (* parameterWasPassed / reset... over the list *)
  map (fun e => if e_pot e then f e else e) es.
Definition for_cur (f : expn -> expn) (es : list expn) : list expn :=
  map (fun e => if e_cur e then f e else e) es.
(* removeFirst...: the first member satisfying pred leaves the list and becomes matchingExpectation_ (after g) *)
Fixpoint take_first (pred : expn -> bool) (g : expn -> expn) (es : list expn) : option (list expn) :=
  match es with
  | [] => None
  | e :: r => if e_pot e && pred e then Some (g (set_cur (drop e) true) :: r)
              else match take_first pred g r with Some r' => Some (e :: r') | None => None end
  end.

(* ---------------------------------------------------------------- failures *)
Inductive fkind :=
| FUnexpectedCall (f : name)                 (* "Unexpected call to function: f" *)
| FAdditionalCall (f : name) (nth : N)       (* "Unexpected additional (nth) call to function: f" *)
| FParamName (f p : name)                    (* "Unexpected parameter name to function "f": p" *)
| FParamValue (f p : name)                   (* "Unexpected parameter value to parameter "p" to function "f"" *)
| FParamMissing (f : name) (listed : N)      (* "Expected parameter for function "f" did not happen"; number of candidates listed *)
| FObjectMissing (f : name)                  (* "Expected call on object for function ... did not happen" *)
| FNotFulfilled                              (* "Expected call WAS NOT fulfilled" *)
| FOutOfOrder                                (* "Out of order calls" *)
| FCannotHappen.                             (* the FAIL("... This cannot happen.") of checkExpectations *)
(* the expectations the message lists: (expected, called) of the not fulfilled ones, then of the fulfilled ones *)
Record failure := { f_kind : fkind; f_unf : list (N * N); f_ful : list (N * N) }.

Definition counts (e : expn) : N * N := (e_exp e, e_act e).
Definition history (es : list expn) (k : fkind) : failure :=                           (* addExpectationsAndCallHistory *)
  {| f_kind := k; f_unf := map counts (filter (fun e => negb (is_fulfilled e)) es); f_ful := map counts (filter is_fulfilled es) |}.
Definition history_related (f : name) (es : list expn) (k : fkind) : failure :=        (* ...RelatedTo *)
  history (filter (relates f) es) k.

(* ---------------------------------------------------------------- the actual call in progress *)
Inductive cstate := InProgress | Succeeded | Failed.
Record acall := { c_name : name; c_order : N; c_state : cstate; c_checked : bool }.
Definition set_state (c : acall) (s : cstate) : acall :=
  {| c_name := c_name c; c_order := c_order c; c_state := s; c_checked := c_checked c |}.
Definition set_checked (c : acall) : acall :=
  {| c_name := c_name c; c_order := c_order c; c_state := c_state c; c_checked := true |}.

Definition res (A : Type) := (A + failure)%type.

(* completeCallWhenMatchIsFound (output parameters are not in this fragment) *)
Definition complete (es : list expn) (c : acall) : list expn * acall :=
  match take_first is_matching_fin (fun e => e) es with
  | Some es' => (es', set_state c Succeeded)
  | None => (es, c)
  end.

Definition fulfilled_for (f : name) (es : list expn) : N :=                            (* amountOfActualCallsFulfilledFor *)
  fold_right (fun e a => if relates f e then (e_act e + a)%N else a) 0%N es.

(* MockCheckedActualCall::withName *)
Definition with_name (es : list expn) (c : acall) : res (list expn * acall) :=
  let c := set_state c InProgress in
  let es := keep_if (relates (c_name c)) es in
  if pot_empty es then
    let n := fulfilled_for (c_name c) es in
    inr (history es (if (0 <? n)%N then FAdditionalCall (c_name c) (n + 1)%N else FUnexpectedCall (c_name c)))
  else inl (complete es c).

(* discardCurrentlyMatchingExpectations *)
Definition discard (es : list expn) : list expn :=
  only_keep_unmatching (for_cur (fun e => set_cur (reset_e e) false) es).

(* MockCheckedActualCall::checkInputParameter (hasFailed() is never true here: the scenario stopped) *)
Definition check_input (n : name) (v : pv) (es : list expn) (c : acall) : res (list expn * acall) :=
  let c := set_state c InProgress in
  let es := discard es in
  let es := keep_if (has_input n v) es in
  if pot_empty es then
    inr (history_related (c_name c) es
           (if existsb (fun e => relates (c_name c) e && has_input_name n e) es then FParamValue (c_name c) n else FParamName (c_name c) n))
  else inl (complete (for_pot (mark n) es) c).

(* MockCheckedActualCall::checkExpectations.  matchingExpectation_ (e_cur) stays set until the call object is deleted. *)
Definition check_call (es : list expn) (c : acall) : res (list expn * acall) :=
  if c_checked c then inl (es, c) else
  let c := set_checked c in
  match c_state c with
  | Succeeded => inl (for_pot reset_e (for_cur (call_was_made (c_order c)) es), c)
  | Failed => inl (for_pot reset_e es, c)
  | InProgress =>
      if existsb (fun e => e_pot e && is_matching_fin e) es then inr (history es FCannotHappen)
      else match take_first is_matching (fun e => call_was_made (c_order c) (set_fin e true)) es with
           | Some es' => inl (for_pot reset_e es', set_state c Succeeded)
           | None =>
               if existsb (fun e => e_pot e && negb (params_matching e)) es
               then inr (history_related (c_name c) es (FParamMissing (c_name c) (N.of_nat (length (filter e_pot es)))))
               else inr (history_related (c_name c) es (FObjectMissing (c_name c)))
           end
  end.

(* ---------------------------------------------------------------- MockSupport *)
Record mock := {
  m_exps : list expn;
  m_aorder : N; m_eorder : N;          (* actualCallOrder_, expectedCallOrder_ *)
  m_strict : bool; m_ignore : bool;    (* strictOrdering_, ignoreOtherCalls_ *)
  m_last : option acall                (* lastActualFunctionCall_ *)
}.
Definition mock0 : mock :=
  {| m_exps := []; m_aorder := 0; m_eorder := 0; m_strict := false; m_ignore := false; m_last := None |}.
Definition with_exps (m : mock) (es : list expn) (last : option acall) : mock :=
  {| m_exps := es; m_aorder := m_aorder m; m_eorder := m_eorder m; m_strict := m_strict m; m_ignore := m_ignore m; m_last := last |}.

(* MockCheckedActualCall::returnValue after checkExpectations: the matching expectation's returnValue_ *)
Definition cur_ret (es : list expn) : option pv :=
  match find e_cur es with Some e => e_ret e | None => None end.

(* lastActualFunctionCall_->checkExpectations() *)
Definition finish_last (m : mock) : res mock :=
  match m_last m with
  | None => inl m
  | Some c => match check_call (m_exps m) c with
              | inr f => inr f
              | inl (es, c') => inl (with_exps m es (Some c'))
              end
  end.

(* MockSupport::expectNCalls(n, f).withParameter(..)...andReturnValue(..)[.ignoreOtherParameters()] *)
Definition expect (m : mock) (n : N) (f : name) (ps : list (name * pv)) (ret : option pv) (ign : bool) : mock :=
  let lo := if m_strict m then (m_eorder m + 1)%N else 0%N in
  let hi := if m_strict m then (m_eorder m + n)%N else 0%N in
  let e := {| e_name := f; e_params := map (fun q => {| p_name := fst q; p_val := snd q; p_flag := false |}) ps; e_ign := ign;
              e_fin := false; e_lo := lo; e_hi := hi; e_ooo := false; e_ret := ret; e_act := 0; e_exp := n;
              e_pot := false; e_cur := false |} in
  {| m_exps := m_exps m ++ [e]; m_aorder := m_aorder m; m_eorder := if m_strict m then (m_eorder m + n)%N else m_eorder m;
     m_strict := m_strict m; m_ignore := m_ignore m; m_last := m_last m |}.

(* MockCheckedActualCall constructor: addPotentiallyMatchingExpectations (+ since the repair: reset of the candidates) *)
Definition create (fx : bool) (es : list expn) : list expn :=
  map (fun e => let e := set_cur e false in
                if can_match e then set_pot (if fx then reset_e e else e) true else set_pot e false) es.

Fixpoint with_params (ps : list (name * pv)) (es : list expn) (c : acall) : res (list expn * acall) :=
  match ps with
  | [] => inl (es, c)
  | (n, v) :: r => match check_input n v es c with
                   | inr f => inr f
                   | inl (es', c') => with_params r es' c'
                   end
  end.

(* MockSupport::actualCall(f).withParameter(..)... [; hasReturnValue() ? returnValue() : none]
   result: the new state and, when the return value is asked for, what was returned *)
Definition actual_call (fx : bool) (m : mock) (f : name) (ps : list (name * pv)) (want : bool) : res (mock * option (option pv)) :=
  match finish_last m with
  | inr fl => inr fl
  | inl m =>
      let m := with_exps m (m_exps m) None in                            (* delete lastActualFunctionCall_ *)
      if m_ignore m && negb (existsb (relates f) (m_exps m))             (* callIsIgnored -> MockIgnoredActualCall *)
      then inl (m, if want then Some None else None)
      else
        let order := (m_aorder m + 1)%N in
        let c := {| c_name := f; c_order := order; c_state := Succeeded; c_checked := false |} in
        let m := {| m_exps := m_exps m; m_aorder := order; m_eorder := m_eorder m; m_strict := m_strict m; m_ignore := m_ignore m;
                    m_last := None |} in
        match with_name (create fx (m_exps m)) c with
        | inr fl => inr fl
        | inl (es, c) =>
            match with_params ps es c with
            | inr fl => inr fl
            | inl (es, c) =>
                let m := with_exps m es (Some c) in
                if want then
                  match finish_last m with                              (* returnValue() -> checkExpectations() *)
                  | inr fl => inr fl
                  | inl m => inl (m, Some (cur_ret (m_exps m)))
                  end
                else inl (m, None)
            end
        end
  end.

(* MockSupport::checkExpectations *)
Definition check_expectations (m : mock) : res mock :=
  match finish_last m with
  | inr fl => inr fl
  | inl m =>
      let last_ok := match m_last m with None => true | Some c => match c_state c with Succeeded => true | _ => false end end in
      if last_ok && existsb (fun e => negb (is_fulfilled e)) (m_exps m) then inr (history (m_exps m) FNotFulfilled)
      else if existsb e_ooo (m_exps m) then inr (history (filter e_ooo (m_exps m)) FOutOfOrder)
      else inl m
  end.

(* ---------------------------------------------------------------- scenarios *)
Inductive op :=
| OExpect (n : N) (f : name) (ps : list (name * pv)) (ret : option pv) (ign : bool)
| OCall (f : name) (ps : list (name * pv)) (want : bool)
| OCheck | OClear | OStrict | OIgnoreOtherCalls.

Definition step (fx : bool) (m : mock) (o : op) : res (mock * option (option pv)) :=
  match o with
  | OExpect n f ps ret ign => inl (expect m n f ps ret ign, None)
  | OCall f ps want => actual_call fx m f ps want
  | OCheck => match check_expectations m with inr fl => inr fl | inl m => inl (m, None) end
  | OClear => inl (mock0, None)
  | OStrict => inl ({| m_exps := m_exps m; m_aorder := m_aorder m; m_eorder := m_eorder m; m_strict := true; m_ignore := m_ignore m;
                       m_last := m_last m |}, None)
  | OIgnoreOtherCalls => inl ({| m_exps := m_exps m; m_aorder := m_aorder m; m_eorder := m_eorder m; m_strict := m_strict m;
                                 m_ignore := true; m_last := m_last m |}, None)
  end.

(* observation: the failing operation (index, failure) if any, and the values returned to the calls that asked *)
Record obs := { o_fail : option (N * failure); o_rets : list (option pv) }.

Fixpoint run_from (fx : bool) (m : mock) (i : N) (ops : list op) (rets : list (option pv)) : obs :=
  match ops with
  | [] => {| o_fail := None; o_rets := rev rets |}
  | o :: r => match step fx m o with
              | inr fl => {| o_fail := Some (i, fl); o_rets := rev rets |}
              | inl (m', rv) => run_from fx m' (i + 1)%N r (match rv with Some x => x :: rets | None => rets end)
              end
  end.

Definition run_gen (fx : bool) (ops : list op) : obs := run_from fx mock0 0%N ops [].
Definition run : list op -> obs := run_gen true.        (* the code as it is now *)
Definition run_old : list op -> obs := run_gen false.   (* before the repair *)

(* ================================================================ the property, model-free (no flags, no candidate lists)
   Judged scenarios ("canonical"): [strictOrder] [ignoreOtherCalls] expectations* actual-calls* checkExpectations, no parameter name
   twice in one actual call, no ignoreOtherParameters.  In this fragment a call matches an expectation iff same function and the
   same set of (parameter name, value) -- every expectation set is unambiguous in the sense of the property (a call determines
   the class of expectations it can consume), so no further hypothesis is needed; with ignoreOtherParameters that fails and such
   scenarios are not judged (checked for model = implementation only). *)
Definition sexp : Type := N * name * list (name * pv) * option pv.      (* count, function, parameters, return value *)
Definition scall : Type := name * list (name * pv) * bool.              (* function, parameters, return value asked *)
Definition sx_n (e : sexp) : N := fst (fst (fst e)).
Definition sx_f (e : sexp) : name := snd (fst (fst e)).
Definition sx_ps (e : sexp) : list (name * pv) := snd (fst e).
Definition sx_ret (e : sexp) : option pv := snd e.
Definition sc_f (c : scall) : name := fst (fst c).
Definition sc_ps (c : scall) : list (name * pv) := snd (fst c).
Definition sc_want (c : scall) : bool := snd c.

Record canon := { k_strict : bool; k_ignore : bool; k_exps : list sexp; k_calls : list scall }.

Fixpoint parse_calls (ops : list op) : option (list scall) :=
  match ops with
  | [OCheck] => Some []
  | OCall f ps w :: r => match parse_calls r with Some l => Some ((f, ps, w) :: l) | None => None end
  | _ => None
  end.
Fixpoint parse_exps (ops : list op) : option (list sexp * list scall) :=
  match ops with
  | OExpect n f ps ret false :: r => match parse_exps r with Some (es, cs) => Some ((n, f, ps, ret) :: es, cs) | None => None end
  | _ => match parse_calls ops with Some cs => Some ([], cs) | None => None end
  end.
Definition parse (ops : list op) : option canon :=
  let (st, ops) := match ops with OStrict :: r => (true, r) | _ => (false, ops) end in
  let (ig, ops) := match ops with OIgnoreOtherCalls :: r => (true, r) | _ => (false, ops) end in
  match parse_exps ops with
  | Some (es, cs) => Some {| k_strict := st; k_ignore := ig; k_exps := es; k_calls := cs |}
  | None => None
  end.

Fixpoint nodup_names (l : list name) : bool :=
  match l with [] => true | x :: r => negb (existsb (N.eqb x) r) && nodup_names r end.
Definition judged (k : canon) : bool := forallb (fun c => nodup_names (map fst (sc_ps c))) (k_calls k).

(* a parameter list contains (n, v): the first parameter named n has an equal value (getValueByName takes the first) *)
Definition lookup (n : name) (ps : list (name * pv)) : option pv :=
  match find (fun x => (fst x =? n)%N) ps with Some x => Some (snd x) | None => None end.
Definition has_pv (ps : list (name * pv)) (x : name * pv) : bool :=
  match lookup (fst x) ps with Some v => veq v (snd x) | None => false end.
(* the call (f, ps) is exactly what expectation e describes: same function, every passed parameter is expected with that value,
   every expected parameter was passed *)
Definition matches (e : sexp) (f : name) (ps : list (name * pv)) : bool :=
  (sx_f e =? f)%N && forallb (has_pv (sx_ps e)) ps && forallb (fun q => existsb (fun x => (fst x =? fst q)%N) ps) (sx_ps e).
(* two calls have the same shape *)
Definition same_call (c d : scall) : bool :=
  (sc_f c =? sc_f d)%N && forallb (has_pv (sc_ps d)) (sc_ps c) && forallb (has_pv (sc_ps c)) (sc_ps d).

(* calls that ignoreOtherCalls swallows never reach the matching *)
Definition ignored (k : canon) (c : scall) : bool := k_ignore k && negb (existsb (fun e => (sx_f e =? sc_f c)%N) (k_exps k)).
Definition checked_calls (k : canon) : list scall := filter (fun c => negb (ignored k c)) (k_calls k).

(* --- verdict clause: multiset of actual calls = multiset of expected calls expanded by their counts (keyed by call shape) *)
Definition count_calls (c : scall) (cs : list scall) : N := N.of_nat (length (filter (same_call c) cs)).
Definition capacity (es : list sexp) (c : scall) : N :=
  fold_right (fun e a => if matches e (sc_f c) (sc_ps c) then (sx_n e + a)%N else a) 0%N es.
Definition multiset_ok (es : list sexp) (cs : list scall) : bool :=
  forallb (fun c => (count_calls c cs =? capacity es c)%N) cs &&
  forallb (fun e => (sx_n e =? 0)%N || existsb (fun c => matches e (sc_f c) (sc_ps c)) cs) es.
(* strict order: the k-th call is what the k-th expected call (expectations repeated by their counts, in order) describes *)
Fixpoint expand (es : list sexp) : list sexp :=
  match es with [] => [] | e :: r => repeat e (N.to_nat (sx_n e)) ++ expand r end.
Fixpoint seq_ok (xs : list sexp) (cs : list scall) : bool :=
  match xs, cs with
  | [], [] => true
  | e :: xr, c :: cr => matches e (sc_f c) (sc_ps c) && seq_ok xr cr
  | _, _ => false
  end.
Definition verdict_ok (k : canon) : bool :=
  if k_strict k then seq_ok (expand (k_exps k)) (checked_calls k) else multiset_ok (k_exps k) (checked_calls k).

(* --- diagnosis and return-value clauses: the reference semantics M.  Remaining capacities only. *)
Record mexp := { x_e : sexp; x_left : N; x_done : N; x_lo : N; x_hi : N; x_ooo : bool }.
Definition x_open (x : mexp) : bool := (0 <? x_left x)%N.
Fixpoint init_m (strict : bool) (from : N) (es : list sexp) : list mexp :=
  match es with
  | [] => []
  | e :: r => {| x_e := e; x_left := sx_n e; x_done := 0; x_lo := if strict then (from + 1)%N else 0%N;
                 x_hi := if strict then (from + sx_n e)%N else 0%N; x_ooo := false |} :: init_m strict (from + sx_n e)%N r
  end.
(* the first open expectation that is exactly the call is consumed *)
Fixpoint consume (f : name) (ps : list (name * pv)) (order : N) (xs : list mexp) : option (list mexp * option pv) :=
  match xs with
  | [] => None
  | x :: r =>
      if x_open x && matches (x_e x) f ps then
        let ooo := if negb (x_lo x =? 0)%N && ((order <? x_lo x)%N || (x_hi x <? order)%N) then true else x_ooo x in
        Some ({| x_e := x_e x; x_left := (x_left x - 1)%N; x_done := (x_done x + 1)%N; x_lo := x_lo x; x_hi := x_hi x; x_ooo := ooo |} :: r,
              sx_ret (x_e x))
      else match consume f ps order r with Some (r', v) => Some (x :: r', v) | None => None end
  end.
(* why a call that cannot be consumed deviates: (kind, deferred) -- a missing parameter only shows when the call is finished,
   i.e. at the next operation unless the return value is asked for at once *)
Definition agrees_upto (e : sexp) (ps : list (name * pv)) : bool := forallb (has_pv (sx_ps e)) ps.
Fixpoint first_dead (f : name) (xs : list mexp) (seen rest : list (name * pv)) : option name :=
  match rest with
  | [] => None
  | p :: r => if existsb (fun x => x_open x && (sx_f (x_e x) =? f)%N && agrees_upto (x_e x) (seen ++ [p])) xs
              then first_dead f xs (seen ++ [p]) r else Some (fst p)
  end.
Inductive dkind := DUnexpected (f : name) | DAdditional (f : name) (nth : N) | DParamName (f p : name) | DParamValue (f p : name)
                 | DParamMissing (f : name) | DNotFulfilled | DOutOfOrder.
Definition deviation (f : name) (ps : list (name * pv)) (xs : list mexp) : dkind * bool :=
  if negb (existsb (fun x => x_open x && (sx_f (x_e x) =? f)%N) xs) then
    let n := fold_right (fun x a => if (sx_f (x_e x) =? f)%N then (x_done x + a)%N else a) 0%N xs in
    (if (0 <? n)%N then DAdditional f (n + 1)%N else DUnexpected f, false)
  else match first_dead f xs [] ps with
       | Some p => (if existsb (fun x => (sx_f (x_e x) =? f)%N && existsb (fun q => (fst q =? p)%N) (sx_ps (x_e x))) xs
                    then DParamValue f p else DParamName f p, false)
       | None => (DParamMissing f, true)
       end.
(* the expected observation: failing operation index + diagnosis, values returned *)
Fixpoint m_calls (ign : bool) (known : name -> bool) (xs : list mexp) (order : N) (i : N) (pending : option dkind)
                 (cs : list scall) (rets : list (option pv)) : option (N * dkind) * list (option pv) :=
  match pending with
  | Some d => (Some (i, d), rev rets)
  | None =>
    match cs with
    | [] => if existsb x_open xs then (Some (i, DNotFulfilled), rev rets)
            else if existsb x_ooo xs then (Some (i, DOutOfOrder), rev rets)
            else (None, rev rets)
    | c :: r =>
        if ign && negb (known (sc_f c)) then m_calls ign known xs order (i + 1)%N None r (if sc_want c then None :: rets else rets)
        else match consume (sc_f c) (sc_ps c) (order + 1)%N xs with
             | Some (xs', v) => m_calls ign known xs' (order + 1)%N (i + 1)%N None r (if sc_want c then v :: rets else rets)
             | None => let (d, deferred) := deviation (sc_f c) (sc_ps c) xs in
                       if deferred && negb (sc_want c) then m_calls ign known xs (order + 1)%N (i + 1)%N (Some d) r rets
                       else (Some (i, d), rev rets)
             end
    end
  end.
Definition expected (k : canon) : option (N * dkind) * list (option pv) :=
  let i0 := ((if k_strict k then 1 else 0) + (if k_ignore k then 1 else 0) + N.of_nat (length (k_exps k)))%N in
  m_calls (k_ignore k) (fun f => existsb (fun e => (sx_f e =? f)%N) (k_exps k)) (init_m (k_strict k) 0 (k_exps k)) 0 i0 None (k_calls k) [].

Definition dkind_of (k : fkind) : option dkind :=
  match k with
  | FUnexpectedCall f => Some (DUnexpected f) | FAdditionalCall f n => Some (DAdditional f n)
  | FParamName f p => Some (DParamName f p) | FParamValue f p => Some (DParamValue f p)
  | FParamMissing f _ => Some (DParamMissing f) | FNotFulfilled => Some DNotFulfilled | FOutOfOrder => Some DOutOfOrder
  | FObjectMissing _ | FCannotHappen => None
  end.
Definition dkind_eqb (a b : dkind) : bool :=
  match a, b with
  | DUnexpected f, DUnexpected g => (f =? g)%N
  | DAdditional f n, DAdditional g m => (f =? g)%N && (n =? m)%N
  | DParamName f p, DParamName g q | DParamValue f p, DParamValue g q => (f =? g)%N && (p =? q)%N
  | DParamMissing f, DParamMissing g => (f =? g)%N
  | DNotFulfilled, DNotFulfilled | DOutOfOrder, DOutOfOrder => true
  | _, _ => false
  end.
Definition opt_pv_eqb (a b : option pv) : bool :=
  match a, b with Some x, Some y => pv_eqb x y | None, None => true | _, _ => false end.
Fixpoint list_eqb {A} (eqb : A -> A -> bool) (a b : list A) : bool :=
  match a, b with [] , [] => true | x :: a', y :: b' => eqb x y && list_eqb eqb a' b' | _, _ => false end.

(* spec: (1) the scenario passes iff the multisets (strict: the sequences) agree; (2) a failure is the first deviation, once,
   with the matching diagnosis; (3) every call returns the value of the expectation it consumed *)
Definition spec (ops : list op) (o : obs) : bool :=
  match parse ops with
  | None => true
  | Some k =>
      if negb (judged k) then true else
      let (ef, er) := expected k in
      Bool.eqb (match o_fail o with None => true | Some _ => false end) (verdict_ok k)
      && match o_fail o, ef with
         | None, None => true
         | Some (i, fl), Some (j, d) => (i =? j)%N && match dkind_of (f_kind fl) with Some d' => dkind_eqb d' d | None => false end
         | _, _ => false
         end
      && list_eqb opt_pv_eqb (o_rets o) er
  end.
