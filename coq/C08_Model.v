(* C08 -- executable mirror (layer L) of the mock matching machinery:
     src/CppUTestExt/MockSupport.cpp          (mock("scope"), clone, expectNCalls, actualCall, checkExpectations, expectedCallsLeft,
                                               clear, strictOrder, ignoreOtherCalls, enable/disable and how each reaches the scopes)
     src/CppUTestExt/MockActualCall.cpp       (MockCheckedActualCall: withName, checkInputParameter, checkOutputParameter, onObject,
                                               completeCallWhenMatchIsFound, copyOutputParameters, discardCurrentlyMatchingExpectations,
                                               checkExpectations, returnValue)
     src/CppUTestExt/MockExpectedCall.cpp     (MockCheckedExpectedCall: flags, counters, call-order window, object, callWasMade, reset)
     src/CppUTestExt/MockExpectedCallsList.cpp (pruning primitives)
     src/CppUTestExt/MockFailure.cpp          (which failure, which expectations it lists)
   Fragment: expectOneCall/expectNCalls with typed input parameters, withOutputParameterReturning, onObject, andReturnValue,
   ignoreOtherParameters; actualCall + withParameter / withOutputParameter / onObject in any order + returnValue;
   checkExpectations, expectedCallsLeft, clear, strictOrder, ignoreOtherCalls, enable, disable -- each on the global mock() or on a
   named scope mock("s<n>").  Not modelled: custom comparators/copiers (..OfType), tracing, nested scopes, setData.

   Representation.  expectations_ is a list that is only ever appended to.  potentiallyMatchingExpectations_ of the call in
   progress is built by one in-order pass over expectations_ and afterwards only shrinks through pruning passes, so it is always
   an in-order sub-list of expectations_; it is represented by the membership bit e_pot on each expectation ("first in the list"
   = first with the bit).  matchingExpectation_ (a pointer into the same objects) is the bit e_cur.  Every loop of the source is one
   `map` here, in the same order.  A scenario stops at its first failure (the reporter leaves the test), so every operation
   returns either the next state or the failure.

   The parameter `fx` selects the code after (true) / before (false) the repair `fix: a new actual call starts from a clean
   matching state` (MockCheckedActualCall constructor resets the candidates' matching flags); see run_old and C08_Proofs. *)
From Coq Require Import ZArith NArith Bool List.
From CppUVerif Require Import lib.CInt lib.Str.
Import ListNotations.

Definition name := N.   (* function / parameter / scope names: the harness uses the strings "f<hex>" / "p<hex>" / "o<hex>" / "s<hex>" *)

(* typed parameter / return values of the core fragment *)
Inductive pv := PBool (b : bool) | PInt (t : ity) (z : Z) | PStr (s : list N) | PPtr (a : Z).

Definition pv_valid (v : pv) : bool :=
  match v with
  | PInt t z => in_range t z
  | PStr s => negb (existsb (N.eqb 0) s)
  | PPtr a => (0 <=? a)%Z && (a <? 18446744073709551616)%Z
  | PBool _ => true
  end.

(* MockNamedValue::equals restricted to these kinds: integers of any two types by mathematical value (this is theorem
   C09_int_equal_iff about the branch-for-branch model of equals; restated as veq_is_C09_equals in C08_Proofs), the other kinds
   by tag and content *)
Definition veq (a b : pv) : bool :=
  match a, b with
  | PBool x, PBool y => Bool.eqb x y
  | PInt _ x, PInt _ y => (x =? y)%Z
  | PStr x, PStr y => bytes_eqb x y
  | PPtr x, PPtr y => (x =? y)%Z
  | _, _ => false
  end.

(* exact equality incl. the integer type: used for returned values *)
Definition pv_eqb (a b : pv) : bool :=
  match a, b with
  | PInt t x, PInt u y => ity_eqb t u && (x =? y)%Z
  | _, _ => veq a b
  end.

(* what an actual call passes after its name, in the order of the fluent calls *)
Inductive item :=
| IIn (n : name) (v : pv)            (* withParameter(n, v) *)
| IOut (n : name) (buf : list N)     (* withOutputParameter(n, buffer): buf = what the caller's buffer holds before the call *)
| IObj (a : Z).                      (* onObject(a) *)

(* ---------------------------------------------------------------- expectations *)
Record param := { p_name : name; p_val : pv; p_flag : bool (* matchesActualCall_ *) }.
(* withOutputParameterReturning(name, bytes, size): type "const void*", copied with memcpy *)
Record oparam := { q_name : name; q_bytes : list N; q_flag : bool (* matchesActualCall_ *) }.

Record expn := {
  e_name : name;
  e_params : list param;      (* inputParameters_, in the order they were added *)
  e_outs : list oparam;       (* outputParameters_, in the order they were added *)
  e_ign : bool;               (* ignoreOtherParameters_ *)
  e_fin : bool;               (* isActualCallMatchFinalized_ *)
  e_lo : N; e_hi : N;         (* initial/finalExpectedCallOrder_; e_lo = 0 is NO_EXPECTED_CALL_ORDER *)
  e_ooo : bool;               (* outOfOrder_ *)
  e_ret : option pv;          (* returnValue_; None = its name is "" (no return value set) *)
  e_obj : option Z;           (* isSpecificObjectExpected_ / objectPtr_ *)
  e_pobj : bool;              (* wasPassedToObject_ *)
  e_act : N; e_exp : N;       (* actualCalls_, expectedCalls_ *)
  e_pot : bool;               (* member of the current call's potentiallyMatchingExpectations_ *)
  e_cur : bool                (* is the current call's matchingExpectation_ *)
}.

Definition set_params (e : expn) (ps : list param) : expn :=
  {| e_name := e_name e; e_params := ps; e_outs := e_outs e; e_ign := e_ign e; e_fin := e_fin e; e_lo := e_lo e; e_hi := e_hi e;
     e_ooo := e_ooo e; e_ret := e_ret e; e_obj := e_obj e; e_pobj := e_pobj e; e_act := e_act e; e_exp := e_exp e; e_pot := e_pot e;
     e_cur := e_cur e |}.
Definition set_outs (e : expn) (qs : list oparam) : expn :=
  {| e_name := e_name e; e_params := e_params e; e_outs := qs; e_ign := e_ign e; e_fin := e_fin e; e_lo := e_lo e; e_hi := e_hi e;
     e_ooo := e_ooo e; e_ret := e_ret e; e_obj := e_obj e; e_pobj := e_pobj e; e_act := e_act e; e_exp := e_exp e; e_pot := e_pot e;
     e_cur := e_cur e |}.
Definition set_fin (e : expn) (b : bool) : expn :=
  {| e_name := e_name e; e_params := e_params e; e_outs := e_outs e; e_ign := e_ign e; e_fin := b; e_lo := e_lo e; e_hi := e_hi e;
     e_ooo := e_ooo e; e_ret := e_ret e; e_obj := e_obj e; e_pobj := e_pobj e; e_act := e_act e; e_exp := e_exp e; e_pot := e_pot e;
     e_cur := e_cur e |}.
Definition set_pobj (e : expn) (b : bool) : expn :=
  {| e_name := e_name e; e_params := e_params e; e_outs := e_outs e; e_ign := e_ign e; e_fin := e_fin e; e_lo := e_lo e; e_hi := e_hi e;
     e_ooo := e_ooo e; e_ret := e_ret e; e_obj := e_obj e; e_pobj := b; e_act := e_act e; e_exp := e_exp e; e_pot := e_pot e;
     e_cur := e_cur e |}.
Definition set_pot (e : expn) (b : bool) : expn :=
  {| e_name := e_name e; e_params := e_params e; e_outs := e_outs e; e_ign := e_ign e; e_fin := e_fin e; e_lo := e_lo e; e_hi := e_hi e;
     e_ooo := e_ooo e; e_ret := e_ret e; e_obj := e_obj e; e_pobj := e_pobj e; e_act := e_act e; e_exp := e_exp e; e_pot := b;
     e_cur := e_cur e |}.
Definition set_cur (e : expn) (b : bool) : expn :=
  {| e_name := e_name e; e_params := e_params e; e_outs := e_outs e; e_ign := e_ign e; e_fin := e_fin e; e_lo := e_lo e; e_hi := e_hi e;
     e_ooo := e_ooo e; e_ret := e_ret e; e_obj := e_obj e; e_pobj := e_pobj e; e_act := e_act e; e_exp := e_exp e; e_pot := e_pot e;
     e_cur := b |}.
Definition set_count (e : expn) (act : N) (ooo : bool) : expn :=
  {| e_name := e_name e; e_params := e_params e; e_outs := e_outs e; e_ign := e_ign e; e_fin := e_fin e; e_lo := e_lo e; e_hi := e_hi e;
     e_ooo := ooo; e_ret := e_ret e; e_obj := e_obj e; e_pobj := e_pobj e; e_act := act; e_exp := e_exp e; e_pot := e_pot e;
     e_cur := e_cur e |}.

Definition set_flag (p : param) (b : bool) : param := {| p_name := p_name p; p_val := p_val p; p_flag := b |}.
Definition set_qflag (q : oparam) (b : bool) : oparam := {| q_name := q_name q; q_bytes := q_bytes q; q_flag := b |}.

(* MockCheckedExpectedCall *)
Definition relates (f : name) (e : expn) : bool := (e_name e =? f)%N.
Definition is_fulfilled (e : expn) : bool := (e_act e =? e_exp e)%N.
Definition can_match (e : expn) : bool := (e_act e <? e_exp e)%N.
Definition params_matching (e : expn) : bool :=                                       (* areParametersMatchingActualCall *)
  forallb p_flag (e_params e) && forallb q_flag (e_outs e).
Definition is_matching (e : expn) : bool := params_matching e && e_pobj e.            (* isMatchingActualCall *)
Definition is_matching_fin (e : expn) : bool := is_matching e && (negb (e_ign e) || e_fin e).
Definition specific (e : expn) : bool := match e_obj e with Some _ => true | None => false end.   (* isSpecificObjectExpected_ *)
Definition reset_e (e : expn) : expn :=                                               (* resetActualCallMatchingState *)
  set_fin (set_pobj (set_outs (set_params e (map (fun p => set_flag p false) (e_params e)))
                              (map (fun q => set_qflag q false) (e_outs e)))
                    (negb (specific e))) false.
Definition find_param (n : name) (ps : list param) : option param := find (fun p => (p_name p =? n)%N) ps.   (* getValueByName *)
Definition find_oparam (n : name) (qs : list oparam) : option oparam := find (fun q => (q_name q =? n)%N) qs.
Definition has_input_name (n : name) (e : expn) : bool :=
  match find_param n (e_params e) with Some _ => true | None => false end.
Definition has_input (n : name) (v : pv) (e : expn) : bool :=                         (* hasInputParameter *)
  match find_param n (e_params e) with Some q => veq (p_val q) v | None => e_ign e end.
Definition has_output_name (n : name) (e : expn) : bool :=
  match find_oparam n (e_outs e) with Some _ => true | None => false end.
(* hasOutputParameter: compatibleForCopying of "const void*" (expected) with "void*" (actual) is always true *)
Definition has_output (n : name) (e : expn) : bool :=
  match find_oparam n (e_outs e) with Some _ => true | None => e_ign e end.
Definition relates_obj (a : Z) (e : expn) : bool :=                                   (* relatesToObject *)
  match e_obj e with Some b => (b =? a)%Z | None => true end.
Definition mark (n : name) (e : expn) : expn :=                                       (* inputParameterWasPassed *)
  set_params e (map (fun p => if (p_name p =? n)%N then set_flag p true else p) (e_params e)).
Definition mark_out (n : name) (e : expn) : expn :=                                   (* outputParameterWasPassed *)
  set_outs e (map (fun q => if (q_name q =? n)%N then set_qflag q true else q) (e_outs e)).
Definition pass_obj (e : expn) : expn := set_pobj e true.                             (* wasPassedToObject *)
Definition call_was_made (order : N) (e : expn) : expn :=                             (* callWasMade *)
  let ooo := if negb (e_lo e =? 0)%N && ((order <? e_lo e)%N || (e_hi e <? order)%N) then true else e_ooo e in
  reset_e (set_count e (e_act e + 1)%N ooo).

(* MockExpectedCallsList: the list object is the set of expectations with e_pot *)
Definition drop (e : expn) : expn := set_pot e false.
Definition keep_if (pred : expn -> bool) (es : list expn) : list expn :=              (* onlyKeepExpectations... + prune *)
  map (fun e => if e_pot e && negb (pred e) then drop e else e) es.
Definition pot_empty (es : list expn) : bool := negb (existsb e_pot es).               (* isEmpty *)
Definition only_keep_unmatching (es : list expn) : list expn :=                        (* onlyKeepUnmatchingExpectations *)
  map (fun e => if e_pot e && is_matching_fin e then drop (reset_e e) else e) es.
Definition for_pot (f : expn -> expn) (es : list expn) : list expn :=                  (* parameterWasPassed / reset... over the list *)
  map (fun e => if e_pot e then f e else e) es.
Definition for_cur (f : expn -> expn) (es : list expn) : list expn :=
  map (fun e => if e_cur e then f e else e) es.
(* removeFirst...: the first member satisfying pred leaves the list and becomes matchingExpectation_ (after g) *)
Fixpoint take_first (pred : expn -> bool) (g : expn -> expn) (es : list expn) : option (list expn) :=
  match es with
  | [] => None
  | e :: r => if e_pot e && pred e then Some (g (set_cur (drop e) true) :: r)
              else match take_first pred g r with Some r' => Some (e :: r') | None => None end
  end.
(* the member removeFirst.../getFirst... finds *)
Definition first_pot (pred : expn -> bool) (es : list expn) : option expn := find (fun e => e_pot e && pred e) es.

(* ---------------------------------------------------------------- failures *)
Inductive fkind :=
| FUnexpectedCall (f : name)                 (* "Unexpected call to function: f" *)
| FAdditionalCall (f : name) (nth : N)       (* "Unexpected additional (nth) call to function: f" *)
| FParamName (f p : name)                    (* "Unexpected parameter name to function "f": p" *)
| FParamValue (f p : name)                   (* "Unexpected parameter value to parameter "p" to function "f"" *)
| FParamMissing (f : name) (listed : N)      (* "Expected parameter for function "f" did not happen"; number of candidates listed *)
| FObjectMissing (f : name)                  (* "Expected call on object for function ... did not happen" *)
| FNotFulfilled                              (* "Expected call WAS NOT fulfilled" *)
| FOutOfOrder                                (* "Out of order calls" *)
| FCannotHappen                              (* the FAIL("... This cannot happen.") of checkExpectations *)
| FOutName (f p : name)                      (* "Unexpected output parameter name to function "f": p" *)
| FOutType (f p : name)                      (* "Unexpected parameter type "void*" to output parameter "p" to function "f"" *)
| FObjectUnexpected (f : name).              (* "Function called on an unexpected object: f" *)
(* the expectations the message lists: (expected, called) of the not fulfilled ones, then of the fulfilled ones *)
Record failure := { f_kind : fkind; f_unf : list (N * N); f_ful : list (N * N) }.

Definition counts (e : expn) : N * N := (e_exp e, e_act e).
Definition history (es : list expn) (k : fkind) : failure :=                           (* addExpectationsAndCallHistory *)
  {| f_kind := k; f_unf := map counts (filter (fun e => negb (is_fulfilled e)) es); f_ful := map counts (filter is_fulfilled es) |}.
Definition history_related (f : name) (es : list expn) (k : fkind) : failure :=        (* ...RelatedTo *)
  history (filter (relates f) es) k.

(* ---------------------------------------------------------------- the actual call in progress *)
Inductive cstate := InProgress | Succeeded | Failed.
Record acall := { c_name : name; c_order : N; c_state : cstate; c_checked : bool;
                  c_outs : list (name * list N)   (* outputParameterExpectations_: name and the caller's buffer (its content) *) }.
Definition set_state (c : acall) (s : cstate) : acall :=
  {| c_name := c_name c; c_order := c_order c; c_state := s; c_checked := c_checked c; c_outs := c_outs c |}.
Definition set_checked (c : acall) : acall :=
  {| c_name := c_name c; c_order := c_order c; c_state := c_state c; c_checked := true; c_outs := c_outs c |}.
Definition set_couts (c : acall) (l : list (name * list N)) : acall :=
  {| c_name := c_name c; c_order := c_order c; c_state := c_state c; c_checked := c_checked c; c_outs := l |}.

Definition res (A : Type) := (A + failure)%type.

(* PlatformSpecificMemCpy(buffer, data, size) *)
Definition overwrite (data buf : list N) : list N := data ++ skipn (length data) buf.
(* copyOutputParameters(expectedCall): every output parameter the actual call has passed so far is filled from the expectation's
   output parameter of that name (getOutputParameter: the first of that name; none: name "" -> nothing is copied) *)
Definition copy_outputs (e : expn) (outs : list (name * list N)) : list (name * list N) :=
  map (fun o => match find_oparam (fst o) (e_outs e) with Some q => (fst o, overwrite (q_bytes q) (snd o)) | None => o end) outs.

(* completeCallWhenMatchIsFound *)
Definition complete (es : list expn) (c : acall) : list expn * acall :=
  match first_pot is_matching_fin es with
  | Some e =>
      match take_first is_matching_fin (fun e => e) es with
      | Some es' => (es', set_state (set_couts c (copy_outputs e (c_outs c))) Succeeded)
      | None => (es, c)     (* unreachable: first_pot found one *)
      end
  | None =>
      match first_pot is_matching es with               (* matchingExpectationWithIgnoredParameters *)
      | Some e => (es, set_couts c (copy_outputs e (c_outs c)))
      | None => (es, c)
      end
  end.

Definition fulfilled_for (f : name) (es : list expn) : N :=                            (* amountOfActualCallsFulfilledFor *)
  fold_right (fun e a => if relates f e then (e_act e + a)%N else a) 0%N es.

(* MockCheckedActualCall::withName *)
Definition with_name (es : list expn) (c : acall) : res (list expn * acall) :=
  let c := set_state c InProgress in
  let es := keep_if (relates (c_name c)) es in
  if pot_empty es then
    let n := fulfilled_for (c_name c) es in
    inr (history es (if (0 <? n)%N then FAdditionalCall (c_name c) (n + 1)%N else FUnexpectedCall (c_name c)))
  else inl (complete es c).

(* discardCurrentlyMatchingExpectations *)
Definition discard (es : list expn) : list expn :=
  only_keep_unmatching (for_cur (fun e => set_cur (reset_e e) false) es).

(* MockCheckedActualCall::checkInputParameter (hasFailed() is never true here: the scenario stopped) *)
Definition check_input (n : name) (v : pv) (es : list expn) (c : acall) : res (list expn * acall) :=
  let c := set_state c InProgress in
  let es := discard es in
  let es := keep_if (has_input n v) es in
  if pot_empty es then
    inr (history_related (c_name c) es
           (if existsb (fun e => relates (c_name c) e && has_input_name n e) es then FParamValue (c_name c) n else FParamName (c_name c) n))
  else inl (complete (for_pot (mark n) es) c).

(* MockCheckedActualCall::withOutputParameter = addOutputParameter + checkOutputParameter *)
Definition check_output (n : name) (buf : list N) (es : list expn) (c : acall) : res (list expn * acall) :=
  let c := set_couts c (c_outs c ++ [(n, buf)]) in
  let c := set_state c InProgress in
  let es := discard es in
  let es := keep_if (has_output n) es in
  if pot_empty es then
    inr (history_related (c_name c) es
           (if existsb (fun e => relates (c_name c) e && has_output_name n e) es then FOutType (c_name c) n else FOutName (c_name c) n))
  else inl (complete (for_pot (mark_out n) es) c).

(* MockCheckedActualCall::onObject: the current match is NOT discarded ("the passed object is ignored if not specifically set in
   the expectation") and the state is not touched *)
Definition on_object (a : Z) (es : list expn) (c : acall) : res (list expn * acall) :=
  let es := keep_if (relates_obj a) es in
  let nocur := negb (existsb e_cur es) in
  if nocur && pot_empty es then inr (history_related (c_name c) es (FObjectUnexpected (c_name c)))
  else
    let es := for_pot pass_obj es in
    if nocur then inl (complete es c) else inl (es, c).

(* MockCheckedActualCall::checkExpectations.  matchingExpectation_ (e_cur) stays set until the call object is deleted. *)
Definition check_call (es : list expn) (c : acall) : res (list expn * acall) :=
  if c_checked c then inl (es, c) else
  let c := set_checked c in
  match c_state c with
  | Succeeded => inl (for_pot reset_e (for_cur (call_was_made (c_order c)) es), c)
  | Failed => inl (for_pot reset_e es, c)
  | InProgress =>
      if existsb (fun e => e_pot e && is_matching_fin e) es then inr (history es FCannotHappen)
      else match take_first is_matching (fun e => call_was_made (c_order c) (set_fin e true)) es with
           | Some es' => inl (for_pot reset_e es', set_state c Succeeded)
           | None =>
               if existsb (fun e => e_pot e && negb (params_matching e)) es
               then inr (history_related (c_name c) es (FParamMissing (c_name c) (N.of_nat (length (filter e_pot es)))))
               else inr (history_related (c_name c) es (FObjectMissing (c_name c)))
           end
  end.

(* ---------------------------------------------------------------- MockSupport (one scope) *)
Record mock := {
  m_exps : list expn;
  m_aorder : N; m_eorder : N;          (* actualCallOrder_, expectedCallOrder_ *)
  m_strict : bool; m_ignore : bool;    (* strictOrdering_, ignoreOtherCalls_ *)
  m_enabled : bool;                    (* enabled_ *)
  m_last : option acall                (* lastActualFunctionCall_ *)
}.
Definition mock0 : mock :=
  {| m_exps := []; m_aorder := 0; m_eorder := 0; m_strict := false; m_ignore := false; m_enabled := true; m_last := None |}.
Definition with_exps (m : mock) (es : list expn) (last : option acall) : mock :=
  {| m_exps := es; m_aorder := m_aorder m; m_eorder := m_eorder m; m_strict := m_strict m; m_ignore := m_ignore m;
     m_enabled := m_enabled m; m_last := last |}.
Definition set_strict (m : mock) : mock :=
  {| m_exps := m_exps m; m_aorder := m_aorder m; m_eorder := m_eorder m; m_strict := true; m_ignore := m_ignore m;
     m_enabled := m_enabled m; m_last := m_last m |}.
Definition set_ignore (m : mock) : mock :=
  {| m_exps := m_exps m; m_aorder := m_aorder m; m_eorder := m_eorder m; m_strict := m_strict m; m_ignore := true;
     m_enabled := m_enabled m; m_last := m_last m |}.
Definition set_enabled (m : mock) (b : bool) : mock :=
  {| m_exps := m_exps m; m_aorder := m_aorder m; m_eorder := m_eorder m; m_strict := m_strict m; m_ignore := m_ignore m;
     m_enabled := b; m_last := m_last m |}.

(* MockCheckedActualCall::returnValue after checkExpectations: the matching expectation's returnValue_ *)
Definition cur_ret (es : list expn) : option pv :=
  match find e_cur es with Some e => e_ret e | None => None end.

(* lastActualFunctionCall_->checkExpectations() *)
Definition finish_last (m : mock) : res mock :=
  match m_last m with
  | None => inl m
  | Some c => match check_call (m_exps m) c with
              | inr f => inr f
              | inl (es, c') => inl (with_exps m es (Some c'))
              end
  end.

(* object and outputs of an expectation as the scenario gives them *)
Definition mk_exp (n : N) (f : name) (ps : list (name * pv)) (outs : list (name * list N)) (obj : option Z) (ret : option pv)
                  (ign : bool) (lo hi : N) : expn :=
  {| e_name := f; e_params := map (fun q => {| p_name := fst q; p_val := snd q; p_flag := false |}) ps;
     e_outs := map (fun q => {| q_name := fst q; q_bytes := snd q; q_flag := false |}) outs;
     e_ign := ign; e_fin := false; e_lo := lo; e_hi := hi; e_ooo := false; e_ret := ret; e_obj := obj;
     e_pobj := match obj with Some _ => false | None => true end;
     e_act := 0; e_exp := n; e_pot := false; e_cur := false |}.

(* MockSupport::expectNCalls(n, f).withParameter(..)...withOutputParameterReturning(..)...[onObject(..)].andReturnValue(..)
   [.ignoreOtherParameters()]; disabled: MockIgnoredExpectedCall, nothing is recorded *)
Definition expect (m : mock) (n : N) (f : name) (ps : list (name * pv)) (outs : list (name * list N)) (obj : option Z)
                  (ret : option pv) (ign : bool) : mock :=
  if negb (m_enabled m) then m else
  let lo := if m_strict m then (m_eorder m + 1)%N else 0%N in
  let hi := if m_strict m then (m_eorder m + n)%N else 0%N in
  {| m_exps := m_exps m ++ [mk_exp n f ps outs obj ret ign lo hi]; m_aorder := m_aorder m;
     m_eorder := if m_strict m then (m_eorder m + n)%N else m_eorder m;
     m_strict := m_strict m; m_ignore := m_ignore m; m_enabled := m_enabled m; m_last := m_last m |}.

(* MockCheckedActualCall constructor: addPotentiallyMatchingExpectations (+ since the repair: reset of the candidates) *)
Definition create (fx : bool) (es : list expn) : list expn :=
  map (fun e => let e := set_cur e false in
                if can_match e then set_pot (if fx then reset_e e else e) true else set_pot e false) es.

Definition with_item (it : item) (es : list expn) (c : acall) : res (list expn * acall) :=
  match it with
  | IIn n v => check_input n v es c
  | IOut n buf => check_output n buf es c
  | IObj a => on_object a es c
  end.
Fixpoint with_items (its : list item) (es : list expn) (c : acall) : res (list expn * acall) :=
  match its with
  | [] => inl (es, c)
  | it :: r => match with_item it es c with
               | inr f => inr f
               | inl (es', c') => with_items r es' c'
               end
  end.

(* what one operation hands back to the test: the value returned (when asked for), the caller's output buffers after an actual
   call (in the order they were passed), the answer of expectedCallsLeft *)
Record effect := { r_ret : option (option pv); r_outs : list (list N); r_left : option bool;
                   r_post : list failure   (* the failures an end-of-test check delivered to a reporter that does not leave the test *) }.
Definition no_effect : effect := {| r_ret := None; r_outs := []; r_left := None; r_post := [] |}.
Definition bufs_of (its : list item) : list (list N) :=
  flat_map (fun it => match it with IOut _ buf => [buf] | _ => [] end) its.
(* MockIgnoredActualCall: nothing is written, hasReturnValue() is false *)
Definition ignored_effect (its : list item) (want : bool) : effect :=
  {| r_ret := if want then Some None else None; r_outs := bufs_of its; r_left := None; r_post := [] |}.
Definition last_outs (m : mock) : list (list N) :=
  match m_last m with Some c => map snd (c_outs c) | None => [] end.

(* MockSupport::actualCall(f).<items>... [; hasReturnValue() ? returnValue() : none] *)
Definition actual_call (fx : bool) (m : mock) (f : name) (its : list item) (want : bool) : res (mock * effect) :=
  match finish_last m with
  | inr fl => inr fl
  | inl m =>
      let m := with_exps m (m_exps m) None in                            (* delete lastActualFunctionCall_ *)
      if negb (m_enabled m) then inl (m, ignored_effect its want)        (* !enabled_ -> MockIgnoredActualCall *)
      else if m_ignore m && negb (existsb (relates f) (m_exps m))        (* callIsIgnored -> MockIgnoredActualCall *)
      then inl (m, ignored_effect its want)
      else
        let order := (m_aorder m + 1)%N in
        let c := {| c_name := f; c_order := order; c_state := Succeeded; c_checked := false; c_outs := [] |} in
        let m := {| m_exps := m_exps m; m_aorder := order; m_eorder := m_eorder m; m_strict := m_strict m; m_ignore := m_ignore m;
                    m_enabled := m_enabled m; m_last := None |} in
        match with_name (create fx (m_exps m)) c with
        | inr fl => inr fl
        | inl (es, c) =>
            match with_items its es c with
            | inr fl => inr fl
            | inl (es, c) =>
                let m := with_exps m es (Some c) in
                if want then
                  match finish_last m with                              (* returnValue() -> checkExpectations() *)
                  | inr fl => inr fl
                  | inl m => inl (m, {| r_ret := Some (cur_ret (m_exps m)); r_outs := last_outs m; r_left := None; r_post := [] |})
                  end
                else inl (m, {| r_ret := None; r_outs := last_outs m; r_left := None; r_post := [] |})
            end
        end
  end.

Definition last_ok (m : mock) : bool :=                                   (* wasLastActualCallFulfilled, own part *)
  match m_last m with None => true | Some c => match c_state c with Succeeded => true | _ => false end end.
Definition unfulfilled (es : list expn) : bool := existsb (fun e => negb (is_fulfilled e)) es.   (* hasUnfulfilledExpectations *)

(* MockSupport::checkExpectations of a mock without scopes below it *)
Definition check_expectations (m : mock) : res mock :=
  match finish_last m with
  | inr fl => inr fl
  | inl m =>
      if last_ok m && unfulfilled (m_exps m) then inr (history (m_exps m) FNotFulfilled)
      else if existsb e_ooo (m_exps m) then inr (history (filter e_ooo (m_exps m)) FOutOfOrder)
      else inl m
  end.
(* MockSupport::expectedCallsLeft of a mock without scopes below it *)
Definition calls_left (m : mock) : res (mock * bool) :=
  match finish_last m with
  | inr fl => inr fl
  | inl m => inl (m, unfulfilled (m_exps m))
  end.

(* The end-of-test check as MockSupportPlugin::postTestAction makes it: MockSupport::checkExpectations() with a reporter that
   records the failure and RETURNS (MockSupportPluginReporter::failTest = result.addFailure), followed by clear().  A last actual
   call that cannot be finished (missing parameter / object) reports its failure and is then in state CALL_FAILED, so that
   wasLastActualCallFulfilled() is false and the unfulfilled expectation of that same deviation is not reported a second time;
   failTestWithExpectedCallsNotFulfilled clears the mock before it reports, so hasCallsOutOfOrder() sees nothing afterwards. *)
Definition finish_last_nl (m : mock) : mock * list failure :=
  match m_last m with
  | None => (m, [])
  | Some c => match check_call (m_exps m) c with
              | inr fl => (with_exps m (m_exps m) (Some (set_state (set_checked c) Failed)), [fl])
              | inl (es, c') => (with_exps m es (Some c'), [])
              end
  end.
Definition post_check (m : mock) : list failure :=
  let (m, fs) := finish_last_nl m in
  if last_ok m && unfulfilled (m_exps m) then fs ++ [history (m_exps m) FNotFulfilled]
  else if existsb e_ooo (m_exps m) then fs ++ [history (filter e_ooo (m_exps m)) FOutOfOrder]
  else fs.

(* ---------------------------------------------------------------- scenarios on one mock *)
Inductive op :=
| OExpect (n : N) (f : name) (ps : list (name * pv)) (outs : list (name * list N)) (obj : option Z) (ret : option pv) (ign : bool)
| OCall (f : name) (its : list item) (want : bool)
| OCheck | OClear | OStrict | OIgnoreOtherCalls
| OEnable | ODisable | OLeft
| OPost.   (* the plugin's end-of-test action: checkExpectations() reporting to a reporter that does not leave, then clear() *)

Definition step (fx : bool) (m : mock) (o : op) : res (mock * effect) :=
  match o with
  | OExpect n f ps outs obj ret ign => inl (expect m n f ps outs obj ret ign, no_effect)
  | OCall f its want => actual_call fx m f its want
  | OCheck => match check_expectations m with inr fl => inr fl | inl m => inl (m, no_effect) end
  | OClear => inl (mock0, no_effect)
  | OStrict => inl (set_strict m, no_effect)
  | OIgnoreOtherCalls => inl (set_ignore m, no_effect)
  | OEnable => inl (set_enabled m true, no_effect)
  | ODisable => inl (set_enabled m false, no_effect)
  | OLeft => match calls_left m with inr fl => inr fl | inl (m, b) => inl (m, {| r_ret := None; r_outs := []; r_left := Some b; r_post := [] |}) end
  | OPost => inl (mock0, {| r_ret := None; r_outs := []; r_left := None; r_post := post_check m |})
  end.

(* observation: the failing operation (index, failure) if any, the values returned to the calls that asked, the output buffers
   after every completed actual call, the answers of expectedCallsLeft *)
Record obs := { o_fail : option (N * failure); o_rets : list (option pv); o_outs : list (list N); o_left : list bool;
                o_post : list failure   (* the failures the end-of-test checks (OPost) reported, in order *) }.

Record acc := { a_rets : list (option pv); a_outs : list (list N); a_left : list bool; a_post : list failure }.   (* reversed *)
Definition acc0 : acc := {| a_rets := []; a_outs := []; a_left := []; a_post := [] |}.
Definition add_effect (a : acc) (r : effect) : acc :=
  {| a_rets := match r_ret r with Some x => x :: a_rets a | None => a_rets a end;
     a_outs := rev (r_outs r) ++ a_outs a;
     a_left := match r_left r with Some b => b :: a_left a | None => a_left a end;
     a_post := rev (r_post r) ++ a_post a |}.
Definition mk_obs (fl : option (N * failure)) (a : acc) : obs :=
  {| o_fail := fl; o_rets := rev (a_rets a); o_outs := rev (a_outs a); o_left := rev (a_left a); o_post := rev (a_post a) |}.

Fixpoint run_from (fx : bool) (m : mock) (i : N) (ops : list op) (a : acc) : obs :=
  match ops with
  | [] => mk_obs None a
  | o :: r => match step fx m o with
              | inr fl => mk_obs (Some (i, fl)) a
              | inl (m', rv) => run_from fx m' (i + 1)%N r (add_effect a rv)
              end
  end.

Definition run_gen (fx : bool) (ops : list op) : obs := run_from fx mock0 0%N ops acc0.
Definition run : list op -> obs := run_gen true.        (* the code as it is now, global mock only *)
Definition run_old : list op -> obs := run_gen false.   (* before the repair *)

(* ---------------------------------------------------------------- the global mock and its named scopes
   mock("s") = global_mock.getMockSupportScope("s"): found in data_ or cloned from the global mock and appended to data_. *)
Record world := { w_g : mock; w_kids : list (N * mock) }.     (* data_ in creation order *)
Definition world0 : world := {| w_g := mock0; w_kids := [] |}.
(* MockSupport::clone: a new MockSupport that inherits ignoreOtherCalls_, enabled_ and strictOrdering_ *)
Definition clone (g : mock) : mock :=
  {| m_exps := []; m_aorder := 0; m_eorder := 0; m_strict := m_strict g; m_ignore := m_ignore g; m_enabled := m_enabled g;
     m_last := None |}.
Fixpoint lookup_kid (s : N) (kids : list (N * mock)) : option mock :=
  match kids with
  | [] => None
  | (t, m) :: r => if (t =? s)%N then Some m else lookup_kid s r
  end.
(* the scope as mock("s") hands it out *)
Definition kid (s : N) (w : world) : mock :=
  match lookup_kid s (w_kids w) with Some m => m | None => clone (w_g w) end.
Fixpoint put_kid (s : N) (m : mock) (kids : list (N * mock)) : list (N * mock) :=
  match kids with
  | [] => [(s, m)]
  | (t, m') :: r => if (t =? s)%N then (t, m) :: r else (t, m') :: put_kid s m r
  end.
Definition all_mocks (w : world) : list mock := w_g w :: map snd (w_kids w).
Definition map_kids (f : mock -> mock) (w : world) : world :=
  {| w_g := f (w_g w); w_kids := map (fun k => (fst k, f (snd k))) (w_kids w) |}.

(* checkExpectationsOfLastActualCall of the global mock: its own last call, then the scopes' in data_ order *)
Fixpoint finish_kids (kids : list (N * mock)) : res (list (N * mock)) :=
  match kids with
  | [] => inl []
  | (t, m) :: r => match finish_last m with
                   | inr fl => inr fl
                   | inl m' => match finish_kids r with inr fl => inr fl | inl r' => inl ((t, m') :: r') end
                   end
  end.
Definition finish_all (w : world) : res world :=
  match finish_last (w_g w) with
  | inr fl => inr fl
  | inl g => match finish_kids (w_kids w) with inr fl => inr fl | inl ks => inl {| w_g := g; w_kids := ks |} end
  end.
(* the list failTestWithExpectedCallsNotFulfilled / ...OutOfOrderCalls build: own expectations, then every scope's *)
Definition all_exps (w : world) : list expn := m_exps (w_g w) ++ flat_map (fun k => m_exps (snd k)) (w_kids w).
(* expectedCallsLeft: own hasUnfulfilledExpectations plus every scope's expectedCallsLeft *)
Definition left_all (w : world) : bool :=
  unfulfilled (m_exps (w_g w)) || existsb (fun k => unfulfilled (m_exps (snd k))) (w_kids w).
(* wasLastActualCallFulfilled *)
Definition last_ok_all (w : world) : bool := last_ok (w_g w) && forallb (fun k => last_ok (snd k)) (w_kids w).
(* hasCallsOutOfOrder *)
Definition ooo_all (w : world) : bool := existsb e_ooo (m_exps (w_g w)) || existsb (fun k => existsb e_ooo (m_exps (snd k))) (w_kids w).
(* mock().checkExpectations() *)
Definition check_world (w : world) : res world :=
  match finish_all w with
  | inr fl => inr fl
  | inl w =>
      if last_ok_all w && left_all w then inr (history (all_exps w) FNotFulfilled)
      else if ooo_all w then inr (history (filter e_ooo (all_exps w)) FOutOfOrder)
      else inl w
  end.

(* the same with the reporter that does not leave: every scope's last call is finished, each failure is recorded *)
Fixpoint finish_kids_nl (kids : list (N * mock)) : list (N * mock) * list failure :=
  match kids with
  | [] => ([], [])
  | (t, m) :: r => let (m', f1) := finish_last_nl m in let (r', f2) := finish_kids_nl r in ((t, m') :: r', f1 ++ f2)
  end.
Definition finish_all_nl (w : world) : world * list failure :=
  let (g, f1) := finish_last_nl (w_g w) in let (ks, f2) := finish_kids_nl (w_kids w) in ({| w_g := g; w_kids := ks |}, f1 ++ f2).
(* MockSupportPlugin::postTestAction: mock().checkExpectations() with the recording reporter (then mock().clear()) *)
Definition post_world (w : world) : list failure :=
  let (w, fs) := finish_all_nl w in
  if last_ok_all w && left_all w then fs ++ [history (all_exps w) FNotFulfilled]
  else if ooo_all w then fs ++ [history (filter e_ooo (all_exps w)) FOutOfOrder]
  else fs.

(* one operation on mock() (s = 0) or on mock("s<s>") *)
Definition stepw (fx : bool) (w : world) (so : N * op) : res (world * effect) :=
  let (s, o) := so in
  if (s =? 0)%N then
    match o with
    | OCheck => match check_world w with inr fl => inr fl | inl w => inl (w, no_effect) end
    | OLeft => match finish_all w with
               | inr fl => inr fl
               | inl w => inl (w, {| r_ret := None; r_outs := []; r_left := Some (left_all w); r_post := [] |})
               end
    | OClear => inl (world0, no_effect)                                  (* clears and deletes every scope *)
    | OPost => inl (world0, {| r_ret := None; r_outs := []; r_left := None; r_post := post_world w |})
    | OIgnoreOtherCalls => inl (map_kids set_ignore w, no_effect)
    | OEnable => inl (map_kids (fun m => set_enabled m true) w, no_effect)
    | ODisable => inl (map_kids (fun m => set_enabled m false) w, no_effect)
    | _ => match step fx (w_g w) o with                                  (* expectNCalls, actualCall, strictOrder: this mock only *)
           | inr fl => inr fl
           | inl (g, r) => inl ({| w_g := g; w_kids := w_kids w |}, r)
           end
    end
  else
    match step fx (kid s w) o with
    | inr fl => inr fl
    | inl (m, r) => inl ({| w_g := w_g w; w_kids := put_kid s m (w_kids w) |}, r)
    end.

Fixpoint runw_from (fx : bool) (w : world) (i : N) (ops : list (N * op)) (a : acc) : obs :=
  match ops with
  | [] => mk_obs None a
  | o :: r => match stepw fx w o with
              | inr fl => mk_obs (Some (i, fl)) a
              | inl (w', rv) => runw_from fx w' (i + 1)%N r (add_effect a rv)
              end
  end.
Definition runw_gen (fx : bool) (ops : list (N * op)) : obs := runw_from fx world0 0%N ops acc0.
Definition runw : list (N * op) -> obs := runw_gen true.
Definition runw_old : list (N * op) -> obs := runw_gen false.

(* ================================================================ the property, model-free (no flags, no candidate lists)
   Judged scenarios ("canonical"): configuration (strictOrder / ignoreOtherCalls on any scope), expectations, actual calls, one
   final mock().checkExpectations().  No parameter name twice and at most one onObject in one actual call, no
   ignoreOtherParameters, and per function either every expectation names an object or none does and no call passes one (an
   expectation without onObject accepts a call on any object -- like ignoreOtherParameters this makes a call fit expectations of
   different shape, and such scenarios are checked for model = implementation only).  In this fragment a call matches an
   expectation iff same function, same object and the same set of (parameter name, value) and output parameter names -- every
   expectation set is unambiguous in the sense of the property. *)
Record sexp := { sx_n : N; sx_f : name; sx_ps : list (name * pv); sx_ret : option pv; sx_obj : option Z;
                 sx_outs : list (name * list N) }.
Record scall := { sc_f : name; sc_items : list item; sc_want : bool }.
Definition sc_ps (c : scall) : list (name * pv) :=
  flat_map (fun it => match it with IIn n v => [(n, v)] | _ => [] end) (sc_items c).
Definition in_names (its : list item) : list name := flat_map (fun it => match it with IIn n _ => [n] | _ => [] end) its.
Definition out_names (its : list item) : list name := flat_map (fun it => match it with IOut n _ => [n] | _ => [] end) its.
Definition objs_of (its : list item) : list Z := flat_map (fun it => match it with IObj a => [a] | _ => [] end) its.

Fixpoint nodup_names (l : list name) : bool :=
  match l with [] => true | x :: r => negb (existsb (N.eqb x) r) && nodup_names r end.

(* a parameter list contains (n, v): the first parameter named n has an equal value (getValueByName takes the first) *)
Definition lookup (n : name) (ps : list (name * pv)) : option pv :=
  match find (fun x => (fst x =? n)%N) ps with Some x => Some (snd x) | None => None end.
Definition has_pv (ps : list (name * pv)) (x : name * pv) : bool :=
  match lookup (fst x) ps with Some v => veq v (snd x) | None => false end.
Definition has_name {A} (n : name) (l : list (name * A)) : bool := existsb (fun x => (fst x =? n)%N) l.
(* expectation e has room for what the call passes with this item *)
Definition accepts (e : sexp) (it : item) : bool :=
  match it with
  | IIn n v => has_pv (sx_ps e) (n, v)
  | IOut n _ => has_name n (sx_outs e)
  | IObj a => match sx_obj e with Some b => (b =? a)%Z | None => true end
  end.
Definition agrees_upto (e : sexp) (its : list item) : bool := forallb (accepts e) its.
(* everything the expectation names was passed *)
Definition covers (e : sexp) (its : list item) : bool :=
  forallb (fun q => existsb (N.eqb (fst q)) (in_names its)) (sx_ps e) &&
  forallb (fun q => existsb (N.eqb (fst q)) (out_names its)) (sx_outs e) &&
  match sx_obj e with Some _ => negb (match objs_of its with [] => true | _ => false end) | None => true end.
(* the call (f, items) is exactly what expectation e describes *)
Definition matches (e : sexp) (f : name) (its : list item) : bool :=
  (sx_f e =? f)%N && agrees_upto e its && covers e its.
(* two calls have the same shape *)
Definition opt_z_eqb (a b : option Z) : bool :=
  match a, b with Some x, Some y => (x =? y)%Z | None, None => true | _, _ => false end.
Definition same_call (c d : scall) : bool :=
  (sc_f c =? sc_f d)%N && forallb (has_pv (sc_ps d)) (sc_ps c) && forallb (has_pv (sc_ps c)) (sc_ps d) &&
  forallb (fun n => existsb (N.eqb n) (out_names (sc_items d))) (out_names (sc_items c)) &&
  forallb (fun n => existsb (N.eqb n) (out_names (sc_items c))) (out_names (sc_items d)) &&
  opt_z_eqb (hd_error (objs_of (sc_items c))) (hd_error (objs_of (sc_items d))).

(* --- one scope *)
Record canon := { k_strict : bool; k_ignore : bool; k_exps : list sexp; k_calls : list scall }.

Definition call_ok (c : scall) : bool :=
  nodup_names (in_names (sc_items c)) && nodup_names (out_names (sc_items c)) && (length (objs_of (sc_items c)) <=? 1)%nat.
(* per function: every expectation with an object, or none and no call passes one *)
Definition obj_uniform (es : list sexp) (cs : list scall) : bool :=
  forallb (fun e => match sx_obj e with
                    | Some _ => forallb (fun e' => negb (sx_f e' =? sx_f e)%N || match sx_obj e' with Some _ => true | None => false end) es
                    | None => forallb (fun c => negb (sc_f c =? sx_f e)%N || match objs_of (sc_items c) with [] => true | _ => false end) cs
                    end) es.
Definition judged (k : canon) : bool := forallb call_ok (k_calls k) && obj_uniform (k_exps k) (k_calls k).

(* calls that ignoreOtherCalls swallows never reach the matching *)
Definition ignored (k : canon) (c : scall) : bool := k_ignore k && negb (existsb (fun e => (sx_f e =? sc_f c)%N) (k_exps k)).
Definition checked_calls (k : canon) : list scall := filter (fun c => negb (ignored k c)) (k_calls k).

(* --- verdict clause: multiset of actual calls = multiset of expected calls expanded by their counts (keyed by call shape) *)
Definition count_calls (c : scall) (cs : list scall) : N := N.of_nat (length (filter (same_call c) cs)).
Definition capacity (es : list sexp) (c : scall) : N :=
  fold_right (fun e a => if matches e (sc_f c) (sc_items c) then (sx_n e + a)%N else a) 0%N es.
Definition multiset_ok (es : list sexp) (cs : list scall) : bool :=
  forallb (fun c => (count_calls c cs =? capacity es c)%N) cs &&
  forallb (fun e => (sx_n e =? 0)%N || existsb (fun c => matches e (sc_f c) (sc_items c)) cs) es.
(* strict order: the k-th call is what the k-th expected call (expectations repeated by their counts, in order) describes *)
Fixpoint expand (es : list sexp) : list sexp :=
  match es with [] => [] | e :: r => repeat e (N.to_nat (sx_n e)) ++ expand r end.
Fixpoint seq_ok (xs : list sexp) (cs : list scall) : bool :=
  match xs, cs with
  | [], [] => true
  | e :: xr, c :: cr => matches e (sc_f c) (sc_items c) && seq_ok xr cr
  | _, _ => false
  end.
Definition verdict_ok (k : canon) : bool :=
  if k_strict k then seq_ok (expand (k_exps k)) (checked_calls k) else multiset_ok (k_exps k) (checked_calls k).

(* --- diagnosis, return-value and output clauses: the reference semantics M.  Remaining capacities only. *)
Record mexp := { x_e : sexp; x_left : N; x_done : N; x_lo : N; x_hi : N; x_ooo : bool }.
Definition x_open (x : mexp) : bool := (0 <? x_left x)%N.
Fixpoint init_m (strict : bool) (from : N) (es : list sexp) : list mexp :=
  match es with
  | [] => []
  | e :: r => {| x_e := e; x_left := sx_n e; x_done := 0; x_lo := if strict then (from + 1)%N else 0%N;
                 x_hi := if strict then (from + sx_n e)%N else 0%N; x_ooo := false |} :: init_m strict (from + sx_n e)%N r
  end.
(* the first open expectation that is exactly the call is consumed *)
Fixpoint consume (f : name) (its : list item) (order : N) (xs : list mexp) : option (list mexp * sexp) :=
  match xs with
  | [] => None
  | x :: r =>
      if x_open x && matches (x_e x) f its then
        let ooo := if negb (x_lo x =? 0)%N && ((order <? x_lo x)%N || (x_hi x <? order)%N) then true else x_ooo x in
        Some ({| x_e := x_e x; x_left := (x_left x - 1)%N; x_done := (x_done x + 1)%N; x_lo := x_lo x; x_hi := x_hi x; x_ooo := ooo |} :: r,
              x_e x)
      else match consume f its order r with Some (r', v) => Some (x :: r', v) | None => None end
  end.
(* the bytes the consumed expectation returns through each output parameter the call passed *)
Definition lookup_out (n : name) (outs : list (name * list N)) : list N :=
  match find (fun x => (fst x =? n)%N) outs with Some x => snd x | None => [] end.
Definition out_bytes (e : sexp) (its : list item) : list (list N) := map (fun n => lookup_out n (sx_outs e)) (out_names its).
(* why a call that cannot be consumed deviates: (kind, deferred) -- a missing parameter or object only shows when the call is
   finished, i.e. at the next operation on that scope unless the return value is asked for at once *)
Fixpoint first_dead (f : name) (xs : list mexp) (seen rest : list item) : option item :=
  match rest with
  | [] => None
  | p :: r => if existsb (fun x => x_open x && (sx_f (x_e x) =? f)%N && agrees_upto (x_e x) (seen ++ [p])) xs
              then first_dead f xs (seen ++ [p]) r else Some p
  end.
Inductive dkind := DUnexpected (f : name) | DAdditional (f : name) (nth : N) | DParamName (f p : name) | DParamValue (f p : name)
                 | DParamMissing (f : name) | DNotFulfilled | DOutOfOrder
                 | DOutName (f p : name) | DOutType (f p : name) | DObjectUnexpected (f : name) | DObjectMissing (f : name).
Definition params_covered (e : sexp) (its : list item) : bool :=
  forallb (fun q => existsb (N.eqb (fst q)) (in_names its)) (sx_ps e) &&
  forallb (fun q => existsb (N.eqb (fst q)) (out_names its)) (sx_outs e).
Definition deviation (f : name) (its : list item) (xs : list mexp) : dkind * bool :=
  if negb (existsb (fun x => x_open x && (sx_f (x_e x) =? f)%N) xs) then
    let n := fold_right (fun x a => if (sx_f (x_e x) =? f)%N then (x_done x + a)%N else a) 0%N xs in
    (if (0 <? n)%N then DAdditional f (n + 1)%N else DUnexpected f, false)
  else match first_dead f xs [] its with
       | Some (IIn p _) => (if existsb (fun x => (sx_f (x_e x) =? f)%N && has_name p (sx_ps (x_e x))) xs
                            then DParamValue f p else DParamName f p, false)
       | Some (IOut p _) => (if existsb (fun x => (sx_f (x_e x) =? f)%N && has_name p (sx_outs (x_e x))) xs
                             then DOutType f p else DOutName f p, false)
       | Some (IObj _) => (DObjectUnexpected f, false)
       | None => (if existsb (fun x => x_open x && (sx_f (x_e x) =? f)%N && agrees_upto (x_e x) its && negb (params_covered (x_e x) its)) xs
                  then DParamMissing f else DObjectMissing f, true)
       end.

(* the state of one scope in M: capacities, number of checked calls so far, the deviation that waits for the call to be finished *)
Record mst := { s_xs : list mexp; s_order : N; s_pend : option dkind }.
(* one actual call: the new state and what the call hands back (value, expected prefix of every output buffer; [] = nothing
   demanded), or the failure it raises *)
Definition m_call (ign : bool) (known : name -> bool) (st : mst) (c : scall)
  : (mst * (option (option pv) * list (list N))) + dkind :=
  match s_pend st with
  | Some d => inr d
  | None =>
      let nothing := map (fun _ => @nil N) (out_names (sc_items c)) in
      if ign && negb (known (sc_f c)) then inl (st, (if sc_want c then Some None else None, nothing))
      else match consume (sc_f c) (sc_items c) (s_order st + 1)%N (s_xs st) with
           | Some (xs', e) => inl ({| s_xs := xs'; s_order := (s_order st + 1)%N; s_pend := None |},
                                   (if sc_want c then Some (sx_ret e) else None, out_bytes e (sc_items c)))
           | None => let (d, deferred) := deviation (sc_f c) (sc_items c) (s_xs st) in
                     if deferred && negb (sc_want c)
                     then inl ({| s_xs := s_xs st; s_order := (s_order st + 1)%N; s_pend := Some d |}, (None, nothing))
                     else inr d
           end
  end.
(* the final mock().checkExpectations() over the scopes in creation order *)
Definition m_final (sts : list mst) : option dkind :=
  match flat_map (fun st => match s_pend st with Some d => [d] | None => [] end) sts with
  | d :: _ => Some d
  | [] => if existsb (fun st => existsb x_open (s_xs st)) sts then Some DNotFulfilled
          else if existsb (fun st => existsb x_ooo (s_xs st)) sts then Some DOutOfOrder
          else None
  end.

Record mres := { mr_fail : option (N * dkind); mr_rets : list (option pv); mr_outs : list (list N) }.
Record macc := { ma_rets : list (option pv); ma_outs : list (list N) }.     (* reversed *)
Definition macc0 : macc := {| ma_rets := []; ma_outs := [] |}.
Definition macc_add (a : macc) (r : option (option pv) * list (list N)) : macc :=
  {| ma_rets := match fst r with Some x => x :: ma_rets a | None => ma_rets a end; ma_outs := rev (snd r) ++ ma_outs a |}.
Definition mk_mres (fl : option (N * dkind)) (a : macc) : mres :=
  {| mr_fail := fl; mr_rets := rev (ma_rets a); mr_outs := rev (ma_outs a) |}.

Fixpoint m_calls (ign : bool) (known : name -> bool) (st : mst) (i : N) (cs : list scall) (a : macc) : mres :=
  match cs with
  | [] => mk_mres (match m_final [st] with Some d => Some (i, d) | None => None end) a
  | c :: r => match m_call ign known st c with
              | inr d => mk_mres (Some (i, d)) a
              | inl (st', rv) => m_calls ign known st' (i + 1)%N r (macc_add a rv)
              end
  end.
Definition mst0 (strict : bool) (es : list sexp) : mst := {| s_xs := init_m strict 0 es; s_order := 0; s_pend := None |}.
Definition knows (es : list sexp) (f : name) : bool := existsb (fun e => (sx_f e =? f)%N) es.
Definition expected_res (k : canon) : mres :=
  let i0 := ((if k_strict k then 1 else 0) + (if k_ignore k then 1 else 0) + N.of_nat (length (k_exps k)))%N in
  m_calls (k_ignore k) (knows (k_exps k)) (mst0 (k_strict k) (k_exps k)) i0 (k_calls k) macc0.
Definition expected (k : canon) : option (N * dkind) * list (option pv) := (mr_fail (expected_res k), mr_rets (expected_res k)).
Definition expected_outs (k : canon) : list (list N) := mr_outs (expected_res k).

Definition dkind_of (k : fkind) : option dkind :=
  match k with
  | FUnexpectedCall f => Some (DUnexpected f) | FAdditionalCall f n => Some (DAdditional f n)
  | FParamName f p => Some (DParamName f p) | FParamValue f p => Some (DParamValue f p)
  | FParamMissing f _ => Some (DParamMissing f) | FNotFulfilled => Some DNotFulfilled | FOutOfOrder => Some DOutOfOrder
  | FOutName f p => Some (DOutName f p) | FOutType f p => Some (DOutType f p)
  | FObjectUnexpected f => Some (DObjectUnexpected f) | FObjectMissing f => Some (DObjectMissing f)
  | FCannotHappen => None
  end.
Definition dkind_eqb (a b : dkind) : bool :=
  match a, b with
  | DUnexpected f, DUnexpected g => (f =? g)%N
  | DAdditional f n, DAdditional g m => (f =? g)%N && (n =? m)%N
  | DParamName f p, DParamName g q | DParamValue f p, DParamValue g q
  | DOutName f p, DOutName g q | DOutType f p, DOutType g q => (f =? g)%N && (p =? q)%N
  | DParamMissing f, DParamMissing g | DObjectUnexpected f, DObjectUnexpected g | DObjectMissing f, DObjectMissing g => (f =? g)%N
  | DNotFulfilled, DNotFulfilled | DOutOfOrder, DOutOfOrder => true
  | _, _ => false
  end.
Definition opt_pv_eqb (a b : option pv) : bool :=
  match a, b with Some x, Some y => pv_eqb x y | None, None => true | _, _ => false end.
Fixpoint list_eqb {A} (eqb : A -> A -> bool) (a b : list A) : bool :=
  match a, b with [] , [] => true | x :: a', y :: b' => eqb x y && list_eqb eqb a' b' | _, _ => false end.
(* every output buffer begins with the bytes the consumed expectation returns *)
Definition outs_ok (want got : list (list N)) : bool := list_eqb is_prefix want got.

(* --- parsing one scope's scenario *)
Fixpoint parse_calls (ops : list op) : option (list scall) :=
  match ops with
  | [OCheck] => Some []
  | OCall f its w :: r => match parse_calls r with
                          | Some l => Some ({| sc_f := f; sc_items := its; sc_want := w |} :: l)
                          | None => None
                          end
  | _ => None
  end.
Fixpoint parse_exps (ops : list op) : option (list sexp * list scall) :=
  match ops with
  | OExpect n f ps outs obj ret false :: r =>
      match parse_exps r with
      | Some (es, cs) => Some ({| sx_n := n; sx_f := f; sx_ps := ps; sx_ret := ret; sx_obj := obj; sx_outs := outs |} :: es, cs)
      | None => None
      end
  | _ => match parse_calls ops with Some cs => Some ([], cs) | None => None end
  end.
Definition parse (ops : list op) : option canon :=
  let (st, ops) := match ops with OStrict :: r => (true, r) | _ => (false, ops) end in
  let (ig, ops) := match ops with OIgnoreOtherCalls :: r => (true, r) | _ => (false, ops) end in
  match parse_exps ops with
  | Some (es, cs) => Some {| k_strict := st; k_ignore := ig; k_exps := es; k_calls := cs |}
  | None => None
  end.

Definition fail_ok (got : option (N * failure)) (want : option (N * dkind)) : bool :=
  match got, want with
  | None, None => true
  | Some (i, fl), Some (j, d) => (i =? j)%N && match dkind_of (f_kind fl) with Some d' => dkind_eqb d' d | None => false end
  | _, _ => false
  end.
Definition passed_obs (o : obs) : bool := match o_fail o with None => true | Some _ => false end.

(* spec of a scenario on the global mock only: (1) the scenario passes iff the multisets (strict: the sequences) agree; (2) a
   failure is the first deviation, once, with the matching diagnosis; (3) every call returns the value and the output bytes of
   the expectation it consumed *)
Definition spec (ops : list op) (o : obs) : bool :=
  match parse ops with
  | None => true
  | Some k =>
      if negb (judged k) then true else
      Bool.eqb (passed_obs o) (verdict_ok k)
      && fail_ok (o_fail o) (fst (expected k))
      && list_eqb opt_pv_eqb (o_rets o) (snd (expected k))
      && outs_ok (expected_outs k) (o_outs o)
  end.

(* ================================================================ the property over the global mock and its named scopes *)
Record canonw := { kw_cfg : list (N * bool);          (* (scope, false = strictOrder | true = ignoreOtherCalls) *)
                   kw_exps : list (N * sexp); kw_calls : list (N * scall) }.

Fixpoint parsew_calls (ops : list (N * op)) : option (list (N * scall)) :=
  match ops with
  | [(0%N, OCheck)] => Some []
  | (s, OCall f its w) :: r => match parsew_calls r with
                               | Some l => Some ((s, {| sc_f := f; sc_items := its; sc_want := w |}) :: l)
                               | None => None
                               end
  | _ => None
  end.
Fixpoint parsew_exps (ops : list (N * op)) : option (list (N * sexp) * list (N * scall)) :=
  match ops with
  | (s, OExpect n f ps outs obj ret false) :: r =>
      match parsew_exps r with
      | Some (es, cs) => Some ((s, {| sx_n := n; sx_f := f; sx_ps := ps; sx_ret := ret; sx_obj := obj; sx_outs := outs |}) :: es, cs)
      | None => None
      end
  | _ => match parsew_calls ops with Some cs => Some ([], cs) | None => None end
  end.
Fixpoint parsew_cfg (ops : list (N * op)) : option canonw :=
  match ops with
  | (s, OStrict) :: r =>
      match parsew_cfg r with
      | Some k => Some {| kw_cfg := (s, false) :: kw_cfg k; kw_exps := kw_exps k; kw_calls := kw_calls k |}
      | None => None
      end
  | (s, OIgnoreOtherCalls) :: r =>
      match parsew_cfg r with
      | Some k => Some {| kw_cfg := (s, true) :: kw_cfg k; kw_exps := kw_exps k; kw_calls := kw_calls k |}
      | None => None
      end
  | _ => match parsew_exps ops with
         | Some (es, cs) => Some {| kw_cfg := []; kw_exps := es; kw_calls := cs |}
         | None => None
         end
  end.
Definition parsew : list (N * op) -> option canonw := parsew_cfg.

(* the scopes in the order mock("s") creates them: first mention *)
Definition mention (acc : list N) (s : N) : list N := if (s =? 0)%N || existsb (N.eqb s) acc then acc else acc ++ [s].
Definition scopes_of (k : canonw) : list N :=
  fold_left mention (map fst (kw_cfg k) ++ map fst (kw_exps k) ++ map fst (kw_calls k)) [].
(* ignoreOtherCalls() on mock() reaches every scope, existing (propagated) or created later (cloned); on a scope only that scope *)
Definition ign_of (cfg : list (N * bool)) (s : N) : bool := existsb (fun c => snd c && ((fst c =? 0)%N || (fst c =? s)%N)) cfg.
(* strictOrder() on mock() reaches mock() and the scopes created later (clone), i.e. not named by an earlier configuration
   operation; on a scope that scope.  rc = the configuration operations, latest first *)
Definition mentioned {A} (s : N) (l : list (N * A)) : bool := existsb (fun c => (fst c =? s)%N) l.
Fixpoint strict_r (rc : list (N * bool)) (s : N) : bool :=
  match rc with
  | [] => false
  | (t, b) :: older => strict_r older s || (negb b && ((t =? s)%N || ((t =? 0)%N && negb (mentioned s older))))
  end.
Definition strict_of (cfg : list (N * bool)) (s : N) : bool := strict_r (rev cfg) s.
Definition of_scope {A} (s : N) (l : list (N * A)) : list A := map snd (filter (fun x => (fst x =? s)%N) l).
(* what scope s sees of the scenario *)
Definition scope_canon (k : canonw) (s : N) : canon :=
  {| k_strict := strict_of (kw_cfg k) s; k_ignore := ign_of (kw_cfg k) s; k_exps := of_scope s (kw_exps k);
     k_calls := of_scope s (kw_calls k) |}.
Definition judgedw (k : canonw) : bool := forallb (fun s => judged (scope_canon k s)) (0%N :: scopes_of k).
(* verdict clause: in EVERY scope the actual calls match the expectations one-to-one *)
Definition verdictw_ok (k : canonw) : bool := forallb (fun s => verdict_ok (scope_canon k s)) (0%N :: scopes_of k).

(* M over the scopes: each call is processed by its scope's state *)
Fixpoint get_st (s : N) (sts : list (N * mst)) : mst :=
  match sts with
  | [] => {| s_xs := []; s_order := 0; s_pend := None |}
  | (t, st) :: r => if (t =? s)%N then st else get_st s r
  end.
Fixpoint set_st (s : N) (st : mst) (sts : list (N * mst)) : list (N * mst) :=
  match sts with
  | [] => []
  | (t, st') :: r => if (t =? s)%N then (t, st) :: r else (t, st') :: set_st s st r
  end.
Fixpoint mw_calls (k : canonw) (sts : list (N * mst)) (i : N) (cs : list (N * scall)) (a : macc) : mres :=
  match cs with
  | [] => mk_mres (match m_final (map snd sts) with Some d => Some (i, d) | None => None end) a
  | (s, c) :: r => match m_call (ign_of (kw_cfg k) s) (knows (of_scope s (kw_exps k))) (get_st s sts) c with
                   | inr d => mk_mres (Some (i, d)) a
                   | inl (st', rv) => mw_calls k (set_st s st' sts) (i + 1)%N r (macc_add a rv)
                   end
  end.
Definition expectedw (k : canonw) : mres :=
  let i0 := N.of_nat (length (kw_cfg k) + length (kw_exps k)) in
  mw_calls k (map (fun s => (s, mst0 (strict_of (kw_cfg k) s) (of_scope s (kw_exps k)))) (0%N :: scopes_of k)) i0 (kw_calls k) macc0.

(* --- the end-of-test check made by the plugin (scenario ends with mock() OPost instead of mock() OCheck): the reporter does
   not leave the test, so the check can deliver several failures.  "The first deviation fails the test once with the matching
   diagnosis": every scope whose last actual call cannot be finished (missing parameter / object) contributes that diagnosis
   once, in creation order; the expectation such a call leaves unfulfilled is the same deviation and is NOT reported again; only
   when every last call was fine an unfulfilled expectation of any scope is reported (once); calls out of order are a deviation
   of their own (reported once, unless "not fulfilled" was). *)
Definition pend_of (st : mst) : list dkind := match s_pend st with Some d => [d] | None => [] end.
Definition m_post (sts : list mst) : list dkind :=
  let ps := flat_map pend_of sts in
  let ooo := existsb (fun st => existsb x_ooo (s_xs st)) sts in
  match ps with
  | [] => if existsb (fun st => existsb x_open (s_xs st)) sts then [DNotFulfilled] else if ooo then [DOutOfOrder] else []
  | _ => if ooo then ps ++ [DOutOfOrder] else ps
  end.
(* the states of M after all calls, when no call fails at once *)
Fixpoint mw_end (k : canonw) (sts : list (N * mst)) (cs : list (N * scall)) : option (list (N * mst)) :=
  match cs with
  | [] => Some sts
  | (s, c) :: r => match m_call (ign_of (kw_cfg k) s) (knows (of_scope s (kw_exps k))) (get_st s sts) c with
                   | inr _ => None
                   | inl (st', _) => mw_end k (set_st s st' sts) r
                   end
  end.
Definition sts0 (k : canonw) : list (N * mst) :=
  map (fun s => (s, mst0 (strict_of (kw_cfg k) s) (of_scope s (kw_exps k)))) (0%N :: scopes_of k).
(* the scenario with its final mock() OPost replaced by mock() OCheck *)
Fixpoint post_to_check (ops : list (N * op)) : option (list (N * op)) :=
  match ops with
  | [] => None
  | [(0%N, OPost)] => Some [(0%N, OCheck)]
  | o :: r => match post_to_check r with Some r' => Some (o :: r') | None => None end
  end.
Definition kind_is (fl : failure) (d : dkind) : bool :=
  match dkind_of (f_kind fl) with Some d' => dkind_eqb d' d | None => false end.
Fixpoint list_eqb2 {A B} (eqb : A -> B -> bool) (a : list A) (b : list B) : bool :=
  match a, b with [], [] => true | x :: a', y :: b' => eqb x y && list_eqb2 eqb a' b' | _, _ => false end.
Definition is_nil {A} (l : list A) : bool := match l with [] => true | _ => false end.
Definition passed_post (o : obs) : bool := passed_obs o && is_nil (o_post o).
Definition specw_post (k : canonw) (o : obs) : bool :=
  let r := expectedw k in
  Bool.eqb (passed_post o) (verdictw_ok k)
  && match mw_end k (sts0 k) (kw_calls k) with
     | Some sts => passed_obs o && list_eqb2 kind_is (o_post o) (m_post (map snd sts))   (* every call went through: the end-of-test list *)
     | None => fail_ok (o_fail o) (mr_fail r) && is_nil (o_post o)                        (* a call failed at once: the test was left there *)
     end
  && list_eqb opt_pv_eqb (o_rets o) (mr_rets r)
  && outs_ok (mr_outs r) (o_outs o).

(* --- "each actual call returns the return value and output-parameter bytes of the expectation it consumed", for EVERY scenario
   (any operations, ignoreOtherParameters, ambiguous sets, parameters passed twice ...): a completed actual call that asked for
   its return value got the return value of some expectation declared for that function in that scope, and every output buffer it
   passed begins with the bytes THAT expectation defines for the buffer's name (nothing is demanded of names it does not define),
   whatever else the call passed and in whatever order -- or the call was discarded (mock disabled / ignoreOtherCalls): no return
   value, buffers untouched. *)
Record dexp := { d_scope : N; d_f : name; d_outs : list (name * list N); d_ret : option pv }.
Definition coherent_call (ds : list dexp) (s : N) (f : name) (its : list item) (ret : option pv) (bufs : list (list N)) : bool :=
  (match ret with None => list_eqb bytes_eqb (bufs_of its) bufs | Some _ => false end)
  || existsb (fun d => (d_scope d =? s)%N && (d_f d =? f)%N && opt_pv_eqb ret (d_ret d)
                       && outs_ok (map (fun n => lookup_out n (d_outs d)) (out_names its)) bufs) ds.
Definition undeclare (s : N) (ds : list dexp) : list dexp := if (s =? 0)%N then [] else filter (fun d => negb (d_scope d =? s)%N) ds.
(* walk over the operations that were completed (those before the failing one), handing each actual call its share of the
   returned values and of the output buffers *)
Fixpoint coh (ops : list (N * op)) (i : N) (stop : option N) (ds : list dexp) (rets : list (option pv)) (outs : list (list N)) : bool :=
  match ops with
  | [] => true
  | (s, o) :: r =>
      if match stop with Some j => (j <=? i)%N | None => false end then true else
      match o with
      | OExpect _ f _ os _ ret _ => coh r (i + 1)%N stop (ds ++ [{| d_scope := s; d_f := f; d_outs := os; d_ret := ret |}]) rets outs
      | OCall f its want =>
          let k := length (out_names its) in
          if want then
            match rets with
            | [] => false
            | rv :: rets' => (length (firstn k outs) =? k)%nat && coherent_call ds s f its rv (firstn k outs)
                             && coh r (i + 1)%N stop ds rets' (skipn k outs)
            end
          else coh r (i + 1)%N stop ds rets (skipn k outs)
      | OClear | OPost => coh r (i + 1)%N stop (undeclare s ds) rets outs
      | _ => coh r (i + 1)%N stop ds rets outs
      end
  end.
Definition coherent (ops : list (N * op)) (o : obs) : bool :=
  coh ops 0%N (match o_fail o with Some (j, _) => Some j | None => None end) [] (o_rets o) (o_outs o).

(* spec over the scopes: (1) passes iff in every scope the multisets (strict: sequences) agree; (2) first deviation, once, with
   the matching diagnosis -- also when the end-of-test check is the plugin's; (3) value and output bytes of the consumed
   expectation *)
Definition specw (ops : list (N * op)) (o : obs) : bool :=
  coherent ops o &&
  match parsew ops with
  | Some k =>
      if negb (judgedw k) then true else
      let r := expectedw k in
      Bool.eqb (passed_obs o) (verdictw_ok k)
      && fail_ok (o_fail o) (mr_fail r)
      && list_eqb opt_pv_eqb (o_rets o) (mr_rets r)
      && outs_ok (mr_outs r) (o_outs o)
      && is_nil (o_post o)
  | None =>
      match post_to_check ops with
      | Some ops' => match parsew ops' with
                     | Some k => if negb (judgedw k) then true else specw_post k o
                     | None => true
                     end
      | None => true
      end
  end.

(* validity of the values in a scenario: typed values in range, output data fits the caller's buffers *)
Definition out_max : nat := 8.
Definition op_valid (o : op) : bool :=
  match o with
  | OExpect _ _ ps outs obj ret _ =>
      forallb (fun q => pv_valid (snd q)) ps && forallb (fun q => (length (snd q) <=? out_max)%nat) outs &&
      match ret with Some v => pv_valid v | None => true end
  | OCall _ its _ =>
      forallb (fun it => match it with IIn _ v => pv_valid v | IOut _ buf => (length buf =? out_max)%nat | IObj _ => true end) its
  | _ => true
  end.
Definition valid (ops : list (N * op)) : bool := forallb (fun so => op_valid (snd so)) ops.

(* ================================================================ a RUN of several tests with the MockSupportPlugin installed
   src/CppUTestExt/MockSupportPlugin.cpp (postTestAction), src/CppUTest/Utest.cpp (UtestShell::runOneTestInCurrentProcess: body, then
   the plugins' post actions; hasFailed_ is a flag of the test's shell, set by UtestShell::addFailure), src/CppUTest/TestResult.cpp
   (failureCount_ is ONE counter for the whole run).
   A scenario is a list of tests.  Each test is a list of steps: mock operations (as above, on mock() or on a scope) and checks of
   the test's own (CHECK(ok)).  A test is left at its first failure -- its own failing check or the mock failure an operation
   raises (MockFailureReporter::failTest -> UtestShell::failWith: counted once, hasFailed_ set, the test is left).  After the body
   the installed plugin makes the end-of-test check: mock().checkExpectations() with the reporter that records and returns, but
   only if THIS test has not failed; then mock().clear() in every case.  mock() is one global object and the TestResult is one
   object for the whole run: both are threaded through the tests here. *)
Inductive tstep :=
| TOp (so : N * op)        (* a mock operation of the test body *)
| TCheck (ok : bool).      (* a check of the test's own: CHECK(ok) -- false fails the test and leaves it *)
Definition test := list tstep.

(* how the body of a test ended: at its end (with the mock state it leaves), at a mock failure (index among the mock operations of
   the body), at its own failing check *)
Inductive bend := BDone (w : world) | BMock (i : N) (fl : failure) | BOwn (w : world).
Fixpoint body_from (fx : bool) (w : world) (i : N) (t : test) (a : acc) : bend * acc :=
  match t with
  | [] => (BDone w, a)
  | TCheck true :: r => body_from fx w i r a
  | TCheck false :: _ => (BOwn w, a)
  | TOp so :: r => match stepw fx w so with
                   | inr fl => (BMock i fl, a)
                   | inl (w', rv) => body_from fx w' (i + 1)%N r (add_effect a rv)
                   end
  end.

Record rstate := { rs_world : world;       (* mock() and its scopes *)
                   rs_failures : N }.      (* TestResult::failureCount_ of the run *)
Definition rstate0 : rstate := {| rs_world := world0; rs_failures := 0 |}.

(* the plugin's post action: given test.hasFailed(), result.getFailureCount() and the mock state the body left (None: the state
   after an operation that raised a mock failure, which is not modelled -- nothing may depend on it), the mock state afterwards
   and the failures delivered to result.addFailure *)
Definition plugin_t := bool -> N -> option world -> world * list failure.
(* MockSupportPlugin::postTestAction *)
Definition plugin_post : plugin_t := fun failed _ ow =>
  (world0,                                                            (* mock().clear() *)
   match failed, ow with false, Some w => post_world w | _, _ => [] end).   (* if (!test.hasFailed()) mock().checkExpectations() *)

(* what is observed of one test: the observation of its mock operations as before (o_post = what the plugin's check delivered),
   whether its own check failed, and TestResult::getFailureCount() when the test ended *)
Record tobs := { to_obs : obs; to_own : bool; to_total : N }.
Definition post_effect (fs : list failure) : effect := {| r_ret := None; r_outs := []; r_left := None; r_post := fs |}.
Definition left_world (e : bend) : option world := match e with BDone w | BOwn w => Some w | BMock _ _ => None end.
Definition body_failed (e : bend) : bool := match e with BDone _ => false | _ => true end.

(* UtestShell::runOneTestInCurrentProcess with the plugin installed *)
Definition run_one (pl : plugin_t) (fx : bool) (st : rstate) (t : test) : rstate * tobs :=
  let (e, a) := body_from fx (rs_world st) 0%N t acc0 in
  let n1 := (rs_failures st + (if body_failed e then 1 else 0))%N in      (* UtestShell::addFailure -> TestResult::addFailure *)
  let (w', fs) := pl (body_failed e) n1 (left_world e) in
  let n2 := (n1 + N.of_nat (length fs))%N in                              (* MockSupportPluginReporter::failTest = result.addFailure *)
  ({| rs_world := w'; rs_failures := n2 |},
   {| to_obs := mk_obs (match e with BMock i fl => Some (i, fl) | _ => None end) (add_effect a (post_effect fs));
      to_own := match e with BOwn _ => true | _ => false end;
      to_total := n2 |}).
(* TestRegistry::runAllTests: every test in turn *)
Fixpoint run_tests (pl : plugin_t) (fx : bool) (st : rstate) (ts : list test) : rstate * list tobs :=
  match ts with
  | [] => (st, [])
  | t :: r => let (st1, o) := run_one pl fx st t in let (st2, os) := run_tests pl fx st1 r in (st2, o :: os)
  end.
Definition runs_gen (pl : plugin_t) (ts : list test) : list tobs := snd (run_tests pl true rstate0 ts).
Definition runs : list test -> list tobs := runs_gen plugin_post.
(* one test run alone *)
Definition run_alone (t : test) : tobs := snd (run_one plugin_post true rstate0 t).

(* --- the property over a run, model-free: the verdict of test k is the verdict of ITS mock script and of nothing else.
   A test whose own checks all pass is judged as the single scenario "its mock operations, then the plugin's end-of-test check"
   (specw: passes iff the multisets / sequences agree in every scope, first deviation once with the matching diagnosis, values of
   the consumed expectations) -- whatever the tests before it did; a test that is left at its own failing check fails exactly once,
   with that check (the mock script was cut short: nothing is demanded of the expectations it leaves, and nothing may be added);
   every failure delivered in a test is counted once in the run's failure counter, in that test. *)
Fixpoint ops_before (t : test) : list (N * op) :=      (* the mock operations before the first failing own check *)
  match t with
  | [] => []
  | TOp so :: r => so :: ops_before r
  | TCheck true :: r => ops_before r
  | TCheck false :: _ => []
  end.
Definition own_fails (t : test) : bool := existsb (fun s => match s with TCheck false => true | _ => false end) t.
Definition failures_in (o : tobs) : N :=
  ((if to_own o then 1 else 0) + (match o_fail (to_obs o) with Some _ => 1 | None => 0 end) + N.of_nat (length (o_post (to_obs o))))%N.
Definition spec_test (t : test) (prev : N) (o : tobs) : bool :=
  (to_total o =? prev + failures_in o)%N &&
  if own_fails t then
    coherent (ops_before t) (to_obs o) && is_nil (o_post (to_obs o)) &&
    match o_fail (to_obs o) with
    | Some (i, _) => negb (to_own o) && (i <? N.of_nat (length (ops_before t)))%N    (* a mock failure came first *)
    | None => to_own o
    end
  else negb (to_own o) && specw (ops_before t ++ [(0%N, OPost)]) (to_obs o).
Fixpoint spec_run_from (prev : N) (ts : list test) (os : list tobs) : bool :=
  match ts, os with
  | [], [] => true
  | t :: tr, o :: or => spec_test t prev o && spec_run_from (to_total o) tr or
  | _, _ => false
  end.
Definition spec_run : list test -> list tobs -> bool := spec_run_from 0%N.

(* validity of a run: values as before; the end-of-test action is the plugin's, a test body does not call it itself *)
Definition step_valid (s : tstep) : bool :=
  match s with
  | TOp (_, OPost) => false
  | TOp (_, o) => op_valid o
  | TCheck _ => true
  end.
Definition valid_run (ts : list test) : bool := forallb (forallb step_valid) ts.

(* --- both kinds of scenario under one roof *)
Inductive scenario := SOps (ops : list (N * op)) | SRun (ts : list test).
Inductive sobs := BOps (o : obs) | BRun (os : list tobs).
Definition run_top (s : scenario) : sobs := match s with SOps ops => BOps (runw ops) | SRun ts => BRun (runs ts) end.
Definition spec_top (s : scenario) (o : sobs) : bool :=
  match s, o with
  | SOps ops, BOps o => specw ops o
  | SRun ts, BRun os => spec_run ts os
  | _, _ => false
  end.
Definition valid_top (s : scenario) : bool := match s with SOps ops => valid ops | SRun ts => valid_run ts end.

(* --- variants of the plugin's post action that do NOT have the property (refuted in C08_Runs.v) *)
(* decides from the run's failure count instead of the test's own flag *)
Definition plugin_runwide : plugin_t := fun _ n ow =>
  (world0, match (n =? 0)%N, ow with true, Some w => post_world w | _, _ => [] end).
(* makes the check also when the test has already failed *)
Definition plugin_always : plugin_t := fun _ _ ow =>
  (world0, match ow with Some w => post_world w | None => [] end).
(* clears the mock only after a check was made: what a failed test leaves reaches the next test *)
Definition plugin_noclear : plugin_t := fun failed _ ow =>
  match failed, ow with
  | false, Some w => (world0, post_world w)
  | _, Some w => (w, [])
  | _, None => (world0, [])
  end.
