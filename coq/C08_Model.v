(* C08 -- executable mirror (layer L) of the mock matching machinery:
     src/CppUTestExt/MockSupport.cpp          (expectNCalls, actualCall, checkExpectations, clear, strictOrder, ignoreOtherCalls)
     src/CppUTestExt/MockActualCall.cpp       (MockCheckedActualCall: withName, checkInputParameter, completeCallWhenMatchIsFound,
                                               discardCurrentlyMatchingExpectations, checkExpectations, returnValue)
     src/CppUTestExt/MockExpectedCall.cpp     (MockCheckedExpectedCall: flags, counters, call-order window, callWasMade, reset)
     src/CppUTestExt/MockExpectedCallsList.cpp (pruning primitives)
     src/CppUTestExt/MockFailure.cpp          (which failure, which expectations it lists)
   Core fragment: expectOneCall/expectNCalls with typed input parameters, andReturnValue, ignoreOtherParameters, actualCall +
   withParameter + returnValue, checkExpectations, clear, strictOrder, ignoreOtherCalls.  Not yet: onObject, output parameters,
   custom comparators, scopes, enable/disable, tracing.

   Representation.  expectations_ is a list that is only ever appended to.  potentiallyMatchingExpectations_ of the call in
   progress is built by one in-order pass over expectations_ and afterwards only shrinks through pruning passes, so it is always
   an in-order sub-list of expectations_; it is represented by the membership bit e_pot on each expectation ("first in the list"
   = first with the bit).  matchingExpectation_ (a pointer into the same objects) is the bit e_cur.  Every loop of the source is one
   `map` here, in the same order.  A scenario stops at its first failure (the reporter leaves the test), so every operation
   returns either the next state or the failure.

   The parameter `fx` selects the code after (true) / before (false) the repair `fix: a new actual call starts from a clean
   matching state` (MockCheckedActualCall constructor resets the candidates' matching flags); see run_old and C08_Proofs. *)
From Coq Require Import ZArith NArith Bool List.
From CppUVerif Require Import lib.CInt lib.Str.
Import ListNotations.

Definition name := N.   (* function / parameter names: the harness uses the strings "f<hex>" / "p<hex>" *)

(* typed parameter / return values of the core fragment *)
Inductive pv := PBool (b : bool) | PInt (t : ity) (z : Z) | PStr (s : list N) | PPtr (a : Z).

Definition pv_valid (v : pv) : bool :=
  match v with
  | PInt t z => in_range t z
  | PStr s => negb (existsb (N.eqb 0) s)
  | PPtr a => (0 <=? a)%Z && (a <? 18446744073709551616)%Z
  | PBool _ => true
  end.

(* MockNamedValue::equals restricted to these kinds: integers of any two types by mathematical value (this is theorem
   C09_int_equal_iff about the branch-for-branch model of equals; restated as veq_is_C09_equals in C08_Proofs), the other kinds
   by tag and content *)
Definition veq (a b : pv) : bool :=
  match a, b with
  | PBool x, PBool y => Bool.eqb x y
  | PInt _ x, PInt _ y => (x =? y)%Z
  | PStr x, PStr y => bytes_eqb x y
  | PPtr x, PPtr y => (x =? y)%Z
  | _, _ => false
  end.

(* exact equality incl. the integer type: used for returned values *)
Definition pv_eqb (a b : pv) : bool :=
  match a, b with
  | PInt t x, PInt u y => ity_eqb t u && (x =? y)%Z
  | _, _ => veq a b
  end.

(* ---------------------------------------------------------------- expectations *)
Record param := { p_name : name; p_val : pv; p_flag : bool (* matchesActualCall_ *) }.

Record expn := {
  e_name : name;
  e_params : list param;      (* inputParameters_, in the order they were added *)
  e_ign : bool;               (* ignoreOtherParameters_ *)
  e_fin : bool;               (* isActualCallMatchFinalized_ *)
  e_lo : N; e_hi : N;         (* initial/finalExpectedCallOrder_; e_lo = 0 is NO_EXPECTED_CALL_ORDER *)
  e_ooo : bool;               (* outOfOrder_ *)
  e_ret : option pv;          (* returnValue_; None = its name is "" (no return value set) *)
  e_act : N; e_exp : N;       (* actualCalls_, expectedCalls_ *)
  e_pot : bool;               (* member of the current call's potentiallyMatchingExpectations_ *)
  e_cur : bool                (* is the current call's matchingExpectation_ *)
}.

Definition set_params (e : expn) (ps : list param) : expn :=
  {| e_name := e_name e; e_params := ps; e_ign := e_ign e; e_fin := e_fin e; e_lo := e_lo e; e_hi := e_hi e; e_ooo := e_ooo e;
     e_ret := e_ret e; e_act := e_act e; e_exp := e_exp e; e_pot := e_pot e; e_cur := e_cur e |}.
Definition set_fin (e : expn) (b : bool) : expn :=
  {| e_name := e_name e; e_params := e_params e; e_ign := e_ign e; e_fin := b; e_lo := e_lo e; e_hi := e_hi e; e_ooo := e_ooo e;
     e_ret := e_ret e; e_act := e_act e; e_exp := e_exp e; e_pot := e_pot e; e_cur := e_cur e |}.
Definition set_pot (e : expn) (b : bool) : expn :=
  {| e_name := e_name e; e_params := e_params e; e_ign := e_ign e; e_fin := e_fin e; e_lo := e_lo e; e_hi := e_hi e; e_ooo := e_ooo e;
     e_ret := e_ret e; e_act := e_act e; e_exp := e_exp e; e_pot := b; e_cur := e_cur e |}.
Definition set_cur (e : expn) (b : bool) : expn :=
  {| e_name := e_name e; e_params := e_params e; e_ign := e_ign e; e_fin := e_fin e; e_lo := e_lo e; e_hi := e_hi e; e_ooo := e_ooo e;
     e_ret := e_ret e; e_act := e_act e; e_exp := e_exp e; e_pot := e_pot e; e_cur := b |}.
Definition set_count (e : expn) (act : N) (ooo : bool) : expn :=
  {| e_name := e_name e; e_params := e_params e; e_ign := e_ign e; e_fin := e_fin e; e_lo := e_lo e; e_hi := e_hi e; e_ooo := ooo;
     e_ret := e_ret e; e_act := act; e_exp := e_exp e; e_pot := e_pot e; e_cur := e_cur e |}.

Definition set_flag (p : param) (b : bool) : param := {| p_name := p_name p; p_val := p_val p; p_flag := b |}.

(* MockCheckedExpectedCall *)
Definition relates (f : name) (e : expn) : bool := (e_name e =? f)%N.
Definition is_fulfilled (e : expn) : bool := (e_act e =? e_exp e)%N.
Definition can_match (e : expn) : bool := (e_act e <? e_exp e)%N.
Definition params_matching (e : expn) : bool := forallb p_flag (e_params e).          (* areParametersMatchingActualCall *)
Definition is_matching (e : expn) : bool := params_matching e.                        (* && wasPassedToObject_ (always true here) *)
Definition is_matching_fin (e : expn) : bool := is_matching e && (negb (e_ign e) || e_fin e).
Definition reset_e (e : expn) : expn :=                                               (* resetActualCallMatchingState *)
  set_fin (set_params e (map (fun p => set_flag p false) (e_params e))) false.
Definition find_param (n : name) (ps : list param) : option param := find (fun p => (p_name p =? n)%N) ps.   (* getValueByName *)
Definition has_input_name (n : name) (e : expn) : bool :=
  match find_param n (e_params e) with Some _ => true | None => false end.
Definition has_input (n : name) (v : pv) (e : expn) : bool :=                         (* hasInputParameter *)
  match find_param n (e_params e) with Some q => veq (p_val q) v | None => e_ign e end.
Definition mark (n : name) (e : expn) : expn :=                                       (* inputParameterWasPassed *)
  set_params e (map (fun p => if (p_name p =? n)%N then set_flag p true else p) (e_params e)).
Definition call_was_made (order : N) (e : expn) : expn :=                             (* callWasMade *)
  let ooo := if negb (e_lo e =? 0)%N && ((order <? e_lo e)%N || (e_hi e <? order)%N) then true else e_ooo e in
  reset_e (set_count e (e_act e + 1)%N ooo).

(* MockExpectedCallsList: the list object is the set of expectations with e_pot *)
Definition drop (e : expn) : expn := set_pot e false.
Definition keep_if (pred : expn -> bool) (es : list expn) : list expn :=              (* onlyKeepExpectations... + prune *)
  map (fun e => if e_pot e && negb (pred e) then drop e else e) es.
Definition pot_empty (es : list expn) : bool := negb (existsb e_pot es).               (* isEmpty *)
Definition only_keep_unmatching (es : list expn) : list expn :=                        (* onlyKeepUnmatchingExpectations *)
  map (fun e => if e_pot e && is_matching_fin e then drop (reset_e e) else e) es.
Definition for_pot (f : expn -> expn) (es : list expn) : list expn :=                  (* parameterWasPassed / reset... over the list *)
  map (fun e => if e_pot e then f e else e) es.
Definition for_cur (f : expn -> expn) (es : list expn) : list expn :=
  map (fun e => if e_cur e then f e else e) es.
(* removeFirst...: the first member satisfying pred leaves the list and becomes matchingExpectation_ (after g) *)
Fixpoint take_first (pred : expn -> bool) (g : expn -> expn) (es : list expn) : option (list expn) :=
  match es with
  | [] => None
  | e :: r => if e_pot e && pred e then Some (g (set_cur (drop e) true) :: r)
              else match take_first pred g r with Some r' => Some (e :: r') | None => None end
  end.

(* ---------------------------------------------------------------- failures *)
Inductive fkind :=
| FUnexpectedCall (f : name)                 (* "Unexpected call to function: f" *)
| FAdditionalCall (f : name) (nth : N)       (* "Unexpected additional (nth) call to function: f" *)
| FParamName (f p : name)                    (* "Unexpected parameter name to function "f": p" *)
| FParamValue (f p : name)                   (* "Unexpected parameter value to parameter "p" to function "f"" *)
| FParamMissing (f : name) (listed : N)      (* "Expected parameter for function "f" did not happen"; number of candidates listed *)
| FObjectMissing (f : name)                  (* "Expected call on object for function ... did not happen" *)
| FNotFulfilled                              (* "Expected call WAS NOT fulfilled" *)
| FOutOfOrder                                (* "Out of order calls" *)
| FCannotHappen.                             (* the FAIL("... This cannot happen.") of checkExpectations *)
(* the expectations the message lists: (expected, called) of the not fulfilled ones, then of the fulfilled ones *)
Record failure := { f_kind : fkind; f_unf : list (N * N); f_ful : list (N * N) }.

Definition counts (e : expn) : N * N := (e_exp e, e_act e).
Definition history (es : list expn) (k : fkind) : failure :=                           (* addExpectationsAndCallHistory *)
  {| f_kind := k; f_unf := map counts (filter (fun e => negb (is_fulfilled e)) es); f_ful := map counts (filter is_fulfilled es) |}.
Definition history_related (f : name) (es : list expn) (k : fkind) : failure :=        (* ...RelatedTo *)
  history (filter (relates f) es) k.

(* ---------------------------------------------------------------- the actual call in progress *)
Inductive cstate := InProgress | Succeeded | Failed.
Record acall := { c_name : name; c_order : N; c_state : cstate; c_checked : bool }.
Definition set_state (c : acall) (s : cstate) : acall :=
  {| c_name := c_name c; c_order := c_order c; c_state := s; c_checked := c_checked c |}.
Definition set_checked (c : acall) : acall :=
  {| c_name := c_name c; c_order := c_order c; c_state := c_state c; c_checked := true |}.

Definition res (A : Type) := (A + failure)%type.

(* completeCallWhenMatchIsFound (output parameters are not in this fragment) *)
Definition complete (es : list expn) (c : acall) : list expn * acall :=
  match take_first is_matching_fin (fun e => e) es with
  | Some es' => (es', set_state c Succeeded)
  | None => (es, c)
  end.

Definition fulfilled_for (f : name) (es : list expn) : N :=                            (* amountOfActualCallsFulfilledFor *)
  fold_right (fun e a => if relates f e then (e_act e + a)%N else a) 0%N es.

(* MockCheckedActualCall::withName *)
Definition with_name (es : list expn) (c : acall) : res (list expn * acall) :=
  let c := set_state c InProgress in
  let es := keep_if (relates (c_name c)) es in
  if pot_empty es then
    let n := fulfilled_for (c_name c) es in
    inr (history es (if (0 <? n)%N then FAdditionalCall (c_name c) (n + 1)%N else FUnexpectedCall (c_name c)))
  else inl (complete es c).

(* discardCurrentlyMatchingExpectations *)
Definition discard (es : list expn) : list expn :=
  only_keep_unmatching (for_cur (fun e => set_cur (reset_e e) false) es).

(* MockCheckedActualCall::checkInputParameter (hasFailed() is never true here: the scenario stopped) *)
Definition check_input (n : name) (v : pv) (es : list expn) (c : acall) : res (list expn * acall) :=
  let c := set_state c InProgress in
  let es := discard es in
  let es := keep_if (has_input n v) es in
  if pot_empty es then
    inr (history_related (c_name c) es
           (if existsb (fun e => relates (c_name c) e && has_input_name n e) es then FParamValue (c_name c) n else FParamName (c_name c) n))
  else inl (complete (for_pot (mark n) es) c).

(* MockCheckedActualCall::checkExpectations.  matchingExpectation_ (e_cur) stays set until the call object is deleted. *)
Definition check_call (es : list expn) (c : acall) : res (list expn * acall) :=
  if c_checked c then inl (es, c) else
  let c := set_checked c in
  match c_state c with
  | Succeeded => inl (for_pot reset_e (for_cur (call_was_made (c_order c)) es), c)
  | Failed => inl (for_pot reset_e es, c)
  | InProgress =>
      if existsb (fun e => e_pot e && is_matching_fin e) es then inr (history es FCannotHappen)
      else match take_first is_matching (fun e => call_was_made (c_order c) (set_fin e true)) es with
           | Some es' => inl (for_pot reset_e es', set_state c Succeeded)
           | None =>
               if existsb (fun e => e_pot e && negb (params_matching e)) es
               then inr (history_related (c_name c) es (FParamMissing (c_name c) (N.of_nat (length (filter e_pot es)))))
               else inr (history_related (c_name c) es (FObjectMissing (c_name c)))
           end
  end.

(* ---------------------------------------------------------------- MockSupport *)
Record mock := {
  m_exps : list expn;
  m_aorder : N; m_eorder : N;          (* actualCallOrder_, expectedCallOrder_ *)
  m_strict : bool; m_ignore : bool;    (* strictOrdering_, ignoreOtherCalls_ *)
  m_last : option acall                (* lastActualFunctionCall_ *)
}.
Definition mock0 : mock :=
  {| m_exps := []; m_aorder := 0; m_eorder := 0; m_strict := false; m_ignore := false; m_last := None |}.
Definition with_exps (m : mock) (es : list expn) (last : option acall) : mock :=
  {| m_exps := es; m_aorder := m_aorder m; m_eorder := m_eorder m; m_strict := m_strict m; m_ignore := m_ignore m; m_last := last |}.

(* MockCheckedActualCall::returnValue after checkExpectations: the matching expectation's returnValue_ *)
Definition cur_ret (es : list expn) : option pv :=
  match find e_cur es with Some e => e_ret e | None => None end.

(* lastActualFunctionCall_->checkExpectations() *)
Definition finish_last (m : mock) : res mock :=
  match m_last m with
  | None => inl m
  | Some c => match check_call (m_exps m) c with
              | inr f => inr f
              | inl (es, c') => inl (with_exps m es (Some c'))
              end
  end.

(* MockSupport::expectNCalls(n, f).withParameter(..)...andReturnValue(..)[.ignoreOtherParameters()] *)
Definition expect (m : mock) (n : N) (f : name) (ps : list (name * pv)) (ret : option pv) (ign : bool) : mock :=
  let lo := if m_strict m then (m_eorder m + 1)%N else 0%N in
  let hi := if m_strict m then (m_eorder m + n)%N else 0%N in
  let e := {| e_name := f; e_params := map (fun q => {| p_name := fst q; p_val := snd q; p_flag := false |}) ps; e_ign := ign;
              e_fin := false; e_lo := lo; e_hi := hi; e_ooo := false; e_ret := ret; e_act := 0; e_exp := n;
              e_pot := false; e_cur := false |} in
  {| m_exps := m_exps m ++ [e]; m_aorder := m_aorder m; m_eorder := if m_strict m then (m_eorder m + n)%N else m_eorder m;
     m_strict := m_strict m; m_ignore := m_ignore m; m_last := m_last m |}.

(* MockCheckedActualCall constructor: addPotentiallyMatchingExpectations (+ since the repair: reset of the candidates) *)
Definition create (fx : bool) (es : list expn) : list expn :=
  map (fun e => let e := set_cur e false in
                if can_match e then set_pot (if fx then reset_e e else e) true else set_pot e false) es.

Fixpoint with_params (ps : list (name * pv)) (es : list expn) (c : acall) : res (list expn * acall) :=
  match ps with
  | [] => inl (es, c)
  | (n, v) :: r => match check_input n v es c with
                   | inr f => inr f
                   | inl (es', c') => with_params r es' c'
                   end
  end.

(* MockSupport::actualCall(f).withParameter(..)... [; hasReturnValue() ? returnValue() : none]
   result: the new state and, when the return value is asked for, what was returned *)
Definition actual_call (fx : bool) (m : mock) (f : name) (ps : list (name * pv)) (want : bool) : res (mock * option (option pv)) :=
  match finish_last m with
  | inr fl => inr fl
  | inl m =>
      let m := with_exps m (m_exps m) None in                            (* delete lastActualFunctionCall_ *)
      if m_ignore m && negb (existsb (relates f) (m_exps m))             (* callIsIgnored -> MockIgnoredActualCall *)
      then inl (m, if want then Some None else None)
      else
        let order := (m_aorder m + 1)%N in
        let c := {| c_name := f; c_order := order; c_state := Succeeded; c_checked := false |} in
        let m := {| m_exps := m_exps m; m_aorder := order; m_eorder := m_eorder m; m_strict := m_strict m; m_ignore := m_ignore m;
                    m_last := None |} in
        match with_name (create fx (m_exps m)) c with
        | inr fl => inr fl
        | inl (es, c) =>
            match with_params ps es c with
            | inr fl => inr fl
            | inl (es, c) =>
                let m := with_exps m es (Some c) in
                if want then
                  match finish_last m with                              (* returnValue() -> checkExpectations() *)
                  | inr fl => inr fl
                  | inl m => inl (m, Some (cur_ret (m_exps m)))
                  end
                else inl (m, None)
            end
        end
  end.

(* MockSupport::checkExpectations *)
Definition check_expectations (m : mock) : res mock :=
  match finish_last m with
  | inr fl => inr fl
  | inl m =>
      let last_ok := match m_last m with None => true | Some c => match c_state c with Succeeded => true | _ => false end end in
      if last_ok && existsb (fun e => negb (is_fulfilled e)) (m_exps m) then inr (history (m_exps m) FNotFulfilled)
      else if existsb e_ooo (m_exps m) then inr (history (filter e_ooo (m_exps m)) FOutOfOrder)
      else inl m
  end.

(* ---------------------------------------------------------------- scenarios *)
Inductive op :=
| OExpect (n : N) (f : name) (ps : list (name * pv)) (ret : option pv) (ign : bool)
| OCall (f : name) (ps : list (name * pv)) (want : bool)
| OCheck | OClear | OStrict | OIgnoreOtherCalls.

Definition step (fx : bool) (m : mock) (o : op) : res (mock * option (option pv)) :=
  match o with
  | OExpect n f ps ret ign => inl (expect m n f ps ret ign, None)
  | OCall f ps want => actual_call fx m f ps want
  | OCheck => match check_expectations m with inr fl => inr fl | inl m => inl (m, None) end
  | OClear => inl (mock0, None)
  | OStrict => inl ({| m_exps := m_exps m; m_aorder := m_aorder m; m_eorder := m_eorder m; m_strict := true; m_ignore := m_ignore m;
                       m_last := m_last m |}, None)
  | OIgnoreOtherCalls => inl ({| m_exps := m_exps m; m_aorder := m_aorder m; m_eorder := m_eorder m; m_strict := m_strict m;
                                 m_ignore := true; m_last := m_last m |}, None)
  end.

(* observation: the failing operation (index, failure) if any, and the values returned to the calls that asked *)
Record obs := { o_fail : option (N * failure); o_rets : list (option pv) }.

Fixpoint run_from (fx : bool) (m : mock) (i : N) (ops : list op) (rets : list (option pv)) : obs :=
  match ops with
  | [] => {| o_fail := None; o_rets := rev rets |}
  | o :: r => match step fx m o with
              | inr fl => {| o_fail := Some (i, fl); o_rets := rev rets |}
              | inl (m', rv) => run_from fx m' (i + 1)%N r (match rv with Some x => x :: rets | None => rets end)
              end
  end.

Definition run_gen (fx : bool) (ops : list op) : obs := run_from fx mock0 0%N ops [].
Definition run : list op -> obs := run_gen true.        (* the code as it is now *)
Definition run_old : list op -> obs := run_gen false.   (* before the repair *)

(* ---------------------------------------------------------------- step-1 sanity oracle (replaced by the real spec in C08_Spec) *)
Definition want_count (ops : list op) : nat :=
  length (filter (fun o => match o with OCall _ _ true => true | _ => false end) ops).
Definition spec0 (ops : list op) (o : obs) : bool :=
  Nat.leb (length (o_rets o)) (want_count ops) &&
  match o_fail o with Some (i, _) => (i <? N.of_nat (length ops))%N | None => true end.
