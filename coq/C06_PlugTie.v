(* C06 -- the hand-written pointer tables of C06_Plug.v ARE the source: gen/Gen_PlugC06.v is read from clang's AST of
   src/CppUTest/MemoryLeakWarningPlugin.cpp on every run (tools/gen/PlugC06.py): the static initialisers of the function-pointer
   variables, the assignments of the five switch functions in order, what every handler function calls, and the pointer every global
   entry point calls.  Here the names of the source are read as the slots / handlers / actions of the model and the tables are
   proved equal -- so a wiring slip in the source (a pointer assigned the function of another name, a handler given another
   current allocator, an entry point calling another pointer) breaks a lemma of this file by name. *)
From Coq Require Import String List Bool ZArith.
From CppUVerif Require Import C04_Model C06_Model C06_Plug gen.Gen_PlugC06.
Import ListNotations.
Local Open Scope string_scope.

(* ------------------------------------------------------------------ reading the names *)
Definition slot_names : list (string * slot) :=
  [("operator_new", SNew); ("operator_new_nothrow", SNewNothrow); ("operator_new_debug", SNewDebug);
   ("operator_new_array", SNewArr); ("operator_new_array_nothrow", SNewArrNothrow); ("operator_new_array_debug", SNewArrDebug);
   ("operator_delete", SDel); ("operator_delete_array", SDelArr); ("malloc", SMalloc); ("realloc", SRealloc); ("free", SFree)].
Definition all_slots : list slot := map snd slot_names.

Fixpoint assoc {A} (k : string) (l : list (string * A)) : option A :=
  match l with [] => None | (k', v) :: r => if String.eqb k k' then Some v else assoc k r end.

(* "<x>_fptr" / "saved_<x>_fptr" *)
Definition var_name (saved : bool) (s : slot) : string :=
  let base := match find (fun p => match snd p, s with
                                   | SNew, SNew | SNewNothrow, SNewNothrow | SNewDebug, SNewDebug | SNewArr, SNewArr
                                   | SNewArrNothrow, SNewArrNothrow | SNewArrDebug, SNewArrDebug | SDel, SDel | SDelArr, SDelArr
                                   | SMalloc, SMalloc | SRealloc, SRealloc | SFree, SFree => true | _, _ => false end) slot_names
              with Some p => fst p | None => "?" end in
  (if saved then "saved_" else "") ++ base ++ "_fptr".
(* "normal_<x>" / "mem_leak_<x>" / "threadsafe_mem_leak_<x>" *)
Definition fun_name (h : handler) : string :=
  let base := match find (fun p => String.eqb (var_name false (snd p)) (var_name false (snd h))) slot_names with Some p => fst p | None => "?" end in
  (match fst h with HNormal => "normal_" | HLeak => "mem_leak_" | HSafe => "threadsafe_mem_leak_" end) ++ base.

Definition slot_eqb (a b : slot) : bool := String.eqb (var_name false a) (var_name false b).
Definition hgroup_eqb (a b : hgroup) : bool := match a, b with HNormal, HNormal | HLeak, HLeak | HSafe, HSafe => true | _, _ => false end.
Definition handler_eqb (a b : handler) : bool := hgroup_eqb (fst a) (fst b) && slot_eqb (snd a) (snd b).

(* ------------------------------------------------------------------ 1. static initialisers *)
Definition init_ok (saved : bool) (w : wiring) : bool :=
  forallb (fun s => match assoc (var_name saved s) src_fptr_init with
                    | Some f => String.eqb f (fun_name (w s))
                    | None => false end) all_slots.
Lemma initial_wiring_is_the_source : init_ok false wire_initial = true /\ init_ok true wire_saved_initial = true.
Proof. split; vm_compute; reflexivity. Qed.
(* every function-pointer variable of the file is one of the 22 the model knows *)
Lemma no_other_pointer_variables :
  forallb (fun p => existsb (fun s => String.eqb (fst p) (var_name false s) || String.eqb (fst p) (var_name true s)) all_slots) src_fptr_init = true
  /\ length src_fptr_init = 22.
Proof. split; vm_compute; reflexivity. Qed.

(* ------------------------------------------------------------------ 2. the three turn... functions: eleven assignments, each pointer the function of its own name *)
Definition assigns_table (src : list (string * string)) (w : wiring) : bool :=
  Nat.eqb (length src) 11 &&
  forallb (fun s => match assoc (var_name false s) src with
                    | Some f => String.eqb f (fun_name (w s))
                    | None => false end) all_slots.
Lemma turnOff_is_the_source : assigns_table src_turnOffNewDeleteOverloads wire_off = true.
Proof. vm_compute; reflexivity. Qed.
Lemma turnOnDefault_is_the_source : assigns_table src_turnOnDefaultNotThreadSafeNewDeleteOverloads wire_default = true.
Proof. vm_compute; reflexivity. Qed.
Lemma turnOnThreadSafe_is_the_source : assigns_table src_turnOnThreadSafeNewDeleteOverloads wire_safe = true.
Proof. vm_compute; reflexivity. Qed.

(* ------------------------------------------------------------------ 3. save / restore: guard on the counter, eleven copies in the right direction, turnOff last *)
Definition save_shape : bool :=
  match src_saveAndDisableNewDeleteOverloads with
  | g :: rest =>
      String.eqb (fst g) "return-if" && String.eqb (snd g) "++save_counter > 1 return" &&
      Nat.eqb (length rest) 12 &&
      forallb (fun s => match assoc (var_name true s) rest with Some v => String.eqb v (var_name false s) | None => false end) all_slots &&
      match nth_error rest 11 with Some c => String.eqb (fst c) "call" && String.eqb (snd c) "turnOffNewDeleteOverloads" | None => false end
  | [] => false
  end.
Definition restore_shape : bool :=
  match src_restoreNewDeleteOverloads with
  | g :: rest =>
      String.eqb (fst g) "return-if" && String.eqb (snd g) "--save_counter > 0 return" &&
      Nat.eqb (length rest) 11 &&
      forallb (fun s => match assoc (var_name false s) rest with Some v => String.eqb v (var_name true s) | None => false end) all_slots
  | [] => false
  end.
Lemma save_restore_are_the_source : save_shape = true /\ restore_shape = true.
Proof. split; vm_compute; reflexivity. Qed.

(* what these shapes mean: one step of the model's switch machine.  Executing the extracted statement lists on a pair of tables
   (current, saved) and the counter gives sw_step -- stated on the model's own data, with the statement lists above as the program *)
Definition run_assigns (src : list (string * string)) (cur saved : wiring) : wiring * wiring :=
  fold_left (fun cs st =>
               let '(c, sv) := cs in
               match find (fun s => String.eqb (fst st) (var_name false s)) all_slots,
                     find (fun s => String.eqb (fst st) (var_name true s)) all_slots with
               | Some s, _ =>            (* <x>_fptr = ... *)
                   let v := match find (fun s' => String.eqb (snd st) (var_name true s')) all_slots with
                            | Some s' => sv s'                                     (* = saved_<y>_fptr *)
                            | None => match find (fun h => String.eqb (snd st) (fun_name h))
                                                 (flat_map (fun g => map (fun s' => (g, s')) all_slots) [HNormal; HLeak; HSafe]) with
                                      | Some h => h | None => c s end end in
                   ((fun t => if slot_eqb t s then v else c t), sv)
               | None, Some s =>         (* saved_<x>_fptr = <y>_fptr *)
                   let v := match find (fun s' => String.eqb (snd st) (var_name false s')) all_slots with Some s' => c s' | None => sv s end in
                   (c, (fun t => if slot_eqb t s then v else sv t))
               | None, None => cs        (* the guard and the call are handled by the caller *)
               end) src (cur, saved).
Definition tables_eqb (a b : wiring) : bool := forallb (fun s => handler_eqb (a s) (b s)) all_slots.

Lemma save_runs_as_sw_step : forall g1 g2 : hgroup,      (* for every pair of uniform tables (all that the switches can produce) *)
  let cur := fun s => (g1, s) in let sav := fun s => (g2, s) in
  let '(c1, s1) := run_assigns src_saveAndDisableNewDeleteOverloads cur sav in
  let '(c2, _) := run_assigns src_turnOffNewDeleteOverloads c1 s1 in
  let o := sw_step (mkOv cur sav 0%Z) SwSave in
  tables_eqb c2 (ov_cur o) = true /\ tables_eqb s1 (ov_saved o) = true.
Proof. intros g1 g2; destruct g1, g2; vm_compute; split; reflexivity. Qed.
Lemma restore_runs_as_sw_step : forall g1 g2 : hgroup,
  let cur := fun s => (g1, s) in let sav := fun s => (g2, s) in
  let '(c1, s1) := run_assigns src_restoreNewDeleteOverloads cur sav in
  let o := sw_step (mkOv cur sav 1%Z) SwRestore in
  tables_eqb c1 (ov_cur o) = true /\ tables_eqb s1 (ov_saved o) = true.
Proof. intros g1 g2; destruct g1, g2; vm_compute; split; reflexivity. Qed.

(* ------------------------------------------------------------------ 4. what every handler does *)
Definition getter_of (f : fam) : string :=
  match f with FNew => "getCurrentNewAllocator" | FArr => "getCurrentNewArrayAllocator" | FMal => "getCurrentMallocAllocator" end.
Definition calls_of_action (a : action) (platform : string) : list (string * string) :=
  match a with
  | AUntracked => [(platform, "")]
  | AAlloc f => [("allocMemory", getter_of f)]
  | ARelease f => [("invalidateMemory", ""); ("deallocMemory", getter_of f)]
  | ARealloc f => [("reallocMemory", getter_of f)]
  end.
Definition platform_of (s : slot) : string :=
  match s with SDel | SDelArr | SFree => "PlatformSpecificFree" | SRealloc => "PlatformSpecificRealloc" | _ => "PlatformSpecificMalloc" end.
Definition pair_eqb (a b : string * string) : bool := String.eqb (fst a) (fst b) && String.eqb (snd a) (snd b).
Fixpoint list_eqb {A} (e : A -> A -> bool) (a b : list A) : bool :=
  match a, b with [] , [] => true | x :: r, y :: t => e x y && list_eqb e r t | _, _ => false end.
Definition handler_ok (h : handler) : bool :=
  match assoc (fun_name h) src_handlers with
  | Some (lock, calls) =>
      Bool.eqb lock (match fst h with HSafe => true | _ => false end) &&
      list_eqb pair_eqb (map (fun c => (fst (fst c), snd (fst c))) calls) (calls_of_action (handler_act h) (platform_of (snd h)))
  | None => false
  end.
Lemma handlers_are_the_source :
  forallb handler_ok (flat_map (fun g => map (fun s => (g, s)) all_slots) [HNormal; HLeak; HSafe]) = true /\ length src_handlers = 33.
Proof. split; vm_compute; reflexivity. Qed.
(* the malloc family keeps its records apart (the last argument `true`), the new / new[] families keep them in the block *)
Lemma separate_records_iff_malloc_family :
  forallb (fun hc => let '(name, (_, calls)) := hc in
                     forallb (fun c => let '(m, g, sep) := c in
                                       if String.eqb g "getCurrentMallocAllocator" then String.eqb sep "true" else String.eqb sep "") calls) src_handlers = true.
Proof. vm_compute; reflexivity. Qed.

(* ------------------------------------------------------------------ 5. the pointer every global entry point calls *)
Definition aform_sig (f : aform) : option string :=
  match f with
  | ANew => Some "operator new(size_t)" | ANewNothrow => Some "operator new(size_t, const std::nothrow_t &)"
  | ANewFileInt => Some "operator new(size_t, const char *, int)" | ANewFileSize => Some "operator new(size_t, const char *, size_t)"
  | AArr => Some "operator new[](size_t)" | AArrNothrow => Some "operator new[](size_t, const std::nothrow_t &)"
  | AArrFileInt => Some "operator new[](size_t, const char *, int)" | AArrFileSize => Some "operator new[](size_t, const char *, size_t)"
  | AMalloc | AMallocLoc | ACalloc | AStrdup | AStrndup => Some "cpputest_malloc_location_with_leak_detection(size_t, const char *, size_t)"
  end.
Definition rform_sig (f : rform) : option string :=
  match f with
  | RDel => Some "operator delete(void *)" | RDelSized => Some "operator delete(void *, size_t)"
  | RDelNothrow => Some "operator delete(void *, const std::nothrow_t &)" | RDelFileInt => Some "operator delete(void *, const char *, int)"
  | RDelFileSize => Some "operator delete(void *, const char *, size_t)"
  | RArr => Some "operator delete[](void *)" | RArrSized => Some "operator delete[](void *, size_t)"
  | RArrNothrow => Some "operator delete[](void *, const std::nothrow_t &)" | RArrFileInt => Some "operator delete[](void *, const char *, int)"
  | RArrFileSize => Some "operator delete[](void *, const char *, size_t)"
  | RFree | RFreeLoc => Some "cpputest_free_location_with_leak_detection(void *, const char *, size_t)"
  end.
Definition all_aforms := [ANew; ANewNothrow; ANewFileInt; ANewFileSize; AArr; AArrNothrow; AArrFileInt; AArrFileSize; AMalloc; AMallocLoc; ACalloc; AStrdup; AStrndup].
Definition all_rforms := [RDel; RDelSized; RDelNothrow; RDelFileInt; RDelFileSize; RArr; RArrSized; RArrNothrow; RArrFileInt; RArrFileSize; RFree; RFreeLoc].
Definition entry_ok (sig : option string) (s : slot) : bool :=
  match sig with Some g => match assoc g src_entry_points with Some v => String.eqb v (var_name false s) | None => false end | None => false end.
Lemma entry_points_are_the_source :
  forallb (fun f => entry_ok (aform_sig f) (aform_slot f)) all_aforms = true /\
  forallb (fun f => entry_ok (rform_sig f) (rform_slot f)) all_rforms = true /\
  entry_ok (Some "cpputest_realloc_location_with_leak_detection(void *, size_t, const char *, size_t)") SRealloc = true /\
  length src_entry_points = 21.
Proof. repeat split; vm_compute; reflexivity. Qed.

(* ------------------------------------------------------------------ the whole wiring *)
Theorem plugin_wiring_is_the_source :
  init_ok false wire_initial = true /\ init_ok true wire_saved_initial = true /\
  assigns_table src_turnOffNewDeleteOverloads wire_off = true /\
  assigns_table src_turnOnDefaultNotThreadSafeNewDeleteOverloads wire_default = true /\
  assigns_table src_turnOnThreadSafeNewDeleteOverloads wire_safe = true /\
  save_shape = true /\ restore_shape = true /\
  forallb handler_ok (flat_map (fun g => map (fun s => (g, s)) all_slots) [HNormal; HLeak; HSafe]) = true /\
  forallb (fun f => entry_ok (aform_sig f) (aform_slot f)) all_aforms = true /\
  forallb (fun f => entry_ok (rform_sig f) (rform_slot f)) all_rforms = true.
Proof.
  destruct initial_wiring_is_the_source as [A B]. destruct save_restore_are_the_source as [C D].
  destruct handlers_are_the_source as [E _]. destruct entry_points_are_the_source as [F [G _]].
  repeat split; try assumption;
    first [exact turnOff_is_the_source | exact turnOnDefault_is_the_source | exact turnOnThreadSafe_is_the_source].
Qed.

(* a wiring slip is seen: the table of seeded change C04-9 (nothrow array new wired to the scalar nothrow handler) is rejected *)
Example a_wiring_slip_is_rejected :
  assigns_table (map (fun p => if String.eqb (fst p) "operator_new_array_nothrow_fptr" then (fst p, "mem_leak_operator_new_nothrow") else p)
                     src_turnOnDefaultNotThreadSafeNewDeleteOverloads) wire_default = false.
Proof. vm_compute; reflexivity. Qed.
