(* C13 -- proofs for the life-cycle scenarios of C13_Life.v: repeat-constructor and padStringsToSameLength are Ok (memory-safe,
   terminating) and return the textbook value; the pairing verdict of every scenario is true; closure of the well-formed byte
   strings (OKS) under the textbook functions.  The operation SEQUENCES are proved in C13_Chain.v. *)
From Coq Require Import NArith ZArith Bool List Lia ZifyBool.
From CppUVerif Require Import lib.Str C13_Text C13_Alloc C13_Model C13_Proofs C13_Replace C13_Printable C13_Concat C13_Atoi C13_Main
                              C13_Pool C13_PoolProofs C13_Life.
Import ListNotations.
Local Open Scope N_scope.

(* ---------------- SimpleString(const char* other, size_t repeatCount) *)
Lemma repeat_loop_ok s r : NN s -> forall k pre rest, length rest = (length s * k + 1)%nat ->
  repeat_loop (pre ++ rest) (length pre) (s ++ 0 :: r) (length s) k = Ok (pre ++ t_concat_rep s k ++ [0]).
Proof.
  intro Hs. induction k as [|k IH]; intros pre rest L.
  - cbn [repeat_loop t_concat_rep app]. destruct rest as [|x rest]; [cbn in L; lia|]. destruct rest; [|cbn [length] in L; lia].
    apply wr_mid.
  - cbn [repeat_loop t_concat_rep]. unfold StrNCpy. cbn [Nat.eqb].
    rewrite <- (firstn_skipn (S (length s)) rest) at 1.
    rewrite (StrNCpy_loop_ok (S (length s)) s r pre (firstn (S (length s)) rest) (skipn (S (length s)) rest));
      [| lia | assumption | rewrite firstn_length; lia].
    cbn [bind]. rewrite firstn_length. replace (Nat.min (S (length s)) (length rest)) with (S (length s)) by lia.
    replace (firstn (S (length s)) (s ++ [0])) with (s ++ [0]) by (rewrite firstn_all2; [reflexivity | rewrite app_length; cbn; lia]).
    replace (pre ++ (s ++ [0]) ++ skipn (S (length s)) rest) with ((pre ++ s) ++ 0 :: skipn (S (length s)) rest)
      by (rewrite <- !app_assoc; reflexivity).
    replace (length pre + length s)%nat with (length (pre ++ s)) by (rewrite app_length; reflexivity).
    rewrite IH by (cbn [length]; rewrite skipn_length; lia). rewrite <- !app_assoc. reflexivity.
Qed.
Lemma newRepeat_ok s r k : NN s -> newRepeat (s ++ 0 :: r) k = Ok (t_concat_rep s k ++ [0]).
Proof.
  intro Hs. unfold newRepeat. rewrite StrLen_ok by assumption. cbn [bind].
  replace (length s * k + 1)%nat with (S (length s * k)) by lia. change (fresh (S (length s * k))) with (205 :: fresh (length s * k)).
  pose proof (wr_mid [] 205 (fresh (length s * k)) 0) as W. cbn [app length] in W. rewrite W. cbn [bind].
  apply (repeat_loop_ok s r Hs k [] (0 :: fresh (length s * k))). cbn [length]. rewrite fresh_length. lia.
Qed.
Lemma concat_rep_single ch k : t_concat_rep [ch] k = repeat ch k.
Proof. induction k as [|k IH]; [reflexivity|]. cbn [t_concat_rep repeat app]. rewrite IH. reflexivity. Qed.
Lemma NN_concat_rep s k : NN s -> NN (t_concat_rep s k).
Proof. intro H. induction k as [|k IH]; [constructor|]. cbn [t_concat_rep]. apply NN_app. split; assumption. Qed.
Lemma NN_repeat ch k : ch <> 0 -> NN (repeat ch k).
Proof. intro H. induction k as [|k IH]; [constructor | constructor; assumption]. Qed.

(* ---------------- padStringsToSameLength *)
Definition pad_bufs (a ra b rb : list N) (ch : N) : list N * list N :=
  if Nat.ltb (length b) (length a) then (a ++ 0 :: ra, (repeat ch (length a - length b) ++ b) ++ [0])
  else ((repeat ch (length b - length a) ++ a) ++ [0], b ++ 0 :: rb).
Lemma pad_ok a ra b rb ch : NN a -> NN b -> ch <> 0 ->
  pad_m (a ++ 0 :: ra) (b ++ 0 :: rb) ch = Ok (pad_bufs a ra b rb ch).
Proof.
  intros Ha Hb Hc. unfold pad_m, pad_bufs. rewrite !StrLen_ok by assumption. cbn [bind].
  assert (R : forall k, newRepeat [ch; 0] k = Ok (repeat ch k ++ [0])).
  { intro k. change [ch; 0] with ([ch] ++ 0 :: []). rewrite newRepeat_ok by (repeat constructor; assumption).
    rewrite concat_rep_single. reflexivity. }
  destruct (Nat.ltb (length b) (length a)); rewrite R; cbn [bind].
  - change (repeat ch (length a - length b) ++ [0]) with (repeat ch (length a - length b) ++ 0 :: []).
    rewrite plus_ok by (try apply NN_repeat; assumption). cbn [bind]. rewrite <- app_assoc. reflexivity.
  - change (repeat ch (length b - length a) ++ [0]) with (repeat ch (length b - length a) ++ 0 :: []).
    rewrite plus_ok by (try apply NN_repeat; assumption). cbn [bind]. rewrite <- app_assoc. reflexivity.
Qed.

(* ---------------- operation sequences on three objects: every buffer of the pool is the exact-size C string of the
   textbook state *)
Definition OKS (s : list N) : Prop := NN s /\ BY s.
Lemma cstr_of_inv : forall buf s, cstr_of buf = Some s -> exists r, buf = s ++ 0 :: r /\ NN s.
Proof.
  induction buf as [|c buf IH]; cbn [cstr_of]; intros s H; [discriminate H|]. destruct (c =? 0) eqn:E.
  - inversion H. subst s. apply N.eqb_eq in E. subst c. exists buf. split; [reflexivity | constructor].
  - destruct (cstr_of buf) as [l|] eqn:C; cbn [option_map] in H; [|discriminate H]. inversion H. subst s.
    destruct (IH l eq_refl) as [r [Eb Hn]]. exists r. split; [cbn [app]; rewrite Eb; reflexivity|].
    constructor; [apply N.eqb_neq; exact E | exact Hn].
Qed.
Lemma updl_map {A B} (f : A -> B) v : forall l i, updl i (f v) (map f l) = map f (updl i v l).
Proof. induction l as [|x l IH]; intro i; [destruct i; reflexivity|]. destruct i; cbn [updl map]; [reflexivity | rewrite IH; reflexivity]. Qed.
Lemma updl_same {A} (d : A) : forall l i, updl i (nth i l d) l = l.
Proof. induction l as [|x l IH]; intro i; [destruct i; reflexivity|]. destruct i; cbn [updl nth]; [reflexivity | rewrite IH; reflexivity]. Qed.
Lemma Forall_updl {A} (P : A -> Prop) v : P v -> forall l i, Forall P l -> Forall P (updl i v l).
Proof.
  intro Hv. induction l as [|x l IH]; intros i F; [destruct i; constructor|]. inversion F; subst.
  destruct i; cbn [updl]; constructor; auto.
Qed.
Lemma Forall_nth_d {A} (P : A -> Prop) d : P d -> forall l i, Forall P l -> P (nth i l d).
Proof. intro Hd. induction l as [|x l IH]; intros i F; [destruct i; exact Hd|]. inversion F; subst. destruct i; cbn [nth]; auto. Qed.
Lemma getb_map strs i : getb (map cs strs) i = cs (nth i strs []).
Proof. unfold getb. change emptyString with (cs []). apply map_nth. Qed.
Lemma Forall_firstn_g {A} (P : A -> Prop) : forall k l, Forall P l -> Forall P (firstn k l).
Proof. induction k as [|k IH]; intros l F; [constructor|]. destruct l; [constructor|]. inversion F; subst. cbn [firstn]. constructor; auto. Qed.
Lemma Forall_skipn_g {A} (P : A -> Prop) : forall k l, Forall P l -> Forall P (skipn k l).
Proof. induction k as [|k IH]; intros l F; [exact F|]. destruct l; [constructor|]. inversion F; subst. cbn [skipn]. auto. Qed.

Lemma OKS_nil : OKS [].
Proof. split; constructor. Qed.
Lemma OKS_nonul a : nonul a = true -> OKS a.
Proof. intro H. split; [apply nonul_NN | apply nonul_bytes]; exact H. Qed.
Lemma OKS_app a b : OKS a -> OKS b -> OKS (a ++ b).
Proof. intros [A1 A2] [B1 B2]. split; [apply NN_app; split; assumption | apply Forall_app; split; assumption]. Qed.
Lemma OKS_lower s : OKS s -> OKS (lower s).
Proof.
  intros [H1 H2]. split; [apply NN_lower; exact H1|]. unfold BY, lower. apply Forall_map. eapply Forall_impl; [|exact H2].
  intros c Hc. cbn beta in *. unfold to_lower. destruct ((65 <=? c) && (c <=? 90)) eqn:E; lia.
Qed.
Lemma OKS_substr s b m : OKS s -> OKS (t_substr s b m).
Proof.
  intros [H1 H2]. unfold t_substr, t_takeN, t_skipN.
  assert (K : OKS (if N.of_nat (length s) <=? b then [] else skipn (N.to_nat b) s)).
  { destruct (N.of_nat (length s) <=? b); [apply OKS_nil|]. split; [apply NN_skipn; exact H1 | apply Forall_skipn_g; exact H2]. }
  destruct K as [K1 K2]. set (u := if N.of_nat (length s) <=? b then [] else skipn (N.to_nat b) s) in *.
  destruct (N.of_nat (length u) <=? m); [split; assumption|]. split; [apply NN_firstn; exact K1 | apply Forall_firstn_g; exact K2].
Qed.
Lemma OKS_repl_char s c1 c2 : OKS s -> c2 <> 0 -> c2 < 256 -> OKS (t_repl_char c1 c2 s).
Proof.
  intros [H1 H2] Z B. unfold t_repl_char. split.
  - unfold NN in *. apply Forall_map. eapply Forall_impl; [|exact H1]. intros c Hc. cbn beta in *. destruct (c =? c1); assumption.
  - unfold BY in *. apply Forall_map. eapply Forall_impl; [|exact H2]. intros c Hc. cbn beta in *. destruct (c =? c1); assumption.
Qed.
Lemma BY_repl n : forall s t w, BY s -> BY w -> BY (t_repl n s t w).
Proof.
  induction n as [|n IH]; intros s t w Hs Hw; [assumption|]. destruct s as [|c s]; [assumption|]. cbn [t_repl].
  destruct (is_prefix t (c :: s)).
  - apply Forall_app. split; [assumption|]. apply IH; [apply Forall_skipn_g|]; assumption.
  - inversion Hs; subst. constructor; [assumption|]. apply IH; assumption.
Qed.
Lemma OKS_replace s t w : OKS s -> OKS w -> OKS (t_replace s t w).
Proof.
  intros [H1 H2] [W1 W2]. unfold t_replace. destruct t; [split; assumption|]. split; [apply NN_repl | apply BY_repl]; assumption.
Qed.
Lemma t_hex_byte d : t_hex d < 256.
Proof.
  unfold t_hex. assert (F : Forall (fun x => x < 256) [48;49;50;51;52;53;54;55;56;57;65;66;67;68;69;70]) by (repeat constructor; lia).
  apply Forall_nth_d; [lia | exact F].
Qed.
Lemma OKS_printable s : OKS s -> OKS (t_printable s).
Proof.
  intros [H1 H2]. split; [apply NN_printable; assumption|]. unfold BY, t_printable in *. induction s as [|c s IH]; [constructor|].
  inversion H2; subst. apply NN_cons in H1. destruct H1 as [_ H1]. cbn [flat_map]. apply Forall_app. split; [|apply IH; assumption].
  pose proof (t_hex_byte (c / 16)). pose proof (t_hex_byte (c mod 16)). unfold t_escape.
  repeat match goal with |- context [if ?b then _ else _] => destruct b end; repeat constructor; lia.
Qed.
Lemma OKS_repeat ch k : ch <> 0 -> ch < 256 -> OKS (repeat ch k).
Proof. intros Z B. split; [apply NN_repeat; exact Z|]. induction k; constructor; assumption. Qed.
Lemma OKS_concat_rep s k : OKS s -> OKS (t_concat_rep s k).
Proof. intro H. induction k as [|k IH]; [apply OKS_nil|]. cbn [t_concat_rep]. apply OKS_app; assumption. Qed.
Lemma OKS_pad a b ch : OKS a -> OKS b -> ch <> 0 -> ch < 256 -> OKS (fst (t_pad a b ch)) /\ OKS (snd (t_pad a b ch)).
Proof.
  intros Ha Hb Z B. unfold t_pad. destruct (Nat.ltb (length b) (length a)); cbn [fst snd]; split; try assumption;
    apply OKS_app; try assumption; apply OKS_repeat; assumption.
Qed.

(* replace(const char*, const char* ) hands over a buffer of exactly the new length + 1 *)
Lemma replaceStr_exact a to w : NN a -> NN to -> NN w -> replaceStr_m (cs a) (cs to) (cs w) = Ok (cs (t_replace a to w)).
Proof.
  intros Ha Hto Hw. unfold replaceStr_m, cs. rewrite !StrLen_ok by assumption. cbn [bind].
  destruct to as [|y to].
  - cbn [length Nat.eqb t_replace]. reflexivity.
  - cbn [Nat.eqb length]. change (S (length to)) with (length (y :: to)). set (t := y :: to) in *.
    assert (Hne : t <> []) by discriminate.
    rewrite (nonoverlap_count_ok (S (length a)) a [] a 0%nat (length a) t [] 0%nat (length a)); try assumption; try reflexivity; try lia.
    cbn [bind Nat.add]. unfold replace_tail, t_replace. fold t.
    pose proof (repl_length (length a) a t w Hne (le_n _)) as RL.
    set (c := t_nmatch (length a) a t) in *. set (R := t_repl (length a) a t w) in *.
    destruct (Nat.eqb c 0) eqn:C0.
    + f_equal. f_equal. symmetry. apply repl_nomatch. lia.
    + replace (length a + length w * c - length t * c + 1)%nat with (length R + 1)%nat by nia.
      destruct (Nat.ltb 1 (length R + 1)) eqn:L1.
      * destruct (repl_copy_ok (S (length a)) a [] a 0%nat (length a) [] (fresh (length R + 1)) (fresh (length R + 1)) 0%nat t w [] []
                               (length a)) as [rest' [E L]]; try assumption; try reflexivity; try lia.
        { fold R. rewrite fresh_length. lia. }
        fold R in E, L. rewrite fresh_length in L. rewrite E. cbn [bind app].
        destruct rest' as [|r0 rest']; [cbn [length] in L; lia|]. destruct rest'; [|cbn [length] in L; lia].
        replace (length R + 1 - 1)%nat with (length R) by lia. rewrite wr_mid. reflexivity.
      * destruct R; [reflexivity | cbn [length] in L1; lia].
Qed.

Lemma fin_upd strs i v : @Ok (list (list N)) (updl i (v ++ [0]) (map cs strs)) = Ok (map cs (updl i v strs)).
Proof. f_equal. apply (updl_map cs). Qed.
Lemma pad_bufs_cs a b ch : pad_bufs a [] b [] ch = (cs (fst (t_pad a b ch)), cs (snd (t_pad a b ch))).
Proof. unfold pad_bufs, t_pad. destruct (Nat.ltb (length b) (length a)); reflexivity. Qed.
Lemma chr_ok c : chr c = true -> c <> 0 /\ c < 256.
Proof. unfold chr. intro H. apply andb_true_iff in H. destruct H as [H1 H2]. split; lia. Qed.

Lemma cstrs_cs strs : Forall OKS strs -> cstrs (map cs strs) = Some strs.
Proof.
  induction strs as [|s strs IH]; intro F; [reflexivity|]. inversion F as [|? ? Hs Fs]. subst. cbn [map cstrs]. unfold cs at 1.
  rewrite cstr_of_cs by apply Hs. rewrite IH by exact Fs. reflexivity.
Qed.

(* ---------------- the value clause of the repeat, padding and sequence scenarios; the pairing clause of all scenarios *)
Lemma expected_scn_ok s : expected_scn s <> VErr.
Proof. destruct s; cbn [expected_scn]; try discriminate. apply expected_ok. Qed.
Lemma eval_repeat a k : nonul a = true -> eval_scn (SRepeat a k) = expected_scn (SRepeat a k).
Proof.
  intro V. cbn [eval_scn expected_scn]. unfold cs. rewrite newRepeat_ok by (apply nonul_NN; exact V). cbn [vstr].
  change (t_concat_rep a k ++ [0]) with (t_concat_rep a k ++ 0 :: []). rewrite cstr_of_cs by (apply NN_concat_rep, nonul_NN; exact V). reflexivity.
Qed.
Lemma eval_pad a b ch : valid_scn (SPad a b ch) = true -> eval_scn (SPad a b ch) = expected_scn (SPad a b ch).
Proof.
  cbn [valid_scn eval_scn expected_scn]. intro V. split_valid V. destruct (chr_ok _ V0) as [Z B]. pose proof (OKS_nonul a V) as Ka. pose proof (OKS_nonul b V1) as Kb.
  unfold cs. rewrite (pad_ok a [] b [] ch) by (try apply Ka; try apply Kb; exact Z). cbn [bind]. rewrite pad_bufs_cs. cbn [fst snd vlist].
  destruct (OKS_pad a b ch Ka Kb Z B) as [P1 P2].
  change [cs (fst (t_pad a b ch)); cs (snd (t_pad a b ch))] with (map cs [fst (t_pad a b ch); snd (t_pad a b ch)]).
  rewrite cstrs_cs by (constructor; [exact P1 | constructor; [exact P2 | constructor]]). reflexivity.
Qed.
Lemma pairing_scn_ok s : pairing_scn s = true.
Proof. destruct s; cbn [pairing_scn]; try reflexivity; [apply pairing_ok | apply pad_paired]. Qed.
(* the scenarios of C13_Model.v are scenarios of this language with the same observation and the same oracle *)
Lemma scn_embeds o : run_scn (SOp o) = run o /\ valid_scn (SOp o) = valid o /\ forall ob, spec_scn (SOp o) ob = spec o ob.
Proof. split; [reflexivity | split; [reflexivity | intro ob; reflexivity]]. Qed.

(* ---------------- the hypotheses are satisfiable *)
Example ex_pad_run : run_scn (SPad [97] [98;99;100] 46) = {| o_val := VL [[46;46;97]; [98;99;100]]; o_ref := true; o_paired := true |}.
Proof. vm_compute. reflexivity. Qed.
Example ex_pad_wrong : paired (pad_log_wrong 1 3) = false.
Proof. reflexivity. Qed.
Example ex_pool : pool_log 2 [(0, PCopy 3); (1, PCopy 5); (0, PHandOver 8); (1, PCopy 8); (0, PEmpty)]%nat
  = [EA 3; EA 5; EA 8; EF 3; EF 5; EA 8; EF 8; EA 1; EF 8; EF 1]%nat.
Proof. reflexivity. Qed.
