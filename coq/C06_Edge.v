(* C06 -- sizes at the edges of size_t and blocks far larger than a slot of the small arena.
   A second scenario kind on top of the SAME detector model (C06_Model.v: table of C04, d_store, check, d_dealloc):
     * sizes are unbounded N; a request is refused when `sizeLeavesRoomForAccountingInformation(size)` is false
       (MemoryLeakDetector.cpp: size <= (size_t)-1 - (memory_corruption_buffer_size + sizeof(void star) + sizeof(MemoryLeakDetectorNode));
       the bound is the max_user_size of C04_DetTie, proved equal in C06_EdgeProofs.v), and when the underlying allocator /
       PlatformSpecificRealloc has no block of that size (the arena of the harness holds blocks up to big_max);
     * allocMemory and reallocMemory written in the order of the code: room test first, then (realloc) removeNode, non-allocated
       report, checkForCorruption, the platform realloc, and `addNewNode(node)` again when that one returned NULL;
     * the user bytes of a block are kept as RUNS (value, count) so that a block of 16 MiB costs nothing; invalidateMemory lays
       `node->size_` bytes of poison over them (retrieveNode first, as in the code), and the allocator's free_memory looks at the
       whole block: how many of its user bytes are not poison, and where the first of them is.
   Every allocating / releasing form of the plugin layer is used under the initial wiring (C06_entry_family: each form acts with
   its own family), the allocator object named in the operation is made the current allocator of that family.
   `espec` is the property over the observation: category by the property's case analysis, one callback iff reported, outstanding
   total, no surviving user byte in the returned block, and a request that came back NULL without a report released nothing.
   No proofs in this file. *)
From Coq Require Import NArith List Bool Arith.
From CppUVerif Require Import gen.Gen_Common gen.Gen_C06 lib.Str C04_Model C06_Model C06_Plug.
Import ListNotations.
Local Open Scope N_scope.

(* ------------------------------------------------------------------ the refusal bound of the source *)
Definition size_max : N := 2 ^ 64 - 1.                         (* (size_t) -1 *)
Definition sizeof_pointer : N := 8.                            (* sizeof(void star) *)
Definition sizeof_node : N := 64.                              (* sizeof(MemoryLeakDetectorNode) *)
(* const size_t accountingSize = memory_corruption_buffer_size + sizeof(void star) + sizeof(MemoryLeakDetectorNode) *)
Definition accounting_size : N := N.of_nat G + sizeof_pointer + sizeof_node.
Definition room_bound : N := size_max - accounting_size.
(* sizeLeavesRoomForAccountingInformation: return size <= (size_t) -1 - accountingSize *)
Definition leaves_room (size : N) : bool := size <=? room_bound.

(* ------------------------------------------------------------------ the big arena of the harness (contract of the allocator) *)
Definition big_base : N := 268435456.                          (* 0x10000000: model address of the first big slot *)
Definition big_slot : N := 18874368.                           (* 0x1200000 = 18 MiB between slot bases *)
Definition nbig : N := 4.
Definition big_max : N := 16781312.                            (* 0x1001000 = 16 MiB + 4 KiB: the largest block the arena hands out *)
(* alloc_memory / PlatformSpecificRealloc of the arena: a block when the request fits into a slot, NULL otherwise *)
Definition fits (size : N) : bool := size <=? big_max.

(* ------------------------------------------------------------------ user bytes as runs *)
Definition runs := list (N * N).                               (* (value, count), from offset 0 on *)
Fixpoint drop_run (len : N) (rs : runs) : runs :=
  match rs with
  | [] => []
  | (v, c) :: r => if c <=? len then drop_run (len - c) r else (v, c - len) :: r
  end.
(* memset(block, v, len) *)
Definition overlay (v len : N) (rs : runs) : runs := (v, len) :: drop_run len rs.
(* the bytes below offset lim that are not poison: (how many, offset of the first -- 0 when there is none) *)
Fixpoint surv (rs : runs) (off lim : N) : N * N :=
  match rs with
  | [] => (0, 0)
  | (v, c) :: r =>
      let inside := N.min c (lim - off) in
      let kf := surv r (off + c) lim in
      if (v =? poison) || (inside =? 0) then kf else (inside + fst kf, off)
  end.
Definition contents := list (N * runs).                        (* block address -> its user bytes; latest first *)
Fixpoint c_get (c : contents) (a : N) : runs :=
  match c with [] => [] | (b, r) :: t => if b =? a then r else c_get t a end.
Definition c_set (c : contents) (a : N) (r : runs) : contents := (a, r) :: c.

Definition fill_alloc : N := 165.                              (* 0xA5: what the user program fills a new block with *)
Definition fill_realloc : N := 90.                             (* 0x5A: ... and a reallocated one *)

(* ------------------------------------------------------------------ detector + user bytes *)
Record estate := mkE { e_d : dstate; e_c : contents }.
Definition e_init : estate := mkE d_init [].

(* allocMemory: if (!sizeLeavesRoom...(size)) return NULLPTR; memory = allocator->alloc_memory(..); if (memory == NULLPTR) return
   NULLPTR; storeLeakInformation.  Then the user program fills the block. *)
Definition e_alloc (st : estate) (al : nat) (a size : N) : estate * bool :=
  if negb (leaves_room size) then (st, false)
  else if negb (fits size) then (st, false)
  else (mkE (d_store (e_d st) a size al) (c_set (e_c st) a [(fill_alloc, size)]), true).

(* invalidateMemory: node = retrieveNode(memory); if (node) PlatformSpecificMemset(memory, poison, node->size_) *)
Definition e_invalidate (st : estate) (p : option N) : estate :=
  match p with
  | None => st
  | Some a => match t_retrieve a (s_tbl (e_d st)) with
              | Some n => mkE (e_d st) (c_set (e_c st) a (overlay poison (n_size n) (c_get (e_c st) a)))
              | None => st
              end
  end.
(* a variant that stops after `cap` bytes (kept to be refuted: seeded change C06-3 of round 6) *)
Definition e_invalidate_capped (cap : N) (st : estate) (p : option N) : estate :=
  match p with
  | None => st
  | Some a => match t_retrieve a (s_tbl (e_d st)) with
              | Some n => mkE (e_d st) (c_set (e_c st) a (overlay poison (N.min (n_size n) cap) (c_get (e_c st) a)))
              | None => st
              end
  end.

(* reallocMemory: the room test comes first and touches nothing; then removeNode / report / checkForCorruption as in deallocMemory;
   PlatformSpecificRealloc; on NULL the record goes back into the table (addNewNode(node)) *)
Definition e_realloc (ds : list adesc) (jump : bool) (st : estate) (al : nat) (p : option N) (na size : N) : estate * cat * bool :=
  if negb (leaves_room size) then (st, CNone, false)
  else
    let d := e_d st in
    match p with
    | None => if fits size then (mkE (d_store d na size al) (c_set (e_c st) na [(fill_realloc, size)]), CNone, true)
              else (st, CNone, false)
    | Some a =>
        match t_remove a (s_tbl d) with
        | (None, _) => (st, CNonAlloc, false)
        | (Some n, t') =>
            let d' := with_tbl d t' in
            let c := check ds d' n al in
            let stopped := match c with CNone => false | _ => jump end in
            if stopped then (mkE d' (e_c st), c, false)
            else if fits size then (mkE (d_store d' na size al) (c_set (e_c st) na [(fill_realloc, size)]), c, true)
            else (mkE (with_tbl d' (t_add n t')) (e_c st), c, false)
        end
    end.
(* the variant of seeded change C06-2 (round 6): room test after the record was taken out, and no way back *)
Definition e_realloc_late (ds : list adesc) (jump : bool) (st : estate) (al : nat) (p : option N) (na size : N) : estate * cat * bool :=
  match p with
  | Some a =>
      match t_remove a (s_tbl (e_d st)) with
      | (Some n, t') =>
          let d' := with_tbl (e_d st) t' in
          let c := check ds d' n al in
          let stopped := match c with CNone => false | _ => jump end in
          if stopped then (mkE d' (e_c st), c, false)
          else if negb (leaves_room size) then (mkE d' (e_c st), c, false)
          else e_realloc ds jump st al p na size
      | (None, _) => e_realloc ds jump st al p na size
      end
  | None => e_realloc ds jump st al p na size
  end.

(* ------------------------------------------------------------------ scenario, observation, run *)
Inductive eop :=
| EAlloc (f : aform) (al : nat) (a size : N)         (* object al = current allocator of the form's family; call the form with `size` *)
| EFree (f : rform) (al : nat) (p : option N)
| ERealloc (al : nat) (p : option N) (na size : N)   (* cpputest_realloc(p, size); a block that is granted lies at na *)
| ETypeCheck (on : bool).
Record escenario := mkES { es_jump : bool; es_allocs : list adesc; es_ops : list eop }.

(* one item per allocation, release and realloc: callbacks, category, blocks handed to free_memory as
   (address, (user bytes that are not poison, offset of the first)), outstanding total, result non-NULL *)
Record eitem := mkEI { x_calls : N; x_cat : N; x_freed : list (N * (N * N)); x_total : N; x_res : bool }.

Definition e_seen (c : contents) (fr : list (N * N)) : list (N * (N * N)) :=
  map (fun x => (fst x, surv (c_get c (fst x)) 0 (snd x))) fr.

Definition e_step (ds : list adesc) (jump : bool) (st : estate) (o : eop) : estate * option eitem :=
  match o with
  | EAlloc _ al a size =>
      let '(st', res) := e_alloc st al a size in
      (st', Some (mkEI 0 0 [] (total_of (e_d st')) res))
  | EFree _ al p =>
      let st1 := e_invalidate st p in
      let '(d2, c, fr) := d_dealloc ds jump (e_d st1) al p in
      (mkE d2 (e_c st1), Some (mkEI (calls_of c) (cat_code c) (e_seen (e_c st1) fr) (total_of d2) false))
  | ERealloc al p na size =>
      let '(st2, c, res) := e_realloc ds jump st al p na size in
      (st2, Some (mkEI (calls_of c) (cat_code c) [] (total_of (e_d st2)) res))
  | ETypeCheck b => (mkE (with_tc (e_d st) b) (e_c st), None)
  end.
Fixpoint erun_from (ds : list adesc) (jump : bool) (st : estate) (ops : list eop) : list eitem :=
  match ops with
  | [] => []
  | o :: r => let (st', x) := e_step ds jump st o in
              match x with Some i => i :: erun_from ds jump st' r | None => erun_from ds jump st' r end
  end.
Definition erun (s : escenario) : list eitem := erun_from (es_allocs s) (es_jump s) e_init (es_ops s).

(* ------------------------------------------------------------------ the property over scenario and observation *)
Definition afam (ds : list adesc) (f : aform) (al : nat) : list N := family ds (entry_of (aform_fam f)) al.
Definition rfam (ds : list adesc) (f : rform) (al : nat) : list N := family ds (entry_of (rform_fam f)) al.
Definition add_blk (ss : sstate) (a size : N) (fam : list N) : sstate := mkSS (mkB a size fam pattern :: ss_blks ss) (ss_tc ss).
Definition total_ok (x : eitem) (ss : sstate) : bool := x_total x =? N.of_nat (length (ss_blks ss)).
Definition verdict_ok (x : eitem) (c : cat) : bool := (x_cat x =? cat_code c) && (x_calls x =? calls_of c).
(* the poisoning clause over the whole block: the released outstanding block comes back without a surviving user byte *)
Definition no_survivor (a : N) (fr : list (N * (N * N))) : bool :=
  forallb (fun y => negb (fst y =? a) || (fst (snd y) =? 0)) fr.

Fixpoint espec_from (ds : list adesc) (ss : sstate) (ops : list eop) (obs : list eitem) : bool :=
  match ops with
  | [] => match obs with [] => true | _ => false end
  | ETypeCheck b :: r => espec_from ds (mkSS (ss_blks ss) b) r obs
  | EAlloc f al a size :: r =>
      match obs with
      | [] => false
      | x :: obs' =>
          (* an allocation is no misuse; whether there is a block now is what the caller was given *)
          let ss' := if x_res x then add_blk ss a size (afam ds f al) else ss in
          verdict_ok x CNone && total_ok x ss' && espec_from ds ss' r obs'
      end
  | EFree f al p :: r =>
      match obs with
      | [] => false
      | x :: obs' =>
          let ss' := release ss p in
          verdict_ok x (expect ss (rfam ds f al) p) && total_ok x ss' &&
          match p, size_at ss p with Some a, Some _ => no_survivor a (x_freed x) | _, _ => true end &&
          espec_from ds ss' r obs'
      end
  | ERealloc al p na size :: r =>
      match obs with
      | [] => false
      | x :: obs' =>
          let fam := family ds EMalloc al in
          let c := expect ss fam p in
          (* a realloc that comes back NULL without a report has released nothing: the old block is still outstanding *)
          let ss' := if x_res x then add_blk (release ss p) na size fam
                     else match c with CNone => ss | _ => release ss p end in
          verdict_ok x c && total_ok x ss' && espec_from ds ss' r obs'
      end
  end.
Definition espec (s : escenario) (obs : list eitem) : bool := espec_from (es_allocs s) ss_init (es_ops s) obs.

(* ------------------------------------------------------------------ preconditions *)
Definition big_addr_ok (a : N) : bool :=
  (big_base <=? a) && (a <? big_base + nbig * big_slot) && ((a - big_base) mod big_slot =? 0).
(* a size_t; either a size the arena can hold or one so large that every allocator refuses it *)
Definition esize_ok (size : N) : bool := (size <=? size_max) && ((size <=? big_max) || (2 ^ 32 <=? size)).
Definition eptr_ok (p : option N) : bool :=
  match p with None => true | Some a => (big_base <=? a) && (a <? big_base + nbig * big_slot) end.
Definition eform_ok (f : aform) : bool := match f with AStrdup | AStrndup => false | _ => true end.
Definition granted (size : N) : bool := leaves_room size && fits size.

Definition ea_step (ds : list adesc) (jump : bool) (ss : sstate) (o : eop) : sstate :=
  match o with
  | EAlloc f al a size => if granted size then add_blk ss a size (afam ds f al) else ss
  | EFree _ _ p => release ss p
  | ERealloc al p na size =>
      let fam := family ds EMalloc al in
      let c := expect ss fam p in
      if granted size then
        let created := match c with CNone => true | CNonAlloc => false | _ => negb jump end in
        if created then add_blk (release ss p) na size fam else release ss p
      else ss
  | ETypeCheck b => mkSS (ss_blks ss) b
  end.
Definition eop_ok (ds : list adesc) (ss : sstate) (o : eop) : bool :=
  match o with
  | EAlloc f al a size =>
      eform_ok f && alloc_ok ds (entry_of (aform_fam f)) al && big_addr_ok a && esize_ok size && negb (live a (ss_blks ss))
  | EFree f al p => alloc_ok ds (entry_of (rform_fam f)) al && eptr_ok p
  | ERealloc al p na size =>
      alloc_ok ds EMalloc al && eptr_ok p && big_addr_ok na && esize_ok size && negb (live na (ss_blks (release ss p))) &&
      (* a request that cannot be granted is made for NULL or for an outstanding block of the same family *)
      (granted size || cat_eqb (expect ss (family ds EMalloc al) p) CNone)
  | ETypeCheck _ => true
  end.
Fixpoint evalid_from (ds : list adesc) (jump : bool) (ss : sstate) (ops : list eop) : bool :=
  match ops with [] => true | o :: r => eop_ok ds ss o && evalid_from ds jump (ea_step ds jump ss o) r end.
Definition evalid (s : escenario) : bool :=
  descs_ok (es_allocs s) 0 && evalid_from (es_allocs s) (es_jump s) ss_init (es_ops s).

(* ------------------------------------------------------------------ the two kinds of scenario of the check *)
Inductive yscenario := YPlug (s : pscenario) | YEdge (s : escenario).
Inductive yobs := YOPlug (l : list oitem) | YOEdge (l : list eitem).
Definition yrun (s : yscenario) : yobs := match s with YPlug p => YOPlug (prun p) | YEdge e => YOEdge (erun e) end.
Definition yspec (s : yscenario) (o : yobs) : bool :=
  match s, o with
  | YPlug p, YOPlug l => pspec p l
  | YEdge e, YOEdge l => espec e l
  | _, _ => false
  end.
Definition yvalid (s : yscenario) : bool := match s with YPlug p => pvalid p | YEdge e => evalid e end.
