(* C08: the EXPECTATION OBJECT of the mocking engine, MockCheckedExpectedCall (src/CppUTestExt/MockExpectedCall.cpp), with the
   parameter lists it walks (MockNamedValueList / MockNamedValueListNode, src/CppUTestExt/MockNamedValue.cpp), as TRANSLATED from
   /repo on every run (gen/Gen_HeapC08E.v), on a heap that REPRESENTS an expectation `expn` of the hand-written model C08_Model.v.

   This file: the representation (pchain / flags_at / exp_at), what ties the Section variables of the generated file to the model
   (params_tied), and one theorem per translated function: every QUESTION returns the model's answer (heap not even an output),
   every TELL leaves a heap representing the model's updated expectation, on the same blocks, nothing else touched.
   The composition with the expectation list / actual call theorems (C08_ListTie.v / C08_CallTie.v: the oracle answers and the ghost
   tell events) is in C08_ExpTie.v.

   Representation.  exp_at h eb li lo e pin pout:
     block eb  = the 14 cells of the object: functionName_ (the id `nid (e_name e)`), ignoreOtherParameters_, isActualCallMatchFinalized_
                 (bools as 0/1), initialExpectedCallOrder_ / finalExpectedCallOrder_ (e_lo / e_hi, unsigned 32-bit), outOfOrder_,
                 inputParameters_ -> li, outputParameters_ -> lo, returnValue_ (ANY cell: not part of this object in the model),
                 objectPtr_ (the integer of e_obj; any cell when no object is expected), isSpecificObjectExpected_, wasPassedToObject_,
                 actualCalls_ / expectedCalls_ (e_act / e_exp, unsigned 32-bit);
     blocks li / lo = the 1-cell list objects (head_), their chains of 2-cell nodes (data_, next_) are the first components of
                 pin / pout, the 1-cell parameter objects (matchesActualCall_ = p_flag / q_flag) the second components;
     all blocks involved are pairwise distinct.
   A name is an integer: `nid : name -> Z`, injective (hypothesis nid_inj; e.g. Z.of_N).

   Ties (params_tied e pin pout, stated once): param_name of the expected objects = nid of the model's p_name / q_name; for every
   actual-parameter object a that `stands a n v` for (n, v): param_name a = nid n, param_equals (expected object) a = b2z (veq (p_val p) v),
   param_compatible (expected output object) a = 1 (the model's has_output: "const void*" against "void*" is always compatible).

   Contents: 0 representation, sep (what the pairwise distinctness gives), exp_at_update, cell_* ;  1 accessors, first_named,
   getValueByName_spec (THEOREM 3);  2 params_tied, first_named_find, params_tied_same;  3 the thirteen questions X_model (THEOREM 1;
   fuel_ok e fuel := length (e_params e) < fuel /\ length (e_outs e) < fuel for the walking ones, any fuel for the others);
   4 set_flags, the four writing loops, tell_post, step_own / step_in / step_out, the six tells X_model (THEOREM 2), call_was_made_w
   (the counter modulo 2^32) and call_was_made_wraps;  5 exp_at_frame, same_params_*.
   Model and source AGREE on every function here; the only proviso is callWasMade's counter: unsigned 32-bit in the source, unbounded
   N in the model (callWasMade_model needs e_act e + 1 < 2^32; callWasMade_model_w is unconditional). *)
From Coq Require Import String.
From Coq Require Import ZArith NArith Bool List Lia.
From CppUVerif Require Import lib.CSem lib.CMem lib.CMemFacts lib.CHeap gen.Gen_HeapC08E C08_Model C08_ListRep.
Import ListNotations.
Local Open Scope Z_scope.

Lemma exp_layout_is_the_source :
  off_MockExpectedFunctionParameter_matchesActualCall_ = 0 /\ cells_MockExpectedFunctionParameter = 1 /\
  off_MockNamedValueListNode_data_ = 0 /\ off_MockNamedValueListNode_next_ = 1 /\ cells_MockNamedValueListNode = 2 /\
  off_MockNamedValueList_head_ = 0 /\ cells_MockNamedValueList = 1 /\
  off_MockCheckedExpectedCall_functionName_ = 0 /\ off_MockCheckedExpectedCall_ignoreOtherParameters_ = 1 /\
  off_MockCheckedExpectedCall_isActualCallMatchFinalized_ = 2 /\ off_MockCheckedExpectedCall_initialExpectedCallOrder_ = 3 /\
  off_MockCheckedExpectedCall_finalExpectedCallOrder_ = 4 /\ off_MockCheckedExpectedCall_outOfOrder_ = 5 /\
  off_MockCheckedExpectedCall_inputParameters_ = 6 /\ off_MockCheckedExpectedCall_outputParameters_ = 7 /\
  off_MockCheckedExpectedCall_returnValue_ = 8 /\ off_MockCheckedExpectedCall_objectPtr_ = 9 /\
  off_MockCheckedExpectedCall_isSpecificObjectExpected_ = 10 /\ off_MockCheckedExpectedCall_wasPassedToObject_ = 11 /\
  off_MockCheckedExpectedCall_actualCalls_ = 12 /\ off_MockCheckedExpectedCall_expectedCalls_ = 13 /\
  cells_MockCheckedExpectedCall = 14.
Proof. repeat split; reflexivity. Qed.

(* ================================================================== 0. representation *)
(* from pointer p the 2-cell nodes (first components) point to the parameter objects (second components), linked by next_ *)
Fixpoint pchain (h : heap) (p : hptr) (nbs : list (nat * nat)) : Prop :=
  match nbs with
  | [] => p = HNull
  | nb :: r => p = HPtr (fst nb) 0 /\ exists nxt, hblock h (fst nb) = [VPtr (HPtr (snd nb) 0); VPtr nxt] /\ pchain h nxt r
  end.
(* a MockNamedValueList object *)
Definition plist_at (h : heap) (lb : nat) (nbs : list (nat * nat)) : Prop := exists hd, hblock h lb = [VPtr hd] /\ pchain h hd nbs.
(* the parameter objects hold the flags *)
Definition flags_at (h : heap) (obs : list nat) (fl : list bool) : Prop :=
  Forall2 (fun ob f => hblock h ob = [VInt (b2z f)]) obs fl.

Definition u32 (n : N) : Prop := Z.of_N n < 2 ^ 32.
Definition objcell (e : expn) (ov : val) : Prop := match e_obj e with Some b => ov = VInt b | None => True end.

Section Rep.
Variable nid : name -> Z.

Definition ecells (e : expn) (li lo : nat) (rv ov : val) : list val :=
  [VInt (nid (e_name e)); VInt (b2z (e_ign e)); VInt (b2z (e_fin e)); VInt (Z.of_N (e_lo e)); VInt (Z.of_N (e_hi e));
   VInt (b2z (e_ooo e)); VPtr (HPtr li 0); VPtr (HPtr lo 0); rv; ov; VInt (b2z (specific e)); VInt (b2z (e_pobj e));
   VInt (Z.of_N (e_act e)); VInt (Z.of_N (e_exp e))].

(* every block an expectation is made of *)
Definition exp_blocks (eb li lo : nat) (pin pout : list (nat * nat)) : list nat :=
  eb :: li :: lo :: map fst pin ++ map snd pin ++ map fst pout ++ map snd pout.

Definition exp_at (h : heap) (eb li lo : nat) (e : expn) (pin pout : list (nat * nat)) : Prop :=
  (exists rv ov, hblock h eb = ecells e li lo rv ov /\ objcell e ov) /\
  plist_at h li pin /\ plist_at h lo pout /\
  flags_at h (map snd pin) (map p_flag (e_params e)) /\ flags_at h (map snd pout) (map q_flag (e_outs e)) /\
  NoDup (exp_blocks eb li lo pin pout) /\
  u32 (e_lo e) /\ u32 (e_hi e) /\ u32 (e_act e) /\ u32 (e_exp e).

(* the same without naming the two list blocks (they are read from cells 6 / 7 of eb); the theorems below are stated with exp_at,
   which says more: the tells keep li and lo *)
Definition exp_rep (h : heap) (eb : nat) (e : expn) (pin pout : list (nat * nat)) : Prop :=
  exists li lo, exp_at h eb li lo e pin pout.

(* ------------------------------------------------------------------ basic facts *)
Lemma pchain_frame h h' : forall nbs p, (forall b, In b (map fst nbs) -> hblock h' b = hblock h b) -> pchain h p nbs -> pchain h' p nbs.
Proof.
  induction nbs as [|nb r IH]; intros p Hf H; [exact H|]. cbn [pchain] in *. destruct H as [Hp [nxt [Hb Hc]]].
  split; [exact Hp|]. exists nxt. split.
  - rewrite Hf by (left; reflexivity). exact Hb.
  - apply IH; [|exact Hc]. intros b Hin. apply Hf. right. exact Hin.
Qed.
Lemma plist_frame h h' lb nbs : hblock h' lb = hblock h lb -> (forall b, In b (map fst nbs) -> hblock h' b = hblock h b) ->
  plist_at h lb nbs -> plist_at h' lb nbs.
Proof. intros Hl Hf [hd [Hb Hc]]. exists hd. split; [rewrite Hl; exact Hb | exact (pchain_frame h h' nbs hd Hf Hc)]. Qed.
Lemma flags_frame h h' : forall obs fl, (forall b, In b obs -> hblock h' b = hblock h b) -> flags_at h obs fl -> flags_at h' obs fl.
Proof.
  intros obs fl Hf H. induction H as [|ob f obs fl Hb H IH]; [constructor|]. constructor.
  - rewrite Hf by (left; reflexivity). exact Hb.
  - apply IH. intros b Hin. apply Hf. right. exact Hin.
Qed.
Lemma flags_length h obs fl : flags_at h obs fl -> length obs = length fl.
Proof. intro H. induction H; cbn; congruence. Qed.

Lemma NoDup_app_iff {A} (l1 l2 : list A) : NoDup (l1 ++ l2) <-> NoDup l1 /\ NoDup l2 /\ (forall x, In x l1 -> ~ In x l2).
Proof.
  induction l1 as [|a l1 IH]; cbn.
  - split; [intro H; split; [constructor | split; [exact H | intros x []]] | intros [_ [H _]]; exact H].
  - split.
    + intro H. inversion H as [|? ? Hn Hd]; subst. apply IH in Hd. destruct Hd as [H1 [H2 H3]]. split; [|split; [exact H2|]].
      * constructor; [|exact H1]. intro Hi. apply Hn. apply in_app_iff. left. exact Hi.
      * intros x [->|Hx]; [intro Hi; apply Hn; apply in_app_iff; right; exact Hi | exact (H3 x Hx)].
    + intros [H1 [H2 H3]]. inversion H1 as [|? ? Hn Hd]; subst. constructor.
      * intro Hi. apply in_app_iff in Hi. destruct Hi as [Hi|Hi]; [exact (Hn Hi) | exact (H3 a (or_introl eq_refl) Hi)].
      * apply IH. split; [exact Hd | split; [exact H2|]]. intros x Hx. apply H3. right. exact Hx.
Qed.

(* what the pairwise distinctness is used for: the parameter objects are distinct from each other, from the object itself and from
   the structure (list blocks and nodes) *)
Definition structure (li lo : nat) (pin pout : list (nat * nat)) : list nat := li :: lo :: map fst pin ++ map fst pout.
Record sep (eb li lo : nat) (pin pout : list (nat * nat)) : Prop := {
  sep_in : NoDup (map snd pin);
  sep_out : NoDup (map snd pout);
  sep_in_out : forall b, In b (map snd pin) -> ~ In b (map snd pout);
  sep_eb_in : ~ In eb (map snd pin);
  sep_eb_out : ~ In eb (map snd pout);
  sep_struct : forall b, In b (structure li lo pin pout) -> b <> eb /\ ~ In b (map snd pin) /\ ~ In b (map snd pout) }.
Lemma exp_blocks_sep eb li lo pin pout : NoDup (exp_blocks eb li lo pin pout) -> sep eb li lo pin pout.
Proof.
  unfold exp_blocks. intro H.
  apply NoDup_cons_iff in H. destruct H as [Neb H]. apply NoDup_cons_iff in H. destruct H as [Nli H].
  apply NoDup_cons_iff in H. destruct H as [Nlo H]. apply NoDup_app_iff in H. destruct H as [NA [H DA]].
  apply NoDup_app_iff in H. destruct H as [NB [H DB]]. apply NoDup_app_iff in H. destruct H as [NC [ND DC]].
  cbn [In] in Neb, Nli. rewrite !in_app_iff in Neb, Nli, Nlo.
  constructor.
  - exact NB.
  - exact ND.
  - intros b Hb Hd. apply (DB b Hb). rewrite in_app_iff. right. exact Hd.
  - intro Hi. apply Neb. auto 8.
  - intro Hi. apply Neb. auto 8.
  - intros b Hin. unfold structure in Hin. cbn [In] in Hin. rewrite in_app_iff in Hin. destruct Hin as [<-|[<-|[Hin|Hin]]].
    + split; [intro E; apply Neb; left; exact E|]. split; intro Hi; apply Nli; auto 8.
    + split; [intro E; apply Neb; right; left; exact E|]. split; intro Hi; apply Nlo; auto 8.
    + split; [intros ->; apply Neb; auto 8|]. split; intro Hi; apply (DA b Hin); rewrite !in_app_iff; auto.
    + split; [intros ->; apply Neb; auto 8|]. split; intro Hi.
      * apply (DB b Hi). rewrite in_app_iff. left. exact Hin.
      * exact (DC b Hin Hi).
Qed.
Lemma exp_at_sep h eb li lo e pin pout : exp_at h eb li lo e pin pout -> sep eb li lo pin pout.
Proof. intros [_ [_ [_ [_ [_ [H _]]]]]]. exact (exp_blocks_sep _ _ _ _ _ H). Qed.

(* the heap after stores to the expectation's own block and to its parameter objects still holds the structure *)
Lemma exp_at_update h h' eb li lo e e' pin pout :
  exp_at h eb li lo e pin pout ->
  (exists rv ov, hblock h' eb = ecells e' li lo rv ov /\ objcell e' ov) ->
  (forall b, b <> eb -> ~ In b (map snd pin) -> ~ In b (map snd pout) -> hblock h' b = hblock h b) ->
  flags_at h' (map snd pin) (map p_flag (e_params e')) -> flags_at h' (map snd pout) (map q_flag (e_outs e')) ->
  u32 (e_lo e') -> u32 (e_hi e') -> u32 (e_act e') -> u32 (e_exp e') ->
  exp_at h' eb li lo e' pin pout.
Proof.
  intros Hat Hcells Hfr Hfi Hfo B1 B2 B3 B4. pose proof (exp_at_sep _ _ _ _ _ _ _ Hat) as S.
  destruct Hat as [_ [Hli [Hlo [_ [_ [Hnd _]]]]]].
  assert (Hother : forall b, In b (structure li lo pin pout) -> hblock h' b = hblock h b).
  { intros b Hin. destruct (sep_struct _ _ _ _ _ S b Hin) as [H1 [H2 H3]]. exact (Hfr b H1 H2 H3). }
  split; [exact Hcells|]. split; [|split; [|split; [exact Hfi | split; [exact Hfo | split; [exact Hnd | repeat split; assumption]]]]].
  - apply (plist_frame h h'); [apply Hother; left; reflexivity | | exact Hli].
    intros b Hin. apply Hother. right. right. apply in_app_iff. left. exact Hin.
  - apply (plist_frame h h'); [apply Hother; right; left; reflexivity | | exact Hlo].
    intros b Hin. apply Hother. right. right. apply in_app_iff. right. exact Hin.
Qed.

(* ------------------------------------------------------------------ cells of a block whose content is known *)
Lemma cell_padd h b l k : hblock h b = l -> 0 <= k <= Z.of_nat (length l) -> hpadd h (HPtr b 0) k = Some (HPtr b k).
Proof.
  intros Hb Hk. unfold hpadd. rewrite Hb. cbn [Z.add].
  replace (0 <=? k) with true by (symmetry; apply Z.leb_le; lia).
  replace (k <=? Z.of_nat (length l)) with true by (symmetry; apply Z.leb_le; lia). reflexivity.
Qed.
Lemma cell_int h b l k z : hblock h b = l -> 0 <= k -> nth_error l (Z.to_nat k) = Some (VInt z) -> hload_int h (HPtr b k) = Some z.
Proof.
  intros Hb Hk Hn. unfold hload_int, hload. rewrite Hb. replace (0 <=? k) with true by (symmetry; apply Z.leb_le; lia).
  rewrite Hn. reflexivity.
Qed.
Lemma cell_ptr h b l k q : hblock h b = l -> 0 <= k -> nth_error l (Z.to_nat k) = Some (VPtr q) -> hload_ptr h (HPtr b k) = Some q.
Proof.
  intros Hb Hk Hn. unfold hload_ptr, hload. rewrite Hb. replace (0 <=? k) with true by (symmetry; apply Z.leb_le; lia).
  rewrite Hn. reflexivity.
Qed.
Lemma cell_store h b l k v : hblock h b = l -> 0 <= k < Z.of_nat (length l) ->
  hstore h (HPtr b k) v = Some (upd h b (upd l (Z.to_nat k) v)).
Proof.
  intros Hb Hk. replace k with (Z.of_nat (Z.to_nat k)) at 1 by lia. rewrite (hstore_at h b (Z.to_nat k) v l Hb) by lia. reflexivity.
Qed.

(* ================================================================== 1. the parameter lists: accessors and getValueByName *)
Variable pn : hptr -> Z.                  (* param_name of the generated file *)

Lemma pnode_item_eq fuel h nb ob nxt : hblock h nb = [VPtr (HPtr ob 0); VPtr nxt] -> src_pnode_item fuel h (HPtr nb 0) = FOk (HPtr ob 0).
Proof. intro Hb. unfold src_pnode_item. rewrite (cell_ptr h nb _ 0 _ Hb) by (first [lia | reflexivity]). reflexivity. Qed.
Lemma pnode_next_eq fuel h nb ob nxt : hblock h nb = [VPtr (HPtr ob 0); VPtr nxt] -> src_pnode_next fuel h (HPtr nb 0) = FOk nxt.
Proof.
  intro Hb. unfold src_pnode_next. rewrite (cell_padd h nb _ 1 Hb) by (cbn; lia).
  rewrite (cell_ptr h nb _ 1 _ Hb) by (first [lia | reflexivity]). reflexivity.
Qed.
Lemma pnode_getName_eq fuel h nb ob nxt : hblock h nb = [VPtr (HPtr ob 0); VPtr nxt] ->
  src_pnode_getName pn fuel h (HPtr nb 0) = FOk (pn (HPtr ob 0)).
Proof. intro Hb. unfold src_pnode_getName. rewrite (cell_ptr h nb _ 0 _ Hb) by (first [lia | reflexivity]). reflexivity. Qed.
Lemma exp_item_eq fuel h this nb ob nxt : hblock h nb = [VPtr (HPtr ob 0); VPtr nxt] -> src_exp_item fuel h this (HPtr nb 0) = FOk (HPtr ob 0).
Proof. intro Hb. unfold src_exp_item. rewrite (pnode_item_eq fuel h nb ob nxt Hb). reflexivity. Qed.
Lemma plist_begin_eq fuel h lb hd : hblock h lb = [VPtr hd] -> src_plist_begin fuel h (HPtr lb 0) = FOk hd.
Proof. intro Hb. unfold src_plist_begin. rewrite (cell_ptr h lb _ 0 _ Hb) by (first [lia | reflexivity]). reflexivity. Qed.
Lemma eparam_isMatching_eq fuel h ob z : hblock h ob = [VInt z] -> src_eparam_isMatchingActualCall fuel h (HPtr ob 0) = FOk z.
Proof. intro Hb. unfold src_eparam_isMatchingActualCall. rewrite (cell_int h ob _ 0 _ Hb) by (first [lia | reflexivity]). reflexivity. Qed.
Lemma eparam_set_eq fuel h ob z v : hblock h ob = [VInt z] ->
  src_eparam_setMatchesActualCall fuel h (HPtr ob 0) v = FOk (tt, upd h ob [VInt v]).
Proof. intro Hb. unfold src_eparam_setMatchesActualCall. rewrite (cell_store h ob _ 0 (VInt v) Hb) by (cbn; lia). reflexivity. Qed.

(* THEOREM 3 (accessors).  On a chain, begin is its first node; next / item / getName of a node are the next node, the parameter
   object and the object's name *)
Theorem plist_accessors fuel h lb nb r :
  plist_at h lb (nb :: r) ->
  src_plist_begin fuel h (HPtr lb 0) = FOk (HPtr (fst nb) 0) /\
  src_pnode_item fuel h (HPtr (fst nb) 0) = FOk (HPtr (snd nb) 0) /\
  src_pnode_getName pn fuel h (HPtr (fst nb) 0) = FOk (pn (HPtr (snd nb) 0)) /\
  exists nxt, src_pnode_next fuel h (HPtr (fst nb) 0) = FOk nxt /\ pchain h nxt r.
Proof.
  intros [hd [Hl Hc]]. cbn [pchain] in Hc. destruct Hc as [-> [nxt [Hb Hc]]].
  split; [exact (plist_begin_eq fuel h lb _ Hl)|]. split; [exact (pnode_item_eq fuel h _ _ _ Hb)|].
  split; [exact (pnode_getName_eq fuel h _ _ _ Hb)|]. exists nxt. split; [exact (pnode_next_eq fuel h _ _ _ Hb) | exact Hc].
Qed.
Theorem plist_begin_empty fuel h lb : plist_at h lb [] -> src_plist_begin fuel h (HPtr lb 0) = FOk HNull.
Proof. intros [hd [Hl Hc]]. cbn in Hc. subst hd. exact (plist_begin_eq fuel h lb _ Hl). Qed.

(* the object of the first node whose object has name nm *)
Fixpoint first_named (nm : Z) (nbs : list (nat * nat)) : option nat :=
  match nbs with [] => None | nb :: r => if pn (HPtr (snd nb) 0) =? nm then Some (snd nb) else first_named nm r end.
Definition optr (o : option nat) : hptr := match o with Some ob => HPtr ob 0 | None => HNull end.

Lemma getValueByName_loop nm fuel0 h : forall nbs p fuel, pchain h p nbs -> (length nbs < fuel)%nat ->
  src_plist_getValueByName_loop1 pn fuel0 fuel h nm p =
    match first_named nm nbs with Some ob => Done (HPtr ob 0) | None => Go HNull end.
Proof.
  induction nbs as [|nb r IH]; intros p fuel Hc Hf; (destruct fuel as [|fuel]; [cbn in Hf; lia|]); cbn [src_plist_getValueByName_loop1 pchain first_named] in *.
  - subst p. reflexivity.
  - destruct Hc as [-> [nxt [Hb Hc]]]. rewrite z2b_true_ptr. rewrite (pnode_getName_eq fuel0 h _ _ _ Hb).
    unfold c_eq. rewrite b2z_z2b. destruct (pn (HPtr (snd nb) 0) =? nm).
    + rewrite (pnode_item_eq fuel0 h _ _ _ Hb). reflexivity.
    + rewrite (pnode_next_eq fuel0 h _ _ _ Hb). cbv zeta. apply IH; [exact Hc | cbn in Hf; lia].
Qed.
(* THEOREM 3.  getValueByName returns the object of the FIRST node whose object has that name, or NULL *)
Theorem getValueByName_spec fuel h lb nbs nm : plist_at h lb nbs -> (length nbs < fuel)%nat ->
  src_plist_getValueByName pn fuel h (HPtr lb 0) nm = FOk (optr (first_named nm nbs)).
Proof.
  intros [hd [Hl Hc]] Hf. unfold src_plist_getValueByName. rewrite (cell_ptr h lb _ 0 _ Hl) by (first [lia | reflexivity]). cbv zeta.
  rewrite (getValueByName_loop nm fuel h nbs hd fuel Hc Hf). destruct (first_named nm nbs); reflexivity.
Qed.

(* ================================================================== 2. what ties the Section variables to the model *)
Variables peq pcomp : hptr -> hptr -> Z.   (* param_equals / param_compatible of the generated file *)
(* `stands a n v`: the actual-parameter object a (a MockNamedValue built by the actual call) has name n and value v *)
Variable stands : hptr -> name -> pv -> Prop.
Hypothesis nid_inj : forall a b, nid a = nid b -> a = b.

Record params_tied (e : expn) (pin pout : list (nat * nat)) : Prop := {
  pt_in : Forall2 (fun p nb => pn (HPtr (snd nb) 0) = nid (p_name p)) (e_params e) pin;       (* getName of the expected objects *)
  pt_out : Forall2 (fun q nb => pn (HPtr (snd nb) 0) = nid (q_name q)) (e_outs e) pout;
  pt_actual : forall a n v, stands a n v -> pn a = nid n;                                       (* getName of an actual object *)
  (* MockNamedValue::equals(expected, actual) is the model's veq (theorem veq_is_C09_equals of C08_Proofs) *)
  pt_equals : forall a n v, stands a n v -> Forall2 (fun p nb => peq (HPtr (snd nb) 0) a = b2z (veq (p_val p) v)) (e_params e) pin;
  (* compatibleForCopying("const void*" expected, "void*" actual) is always true: has_output of the model *)
  pt_compat : forall a n v, stands a n v -> Forall2 (fun q nb => pcomp (HPtr (snd nb) 0) a = 1) (e_outs e) pout }.

Lemma nid_eqb a b : (nid a =? nid b) = (a =? b)%N.
Proof.
  destruct (N.eqb_spec a b) as [->|Hn]; [apply Z.eqb_refl|]. apply Z.eqb_neq. intro E. apply Hn. exact (nid_inj _ _ E).
Qed.
Lemma first_named_find {T} (nameof : T -> name) n (g : nat -> Z) (gm : T -> Z) d : forall xs nbs,
  Forall2 (fun x nb => pn (HPtr (snd nb) 0) = nid (nameof x)) xs nbs ->
  Forall2 (fun x (nb : nat * nat) => g (snd nb) = gm x) xs nbs ->
  match first_named (nid n) nbs with Some ob => g ob | None => d end =
  match find (fun x => (nameof x =? n)%N) xs with Some x => gm x | None => d end.
Proof.
  intros xs nbs H. induction H as [|x nb xs nbs Hx H IH]; intro G; [reflexivity|]. inversion G as [|? ? ? ? Gx G']; subst.
  cbn [first_named find]. rewrite Hx, nid_eqb. destruct (nameof x =? n)%N; [exact Gx | exact (IH G')].
Qed.
Lemma Forall2_const {A B} (P : Prop) (R : A -> B -> Prop) : forall l m, P -> Forall2 R l m -> Forall2 (fun _ _ => P) l m.
Proof. intros l m HP H. induction H; constructor; assumption. Qed.

(* the model only reads names and values: ties survive every tell *)
Lemma Forall2_map_l {A A' B} (f : A -> A') (R : A' -> B -> Prop) : forall l m, Forall2 (fun x y => R (f x) y) l m -> Forall2 R (map f l) m.
Proof. intros l m H. induction H; cbn; constructor; assumption. Qed.
Lemma Forall2_map_l_inv {A A' B} (f : A -> A') (R : A' -> B -> Prop) : forall l m, Forall2 R (map f l) m -> Forall2 (fun x y => R (f x) y) l m.
Proof.
  induction l as [|x l IH]; intros m H; cbn in H; inversion H; subst; constructor; [assumption | apply IH; assumption].
Qed.
Lemma Forall2_impl {A B} (R R' : A -> B -> Prop) : (forall x y, R x y -> R' x y) -> forall l m, Forall2 R l m -> Forall2 R' l m.
Proof. intros Hi l m H. induction H; constructor; auto. Qed.
(* e' has the parameters of e up to their flags *)
Definition same_params (e e' : expn) : Prop :=
  map p_name (e_params e') = map p_name (e_params e) /\ map p_val (e_params e') = map p_val (e_params e) /\
  map q_name (e_outs e') = map q_name (e_outs e).
Lemma Forall2_by_map {A A' B} (f : A -> A') (R : A' -> B -> Prop) l l' m :
  map f l' = map f l -> Forall2 (fun x y => R (f x) y) l m -> Forall2 (fun x y => R (f x) y) l' m.
Proof. intros E H. apply Forall2_map_l_inv. rewrite E. apply Forall2_map_l. exact H. Qed.
Lemma Forall2_and {A B} (R R' : A -> B -> Prop) : forall l m, Forall2 R l m -> Forall2 R' l m -> Forall2 (fun x y => R x y /\ R' x y) l m.
Proof. intros l m H. induction H; intro H'; inversion H'; subst; constructor; auto. Qed.
Lemma params_tied_same e e' pin pout : same_params e e' -> params_tied e pin pout -> params_tied e' pin pout.
Proof.
  intros [E1 [E2 E3]] [H1 H2 H3 H4 H5]. constructor.
  - exact (Forall2_by_map p_name (fun nm nb => pn (HPtr (snd nb) 0) = nid nm) _ _ _ E1 H1).
  - exact (Forall2_by_map q_name (fun nm nb => pn (HPtr (snd nb) 0) = nid nm) _ _ _ E3 H2).
  - exact H3.
  - intros a n v Hs. exact (Forall2_by_map p_val (fun pv nb => peq (HPtr (snd nb) 0) a = b2z (veq pv v)) _ _ _ E2 (H4 a n v Hs)).
  - intros a n v Hs. exact (Forall2_by_map q_name (fun _ nb => pcomp (HPtr (snd nb) 0) a = 1) _ _ _ E3 (H5 a n v Hs)).
Qed.

(* ================================================================== 3. the questions *)
Lemma N2Z_eqb a b : (Z.of_N a =? Z.of_N b) = (a =? b)%N.
Proof. destruct (N.eqb_spec a b) as [->|Hn]; [apply Z.eqb_refl | apply Z.eqb_neq; lia]. Qed.
Lemma N2Z_ltb a b : (Z.of_N a <? Z.of_N b) = (a <? b)%N.
Proof. destruct (N.ltb_spec a b); [apply Z.ltb_lt | apply Z.ltb_ge]; lia. Qed.
Lemma z2b_lnot_b2z b : z2b (c_lnot (b2z b)) = negb b. Proof. destruct b; reflexivity. Qed.
Lemma c_lnot_b2z b : c_lnot (b2z b) = b2z (negb b). Proof. destruct b; reflexivity. Qed.

(* cell k of the object: pointer step and load in one rewrite *)
Ltac ecell Hb k :=
  rewrite (cell_padd _ _ _ k Hb) by (cbn; lia);
  first [ erewrite (cell_int _ _ _ k _ Hb) by (first [lia | reflexivity])
        | erewrite (cell_ptr _ _ _ k _ Hb) by (first [lia | reflexivity]) ].

Section Questions.
Variables (h : heap) (eb li lo : nat) (e : expn) (pin pout : list (nat * nat)).
Hypothesis Hat : exp_at h eb li lo e pin pout.

(* THEOREM 1a.  The questions that only read the object's own cells (any fuel) *)
Theorem relatesTo_model fuel f : src_exp_relatesTo fuel h (HPtr eb 0) (nid f) = FOk (b2z (relates f e)).
Proof.
  destruct Hat as [[rv [ov [Hb _]]] _]. unfold src_exp_relatesTo, src_exp_getName.
  erewrite (cell_int _ _ _ 0 _ Hb) by (first [lia | reflexivity]). cbn [finish]. unfold c_eq, relates. rewrite nid_eqb, N.eqb_sym. reflexivity.
Qed.
Theorem relatesToObject_model fuel a : src_exp_relatesToObject fuel h (HPtr eb 0) a = FOk (b2z (relates_obj a e)).
Proof.
  destruct Hat as [[rv [ov [Hb Ho]]] _]. unfold src_exp_relatesToObject. ecell Hb 10. rewrite z2b_lnot_b2z.
  unfold objcell in Ho. unfold specific, relates_obj. destruct (e_obj e) as [b|]; cbn [negb]; [|reflexivity].
  subst ov. ecell Hb 9. reflexivity.
Qed.
Theorem isFulfilled_model fuel : src_exp_isFulfilled fuel h (HPtr eb 0) = FOk (b2z (is_fulfilled e)).
Proof.
  destruct Hat as [[rv [ov [Hb _]]] _]. unfold src_exp_isFulfilled. ecell Hb 12. ecell Hb 13. unfold c_eq, is_fulfilled. rewrite N2Z_eqb. reflexivity.
Qed.
Theorem canMatchActualCalls_model fuel : src_exp_canMatchActualCalls fuel h (HPtr eb 0) = FOk (b2z (can_match e)).
Proof.
  destruct Hat as [[rv [ov [Hb _]]] _]. unfold src_exp_canMatchActualCalls. ecell Hb 12. ecell Hb 13. unfold c_lt, can_match. rewrite N2Z_ltb. reflexivity.
Qed.
Theorem isOutOfOrder_model fuel : src_exp_isOutOfOrder fuel h (HPtr eb 0) = FOk (b2z (e_ooo e)).
Proof. destruct Hat as [[rv [ov [Hb _]]] _]. unfold src_exp_isOutOfOrder. ecell Hb 5. reflexivity. Qed.
Theorem getActualCallsFulfilled_model fuel : src_exp_getActualCallsFulfilled fuel h (HPtr eb 0) = FOk (Z.of_N (e_act e)).
Proof. destruct Hat as [[rv [ov [Hb _]]] _]. unfold src_exp_getActualCallsFulfilled. ecell Hb 12. reflexivity. Qed.

(* the two loops of areParametersMatchingActualCall: the first unmatched parameter ends the walk with false *)
Lemma areParametersMatching_loop1 fuel0 this : forall nbs fl p fuel, pchain h p nbs -> flags_at h (map snd nbs) fl -> (length nbs < fuel)%nat ->
  src_exp_areParametersMatchingActualCall_loop1 fuel0 fuel h this p = if forallb (fun b => b) fl then Go HNull else Done 0.
Proof.
  induction nbs as [|nb r IH]; intros fl p fuel Hc Hfl Hf; (destruct fuel as [|fuel]; [cbn in Hf; lia|]);
    cbn [src_exp_areParametersMatchingActualCall_loop1 pchain map] in *.
  - subst p. inversion Hfl; subst. reflexivity.
  - destruct Hc as [-> [nxt [Hb Hc]]]. inversion Hfl as [|? f ? fl' Ho Hfl']; subst. rewrite z2b_true_ptr.
    rewrite (exp_item_eq fuel0 h this _ _ _ Hb), (eparam_isMatching_eq fuel0 h _ _ Ho), z2b_lnot_b2z. cbn [forallb].
    destruct f; cbn [negb andb]; [|reflexivity]. rewrite (pnode_next_eq fuel0 h _ _ _ Hb). cbv zeta.
    apply IH; [exact Hc | exact Hfl' | cbn in Hf; lia].
Qed.
Lemma areParametersMatching_loop2 fuel0 this : forall nbs fl p fuel, pchain h p nbs -> flags_at h (map snd nbs) fl -> (length nbs < fuel)%nat ->
  src_exp_areParametersMatchingActualCall_loop2 fuel0 fuel h this p = if forallb (fun b => b) fl then Go HNull else Done 0.
Proof.
  induction nbs as [|nb r IH]; intros fl p fuel Hc Hfl Hf; (destruct fuel as [|fuel]; [cbn in Hf; lia|]);
    cbn [src_exp_areParametersMatchingActualCall_loop2 pchain map] in *.
  - subst p. inversion Hfl; subst. reflexivity.
  - destruct Hc as [-> [nxt [Hb Hc]]]. inversion Hfl as [|? f ? fl' Ho Hfl']; subst. rewrite z2b_true_ptr.
    rewrite (exp_item_eq fuel0 h this _ _ _ Hb), (eparam_isMatching_eq fuel0 h _ _ Ho), z2b_lnot_b2z. cbn [forallb].
    destruct f; cbn [negb andb]; [|reflexivity]. rewrite (pnode_next_eq fuel0 h _ _ _ Hb). cbv zeta.
    apply IH; [exact Hc | exact Hfl' | cbn in Hf; lia].
Qed.
Lemma forallb_map {A} (f : A -> bool) l : forallb (fun b => b) (map f l) = forallb f l.
Proof. induction l as [|x l IH]; cbn; [reflexivity | rewrite IH; reflexivity]. Qed.

Definition fuel_ok (fuel : nat) : Prop := (length (e_params e) < fuel)%nat /\ (length (e_outs e) < fuel)%nat.
Lemma pin_length : length pin = length (e_params e).
Proof. destruct Hat as [_ [_ [_ [H _]]]]. apply flags_length in H. rewrite !map_length in H. exact H. Qed.
Lemma pout_length : length pout = length (e_outs e).
Proof. destruct Hat as [_ [_ [_ [_ [H _]]]]]. apply flags_length in H. rewrite !map_length in H. exact H. Qed.

(* THEOREM 1b.  The questions that walk the parameter lists by flag *)
Theorem areParametersMatchingActualCall_model fuel : fuel_ok fuel ->
  src_exp_areParametersMatchingActualCall fuel h (HPtr eb 0) = FOk (b2z (params_matching e)).
Proof.
  intros [F1 F2]. pose proof pin_length as L1. pose proof pout_length as L2.
  destruct Hat as [[rv [ov [Hb _]]] [[hdi [Hli Hci]] [[hdo [Hlo Hco]] [Hfi [Hfo _]]]]].
  unfold src_exp_areParametersMatchingActualCall. cbv zeta. ecell Hb 6. rewrite (plist_begin_eq fuel h li hdi Hli).
  rewrite (areParametersMatching_loop1 fuel (HPtr eb 0) pin _ hdi fuel Hci Hfi) by lia. rewrite forallb_map.
  unfold params_matching. destruct (forallb p_flag (e_params e)); cbn [andb]; [|reflexivity].
  ecell Hb 7. rewrite (plist_begin_eq fuel h lo hdo Hlo).
  rewrite (areParametersMatching_loop2 fuel (HPtr eb 0) pout _ hdo fuel Hco Hfo) by lia. rewrite forallb_map.
  destruct (forallb q_flag (e_outs e)); reflexivity.
Qed.
Theorem isMatchingActualCall_model fuel : fuel_ok fuel ->
  src_exp_isMatchingActualCall fuel h (HPtr eb 0) = FOk (b2z (is_matching e)).
Proof.
  intro F. unfold src_exp_isMatchingActualCall. rewrite (areParametersMatchingActualCall_model fuel F). rewrite b2z_z2b.
  destruct Hat as [[rv [ov [Hb _]]] _]. unfold is_matching. destruct (params_matching e); cbn [andb]; [|reflexivity]. ecell Hb 11. reflexivity.
Qed.
Theorem isMatchingActualCallAndFinalized_model fuel : fuel_ok fuel ->
  src_exp_isMatchingActualCallAndFinalized fuel h (HPtr eb 0) = FOk (b2z (is_matching_fin e)).
Proof.
  intro F. unfold src_exp_isMatchingActualCallAndFinalized. rewrite (isMatchingActualCall_model fuel F). rewrite b2z_z2b.
  destruct Hat as [[rv [ov [Hb _]]] _]. unfold is_matching_fin. destruct (is_matching e); cbn [andb]; [|reflexivity].
  ecell Hb 1. rewrite z2b_lnot_b2z. destruct (e_ign e); cbn [negb orb]; [|reflexivity]. ecell Hb 2. reflexivity.
Qed.

(* THEOREM 1c.  The questions that search a parameter list by name: the FIRST parameter of that name decides *)
Hypothesis Htied : params_tied e pin pout.

Lemma hp_ne_optr o : hp_ne (optr o) HNull = match o with Some _ => 1 | None => 0 end.
Proof. destruct o; reflexivity. Qed.
Theorem hasInputParameterWithName_model fuel n : (length (e_params e) < fuel)%nat ->
  src_exp_hasInputParameterWithName pn fuel h (HPtr eb 0) (nid n) = FOk (b2z (has_input_name n e)).
Proof.
  intro F. pose proof pin_length as L1. destruct Hat as [[rv [ov [Hb _]]] [Hli _]].
  unfold src_exp_hasInputParameterWithName. ecell Hb 6. rewrite (getValueByName_spec fuel h li pin (nid n) Hli) by lia. cbv zeta.
  rewrite hp_ne_optr. cbn [finish]. f_equal. unfold has_input_name, find_param.
  rewrite (first_named_find p_name n (fun _ => 1) (fun _ => 1) 0 (e_params e) pin (pt_in _ _ _ Htied)
             (Forall2_const _ _ _ _ eq_refl (pt_in _ _ _ Htied))).
  destruct (find _ (e_params e)); reflexivity.
Qed.
Theorem hasOutputParameterWithName_model fuel n : (length (e_outs e) < fuel)%nat ->
  src_exp_hasOutputParameterWithName pn fuel h (HPtr eb 0) (nid n) = FOk (b2z (has_output_name n e)).
Proof.
  intro F. pose proof pout_length as L1. destruct Hat as [[rv [ov [Hb _]]] [_ [Hlo _]]].
  unfold src_exp_hasOutputParameterWithName. ecell Hb 7. rewrite (getValueByName_spec fuel h lo pout (nid n) Hlo) by lia. cbv zeta.
  rewrite hp_ne_optr. cbn [finish]. f_equal. unfold has_output_name, find_oparam.
  rewrite (first_named_find q_name n (fun _ => 1) (fun _ => 1) 0 (e_outs e) pout (pt_out _ _ _ Htied)
             (Forall2_const _ _ _ _ eq_refl (pt_out _ _ _ Htied))).
  destruct (find _ (e_outs e)); reflexivity.
Qed.
(* hasInputParameter(actual): getValueByName(actual.getName()) -- the first expected parameter of that name -- compared with
   MockNamedValue::equals; no parameter of that name: ignoreOtherParameters_ *)
Theorem hasInputParameter_model fuel a n v : stands a n v -> (length (e_params e) < fuel)%nat ->
  src_exp_hasInputParameter pn peq fuel h (HPtr eb 0) a = FOk (b2z (has_input n v e)).
Proof.
  intros Hs F. pose proof pin_length as L1. destruct Hat as [[rv [ov [Hb _]]] [Hli _]].
  unfold src_exp_hasInputParameter. ecell Hb 6. rewrite (pt_actual _ _ _ Htied a n v Hs).
  rewrite (getValueByName_spec fuel h li pin (nid n) Hli) by lia. cbv zeta.
  unfold has_input, find_param.
  pose proof (first_named_find p_name n (fun ob => peq (HPtr ob 0) a) (fun p => b2z (veq (p_val p) v)) (b2z (e_ign e)) (e_params e) pin
                (pt_in _ _ _ Htied) (pt_equals _ _ _ Htied a n v Hs)) as E.
  destruct (first_named (nid n) pin) as [ob|]; cbn [optr].
  - rewrite z2b_true_ptr. cbn [finish]. rewrite E. destruct (find _ (e_params e)); reflexivity.
  - rewrite z2b_false_null. ecell Hb 1. cbn [finish]. rewrite E. destruct (find _ (e_params e)); reflexivity.
Qed.
Theorem hasOutputParameter_model fuel a n v : stands a n v -> (length (e_outs e) < fuel)%nat ->
  src_exp_hasOutputParameter pn pcomp fuel h (HPtr eb 0) a = FOk (b2z (has_output n e)).
Proof.
  intros Hs F. pose proof pout_length as L1. destruct Hat as [[rv [ov [Hb _]]] [_ [Hlo _]]].
  unfold src_exp_hasOutputParameter. ecell Hb 7. rewrite (pt_actual _ _ _ Htied a n v Hs).
  rewrite (getValueByName_spec fuel h lo pout (nid n) Hlo) by lia. cbv zeta.
  unfold has_output, find_oparam.
  pose proof (first_named_find q_name n (fun ob => pcomp (HPtr ob 0) a) (fun _ => 1) (b2z (e_ign e)) (e_outs e) pout
                (pt_out _ _ _ Htied) (pt_compat _ _ _ Htied a n v Hs)) as E.
  destruct (first_named (nid n) pout) as [ob|]; cbn [optr].
  - rewrite z2b_true_ptr. cbn [finish]. rewrite E. destruct (find _ (e_outs e)); reflexivity.
  - rewrite z2b_false_null. ecell Hb 1. cbn [finish]. rewrite E. destruct (find _ (e_outs e)); reflexivity.
Qed.
End Questions.

(* ================================================================== 4. the tells *)
(* the heap after writing v into the matchesActualCall_ cell of the selected parameter objects, in list order *)
Fixpoint set_flags (sel : nat -> bool) (v : Z) (obs : list nat) (h : heap) : heap :=
  match obs with [] => h | ob :: r => set_flags sel v r (if sel ob then upd h ob [VInt v] else h) end.
Lemma set_flags_length sel v : forall obs h, length (set_flags sel v obs h) = length h.
Proof. induction obs as [|ob r IH]; intro h; cbn [set_flags]; [reflexivity|]. rewrite IH. destruct (sel ob); [apply heap_upd_length | reflexivity]. Qed.
Lemma set_flags_other sel v : forall obs h b, ~ In b obs -> hblock (set_flags sel v obs h) b = hblock h b.
Proof.
  induction obs as [|ob r IH]; intros h b Hn; cbn [set_flags]; [reflexivity|]. rewrite IH by (intro Hi; apply Hn; right; exact Hi).
  destruct (sel ob); [|reflexivity]. apply hblock_upd_other. intros ->. apply Hn. left. reflexivity.
Qed.
Lemma set_flags_at sel vb : forall obs fl h, NoDup obs -> flags_at h obs fl ->
  flags_at (set_flags sel (b2z vb) obs h) obs (zipw (fun s f => if s : bool then vb else f) (map sel obs) fl).
Proof.
  induction obs as [|ob r IH]; intros fl h Hnd Hfl; inversion Hfl as [|? f ? fl' Ho Hfl']; subst; [constructor|].
  inversion Hnd as [|? ? Hn Hd]; subst. cbn [set_flags map zipw].
  assert (L : (ob < length h)%nat) by (apply hblock_lt; rewrite Ho; discriminate).
  constructor.
  - rewrite set_flags_other by exact Hn. destruct (sel ob); [apply hblock_upd_same; exact L | exact Ho].
  - apply IH; [exact Hd|]. destruct (sel ob); [|exact Hfl']. apply (flags_frame h); [|exact Hfl'].
    intros b Hin. apply hblock_upd_other. intro E; subst b. exact (Hn Hin).
Qed.

(* the four flag-writing loops *)
Lemma reset_loop1 fuel0 this : forall nbs fl h p fuel, pchain h p nbs -> flags_at h (map snd nbs) fl -> NoDup (map snd nbs) ->
  (forall b, In b (map fst nbs) -> ~ In b (map snd nbs)) -> (length nbs < fuel)%nat ->
  src_exp_resetActualCallMatchingState_loop1 fuel0 fuel this h p = Go (set_flags (fun _ => true) 0 (map snd nbs) h, HNull).
Proof.
  induction nbs as [|nb r IH]; intros fl h p fuel Hc Hfl Hnd Hdis Hf; (destruct fuel as [|fuel]; [cbn in Hf; lia|]);
    cbn [src_exp_resetActualCallMatchingState_loop1 pchain map set_flags] in *.
  - subst p. reflexivity.
  - destruct Hc as [-> [nxt [Hb Hc]]]. inversion Hfl as [|? f ? fl' Ho Hfl']; subst. inversion Hnd as [|? ? Hn Hd]; subst.
    rewrite z2b_true_ptr. rewrite (exp_item_eq fuel0 h this _ _ _ Hb), (eparam_set_eq fuel0 h _ _ 0 Ho). cbv beta iota zeta.
    assert (Hne : snd nb <> fst nb) by (intros E; apply (Hdis (fst nb)); [left; reflexivity | left; exact E]).
    assert (Hb' : hblock (upd h (snd nb) [VInt 0]) (fst nb) = [VPtr (HPtr (snd nb) 0); VPtr nxt]) by (rewrite hblock_upd_other by exact Hne; exact Hb).
    rewrite (pnode_next_eq fuel0 _ _ _ _ Hb'). apply (IH fl').
    + apply (pchain_frame h); [|exact Hc]. intros b Hin. apply hblock_upd_other. intro E; subst b. apply (Hdis (snd nb)); [right; exact Hin | left; reflexivity].
    + apply (flags_frame h); [|exact Hfl']. intros b Hin. apply hblock_upd_other. intro E; subst b. exact (Hn Hin).
    + exact Hd.
    + intros b Hin Hi. apply (Hdis b); [right; exact Hin | right; exact Hi].
    + cbn in Hf. lia.
Qed.
Lemma reset_loop2 fuel0 this : forall nbs fl h p fuel, pchain h p nbs -> flags_at h (map snd nbs) fl -> NoDup (map snd nbs) ->
  (forall b, In b (map fst nbs) -> ~ In b (map snd nbs)) -> (length nbs < fuel)%nat ->
  src_exp_resetActualCallMatchingState_loop2 fuel0 fuel this h p = Go (set_flags (fun _ => true) 0 (map snd nbs) h, HNull).
Proof.
  induction nbs as [|nb r IH]; intros fl h p fuel Hc Hfl Hnd Hdis Hf; (destruct fuel as [|fuel]; [cbn in Hf; lia|]);
    cbn [src_exp_resetActualCallMatchingState_loop2 pchain map set_flags] in *.
  - subst p. reflexivity.
  - destruct Hc as [-> [nxt [Hb Hc]]]. inversion Hfl as [|? f ? fl' Ho Hfl']; subst. inversion Hnd as [|? ? Hn Hd]; subst.
    rewrite z2b_true_ptr. rewrite (exp_item_eq fuel0 h this _ _ _ Hb), (eparam_set_eq fuel0 h _ _ 0 Ho). cbv beta iota zeta.
    assert (Hne : snd nb <> fst nb) by (intros E; apply (Hdis (fst nb)); [left; reflexivity | left; exact E]).
    assert (Hb' : hblock (upd h (snd nb) [VInt 0]) (fst nb) = [VPtr (HPtr (snd nb) 0); VPtr nxt]) by (rewrite hblock_upd_other by exact Hne; exact Hb).
    rewrite (pnode_next_eq fuel0 _ _ _ _ Hb'). apply (IH fl').
    + apply (pchain_frame h); [|exact Hc]. intros b Hin. apply hblock_upd_other. intro E; subst b. apply (Hdis (snd nb)); [right; exact Hin | left; reflexivity].
    + apply (flags_frame h); [|exact Hfl']. intros b Hin. apply hblock_upd_other. intro E; subst b. exact (Hn Hin).
    + exact Hd.
    + intros b Hin Hi. apply (Hdis b); [right; exact Hin | right; exact Hi].
    + cbn in Hf. lia.
Qed.
Lemma input_loop1 fuel0 this nm : forall nbs fl h p fuel, pchain h p nbs -> flags_at h (map snd nbs) fl -> NoDup (map snd nbs) ->
  (forall b, In b (map fst nbs) -> ~ In b (map snd nbs)) -> (length nbs < fuel)%nat ->
  src_exp_inputParameterWasPassed_loop1 pn fuel0 fuel this nm h p =
    Go (set_flags (fun ob => pn (HPtr ob 0) =? nm) 1 (map snd nbs) h, HNull).
Proof.
  induction nbs as [|nb r IH]; intros fl h p fuel Hc Hfl Hnd Hdis Hf; (destruct fuel as [|fuel]; [cbn in Hf; lia|]);
    cbn [src_exp_inputParameterWasPassed_loop1 pchain map set_flags] in *.
  - subst p. reflexivity.
  - destruct Hc as [-> [nxt [Hb Hc]]]. inversion Hfl as [|? f ? fl' Ho Hfl']; subst. inversion Hnd as [|? ? Hn Hd]; subst.
    rewrite z2b_true_ptr. rewrite (pnode_getName_eq fuel0 h _ _ _ Hb). unfold c_eq. rewrite b2z_z2b.
    assert (Hdis' : forall b, In b (map fst r) -> ~ In b (map snd r)) by (intros b Hin Hi; apply (Hdis b); [right; exact Hin | right; exact Hi]).
    destruct (pn (HPtr (snd nb) 0) =? nm).
    + rewrite (exp_item_eq fuel0 h this _ _ _ Hb), (eparam_set_eq fuel0 h _ _ 1 Ho). cbv beta iota zeta.
      assert (Hne : snd nb <> fst nb) by (intros E; apply (Hdis (fst nb)); [left; reflexivity | left; exact E]).
      assert (Hb' : hblock (upd h (snd nb) [VInt 1]) (fst nb) = [VPtr (HPtr (snd nb) 0); VPtr nxt]) by (rewrite hblock_upd_other by exact Hne; exact Hb).
      rewrite (pnode_next_eq fuel0 _ _ _ _ Hb'). apply (IH fl'); [| |exact Hd|exact Hdis'|cbn in Hf; lia].
      * apply (pchain_frame h); [|exact Hc]. intros b Hin. apply hblock_upd_other. intro E; subst b. apply (Hdis (snd nb)); [right; exact Hin | left; reflexivity].
      * apply (flags_frame h); [|exact Hfl']. intros b Hin. apply hblock_upd_other. intro E; subst b. exact (Hn Hin).
    + rewrite (pnode_next_eq fuel0 _ _ _ _ Hb). cbv zeta. apply (IH fl'); [exact Hc|exact Hfl'|exact Hd|exact Hdis'|cbn in Hf; lia].
Qed.
Lemma output_loop1 fuel0 this nm : forall nbs fl h p fuel, pchain h p nbs -> flags_at h (map snd nbs) fl -> NoDup (map snd nbs) ->
  (forall b, In b (map fst nbs) -> ~ In b (map snd nbs)) -> (length nbs < fuel)%nat ->
  src_exp_outputParameterWasPassed_loop1 pn fuel0 fuel this nm h p =
    Go (set_flags (fun ob => pn (HPtr ob 0) =? nm) 1 (map snd nbs) h, HNull).
Proof.
  induction nbs as [|nb r IH]; intros fl h p fuel Hc Hfl Hnd Hdis Hf; (destruct fuel as [|fuel]; [cbn in Hf; lia|]);
    cbn [src_exp_outputParameterWasPassed_loop1 pchain map set_flags] in *.
  - subst p. reflexivity.
  - destruct Hc as [-> [nxt [Hb Hc]]]. inversion Hfl as [|? f ? fl' Ho Hfl']; subst. inversion Hnd as [|? ? Hn Hd]; subst.
    rewrite z2b_true_ptr. rewrite (pnode_getName_eq fuel0 h _ _ _ Hb). unfold c_eq. rewrite b2z_z2b.
    assert (Hdis' : forall b, In b (map fst r) -> ~ In b (map snd r)) by (intros b Hin Hi; apply (Hdis b); [right; exact Hin | right; exact Hi]).
    destruct (pn (HPtr (snd nb) 0) =? nm).
    + rewrite (exp_item_eq fuel0 h this _ _ _ Hb), (eparam_set_eq fuel0 h _ _ 1 Ho). cbv beta iota zeta.
      assert (Hne : snd nb <> fst nb) by (intros E; apply (Hdis (fst nb)); [left; reflexivity | left; exact E]).
      assert (Hb' : hblock (upd h (snd nb) [VInt 1]) (fst nb) = [VPtr (HPtr (snd nb) 0); VPtr nxt]) by (rewrite hblock_upd_other by exact Hne; exact Hb).
      rewrite (pnode_next_eq fuel0 _ _ _ _ Hb'). apply (IH fl'); [| |exact Hd|exact Hdis'|cbn in Hf; lia].
      * apply (pchain_frame h); [|exact Hc]. intros b Hin. apply hblock_upd_other. intro E; subst b. apply (Hdis (snd nb)); [right; exact Hin | left; reflexivity].
      * apply (flags_frame h); [|exact Hfl']. intros b Hin. apply hblock_upd_other. intro E; subst b. exact (Hn Hin).
    + rewrite (pnode_next_eq fuel0 _ _ _ _ Hb). cbv zeta. apply (IH fl'); [exact Hc|exact Hfl'|exact Hd|exact Hdis'|cbn in Hf; lia].
Qed.

(* what every tell leaves: the same blocks represent e', the heap keeps its length, and only the object's own block and its
   parameter objects were written *)
Definition tell_post (h h' : heap) (eb li lo : nat) (e' : expn) (pin pout : list (nat * nat)) : Prop :=
  exp_at h' eb li lo e' pin pout /\ length h' = length h /\
  (forall b, b <> eb -> ~ In b (map snd pin) -> ~ In b (map snd pout) -> hblock h' b = hblock h b).
Lemma tell_post_trans h h1 h2 eb li lo e1 e2 pin pout :
  tell_post h h1 eb li lo e1 pin pout -> tell_post h1 h2 eb li lo e2 pin pout -> tell_post h h2 eb li lo e2 pin pout.
Proof.
  intros [_ [L1 F1]] [H2 [L2 F2]]. split; [exact H2|]. split; [congruence|]. intros b B1 B2 B3. rewrite F2, F1 by assumption. reflexivity.
Qed.
Lemma exp_at_eb_lt h eb li lo e pin pout : exp_at h eb li lo e pin pout -> (eb < length h)%nat.
Proof. intros [[rv [ov [Hb _]]] _]. apply hblock_lt. rewrite Hb. discriminate. Qed.

(* a store into the object's own block *)
Lemma step_own h eb li lo e e' pin pout L' :
  exp_at h eb li lo e pin pout ->
  (exists rv ov, L' = ecells e' li lo rv ov /\ objcell e' ov) ->
  map p_flag (e_params e') = map p_flag (e_params e) -> map q_flag (e_outs e') = map q_flag (e_outs e) ->
  u32 (e_lo e') -> u32 (e_hi e') -> u32 (e_act e') -> u32 (e_exp e') ->
  tell_post h (upd h eb L') eb li lo e' pin pout.
Proof.
  intros Hat [rv [ov [HL Ho]]] E1 E2 B1 B2 B3 B4. pose proof (exp_at_eb_lt _ _ _ _ _ _ _ Hat) as L.
  pose proof (exp_at_sep _ _ _ _ _ _ _ Hat) as S.
  assert (Hfr : forall b, b <> eb -> hblock (upd h eb L') b = hblock h b) by (intros b Hne; apply hblock_upd_other; congruence).
  split; [|split; [apply heap_upd_length | intros b Hne _ _; exact (Hfr b Hne)]].
  apply (exp_at_update h _ eb li lo e e' pin pout Hat); try assumption.
  - exists rv, ov. split; [rewrite hblock_upd_same by exact L; exact HL | exact Ho].
  - intros b Hne _ _. exact (Hfr b Hne).
  - rewrite E1. destruct Hat as [_ [_ [_ [Hfi _]]]]. apply (flags_frame h); [|exact Hfi].
    intros b Hin. apply Hfr. intros ->. exact (sep_eb_in _ _ _ _ _ S Hin).
  - rewrite E2. destruct Hat as [_ [_ [_ [_ [Hfo _]]]]]. apply (flags_frame h); [|exact Hfo].
    intros b Hin. apply Hfr. intros ->. exact (sep_eb_out _ _ _ _ _ S Hin).
Qed.
(* the flags of the selected input / output parameter objects set to vb *)
Lemma step_in h eb li lo e pin pout sel vb ps' :
  exp_at h eb li lo e pin pout ->
  map p_flag ps' = zipw (fun s f => if s : bool then vb else f) (map sel (map snd pin)) (map p_flag (e_params e)) ->
  tell_post h (set_flags sel (b2z vb) (map snd pin) h) eb li lo (set_params e ps') pin pout.
Proof.
  intros Hat E. pose proof (exp_at_sep _ _ _ _ _ _ _ Hat) as S.
  assert (Hfr : forall b, ~ In b (map snd pin) -> hblock (set_flags sel (b2z vb) (map snd pin) h) b = hblock h b)
    by (intros b Hn; apply set_flags_other; exact Hn).
  split; [|split; [apply set_flags_length | intros b _ Hn _; exact (Hfr b Hn)]].
  pose proof Hat as [[rv [ov [Hb Ho]]] [_ [_ [Hfi [Hfo [_ [B1 [B2 [B3 B4]]]]]]]]].
  apply (exp_at_update h _ eb li lo e _ pin pout Hat); try assumption.
  - exists rv, ov. split; [|exact Ho]. rewrite Hfr by exact (sep_eb_in _ _ _ _ _ S). exact Hb.
  - intros b _ Hn _. exact (Hfr b Hn).
  - cbn [e_params set_params]. rewrite E. apply set_flags_at; [exact (sep_in _ _ _ _ _ S) | exact Hfi].
  - cbn [e_outs set_params]. apply (flags_frame h); [|exact Hfo]. intros b Hin. apply Hfr. intro Hi. exact (sep_in_out _ _ _ _ _ S b Hi Hin).
Qed.
Lemma step_out h eb li lo e pin pout sel vb qs' :
  exp_at h eb li lo e pin pout ->
  map q_flag qs' = zipw (fun s f => if s : bool then vb else f) (map sel (map snd pout)) (map q_flag (e_outs e)) ->
  tell_post h (set_flags sel (b2z vb) (map snd pout) h) eb li lo (set_outs e qs') pin pout.
Proof.
  intros Hat E. pose proof (exp_at_sep _ _ _ _ _ _ _ Hat) as S.
  assert (Hfr : forall b, ~ In b (map snd pout) -> hblock (set_flags sel (b2z vb) (map snd pout) h) b = hblock h b)
    by (intros b Hn; apply set_flags_other; exact Hn).
  split; [|split; [apply set_flags_length | intros b _ _ Hn; exact (Hfr b Hn)]].
  pose proof Hat as [[rv [ov [Hb Ho]]] [_ [_ [Hfi [Hfo [_ [B1 [B2 [B3 B4]]]]]]]]].
  apply (exp_at_update h _ eb li lo e _ pin pout Hat); try assumption.
  - exists rv, ov. split; [|exact Ho]. rewrite Hfr by exact (sep_eb_out _ _ _ _ _ S). exact Hb.
  - intros b _ _ Hn. exact (Hfr b Hn).
  - cbn [e_params set_outs]. apply (flags_frame h); [|exact Hfi]. intros b Hin. apply Hfr. exact (sep_in_out _ _ _ _ _ S b Hin).
  - cbn [e_outs set_outs]. rewrite E. apply set_flags_at; [exact (sep_out _ _ _ _ _ S) | exact Hfo].
Qed.
(* the nodes of a list are none of its objects *)
Lemma sep_nodes_in eb li lo pin pout : sep eb li lo pin pout -> forall b, In b (map fst pin) -> ~ In b (map snd pin).
Proof. intros S b Hin. apply (sep_struct _ _ _ _ _ S b). right. right. apply in_app_iff. left. exact Hin. Qed.
Lemma sep_nodes_out eb li lo pin pout : sep eb li lo pin pout -> forall b, In b (map fst pout) -> ~ In b (map snd pout).
Proof. intros S b Hin. apply (sep_struct _ _ _ _ _ S b). right. right. apply in_app_iff. right. exact Hin. Qed.

Lemma zipw_all_true {A} (vb : A) : forall (obs : list nat) (fl : list A), length obs = length fl ->
  zipw (fun s f => if s : bool then vb else f) (map (fun _ => true) obs) fl = map (fun _ => vb) fl.
Proof. induction obs as [|o r IH]; intros [|f fl] L; cbn in *; try reflexivity; try discriminate. rewrite IH by lia. reflexivity. Qed.

(* THEOREM 2a.  finalizeActualCallMatch ~ set_fin e true;  wasPassedToObject ~ pass_obj *)
Theorem finalizeActualCallMatch_model fuel h eb li lo e pin pout : exp_at h eb li lo e pin pout ->
  exists h', src_exp_finalizeActualCallMatch fuel h (HPtr eb 0) = FOk (tt, h') /\ tell_post h h' eb li lo (set_fin e true) pin pout.
Proof.
  intro Hat. pose proof Hat as [[rv [ov [Hb Ho]]] [_ [_ [_ [_ [_ [B1 [B2 [B3 B4]]]]]]]]].
  unfold src_exp_finalizeActualCallMatch. rewrite (cell_padd _ _ _ 2 Hb) by (cbn; lia).
  rewrite (cell_store _ _ _ 2 (VInt 1) Hb) by (cbn; lia). eexists. split; [reflexivity|].
  apply (step_own h eb li lo e); try assumption; try reflexivity. exists rv, ov. split; [reflexivity | exact Ho].
Qed.
Theorem wasPassedToObject_model fuel h eb li lo e pin pout : exp_at h eb li lo e pin pout ->
  exists h', src_exp_wasPassedToObject fuel h (HPtr eb 0) = FOk (tt, h') /\ tell_post h h' eb li lo (pass_obj e) pin pout.
Proof.
  intro Hat. pose proof Hat as [[rv [ov [Hb Ho]]] [_ [_ [_ [_ [_ [B1 [B2 [B3 B4]]]]]]]]].
  unfold src_exp_wasPassedToObject. rewrite (cell_padd _ _ _ 11 Hb) by (cbn; lia).
  rewrite (cell_store _ _ _ 11 (VInt 1) Hb) by (cbn; lia). eexists. split; [reflexivity|].
  apply (step_own h eb li lo e); try assumption; try reflexivity. exists rv, ov. split; [reflexivity | exact Ho].
Qed.

(* THEOREM 2b.  resetActualCallMatchingState ~ reset_e *)
Theorem resetActualCallMatchingState_model fuel h eb li lo e pin pout : exp_at h eb li lo e pin pout -> fuel_ok e fuel ->
  exists h', src_exp_resetActualCallMatchingState fuel h (HPtr eb 0) = FOk (tt, h') /\ tell_post h h' eb li lo (reset_e e) pin pout.
Proof.
  intros Hat [F1 F2]. pose proof (pin_length _ _ _ _ _ _ _ Hat) as L1. pose proof (pout_length _ _ _ _ _ _ _ Hat) as L2.
  pose proof (exp_at_sep _ _ _ _ _ _ _ Hat) as S.
  pose proof Hat as [[rv [ov [Hb Ho]]] [_ [_ [_ [_ [_ [B1 [B2 [B3 B4]]]]]]]]].
  unfold src_exp_resetActualCallMatchingState. ecell Hb 10. rewrite c_lnot_b2z.
  rewrite (cell_padd _ _ _ 11 Hb) by (cbn; lia). rewrite (cell_store _ _ _ 11 _ Hb) by (cbn; lia).
  (* first store: wasPassedToObject_ = !isSpecificObjectExpected_ *)
  assert (T1 : tell_post h (upd h eb (upd (ecells e li lo rv ov) (Z.to_nat 11) (VInt (b2z (negb (specific e)))))) eb li lo
                 (set_pobj e (negb (specific e))) pin pout).
  { apply (step_own h eb li lo e); try assumption; try reflexivity. exists rv, ov. split; [reflexivity | exact Ho]. }
  set (h1 := upd h eb _) in *. pose proof T1 as [Hat1 _]. pose proof Hat1 as [[rv1 [ov1 [Hb1 Ho1]]] _].
  rewrite (cell_padd _ _ _ 2 Hb1) by (cbn; lia). rewrite (cell_store _ _ _ 2 (VInt 0) Hb1) by (cbn; lia).
  assert (T2 : tell_post h1 (upd h1 eb (upd (ecells (set_pobj e (negb (specific e))) li lo rv1 ov1) (Z.to_nat 2) (VInt 0))) eb li lo
                 (set_fin (set_pobj e (negb (specific e))) false) pin pout).
  { apply (step_own h1 eb li lo _ _ pin pout _ Hat1); try assumption; try reflexivity. exists rv1, ov1. split; [reflexivity | exact Ho1]. }
  set (h2 := upd h1 eb _) in *. pose proof T2 as [Hat2 _].
  pose proof Hat2 as [[rv2 [ov2 [Hb2 Ho2]]] [[hdi [Hli Hci]] [_ [Hfi _]]]].
  cbv zeta. ecell Hb2 6. rewrite (plist_begin_eq fuel h2 li hdi Hli).
  rewrite (reset_loop1 fuel (HPtr eb 0) pin _ h2 hdi fuel Hci Hfi (sep_in _ _ _ _ _ S) (sep_nodes_in _ _ _ _ _ S)) by lia.
  set (e2 := set_fin (set_pobj e (negb (specific e))) false) in *.
  assert (T3 : tell_post h2 (set_flags (fun _ => true) (b2z false) (map snd pin) h2) eb li lo
                 (set_params e2 (map (fun p => set_flag p false) (e_params e))) pin pout).
  { apply (step_in h2 eb li lo e2 pin pout (fun _ => true) false _ Hat2). rewrite map_map. cbn [p_flag set_flag].
    rewrite zipw_all_true by (rewrite !map_length; exact L1). rewrite map_map. reflexivity. }
  change (b2z false) with 0 in T3. set (h3 := set_flags _ 0 (map snd pin) h2) in *. pose proof T3 as [Hat3 _].
  pose proof Hat3 as [[rv3 [ov3 [Hb3 Ho3]]] [_ [[hdo [Hlo Hco]] [_ [Hfo _]]]]].
  ecell Hb3 7. rewrite (plist_begin_eq fuel h3 lo hdo Hlo).
  rewrite (reset_loop2 fuel (HPtr eb 0) pout _ h3 hdo fuel Hco Hfo (sep_out _ _ _ _ _ S) (sep_nodes_out _ _ _ _ _ S)) by lia.
  set (e3 := set_params e2 _) in *.
  assert (T4 : tell_post h3 (set_flags (fun _ => true) (b2z false) (map snd pout) h3) eb li lo
                 (set_outs e3 (map (fun q => set_qflag q false) (e_outs e))) pin pout).
  { apply (step_out h3 eb li lo e3 pin pout (fun _ => true) false _ Hat3). rewrite map_map. cbn [q_flag set_qflag].
    rewrite zipw_all_true by (rewrite !map_length; exact L2). rewrite map_map. reflexivity. }
  change (b2z false) with 0 in T4. eexists. split; [reflexivity|].
  exact (tell_post_trans _ _ _ _ _ _ _ _ _ _ T1 (tell_post_trans _ _ _ _ _ _ _ _ _ _ T2 (tell_post_trans _ _ _ _ _ _ _ _ _ _ T3 T4))).
Qed.

(* THEOREM 2c.  inputParameterWasPassed n ~ mark n, outputParameterWasPassed n ~ mark_out n: EVERY parameter of that name is
   flagged (the source walks the whole list; so does the model's map) *)
Lemma mark_flags {T} (nameof : T -> name) (flag : T -> bool) (setf : T -> T) n : (forall x, flag (setf x) = true) -> forall xs nbs,
  Forall2 (fun x (nb : nat * nat) => pn (HPtr (snd nb) 0) = nid (nameof x)) xs nbs ->
  map flag (map (fun x => if (nameof x =? n)%N then setf x else x) xs) =
  zipw (fun s f => if s : bool then true else f) (map (fun ob => pn (HPtr ob 0) =? nid n) (map snd nbs)) (map flag xs).
Proof.
  intros Hs xs nbs H. induction H as [|x nb xs nbs Hx H IH]; [reflexivity|]. cbn [map zipw]. rewrite IH, Hx, nid_eqb.
  destruct (nameof x =? n)%N; [rewrite Hs|]; reflexivity.
Qed.
Theorem inputParameterWasPassed_model fuel h eb li lo e pin pout n :
  exp_at h eb li lo e pin pout -> params_tied e pin pout -> (length (e_params e) < fuel)%nat ->
  exists h', src_exp_inputParameterWasPassed pn fuel h (HPtr eb 0) (nid n) = FOk (tt, h') /\ tell_post h h' eb li lo (mark n e) pin pout.
Proof.
  intros Hat Ht F. pose proof (pin_length _ _ _ _ _ _ _ Hat) as L1. pose proof (exp_at_sep _ _ _ _ _ _ _ Hat) as S.
  pose proof Hat as [[rv [ov [Hb Ho]]] [[hdi [Hli Hci]] [_ [Hfi _]]]].
  unfold src_exp_inputParameterWasPassed. ecell Hb 6. rewrite (plist_begin_eq fuel h li hdi Hli). cbv zeta.
  rewrite (input_loop1 fuel (HPtr eb 0) (nid n) pin _ h hdi fuel Hci Hfi (sep_in _ _ _ _ _ S) (sep_nodes_in _ _ _ _ _ S)) by lia.
  eexists. split; [reflexivity|]. change 1 with (b2z true). unfold mark.
  apply (step_in h eb li lo e pin pout _ true _ Hat).
  exact (mark_flags p_name p_flag (fun p => set_flag p true) n (fun _ => eq_refl) _ _ (pt_in _ _ _ Ht)).
Qed.
Theorem outputParameterWasPassed_model fuel h eb li lo e pin pout n :
  exp_at h eb li lo e pin pout -> params_tied e pin pout -> (length (e_outs e) < fuel)%nat ->
  exists h', src_exp_outputParameterWasPassed pn fuel h (HPtr eb 0) (nid n) = FOk (tt, h') /\ tell_post h h' eb li lo (mark_out n e) pin pout.
Proof.
  intros Hat Ht F. pose proof (pout_length _ _ _ _ _ _ _ Hat) as L1. pose proof (exp_at_sep _ _ _ _ _ _ _ Hat) as S.
  pose proof Hat as [[rv [ov [Hb Ho]]] [_ [[hdo [Hlo Hco]] [_ [Hfo _]]]]].
  unfold src_exp_outputParameterWasPassed. ecell Hb 7. rewrite (plist_begin_eq fuel h lo hdo Hlo). cbv zeta.
  rewrite (output_loop1 fuel (HPtr eb 0) (nid n) pout _ h hdo fuel Hco Hfo (sep_out _ _ _ _ _ S) (sep_nodes_out _ _ _ _ _ S)) by lia.
  eexists. split; [reflexivity|]. change 1 with (b2z true). unfold mark_out.
  apply (step_out h eb li lo e pin pout _ true _ Hat).
  exact (mark_flags q_name q_flag (fun q => set_qflag q true) n (fun _ => eq_refl) _ _ (pt_out _ _ _ Ht)).
Qed.

(* THEOREM 2d.  callWasMade(order): actualCalls_++ is unsigned 32-bit arithmetic, the model's e_act + 1 is not bounded.
   call_was_made_w is the model's call_was_made with the counter modulo 2^32: that is what the source computes for EVERY
   represented e; it is the model's call_was_made when e_act e + 1 < 2^32 (callWasMade_model), and differs from it at 2^32 - 1
   (call_was_made_wraps: 0 against 2^32). *)
Definition out_of_window (order : N) (e : expn) : bool := negb (e_lo e =? 0)%N && ((order <? e_lo e)%N || (e_hi e <? order)%N).
Definition call_was_made_w (order : N) (e : expn) : expn :=
  reset_e (set_count e ((e_act e + 1) mod 4294967296)%N (if out_of_window order e then true else e_ooo e)).
Lemma call_was_made_w_small order e : (e_act e + 1 < 4294967296)%N -> call_was_made_w order e = call_was_made order e.
Proof. intro H. unfold call_was_made_w, call_was_made, out_of_window. rewrite N.mod_small by exact H. reflexivity. Qed.
Lemma call_was_made_wraps order e : e_act e = 4294967295%N ->
  e_act (call_was_made_w order e) = 0%N /\ e_act (call_was_made order e) = 4294967296%N.
Proof. intro H. unfold call_was_made_w, call_was_made. cbn [e_act reset_e set_fin set_pobj set_outs set_params set_count]. rewrite H. split; reflexivity. Qed.

Theorem callWasMade_model_w fuel h eb li lo e pin pout order : exp_at h eb li lo e pin pout -> fuel_ok e fuel ->
  exists h', src_exp_callWasMade fuel h (HPtr eb 0) (Z.of_N order) = FOk (tt, h') /\ tell_post h h' eb li lo (call_was_made_w order e) pin pout.
Proof.
  intros Hat F. pose proof Hat as [[rv [ov [Hb Ho]]] [_ [_ [_ [_ [_ [B1 [B2 [B3 B4]]]]]]]]].
  unfold src_exp_callWasMade. ecell Hb 12. cbv zeta.
  assert (Ew : cw 32 false (Z.of_N (e_act e) + 1) = Z.of_N ((e_act e + 1) mod 4294967296)).
  { rewrite cw_u, N2Z.inj_mod, N2Z.inj_add. reflexivity. }
  rewrite Ew. set (act' := ((e_act e + 1) mod 4294967296)%N).
  assert (Ba : u32 act') by (unfold u32, act'; pose proof (N.mod_upper_bound (e_act e + 1) 4294967296 ltac:(discriminate)); change (2 ^ 32) with 4294967296; lia).
  rewrite (cell_store _ _ _ 12 _ Hb) by (cbn; lia).
  assert (T1 : tell_post h (upd h eb (upd (ecells e li lo rv ov) (Z.to_nat 12) (VInt (Z.of_N act')))) eb li lo
                 (set_count e act' (e_ooo e)) pin pout).
  { apply (step_own h eb li lo e); try assumption; try reflexivity. exists rv, ov. split; [reflexivity | exact Ho]. }
  set (h1 := upd h eb _) in *. pose proof T1 as [Hat1 _]. pose proof Hat1 as [[rv1 [ov1 [Hb1 Ho1]]] _].
  set (e1 := set_count e act' (e_ooo e)) in *.
  (* the order-window test *)
  assert (Ec : (match hpadd h1 (HPtr eb 0) 3 with None => Oob | Some q5 =>
                 match hload_int h1 q5 with None => Oob | Some v6 =>
                  if z2b (c_ne v6 0) then
                   match hpadd h1 (HPtr eb 0) 3 with None => Oob | Some q7 =>
                    match hload_int h1 q7 with None => Oob | Some v8 =>
                     if z2b (c_lt (Z.of_N order) v8) then Go 1 else
                      match hpadd h1 (HPtr eb 0) 4 with None => Oob | Some q9 =>
                       match hload_int h1 q9 with None => Oob | Some v10 => Go (c_gt (Z.of_N order) v10) end end end end
                  else Go 0 end end : cres (unit * heap) Z) = Go (b2z (out_of_window order e))).
  { ecell Hb1 3. unfold c_ne. rewrite b2z_z2b. change (Z.of_N (e_lo e1) =? 0) with (Z.of_N (e_lo e1) =? Z.of_N 0). rewrite N2Z_eqb. unfold out_of_window.
    change (e_lo e1) with (e_lo e). change (e_hi e1) with (e_hi e).
    destruct (e_lo e =? 0)%N; cbn [negb andb]; [reflexivity|]. unfold c_lt. rewrite b2z_z2b, N2Z_ltb.
    destruct (order <? e_lo e)%N; cbn [orb]; [reflexivity|]. ecell Hb1 4. unfold c_gt. rewrite N2Z_ltb. reflexivity. }
  rewrite Ec. rewrite b2z_z2b. unfold call_was_made_w. fold act'. destruct (out_of_window order e).
  - rewrite (cell_padd _ _ _ 5 Hb1) by (cbn; lia). rewrite (cell_store _ _ _ 5 (VInt 1) Hb1) by (cbn; lia).
    assert (T2 : tell_post h1 (upd h1 eb (upd (ecells e1 li lo rv1 ov1) (Z.to_nat 5) (VInt 1))) eb li lo (set_count e act' true) pin pout).
    { apply (step_own h1 eb li lo e1 _ pin pout _ Hat1); try assumption; try reflexivity. exists rv1, ov1. split; [reflexivity | exact Ho1]. }
    set (h2 := upd h1 eb _) in *. pose proof T2 as [Hat2 _].
    destruct (resetActualCallMatchingState_model fuel h2 eb li lo _ pin pout Hat2 F) as [h3 [Hr T3]]. rewrite Hr.
    exists h3. split; [reflexivity|]. exact (tell_post_trans _ _ _ _ _ _ _ _ _ _ T1 (tell_post_trans _ _ _ _ _ _ _ _ _ _ T2 T3)).
  - destruct (resetActualCallMatchingState_model fuel h1 eb li lo _ pin pout Hat1 F) as [h3 [Hr T3]]. rewrite Hr.
    exists h3. split; [reflexivity|]. exact (tell_post_trans _ _ _ _ _ _ _ _ _ _ T1 T3).
Qed.
Theorem callWasMade_model fuel h eb li lo e pin pout order : exp_at h eb li lo e pin pout -> fuel_ok e fuel ->
  (e_act e + 1 < 4294967296)%N ->
  exists h', src_exp_callWasMade fuel h (HPtr eb 0) (Z.of_N order) = FOk (tt, h') /\ tell_post h h' eb li lo (call_was_made order e) pin pout.
Proof. intros Hat F Hs. rewrite <- (call_was_made_w_small order e Hs). exact (callWasMade_model_w fuel h eb li lo e pin pout order Hat F). Qed.

(* ================================================================== 5. frame; the tells only change flags *)
Lemma in_exp_blocks eb li lo pin pout b :
  In b (exp_blocks eb li lo pin pout) <->
  b = eb \/ b = li \/ b = lo \/ In b (map fst pin) \/ In b (map snd pin) \/ In b (map fst pout) \/ In b (map snd pout).
Proof.
  unfold exp_blocks. cbn [In]. rewrite !in_app_iff. split.
  - intros [H|[H|[H|H]]]; auto.
  - intros [H|[H|[H|H]]]; auto.
Qed.
(* an expectation only depends on its own blocks *)
Lemma exp_at_frame h h' eb li lo e pin pout :
  (forall b, In b (exp_blocks eb li lo pin pout) -> hblock h' b = hblock h b) ->
  exp_at h eb li lo e pin pout -> exp_at h' eb li lo e pin pout.
Proof.
  intros Hfr [[rv [ov [Hb Ho]]] [Hli [Hlo [Hfi [Hfo [Hnd B]]]]]].
  assert (K : forall b, b = eb \/ b = li \/ b = lo \/ In b (map fst pin) \/ In b (map snd pin) \/ In b (map fst pout) \/ In b (map snd pout) ->
              hblock h' b = hblock h b) by (intros b Hb'; apply Hfr; apply in_exp_blocks; exact Hb').
  split; [exists rv, ov; split; [rewrite K by auto; exact Hb | exact Ho]|].
  split; [apply (plist_frame h h'); [apply K; auto | intros b Hin; apply K; auto | exact Hli]|].
  split; [apply (plist_frame h h'); [apply K; auto | intros b Hin; apply K; auto 8 | exact Hlo]|].
  split; [apply (flags_frame h h'); [intros b Hin; apply K; auto 8 | exact Hfi]|].
  split; [apply (flags_frame h h'); [intros b Hin; apply K; auto 8 | exact Hfo]|].
  split; [exact Hnd | exact B].
Qed.

Lemma same_params_refl e : same_params e e. Proof. repeat split. Qed.
Lemma same_params_trans e1 e2 e3 : same_params e1 e2 -> same_params e2 e3 -> same_params e1 e3.
Proof. intros [A1 [A2 A3]] [B1 [B2 B3]]. repeat split; congruence. Qed.
Lemma same_params_reset e : same_params e (reset_e e).
Proof.
  unfold same_params, reset_e. cbn [e_params e_outs set_fin set_pobj set_outs set_params]. rewrite !map_map. cbn [p_name p_val q_name set_flag set_qflag].
  repeat split.
Qed.
Lemma same_params_mark n e : same_params e (mark n e).
Proof.
  unfold same_params, mark. cbn [e_params e_outs set_params]. rewrite !map_map. repeat split; apply map_ext; intro p; destruct (p_name p =? n)%N; reflexivity.
Qed.
Lemma same_params_mark_out n e : same_params e (mark_out n e).
Proof.
  unfold same_params, mark_out. cbn [e_params e_outs set_outs]. rewrite !map_map. repeat split; apply map_ext; intro q; destruct (q_name q =? n)%N; reflexivity.
Qed.
Lemma same_params_call order e : same_params e (call_was_made order e).
Proof. unfold call_was_made. exact (same_params_reset (set_count e _ _)). Qed.
End Rep.
