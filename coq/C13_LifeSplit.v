(* C13 -- split(delimiter, collection) returns the textbook pieces, for every string and every one-byte delimiter.  The loop
   lemmas are the ones C12 proved for its own use of split (C12_Safe.v: split_loop_ok, split_incl_cut, cut_NN -- general in the
   delimiter); they are used read-only, qualified.  Kept in its own file: nothing else of C13 depends on C12. *)
From Coq Require Import NArith ZArith Bool List Lia ZifyBool.
From CppUVerif Require Import lib.Str C13_Text C13_Alloc C13_Model C13_Proofs C13_Life C13_LifeProofs.
From CppUVerif Require C12_Model C12_Safe.
Import ListNotations.
Local Open Scope N_scope.

Lemma tsplit_go d : forall s cur, t_split d s cur =
  match C12_Model.split_go d s with
  | [] => match cur with [] => [] | _ => [rev cur] end
  | t :: ts => (rev cur ++ t) :: ts
  end.
Proof.
  induction s as [|c s IH]; intro cur; [reflexivity|]. cbn [t_split C12_Model.split_go]. destruct (c =? d).
  - rewrite (IH []). cbn [rev app]. f_equal. destruct (C12_Model.split_go d s); reflexivity.
  - rewrite (IH (c :: cur)). cbn [rev]. destruct (C12_Model.split_go d s) as [|t ts]; [reflexivity|]. rewrite <- app_assoc. reflexivity.
Qed.
Lemma tsplit_all_incl d s : t_split_all d s = C12_Model.split_incl d s.
Proof.
  unfold t_split_all, C12_Model.split_incl. destruct s as [|c s]; [reflexivity|]. rewrite tsplit_go. cbn [rev app].
  destruct (C12_Model.split_go d (c :: s)); reflexivity.
Qed.
Lemma cstrs_holds bufs : forall texts, Forall2 C12_Safe.holds bufs texts -> cstrs bufs = Some texts.
Proof.
  induction bufs as [|b bufs IH]; intros texts F; inversion F as [|? t ? ts Hb Fs]; subst; [reflexivity|].
  destruct Hb as [r [-> Hn]]. cbn [cstrs]. rewrite cstr_of_cs by exact Hn. rewrite (IH ts Fs). reflexivity.
Qed.
Lemma split_ok a d : NN a -> d <> 0 -> vlist (split_m (cs a) (cs [d])) = VL (t_split_all d a).
Proof.
  intros Ha Dnz. assert (Hd : NN [d]) by (constructor; [exact Dnz | constructor]).
  rewrite tsplit_all_incl, C12_Safe.split_incl_cut. cbn zeta. unfold C12_Safe.ew.
  unfold split_m. unfold cs. rewrite count_ok by assumption. cbn [bind]. rewrite endsWith_ok by assumption. cbn [bind].
  destruct (C12_Safe.split_loop_ok d Dnz (t_count a [d]) a [] [] Ha eq_refl) as [bufs [E F]].
  unfold cs in E. rewrite E. cbn [bind rev app fst snd]. destruct (t_ends_with a [d]).
  - cbn [vlist]. rewrite (cstrs_holds _ _ F). reflexivity.
  - pose proof (C12_Safe.cut_NN d (t_count a [d]) a Ha) as Hr. rewrite newFrom_ok by exact Hr. cbn [bind vlist].
    rewrite (cstrs_holds (bufs ++ [snd (C12_Safe.cut (t_count a [d]) d a) ++ [0]]) (fst (C12_Safe.cut (t_count a [d]) d a) ++ [snd (C12_Safe.cut (t_count a [d]) d a)])).
    + reflexivity.
    + apply Forall2_app; [exact F|]. constructor; [exists []; split; [reflexivity | exact Hr] | constructor].
Qed.
