(* C17 -- executable mirror of the pointer-set facility (CppUTestStore / SetPointerPlugin::postTestAction,
   src/CppUTest/TestPlugin.cpp) and of the plugin chain (TestPlugin::runAllPreTestAction / runAllPostTestAction,
   TestRegistry::installPlugin / removePluginByName / resetPlugins), driven by scripted tests whose control flow is
   that of Utest::run (setup; body only if setup completed; teardown always) inside
   UtestShell::runOneTestInCurrentProcess (pre actions; test; post actions).  No proofs in this file. *)
From Coq Require Import NArith Arith Bool List.
From CppUVerif Require Import gen.Gen_Common.
Import ListNotations.

(* ---------------------------------------------------------------- memory: the harness's pool of pointer variables *)
Definition loc := nat.
Definition val := N.
Definition mem := list val.                       (* pool[0..pool_size-1]; pointers are just numbers *)
Definition rd (m : mem) (l : loc) : val := nth l m 0%N.
Fixpoint upd (m : mem) (l : loc) (v : val) : mem :=
  match m, l with
  | [], _ => []
  | _ :: r, O => v :: r
  | x :: r, S l' => x :: upd r l' v
  end.
Definition pool_size : nat := 40.
Definition init_mem : mem := map (fun i => N.of_nat (256 + i)) (seq 0 pool_size).

(* SetPointerPlugin::MAX_SET, re-read from include/CppUTest/TestPlugin.h on every run *)
Definition max_set : nat := N.to_nat set_pointer_max.

(* ---------------------------------------------------------------- the store table *)
(* setlist[0..pointerTableIndex-1], most recent entry first; length = pointerTableIndex *)
Definition table := list (loc * val).

Inductive stmt :=
| SSet (l : loc) (v : val)        (* UT_PTR_SET(pool[l], v) = CppUTestStore(&pool[l]); pool[l] = v; *)
| SWrite (l : loc) (v : val)      (* pool[l] = v; *)
| SAbort.                         (* FAIL / longjmp-style fail / throw: leaves the current phase, the test has failed *)

(* one statement; the boolean says whether the phase goes on.  CppUTestStore: `if (index >= MAX_SET) FAIL(..)` leaves the
   phase before anything is recorded and before the assignment of the macro runs. *)
Definition exec_stmt (m : mem) (tb : table) (s : stmt) : mem * table * bool :=
  match s with
  | SSet l v => if max_set <=? length tb then (m, tb, false) else (upd m l v, (l, rd m l) :: tb, true)
  | SWrite l v => (upd m l v, tb, true)
  | SAbort => (m, tb, false)
  end.

Fixpoint exec_stmts (m : mem) (tb : table) (ss : list stmt) : mem * table * bool :=
  match ss with
  | [] => (m, tb, true)
  | s :: r => match exec_stmt m tb s with
              | (m1, tb1, true) => exec_stmts m1 tb1 r
              | (m1, tb1, false) => (m1, tb1, false)
              end
  end.

(* SetPointerPlugin::postTestAction: for (i = index-1; i >= 0; i--) *orig = orig_value; index = 0 *)
Fixpoint restore (tb : table) (m : mem) : mem :=
  match tb with
  | [] => m
  | (l, v) :: r => restore r (upd m l v)
  end.

(* Utest::run *)
Record test := { t_setup : list stmt; t_body : list stmt; t_teardown : list stmt }.
Definition exec_test (m : mem) (tb : table) (t : test) : mem * table * bool (* failed *) :=
  match exec_stmts m tb (t_setup t) with
  | (m1, tb1, ok1) =>
    match (if ok1 then exec_stmts m1 tb1 (t_body t) else (m1, tb1, true)) with
    | (m2, tb2, ok2) =>
      match exec_stmts m2 tb2 (t_teardown t) with
      | (m3, tb3, ok3) => (m3, tb3, negb (ok1 && ok2 && ok3))
      end
    end
  end.

(* ---------------------------------------------------------------- the plugin chain *)
Inductive kind := KPlain | KSetPtr.
Record plugin := { p_id : nat; p_name : N; p_kind : kind; p_on : bool }.
Definition chain := list plugin.                  (* firstPlugin_ first; the NullTestPlugin sentinel is the end of the list *)
Definition with_on (p : plugin) (b : bool) : plugin :=
  {| p_id := p_id p; p_name := p_name p; p_kind := p_kind p; p_on := b |}.
Definition named (n : N) (p : plugin) : bool := N.eqb (p_name p) n.

(* TestPlugin::runAllPreTestAction: own action (if enabled), then next_ *)
Fixpoint pre_all (c : chain) : list nat :=
  match c with
  | [] => []
  | p :: r => (if p_on p then [p_id p] else []) ++ pre_all r
  end.

Definition post_action (p : plugin) (m : mem) (tb : table) : mem * table :=
  match p_kind p with
  | KSetPtr => (restore tb m, [])
  | KPlain => (m, tb)
  end.

(* TestPlugin::runAllPostTestAction: next_ first, then own action (if enabled) *)
Fixpoint post_all (c : chain) (m : mem) (tb : table) : mem * table * list nat :=
  match c with
  | [] => (m, tb, [])
  | p :: r => match post_all r m tb with
              | (m1, tb1, lg) =>
                if p_on p then (fst (post_action p m1 tb1), snd (post_action p m1 tb1), lg ++ [p_id p])
                else (m1, tb1, lg)
              end
  end.

(* TestRegistry::removePluginByName as repaired (D16): drop matching heads, then walk the whole chain unlinking every
   matching successor (TestPlugin::removePluginByName unlinks next_ when it matches). *)
Fixpoint drop_heads (n : N) (c : chain) : chain :=
  match c with
  | [] => []
  | p :: r => if named n p then drop_heads n r else c
  end.
Fixpoint unlink_after (n : N) (r : chain) : chain :=      (* the part of the chain behind the plugin the walk stands on *)
  match r with
  | [] => []
  | q :: r' => if named n q then unlink_after n r' (* unlinked, the walk stays *) else q :: unlink_after n r' (* the walk advances *)
  end.
Definition remove_by_name (n : N) (c : chain) : chain :=
  match drop_heads n c with
  | [] => []
  | p :: r => p :: unlink_after n r
  end.

(* the code before the repair: three fixed steps, each looking at one link only *)
Definition unlink_next (n : N) (c : chain) : chain :=     (* TestPlugin::removePluginByName called on the head *)
  match c with
  | p :: q :: r => if named n q then p :: r else c
  | _ => c
  end.
Definition remove_by_name_old (n : N) (c : chain) : chain :=
  let c1 := unlink_next n c in
  let c2 := match c1 with p :: r => if named n p then r else c1 | [] => [] end in
  unlink_next n c2.

(* ---------------------------------------------------------------- sessions *)
Record state := { s_mem : mem; s_tbl : table; s_chain : chain; s_next : nat }.

Inductive op :=
| OInstall (name : N) (k : kind)       (* a new plugin object (id = number of plugins created so far), installPlugin *)
| OEnable (id : nat)
| ODisable (id : nat)
| ORemove (name : N)                   (* TestRegistry::removePluginByName *)
| OReset                               (* TestRegistry::resetPlugins *)
| OTest (t : test).                    (* one test run through the registry *)

Inductive item :=
| ITest (failed : bool) (pre post : list nat) (pool : mem)
| IChain (ids : list nat).

Definition set_on (id : nat) (b : bool) (c : chain) : chain :=
  map (fun p => if Nat.eqb (p_id p) id then with_on p b else p) c.

Definition run_test (m : mem) (tb : table) (c : chain) (t : test) : mem * table * item :=
  let pre := pre_all c in
  match exec_test m tb t with
  | (m1, tb1, failed) =>
    match post_all c m1 tb1 with
    | (m2, tb2, post) => (m2, tb2, ITest failed pre post m2)
    end
  end.

Definition step (st : state) (o : op) : state * list item :=
  match o with
  | OInstall n k =>
      (* the SetPointerPlugin constructor resets pointerTableIndex *)
      ({| s_mem := s_mem st; s_tbl := match k with KSetPtr => [] | KPlain => s_tbl st end;
          s_chain := {| p_id := s_next st; p_name := n; p_kind := k; p_on := true |} :: s_chain st;
          s_next := S (s_next st) |}, [])
  | OEnable id => ({| s_mem := s_mem st; s_tbl := s_tbl st; s_chain := set_on id true (s_chain st); s_next := s_next st |}, [])
  | ODisable id => ({| s_mem := s_mem st; s_tbl := s_tbl st; s_chain := set_on id false (s_chain st); s_next := s_next st |}, [])
  | ORemove n =>
      let c := remove_by_name n (s_chain st) in
      ({| s_mem := s_mem st; s_tbl := s_tbl st; s_chain := c; s_next := s_next st |}, [IChain (map p_id c)])
  | OReset => ({| s_mem := s_mem st; s_tbl := s_tbl st; s_chain := []; s_next := s_next st |}, [IChain []])
  | OTest t =>
      match run_test (s_mem st) (s_tbl st) (s_chain st) t with
      | (m, tb, it) => ({| s_mem := m; s_tbl := tb; s_chain := s_chain st; s_next := s_next st |}, [it])
      end
  end.

Fixpoint run_from (st : state) (ops : list op) : list item :=
  match ops with
  | [] => []
  | o :: r => snd (step st o) ++ run_from (fst (step st o)) r
  end.
Fixpoint exec_ops (st : state) (ops : list op) : state :=
  match ops with
  | [] => st
  | o :: r => exec_ops (fst (step st o)) r
  end.
Definition init_state : state := {| s_mem := init_mem; s_tbl := []; s_chain := []; s_next := 0 |}.
Definition run (s : list op) : list item := run_from init_state s.

(* ---------------------------------------------------------------- spec: what the property demands (model-free) *)
(* "the value it had before the test's first redirection": remember, per location, the value at its first redirection
   only; at most max_set redirections succeed (the documented limit), a further one fails the test at that statement. *)
Definition snaps := list (loc * val).
Fixpoint lookup (sv : snaps) (l : loc) : option val :=
  match sv with
  | [] => None
  | (l', v) :: r => if Nat.eqb l l' then Some v else lookup r l
  end.
Definition ref_stmt (m : mem) (sv : snaps) (n : nat) (s : stmt) : mem * snaps * nat * bool :=
  match s with
  | SSet l v => if max_set <=? n then (m, sv, n, false)
                else (upd m l v, match lookup sv l with None => (l, rd m l) :: sv | Some _ => sv end, S n, true)
  | SWrite l v => (upd m l v, sv, n, true)
  | SAbort => (m, sv, n, false)
  end.
Fixpoint ref_stmts (m : mem) (sv : snaps) (n : nat) (ss : list stmt) : mem * snaps * nat * bool :=
  match ss with
  | [] => (m, sv, n, true)
  | s :: r => match ref_stmt m sv n s with
              | (m1, sv1, n1, true) => ref_stmts m1 sv1 n1 r
              | (m1, sv1, n1, false) => (m1, sv1, n1, false)
              end
  end.
(* after the post actions: redirected locations hold their remembered value, all others what the test left there *)
Definition ref_final (m : mem) (sv : snaps) : mem :=
  map (fun l => match lookup sv l with Some v => v | None => rd m l end) (seq 0 (length m)).
Definition ref_test (m : mem) (t : test) : mem * bool :=
  match ref_stmts m [] 0 (t_setup t) with
  | (m1, sv1, n1, ok1) =>
    match (if ok1 then ref_stmts m1 sv1 n1 (t_body t) else (m1, sv1, n1, true)) with
    | (m2, sv2, n2, ok2) =>
      match ref_stmts m2 sv2 n2 (t_teardown t) with
      | (m3, sv3, _, ok3) => (ref_final m3 sv3, negb (ok1 && ok2 && ok3))
      end
    end
  end.

Fixpoint nat_list_eqb (a b : list nat) : bool :=
  match a, b with
  | [], [] => true
  | x :: a', y :: b' => Nat.eqb x y && nat_list_eqb a' b'
  | _, _ => false
  end.
Fixpoint mem_eqb (a b : mem) : bool :=
  match a, b with
  | [], [] => true
  | x :: a', y :: b' => N.eqb x y && mem_eqb a' b'
  | _, _ => false
  end.

Definition enabled_ids (c : chain) : list nat := map p_id (filter p_on c).
Definition without (n : N) (c : chain) : chain := filter (fun p => negb (named n p)) c.

(* the expected chain is kept as the textbook one: newest first, removal = all plugins of that name gone *)
Fixpoint spec_from (c : chain) (nx : nat) (pool : mem) (ops : list op) (obs : list item) : bool :=
  match ops with
  | [] => match obs with [] => true | _ => false end
  | OInstall n k :: r => spec_from ({| p_id := nx; p_name := n; p_kind := k; p_on := true |} :: c) (S nx) pool r obs
  | OEnable id :: r => spec_from (set_on id true c) nx pool r obs
  | ODisable id :: r => spec_from (set_on id false c) nx pool r obs
  | ORemove n :: r =>
      match obs with
      | IChain ids :: obs' => nat_list_eqb ids (map p_id (without n c)) && spec_from (without n c) nx pool r obs'
      | _ => false
      end
  | OReset :: r =>
      match obs with
      | IChain [] :: obs' => spec_from [] nx pool r obs'
      | _ => false
      end
  | OTest t :: r =>
      match obs with
      | ITest failed pre post pool' :: obs' =>
          Bool.eqb failed (snd (ref_test pool t)) &&
          nat_list_eqb pre (enabled_ids c) &&            (* installation-reversed, disabled absent *)
          nat_list_eqb post (rev (enabled_ids c)) &&     (* exact reverse *)
          mem_eqb pool' (fst (ref_test pool t)) &&
          spec_from c nx pool' r obs'
      | _ => false
      end
  end.
Definition spec (s : list op) (o : list item) : bool := spec_from [] 0 init_mem s o.

(* ---------------------------------------------------------------- valid scenarios *)
(* a test that uses UT_PTR_SET runs with an enabled SetPointerPlugin in the chain (otherwise nothing promises a restore);
   locations are pool indices *)
Definition sp_active (c : chain) : bool :=
  existsb (fun p => p_on p && match p_kind p with KSetPtr => true | KPlain => false end) c.
Definition stmt_ok (s : stmt) : bool :=
  match s with SSet l v | SWrite l v => (l <? pool_size) && N.ltb v 18446744073709551616%N | SAbort => true end.
Definition is_set (s : stmt) : bool := match s with SSet _ _ => true | _ => false end.
Definition all_stmts (t : test) : list stmt := t_setup t ++ t_body t ++ t_teardown t.
Definition test_ok (c : chain) (t : test) : bool :=
  forallb stmt_ok (all_stmts t) && (sp_active c || negb (existsb is_set (all_stmts t))).
Fixpoint valid_from (c : chain) (nx : nat) (ops : list op) : bool :=
  match ops with
  | [] => true
  | OInstall n k :: r => valid_from ({| p_id := nx; p_name := n; p_kind := k; p_on := true |} :: c) (S nx) r
  | OEnable id :: r => valid_from (set_on id true c) nx r
  | ODisable id :: r => valid_from (set_on id false c) nx r
  | ORemove n :: r => valid_from (without n c) nx r
  | OReset :: r => valid_from [] nx r
  | OTest t :: r => test_ok c t && valid_from c nx r
  end.
Definition valid (s : list op) : bool := valid_from [] 0 s.
