(* C17 -- executable mirror of the pointer-set facility (CppUTestStore / SetPointerPlugin::postTestAction,
   src/CppUTest/TestPlugin.cpp) and of the plugin chain (TestPlugin::runAllPreTestAction / runAllPostTestAction,
   TestRegistry::installPlugin / removePluginByName / resetPlugins), driven by scripted tests whose control flow is
   that of Utest::run (setup; body only if setup completed; teardown always) inside
   UtestShell::runOneTestInCurrentProcess (pre actions; test; post actions), by whole runs of several tests
   (TestRegistry::runAllTests: every test takes the chain as the registry holds it when the test starts) during which
   test statements and plugin actions install / remove / enable / disable plugins, and by the command line runner
   (CommandLineTestRunner::runAllTestsMain: its own SetPointerPlugin on top of whatever the registry holds, the run,
   removal by name).  Plugin OBJECTS live on when they are removed from the chain and may be handed to installPlugin again:
   the registry keeps them (r_out) and, next to the chain as a list, the chain as the code holds it -- objects with a next_
   link that installPlugin overwrites and removal leaves stale, and firstPlugin_ (r_lnk); the chain a session observes after
   :rm / :reset / :reinst / a run is read through those links.  No proofs in this file. *)
From Coq Require Import NArith Arith Bool List.
From CppUVerif Require Import gen.Gen_Common.
Import ListNotations.

(* ---------------------------------------------------------------- memory: the harness's pool of pointer variables *)
Definition loc := nat.
Definition val := N.
Definition mem := list val.                       (* pool[0..pool_size-1]; pointers are just numbers *)
Definition rd (m : mem) (l : loc) : val := nth l m 0%N.
Fixpoint upd (m : mem) (l : loc) (v : val) : mem :=
  match m, l with
  | [], _ => []
  | _ :: r, O => v :: r
  | x :: r, S l' => x :: upd r l' v
  end.
Definition pool_size : nat := 40.
Definition init_mem : mem := map (fun i => N.of_nat (256 + i)) (seq 0 pool_size).

(* SetPointerPlugin::MAX_SET, re-read from include/CppUTest/TestPlugin.h on every run *)
Definition max_set : nat := N.to_nat set_pointer_max.

(* ---------------------------------------------------------------- the store table *)
(* setlist[0..pointerTableIndex-1], most recent entry first; length = pointerTableIndex *)
Definition table := list (loc * val).

Inductive stmt :=
| SSet (l : loc) (v : val)        (* UT_PTR_SET(pool[l], v) = CppUTestStore(&pool[l]); pool[l] = v; *)
| SWrite (l : loc) (v : val)      (* pool[l] = v; *)
| SAbort.                         (* FAIL / longjmp-style fail / throw: leaves the current phase, the test has failed *)

(* one statement; the boolean says whether the phase goes on.  CppUTestStore: `if (index >= MAX_SET) FAIL(..)` leaves the
   phase before anything is recorded and before the assignment of the macro runs. *)
Definition exec_stmt (m : mem) (tb : table) (s : stmt) : mem * table * bool :=
  match s with
  | SSet l v => if max_set <=? length tb then (m, tb, false) else (upd m l v, (l, rd m l) :: tb, true)
  | SWrite l v => (upd m l v, tb, true)
  | SAbort => (m, tb, false)
  end.

Fixpoint exec_stmts (m : mem) (tb : table) (ss : list stmt) : mem * table * bool :=
  match ss with
  | [] => (m, tb, true)
  | s :: r => match exec_stmt m tb s with
              | (m1, tb1, true) => exec_stmts m1 tb1 r
              | (m1, tb1, false) => (m1, tb1, false)
              end
  end.

(* SetPointerPlugin::postTestAction: for (i = index-1; i >= 0; i--) *orig = orig_value; index = 0 *)
Fixpoint restore (tb : table) (m : mem) : mem :=
  match tb with
  | [] => m
  | (l, v) :: r => restore r (upd m l v)
  end.

(* Utest::run *)
Record test := { t_setup : list stmt; t_body : list stmt; t_teardown : list stmt }.
Definition exec_test (m : mem) (tb : table) (t : test) : mem * table * bool (* failed *) :=
  match exec_stmts m tb (t_setup t) with
  | (m1, tb1, ok1) =>
    match (if ok1 then exec_stmts m1 tb1 (t_body t) else (m1, tb1, true)) with
    | (m2, tb2, ok2) =>
      match exec_stmts m2 tb2 (t_teardown t) with
      | (m3, tb3, ok3) => (m3, tb3, negb (ok1 && ok2 && ok3))
      end
    end
  end.

(* ---------------------------------------------------------------- the plugin chain *)
Inductive kind := KPlain | KSetPtr.

(* what a test statement or a plugin's pre / post action may do to the registry while a run is going on *)
Inductive act :=
| AInstall (name : N) (k : kind)       (* a new recording plugin object (id = number of plugins created so far), installPlugin *)
| ARemove (name : N)                   (* TestRegistry::removePluginByName *)
| AEnable (id : nat)
| ADisable (id : nat)
| AReset                               (* TestRegistry::resetPlugins *)
| AReinstall (id : nat).               (* installPlugin on the plugin object `id` that already exists (one removed by name or dropped by
                                          resetPlugins earlier): the object comes with whatever next_ link it was left with *)

Inductive role :=
| RRec                                 (* the harness's recording plugin: logs its pre and its post action *)
| RActor (post : bool) (acts : list act) (* a recording plugin that also performs `acts` inside its pre (false) or post (true) action *)
| RRunner.                             (* the SetPointerPlugin the command line runner installs itself: not a recording plugin *)

Record plugin := { p_id : nat; p_name : N; p_kind : kind; p_on : bool; p_role : role }.
Definition chain := list plugin.                  (* firstPlugin_ first; the NullTestPlugin sentinel is the end of the list *)
Definition mkp (i : nat) (n : N) (k : kind) (r : role) : plugin :=
  {| p_id := i; p_name := n; p_kind := k; p_on := true; p_role := r |}.
Definition with_on (p : plugin) (b : bool) : plugin :=
  {| p_id := p_id p; p_name := p_name p; p_kind := p_kind p; p_on := b; p_role := p_role p |}.
Definition named (n : N) (p : plugin) : bool := N.eqb (p_name p) n.
Definition is_sp (p : plugin) : bool := match p_kind p with KSetPtr => true | KPlain => false end.
Definition logs (p : plugin) : bool := match p_role p with RRunner => false | _ => true end.
Definition is_actor (p : plugin) : bool := match p_role p with RActor _ _ => true | _ => false end.
Definition role_acts (p : plugin) : list act := match p_role p with RActor _ a => a | _ => [] end.
Definition pre_acts (p : plugin) : list act := match p_role p with RActor false a => a | _ => [] end.
Definition post_acts (p : plugin) : list act := match p_role p with RActor true a => a | _ => [] end.
Definition sel_acts (post : bool) (p : plugin) : list act := if post then post_acts p else pre_acts p.

(* ---- the chain's recursion for plugins that only record (no actions of their own) *)
(* TestPlugin::runAllPreTestAction: own action (if enabled), then next_ *)
Fixpoint pre_all (c : chain) : list nat :=
  match c with
  | [] => []
  | p :: r => (if p_on p then [p_id p] else []) ++ pre_all r
  end.

Definition post_action (p : plugin) (m : mem) (tb : table) : mem * table :=
  match p_kind p with
  | KSetPtr => (restore tb m, [])
  | KPlain => (m, tb)
  end.

(* TestPlugin::runAllPostTestAction: next_ first, then own action (if enabled) *)
Fixpoint post_all (c : chain) (m : mem) (tb : table) : mem * table * list nat :=
  match c with
  | [] => (m, tb, [])
  | p :: r => match post_all r m tb with
              | (m1, tb1, lg) =>
                if p_on p then (fst (post_action p m1 tb1), snd (post_action p m1 tb1), lg ++ [p_id p])
                else (m1, tb1, lg)
              end
  end.

(* TestRegistry::removePluginByName as repaired (D16): drop matching heads, then walk the whole chain unlinking every
   matching successor (TestPlugin::removePluginByName unlinks next_ when it matches). *)
Fixpoint drop_heads (n : N) (c : chain) : chain :=
  match c with
  | [] => []
  | p :: r => if named n p then drop_heads n r else c
  end.
Fixpoint unlink_after (n : N) (r : chain) : chain :=      (* the part of the chain behind the plugin the walk stands on *)
  match r with
  | [] => []
  | q :: r' => if named n q then unlink_after n r' (* unlinked, the walk stays *) else q :: unlink_after n r' (* the walk advances *)
  end.
Definition remove_by_name (n : N) (c : chain) : chain :=
  match drop_heads n c with
  | [] => []
  | p :: r => p :: unlink_after n r
  end.

(* the code before the repair: three fixed steps, each looking at one link only *)
Definition unlink_next (n : N) (c : chain) : chain :=     (* TestPlugin::removePluginByName called on the head *)
  match c with
  | p :: q :: r => if named n q then p :: r else c
  | _ => c
  end.
Definition remove_by_name_old (n : N) (c : chain) : chain :=
  let c1 := unlink_next n c in
  let c2 := match c1 with p :: r => if named n p then r else c1 | [] => [] end in
  unlink_next n c2.

Definition set_on (id : nat) (b : bool) (c : chain) : chain :=
  map (fun p => if Nat.eqb (p_id p) id then with_on p b else p) c.
Definition without (n : N) (c : chain) : chain := filter (fun p => negb (named n p)) c.
Definition enabled_ids (c : chain) : list nat := map p_id (filter p_on c).
Definition log_ids (c : chain) : list nat := map p_id (filter (fun p => p_on p && logs p) c).   (* what the recording plugins write *)

Definition find_id (i : nat) (c : chain) : option plugin := find (fun p => Nat.eqb (p_id p) i) c.
Definition take_id (i : nat) (c : chain) : chain := filter (fun p => negb (Nat.eqb (p_id p) i)) c.
Definition is_runner (p : plugin) : bool := match p_role p with RRunner => true | _ => false end.

(* ---------------------------------------------------------------- the chain as the code holds it: objects and links *)
(* A plugin object has a name_ (fixed) and a next_ link; the registry has firstPlugin_.  None is NullTestPlugin::instance(),
   the end of every chain.  TestPlugin(name) sets next_ to the end; TestPlugin::addPlugin (called by installPlugin) OVERWRITES
   next_ with the old head; removal by name unlinks an object by redirecting firstPlugin_ or its predecessor's next_ and leaves
   the removed object's own next_ as it was (stale); resetPlugins only redirects firstPlugin_. *)
Definition ptr := option nat.
Record obj := { o_id : nat; o_name : N; o_next : ptr }.
Record links := { l_first : ptr; l_objs : list obj }.          (* the latest binding of an id comes first *)
Definition lookup_obj (os : list obj) (i : nat) : option obj := find (fun o => Nat.eqb (o_id o) i) os.
Definition nxt (os : list obj) (i : nat) : ptr := match lookup_obj os i with Some o => o_next o | None => None end.
Definition oname (os : list obj) (i : nat) : N := match lookup_obj os i with Some o => o_name o | None => 0%N end.
Definition set_next (os : list obj) (i : nat) (v : ptr) : list obj := {| o_id := i; o_name := oname os i; o_next := v |} :: os.
Definition init_links : links := {| l_first := None; l_objs := [] |}.

(* TestPlugin::TestPlugin(name) *)
Definition l_new (i : nat) (n : N) (L : links) : links :=
  {| l_first := l_first L; l_objs := {| o_id := i; o_name := n; o_next := None |} :: l_objs L |}.
(* TestRegistry::installPlugin: firstPlugin_ = plugin->addPlugin(firstPlugin_)  [addPlugin: next_ = plugin; return this] *)
Definition l_install (i : nat) (L : links) : links :=
  {| l_first := Some i; l_objs := set_next (l_objs L) i (l_first L) |}.
(* TestRegistry::resetPlugins *)
Definition l_reset (L : links) : links := {| l_first := None; l_objs := l_objs L |}.
(* TestRegistry::removePluginByName, first loop: while (firstPlugin_ != end && firstPlugin_->getName() == name) firstPlugin_ = firstPlugin_->getNext();
   the fuel stands for termination: on a circular chain the loop need not end *)
Fixpoint l_drop_heads (fuel : nat) (os : list obj) (n : N) (f : ptr) : option ptr :=
  match fuel with
  | O => None
  | S k => match f with
           | None => Some None
           | Some i => if N.eqb (oname os i) n then l_drop_heads k os n (nxt os i) else Some f
           end
  end.
(* second loop, standing on plugin p:  for (..; plugin != end; plugin = plugin->getNext())
                                         while (plugin->getNext() != end && plugin->removePluginByName(name) != NULLPTR) {}
   TestPlugin::removePluginByName: if next_'s name matches, next_ = next_->next_ (the removed object keeps its own next_) *)
Fixpoint l_unlink (fuel : nat) (n : N) (os : list obj) (p : nat) : option (list obj) :=
  match fuel with
  | O => None
  | S k => match nxt os p with
           | None => Some os
           | Some q => if N.eqb (oname os q) n then l_unlink k n (set_next os p (nxt os q)) p else l_unlink k n os q
           end
  end.
Definition l_remove (fuel : nat) (n : N) (L : links) : option links :=
  match l_drop_heads fuel (l_objs L) n (l_first L) with
  | None => None
  | Some None => Some {| l_first := None; l_objs := l_objs L |}
  | Some (Some p) => match l_unlink fuel n (l_objs L) p with
                     | Some os => Some {| l_first := Some p; l_objs := os |}
                     | None => None
                     end
  end.
(* reading the chain from firstPlugin_ (TestRegistry::countPlugins, getFirstPlugin / getNext) *)
Fixpoint l_read (fuel : nat) (os : list obj) (f : ptr) : option (list nat) :=
  match fuel with
  | O => None
  | S k => match f with
           | None => Some []
           | Some i => match l_read k os (nxt os i) with Some r => Some (i :: r) | None => None end
           end
  end.
(* TestPlugin::runAllPreTestAction / runAllPostTestAction over the links (recording plugins; `on` = the enabled_ flags) *)
Fixpoint l_pre (fuel : nat) (os : list obj) (on : nat -> bool) (f : ptr) : option (list nat) :=
  match fuel with
  | O => None
  | S k => match f with
           | None => Some []
           | Some i => match l_pre k os on (nxt os i) with Some r => Some ((if on i then [i] else []) ++ r) | None => None end
           end
  end.
Fixpoint l_post (fuel : nat) (os : list obj) (on : nat -> bool) (f : ptr) : option (list nat) :=
  match fuel with
  | O => None
  | S k => match f with
           | None => Some []
           | Some i => match l_post k os on (nxt os i) with Some r => Some (r ++ (if on i then [i] else [])) | None => None end
           end
  end.
(* the variant a red team proposed ("do not link a plugin in twice"): an object that is the head or still carries a link is
   taken to be installed already and left alone -- refuted in C17_Links.v: a removed object keeps its stale link *)
Definition l_install_guarded (i : nat) (L : links) : links :=
  if (match l_first L with Some j => Nat.eqb i j | None => false end) || (match nxt (l_objs L) i with Some _ => true | None => false end)
  then L else l_install i L.

(* ---------------------------------------------------------------- the registry *)
(* chain, number of plugin objects created so far, the (id, name) of every object ever created (the harness's book-keeping of
   which plugins an action names, used only to tell which log entries the property speaks about), the plugin objects that
   exist but are not in the chain (removed by name or dropped by resetPlugins; they keep their enabled flag and can be
   installed again), and the objects' links as the code holds them (never read by the oracle) *)
Definition names := list (nat * N).
Record reg := { r_chain : chain; r_next : nat; r_names : names; r_out : list plugin; r_lnk : links }.

(* `rm` is the removal by name: the code's loops (remove_by_name) in the model, the textbook filter (without) in the oracle *)
Definition reg_install (r : reg) (p : plugin) : reg :=
  {| r_chain := p :: r_chain r; r_next := S (r_next r); r_names := (p_id p, p_name p) :: r_names r; r_out := r_out r;
     r_lnk := l_install (p_id p) (l_new (p_id p) (p_name p) (r_lnk r)) |}.
Definition reg_set (r : reg) (c : chain) (o : list plugin) (L : links) : reg :=
  {| r_chain := c; r_next := r_next r; r_names := r_names r; r_out := o; r_lnk := L |}.
Definition remove_fuel (r : reg) : nat := S (r_next r).          (* more than the number of plugin objects *)
Definition reg_act (rm : N -> chain -> chain) (r : reg) (a : act) : reg :=
  match a with
  | AInstall n k => reg_install r (mkp (r_next r) n k RRec)
  | ARemove n => reg_set r (rm n (r_chain r)) (filter (named n) (r_chain r) ++ r_out r)
                         (match l_remove (remove_fuel r) n (r_lnk r) with Some L => L | None => r_lnk r end)
  | AEnable i => reg_set r (set_on i true (r_chain r)) (set_on i true (r_out r)) (r_lnk r)
  | ADisable i => reg_set r (set_on i false (r_chain r)) (set_on i false (r_out r)) (r_lnk r)
  | AReset => reg_set r [] (r_chain r ++ r_out r) (l_reset (r_lnk r))
  | AReinstall i =>
      (* the code links the object in front whatever it is: next_ is overwritten, firstPlugin_ points at it.  Chain level: an
         object that is outside the chain becomes the new head (with the flags it carries).  An object that IS in the chain
         gets its own successors cut off or is made to point at itself or at a predecessor -- the links become circular; the
         chain level has nothing to say about that (`valid` excludes it) *)
      let L := if i <? r_next r then l_install i (r_lnk r) else r_lnk r in
      match find_id i (r_out r) with
      | Some p => reg_set r (p :: r_chain r) (take_id i (r_out r)) L
      | None => reg_set r (r_chain r) (r_out r) L
      end
  end.
(* the chain as read through the links, as countPlugins / getNext walk it; [] stands for a walk that does not end *)
Definition read_chain (r : reg) : list nat :=
  match l_read (remove_fuel r) (l_objs (r_lnk r)) (l_first (r_lnk r)) with Some ids => ids | None => [] end.

(* the plugin objects an action names: their log entries in the test in which the action happens are outside what the
   property fixes (was the plugin "installed" / "enabled" for that test or not?) and are left out of the observation *)
Definition ids_named (nm : names) (n : N) : list nat := map fst (filter (fun e => N.eqb (snd e) n) nm).
Definition touched_by (nm : names) (nx : nat) (a : act) : list nat :=
  match a with
  | AInstall _ _ => [nx]
  | ARemove n => ids_named nm n
  | AEnable i | ADisable i | AReinstall i => [i]
  | AReset => map fst nm
  end.
Definition unnamed (T : list nat) (i : nat) : bool := negb (existsb (Nat.eqb i) T).
Definition installs_sp (a : act) : bool := match a with AInstall _ KSetPtr => true | _ => false end.

(* ---------------------------------------------------------------- sessions *)
Record state := { s_mem : mem; s_tbl : table; s_reg : reg; s_T : list nat (* ids named by the actions of the current test *) }.
Definition s_chain (st : state) : chain := r_chain (s_reg st).
Definition s_next (st : state) : nat := r_next (s_reg st).

(* one action; the SetPointerPlugin constructor resets pointerTableIndex *)
Definition do_act (st : state) (a : act) : state :=
  {| s_mem := s_mem st; s_tbl := if installs_sp a then [] else s_tbl st;
     s_reg := reg_act remove_by_name (s_reg st) a;
     s_T := touched_by (r_names (s_reg st)) (r_next (s_reg st)) a ++ s_T st |}.
Definition do_acts (st : state) (l : list act) : state := fold_left do_act l st.

(* statements of a test of a run: the pointer statements, or an action on the registry *)
Inductive xstmt := XS (s : stmt) | XA (a : act).
Record xtest := { x_setup : list xstmt; x_body : list xstmt; x_teardown : list xstmt }.
Definition set_mt (st : state) (m : mem) (tb : table) : state := {| s_mem := m; s_tbl := tb; s_reg := s_reg st; s_T := s_T st |}.
Fixpoint xexec (st : state) (ss : list xstmt) : state * bool :=
  match ss with
  | [] => (st, true)
  | XS s :: r => match exec_stmt (s_mem st) (s_tbl st) s with
                 | (m1, tb1, true) => xexec (set_mt st m1 tb1) r
                 | (m1, tb1, false) => (set_mt st m1 tb1, false)
                 end
  | XA a :: r => xexec (do_act st a) r
  end.

(* the walk over the chain as it stood when the test started (UtestShell::runOneTest is handed the head once, the pre
   recursion goes down the chain, the post recursion comes back up): a plugin takes its turn if it is still installed
   and enabled when the turn comes; the pointer plugin's turn in the post walk restores; an acting plugin's turn
   performs its actions *)
Definition sp_restore (st : state) : state := set_mt st (restore (s_tbl st) (s_mem st)) [].
Definition turn (post : bool) (x : plugin) (st : state) : state :=
  do_acts (if post && is_sp x then sp_restore st else st) (sel_acts post x).
Fixpoint walk (post : bool) (sn : chain) (st : state) (lg : list nat) : state * list nat :=
  match sn with
  | [] => (st, lg)
  | x :: r => match find_id (p_id x) (s_chain st) with
              | Some q => if p_on q then walk post r (turn post x st) (if logs x then lg ++ [p_id x] else lg)
                          else walk post r st lg
              | None => walk post r st lg
              end
  end.

Inductive item :=
| ITest (failed : bool) (pre post : list nat) (pool : mem)
| IChain (ids : list nat).

(* Utest::run *)
Definition xexec_test (st : state) (t : xtest) : state * bool (* failed *) :=
  match xexec st (x_setup t) with
  | (st2, ok1) =>
    match (if ok1 then xexec st2 (x_body t) else (st2, true)) with
    | (st3, ok2) =>
      match xexec st3 (x_teardown t) with
      | (st4, ok3) => (st4, negb (ok1 && ok2 && ok3))
      end
    end
  end.

(* UtestShell::runOneTestInCurrentProcess *)
Definition run_xtest (st0 : state) (t : xtest) : state * item :=
  let st := {| s_mem := s_mem st0; s_tbl := s_tbl st0; s_reg := s_reg st0; s_T := [] |} in
  let sn := s_chain st in
  match walk false sn st [] with
  | (st1, pre) =>
    match xexec_test st1 t with
    | (st4, failed) =>
      match walk true (rev sn) st4 [] with
      | (st5, post) =>
        (st5, ITest failed (filter (unnamed (s_T st5)) pre) (filter (unnamed (s_T st5)) post) (s_mem st5))
      end
    end
  end.

(* TestRegistry::runAllTests: `test->runOneTest(firstPlugin_, result)` reads the head of the chain anew for every test *)
Fixpoint run_tests (st : state) (ts : list xtest) : state * list item :=
  match ts with
  | [] => (st, [])
  | t :: r => match run_xtest st t with
              | (st1, it) => match run_tests st1 r with (st2, its) => (st2, it :: its) end
              end
  end.

(* the name CommandLineTestRunner gives its pointer plugin (DEF_PLUGIN_SET_POINTER; the harness maps this number to it) *)
Definition runner_name : N := 160%N.
Definition runner_plugin (i : nat) : plugin := mkp i runner_name KSetPtr RRunner.

Inductive op :=
| OInstall (name : N) (k : kind)       (* a new plugin object (id = number of plugins created so far), installPlugin *)
| OActor (name : N) (post : bool) (acts : list act)   (* the same for a plugin with actions of its own *)
| OEnable (id : nat)
| ODisable (id : nat)
| ORemove (name : N)                   (* TestRegistry::removePluginByName *)
| OReset                               (* TestRegistry::resetPlugins *)
| OReinstall (id : nat)                (* installPlugin on the existing plugin object id, then the chain is read *)
| OTest (t : xtest)                    (* one test run through the registry *)
| ORun (ts : list xtest)               (* one TestRegistry::runAllTests over several tests, then the chain is read *)
| ORunner (rep : nat) (ts : list xtest). (* CommandLineTestRunner::runAllTestsMain, the tests repeated rep times (-r), then the chain is read *)

Definition install (st : state) (p : plugin) : state :=
  {| s_mem := s_mem st; s_tbl := if is_sp p then [] else s_tbl st; s_reg := reg_install (s_reg st) p; s_T := s_T st |}.
Definition reps (rep : nat) (ts : list xtest) : list xtest := concat (repeat ts rep).

Definition step (st : state) (o : op) : state * list item :=
  match o with
  | OInstall n k => (do_act st (AInstall n k), [])
  | OActor n post acts => (install st (mkp (s_next st) n KPlain (RActor post acts)), [])
  | OEnable id => (do_act st (AEnable id), [])
  | ODisable id => (do_act st (ADisable id), [])
  | ORemove n => let st1 := do_act st (ARemove n) in (st1, [IChain (read_chain (s_reg st1))])
  | OReset => let st1 := do_act st AReset in (st1, [IChain (read_chain (s_reg st1))])
  | OReinstall id => let st1 := do_act st (AReinstall id) in (st1, [IChain (read_chain (s_reg st1))])
  | OTest t => match run_xtest st t with (st1, it) => (st1, [it]) end
  | ORun ts => match run_tests st ts with (st1, its) => (st1, its ++ [IChain (read_chain (s_reg st1))]) end
  | ORunner rep ts =>
      match run_tests (install st (runner_plugin (s_next st))) (reps rep ts) with
      | (st1, its) => let st2 := do_act st1 (ARemove runner_name) in (st2, its ++ [IChain (read_chain (s_reg st2))])
      end
  end.

Fixpoint run_from (st : state) (ops : list op) : list item :=
  match ops with
  | [] => []
  | o :: r => snd (step st o) ++ run_from (fst (step st o)) r
  end.
Fixpoint exec_ops (st : state) (ops : list op) : state :=
  match ops with
  | [] => st
  | o :: r => exec_ops (fst (step st o)) r
  end.
Definition init_reg : reg := {| r_chain := []; r_next := 0; r_names := []; r_out := []; r_lnk := init_links |}.
Definition init_state : state := {| s_mem := init_mem; s_tbl := []; s_reg := init_reg; s_T := [] |}.
Definition run (s : list op) : list item := run_from init_state s.

(* ---- a test without actions on a chain of plugins that only record: the plain recursion *)
Definition run_test (m : mem) (tb : table) (c : chain) (t : test) : mem * table * item :=
  let pre := pre_all c in
  match exec_test m tb t with
  | (m1, tb1, failed) =>
    match post_all c m1 tb1 with
    | (m2, tb2, post) => (m2, tb2, ITest failed pre post m2)
    end
  end.
Definition lift (t : test) : xtest := {| x_setup := map XS (t_setup t); x_body := map XS (t_body t); x_teardown := map XS (t_teardown t) |}.

(* ---------------------------------------------------------------- spec: what the property demands (model-free) *)
(* "the value it had before the test's first redirection": remember, per location, the value at its first redirection
   only; at most max_set redirections succeed (the documented limit), a further one fails the test at that statement. *)
Definition snaps := list (loc * val).
Fixpoint lookup (sv : snaps) (l : loc) : option val :=
  match sv with
  | [] => None
  | (l', v) :: r => if Nat.eqb l l' then Some v else lookup r l
  end.
Definition ref_stmt (m : mem) (sv : snaps) (n : nat) (s : stmt) : mem * snaps * nat * bool :=
  match s with
  | SSet l v => if max_set <=? n then (m, sv, n, false)
                else (upd m l v, match lookup sv l with None => (l, rd m l) :: sv | Some _ => sv end, S n, true)
  | SWrite l v => (upd m l v, sv, n, true)
  | SAbort => (m, sv, n, false)
  end.
Fixpoint ref_stmts (m : mem) (sv : snaps) (n : nat) (ss : list stmt) : mem * snaps * nat * bool :=
  match ss with
  | [] => (m, sv, n, true)
  | s :: r => match ref_stmt m sv n s with
              | (m1, sv1, n1, true) => ref_stmts m1 sv1 n1 r
              | (m1, sv1, n1, false) => (m1, sv1, n1, false)
              end
  end.
(* after the post actions: redirected locations hold their remembered value, all others what the test left there *)
Definition ref_final (m : mem) (sv : snaps) : mem :=
  map (fun l => match lookup sv l with Some v => v | None => rd m l end) (seq 0 (length m)).
Definition ref_test (m : mem) (t : test) : mem * bool :=
  match ref_stmts m [] 0 (t_setup t) with
  | (m1, sv1, n1, ok1) =>
    match (if ok1 then ref_stmts m1 sv1 n1 (t_body t) else (m1, sv1, n1, true)) with
    | (m2, sv2, n2, ok2) =>
      match ref_stmts m2 sv2 n2 (t_teardown t) with
      | (m3, sv3, _, ok3) => (ref_final m3 sv3, negb (ok1 && ok2 && ok3))
      end
    end
  end.

Fixpoint nat_list_eqb (a b : list nat) : bool :=
  match a, b with
  | [], [] => true
  | x :: a', y :: b' => Nat.eqb x y && nat_list_eqb a' b'
  | _, _ => false
  end.
Fixpoint mem_eqb (a b : mem) : bool :=
  match a, b with
  | [], [] => true
  | x :: a', y :: b' => N.eqb x y && mem_eqb a' b'
  | _, _ => false
  end.

(* the pointer statements of a test (actions on the registry neither fail nor touch a pointer) *)
Fixpoint strip_stmts (ss : list xstmt) : list stmt :=
  match ss with
  | [] => []
  | XS s :: r => s :: strip_stmts r
  | XA _ :: r => strip_stmts r
  end.
Definition strip (t : xtest) : test :=
  {| t_setup := strip_stmts (x_setup t); t_body := strip_stmts (x_body t); t_teardown := strip_stmts (x_teardown t) |}.

(* the actions a test's statements perform: those in front of the statement that leaves the phase (n = redirections done) *)
Fixpoint ref_xacts (n : nat) (ss : list xstmt) : list act * nat * bool :=
  match ss with
  | [] => ([], n, true)
  | XA a :: r => match ref_xacts n r with (l, n1, ok) => (a :: l, n1, ok) end
  | XS (SSet _ _) :: r => if max_set <=? n then ([], n, false) else ref_xacts (S n) r
  | XS (SWrite _ _) :: r => ref_xacts n r
  | XS SAbort :: r => ([], n, false)
  end.
Definition ref_test_acts (t : xtest) : list act :=
  match ref_xacts 0 (x_setup t) with
  | (a1, n1, ok1) =>
    match (if ok1 then ref_xacts n1 (x_body t) else ([], n1, true)) with
    | (a2, n2, _) =>
      match ref_xacts n2 (x_teardown t) with
      | (a3, _, _) => a1 ++ a2 ++ a3
      end
    end
  end.
(* all actions of a test on the chain c it starts with: the enabled acting plugins' pre actions head first, the
   statements', the enabled acting plugins' post actions tail first *)
Definition armed_acts (post : bool) (c : chain) : list act := flat_map (fun p => if p_on p then sel_acts post p else []) c.
Definition test_acts (c : chain) (t : xtest) : list act :=
  armed_acts false c ++ ref_test_acts t ++ armed_acts true (rev c).

(* the textbook registry: newest first, removal = all plugins of that name gone; together with the ids the actions name *)
Definition tb_step (rT : reg * list nat) (a : act) : reg * list nat :=
  (reg_act without (fst rT) a, touched_by (r_names (fst rT)) (r_next (fst rT)) a ++ snd rT).
Definition tb_acts (rT : reg * list nat) (l : list act) : reg * list nat := fold_left tb_step l rT.

(* the tests of one run against their observations: every test is seen (pre head first, post in the exact reverse) by
   the enabled plugins of the chain as the actions up to that test have left it; every redirected pointer is back *)
Fixpoint spec_tests (r : reg) (pool : mem) (ts : list xtest) (obs : list item) : option (reg * mem * list item) :=
  match ts with
  | [] => Some (r, pool, obs)
  | t :: ts' =>
      match obs with
      | ITest failed pre post pool' :: obs' =>
          let rT := tb_acts (r, []) (test_acts (r_chain r) t) in
          if Bool.eqb failed (snd (ref_test pool (strip t))) &&
             nat_list_eqb pre (filter (unnamed (snd rT)) (log_ids (r_chain r))) &&           (* installation-reversed, disabled absent *)
             nat_list_eqb post (filter (unnamed (snd rT)) (rev (log_ids (r_chain r)))) &&    (* exact reverse *)
             mem_eqb pool' (fst (ref_test pool (strip t)))
          then spec_tests (fst rT) pool' ts' obs' else None
      | _ => None
      end
  end.

Fixpoint spec_from (r : reg) (pool : mem) (ops : list op) (obs : list item) : bool :=
  match ops with
  | [] => match obs with [] => true | _ => false end
  | OInstall n k :: rest => spec_from (reg_act without r (AInstall n k)) pool rest obs
  | OActor n post acts :: rest => spec_from (reg_install r (mkp (r_next r) n KPlain (RActor post acts))) pool rest obs
  | OEnable id :: rest => spec_from (reg_act without r (AEnable id)) pool rest obs
  | ODisable id :: rest => spec_from (reg_act without r (ADisable id)) pool rest obs
  | ORemove n :: rest =>
      match obs with
      | IChain ids :: obs' => nat_list_eqb ids (map p_id (without n (r_chain r))) && spec_from (reg_act without r (ARemove n)) pool rest obs'
      | _ => false
      end
  | OReset :: rest =>
      match obs with
      | IChain [] :: obs' => spec_from (reg_act without r AReset) pool rest obs'
      | _ => false
      end
  | OReinstall id :: rest =>
      (* the object installed last is the head, in front of the chain as it was *)
      match obs with
      | IChain ids :: obs' => nat_list_eqb ids (id :: map p_id (r_chain r)) && spec_from (reg_act without r (AReinstall id)) pool rest obs'
      | _ => false
      end
  | OTest t :: rest =>
      match spec_tests r pool [t] obs with
      | Some (r', pool', obs') => spec_from r' pool' rest obs'
      | None => false
      end
  | ORun ts :: rest =>
      match spec_tests r pool ts obs with
      | Some (r', pool', IChain ids :: obs') => nat_list_eqb ids (map p_id (r_chain r')) && spec_from r' pool' rest obs'
      | _ => false
      end
  | ORunner rep ts :: rest =>
      (* whatever the registry holds: the runner's pointer plugin is on top for the run; afterwards the plugins of other
         names are all still there, in order *)
      match spec_tests (reg_install r (runner_plugin (r_next r))) pool (reps rep ts) obs with
      | Some (r', pool', IChain ids :: obs') =>
          nat_list_eqb ids (map p_id (without runner_name (r_chain r'))) &&
          spec_from (reg_act without r' (ARemove runner_name)) pool' rest obs'
      | _ => false
      end
  end.
Definition spec (s : list op) (o : list item) : bool := spec_from init_reg init_mem s o.

(* ---------------------------------------------------------------- valid scenarios *)
(* locations are pool indices.  installPlugin is handed only objects that are outside the chain (reinst_ok, acts_ok above).
   A test that uses UT_PTR_SET runs with an enabled SetPointerPlugin in the chain that no
   action of the test names, and no SetPointerPlugin is constructed while it runs (otherwise nothing promises a restore).
   An acting plugin is named only by itself and only in the last of its actions (so that it is beyond doubt which
   actions a test performs). *)
Definition sp_active (c : chain) : bool :=
  existsb (fun p => p_on p && match p_kind p with KSetPtr => true | KPlain => false end) c.
Definition stmt_ok (s : stmt) : bool :=
  match s with SSet l v | SWrite l v => (l <? pool_size) && N.ltb v 18446744073709551616%N | SAbort => true end.
Definition is_set (s : stmt) : bool := match s with SSet _ _ => true | _ => false end.
Definition all_stmts (t : test) : list stmt := t_setup t ++ t_body t ++ t_teardown t.
Definition test_ok (c : chain) (t : test) : bool :=
  forallb stmt_ok (all_stmts t) && (sp_active c || negb (existsb is_set (all_stmts t))).

Definition keeps (a : act) (x : plugin) : bool :=          (* the action does not name plugin x *)
  match a with
  | AInstall _ _ => true
  | ARemove n => negb (named n x)
  | AEnable i | ADisable i | AReinstall i => negb (Nat.eqb i (p_id x))
  | AReset => false
  end.
Fixpoint xacts (ss : list xstmt) : list act :=
  match ss with
  | [] => []
  | XS _ :: r => xacts r
  | XA a :: r => a :: xacts r
  end.
Definition stmt_acts (t : xtest) : list act := xacts (x_setup t) ++ xacts (x_body t) ++ xacts (x_teardown t).
Definition all_acts (c : chain) (t : xtest) : list act := stmt_acts t ++ flat_map role_acts c.
Definition left_alone (c : chain) (t : xtest) (x : plugin) : bool :=
  forallb (fun a => keeps a x) (stmt_acts t) &&
  forallb (fun y => Nat.eqb (p_id y) (p_id x) || forallb (fun a => keeps a x) (role_acts y)) c &&
  forallb (fun a => keeps a x) (removelast (role_acts x)).
Definition sp_stable (c : chain) (t : xtest) : bool :=
  existsb (fun s => p_on s && is_sp s && forallb (fun a => keeps a s) (all_acts c t)) c &&
  negb (existsb installs_sp (all_acts c t)).
Definition xtest_ok (c : chain) (t : xtest) : bool :=
  forallb stmt_ok (all_stmts (strip t)) &&
  forallb (fun x => negb (is_actor x) || left_alone c t x) c &&
  (sp_stable c t || negb (existsb is_set (all_stmts (strip t)))).

(* re-installing: only a plugin object that exists, is outside the chain at that moment (linking in an object that is in the
   chain makes the chain circular: pre / post actions and removal then never end) and is not the command line runner's own
   (that one is destroyed when the runner returns) *)
Definition reinst_ok (r : reg) (i : nat) : bool :=
  match find_id i (r_out r) with Some p => negb (is_runner p) | None => false end.
Definition act_ok (r : reg) (a : act) : bool := match a with AReinstall i => reinst_ok r i | _ => true end.
Fixpoint acts_ok (r : reg) (l : list act) : bool :=
  match l with
  | [] => true
  | a :: l' => act_ok r a && acts_ok (reg_act without r a) l'
  end.
Fixpoint valid_tests (r : reg) (ts : list xtest) : option reg :=
  match ts with
  | [] => Some r
  | t :: ts' => if xtest_ok (r_chain r) t && acts_ok r (test_acts (r_chain r) t)
                then valid_tests (fst (tb_acts (r, []) (test_acts (r_chain r) t))) ts' else None
  end.
(* after the runner a plugin of the user that merely shares the runner's plugin name may or may not be left installed
   (the property does not say): such a session goes on with resetPlugins or ends *)
Definition runner_tail_ok (c : chain) (rest : list op) : bool :=
  negb (existsb (fun p => named runner_name p && negb (is_runner p)) c) ||
  match rest with [] => true | OReset :: _ => true | _ => false end.
Fixpoint valid_from (r : reg) (ops : list op) : bool :=
  match ops with
  | [] => true
  | OInstall n k :: rest => valid_from (reg_act without r (AInstall n k)) rest
  | OActor n post acts :: rest => valid_from (reg_install r (mkp (r_next r) n KPlain (RActor post acts))) rest
  | OEnable id :: rest => valid_from (reg_act without r (AEnable id)) rest
  | ODisable id :: rest => valid_from (reg_act without r (ADisable id)) rest
  | ORemove n :: rest => valid_from (reg_act without r (ARemove n)) rest
  | OReset :: rest => valid_from (reg_act without r AReset) rest
  | OReinstall id :: rest => reinst_ok r id && valid_from (reg_act without r (AReinstall id)) rest
  | OTest t :: rest => match valid_tests r [t] with Some r' => valid_from r' rest | None => false end
  | ORun ts :: rest => match valid_tests r ts with Some r' => valid_from r' rest | None => false end
  | ORunner rep ts :: rest =>
      (0 <? rep) &&
      match valid_tests (reg_install r (runner_plugin (r_next r))) (reps rep ts) with
      | Some r' => runner_tail_ok (r_chain r') rest && valid_from (reg_act without r' (ARemove runner_name)) rest
      | None => false
      end
  end.
Definition valid (s : list op) : bool := valid_from init_reg s.
