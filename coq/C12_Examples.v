(* C12 -- satisfiability examples: the hypotheses of the theorems are met by non-trivial concrete vectors *)
From Coq Require Import String Ascii.
From Coq Require Import NArith ZArith Bool List Lia.
From CppUVerif Require Import gen.Gen_C12 lib.Str C13_Model C12_Model C12_Proofs C12_Meaning C12_Select C12_Checked C12_Safe C12_Apply C12_ApplyProofs C12_Seq C12_SeqProofs.
Import ListNotations.
Local Open Scope N_scope.

Definition ex_opts : list doc_opt :=
  [DVerbose; DRepeat (Some (B "3")); DGroup FExcludeStrict (B "grp"); DGroupDotName FStrict (B "Group") (B "Test");
   DTest true (B "a") (B "b"); DShuffle None; DOutput NJUnit; DPackage (B "pkg")].
Definition ex_argv : list bytes :=
  [B "-v"; B "-r"; B "3"; B "-xsggrp"; B "-st"; B "Group.Test"; B "IGNORE_TEST(a, b)"; B "-s"; B "-ojunit"; B "-k"; B "pkg"].
Example ex_meaning_hyp : forallb opt_ok ex_opts = true /\ In ex_argv (render ex_opts).
Proof. split; [vm_compute; reflexivity|]. vm_compute. repeat (first [left; reflexivity | right]). Qed.
Example ex_meaning : parse 5 (B "prog" :: ex_argv) = sem 5 ex_opts /\ exists c, sem 5 ex_opts = Accept c /\ c_repeat c = 3 /\ c_seed c = 5.
Proof. split; [vm_compute; reflexivity|]. vm_compute. eexists. split; [reflexivity|]. split; reflexivity. Qed.
Example ex_help : parse 5 [B "prog"; B "-v"; B "-h"; B "-zz"] = Reject true /\ sem 5 [DVerbose; DHelp; DColor] = Reject true.
Proof. split; vm_compute; reflexivity. Qed.
Example ex_reject : parse 5 [B "prog"; B "-ta.b.c"] = Reject false /\ run 5 [B "prog"; B "-ta.b.c"] = ORejected false 0 PUsage.
Proof. split; vm_compute; reflexivity. Qed.
Example ex_total_accept : exists c, parse 5 [B "prog"; B "TEST("; B "grp"; B "-r"; B "-3"; B "-xsn"] = Accept c.
Proof. vm_compute. eexists. reflexivity. Qed.
Example ex_filters_select : exists f, doc_says (DGroupDotName FExclude (B "grp") (B "name")) = Some f /\
  map f probes = [false; false; false; true; true; true; true; false; false; true; true; false; true; true].
Proof. vm_compute. eexists. split; reflexivity. Qed.
Example ex_filter_kinds : doc_filter_accepts (mkf (B "rp") false true) (B "grp") = false /\ doc_filter_accepts (mkf (B "rp") true true) (B "grp") = true.
Proof. split; vm_compute; reflexivity. Qed.
Example ex_selected_lists : selected (add_nf (add_gf default_config (mkf (B "gr") false false)) (mkf (B "name") true false)) (B "grp", B "name") = true.
Proof. vm_compute. reflexivity. Qed.
Example ex_spec_judges : spells [B "prog"; B "-xt"; B "grp.name"] [DGroupDotName FExclude (B "grp") (B "name")] = true /\
  valid 5 [B "prog"; B "-xt"; B "grp.name"] = true.
Proof. split; vm_compute; reflexivity. Qed.
Example ex_memory_safe : valid 5 [B "prog"; B "TEST("; B "-xt"; B "a..b"; B "-r"] = true /\
  parse_m 5 [B "prog"; B "TEST(grp"; B "-st"; B ".x"; B "-s"; B "4294967297"; B "-r-7"] = Ok (parse 5 [B "prog"; B "TEST(grp"; B "-st"; B ".x"; B "-s"; B "4294967297"; B "-r-7"]) /\
  exists c, parse 5 [B "prog"; B "TEST(grp"; B "-st"; B ".x"; B "-s"; B "4294967297"; B "-r-7"] = Accept c /\ c_seed c = 1 /\ c_repeat c = 18446744073709551609.
Proof. split; [vm_compute; reflexivity|]. split; [vm_compute; reflexivity|]. vm_compute. eexists. repeat split. Qed.
Example ex_memory_old : parse_m_old 5 [B "prog"; B "TEST(grp"] = Oob /\ valid 5 [B "prog"; B "TEST(grp"] = true.
Proof. split; vm_compute; reflexivity. Qed.
Example ex_seed : parse 5 [B "prog"; B "-s"; B "7"; B "-s"] = Accept (set_seed (set_shuf default_config true) 5) /\ parse 5 [B "prog"; B "-v"; B "-s0"] = Reject false.
Proof. split; vm_compute; reflexivity. Qed.

(* ---------------------------------------------------------------- the runner applies the configuration *)
Definition ex_av : list bytes := [B "prog"; B "-v"; B "-b"; B "-vv"; B "-r3"; B "-v"; B "-ri"; B "-p"; B "-ggrp"].
Definition ex_aopts : list doc_opt :=
  [DVerbose; DReverse; DVeryVerbose; DRepeat (Some (B "3")); DVerbose; DRunIgnored; DSepProcess; DGroup FContains (B "grp")].
Example ex_vector_applied_hyp : forallb opt_ok ex_aopts = true /\ In (tl ex_av) (render ex_aopts) /\ existsb is_help ex_aopts = false /\
  exists c, sem 5 ex_aopts = Accept c /\ c_repeat c <= REP_CAP /\ asks_list ex_aopts = false /\ asked_level ex_aopts = 2.
Proof.
  split; [vm_compute; reflexivity|]. split; [vm_compute; repeat (first [left; reflexivity | right])|]. split; [reflexivity|].
  vm_compute. eexists. split; [reflexivity|]. split; [discriminate|]. split; reflexivity.
Qed.
(* very verbose although -v comes last, three repetitions, each one backwards (ids 15 = mygrp.myname ... 0 = grp.name), the ignored
   test grp.ign (2) runs because of -ri, every started test was switched to separate-process mode *)
Example ex_applied : x_applied (xrun 5 ex_av) =
  let r := {| r_level := 2; r_color := false; r_seeds := []; r_started := [15; 10; 3; 2; 1; 0]; r_ran := [15; 10; 3; 2; 1; 0]; r_sep := [15; 10; 3; 2; 1; 0] |} in
  Some (AApplied [{| o_kind := OEclipse; o_pkg := []; o_level := 2; o_color := false |}] [] [r; r; r]).
Proof. vm_compute. reflexivity. Qed.
Example ex_applied_list : x_applied (xrun 5 [B "prog"; B "-v"; B "-lg"; B "-r2"; B "-ojunit"; B "-kpk"]) =
  Some (AApplied [{| o_kind := OJUnit; o_pkg := B "pk"; o_level := 1; o_color := false |}; {| o_kind := OEclipse; o_pkg := []; o_level := 1; o_color := false |}]
                 (B "grp grp2 Group a ab x other g1 G ig mygrp aaab Looop") []).
Proof. vm_compute. reflexivity. Qed.
Example ex_applied_skip : x_applied (xrun 5 [B "prog"; B "-r7"]) = Some ASkipped /\ x_applied (xrun 5 [B "prog"; B "-zz"]) = None.
Proof. split; vm_compute; reflexivity. Qed.
Example ex_apply_documented_hyp : c_repeat (set_shuf (set_seed default_config 7) true) <= REP_CAP /\ list_mode (set_listn default_config true) = true.
Proof. split; [discriminate | reflexivity]. Qed.
Example ex_rev_inside : exists r, In r (repeat_loop_rev_inside (set_rev default_config true) 2 (initialize_registry (set_rev default_config true) registry0) []) /\
  r_started r = natural (set_rev default_config true).
Proof. eexists. split; [right; left; reflexivity | vm_compute; reflexivity]. Qed.

(* ---------------------------------------------------------------- sequences through the static RunAllTests *)
(* the red team's demo: -zz then -pfoo, no plugins: both rejected with usage, nothing left installed; with the plugin "ok" a third vector
   -pokx -ggrp is accepted and runs the five tests of the groups *grp* that are not IGNORE_TESTs; test 0 fails *)
Definition ex_seq : scenario :=
  SSequence 5 [(2, 1)] 1 [([B "prog"; B "-zz"], []); ([B "prog"; B "-pfoo"], []); ([B "prog"; B "-pokx"; B "-ggrp"], []);
                          ([B "prog"; B "-b"; B "-ggrp"], [DReverse; DGroup FContains (B "grp")]); ([B "prog"; B "-zz"], [])].
Example ex_seq_run : yvalid ex_seq = true /\ yrun ex_seq =
  YSequence [CCall PUsage 0 [] [1]; CCall PUsage 0 [] [1]; CCall PNothing 0 [0; 1; 3; 10; 15] [1]; CCall PNothing 0 [15; 10; 3; 1; 0] [1];
             CCall PUsage 0 [] [1]] FEnd.
Proof. split; vm_compute; reflexivity. Qed.
(* the oracle refuses what the early-return runner shows on the same sequence (its leak plugin, tag 0, still in the chain), a hang, a
   rejected vector that ran a test, and the same vector rejected first and accepted later *)
Example ex_seq_spec_judges :
  yspec ex_seq (YSequence (run_calls_gen true 5 1 (initial_state [(2, 1)]) [[B "prog"; B "-zz"]]) FEnd) = false /\
  run_calls_gen true 5 1 (initial_state [(2, 1)]) [[B "prog"; B "-zz"]; [B "prog"]] = [CCall PUsage 0 [] [0; 1]; CCall PNothing 0 [0; 1; 3; 4; 6; 7; 8; 10; 11; 12; 13; 15; 16; 17] [0; 0; 1]] /\
  yspec (SSequence 5 [] 0 [([B "prog"; B "-zz"], [])]) (YSequence [] FHang) = false /\
  yspec (SSequence 5 [] 0 [([B "prog"; B "-zz"], [])]) (YSequence [CCall PUsage 0 [3] []] FEnd) = false /\
  yspec (SSequence 5 [] 0 [([B "prog"; B "-pfoo"], []); ([B "prog"; B "-pfoo"], [])]) (YSequence [CCall PUsage 0 [] []; CCall PNothing 0 [] []] FEnd) = false /\
  yspec (SSequence 5 [] 0 [([B "prog"; B "-zz"], [])]) (YSequence [CCall PUsage 0 [] []] FEnd) = true.
Proof. repeat split; vm_compute; reflexivity. Qed.
Example ex_seq_hyps : name_clash [(2, 1); (3, 0)] = false /\ forallb not_runners (user_plugins [(2, 1); (3, 0)]) = true /\
  spells [B "prog"; B "-b"; B "-ggrp"] [DReverse; DGroup FContains (B "grp")] = true /\
  is_prefix (B "-p") (B "-pokx") = true /\ (2 < length (B "-pokx"))%nat /\ existsb (fun q => kind_takes (snd q) (B "-pokx")) [(2, 1); (3, 0)] = true /\
  (exists c, sem 5 [DReverse; DGroup FContains (B "grp")] = Accept c /\ c_repeat c <= REP_CAP /\ list_mode c = false).
Proof.
  split; [reflexivity|]. split; [reflexivity|]. split; [vm_compute; reflexivity|]. split; [reflexivity|]. split; [cbn; lia|]. split; [reflexivity|].
  vm_compute. eexists. split; [reflexivity|]. split; [discriminate | reflexivity].
Qed.
(* a user plugin named like the runner's is taken out by the runner's removePluginByName (every plugin of the name): the call leaves the
   chain without it, and from then on as it is *)
Example ex_seq_clash : yrun (SSequence 5 [(0, 1); (3, 0)] 0 [([B "prog"; B "-pok"], []); ([B "prog"; B "-pok"], [])]) =
  YSequence [CCall PNothing 0 [0; 1; 3; 4; 6; 7; 8; 10; 11; 12; 13; 15; 16; 17] [2]; CCall PUsage 0 [] [2]] FEnd.
Proof. vm_compute. reflexivity. Qed.
(* -ri and -b stay with the registry: the next plain call runs the IGNORE_TESTs too, backwards (modelled; the oracle leaves it open) *)
Example ex_seq_sticky : yrun (SSequence 5 [] 0 [([B "prog"; B "-ri"; B "-b"; B "-gx"], []); ([B "prog"; B "-gx"], [])]) =
  YSequence [CCall PNothing 0 [9; 8] []; CCall PNothing 0 [9; 8] []] FEnd.
Proof. vm_compute. reflexivity. Qed.
