(* C12 -- satisfiability examples: the hypotheses of the theorems are met by non-trivial concrete vectors *)
From Coq Require Import String Ascii.
From Coq Require Import NArith ZArith Bool List.
From CppUVerif Require Import gen.Gen_C12 lib.Str C13_Model C12_Model C12_Proofs C12_Meaning C12_Select C12_Checked C12_Safe C12_Apply C12_ApplyProofs.
Import ListNotations.
Local Open Scope N_scope.

Definition ex_opts : list doc_opt :=
  [DVerbose; DRepeat (Some (B "3")); DGroup FExcludeStrict (B "grp"); DGroupDotName FStrict (B "Group") (B "Test");
   DTest true (B "a") (B "b"); DShuffle None; DOutput NJUnit; DPackage (B "pkg")].
Definition ex_argv : list bytes :=
  [B "-v"; B "-r"; B "3"; B "-xsggrp"; B "-st"; B "Group.Test"; B "IGNORE_TEST(a, b)"; B "-s"; B "-ojunit"; B "-k"; B "pkg"].
Example ex_meaning_hyp : forallb opt_ok ex_opts = true /\ In ex_argv (render ex_opts).
Proof. split; [vm_compute; reflexivity|]. vm_compute. repeat (first [left; reflexivity | right]). Qed.
Example ex_meaning : parse 5 (B "prog" :: ex_argv) = sem 5 ex_opts /\ exists c, sem 5 ex_opts = Accept c /\ c_repeat c = 3 /\ c_seed c = 5.
Proof. split; [vm_compute; reflexivity|]. vm_compute. eexists. split; [reflexivity|]. split; reflexivity. Qed.
Example ex_help : parse 5 [B "prog"; B "-v"; B "-h"; B "-zz"] = Reject true /\ sem 5 [DVerbose; DHelp; DColor] = Reject true.
Proof. split; vm_compute; reflexivity. Qed.
Example ex_reject : parse 5 [B "prog"; B "-ta.b.c"] = Reject false /\ run 5 [B "prog"; B "-ta.b.c"] = ORejected false 0 PUsage.
Proof. split; vm_compute; reflexivity. Qed.
Example ex_total_accept : exists c, parse 5 [B "prog"; B "TEST("; B "grp"; B "-r"; B "-3"; B "-xsn"] = Accept c.
Proof. vm_compute. eexists. reflexivity. Qed.
Example ex_filters_select : exists f, doc_says (DGroupDotName FExclude (B "grp") (B "name")) = Some f /\
  map f probes = [false; false; false; true; true; true; true; false; false; true; true; false; true; true].
Proof. vm_compute. eexists. split; reflexivity. Qed.
Example ex_filter_kinds : doc_filter_accepts (mkf (B "rp") false true) (B "grp") = false /\ doc_filter_accepts (mkf (B "rp") true true) (B "grp") = true.
Proof. split; vm_compute; reflexivity. Qed.
Example ex_selected_lists : selected (add_nf (add_gf default_config (mkf (B "gr") false false)) (mkf (B "name") true false)) (B "grp", B "name") = true.
Proof. vm_compute. reflexivity. Qed.
Example ex_spec_judges : spells [B "prog"; B "-xt"; B "grp.name"] [DGroupDotName FExclude (B "grp") (B "name")] = true /\
  valid 5 [B "prog"; B "-xt"; B "grp.name"] = true.
Proof. split; vm_compute; reflexivity. Qed.
Example ex_memory_safe : valid 5 [B "prog"; B "TEST("; B "-xt"; B "a..b"; B "-r"] = true /\
  parse_m 5 [B "prog"; B "TEST(grp"; B "-st"; B ".x"; B "-s"; B "4294967297"; B "-r-7"] = Ok (parse 5 [B "prog"; B "TEST(grp"; B "-st"; B ".x"; B "-s"; B "4294967297"; B "-r-7"]) /\
  exists c, parse 5 [B "prog"; B "TEST(grp"; B "-st"; B ".x"; B "-s"; B "4294967297"; B "-r-7"] = Accept c /\ c_seed c = 1 /\ c_repeat c = 18446744073709551609.
Proof. split; [vm_compute; reflexivity|]. split; [vm_compute; reflexivity|]. vm_compute. eexists. repeat split. Qed.
Example ex_memory_old : parse_m_old 5 [B "prog"; B "TEST(grp"] = Oob /\ valid 5 [B "prog"; B "TEST(grp"] = true.
Proof. split; vm_compute; reflexivity. Qed.
Example ex_seed : parse 5 [B "prog"; B "-s"; B "7"; B "-s"] = Accept (set_seed (set_shuf default_config true) 5) /\ parse 5 [B "prog"; B "-v"; B "-s0"] = Reject false.
Proof. split; vm_compute; reflexivity. Qed.

(* ---------------------------------------------------------------- the runner applies the configuration *)
Definition ex_av : list bytes := [B "prog"; B "-v"; B "-b"; B "-vv"; B "-r3"; B "-v"; B "-ri"; B "-p"; B "-ggrp"].
Definition ex_aopts : list doc_opt :=
  [DVerbose; DReverse; DVeryVerbose; DRepeat (Some (B "3")); DVerbose; DRunIgnored; DSepProcess; DGroup FContains (B "grp")].
Example ex_vector_applied_hyp : forallb opt_ok ex_aopts = true /\ In (tl ex_av) (render ex_aopts) /\ existsb is_help ex_aopts = false /\
  exists c, sem 5 ex_aopts = Accept c /\ c_repeat c <= REP_CAP /\ asks_list ex_aopts = false /\ asked_level ex_aopts = 2.
Proof.
  split; [vm_compute; reflexivity|]. split; [vm_compute; repeat (first [left; reflexivity | right])|]. split; [reflexivity|].
  vm_compute. eexists. split; [reflexivity|]. split; [discriminate|]. split; reflexivity.
Qed.
(* very verbose although -v comes last, three repetitions, each one backwards (ids 15 = mygrp.myname ... 0 = grp.name), the ignored
   test grp.ign (2) runs because of -ri, every started test was switched to separate-process mode *)
Example ex_applied : x_applied (xrun 5 ex_av) =
  let r := {| r_level := 2; r_color := false; r_seeds := []; r_started := [15; 10; 3; 2; 1; 0]; r_ran := [15; 10; 3; 2; 1; 0]; r_sep := [15; 10; 3; 2; 1; 0] |} in
  Some (AApplied [{| o_kind := OEclipse; o_pkg := []; o_level := 2; o_color := false |}] [] [r; r; r]).
Proof. vm_compute. reflexivity. Qed.
Example ex_applied_list : x_applied (xrun 5 [B "prog"; B "-v"; B "-lg"; B "-r2"; B "-ojunit"; B "-kpk"]) =
  Some (AApplied [{| o_kind := OJUnit; o_pkg := B "pk"; o_level := 1; o_color := false |}; {| o_kind := OEclipse; o_pkg := []; o_level := 1; o_color := false |}]
                 (B "grp grp2 Group a ab x other g1 G ig mygrp aaab Looop") []).
Proof. vm_compute. reflexivity. Qed.
Example ex_applied_skip : x_applied (xrun 5 [B "prog"; B "-r7"]) = Some ASkipped /\ x_applied (xrun 5 [B "prog"; B "-zz"]) = None.
Proof. split; vm_compute; reflexivity. Qed.
Example ex_apply_documented_hyp : c_repeat (set_shuf (set_seed default_config 7) true) <= REP_CAP /\ list_mode (set_listn default_config true) = true.
Proof. split; [discriminate | reflexivity]. Qed.
Example ex_rev_inside : exists r, In r (repeat_loop_rev_inside (set_rev default_config true) 2 (initialize_registry (set_rev default_config true) registry0) []) /\
  r_started r = natural (set_rev default_config true).
Proof. eexists. split; [right; left; reflexivity | vm_compute; reflexivity]. Qed.
