(* C04: the READ-ONLY member functions of the TRANSLATED MemoryLeakDetectorList (gen/Gen_HeapC04.v), run on a heap that represents
   a model bucket (C04_HeapRep.v), return FOk of the pointer / number that represents the result of the model function
   (C04_Model.v).  isInPeriod, isInAllocationStage, getLeakFrom, getLeakForAllocationStageFrom, getFirstLeak,
   getFirstLeakForAllocationStage, getNextLeak, getNextLeakForAllocationStage, getTotalLeaks, retrieveNode.
   The facts about the cells of one record (node_padd, node_next, node_period, node_memory, node_stage, ...) and about chains
   (chain_nth, chain_in_block, ...) are exported for the proofs about the storing functions. *)
From Coq Require Import ZArith NArith Bool List Lia.
From CppUVerif Require Import lib.CSem lib.CMem lib.CMemFacts lib.CHeap gen.Gen_Common gen.Gen_HeapC04 C04_Model C04_HeapRep.
Import ListNotations.
Local Open Scope Z_scope.

(* ------------------------------------------------------------------ the cells of one record *)
(* &node->member : any cell index up to one past the record *)
Lemma node_padd h b n nxt k : hblock h b = node_cells n nxt -> 0 <= k <= 9 -> hpadd h (HPtr b 0) k = Some (HPtr b k).
Proof.
  intros Hb Hk. unfold hpadd. rewrite Hb, node_cells_length. change (Z.of_nat 9) with 9. rewrite Z.add_0_l.
  destruct (Z.leb_spec 0 k) as [_|C]; [|lia]. destruct (Z.leb_spec k 9) as [_|C]; [|lia]. reflexivity.
Qed.
Lemma node_size h b n nxt : hblock h b = node_cells n nxt -> hload_int h (HPtr b 0) = Some (Z.of_N (n_size n)).
Proof. intro Hb. unfold hload_int, hload. rewrite Hb. reflexivity. Qed.
Lemma node_number h b n nxt : hblock h b = node_cells n nxt -> hload_int h (HPtr b 1) = Some (Z.of_N (n_number n)).
Proof. intro Hb. unfold hload_int, hload. rewrite Hb. reflexivity. Qed.
Lemma node_memory h b n nxt : hblock h b = node_cells n nxt -> hload_int h (HPtr b 2) = Some (Z.of_N (n_addr n)).
Proof. intro Hb. unfold hload_int, hload. rewrite Hb. reflexivity. Qed.
Lemma node_file h b n nxt : hblock h b = node_cells n nxt -> hload_int h (HPtr b 3) = Some (Z.of_N (n_file n)).
Proof. intro Hb. unfold hload_int, hload. rewrite Hb. reflexivity. Qed.
Lemma node_line h b n nxt : hblock h b = node_cells n nxt -> hload_int h (HPtr b 4) = Some (Z.of_N (n_line n)).
Proof. intro Hb. unfold hload_int, hload. rewrite Hb. reflexivity. Qed.
Lemma node_allocator h b n nxt : hblock h b = node_cells n nxt -> hload_int h (HPtr b 5) = Some (Z.of_N (n_kind n)).
Proof. intro Hb. unfold hload_int, hload. rewrite Hb. reflexivity. Qed.
Lemma node_period h b n nxt : hblock h b = node_cells n nxt -> hload_int h (HPtr b 6) = Some (stamp_code (n_period n)).
Proof. intro Hb. unfold hload_int, hload. rewrite Hb. reflexivity. Qed.
Lemma node_stage h b n nxt : hblock h b = node_cells n nxt -> hload_int h (HPtr b 7) = Some (Z.of_N (n_stage n)).
Proof. intro Hb. unfold hload_int, hload. rewrite Hb. reflexivity. Qed.
Lemma node_next h b n nxt : hblock h b = node_cells n nxt -> hload_ptr h (HPtr b 8) = Some nxt.
Proof. intro Hb. unfold hload_ptr, hload. rewrite Hb. reflexivity. Qed.
(* node->next_ in one step: the address computation and the load *)
Lemma node_next_padd h b n nxt : hblock h b = node_cells n nxt -> hpadd h (HPtr b 0) 8 = Some (HPtr b 8).
Proof. intro Hb. apply (node_padd h b n nxt 8 Hb). lia. Qed.
(* the next_ cell is the only cell a relinking store changes: the record with another successor *)
Lemma node_cells_set_next n nxt nxt' : upd (node_cells n nxt) 8 (VPtr nxt') = node_cells n nxt'.
Proof. reflexivity. Qed.

Lemma z2b_true_ptr b i : z2b (hp_bool (HPtr b i)) = true. Proof. reflexivity. Qed.
Lemma z2b_false_null : z2b (hp_bool HNull) = false. Proof. reflexivity. Qed.
Lemma of_N_eqb a b : (Z.of_N a =? Z.of_N b) = (a =? b)%N.
Proof.
  destruct (N.eqb_spec a b) as [->|Hn]; [apply Z.eqb_refl|]. apply Z.eqb_neq. intro H. apply N2Z.inj in H. contradiction.
Qed.

(* ------------------------------------------------------------------ facts about chains *)
(* the k-th record of a chain, its successor pointer and the rest of the chain *)
Lemma chain_nth h d : forall ns p bs k, chain h p bs ns -> (k < length ns)%nat ->
  exists nxt, hblock h (nth k bs 0%nat) = node_cells (nth k ns d) nxt /\ chain h nxt (skipn (S k) bs) (skipn (S k) ns).
Proof.
  induction ns as [|n ns IH]; intros p bs k Hc Hk; [cbn [length] in Hk; lia|].
  apply chain_cons_inv in Hc. destruct Hc as [b [bs' [nxt [-> [-> [Hb Hc]]]]]].
  destruct k as [|k].
  - exists nxt. split; [exact Hb | exact Hc].
  - cbn [length] in Hk. destruct (IH nxt bs' k Hc) as [nxt' [Hb' Hc']]; [lia|].
    exists nxt'. split; [exact Hb' | exact Hc'].
Qed.
(* the pointer a chain starts from: its first block, or NULL *)
Lemma chain_head h p bs ns : chain h p bs ns -> p = match bs with [] => HNull | b :: _ => HPtr b 0 end.
Proof.
  destruct ns as [|n ns]; intro Hc.
  - apply chain_nil_inv in Hc. destruct Hc as [-> ->]. reflexivity.
  - apply chain_cons_inv in Hc. destruct Hc as [b [bs' [nxt [-> [-> _]]]]]. reflexivity.
Qed.
(* every block of a chain holds the record at the same position *)
Lemma chain_in_block h : forall ns p bs b, chain h p bs ns -> In b bs -> exists n nxt, In n ns /\ hblock h b = node_cells n nxt.
Proof.
  induction ns as [|n ns IH]; intros p bs b Hc Hin.
  - apply chain_nil_inv in Hc. destruct Hc as [_ ->]. destruct Hin.
  - apply chain_cons_inv in Hc. destruct Hc as [b0 [bs' [nxt [-> [-> [Hb Hc]]]]]]. destruct Hin as [<-|Hin].
    + exists n, nxt. split; [left; reflexivity | exact Hb].
    + destruct (IH nxt bs' b Hc Hin) as [n' [nxt' [Hn Hb']]]. exists n', nxt'. split; [right; exact Hn | exact Hb'].
Qed.
Lemma skipn_length_le {A} : forall (l : list A) k, (length (skipn k l) <= length l)%nat.
Proof. intros l k. rewrite skipn_length. lia. Qed.

(* ------------------------------------------------------------------ 1, 2: the two predicates *)
Theorem src_list_isInPeriod_spec : forall fuel h this b n nxt p, hblock h b = node_cells n nxt ->
  src_list_isInPeriod fuel h this (HPtr b 0) (period_code p) = FOk (b2z (is_in_period n p)).
Proof.
  intros fuel h this b n nxt p Hb. unfold src_list_isInPeriod.
  assert (Hp : hpadd h (HPtr b 0) 6 = Some (HPtr b 6)) by (apply (node_padd h b n nxt 6 Hb); lia).
  rewrite Hp, (node_period h b n nxt Hb). unfold is_in_period.
  destruct p; destruct (n_period n); reflexivity.
Qed.

Theorem src_list_isInAllocationStage_spec : forall fuel h this b n nxt s, hblock h b = node_cells n nxt ->
  src_list_isInAllocationStage fuel h this (HPtr b 0) (Z.of_N s) = FOk (b2z (is_in_stage n s)).
Proof.
  intros fuel h this b n nxt s Hb. unfold src_list_isInAllocationStage.
  assert (Hp : hpadd h (HPtr b 0) 7 = Some (HPtr b 7)) by (apply (node_padd h b n nxt 7 Hb); lia).
  rewrite Hp, (node_stage h b n nxt Hb). unfold c_eq, is_in_stage. rewrite of_N_eqb. reflexivity.
Qed.

(* ------------------------------------------------------------------ 3: getLeakFrom / getLeakForAllocationStageFrom *)
(* what the search loops hand back: the state `cur = NULL` when nothing was found, the `return cur` otherwise *)
Definition found (q : hptr) : cres hptr hptr := if hptr_eqb q HNull then Go HNull else Done q.
Lemma found_finish q : finish (R := hptr) (A := unit)
  (match found q with Go _ => Done HNull | Done r => Done r | Oob => Oob | NoFuel => NoFuel end) = FOk q.
Proof. unfold found. destruct q as [|b i]; reflexivity. Qed.

Lemma src_list_getLeakFrom_loop1_spec : forall per ns fuel0 fuel h this p bs, chain h p bs ns -> (length ns < fuel)%nat ->
  src_list_getLeakFrom_loop1 fuel0 fuel h this (period_code per) p = found (ptr_first (fun n => is_in_period n per) bs ns).
Proof.
  intros per. induction ns as [|n ns IH]; intros fuel0 fuel h this p bs Hc Hf.
  - apply chain_nil_inv in Hc. destruct Hc as [-> ->]. destruct fuel as [|fuel]; [cbn [length] in Hf; lia|].
    cbn [src_list_getLeakFrom_loop1]. rewrite z2b_false_null. reflexivity.
  - apply chain_cons_inv in Hc. destruct Hc as [b [bs' [nxt [-> [-> [Hb Hc]]]]]].
    destruct fuel as [|fuel]; [cbn [length] in Hf; lia|]. cbn [length] in Hf.
    cbn [src_list_getLeakFrom_loop1]. rewrite z2b_true_ptr.
    rewrite (src_list_isInPeriod_spec fuel0 h this b n nxt per Hb), b2z_z2b. cbn [ptr_first].
    destruct (is_in_period n per) eqn:E.
    + reflexivity.
    + rewrite (node_next_padd h b n nxt Hb), (node_next h b n nxt Hb). apply IH; [exact Hc | lia].
Qed.
Theorem src_list_getLeakFrom_spec : forall fuel h this p bs ns per, chain h p bs ns -> (length ns < fuel)%nat ->
  src_list_getLeakFrom fuel h this p (period_code per) = FOk (ptr_first (fun n => is_in_period n per) bs ns).
Proof.
  intros fuel h this p bs ns per Hc Hf. unfold src_list_getLeakFrom. cbv zeta.
  rewrite (src_list_getLeakFrom_loop1_spec per ns fuel fuel h this p bs Hc Hf). apply found_finish.
Qed.

Lemma src_list_getLeakForAllocationStageFrom_loop1_spec : forall s ns fuel0 fuel h this p bs,
  chain h p bs ns -> (length ns < fuel)%nat ->
  src_list_getLeakForAllocationStageFrom_loop1 fuel0 fuel h this (Z.of_N s) p = found (ptr_first (fun n => is_in_stage n s) bs ns).
Proof.
  intros s. induction ns as [|n ns IH]; intros fuel0 fuel h this p bs Hc Hf.
  - apply chain_nil_inv in Hc. destruct Hc as [-> ->]. destruct fuel as [|fuel]; [cbn [length] in Hf; lia|].
    cbn [src_list_getLeakForAllocationStageFrom_loop1]. rewrite z2b_false_null. reflexivity.
  - apply chain_cons_inv in Hc. destruct Hc as [b [bs' [nxt [-> [-> [Hb Hc]]]]]].
    destruct fuel as [|fuel]; [cbn [length] in Hf; lia|]. cbn [length] in Hf.
    cbn [src_list_getLeakForAllocationStageFrom_loop1]. rewrite z2b_true_ptr.
    rewrite (src_list_isInAllocationStage_spec fuel0 h this b n nxt s Hb), b2z_z2b. cbn [ptr_first].
    destruct (is_in_stage n s) eqn:E.
    + reflexivity.
    + rewrite (node_next_padd h b n nxt Hb), (node_next h b n nxt Hb). apply IH; [exact Hc | lia].
Qed.
Theorem src_list_getLeakForAllocationStageFrom_spec : forall fuel h this p bs ns s, chain h p bs ns -> (length ns < fuel)%nat ->
  src_list_getLeakForAllocationStageFrom fuel h this p (Z.of_N s) = FOk (ptr_first (fun n => is_in_stage n s) bs ns).
Proof.
  intros fuel h this p bs ns s Hc Hf. unfold src_list_getLeakForAllocationStageFrom. cbv zeta.
  rewrite (src_list_getLeakForAllocationStageFrom_loop1_spec s ns fuel fuel h this p bs Hc Hf). apply found_finish.
Qed.

(* ------------------------------------------------------------------ 4: what ptr_first means *)
Theorem ptr_first_none : forall f bs ns, length bs = length ns -> (ptr_first f bs ns = HNull <-> l_leak_from f ns = None).
Proof.
  intros f bs ns. revert bs. induction ns as [|n ns IH]; intros bs Hl.
  - destruct bs as [|b bs]; [|discriminate Hl]. cbn. split; reflexivity.
  - destruct bs as [|b bs]; [discriminate Hl|]. cbn [ptr_first l_leak_from]. destruct (f n).
    + split; discriminate.
    + apply IH. cbn [length] in Hl. lia.
Qed.
Theorem ptr_first_some : forall h f ns p bs n, chain h p bs ns -> l_leak_from f ns = Some n ->
  exists b nxt, ptr_first f bs ns = HPtr b 0 /\ In b bs /\ hblock h b = node_cells n nxt.
Proof.
  intros h f. induction ns as [|n0 ns IH]; intros p bs n Hc Hl; [discriminate Hl|].
  apply chain_cons_inv in Hc. destruct Hc as [b [bs' [nxt [-> [-> [Hb Hc]]]]]]. cbn [ptr_first l_leak_from] in *.
  destruct (f n0).
  - inversion Hl; subst n0. exists b, nxt. split; [reflexivity|]. split; [left; reflexivity | exact Hb].
  - destruct (IH nxt bs' n Hc Hl) as [b' [nxt' [Hp [Hin Hb']]]]. exists b', nxt'.
    split; [exact Hp|]. split; [right; exact Hin | exact Hb'].
Qed.
(* the node found satisfies the predicate and is a node of the list *)
Lemma l_leak_from_some f : forall ns n, l_leak_from f ns = Some n -> In n ns /\ f n = true.
Proof.
  induction ns as [|n0 ns IH]; intros n Hl; [discriminate Hl|]. cbn [l_leak_from] in Hl. destruct (f n0) eqn:E.
  - inversion Hl; subst n0. split; [left; reflexivity | exact E].
  - destruct (IH n Hl) as [Hin Hf]. split; [right; exact Hin | exact Hf].
Qed.

(* ------------------------------------------------------------------ 5: getFirstLeak / getFirstLeakForAllocationStage *)
Theorem src_list_getFirstLeak_spec : forall fuel h this bs ns per, list_at h this bs ns -> (length ns < fuel)%nat ->
  src_list_getFirstLeak fuel h this (period_code per) = FOk (ptr_first (fun n => is_in_period n per) bs ns).
Proof.
  intros fuel h this bs ns per [hd [Hld [Hc _]]] Hf. unfold src_list_getFirstLeak.
  rewrite Hld, (src_list_getLeakFrom_spec fuel h this hd bs ns per Hc Hf). reflexivity.
Qed.
Theorem src_list_getFirstLeakForAllocationStage_spec : forall fuel h this bs ns s, list_at h this bs ns -> (length ns < fuel)%nat ->
  src_list_getFirstLeakForAllocationStage fuel h this (Z.of_N s) = FOk (ptr_first (fun n => is_in_stage n s) bs ns).
Proof.
  intros fuel h this bs ns s [hd [Hld [Hc _]]] Hf. unfold src_list_getFirstLeakForAllocationStage.
  rewrite Hld, (src_list_getLeakForAllocationStageFrom_spec fuel h this hd bs ns s Hc Hf). reflexivity.
Qed.

(* ------------------------------------------------------------------ 6: getNextLeak / getNextLeakForAllocationStage *)
Theorem src_list_getNextLeak_spec : forall fuel h this p bs ns k per, chain h p bs ns -> (k < length ns)%nat ->
  (length ns < fuel)%nat ->
  src_list_getNextLeak fuel h this (HPtr (nth k bs 0%nat) 0) (period_code per) =
  FOk (ptr_first (fun n => is_in_period n per) (skipn (S k) bs) (skipn (S k) ns)).
Proof.
  intros fuel h this p bs ns k per Hc Hk Hf. unfold src_list_getNextLeak.
  destruct (chain_nth h (mkNode 0 0 0 0 0 0 SDisabled 0) ns p bs k Hc Hk) as [nxt [Hb Hc']].
  rewrite (node_next_padd h _ _ nxt Hb), (node_next h _ _ nxt Hb).
  rewrite (src_list_getLeakFrom_spec fuel h this nxt _ _ per Hc'); [reflexivity|].
  pose proof (skipn_length_le ns (S k)). lia.
Qed.
Theorem src_list_getNextLeakForAllocationStage_spec : forall fuel h this p bs ns k s, chain h p bs ns -> (k < length ns)%nat ->
  (length ns < fuel)%nat ->
  src_list_getNextLeakForAllocationStage fuel h this (HPtr (nth k bs 0%nat) 0) (Z.of_N s) =
  FOk (ptr_first (fun n => is_in_stage n s) (skipn (S k) bs) (skipn (S k) ns)).
Proof.
  intros fuel h this p bs ns k s Hc Hk Hf. unfold src_list_getNextLeakForAllocationStage.
  destruct (chain_nth h (mkNode 0 0 0 0 0 0 SDisabled 0) ns p bs k Hc Hk) as [nxt [Hb Hc']].
  rewrite (node_next_padd h _ _ nxt Hb), (node_next h _ _ nxt Hb).
  rewrite (src_list_getLeakForAllocationStageFrom_spec fuel h this nxt _ _ s Hc'); [reflexivity|].
  pose proof (skipn_length_le ns (S k)). lia.
Qed.
(* the model's node->next_ (found by key, nodes being values there) is the rest of the list after position k *)
Theorem l_after_skipn : forall d ns k, NoDup (map n_addr ns) -> (k < length ns)%nat ->
  l_after (n_addr (nth k ns d)) ns = skipn (S k) ns.
Proof.
  intros d. induction ns as [|n ns IH]; intros k Hnd Hk; [cbn [length] in Hk; lia|].
  cbn [map] in Hnd. inversion Hnd as [|x l Hnotin Hnd']; subst x l. cbn [length] in Hk. destruct k as [|k].
  - cbn [nth l_after skipn]. rewrite N.eqb_refl. reflexivity.
  - cbn [nth l_after]. destruct (N.eqb_spec (n_addr n) (n_addr (nth k ns d))) as [E|_].
    + exfalso. apply Hnotin. rewrite E. apply in_map. apply nth_In. lia.
    + rewrite IH; [reflexivity | exact Hnd' | lia].
Qed.

(* ------------------------------------------------------------------ 7: getTotalLeaks *)
Lemma src_list_getTotalLeaks_loop1_spec : forall per ns fuel0 fuel h this p bs acc, chain h p bs ns -> (length ns < fuel)%nat ->
  0 <= acc -> acc + Z.of_nat (length ns) < 2 ^ 64 ->
  src_list_getTotalLeaks_loop1 fuel0 fuel h this (period_code per) acc p = Go (acc + Z.of_N (l_total per ns), HNull).
Proof.
  intros per. induction ns as [|n ns IH]; intros fuel0 fuel h this p bs acc Hc Hf Ha Hr.
  - apply chain_nil_inv in Hc. destruct Hc as [-> ->]. destruct fuel as [|fuel]; [cbn [length] in Hf; lia|].
    cbn [src_list_getTotalLeaks_loop1]. rewrite z2b_false_null. cbn [l_total]. change (Z.of_N 0) with 0. rewrite Z.add_0_r.
    reflexivity.
  - apply chain_cons_inv in Hc. destruct Hc as [b [bs' [nxt [-> [-> [Hb Hc]]]]]].
    destruct fuel as [|fuel]; [cbn [length] in Hf; lia|]. cbn [length] in Hf, Hr.
    cbn [src_list_getTotalLeaks_loop1]. rewrite z2b_true_ptr.
    rewrite (src_list_isInPeriod_spec fuel0 h this b n nxt per Hb), b2z_z2b. cbn [l_total].
    rewrite (node_next_padd h b n nxt Hb), (node_next h b n nxt Hb).
    destruct (is_in_period n per) eqn:E.
    + rewrite (cw_u_small 64 (acc + 1)) by lia. rewrite (IH fuel0 fuel h this nxt bs' (acc + 1) Hc) by lia.
      f_equal. f_equal. rewrite N2Z.inj_add. change (Z.of_N 1) with 1. lia.
    + rewrite (IH fuel0 fuel h this nxt bs' acc Hc) by lia. rewrite N.add_0_l. reflexivity.
Qed.
Theorem src_list_getTotalLeaks_spec : forall fuel h this bs ns per, list_at h this bs ns -> (length ns < fuel)%nat ->
  Z.of_nat (length ns) < 2 ^ 64 ->
  src_list_getTotalLeaks fuel h this (period_code per) = FOk (Z.of_N (l_total per ns)).
Proof.
  intros fuel h this bs ns per [hd [Hld [Hc _]]] Hf Hr. unfold src_list_getTotalLeaks. cbv zeta. rewrite Hld.
  rewrite (src_list_getTotalLeaks_loop1_spec per ns fuel fuel h this hd bs 0 Hc Hf) by lia. rewrite Z.add_0_l. reflexivity.
Qed.
(* the count is at most the number of records (so it fits whenever the length does) *)
Lemma l_total_le per : forall ns, (l_total per ns <= N.of_nat (length ns))%N.
Proof.
  induction ns as [|n ns IH]; [cbn; lia|]. cbn [l_total length]. destruct (is_in_period n per); lia.
Qed.

(* ------------------------------------------------------------------ 8: retrieveNode *)
Lemma src_list_retrieveNode_loop1_spec : forall a ns fuel0 fuel h p bs, chain h p bs ns -> (length ns < fuel)%nat ->
  src_list_retrieveNode_loop1 fuel0 fuel h (Z.of_N a) p = found (ptr_of a bs ns).
Proof.
  intros a. induction ns as [|n ns IH]; intros fuel0 fuel h p bs Hc Hf.
  - apply chain_nil_inv in Hc. destruct Hc as [-> ->]. destruct fuel as [|fuel]; [cbn [length] in Hf; lia|].
    cbn [src_list_retrieveNode_loop1]. rewrite z2b_false_null. reflexivity.
  - apply chain_cons_inv in Hc. destruct Hc as [b [bs' [nxt [-> [-> [Hb Hc]]]]]].
    destruct fuel as [|fuel]; [cbn [length] in Hf; lia|]. cbn [length] in Hf.
    cbn [src_list_retrieveNode_loop1]. rewrite z2b_true_ptr.
    assert (Hp : hpadd h (HPtr b 0) 2 = Some (HPtr b 2)) by (apply (node_padd h b n nxt 2 Hb); lia).
    rewrite Hp, (node_memory h b n nxt Hb). unfold c_eq. rewrite of_N_eqb, b2z_z2b. cbn [ptr_of].
    destruct (n_addr n =? a)%N.
    + reflexivity.
    + rewrite (node_next_padd h b n nxt Hb), (node_next h b n nxt Hb). apply IH; [exact Hc | lia].
Qed.
Theorem src_list_retrieveNode_spec : forall fuel h this bs ns a, list_at h this bs ns -> (length ns < fuel)%nat ->
  src_list_retrieveNode fuel h this (Z.of_N a) = FOk (ptr_of a bs ns).
Proof.
  intros fuel h this bs ns a [hd [Hld [Hc _]]] Hf. unfold src_list_retrieveNode. rewrite Hld. cbv zeta.
  rewrite (src_list_retrieveNode_loop1_spec a ns fuel fuel h hd bs Hc Hf). apply found_finish.
Qed.
Theorem ptr_of_none : forall a bs ns, length bs = length ns -> (ptr_of a bs ns = HNull <-> l_retrieve a ns = None).
Proof.
  intros a bs ns. revert bs. induction ns as [|n ns IH]; intros bs Hl.
  - destruct bs as [|b bs]; [|discriminate Hl]. cbn. split; reflexivity.
  - destruct bs as [|b bs]; [discriminate Hl|]. cbn [ptr_of l_retrieve]. destruct (n_addr n =? a)%N.
    + split; discriminate.
    + apply IH. cbn [length] in Hl. lia.
Qed.
Theorem ptr_of_some : forall h a ns p bs n, chain h p bs ns -> l_retrieve a ns = Some n ->
  exists b nxt, ptr_of a bs ns = HPtr b 0 /\ In b bs /\ hblock h b = node_cells n nxt.
Proof.
  intros h a. induction ns as [|n0 ns IH]; intros p bs n Hc Hl; [discriminate Hl|].
  apply chain_cons_inv in Hc. destruct Hc as [b [bs' [nxt [-> [-> [Hb Hc]]]]]]. cbn [ptr_of l_retrieve] in *.
  destruct (n_addr n0 =? a)%N.
  - inversion Hl; subst n0. exists b, nxt. split; [reflexivity|]. split; [left; reflexivity | exact Hb].
  - destruct (IH nxt bs' n Hc Hl) as [b' [nxt' [Hp [Hin Hb']]]]. exists b', nxt'.
    split; [exact Hp|]. split; [right; exact Hin | exact Hb'].
Qed.
(* ptr_of is ptr_first of the key test, and l_retrieve is l_leak_from of it *)
Lemma ptr_of_first a : forall ns bs, ptr_of a bs ns = ptr_first (fun n => (n_addr n =? a)%N) bs ns.
Proof.
  induction ns as [|n ns IH]; intros bs; [destruct bs; reflexivity|]. destruct bs as [|b bs]; [reflexivity|]. cbn [ptr_of ptr_first].
  rewrite IH. reflexivity.
Qed.
Lemma l_retrieve_leak_from a : forall ns, l_retrieve a ns = l_leak_from (fun n => (n_addr n =? a)%N) ns.
Proof. induction ns as [|n ns IH]; [reflexivity|]. cbn [l_retrieve l_leak_from]. rewrite IH. reflexivity. Qed.

(* ------------------------------------------------------------------ the statements are not vacuous: a concrete list *)
(* block 0: a list object; blocks 1, 2, 3: three records linked 2 -> 1 -> 3 *)
Definition ex_n1 : node := mkNode 100 8 1 7 10 0 SChecking 2.
Definition ex_n2 : node := mkNode 173 16 2 7 20 2 SDisabled 1.
Definition ex_n3 : node := mkNode 246 4 3 7 30 1 SEnabled 2.
Definition ex_heap : heap :=
  [[VPtr (HPtr 2 0)]; node_cells ex_n1 (HPtr 3 0); node_cells ex_n2 (HPtr 1 0); node_cells ex_n3 HNull].
Definition ex_bs : list nat := [2; 1; 3]%nat.
Definition ex_ns : list node := [ex_n2; ex_n1; ex_n3].

Example ex_list_at : list_at ex_heap (HPtr 0 0) ex_bs ex_ns.
Proof.
  exists (HPtr 2 0). split; [reflexivity|]. split.
  - cbn. split; [reflexivity|]. exists (HPtr 1 0). split; [reflexivity|]. split; [reflexivity|].
    exists (HPtr 3 0). split; [reflexivity|]. split; [reflexivity|]. exists HNull. split; reflexivity.
  - split; [repeat constructor; cbn; intuition discriminate|].
    split; [repeat constructor; cbv; reflexivity|].
    split; [repeat constructor; cbn; lia|]. split; [cbn; intuition discriminate | cbn; lia].
Qed.

Example ex_isInPeriod : src_list_isInPeriod 10 ex_heap (HPtr 0 0) (HPtr 1 0) (period_code PEnabled) = FOk 1.
Proof. vm_compute. reflexivity. Qed.
Example ex_isInPeriod_no : src_list_isInPeriod 10 ex_heap (HPtr 0 0) (HPtr 2 0) (period_code PEnabled) = FOk 0.
Proof. vm_compute. reflexivity. Qed.
Example ex_isInAllocationStage : src_list_isInAllocationStage 10 ex_heap (HPtr 0 0) (HPtr 2 0) 1 = FOk 1.
Proof. vm_compute. reflexivity. Qed.
Example ex_getLeakFrom : src_list_getLeakFrom 10 ex_heap (HPtr 0 0) (HPtr 2 0) (period_code PChecking) = FOk (HPtr 1 0).
Proof. vm_compute. reflexivity. Qed.
Example ex_getLeakForAllocationStageFrom : src_list_getLeakForAllocationStageFrom 10 ex_heap (HPtr 0 0) (HPtr 1 0) 1 = FOk HNull.
Proof. vm_compute. reflexivity. Qed.
Example ex_getFirstLeak : src_list_getFirstLeak 10 ex_heap (HPtr 0 0) (period_code PEnabled) = FOk (HPtr 1 0).
Proof. vm_compute. reflexivity. Qed.
Example ex_getFirstLeakForAllocationStage : src_list_getFirstLeakForAllocationStage 10 ex_heap (HPtr 0 0) 2 = FOk (HPtr 1 0).
Proof. vm_compute. reflexivity. Qed.
Example ex_getNextLeak : src_list_getNextLeak 10 ex_heap (HPtr 0 0) (HPtr 1 0) (period_code PEnabled) = FOk (HPtr 3 0).
Proof. vm_compute. reflexivity. Qed.
Example ex_getNextLeakForAllocationStage : src_list_getNextLeakForAllocationStage 10 ex_heap (HPtr 0 0) (HPtr 1 0) 2 = FOk (HPtr 3 0).
Proof. vm_compute. reflexivity. Qed.
Example ex_getNextLeak_last : src_list_getNextLeak 10 ex_heap (HPtr 0 0) (HPtr 3 0) (period_code PAll) = FOk HNull.
Proof. vm_compute. reflexivity. Qed.
Example ex_getTotalLeaks : src_list_getTotalLeaks 10 ex_heap (HPtr 0 0) (period_code PEnabled) = FOk 2.
Proof. vm_compute. reflexivity. Qed.
Example ex_getTotalLeaks_all : src_list_getTotalLeaks 10 ex_heap (HPtr 0 0) (period_code PAll) = FOk 3.
Proof. vm_compute. reflexivity. Qed.
Example ex_retrieveNode : src_list_retrieveNode 10 ex_heap (HPtr 0 0) 246 = FOk (HPtr 3 0).
Proof. vm_compute. reflexivity. Qed.
Example ex_retrieveNode_none : src_list_retrieveNode 10 ex_heap (HPtr 0 0) 27 = FOk HNull.
Proof. vm_compute. reflexivity. Qed.
(* the same results through the theorems: the model's answers on ex_ns *)
Example ex_model_total : Z.of_N (l_total PEnabled ex_ns) = 2. Proof. reflexivity. Qed.
Example ex_model_first : ptr_first (fun n => is_in_period n PEnabled) ex_bs ex_ns = HPtr 1 0. Proof. reflexivity. Qed.
Example ex_model_retrieve : ptr_of 246 ex_bs ex_ns = HPtr 3 0 /\ l_retrieve 246 ex_ns = Some ex_n3.
Proof. split; reflexivity. Qed.
(* too little fuel is reported, not turned into an answer *)
Example ex_getTotalLeaks_nofuel : src_list_getTotalLeaks 3 ex_heap (HPtr 0 0) (period_code PAll) = FNoFuel.
Proof. vm_compute. reflexivity. Qed.
