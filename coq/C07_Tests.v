(* C07 -- proofs, part 2: one plugin post-action, one test, all tests, the final report -- each against the program text *)
From Coq Require Import NArith List Bool Lia Permutation Arith.
From CppUVerif Require Import gen.Gen_Common C04_Model C04_Lists C04_Table C04_Proofs C07_Model C07_Proofs.
Import ListNotations.
Local Open Scope N_scope.

(* ------------------------------------------------------------------ between tests: every record is the text's; those made after the
   plugin was created (T0) are stamped `enabled`, those made before (P0) `disabled` *)
Section Pre.
Variable P0 : list stmt.

Definition en_recs (T0 : list stmt) : list node := rev (nodes SEnabled 0 (1 + allocs P0) T0).
Definition dis_recs (T0 : list stmt) : list node := filter (notfreed T0) (rev (nodes SDisabled 0 1 P0)).
Definition pure_recs (T0 : list stmt) : list node := en_recs T0 ++ dis_recs T0.

Record Between (w : world) (T0 : list stmt) (a : astate) : Prop := mkBetween {
  bw_R : R (w_det w) a;
  bw_recs : a_recs a = pure_recs T0;
  bw_period : a_period a = SEnabled; bw_stage : a_stage a = 0; bw_seq : a_seq a = 1 + allocs P0 + allocs T0;
  bw_ign : w_ignore w = false; bw_exp : w_expected w = 0; bw_err : w_err w = false }.

Lemma notfreed_app T0 A n : notfreed (T0 ++ A) n = notfreed T0 n && notfreed A n.
Proof. unfold notfreed. rewrite existsb_app, negb_orb. reflexivity. Qed.
Lemma filter_filter {A} (f g : A -> bool) l : filter f (filter g l) = filter (fun x => g x && f x) l.
Proof. induction l as [|x l IH]; [reflexivity|]. cbn. destruct (g x); cbn; [destruct (f x)|]; rewrite IH; reflexivity. Qed.

Lemma pure_app T0 A :
  rev (nodes SEnabled 0 (1 + allocs P0 + allocs T0) A) ++ filter (notfreed A) (pure_recs T0) = pure_recs (T0 ++ A).
Proof.
  unfold pure_recs, en_recs, dis_recs. rewrite nodes_app, rev_app_distr, <- filter_rev, filter_app, filter_filter, <- app_assoc.
  f_equal. f_equal. apply filter_ext. intros n. symmetry. apply notfreed_app.
Qed.

Lemma en_enabled T0 n : In n (en_recs T0) -> n_period n = SEnabled.
Proof. unfold en_recs. rewrite <- in_rev. apply nodes_period. Qed.
Lemma dis_disabled T0 n : In n (dis_recs T0) -> n_period n = SDisabled.
Proof. unfold dis_recs. intros H. apply filter_In in H. destruct H as [H _]. rewrite <- in_rev in H. eapply nodes_period; eassumption. Qed.
Lemma pure_not_checking T0 n : In n (pure_recs T0) -> n_period n <> SChecking.
Proof.
  unfold pure_recs. rewrite in_app_iff. intros [H|H]; [rewrite (en_enabled _ _ H)|rewrite (dis_disabled _ _ H)]; discriminate.
Qed.

Lemma R_period d a p : R d a -> R (with_period d p) (mkA (a_recs a) p (a_stage a) (a_seq a)).
Proof. unfold R. cbn. tauto. Qed.

(* statements run outside a test (another plugin's pre-action, code after the run) *)
Lemma outside_ops w T0 a A B : Between w T0 a -> valid_trace (addrs (pure_recs T0)) (A ++ B) = true ->
  exists a', Between (with_det w (fold_left mem_stmt A (w_det w))) (T0 ++ A) a' /\
             valid_trace (addrs (pure_recs (T0 ++ A))) B = true.
Proof.
  intros [HR Hrecs Hp Hs Hq Hi He Hx] HV. rewrite <- Hrecs in HV.
  destruct (mem_refines A B _ _ HR HV) as [HR' HV'].
  destruct (aexec_formula A a) as (E1 & E2 & E3 & E4). cbn zeta in *.
  rewrite Hp, Hs, Hq, Hrecs, pure_app in E1.
  exists (fold_left astep A a). split.
  - constructor; cbn [with_det w_det w_ignore w_expected w_err]; try assumption; try congruence.
    rewrite E2, Hq, allocs_app. lia.
  - rewrite <- E1. assumption.
Qed.

(* ------------------------------------------------------------------ postTestAction *)
Lemma count_split p X Y : (forall n, In n X -> applies p n = true) -> (forall n, In n Y -> applies p n = false) ->
  count p (X ++ Y) = len X.
Proof. intros HX HY. unfold count, len. rewrite filter_app, (filter_all _ X HX), (filter_none _ Y HY), app_nil_r. reflexivity. Qed.

Lemma map_demote_other Y : (forall n, In n Y -> n_period n <> SChecking) -> map demote Y = Y.
Proof.
  intros H. rewrite <- (map_id Y) at 2. apply map_ext_in. intros n Hn. apply demote_id. exact (H n Hn).
Qed.
Lemma not_checking_applies n : n_period n <> SChecking -> applies PChecking n = false.
Proof. unfold applies. destruct (n_period n); congruence. Qed.

Lemma post_spec w a X Y : R (w_det w) a -> a_recs a = X ++ Y ->
  (forall n, In n X -> n_period n = SChecking) -> (forall n, In n Y -> n_period n <> SChecking) -> w_err w = false ->
  let fire := negb (w_ignore w) && negb (w_expected w =? len X) && (w_fc0 w =? w_failures w) in
  exists d3 rep,
    post_action w = (mkW d3 false 0 (w_fc0 w) (if fire then w_failures w + 1 else w_failures w) false,
                     if fire then Some rep else None) /\
    Permutation rep X /\ R d3 (mkA (map demote X ++ Y) SEnabled (a_stage a) (a_seq a)).
Proof.
  intros HR Hrecs HX HY Herr fire.
  pose proof (R_period _ _ SEnabled HR) as HR1. set (d1 := with_period (w_det w) SEnabled) in *.
  set (a1 := mkA (a_recs a) SEnabled (a_stage a) (a_seq a)) in *.
  pose proof HR1 as (HI & HP & _ & _ & _).
  assert (Hleaks : t_total PChecking (d_tbl d1) = len X).
  { rewrite (count_perm _ _ _ HP). subst a1. cbn [a_recs]. rewrite Hrecs. apply count_split.
    - intros n Hn. unfold applies. rewrite (HX n Hn). reflexivity.
    - intros n Hn. apply not_checking_applies. exact (HY n Hn). }
  assert (Hrep : exists l, d_report PChecking d1 = Some l /\ Permutation l X).
  { eexists. split; [apply report_spec; assumption|].
    eapply perm_trans; [apply perm_filter; exact HP|]. subst a1. cbn [a_recs]. rewrite Hrecs, filter_app.
    rewrite (filter_all _ X), (filter_none _ Y), app_nil_r; [reflexivity| |].
    - intros n Hn. apply not_checking_applies. exact (HY n Hn).
    - intros n Hn. unfold applies. rewrite (HX n Hn). reflexivity. }
  destruct Hrep as (l & El & Pl).
  destruct (mark_spec d1 HI) as (t' & Em & Fm & Im).
  exists (with_tbl d1 t'), l. split; [|split; [assumption|]].
  - unfold post_action. fold d1. rewrite Hleaks, Em. fold fire. rewrite Herr.
    destruct fire; [rewrite El|]; reflexivity.
  - unfold R. cbn [with_tbl d_tbl d_period d_stage d_seq a_recs a_period a_stage a_seq].
    destruct HR1 as (_ & _ & E1 & E2 & E3). cbn in E1, E2, E3.
    split; [assumption|]. split; [|auto].
    rewrite Fm. eapply perm_trans; [apply Permutation_map; exact HP|]. subst a1. cbn [a_recs].
    rewrite Hrecs, map_app, (map_demote_other Y HY). reflexivity.
Qed.

(* ------------------------------------------------------------------ one test *)
Definition item_good (base : N) (t : ltest) (i : titem) : Prop :=
  let ex := executed t in
  let L := leaked base ex in
  if verdict ex L then
    ti_fail i = 1 /\ ti_leak i = 1 /\ Permutation (ti_entries i) L /\
    ti_noleaks i = is_nil L /\ ti_many i = false /\ ti_total i = len L
  else
    ti_fail i = own_failures ex /\ ti_leak i = 0 /\ ti_entries i = [] /\
    ti_noleaks i = false /\ ti_many i = false /\ ti_total i = 0.

Definition text_of (t : ltest) : list stmt := t_before t ++ executed t.

Lemma perm_is_nil {A} (x y : list A) : Permutation x y -> is_nil x = is_nil y.
Proof. intros H. rewrite !is_nil_len. unfold len. rewrite (Permutation_length H). reflexivity. Qed.

Lemma one_test w T0 a t rest : Between w T0 a ->
  valid_trace (addrs (pure_recs T0)) (text_of t ++ rest) = true ->
  exists a', Between (fst (run_one w t)) (T0 ++ text_of t) a' /\
             valid_trace (addrs (pure_recs (T0 ++ text_of t))) rest = true /\
             item_good (1 + allocs P0 + allocs T0 + allocs (t_before t)) t (snd (run_one w t)).
Proof.
  intros HB HV. unfold text_of in *. rewrite <- app_assoc in HV.
  destruct (outside_ops _ _ _ _ _ HB HV) as (a0 & HB0 & HV0). clear HV.
  set (w0 := with_det w (fold_left mem_stmt (t_before t) (w_det w))) in *.
  set (T1 := T0 ++ t_before t) in *.
  destruct HB0 as [HR Hrecs Hp Hs Hq Hi He Hx].
  (* preTestAction *)
  pose proof (R_period _ _ SChecking HR) as HR1.
  set (a1 := mkA (a_recs a0) SChecking (a_stage a0) (a_seq a0)) in *.
  (* the test *)
  destruct (steps_scalars (executed t) (pre_action w0)) as (F & I & E & C & X & D).
  cbn zeta in *. rewrite <- inside_spec in F, I, E, C, X, D.
  set (ex := executed t) in *.
  set (w2 := fold_left step (t_ipost t) (run_body (fold_left step (t_ipre t) (pre_action w0)) t)) in *.
  cbn [pre_action w_failures w_ignore w_expected w_fc0 w_err w_det] in F, I, E, C, X, D.
  assert (HV1 : valid_trace (addrs (a_recs a1)) (ex ++ rest) = true) by (subst a1; cbn [a_recs]; rewrite Hrecs; assumption).
  destruct (mem_refines ex rest _ _ HR1 HV1) as [HR2 HV2]. rewrite <- D in HR2.
  destruct (aexec_formula ex a1) as (E1 & E2 & E3 & E4). cbn zeta in *.
  set (a2 := fold_left astep ex a1) in *.
  subst a1. cbn [a_recs a_period a_stage a_seq] in E1, E2, E3, E4. rewrite Hs, Hq, Hrecs in E1.
  set (seq1 := 1 + allocs P0 + allocs T1) in *.
  set (X1 := rev (nodes SChecking 0 seq1 ex)) in *.
  set (Y1 := filter (notfreed ex) (pure_recs T1)) in *.
  assert (HX1 : forall n, In n X1 -> n_period n = SChecking).
  { intros n Hn. subst X1. rewrite <- in_rev in Hn. eapply nodes_period; eassumption. }
  assert (HY1 : forall n, In n Y1 -> n_period n <> SChecking).
  { intros n Hn. subst Y1. apply filter_In in Hn. eapply pure_not_checking; apply Hn. }
  assert (Herr2 : w_err w2 = false) by congruence.
  destruct (post_spec w2 a2 X1 Y1 HR2 E1 HX1 HY1 Herr2) as (d3 & rep & Epost & Prep & HR3).
  cbn zeta in Epost. rewrite I, E, C, F, Hi, He in Epost. cbn [orb] in Epost.
  assert (HlenX : len X1 = len (leaked seq1 ex)).
  { subst X1. rewrite len_rev, <- (nodes_leaked SChecking 0), len_map. reflexivity. }
  assert (Hmap : map demote X1 ++ Y1 = pure_recs (T1 ++ ex)).
  { subst X1 Y1. rewrite map_rev, nodes_demote. apply pure_app. }
  rewrite Hmap, E4, Hs, E2, Hq in HR3.
  set (L := leaked seq1 ex) in *.
  assert (Hfire : negb (asked_ignore ex) && negb (declare 0 ex =? len X1) && (w_failures w0 =? w_failures w0 + own_failures ex)
                  = verdict ex L).
  { unfold verdict. rewrite HlenX. fold L. unfold declared, declare. rewrite (N.eqb_sym (len L)).
    replace (w_failures w0 =? w_failures w0 + own_failures ex) with (own_failures ex =? 0).
    - destruct (own_failures ex =? 0), (asked_ignore ex); cbn; try reflexivity; rewrite ?andb_true_r, ?andb_false_r; reflexivity.
    - destruct (own_failures ex =? 0) eqn:Eo; symmetry; [apply N.eqb_eq; apply N.eqb_eq in Eo; lia|apply N.eqb_neq; apply N.eqb_neq in Eo; lia]. }
  rewrite Hfire in Epost.
  unfold run_one. fold w0. fold w2. rewrite Epost. cbn [fst snd].
  exists (mkA (pure_recs (T1 ++ ex)) SEnabled 0 (seq1 + allocs ex)). split; [|split].
  - subst T1. rewrite <- app_assoc in *. constructor; cbn [w_det w_ignore w_expected w_err a_recs a_period a_stage a_seq]; try reflexivity.
    + assumption.
    + subst seq1. rewrite !allocs_app. lia.
  - subst T1. rewrite <- app_assoc in *.
    rewrite <- Hmap. rewrite addrs_app, addrs_map_demote, <- addrs_app, <- E1. assumption.
  - unfold item_good. fold ex.
    replace (1 + allocs P0 + allocs T0 + allocs (t_before t)) with seq1 by (subst seq1 T1; rewrite allocs_app; lia).
    fold L.
    destruct (verdict ex L) eqn:Ev; cbn [ti_fail ti_leak ti_noleaks ti_many ti_total ti_entries w_failures].
    + unfold verdict in Ev. apply andb_true_iff in Ev. destruct Ev as [Ev _]. apply andb_true_iff in Ev. destruct Ev as [Ev _].
      apply N.eqb_eq in Ev.
      assert (PL : Permutation (map ent rep) L).
      { unfold L. rewrite <- (nodes_leaked SChecking 0). eapply perm_trans; [apply Permutation_map; exact Prep|].
        subst X1. rewrite map_rev. apply Permutation_sym, Permutation_rev. }
      repeat split; try assumption; try lia.
      * rewrite <- (perm_is_nil _ _ PL). destruct rep; reflexivity.
      * rewrite <- (len_map ent). unfold len. rewrite (Permutation_length PL). reflexivity.
    + repeat split; try reflexivity. lia.
Qed.

End Pre.
