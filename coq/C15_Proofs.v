(* C15 -- proofs: the pending-list walk of FailableMemoryAllocator fails exactly the designated allocations. *)
From Coq Require Import ZArith NArith Bool List Lia ZifyBool.
From CppUVerif Require Import lib.Str C15_Model.
Import ListNotations.
Local Open Scope Z_scope.

Lemma loc_eqb_refl l : loc_eqb l l = true.
Proof. unfold loc_eqb. rewrite bytes_eqb_refl, N.eqb_refl. reflexivity. Qed.

Lemma find_nth_ge m : forall ops n pos t, find_nth m n ops pos = Some t -> (pos <= t)%nat.
Proof.
  induction ops as [|o r IH]; simpl; intros n pos t H; [discriminate H|].
  destruct o; try (apply IH in H; lia); try discriminate H.
  destruct (m l).
  - destruct (n =? 1).
    + inversion H; lia.
    + apply IH in H; lia.
  - apply IH in H; lia.
Qed.

(* ------------------------------------------------------------------ the simulation relation *)
Definition node_desig (nd : node) : desig :=
  match n_loc nd with Some l => DL (n_num nd) l | None => DG (n_num nd) end.
(* the allocation at which a pending node will fire, by counting over the operations still to come *)
Definition node_target (g : Z) (nd : node) (suf : list op) (pos : nat) : option nat :=
  match n_loc nd with
  | Some l => find_nth (fun la => loc_eqb la l) (n_num nd - n_act nd) suf pos
  | None => find_nth (fun _ => true) (n_num nd - g) suf pos
  end.
Definition node_rel (g : Z) (suf : list op) (pos : nat) (nd : node) (e : entry) : Prop :=
  node_desig nd = e_d e /\ node_target g nd suf pos = e_tgt e.

(* pending list = the installed designations that have not fired yet, in the same order *)
Inductive M (g : Z) (suf : list op) (pos : nat) : list node -> list entry -> Prop :=
| M_nil : M g suf pos [] []
| M_fired : forall nodes e ins t, e_tgt e = Some t -> (t < pos)%nat -> M g suf pos nodes ins -> M g suf pos nodes (e :: ins)
| M_live : forall nd nodes e ins, node_rel g suf pos nd e -> M g suf pos nodes ins -> M g suf pos (nd :: nodes) (e :: ins).

Definition Inv (s : st) (g : Z) (ins : list entry) (suf : list op) (pos : nat) : Prop :=
  s_cur s = g /\ M g suf pos (s_nodes s) ins.

Lemma live_pending g suf pos nd e : node_rel g suf pos nd e -> pending pos e = true.
Proof.
  intros [_ Ht]. unfold pending. destruct (e_tgt e) as [t|] eqn:E; [|reflexivity].
  unfold node_target in Ht. destruct (n_loc nd); apply find_nth_ge in Ht; apply Nat.leb_le; exact Ht.
Qed.

Definition passive (o : op) : bool := match o with FailG _ | FailAt _ _ | Check => true | _ => false end.

Lemma node_target_passive g nd o r pos : passive o = true -> node_target g nd (o :: r) pos = node_target g nd r (S pos).
Proof. unfold node_target. destruct o; simpl; try discriminate; intros _; destruct (n_loc nd); reflexivity. Qed.

Lemma M_passive g o r pos nodes ins : passive o = true -> M g (o :: r) pos nodes ins -> M g r (S pos) nodes ins.
Proof.
  intros Hp HM. induction HM.
  - constructor.
  - eapply M_fired; eauto.
  - apply M_live; auto. destruct H as [Hd Ht]. split; auto. rewrite <- Ht. symmetry. apply node_target_passive; auto.
Qed.

Lemma hits_later m n r pos e : e_tgt e = find_nth m n r (S pos) -> hits pos e = false.
Proof.
  intros H. unfold hits. rewrite H. destruct (find_nth m n r (S pos)) as [t|] eqn:E; [|reflexivity].
  apply find_nth_ge in E. apply Nat.eqb_neq. lia.
Qed.

(* one node seeing one allocation: it fires iff the allocation is the one its designation denotes *)
Lemma sf_rel g f l r pos nd e nd' fi :
  node_rel g (Alloc f l :: r) pos nd e -> should_fail (g + 1) l nd = (nd', fi) ->
  fi = hits pos e /\ (fi = false -> node_rel (g + 1) r (S pos) nd' e).
Proof.
  destruct nd as [num act lo]. unfold node_rel, should_fail, node_target, node_desig. simpl.
  destruct lo as [l'|]; simpl.
  - destruct (loc_eqb l l') eqn:E.
    + intros [Hd Ht] H. inversion H; subst; clear H. simpl.
      destruct (num - act =? 1) eqn:E1.
      * unfold hits. rewrite <- Ht. rewrite Nat.eqb_refl. split; [lia|]. intros H; lia.
      * rewrite (hits_later _ _ _ _ _ (eq_sym Ht)). split; [lia|]. intros _. split; [exact Hd|].
        replace (num - (act + 1)) with (num - act - 1) by lia. exact Ht.
    + intros [Hd Ht] H. inversion H; subst; clear H. simpl.
      rewrite (hits_later _ _ _ _ _ (eq_sym Ht)). split; [reflexivity|]. intros _. split; assumption.
  - intros [Hd Ht] H. inversion H; subst; clear H. simpl.
    destruct (num - g =? 1) eqn:E1.
    + unfold hits. rewrite <- Ht. rewrite Nat.eqb_refl. split; [lia|]. intros H; lia.
    + rewrite (hits_later _ _ _ _ _ (eq_sym Ht)). split; [lia|]. intros _. split; [exact Hd|].
      replace (num - (g + 1)) with (num - g - 1) by lia. exact Ht.
Qed.

(* the whole walk: under the precondition (at most one installed designation denotes this allocation) the walk
   fails iff some designation denotes it, removes exactly that node and keeps every other node's count exact *)
Lemma walk_M g f l r pos nodes ins :
  M g (Alloc f l :: r) pos nodes ins ->
  forall found : bool, (length (filter (hits pos) ins) <= (if found then 0 else 1))%nat ->
  forall ns fd, walk (g + 1) l found nodes = (ns, fd) ->
  M (g + 1) r (S pos) ns ins /\ fd = found || existsb (hits pos) ins.
Proof.
  intros HM. induction HM; intros found Hc ns fd Hw.
  - simpl in Hw. inversion Hw; subst. split; [constructor|]. simpl. rewrite orb_false_r. reflexivity.
  - assert (Hh : hits pos e = false).
    { unfold hits. rewrite H. apply Nat.eqb_neq. lia. }
    simpl in Hc. rewrite Hh in Hc. destruct (IHHM found Hc ns fd Hw) as [HM' Hfd].
    split.
    + eapply M_fired; eauto.
    + simpl. rewrite Hh. exact Hfd.
  - simpl in Hw. destruct (should_fail (g + 1) l nd) as [nd' fi] eqn:Esf.
    destruct (sf_rel _ _ _ _ _ _ _ _ _ H Esf) as [Hfi Hrel].
    simpl in Hc. rewrite <- Hfi in Hc. simpl. rewrite <- Hfi.
    destruct fi; simpl in *.
    + destruct found; simpl in *; [lia|].
      assert (Hc' : (length (filter (hits pos) ins) <= 0)%nat) by lia.
      destruct (IHHM true Hc' ns fd Hw) as [HM' Hfd].
      split.
      * unfold hits in Hfi. destruct (e_tgt e) as [t|] eqn:Et; [|discriminate Hfi].
        symmetry in Hfi. apply Nat.eqb_eq in Hfi. subst t. eapply M_fired; eauto.
      * rewrite Hfd. reflexivity.
    + try rewrite andb_false_l in Hw.
      destruct (walk (g + 1) l found nodes) as [r' fd'] eqn:Ew. inversion Hw; subst; clear Hw.
      destruct (IHHM found Hc r' fd Ew) as [HM' Hfd].
      split; [apply M_live; auto|exact Hfd].
Qed.

Definition rep_of (nd : node) : report := match n_loc nd with Some l => RepL l | None => RepG (n_num nd) end.

Lemma M_check g suf pos nodes ins :
  M g suf pos nodes ins ->
  (nodes = [] -> existsb (pending pos) ins = false) /\
  (forall nd rest, nodes = nd :: rest -> existsb (fun e => pending pos e && rep_matches (e_d e) (rep_of nd)) ins = true).
Proof.
  intros HM. induction HM.
  - split; [reflexivity|]. intros nd rest H; discriminate H.
  - assert (Hp : pending pos e = false).
    { unfold pending. rewrite H. apply Nat.leb_gt. exact H0. }
    destruct IHHM as [IH1 IH2]. split.
    + intros Hn. simpl. rewrite Hp. apply IH1; exact Hn.
    + intros nd rest Hn. simpl. rewrite Hp. simpl. apply (IH2 nd rest); exact Hn.
  - split; [intros Hn; discriminate Hn|].
    intros nd0 rest Hn. inversion Hn; subst. simpl.
    rewrite (live_pending _ _ _ _ _ H). destruct H as [Hd _]. rewrite <- Hd.
    unfold node_desig, rep_of. destruct (n_loc nd0); simpl.
    + rewrite loc_eqb_refl. reflexivity.
    + rewrite Z.eqb_refl. reflexivity.
Qed.

Lemma ares_eqb_refl a : ares_eqb a a = true. Proof. destruct a; reflexivity. Qed.

(* one operation: the invariant is kept and what the model outputs is what the oracle accepts *)
Lemma step_ok s g ins o r pos :
  Inv s g ins (o :: r) pos -> step_valid ins o pos = true ->
  Inv (fst (mstep s o)) (fst (sstep g ins o r pos)) (snd (sstep g ins o r pos)) r (S pos) /\
  match snd (mstep s o) with
  | Some i => produces o = true /\ item_ok ins o pos i = true
  | None => produces o = false
  end.
Proof.
  intros [Hg HM] Hv. destruct o; simpl.
  - (* FailG *) split; [|reflexivity]. split; [exact Hg|]. simpl.
    apply M_live.
    + split; [reflexivity|]. unfold node_target, new_node, target. simpl. reflexivity.
    + apply (M_passive g (FailG n)); auto.
  - (* FailAt *) split; [|reflexivity]. split; [exact Hg|]. simpl.
    apply M_live.
    + split; [reflexivity|]. unfold node_target, new_node, target. simpl. rewrite Z.sub_0_r. reflexivity.
    + apply (M_passive g (FailAt n l)); auto.
  - (* Alloc *) simpl in Hv. apply andb_prop in Hv. destruct Hv as [Hc _]. apply Nat.leb_le in Hc.
    rewrite Hg. destruct (walk (g + 1) l false (s_nodes s)) as [ns fd] eqn:Ew. simpl.
    destruct (walk_M _ _ _ _ _ _ _ HM false Hc ns fd Ew) as [HM' Hfd]. simpl in Hfd.
    split; [split; [reflexivity|exact HM']|]. split; [reflexivity|].
    rewrite <- Hfd. unfold deliver, fail_res. destruct fd; apply ares_eqb_refl.
  - (* Check *) split.
    + split; [exact Hg|]. apply (M_passive g Check); auto.
    + split; [reflexivity|]. unfold check_report. destruct (M_check _ _ _ _ _ HM) as [H1 H2].
      destruct (s_nodes s) as [|nd rest] eqn:En.
      * simpl. rewrite (H1 eq_refl). reflexivity.
      * simpl. apply (H2 nd rest eq_refl).
  - (* Clear *) split; [|reflexivity]. split; [reflexivity|constructor].
Qed.

Lemma run_check : forall ops s g ins pos,
  Inv s g ins ops pos -> valid_from g ins ops pos = true -> check g ins ops pos (run_from s ops) = true.
Proof.
  induction ops as [|o r IH]; intros s g ins pos HI Hv; [reflexivity|].
  simpl in Hv. apply andb_prop in Hv. destruct Hv as [Hsv Hv].
  destruct (step_ok _ _ _ _ _ _ HI Hsv) as [HI' Hout].
  simpl. destruct (mstep s o) as [s' it]. destruct (sstep g ins o r pos) as [g' ins']. simpl in *.
  destruct it as [i|].
  - destruct Hout as [Hp Hok]. rewrite Hp, Hok. simpl. apply IH; assumption.
  - rewrite Hout. apply IH; assumption.
Qed.

Lemma inv0 ops : Inv st0 0 [] ops 0.
Proof. split; [reflexivity|constructor]. Qed.

(* ------------------------------------------------------------------ countdown *)
Definition a0_of (custom : bool) : alloc_id := if custom then ACustom else ADefault.
Definition CI (custom : bool) (s : cst) (arm : option arming) (k : Z) : Prop :=
  match arm with
  | None => c_counter s = -1 /\ c_orig s = None /\ get_cur s = a0_of custom
  | Some ArmOOM => c_counter s = -1 /\ c_orig s = Some (a0_of custom) /\ c_cur s = Some ANull
  | Some (ArmCount n) =>
      0 <= k /\
      if (0 <=? n) && (n <=? k)
      then c_counter s = 0 /\ c_orig s = Some (a0_of custom) /\ c_cur s = Some ANull
      else c_counter s = (if n <? 0 then n else n - k) /\ c_orig s = None /\ get_cur s = a0_of custom
  end.

Lemma a0_not_null custom : is_null (a0_of custom) = false.
Proof. destruct custom; reflexivity. Qed.
Lemma alloc_id_eqb_refl a : alloc_id_eqb a a = true. Proof. destruct a; reflexivity. Qed.

Lemma crun_check custom : forall ops s arm k,
  CI custom s arm k -> cvalid custom arm k ops = true -> ccheck custom arm k ops (crun_from s ops) = true.
Proof.
  induction ops as [|o r IH]; intros s arm k HI Hv; [reflexivity|].
  destruct o; simpl in *.
  - (* CSetOOM *) destruct arm; [discriminate Hv|]. apply IH; [|exact Hv].
    destruct HI as (Hc & Ho & Hg). unfold c_set_oom; simpl. rewrite Ho. simpl. rewrite Hg. auto.
  - (* CSetNot *) apply andb_prop in Hv. destruct Hv as [Hr Hv].
    assert (Hcur : get_cur (c_set_not s) = a0_of custom /\ CI custom (c_set_not s) None 0).
    { unfold c_set_not, get_cur, CI; simpl. destruct arm as [[|n]|]; simpl in *.
      - destruct HI as (_ & Ho & _). rewrite Ho. auto.
      - destruct HI as (Hk & HI). destruct ((0 <=? n) && (n <=? k)).
        + destruct HI as (_ & Ho & _). rewrite Ho. auto.
        + destruct HI as (_ & Ho & _). rewrite Ho. rewrite orb_false_r in Hr. destruct custom; [discriminate Hr|]. auto.
      - destruct HI as (_ & Ho & _). rewrite Ho. rewrite orb_false_r in Hr. destruct custom; [discriminate Hr|]. auto. }
    destruct Hcur as [Hcur HI']. rewrite Hcur. unfold a0_of at 1. rewrite alloc_id_eqb_refl. simpl.
    apply IH; assumption.
  - (* CCountdown *) destruct arm; [discriminate Hv|]. apply IH; [|exact Hv].
    destruct HI as (Hc & Ho & Hg). unfold c_countdown_arm, CI.
    split; [lia|].
    destruct (n =? 0) eqn:En.
    + assert (n = 0) by lia. subst n. simpl. unfold c_set_oom; simpl. rewrite Ho. unfold get_cur in *. simpl. rewrite Hg. auto.
    + destruct (0 <=? n) eqn:E0; simpl.
      * destruct (n <=? 0) eqn:E1; [lia|]. simpl. destruct (n <? 0) eqn:E2; [lia|]. split; [lia|]. auto.
      * destruct (n <? 0) eqn:E2; [|lia]. auto.
  - (* CAlloc *)
    assert (Hs : is_null (get_cur (c_tick s)) = oom_at arm (k + 1) /\ CI custom (c_tick s) arm (k + 1)).
    { unfold c_tick, oom_at, CI in *. destruct arm as [[|n]|].
      - destruct HI as (Hc & Ho & Hcu). rewrite Hc. simpl. unfold get_cur. rewrite Hcu. auto.
      - destruct HI as (Hk & HI).
        destruct ((0 <=? n) && (n <=? k)) eqn:E.
        + destruct HI as (Hc & Ho & Hcu). rewrite Hc. simpl. unfold get_cur. rewrite Hcu. simpl.
          assert (E' : (0 <=? n) && (n <=? k + 1) = true) by lia. rewrite E'. split; [reflexivity|]. split; [lia|]. auto.
        + destruct HI as (Hc & Ho & Hcu). rewrite Hc.
          destruct (n <? 0) eqn:E2.
          * assert (E3 : n <=? -1 = true) by lia. rewrite E3.
            assert (E' : (0 <=? n) && (n <=? k + 1) = false) by lia. rewrite E'. rewrite Hcu, a0_not_null.
            split; [reflexivity|]. split; [lia|]. try rewrite E2. auto.
          * assert (E3 : n - k <=? -1 = false) by lia. rewrite E3.
            assert (E4 : n - k =? 0 = false) by lia. rewrite E4. simpl.
            destruct (n - k - 1 =? 0) eqn:E5.
            -- assert (E' : (0 <=? n) && (n <=? k + 1) = true) by lia. rewrite E'.
               unfold c_set_oom, get_cur; simpl. rewrite Ho. split; [reflexivity|]. split; [lia|].
               split; [lia|]. unfold get_cur in Hcu. simpl. rewrite Hcu. auto.
            -- assert (E' : (0 <=? n) && (n <=? k + 1) = false) by lia. rewrite E'.
               unfold get_cur in *; simpl. rewrite Hcu, a0_not_null. split; [reflexivity|]. split; [lia|].
               try rewrite E2. split; [lia|]. auto.
      - destruct HI as (Hc & Ho & Hcu). rewrite Hc. simpl. rewrite Hcu, a0_not_null. auto. }
    destruct Hs as [Hn HI']. rewrite Hn. unfold cdeliver.
    destruct (oom_at arm (k + 1)); simpl; apply IH; assumption.
Qed.

Lemma ci0 custom : CI custom (cst0 custom) None 0.
Proof. unfold CI, cst0, get_cur, a0_of; simpl. auto. Qed.

(* run_meets_spec (all three scenario kinds) is at the end of C15_Release.v *)

(* ------------------------------------------------------------------ Prop-level readings *)
Lemma ares_eqb_eq a b : ares_eqb a b = true -> a = b.
Proof. destruct a, b; simpl; intros H; try reflexivity; discriminate H. Qed.

Lemma check_allocs : forall ops g ins pos obs,
  check g ins ops pos obs = true -> alloc_results obs = expected_allocs g ins ops pos.
Proof.
  induction ops as [|o r IH]; intros g ins pos obs H; simpl in *.
  - destruct obs; [reflexivity|discriminate H].
  - destruct (sstep g ins o r pos) as [g' ins'] eqn:Es.
    destruct o; simpl in *; try (apply IH; exact H).
    + destruct obs as [|it obs']; [discriminate H|]. apply andb_prop in H. destruct H as [Hi Hc].
      destruct it; try discriminate Hi. simpl. apply ares_eqb_eq in Hi. rewrite Hi. f_equal. apply IH; exact Hc.
    + destruct obs as [|it obs']; [discriminate H|]. apply andb_prop in H. destruct H as [Hi Hc].
      destruct it; try discriminate Hi. simpl. apply IH; exact Hc.
Qed.

Lemma existsb_weaken {A} (p q : A -> bool) l : existsb (fun x => p x && q x) l = true -> existsb p l = true.
Proof.
  induction l as [|x t IH]; simpl; intros H; [discriminate H|].
  apply orb_prop in H. destruct H as [H|H].
  - apply andb_prop in H. destruct H as [H _]. rewrite H. reflexivity.
  - rewrite (IH H). apply orb_true_r.
Qed.

Lemma check_checks : forall ops g ins pos obs,
  check g ins ops pos obs = true -> check_flags obs = expected_checks g ins ops pos.
Proof.
  induction ops as [|o r IH]; intros g ins pos obs H; simpl in *.
  - destruct obs; [reflexivity|discriminate H].
  - destruct (sstep g ins o r pos) as [g' ins'] eqn:Es.
    destruct o; simpl in *; try (apply IH; exact H).
    + destruct obs as [|it obs']; [discriminate H|]. apply andb_prop in H. destruct H as [Hi Hc].
      destruct it; try discriminate Hi. simpl. apply IH; exact Hc.
    + destruct obs as [|it obs']; [discriminate H|]. apply andb_prop in H. destruct H as [Hi Hc].
      destruct it as [? | rep | ? | ? ? | ? ? ? | ? ? | ? ? | ? ? ? | ?]; try discriminate Hi. simpl. destruct rep as [rp|].
      * apply existsb_weaken in Hi. rewrite Hi. f_equal. apply IH; exact Hc.
      * apply negb_true_iff in Hi. rewrite Hi. f_equal. apply IH; exact Hc.
Qed.

Theorem exactly_designated : forall ops,
  valid_from 0 [] ops 0 = true -> alloc_results (run_from st0 ops) = expected_allocs 0 [] ops 0.
Proof. intros ops Hv. apply check_allocs. apply run_check; [apply inv0|exact Hv]. Qed.

Theorem never_done_reported : forall ops,
  valid_from 0 [] ops 0 = true -> check_flags (run_from st0 ops) = expected_checks 0 [] ops 0.
Proof. intros ops Hv. apply check_checks. apply run_check; [apply inv0|exact Hv]. Qed.

(* the installed designations (with the allocations they denote) after a prefix of the history *)
Fixpoint srun (g : Z) (ins : list entry) (pre suf : list op) (pos : nat) : Z * list entry :=
  match pre with
  | [] => (g, ins)
  | o :: r => let (g', ins') := sstep g ins o (r ++ suf) pos in srun g' ins' r suf (S pos)
  end.

Lemma sim_prefix : forall pre suf s g ins pos,
  Inv s g ins (pre ++ suf) pos -> valid_from g ins (pre ++ suf) pos = true ->
  Inv (mrun s pre) (fst (srun g ins pre suf pos)) (snd (srun g ins pre suf pos)) suf (pos + length pre)
  /\ valid_from (fst (srun g ins pre suf pos)) (snd (srun g ins pre suf pos)) suf (pos + length pre) = true.
Proof.
  induction pre as [|o r IH]; intros suf s g ins pos HI Hv; simpl in *.
  - rewrite Nat.add_0_r. split; assumption.
  - apply andb_prop in Hv. destruct Hv as [Hsv Hv].
    destruct (step_ok _ _ _ _ _ _ HI Hsv) as [HI' _].
    destruct (sstep g ins o (r ++ suf) pos) as [g' ins']. simpl in *.
    replace (pos + S (length r))%nat with (S pos + length r)%nat by lia.
    apply IH; assumption.
Qed.

(* the failure names a designation that is really still waiting *)
Theorem never_done_names_pending : forall pre suf rp,
  valid_from 0 [] (pre ++ Check :: suf) 0 = true -> check_report (mrun st0 pre) = Some rp ->
  exists e, In e (snd (srun 0 [] pre (Check :: suf) 0)) /\ pending (length pre) e = true /\ rep_matches (e_d e) rp = true.
Proof.
  intros pre suf rp Hv Hr.
  destruct (sim_prefix pre (Check :: suf) st0 0 [] 0%nat (inv0 _) Hv) as [[_ HM] _]. simpl in HM.
  unfold check_report in Hr.
  destruct (s_nodes (mrun st0 pre)) as [|nd rest] eqn:En; [discriminate Hr|]. inversion Hr; subst rp; clear Hr.
  destruct (M_check _ _ _ _ _ HM) as [_ H2]. specialize (H2 nd rest eq_refl).
  apply existsb_exists in H2. destruct H2 as (e & Hin & Hb). apply andb_prop in Hb. destruct Hb as [Hp Hm].
  exists e. unfold rep_of in Hm. auto.
Qed.

(* at any point of any valid history: the next allocation fails iff an installed designation denotes it *)
Theorem next_alloc_fails_iff : forall pre f l suf,
  valid_from 0 [] (pre ++ Alloc f l :: suf) 0 = true ->
  snd (mstep (mrun st0 pre) (Alloc f l)) =
  Some (OAlloc (if existsb (hits (length pre)) (snd (srun 0 [] pre (Alloc f l :: suf) 0)) then fail_res f else ROk)).
Proof.
  intros pre f l suf Hv.
  destruct (sim_prefix pre (Alloc f l :: suf) st0 0 [] 0%nat (inv0 _) Hv) as [HI Hv']. simpl in HI, Hv'.
  apply andb_prop in Hv'. destruct Hv' as [Hsv _].
  destruct (step_ok _ _ _ _ _ _ HI Hsv) as [_ Hout].
  destruct (snd (mstep (mrun st0 pre) (Alloc f l))) as [i|] eqn:Ei.
  - destruct Hout as [_ Hok]. simpl in Hok. destruct i; try discriminate Hok. apply ares_eqb_eq in Hok. rewrite Hok. reflexivity.
  - simpl in Hout. discriminate Hout.
Qed.

Lemma run_from_app : forall pre s suf, run_from s (pre ++ suf) = run_from s pre ++ run_from (mrun s pre) suf.
Proof.
  induction pre as [|o r IH]; intros s suf; simpl; [reflexivity|].
  destruct (mstep s o) as [s' it]. simpl. destruct it; simpl; rewrite IH; reflexivity.
Qed.

(* clearing restores the initial behaviour whatever happened before *)
Theorem clear_restores : forall pre suf,
  run_from st0 (pre ++ Clear :: suf) = run_from st0 pre ++ run_from st0 suf.
Proof. intros pre suf. rewrite run_from_app. reflexivity. Qed.

Theorem clear_restores_spec : forall g ins suf pos, sstep g ins Clear suf pos = (0, []).
Proof. reflexivity. Qed.

(* ---- countdown, closed form *)
Lemma tick_ok custom s arm k :
  CI custom s arm k -> is_null (get_cur (c_tick s)) = oom_at arm (k + 1) /\ CI custom (c_tick s) arm (k + 1).
Proof.
  intros HI. unfold c_tick, oom_at, CI in *. destruct arm as [[|n]|].
  - destruct HI as (Hc & Ho & Hcu). rewrite Hc. simpl. unfold get_cur. rewrite Hcu. auto.
  - destruct HI as (Hk & HI).
    destruct ((0 <=? n) && (n <=? k)) eqn:E.
    + destruct HI as (Hc & Ho & Hcu). rewrite Hc. simpl. unfold get_cur. rewrite Hcu. simpl.
      assert (E' : (0 <=? n) && (n <=? k + 1) = true) by lia. rewrite E'. split; [reflexivity|]. split; [lia|]. auto.
    + destruct HI as (Hc & Ho & Hcu). rewrite Hc.
      destruct (n <? 0) eqn:E2.
      * assert (E3 : n <=? -1 = true) by lia. rewrite E3.
        assert (E' : (0 <=? n) && (n <=? k + 1) = false) by lia. rewrite E'. rewrite Hcu, a0_not_null.
        split; [reflexivity|]. split; [lia|]. auto.
      * assert (E3 : n - k <=? -1 = false) by lia. rewrite E3.
        assert (E4 : n - k =? 0 = false) by lia. rewrite E4. simpl.
        destruct (n - k - 1 =? 0) eqn:E5.
        -- assert (E' : (0 <=? n) && (n <=? k + 1) = true) by lia. rewrite E'.
           unfold c_set_oom, get_cur; simpl. rewrite Ho. split; [reflexivity|]. split; [lia|].
           split; [lia|]. unfold get_cur in Hcu. simpl. rewrite Hcu. auto.
        -- assert (E' : (0 <=? n) && (n <=? k + 1) = false) by lia. rewrite E'.
           unfold get_cur in *; simpl. rewrite Hcu, a0_not_null. split; [reflexivity|]. split; [lia|].
           split; [lia|]. auto.
  - destruct HI as (Hc & Ho & Hcu). rewrite Hc. simpl. rewrite Hcu, a0_not_null. auto.
Qed.

Lemma allocs_closed custom : forall fams s arm k,
  CI custom s arm k ->
  alloc_results (crun_from s (map CAlloc fams)) =
  map (fun i => if oom_at arm i then RNull else ROk) (zseq (k + 1) (length fams)).
Proof.
  induction fams as [|f r IH]; intros s arm k HI; [reflexivity|].
  simpl. destruct (tick_ok _ _ _ _ HI) as [Hn HI']. rewrite Hn. unfold cdeliver. f_equal.
  apply IH. exact HI'.
Qed.

Lemma arm_ok custom s n : CI custom s None 0 -> CI custom (c_countdown_arm s n) (Some (ArmCount n)) 0.
Proof.
  intros (Hc & Ho & Hg). unfold c_countdown_arm, CI.
  split; [lia|].
  destruct (n =? 0) eqn:En.
  - assert (n = 0) by lia. subst n. simpl. unfold c_set_oom; simpl. rewrite Ho. unfold get_cur in *. simpl. rewrite Hg. auto.
  - destruct (0 <=? n) eqn:E0; simpl.
    + destruct (n <=? 0) eqn:E1; [lia|]. simpl. destruct (n <? 0) eqn:E2; [lia|]. split; [lia|]. auto.
    + destruct (n <? 0) eqn:E2; [|lia]. auto.
Qed.

(* countdown n armed from a clean state: allocation i (1-based) fails iff 0 <= n <= i, whatever the wrappers used *)
Theorem countdown_closed : forall custom n fams,
  alloc_results (run (SCount custom (CCountdown n :: map CAlloc fams))) =
  map (fun i => if (0 <=? n) && (n <=? i) then RNull else ROk) (zseq 1 (length fams)).
Proof.
  intros custom n fams. simpl.
  apply (allocs_closed custom fams (c_countdown_arm (cst0 custom) n) (Some (ArmCount n)) 0).
  apply arm_ok. apply ci0.
Qed.

Theorem countdown_all_histories : forall custom cops,
  cvalid custom None 0 cops = true -> ccheck custom None 0 cops (crun_from (cst0 custom) cops) = true.
Proof. intros. apply crun_check; [apply ci0|assumption]. Qed.

(* ---- wrappers *)
Theorem wrappers_null : (forall f, deliver f true = fail_res f /\ deliver f true <> RCrash /\ deliver f true <> ROk)
                        /\ (forall cf, cdeliver cf true = RNull).
Proof. split; [intros f; destruct f; simpl; repeat split; discriminate | intros cf; reflexivity]. Qed.

Definition wrappers_null_old_stmt : Prop :=
  (forall f, deliver_old f true <> RCrash) /\ (forall cf, cdeliver_old cf true = RNull).
Theorem wrappers_null_old_refuted : ~ wrappers_null_old_stmt.
Proof. intros [H _]. apply (H FStrdup). reflexivity. Qed.

(* ---- the code before the repairs *)
Definition exactly_designated_old_stmt : Prop :=
  forall ops, valid_from 0 [] ops 0 = true -> check 0 [] ops 0 (run_from_old st0 ops) = true.
Definition la : loc := ([97; 46; 99]%N, 10%N).
Definition lb : loc := ([98; 46; 99]%N, 20%N).
(* D6: failNthAllocAt(2, a.c:10), then two allocations at b.c:20 -- the second one failed *)
Definition witness_D6 : list op := [FailAt 2 la; Alloc FDirect lb; Alloc FDirect lb].
(* D7: failNthAllocAt(2, L) then failNthAllocAt(1, L), four allocations at L -- the 1st and 3rd failed *)
Definition witness_D7 : list op := [FailAt 2 la; FailAt 1 la; Alloc FMalloc la; Alloc FMalloc la; Alloc FMalloc la; Alloc FMalloc la].
Theorem exactly_designated_old_refuted_D6 : ~ exactly_designated_old_stmt.
Proof. intros H. specialize (H witness_D6 eq_refl). vm_compute in H. discriminate H. Qed.
Theorem exactly_designated_old_refuted_D7 : ~ exactly_designated_old_stmt.
Proof. intros H. specialize (H witness_D7 eq_refl). vm_compute in H. discriminate H. Qed.

(* ---- the hypotheses of the theorems are satisfiable by non-trivial scenarios *)
Example ex_valid_mixed :
  valid (SFail [FailAt 2 la; FailG 1; FailAt 1 la; Alloc FNew lb; Alloc FMalloc la; Check; Alloc FMalloc la; Check; Clear; Alloc FDirect la]) = true
  /\ run (SFail [FailAt 2 la; FailG 1; FailAt 1 la; Alloc FNew lb; Alloc FMalloc la; Check; Alloc FMalloc la; Check; Clear; Alloc FDirect la])
     = [OAlloc RBadAlloc; OAlloc RNull; OCheck (Some (RepL la)); OAlloc RNull; OCheck None; OAlloc ROk].
Proof. split; vm_compute; reflexivity. Qed.
Example ex_valid_D7 : valid (SFail witness_D7) = true /\ alloc_results (run (SFail witness_D7)) = [RNull; RNull; ROk; ROk].
Proof. split; vm_compute; reflexivity. Qed.
Example ex_valid_count :
  valid (SCount true [CCountdown 2; CAlloc CMalloc; CAlloc CStrdup; CAlloc CCalloc; CSetNot; CAlloc CMalloc]) = true
  /\ run (SCount true [CCountdown 2; CAlloc CMalloc; CAlloc CStrdup; CAlloc CCalloc; CSetNot; CAlloc CMalloc])
     = [OAlloc ROk; OAlloc RNull; OAlloc RNull; OReset ACustom; OAlloc ROk].
Proof. split; vm_compute; reflexivity. Qed.
