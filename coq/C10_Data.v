(* C10 -- what one detector operation does to the table, seen from its own thread and from the others. *)
From Coq Require Import NArith Arith Bool List Lia.
From CppUVerif Require Import C10_Wiring gen.Gen_C10 C10_Model C10_Steps C10_Lock.
Import ListNotations.

(* ---------------------------------------------------------------- slots *)
Lemma slot_get_del_same : forall k sl, slot_get k (slot_del k sl) = None.
Proof.
  induction sl as [|[k' v] r IH]; simpl; auto.
  destruct (Nat.eqb_spec k' k); simpl; auto. destruct (Nat.eqb_spec k' k); auto; congruence.
Qed.
Lemma slot_get_del_other : forall k k' sl, k <> k' -> slot_get k' (slot_del k sl) = slot_get k' sl.
Proof.
  induction sl as [|[k2 v] r IH]; simpl; auto. intros Hne.
  destruct (Nat.eqb_spec k2 k); simpl.
  - subst. destruct (Nat.eqb_spec k k'); auto; congruence.
  - destruct (Nat.eqb_spec k2 k'); auto.
Qed.
Lemma slot_get_set_same : forall k v sl, slot_get k (slot_set k v sl) = Some v.
Proof. intros. unfold slot_set. simpl. rewrite Nat.eqb_refl. auto. Qed.
Lemma slot_get_set_other : forall k k' v sl, k <> k' -> slot_get k' (slot_set k v sl) = slot_get k' sl.
Proof. intros. unfold slot_set. simpl. destruct (Nat.eqb_spec k k'); [congruence|]. apply slot_get_del_other; auto. Qed.

Lemma slot_get_In : forall k v sl, slot_get k sl = Some v -> In (k, v) sl.
Proof.
  induction sl as [|[k' v'] r IH]; simpl; intros H; [discriminate|].
  destruct (Nat.eqb_spec k' k); [inversion H; subst; auto | auto].
Qed.
Lemma In_slot_get : forall k v sl, NoDup (map fst sl) -> In (k, v) sl -> slot_get k sl = Some v.
Proof.
  induction sl as [|[k' v'] r IH]; simpl; intros Hnd Hin; [tauto|].
  inversion Hnd; subst. destruct Hin as [E|Hin].
  - inversion E; subst. rewrite Nat.eqb_refl. auto.
  - destruct (Nat.eqb_spec k' k); auto. subst. exfalso. apply H1. change k with (fst (k, v)). apply in_map; auto.
Qed.
Lemma slot_del_keys : forall k sl, NoDup (map fst sl) -> NoDup (map fst (slot_del k sl)) /\ ~ In k (map fst (slot_del k sl)).
Proof.
  induction sl as [|[k' v'] r IH]; simpl; intros Hnd; [split; [constructor|tauto]|].
  inversion Hnd; subst. destruct (IH H2) as (IH1 & IH2).
  destruct (Nat.eqb_spec k' k); simpl; auto.
  split.
  - constructor; auto. intros Hin. apply H1. clear -Hin. induction r as [|[a b] r IH]; simpl in *; auto.
    destruct (Nat.eqb a k); simpl in *; tauto.
  - intros [E|Hin]; auto.
Qed.
Lemma slot_set_keys : forall k v sl, NoDup (map fst sl) -> NoDup (map fst (slot_set k v sl)).
Proof. intros. unfold slot_set. simpl. destruct (slot_del_keys k sl H). constructor; auto. Qed.

(* ---------------------------------------------------------------- the table *)
Definition tkey (x : tentry) : nat * nat := (t_owner x, t_slot x).

Lemma key_is_spec : forall t k x, key_is t k x = true <-> tkey x = (t, k).
Proof.
  intros. unfold key_is, tkey. rewrite andb_true_iff, !Nat.eqb_eq. split.
  - intros [-> ->]; auto.
  - intros E; inversion E; auto.
Qed.

Lemma tbl_find_remove_same : forall t k tb, tbl_find t k (tbl_remove t k tb) = None.
Proof.
  induction tb as [|x r IH]; simpl; auto.
  destruct (key_is t k x) eqn:E; simpl; auto. rewrite E. auto.
Qed.
Lemma tbl_find_remove_other : forall t k t' k' tb, (t, k) <> (t', k') -> tbl_find t' k' (tbl_remove t k tb) = tbl_find t' k' tb.
Proof.
  induction tb as [|x r IH]; simpl; auto. intros Hne.
  destruct (key_is t k x) eqn:E; simpl.
  - destruct (key_is t' k' x) eqn:E2; auto. apply key_is_spec in E. apply key_is_spec in E2. congruence.
  - destruct (key_is t' k' x); auto.
Qed.
Lemma tbl_remove_In : forall t k x tb, In x (tbl_remove t k tb) -> In x tb /\ tkey x <> (t, k).
Proof.
  unfold tbl_remove. intros. apply filter_In in H. destruct H as (H1 & H2). split; auto.
  intros E. apply key_is_spec in E. rewrite E in H2. discriminate.
Qed.
Lemma tbl_remove_keys : forall t k tb, NoDup (map tkey tb) -> NoDup (map tkey (tbl_remove t k tb)).
Proof.
  induction tb as [|x r IH]; simpl; intros H; auto. inversion H; subst.
  destruct (key_is t k x); simpl; auto. constructor; auto.
  intros Hin. apply H2. apply in_map_iff in Hin. destruct Hin as (y & E & Hy). apply tbl_remove_In in Hy. apply in_map_iff. exists y; tauto.
Qed.
Lemma tbl_remove_seqs : forall t k tb, NoDup (map t_seq tb) -> NoDup (map t_seq (tbl_remove t k tb)).
Proof.
  induction tb as [|x r IH]; simpl; intros H; auto. inversion H; subst.
  destruct (key_is t k x); simpl; auto. constructor; auto.
  intros Hin. apply H2. apply in_map_iff in Hin. destruct Hin as (y & E & Hy). apply tbl_remove_In in Hy. apply in_map_iff. exists y; tauto.
Qed.
Lemma tbl_find_None_notin : forall t k tb, tbl_find t k tb = None -> ~ In (t, k) (map tkey tb).
Proof.
  intros t k tb H Hin. apply in_map_iff in Hin. destruct Hin as (x & E & Hx).
  unfold tbl_find in H. eapply find_none in H; eauto. apply key_is_spec in E. congruence.
Qed.
Lemma tbl_find_In : forall x tb, NoDup (map tkey tb) -> In x tb -> tbl_find (t_owner x) (t_slot x) tb = Some x.
Proof.
  induction tb as [|y r IH]; simpl; intros Hnd Hin; [tauto|].
  inversion Hnd; subst. destruct Hin as [->|Hin].
  - replace (key_is (t_owner x) (t_slot x) x) with true; auto. symmetry. apply key_is_spec. reflexivity.
  - destruct (key_is (t_owner x) (t_slot x) y) eqn:E; auto.
    apply key_is_spec in E. exfalso. apply H1. rewrite E. change (t_owner x, t_slot x) with (tkey x). apply in_map; auto.
Qed.

(* ---------------------------------------------------------------- table and thread agree on what the thread holds *)
Definition info (x : tentry) : N * fam := (t_size x, t_fam x).
Definition sinfo (si : slotinfo) : N * fam := (s_size si, s_fam si).
Definition agree (t : nat) (L : local) (tb : list tentry) : Prop :=
  forall k, option_map info (tbl_find t k tb) = option_map sinfo (slot_get k (l_slots L)).

(* what the script promises about the operation it is about to run *)
Definition op_ok (o : op) (L : local) : Prop :=
  match o with
  | OAlloc k _ e => is_alloc_entry e = true /\ slot_get k (l_slots L) = None
  | OFree _ e => is_release_entry e = true
  | OWild e => is_wild_entry e = true
  | ORefused k _ => match slot_get k (l_slots L) with
                    | None => True
                    | Some si => s_fam si = FMalloc /\ s_bad si = false
                    end
  | _ => True
  end.

Definition wiring_good (c : cfg) : Prop :=
  forall e, w_locks (wrapper_of c e) = true /\ w_action (wrapper_of c e) = textbook_action e.

Lemma fam_eqb_eq : forall a b, fam_eqb a b = true <-> a = b.
Proof. destruct a, b; simpl; split; intros; congruence. Qed.
Lemma action_eqb_eq : forall a b, action_eqb a b = true -> a = b.
Proof. destruct a, b; simpl; intros H; try discriminate; auto; apply fam_eqb_eq in H; congruence. Qed.

Lemma wiring_ok_good : forall c, wiring_ok (cfg_wiring c) = true -> wiring_good c.
Proof.
  intros c H e. unfold wiring_ok in H. apply andb_true_iff in H. destruct H as (_ & H).
  rewrite forallb_forall in H. assert (Hin : In e all_entries) by (destruct e; simpl; tauto).
  specialize (H e Hin). unfold entry_ok in H. unfold wrapper_of.
  destruct (wlookup (cfg_wiring c) e); [|discriminate]. apply andb_true_iff in H. destruct H as (H1 & H2).
  split; auto. apply action_eqb_eq; auto.
Qed.

Lemma wiring_good_all_lock : forall c, wiring_good c -> all_lock c.
Proof. intros c H o e He. unfold op_locks. rewrite He. apply H. Qed.

Section Detector.
Variable c : cfg.
Hypothesis Hw : wiring_good c.

Lemma add_entry_agree_self : forall t k sz f L tb sq,
  agree t L tb ->
  agree t (count_alloc (with_slots L (slot_set k {| s_size := sz; s_fam := f; s_bad := false |} (l_slots L))))
        ({| t_owner := t; t_slot := k; t_size := sz; t_fam := f; t_seq := sq |} :: tb).
Proof.
  intros t k sz f L tb sq H k'. simpl. unfold key_is at 1. simpl. rewrite Nat.eqb_refl. simpl.
  destruct (Nat.eqb_spec k k').
  - reflexivity.
  - rewrite slot_get_del_other by auto. apply H.
Qed.

Lemma add_entry_agree_other : forall t u k sz f Lu tb sq,
  u <> t -> agree u Lu tb -> agree u Lu ({| t_owner := t; t_slot := k; t_size := sz; t_fam := f; t_seq := sq |} :: tb).
Proof.
  intros t u k sz f Lu tb sq Hne H k'. simpl. unfold key_is at 1. simpl.
  destruct (Nat.eqb_spec t u); [congruence|]. simpl. apply H.
Qed.

Lemma remove_agree_self : forall t k L tb,
  agree t L tb -> agree t (with_slots L (slot_del k (l_slots L))) (tbl_remove t k tb).
Proof.
  intros t k L tb H k'. simpl. destruct (Nat.eq_dec k k').
  - subst. rewrite tbl_find_remove_same, slot_get_del_same. reflexivity.
  - rewrite tbl_find_remove_other, slot_get_del_other; auto. congruence.
Qed.

Lemma remove_agree_other : forall t u k Lu tb, u <> t -> agree u Lu tb -> agree u Lu (tbl_remove t k tb).
Proof. intros t u k Lu tb Hne H k'. rewrite tbl_find_remove_other; auto. congruence. Qed.

(* the table's properties that do not depend on who looks *)
Record TblInv (n : nat) (sh : shared) : Prop := {
  ti_owner : forall x, In x (sh_table sh) -> t_owner x < n;
  ti_keys : NoDup (map tkey (sh_table sh));
  ti_seq : forall x, In x (sh_table sh) -> (1 <= t_seq x < sh_seq sh)%N;
  ti_seqs : NoDup (map t_seq (sh_table sh));
  ti_pos : (1 <= sh_seq sh)%N
}.

Lemma tblinv_add : forall n t k sz f sh, TblInv n sh -> t < n -> tbl_find t k (sh_table sh) = None ->
  TblInv n (add_entry t k sz f sh).
Proof.
  intros n t k sz f sh I Ht Hf. destruct I. constructor; simpl.
  - intros x [<-|Hx]; simpl; auto.
  - constructor; auto. apply tbl_find_None_notin; auto.
  - intros x [<-|Hx]; simpl; [lia|]. specialize (ti_seq0 x Hx). lia.
  - constructor; auto. intros Hin. apply in_map_iff in Hin. destruct Hin as (y & E & Hy). specialize (ti_seq0 y Hy). lia.
  - lia.
Qed.

Lemma tblinv_del : forall n t k sh, TblInv n sh -> TblInv n (del_entry t k sh).
Proof.
  intros n t k sh I. destruct I. constructor; simpl; auto.
  - intros x Hx. apply tbl_remove_In in Hx. apply ti_owner0; tauto.
  - apply tbl_remove_keys; auto.
  - intros x Hx. apply tbl_remove_In in Hx. apply ti_seq0; tauto.
  - apply tbl_remove_seqs; auto.
Qed.

Lemma agree_none : forall t L tb k, agree t L tb -> slot_get k (l_slots L) = None -> tbl_find t k tb = None.
Proof. intros t L tb k H E. specialize (H k). rewrite E in H. destruct (tbl_find t k tb); simpl in H; congruence. Qed.
Lemma agree_some : forall t L tb k si, agree t L tb -> slot_get k (l_slots L) = Some si ->
  exists x, tbl_find t k tb = Some x /\ t_size x = s_size si /\ t_fam x = s_fam si.
Proof.
  intros t L tb k si H E. specialize (H k). rewrite E in H. destruct (tbl_find t k tb) as [x|]; simpl in H; [|discriminate].
  exists x. unfold info, sinfo in H. inversion H. auto.
Qed.

Lemma agree_same_find : forall t L tb tb', agree t L tb -> (forall k, tbl_find t k tb' = tbl_find t k tb) -> agree t L tb'.
Proof. intros t L tb tb' H E k. rewrite E. apply H. Qed.

Lemma NoDup_map_inj : forall A B (f : A -> B) l x y, NoDup (map f l) -> In x l -> In y l -> f x = f y -> x = y.
Proof.
  induction l as [|a l IH]; simpl; intros x y Hnd Hx Hy E; [tauto|]. inversion Hnd; subst.
  destruct Hx as [->|Hx], Hy as [->|Hy]; auto.
  - exfalso. apply H1. rewrite E. apply in_map; auto.
  - exfalso. apply H1. rewrite <- E. apply in_map; auto.
Qed.

Lemma tbl_find_some : forall t k tb x, tbl_find t k tb = Some x -> In x tb /\ tkey x = (t, k).
Proof. intros t k tb x H. unfold tbl_find in H. apply find_some in H. destruct H as (H1 & H2). split; auto. apply key_is_spec; auto. Qed.

Lemma tbl_remove_In_rev : forall t k x tb, In x tb -> tkey x <> (t, k) -> In x (tbl_remove t k tb).
Proof.
  unfold tbl_remove. intros t k x tb Hx Hne. apply filter_In. split; auto.
  destruct (key_is t k x) eqn:E; auto. apply key_is_spec in E. congruence.
Qed.

(* taking a record out and putting the same record back: the table holds the same records, every lookup gives what it gave *)
Lemma readd_same : forall t k tb x, NoDup (map tkey tb) -> NoDup (map t_seq tb) -> tbl_find t k tb = Some x ->
  (forall y, In y (x :: tbl_remove t k tb) <-> In y tb)
  /\ (forall u k', tbl_find u k' (x :: tbl_remove t k tb) = tbl_find u k' tb)
  /\ NoDup (map tkey (x :: tbl_remove t k tb)) /\ NoDup (map t_seq (x :: tbl_remove t k tb)).
Proof.
  intros t k tb x Hk Hs Hf. destruct (tbl_find_some _ _ _ _ Hf) as (Hx & Hkey).
  split; [|split; [|split]].
  - intros y. simpl. split.
    + intros [<-|Hy]; auto. apply tbl_remove_In in Hy. tauto.
    + intros Hy. destruct (key_is t k y) eqn:E.
      * left. apply key_is_spec in E. apply (NoDup_map_inj _ _ tkey tb x y Hk Hx Hy). congruence.
      * right. apply tbl_remove_In_rev; auto. intros E2. apply key_is_spec in E2. congruence.
  - intros u k'. simpl. destruct (key_is u k' x) eqn:E.
    + apply key_is_spec in E. rewrite Hkey in E. inversion E; subst. auto.
    + apply tbl_find_remove_other. intros E2. inversion E2; subst. apply key_is_spec in Hkey. congruence.
  - simpl. constructor; [|apply tbl_remove_keys; auto].
    rewrite Hkey. apply tbl_find_None_notin. apply tbl_find_remove_same.
  - simpl. constructor; [|apply tbl_remove_seqs; auto].
    intros Hin. apply in_map_iff in Hin. destruct Hin as (y & E & Hy). apply tbl_remove_In in Hy. destruct Hy as (Hy & Hne).
    apply Hne. rewrite <- Hkey. f_equal. apply (NoDup_map_inj _ _ t_seq tb y x Hs Hy Hx). auto.
Qed.

(* a realloc that is turned down: no report, the table holds the same records with the same numbers, the counter stands *)
Lemma detector_refused : forall n t k rf L snap sh' failed,
  op_ok (ORefused k rf) L -> TblInv n snap -> agree t L (sh_table snap) ->
  detector c t (ORefused k rf) L snap = (sh', failed) ->
  failed = false
  /\ (forall x, In x (sh_table sh') <-> In x (sh_table snap))
  /\ sh_seq sh' = sh_seq snap
  /\ (forall u k', tbl_find u k' (sh_table sh') = tbl_find u k' (sh_table snap))
  /\ NoDup (map tkey (sh_table sh')) /\ NoDup (map t_seq (sh_table sh')).
Proof.
  intros n t k rf L snap sh' failed Hok I Ha Hd. simpl in Hd, Hok.
  destruct (Hw ERealloc) as (_ & Hact). rewrite Hact in Hd. simpl in Hd.
  assert (Hsame : (snap, false) = (sh', failed) -> failed = false
                  /\ (forall x, In x (sh_table sh') <-> In x (sh_table snap)) /\ sh_seq sh' = sh_seq snap
                  /\ (forall u k', tbl_find u k' (sh_table sh') = tbl_find u k' (sh_table snap))
                  /\ NoDup (map tkey (sh_table sh')) /\ NoDup (map t_seq (sh_table sh'))).
  { intros E. inversion E; subst. destruct I. repeat split; auto. }
  destruct rf; auto.
  destruct (slot_get k (l_slots L)) as [si|] eqn:Hs; auto.
  destruct Hok as (Hfm & Hbad).
  destruct (agree_some _ _ _ _ _ Ha Hs) as (x & Hx & Hsz & Hfam). rewrite Hx in Hd.
  rewrite Hfam, Hfm, Hbad in Hd. simpl in Hd. inversion Hd; subst; clear Hd. simpl.
  destruct I as [Ho Hk Hsq Hss Hp].
  destruct (readd_same _ _ _ _ Hk Hss Hx) as (H1 & H2 & H3 & H4). repeat split; auto; apply H1.
Qed.

(* the detector's part of an operation: verdict as the textbook says, own view updated as the textbook says, the other
   threads' views untouched, table well-formed, one sequence number consumed per allocation *)
Lemma detector_ok : forall n t o L snap sh' failed e,
  op_entry o = Some e -> op_ok o L -> t < n -> TblInv n snap -> agree t L (sh_table snap) ->
  detector c t o L snap = (sh', failed) ->
  failed = snd (lstep o L)
  /\ agree t (fst (lstep o L)) (sh_table sh')
  /\ (forall u Lu, u <> t -> agree u Lu (sh_table snap) -> agree u Lu (sh_table sh'))
  /\ TblInv n sh'
  /\ (sh_seq sh' + l_allocs L = sh_seq snap + l_allocs (fst (lstep o L)))%N.
Proof.
  intros n t o L snap sh' failed e He Hok Ht I Ha Hd.
  destruct o as [k sz e0|k e0|k sz|k|e0| |k rf]; simpl in He; try discriminate; simpl in Hd, Hok |- *.
  - (* alloc *)
    destruct Hok as (Hae & Hnone). destruct (Hw e0) as (_ & Hact). rewrite Hact in Hd.
    assert (Ef : textbook_action e0 = AAlloc (entry_fam e0)) by (destruct e0; simpl in *; auto; discriminate).
    rewrite Ef in Hd. inversion Hd; subst; clear Hd.
    split; [auto|]. split; [apply add_entry_agree_self; auto|].
    split; [intros; apply add_entry_agree_other; auto|].
    split; [apply tblinv_add; auto; eapply agree_none; eauto|]. simpl. lia.
  - (* free *)
    destruct (Hw e0) as (_ & Hact). rewrite Hact in Hd.
    assert (Ef : textbook_action e0 = ARelease (entry_fam e0)) by (destruct e0; simpl in *; auto; discriminate).
    rewrite Ef in Hd.
    destruct (slot_get k (l_slots L)) as [si|] eqn:Hs.
    + destruct (agree_some _ _ _ _ _ Ha Hs) as (x & Hx & Hsz & Hfam). rewrite Hx in Hd. inversion Hd; subst; clear Hd. simpl.
      rewrite Hfam. split; [auto|]. split; [apply remove_agree_self; auto|].
      split; [intros; apply remove_agree_other; auto|]. split; [apply tblinv_del; auto|]. simpl. lia.
    + inversion Hd; subst; clear Hd. simpl. split; [auto|split; [auto|split; [auto|split; [auto|auto]]]].
  - (* realloc *)
    destruct (Hw ERealloc) as (_ & Hact). rewrite Hact in Hd. simpl in Hd.
    destruct (slot_get k (l_slots L)) as [si|] eqn:Hs.
    + destruct (agree_some _ _ _ _ _ Ha Hs) as (x & Hx & Hsz & Hfam). rewrite Hx in Hd. rewrite Hfam in Hd.
      destruct (negb (fam_eqb (s_fam si) FMalloc) || s_bad si) eqn:Hbad; inversion Hd; subst; clear Hd; simpl.
      * split; [auto|]. split; [apply remove_agree_self; auto|].
        split; [intros; apply remove_agree_other; auto|]. split; [apply tblinv_del; auto|]. simpl. lia.
      * split; [auto|].
        split. { intros k'. simpl. unfold key_is at 1. simpl. rewrite Nat.eqb_refl. simpl.
                 destruct (Nat.eqb_spec k k').
                 - reflexivity.
                 - rewrite slot_get_del_other by auto. rewrite tbl_find_remove_other by congruence. apply Ha. }
        split. { intros u Lu Hne Hu. apply add_entry_agree_other; auto. apply remove_agree_other; auto. }
        split. { apply (tblinv_add n t k sz FMalloc (del_entry t k snap)); auto. apply tblinv_del; auto. simpl. apply tbl_find_remove_same. }
        simpl. lia.
    + inversion Hd; subst; clear Hd. simpl.
      split; [auto|]. split; [apply add_entry_agree_self; auto|].
      split; [intros; apply add_entry_agree_other; auto|].
      split; [apply tblinv_add; auto; eapply agree_none; eauto|]. simpl. lia.
  - (* wild *)
    destruct (Hw e0) as (_ & Hact). rewrite Hact in Hd.
    destruct e0; simpl in Hok; try discriminate; simpl in Hd; inversion Hd; subst; (split; [auto|split; [auto|split; [auto|split; [auto|auto]]]]).
  - (* realloc turned down *)
    destruct (detector_refused n t k rf L snap sh' failed Hok I Ha Hd) as (-> & Hin & Hsq & Hfind & Hkeys & Hseqs).
    split; [auto|]. split; [exact (agree_same_find _ _ _ _ Ha (fun k' => Hfind t k'))|].
    split; [intros u Lu _ Hu; exact (agree_same_find _ _ _ _ Hu (fun k' => Hfind u k'))|].
    split; [|lia].
    destruct I as [Ho Hk Hs Hss Hp]. constructor; auto.
    + intros x Hx. apply Ho. apply Hin; auto.
    + intros x Hx. rewrite Hsq. apply Hs. apply Hin; auto.
    + rewrite Hsq. auto.
Qed.

End Detector.
