(* C13 -- printable(): the size pre-computation is exact, the copy loop stays inside the result buffer, and the result is
   the per-byte escape table (bytes >= 0x80 as \xNN after the D11 repair). *)
From Coq Require Import NArith ZArith Bool List Lia ZifyBool.
From CppUVerif Require Import lib.Str C13_Text C13_Model C13_Proofs.
Import ListNotations.
Local Open Scope N_scope.

Definition short_letter (c : N) : N := nth (N.to_nat (c - 7)) [97; 98; 116; 110; 118; 102; 114] 0.
Definition esc_check (c : N) : bool :=
  if isControlShort c then bytes_eqb (t_escape c) [92; short_letter c] && negb (short_letter c =? 0)
  else if isControl c then bytes_eqb (t_escape c) [92; 120; hexdig (c / 16); hexdig (c mod 16)]
                           && negb (hexdig (c / 16) =? 0) && negb (hexdig (c mod 16) =? 0)
  else bytes_eqb (t_escape c) [c].
Lemma esc_check_all : forallb esc_check (map N.of_nat (seq 0 256)) = true.
Proof. vm_compute. reflexivity. Qed.
Lemma esc_check_ok c : c < 256 -> esc_check c = true.
Proof.
  intro H. pose proof esc_check_all as A. rewrite forallb_forall in A. apply A.
  apply in_map_iff. exists (N.to_nat c). split; [lia|]. apply in_seq. lia.
Qed.

Definition BY (s : list N) : Prop := Forall (fun c => c < 256) s.

Lemma len_printable s : (length s <= length (t_printable s))%nat.
Proof.
  induction s as [|x s IH]; [cbn; lia|]. cbn [t_printable flat_map length]. rewrite app_length. fold (t_printable s).
  assert (1 <= length (t_escape x))%nat; [|lia]. unfold t_escape.
  repeat match goal with |- context [if ?b then _ else _] => destruct b end; cbn; lia.
Qed.

Lemma printableSize_ok : forall s tail acc, BY s ->
  printableSize (s ++ tail) (length s) acc = Ok (acc + (length (t_printable s) - length s))%nat.
Proof.
  induction s as [|c s IH]; intros tail acc B; [cbn; f_equal; lia|].
  inversion B as [|? ? Hc Bs]; subst. cbn [app length printableSize rd bind tl]. rewrite IH by assumption.
  pose proof (esc_check_ok c Hc) as K. unfold esc_check in K. cbn [t_printable flat_map]. rewrite app_length.
  fold (t_printable s).
  pose proof (len_printable s) as LP.
  destruct (isControlShort c).
  - apply andb_true_iff in K. destruct K as [K _]. apply bytes_eqb_eq in K. rewrite K. cbn [length]. f_equal; lia.
  - destruct (isControl c).
    + apply andb_true_iff in K. destruct K as [K _]. apply andb_true_iff in K. destruct K as [K _].
      apply bytes_eqb_eq in K. rewrite K. cbn [length]. f_equal; lia.
    + apply bytes_eqb_eq in K. rewrite K. cbn [length]. f_equal; lia.
Qed.

Lemma StrNCpy_cells out rest cells extra n : NN (cells ++ extra) -> (length cells = n)%nat -> (1 <= n)%nat -> (n <= length rest)%nat ->
  StrNCpy (out ++ rest) (length out) ((cells ++ extra) ++ [0]) n = Ok (out ++ cells ++ skipn n rest).
Proof.
  intros Hc Ln L1 Lr. unfold StrNCpy. replace (Nat.eqb n 0) with false by lia.
  replace (out ++ rest) with (out ++ firstn n rest ++ skipn n rest) by (rewrite firstn_skipn; reflexivity).
  rewrite (StrNCpy_loop_ok n (cells ++ extra) [] out (firstn n rest) (skipn n rest)); try assumption.
  - rewrite firstn_length. replace (Nat.min n (length rest)) with (length cells) by lia.
    rewrite <- app_assoc, firstn_app, firstn_all, Nat.sub_diag. cbn [firstn]. rewrite app_nil_r. reflexivity.
  - rewrite firstn_length, app_length. lia.
Qed.

Lemma printable_loop_ok : forall s tail out rest, BY s -> NN s -> (length (t_printable s) + 1 <= length rest)%nat ->
  exists rest', printable_loop hexEscape (s ++ tail) (out ++ rest) (length out) (length s) = Ok (out ++ t_printable s ++ 0 :: rest').
Proof.
  induction s as [|c s IH]; intros tail out rest B Hn L.
  - cbn [length printable_loop app t_printable flat_map]. destruct rest as [|r0 rest]; [cbn in L; lia|]. rewrite wr_mid. eauto.
  - inversion B as [|? ? Hc Bs]; subst. apply NN_cons in Hn. destruct Hn as [Hc0 Hn].
    cbn [app length printable_loop rd bind tl]. cbn [t_printable flat_map] in *. fold (t_printable s) in *. rewrite app_length in L.
    pose proof (esc_check_ok c Hc) as K. unfold esc_check in K.
    destruct (isControlShort c).
    + apply andb_true_iff in K. destruct K as [K K2]. apply bytes_eqb_eq in K. rewrite K in *. cbn [length] in L.
      change (shortEscape c) with (([92; short_letter c] ++ []) ++ [0]).
      rewrite StrNCpy_cells; [| repeat constructor; lia | reflexivity | lia | lia]. cbn [bind].
      destruct (IH tail (out ++ [92; short_letter c]) (skipn 2 rest) Bs Hn) as [rest' R]; [rewrite skipn_length; lia|].
      rewrite app_length in R. cbn [length] in R. rewrite <- app_assoc in R. rewrite R. exists rest'. rewrite <- !app_assoc. reflexivity.
    + destruct (isControl c).
      * apply andb_true_iff in K. destruct K as [K K3]. apply andb_true_iff in K. destruct K as [K K2].
        apply bytes_eqb_eq in K. rewrite K in *. cbn [length] in L.
        change (hexEscape c) with (([92; 120; hexdig (c / 16); hexdig (c mod 16)] ++ [32]) ++ [0]).
        rewrite StrNCpy_cells; [| repeat constructor; lia | reflexivity | lia | lia]. cbn [bind].
        destruct (IH tail (out ++ [92; 120; hexdig (c / 16); hexdig (c mod 16)]) (skipn 4 rest) Bs Hn) as [rest' R]; [rewrite skipn_length; lia|].
        rewrite app_length in R. cbn [length] in R. rewrite <- app_assoc in R. rewrite R. exists rest'. rewrite <- !app_assoc. reflexivity.
      * apply bytes_eqb_eq in K. rewrite K in *. cbn [length] in L.
        destruct rest as [|r0 rest]; [cbn in L; lia|]. rewrite wr_mid. cbn [bind].
        destruct (IH tail (out ++ [c]) rest Bs Hn) as [rest' R]; [cbn [length] in L; lia|].
        rewrite app_length in R. cbn [length] in R. rewrite <- app_assoc in R. cbn [app] in R. rewrite R.
        exists rest'. rewrite <- !app_assoc. reflexivity.
Qed.
Lemma NN_printable s : BY s -> NN s -> NN (t_printable s).
Proof.
  induction s as [|c s IH]; intros B Hn; [constructor|]. inversion B as [|? ? Hc Bs]; subst.
  apply NN_cons in Hn. destruct Hn as [Hc0 Hn]. cbn [t_printable flat_map]. apply NN_app. split; [|apply IH; assumption].
  pose proof (esc_check_ok c Hc) as K. unfold esc_check in K.
  destruct (isControlShort c).
  - apply andb_true_iff in K. destruct K as [K K2]. apply bytes_eqb_eq in K. rewrite K. repeat constructor; lia.
  - destruct (isControl c).
    + apply andb_true_iff in K. destruct K as [K K3]. apply andb_true_iff in K. destruct K as [K K2].
      apply bytes_eqb_eq in K. rewrite K. repeat constructor; lia.
    + apply bytes_eqb_eq in K. rewrite K. repeat constructor; lia.
Qed.
Lemma printable_ok a : BY a -> NN a -> exists buf, printable_m (cs a) = Ok buf /\ cstr_of buf = Some (t_printable a).
Proof.
  intros B Hn. unfold printable_m, printable_gen, cs. rewrite StrLen_ok by assumption. cbn [bind].
  rewrite printableSize_ok by assumption. cbn [bind]. pose proof (len_printable a) as LP.
  replace (length a + (length (t_printable a) - length a) + 1)%nat with (S (length (t_printable a))) by lia.
  pose proof (wr_mid [] 205 (fresh (length (t_printable a))) 0) as W. cbn [app length] in W.
  change (fresh (S (length (t_printable a)))) with (205 :: fresh (length (t_printable a))).
  rewrite W. cbn [bind app].
  destruct (printable_loop_ok a [0] [] (0 :: fresh (length (t_printable a))) B Hn) as [rest' R];
    [cbn [length]; rewrite fresh_length; lia|].
  cbn [app length] in R. rewrite R. eexists. split; [reflexivity|]. apply cstr_of_cs. apply NN_printable; assumption.
Qed.
(* before the D11 repair every byte >= 0x80 came out as \xFF *)
Lemma printable_old_refuted :
  ~ (forall a buf, nonul a = true -> printable_old (cs a) = Ok buf -> cstr_of buf = Some (t_printable a)).
Proof. intro H. specialize (H [128] _ eq_refl eq_refl). vm_compute in H. discriminate H. Qed.
