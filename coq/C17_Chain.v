(* C17 -- the registry while a run is going on: well-formedness, which plugins an action leaves alone, the walks *)
From Coq Require Import NArith Arith Bool List Lia Permutation.
From CppUVerif Require Import gen.Gen_Common C17_Model C17_Proofs C17_Links.
Import ListNotations.

(* ================================================================= the model's registry is the textbook registry *)
Lemma reg_act_without r a : reg_act remove_by_name r a = reg_act without r a.
Proof. destruct a; cbn [reg_act]; try reflexivity. rewrite remove_by_name_without. reflexivity. Qed.

Definition proj (st : state) : reg * list nat := (s_reg st, s_T st).

Lemma proj_do_act st a : proj (do_act st a) = tb_step (proj st) a.
Proof. unfold proj, tb_step, do_act. cbn [s_reg s_T fst snd]. rewrite reg_act_without. reflexivity. Qed.

Lemma proj_do_acts l : forall st, proj (do_acts st l) = tb_acts (proj st) l.
Proof.
  unfold do_acts, tb_acts. induction l as [|a l IH]; intro st; cbn [fold_left]; [reflexivity|].
  rewrite IH, proj_do_act. reflexivity.
Qed.

Lemma tb_acts_app rT l1 l2 : tb_acts rT (l1 ++ l2) = tb_acts (tb_acts rT l1) l2.
Proof. unfold tb_acts. apply fold_left_app. Qed.

Lemma do_acts_mem l : forall st, s_mem (do_acts st l) = s_mem st.
Proof. unfold do_acts. induction l as [|a l IH]; intro st; cbn [fold_left]; [reflexivity|]. rewrite IH. reflexivity. Qed.

Lemma do_acts_tbl_nil l : forall st, s_tbl st = [] -> s_tbl (do_acts st l) = [].
Proof.
  unfold do_acts. induction l as [|a l IH]; intros st H; cbn [fold_left]; [exact H|].
  apply IH. cbn [do_act s_tbl]. rewrite H. destruct (installs_sp a); reflexivity.
Qed.

Lemma do_acts_tbl_keep l : forall st, existsb installs_sp l = false -> s_tbl (do_acts st l) = s_tbl st.
Proof.
  unfold do_acts. induction l as [|a l IH]; intros st H; cbn [fold_left]; [reflexivity|].
  cbn [existsb] in H. apply orb_false_iff in H. destruct H as [Ha H]. rewrite IH by exact H. cbn [do_act s_tbl]. rewrite Ha. reflexivity.
Qed.

(* ================================================================= well-formed registries *)
(* every plugin object that exists: the chain, then the objects outside it *)
Definition all (r : reg) : list plugin := r_chain r ++ r_out r.

Record wf (r : reg) : Prop := {
  wf_all_lt : forall p, In p (all r) -> p_id p < r_next r;
  wf_all_nodup : NoDup (map p_id (all r));
  wf_all_names : forall p, In p (all r) -> In (p_id p, p_name p) (r_names r) }.

Lemma nodup_app_head {A} (a b : list A) : NoDup (a ++ b) -> NoDup a.
Proof.
  induction a as [|x a IH]; cbn [app]; intro H; [constructor|]. inversion H as [|y ys Hn Hd]; subst. constructor; [|apply IH; exact Hd].
  intro Hin. apply Hn. apply in_or_app. left. exact Hin.
Qed.

Lemma nodup_app_disj {A B} (g : A -> B) (a b : list A) x y : NoDup (map g (a ++ b)) -> In x a -> In y b -> g x <> g y.
Proof.
  induction a as [|z a IH]; cbn [app map]; intros H Hx Hy; [destruct Hx|]. inversion H as [|w ws Hn Hd]; subst.
  destruct Hx as [->|Hx]; [|apply IH; assumption].
  intro E. apply Hn. rewrite E. apply in_map. apply in_or_app. right. exact Hy.
Qed.

Lemma wf_lt r : wf r -> forall p, In p (r_chain r) -> p_id p < r_next r.
Proof. intros H p Hp. apply (wf_all_lt _ H). apply in_or_app. left. exact Hp. Qed.
Lemma wf_nodup r : wf r -> NoDup (map p_id (r_chain r)).
Proof. intro H. pose proof (wf_all_nodup _ H) as Hn. unfold all in Hn. rewrite map_app in Hn. apply (nodup_app_head _ _ Hn). Qed.
Lemma wf_names r : wf r -> forall p, In p (r_chain r) -> In (p_id p, p_name p) (r_names r).
Proof. intros H p Hp. apply (wf_all_names _ H). apply in_or_app. left. exact Hp. Qed.

Lemma wf_init : wf init_reg.
Proof. split; cbn; [intros p []|constructor|intros p []]. Qed.

Lemma nodup_map_filter {A B} (f : A -> B) (g : A -> bool) l : NoDup (map f l) -> NoDup (map f (filter g l)).
Proof.
  induction l as [|a l IH]; cbn; intro H; [constructor|]. inversion H as [|x xs Hn Hd]; subst.
  destruct (g a); cbn; [constructor|]; [|apply IH; exact Hd|apply IH; exact Hd].
  intro Hin. apply Hn. apply in_map_iff in Hin. destruct Hin as [y [Hy Hin]]. apply filter_In in Hin.
  apply in_map_iff. exists y. split; [exact Hy|apply Hin].
Qed.

Lemma nodup_map_filter_tail {A B} (f : A -> B) (g : A -> bool) a b : NoDup (map f (a ++ b)) -> NoDup (map f (a ++ filter g b)).
Proof.
  induction a as [|x a IH]; cbn [app map]; intro H; [apply nodup_map_filter; exact H|]. inversion H as [|y ys Hn Hd]; subst.
  constructor; [|apply IH; exact Hd]. intro Hin. apply Hn. apply in_map_iff in Hin. destruct Hin as [z [Ez Hz]].
  apply in_map_iff. exists z. split; [exact Ez|]. apply in_app_or in Hz. apply in_or_app. destruct Hz as [Hz|Hz]; [left; exact Hz|right].
  apply filter_In in Hz. apply Hz.
Qed.

Lemma partition_perm {A} (f : A -> bool) l : Permutation (filter (fun x => negb (f x)) l ++ filter f l) l.
Proof.
  induction l as [|a l IH]; [constructor|]. cbn [filter]. destruct (f a); cbn [negb app].
  - apply Permutation_sym. apply Permutation_cons_app. apply Permutation_sym. exact IH.
  - constructor. exact IH.
Qed.

Lemma set_on_ids i b c : map p_id (set_on i b c) = map p_id c.
Proof. unfold set_on. rewrite map_map. apply map_ext. intro p. destruct (Nat.eqb (p_id p) i); reflexivity. Qed.

Lemma set_on_in i b c p : In p (set_on i b c) -> exists q, In q c /\ p_id p = p_id q /\ p_name p = p_name q.
Proof.
  unfold set_on. intro H. apply in_map_iff in H. destruct H as [q [Hq Hin]]. exists q. split; [exact Hin|].
  destruct (Nat.eqb (p_id q) i); subst p; split; reflexivity.
Qed.
Lemma set_on_app i b c o : set_on i b c ++ set_on i b o = set_on i b (c ++ o).
Proof. unfold set_on. rewrite map_app. reflexivity. Qed.

Lemma find_id_some i c p : find_id i c = Some p -> In p c /\ p_id p = i.
Proof. unfold find_id. intro H. apply find_some in H. destruct H as [H1 H2]. split; [exact H1|apply Nat.eqb_eq; exact H2]. Qed.

Lemma wf_install r p : wf r -> p_id p = r_next r -> wf (reg_install r p).
Proof.
  intros [Hlt Hnd Hnm] Hid. split; unfold all in *; cbn [reg_install r_chain r_next r_names r_out app].
  - intros q [<-|Hq]; [lia|]. specialize (Hlt q Hq). lia.
  - cbn [map]. constructor; [|exact Hnd]. intro Hin. apply in_map_iff in Hin. destruct Hin as [q [Hq Hin]].
    specialize (Hlt q Hin). lia.
  - intros q [<-|Hq]; [left; reflexivity|right; apply Hnm; exact Hq].
Qed.

(* a registry over the same objects (possibly with other flags, possibly moved between the chain and the outside) *)
Lemma wf_sub r r' : wf r -> r_next r' = r_next r -> r_names r' = r_names r ->
  (forall p, In p (all r') -> exists q, In q (all r) /\ p_id p = p_id q /\ p_name p = p_name q) ->
  NoDup (map p_id (all r')) -> wf r'.
Proof.
  intros [Hlt Hnd Hnm] En Em Hsub Hnd'. split.
  - intros p Hp. destruct (Hsub p Hp) as [q [Hq [E _]]]. rewrite En, E. apply Hlt. exact Hq.
  - exact Hnd'.
  - intros p Hp. destruct (Hsub p Hp) as [q [Hq [E1 E2]]]. rewrite Em, E1, E2. apply Hnm. exact Hq.
Qed.

Lemma wf_act r a : wf r -> wf (reg_act without r a).
Proof.
  intro H. destruct a as [n k|n|i|i| |i]; cbn [reg_act].
  - apply wf_install; [exact H|reflexivity].
  - assert (Hp : Permutation (without n (r_chain r) ++ filter (named n) (r_chain r) ++ r_out r) (all r)).
    { unfold all. rewrite app_assoc. apply Permutation_app_tail. apply partition_perm. }
    apply (wf_sub r _ H); try reflexivity; unfold all at 1; cbn [reg_set r_chain r_out].
    + intros p Hp'. exists p. split; [apply (Permutation_in _ Hp Hp')|split; reflexivity].
    + apply (Permutation_NoDup (Permutation_sym (Permutation_map p_id Hp))). apply (wf_all_nodup _ H).
  - apply (wf_sub r _ H); try reflexivity; unfold all at 1; cbn [reg_set r_chain r_out]; rewrite set_on_app.
    + intros p Hp. apply (set_on_in _ _ _ _ Hp).
    + rewrite set_on_ids. apply (wf_all_nodup _ H).
  - apply (wf_sub r _ H); try reflexivity; unfold all at 1; cbn [reg_set r_chain r_out]; rewrite set_on_app.
    + intros p Hp. apply (set_on_in _ _ _ _ Hp).
    + rewrite set_on_ids. apply (wf_all_nodup _ H).
  - apply (wf_sub r _ H); try reflexivity; unfold all at 1; cbn [reg_set r_chain r_out app].
    + intros p Hp. exists p. split; [exact Hp|split; reflexivity].
    + apply (wf_all_nodup _ H).
  - destruct (find_id i (r_out r)) as [p|] eqn:Ef.
    + destruct (find_id_some _ _ _ Ef) as [Hin Eid].
      apply (wf_sub r _ H); try reflexivity; unfold all at 1; cbn [reg_set r_chain r_out app].
      * intros q [<-|Hq]; [exists p; split; [apply in_or_app; right; exact Hin|split; reflexivity]|].
        exists q. split; [|split; reflexivity]. apply in_app_or in Hq. apply in_or_app. destruct Hq as [Hq|Hq]; [left; exact Hq|right].
        unfold take_id in Hq. apply filter_In in Hq. apply Hq.
      * cbn [map]. constructor.
        -- intro Hq. apply in_map_iff in Hq. destruct Hq as [q [Eq Hq]]. apply in_app_or in Hq. destruct Hq as [Hq|Hq].
           ++ apply (nodup_app_disj p_id (r_chain r) (r_out r) q p (wf_all_nodup _ H) Hq Hin). exact Eq.
           ++ unfold take_id in Hq. apply filter_In in Hq. destruct Hq as [_ Hq]. rewrite Eq, Eid, Nat.eqb_refl in Hq. discriminate Hq.
        -- unfold take_id. apply nodup_map_filter_tail. apply (wf_all_nodup _ H).
    + apply (wf_sub r _ H); try reflexivity; unfold all at 1; cbn [reg_set r_chain r_out].
      * intros p Hp. exists p. split; [exact Hp|split; reflexivity].
      * apply (wf_all_nodup _ H).
Qed.

Lemma wf_acts l : forall rT, wf (fst rT) -> wf (fst (tb_acts rT l)).
Proof.
  unfold tb_acts. induction l as [|a l IH]; intros rT H; cbn [fold_left]; [exact H|].
  apply IH. cbn [tb_step fst]. apply wf_act. exact H.
Qed.

(* ================================================================= the links follow the chain *)
(* the chain read from firstPlugin_ through the next_ links is the chain level's chain, and every object carries its name *)
Definition linked (r : reg) : Prop :=
  path (l_objs (r_lnk r)) (l_first (r_lnk r)) (map p_id (r_chain r)) /\
  forall p, In p (all r) -> oname (l_objs (r_lnk r)) (p_id p) = p_name p.

Lemma linked_init : linked init_reg.
Proof. split; [reflexivity|intros p []]. Qed.

Lemma chain_short r : wf r -> length (r_chain r) <= r_next r.
Proof.
  intro H. rewrite <- (map_length p_id), <- (seq_length (r_next r) 0). apply NoDup_incl_length; [apply wf_nodup; exact H|].
  intros i Hi. apply in_map_iff in Hi. destruct Hi as [p [<- Hp]]. apply in_seq. pose proof (wf_lt _ H p Hp). lia.
Qed.

Lemma read_linked r : wf r -> linked r -> read_chain r = map p_id (r_chain r).
Proof.
  intros Hw [P _]. unfold read_chain, remove_fuel. rewrite (path_read _ _ _ _ P); [reflexivity|].
  rewrite map_length. pose proof (chain_short r Hw). lia.
Qed.

Lemma linked_install r p : wf r -> linked r -> p_id p = r_next r -> linked (reg_install r p).
Proof.
  intros Hw [P Hn] Hid. split; unfold all in *; cbn [reg_install r_chain r_out r_lnk l_install l_new l_objs l_first map app].
  - apply path_install.
    + intro Hin. apply in_map_iff in Hin. destruct Hin as [q [Eq Hq]]. pose proof (wf_lt _ Hw q Hq). lia.
    + apply (path_ext (l_objs (r_lnk r))); [|exact P]. intros j Hj. apply nxt_new_other.
      apply in_map_iff in Hj. destruct Hj as [q [Eq Hq]]. pose proof (wf_lt _ Hw q Hq). lia.
  - intros q Hq. rewrite oname_set. destruct Hq as [<-|Hq]; [apply oname_new_same|].
    rewrite oname_new_other; [apply Hn; exact Hq|]. pose proof (wf_all_lt _ Hw q Hq). lia.
Qed.

(* one action whose re-install (if it is one) names an object outside the chain *)
Lemma linked_act r a : wf r -> linked r -> act_ok r a = true -> linked (reg_act without r a).
Proof.
  intros Hw HL Hok. pose proof HL as [P Hn]. destruct a as [n k|n|i|i| |i]; cbn [reg_act].
  - apply linked_install; [exact Hw|exact HL|reflexivity].
  - destruct (remove_links n (r_chain r) (r_lnk r) (remove_fuel r) P (wf_nodup _ Hw)) as [L' [R1 [R2 [R3 _]]]].
    + intros p Hp. apply Hn. apply in_or_app. left. exact Hp.
    + unfold remove_fuel. pose proof (chain_short r Hw). lia.
    + rewrite R1. split; unfold all; cbn [reg_set r_chain r_out r_lnk].
      * rewrite <- remove_by_name_without. exact R2.
      * intros p Hp. rewrite R3. apply Hn. rewrite app_assoc in Hp. apply in_app_or in Hp. apply in_or_app.
        destruct Hp as [Hp|Hp]; [left|right; exact Hp]. apply (Permutation_in _ (partition_perm (named n) (r_chain r))). exact Hp.
  - split; unfold all; cbn [reg_set r_chain r_out r_lnk].
    + rewrite set_on_ids. exact P.
    + rewrite set_on_app. intros p Hp. destruct (set_on_in _ _ _ _ Hp) as [q [Hq [E1 E2]]]. rewrite E1, E2. apply Hn. exact Hq.
  - split; unfold all; cbn [reg_set r_chain r_out r_lnk].
    + rewrite set_on_ids. exact P.
    + rewrite set_on_app. intros p Hp. destruct (set_on_in _ _ _ _ Hp) as [q [Hq [E1 E2]]]. rewrite E1, E2. apply Hn. exact Hq.
  - split; unfold all; cbn [reg_set r_chain r_out r_lnk l_reset l_first l_objs map path app]; [reflexivity|exact Hn].
  - cbn [act_ok] in Hok. unfold reinst_ok in Hok. destruct (find_id i (r_out r)) as [p|] eqn:Ef; [|discriminate Hok].
    destruct (find_id_some _ _ _ Ef) as [Hin Eid].
    assert (Hlt : i <? r_next r = true).
    { apply Nat.ltb_lt. rewrite <- Eid. apply (wf_all_lt _ Hw). apply in_or_app. right. exact Hin. }
    rewrite Hlt. split; unfold all; cbn [reg_set r_chain r_out r_lnk l_install l_objs l_first map].
    + rewrite Eid. apply path_install; [|exact P]. intro Hq. apply in_map_iff in Hq. destruct Hq as [q [Eq Hq]].
      apply (nodup_app_disj p_id (r_chain r) (r_out r) q p (wf_all_nodup _ Hw) Hq Hin). rewrite Eq, Eid. reflexivity.
    + intros q Hq. rewrite oname_set. apply Hn. destruct Hq as [<-|Hq]; [apply in_or_app; right; exact Hin|].
      apply in_app_or in Hq. apply in_or_app. destruct Hq as [Hq|Hq]; [left; exact Hq|right]. unfold take_id in Hq. apply filter_In in Hq. apply Hq.
Qed.

Lemma acts_ok_app l1 : forall r l2, acts_ok r (l1 ++ l2) = acts_ok r l1 && acts_ok (fst (tb_acts (r, []) l1)) l2.
Proof.
  assert (G : forall l r T l2, acts_ok r (l ++ l2) = acts_ok r l && acts_ok (fst (tb_acts (r, T) l)) l2).
  { induction l as [|a l IH]; intros r T l2; cbn [app acts_ok]; [reflexivity|]. unfold tb_acts. cbn [fold_left tb_step fst snd].
    rewrite (IH _ (touched_by (r_names r) (r_next r) a ++ T)). rewrite andb_assoc. reflexivity. }
  intros r l2. apply G.
Qed.

(* any history of installs, removals by name, enables, disables, resets and re-installs of objects that are outside the chain
   at that moment: the links are the chain *)
Lemma linked_acts l : forall r T, wf r -> linked r -> acts_ok r l = true -> linked (fst (tb_acts (r, T) l)).
Proof.
  induction l as [|a l IH]; intros r T Hw HL Hok; [exact HL|]. cbn [acts_ok] in Hok. apply andb_true_iff in Hok. destruct Hok as [H1 H2].
  unfold tb_acts. cbn [fold_left tb_step fst snd]. apply IH; [apply wf_act; exact Hw|apply linked_act; assumption|exact H2].
Qed.

(* ================================================================= what an action leaves alone *)
Lemma keeps_in r a p : In p (r_chain r) -> keeps a p = true -> In p (r_chain (reg_act without r a)).
Proof.
  intros Hin Hk. destruct a as [n k|n|i|i| |i]; cbn [reg_act reg_install reg_set r_chain keeps] in *.
  - right. exact Hin.
  - unfold without. apply filter_In. split; assumption.
  - unfold set_on. apply in_map_iff. exists p. split; [|exact Hin].
    apply negb_true_iff in Hk. rewrite Nat.eqb_sym, Hk. reflexivity.
  - unfold set_on. apply in_map_iff. exists p. split; [|exact Hin].
    apply negb_true_iff in Hk. rewrite Nat.eqb_sym, Hk. reflexivity.
  - discriminate Hk.
  - destruct (find_id i (r_out r)); cbn [reg_set r_chain]; [right|]; exact Hin.
Qed.

Lemma keeps_in_acts l p : forall rT, In p (r_chain (fst rT)) -> forallb (fun a => keeps a p) l = true ->
  In p (r_chain (fst (tb_acts rT l))).
Proof.
  unfold tb_acts. induction l as [|a l IH]; intros rT Hin Hk; cbn [fold_left]; [exact Hin|].
  cbn [forallb] in Hk. apply andb_true_iff in Hk. destruct Hk as [Hk1 Hk].
  apply IH; [|exact Hk]. cbn [tb_step fst]. apply keeps_in; assumption.
Qed.

Lemma untouched_keeps nm nx a p : In (p_id p, p_name p) nm -> ~ In (p_id p) (touched_by nm nx a) -> keeps a p = true.
Proof.
  intros Hn Hu. destruct a as [n k|n|i|i| |i]; cbn [touched_by keeps] in *.
  - reflexivity.
  - unfold named. destruct (N.eqb_spec (p_name p) n) as [E|]; [|reflexivity]. exfalso. apply Hu.
    unfold ids_named. apply in_map_iff. exists (p_id p, p_name p). split; [reflexivity|].
    apply filter_In. split; [exact Hn|]. cbn [snd]. rewrite E. apply N.eqb_refl.
  - destruct (Nat.eqb_spec i (p_id p)) as [E|]; [|reflexivity]. exfalso. apply Hu. left. exact E.
  - destruct (Nat.eqb_spec i (p_id p)) as [E|]; [|reflexivity]. exfalso. apply Hu. left. exact E.
  - exfalso. apply Hu. apply in_map_iff. exists (p_id p, p_name p). split; [reflexivity|exact Hn].
  - destruct (Nat.eqb_spec i (p_id p)) as [E|]; [|reflexivity]. exfalso. apply Hu. left. exact E.
Qed.

Lemma find_id_in c p : NoDup (map p_id c) -> In p c -> find_id (p_id p) c = Some p.
Proof.
  unfold find_id. induction c as [|q c IH]; intros Hnd Hin; [destruct Hin|].
  cbn [map] in Hnd. inversion Hnd as [|x xs Hn Hd]; subst. cbn [find].
  destruct Hin as [->|Hin]; [rewrite Nat.eqb_refl; reflexivity|].
  destruct (Nat.eqb_spec (p_id q) (p_id p)) as [E|]; [|apply IH; assumption].
  exfalso. apply Hn. rewrite E. apply in_map. exact Hin.
Qed.

Lemma same_id_same c x y : NoDup (map p_id c) -> In x c -> In y c -> p_id x = p_id y -> x = y.
Proof.
  intros Hnd Hx Hy E. pose proof (find_id_in c x Hnd Hx) as H1. pose proof (find_id_in c y Hnd Hy) as H2.
  rewrite E in H1. rewrite H1 in H2. inversion H2. reflexivity.
Qed.

Lemma untouched_spec T i : unnamed T i = true <-> ~ In i T.
Proof.
  unfold unnamed. rewrite negb_true_iff. split.
  - intros H Hin. assert (existsb (Nat.eqb i) T = true) as E; [|rewrite E in H; discriminate H].
    apply existsb_exists. exists i. split; [exact Hin|apply Nat.eqb_refl].
  - intro H. destruct (existsb (Nat.eqb i) T) eqn:E; [|reflexivity]. exfalso. apply H.
    apply existsb_exists in E. destruct E as [j [Hj E]]. apply Nat.eqb_eq in E. subst j. exact Hj.
Qed.

(* ================================================================= the invariant of a test *)
(* c0 = the chain when the test started: a plugin of c0 that no action has named so far is still in the chain, unchanged *)
Definition J (c0 : chain) (st : state) : Prop :=
  wf (s_reg st) /\ forall p, In p c0 -> ~ In (p_id p) (s_T st) -> In p (s_chain st).

Lemma J_do_act c0 st a : J c0 st -> J c0 (do_act st a).
Proof.
  intros [Hw Hj]. split.
  - cbn [do_act s_reg]. rewrite reg_act_without. apply wf_act. exact Hw.
  - intros p Hp Hu. unfold s_chain. cbn [do_act s_reg s_T] in *. rewrite reg_act_without.
    assert (Hin : In p (s_chain st)). { apply Hj; [exact Hp|]. intro H. apply Hu. apply in_or_app. right. exact H. }
    apply keeps_in; [exact Hin|].
    apply (untouched_keeps (r_names (s_reg st)) (r_next (s_reg st))).
    + apply (wf_names _ Hw). exact Hin.
    + intro H. apply Hu. apply in_or_app. left. exact H.
Qed.

Lemma J_do_acts c0 l : forall st, J c0 st -> J c0 (do_acts st l).
Proof. unfold do_acts. induction l as [|a l IH]; intros st H; cbn [fold_left]; [exact H|]. apply IH. apply J_do_act. exact H. Qed.

Lemma J_set_mt c0 st m tb : J c0 st -> J c0 (set_mt st m tb).
Proof. intro H. exact H. Qed.

Lemma J_turn c0 b x st : J c0 st -> J c0 (turn b x st).
Proof. intro H. unfold turn. apply J_do_acts. destruct (b && is_sp x); [apply J_set_mt|]; exact H. Qed.

Lemma T_do_act st a : incl (s_T st) (s_T (do_act st a)).
Proof. cbn [do_act s_T]. apply incl_appr. apply incl_refl. Qed.
Lemma T_do_acts l : forall st, incl (s_T st) (s_T (do_acts st l)).
Proof.
  unfold do_acts. induction l as [|a l IH]; intro st; cbn [fold_left]; [apply incl_refl|].
  eapply incl_tran; [apply T_do_act|apply IH].
Qed.
Lemma T_turn b x st : incl (s_T st) (s_T (turn b x st)).
Proof. unfold turn. eapply incl_tran; [|apply T_do_acts]. destruct (b && is_sp x); apply incl_refl. Qed.

Lemma proj_turn b x st : proj (turn b x st) = tb_acts (proj st) (sel_acts b x).
Proof. unfold turn. rewrite proj_do_acts. destruct (b && is_sp x); reflexivity. Qed.

(* ================================================================= the walks *)
Lemma T_walk b sn : forall st lg, incl (s_T st) (s_T (fst (walk b sn st lg))).
Proof.
  induction sn as [|x r IH]; intros st lg; cbn [walk fst]; [apply incl_refl|].
  destruct (find_id (p_id x) (s_chain st)) as [q|]; [destruct (p_on q)|]; try apply IH.
  eapply incl_tran; [apply T_turn|apply IH].
Qed.

Lemma J_walk c0 b sn : forall st lg, J c0 st -> J c0 (fst (walk b sn st lg)).
Proof.
  induction sn as [|x r IH]; intros st lg H; cbn [walk fst]; [exact H|].
  destruct (find_id (p_id x) (s_chain st)) as [q|]; [destruct (p_on q)|]; apply IH; try exact H. apply J_turn. exact H.
Qed.

(* which registry a walk leaves: the enabled acting plugins of the snapshot act, one after the other *)
Definition acts_ready (b : bool) (sn : chain) (r : reg) : Prop :=
  forall x, In x sn -> sel_acts b x <> [] ->
    In x (r_chain r) /\ forall y, In y sn -> p_id y <> p_id x -> forallb (fun a => keeps a x) (sel_acts b y) = true.

Lemma acts_ready_tail b x r rg : acts_ready b (x :: r) rg -> acts_ready b r rg.
Proof.
  intros H z Hz Hs. destruct (H z (or_intror Hz) Hs) as [H1 H2]. split; [exact H1|].
  intros y Hy. apply H2. right. exact Hy.
Qed.

Lemma walk_reg b sn : forall st lg, wf (s_reg st) -> NoDup (map p_id sn) -> acts_ready b sn (s_reg st) ->
  proj (fst (walk b sn st lg)) = tb_acts (proj st) (armed_acts b sn).
Proof.
  induction sn as [|x r IH]; intros st lg Hw Hnd Hr; [reflexivity|].
  cbn [map] in Hnd. inversion Hnd as [|i is Hni Hnd']; subst.
  unfold armed_acts. cbn [flat_map]. fold (armed_acts b r). rewrite tb_acts_app. cbn [walk].
  destruct (sel_acts b x) as [|a0 l0] eqn:Es.
  - (* no actions of its own: the registry is the same whichever way the turn goes *)
    assert (E0 : tb_acts (proj st) (if p_on x then [] else []) = proj st) by (destruct (p_on x); reflexivity).
    rewrite E0.
    assert (Hp : proj (turn b x st) = proj st) by (rewrite proj_turn, Es; reflexivity).
    assert (Hgo : forall st' lg', proj st' = proj st -> proj (fst (walk b r st' lg')) = tb_acts (proj st) (armed_acts b r)).
    { intros st' lg' E. rewrite <- E. unfold proj in E. inversion E as [[E1 E2]]. apply IH.
      - rewrite E1. exact Hw.
      - exact Hnd'.
      - rewrite E1. apply (acts_ready_tail _ _ _ _ Hr). }
    destruct (find_id (p_id x) (s_chain st)) as [q|]; [destruct (p_on q)|]; apply Hgo; try reflexivity. exact Hp.
  - destruct (Hr x (or_introl eq_refl)) as [Hin Hoth]; [rewrite Es; discriminate|].
    unfold s_chain. rewrite (find_id_in _ _ (wf_nodup _ Hw) Hin).
    assert (Hgo : forall st' lg', proj st' = tb_acts (proj st) (if p_on x then a0 :: l0 else []) ->
                  proj (fst (walk b r st' lg')) = tb_acts (tb_acts (proj st) (if p_on x then a0 :: l0 else [])) (armed_acts b r)).
    { intros st' lg' E. rewrite <- E. apply IH.
      - change (s_reg st') with (fst (proj st')). rewrite E. apply wf_acts. exact Hw.
      - exact Hnd'.
      - intros z Hz Hsz. destruct (Hr z (or_intror Hz) Hsz) as [Hzin Hzoth]. split.
        + change (s_reg st') with (fst (proj st')). rewrite E. apply keeps_in_acts; [exact Hzin|].
          destruct (p_on x); [|reflexivity]. rewrite <- Es. apply Hzoth; [left; reflexivity|].
          intro Eid. apply Hni. rewrite Eid. apply in_map. exact Hz.
        + intros y Hy. apply Hzoth. right. exact Hy. }
    destruct (p_on x) eqn:Eon; apply Hgo; [rewrite proj_turn, Es|]; reflexivity.
Qed.

(* what a walk logs, as far as the plugins no action of the test names are concerned *)
Lemma filter_one (f : nat -> bool) i : filter f [i] = if f i then [i] else [].
Proof. reflexivity. Qed.

Lemma walk_log c0 b sn : forall st lg Tf, J c0 st -> incl sn c0 ->
  incl (s_T (fst (walk b sn st lg))) Tf ->
  filter (unnamed Tf) (snd (walk b sn st lg)) = filter (unnamed Tf) lg ++ filter (unnamed Tf) (log_ids sn).
Proof.
  induction sn as [|x r IH]; intros st lg Tf HJ Hsub HT; cbn [walk snd]; [cbn; rewrite app_nil_r; reflexivity|].
  assert (Hsub' : incl r c0) by (intros z Hz; apply Hsub; right; exact Hz).
  assert (Hlog : log_ids (x :: r) = (if p_on x && logs x then [p_id x] else []) ++ log_ids r).
  { unfold log_ids. cbn [filter]. destruct (p_on x && logs x); reflexivity. }
  rewrite Hlog, filter_app, app_assoc.
  destruct (unnamed Tf (p_id x)) eqn:Eu.
  - (* x is not named by any action of the test: it is still there, as it was *)
    apply untouched_spec in Eu.
    assert (Hin : In x (s_chain st)).
    { apply (proj2 HJ); [apply Hsub; left; reflexivity|]. intro H. apply Eu. apply HT. apply (T_walk b (x :: r) st lg). exact H. }
    cbn [walk] in HT. unfold s_chain in *. rewrite (find_id_in _ _ (wf_nodup _ (proj1 HJ)) Hin) in *.
    destruct (p_on x) eqn:Eon; cbn [andb].
    + rewrite IH; [|apply J_turn; exact HJ|exact Hsub'|exact HT]. f_equal.
      destruct (logs x); [rewrite filter_app; reflexivity|cbn; rewrite app_nil_r; reflexivity].
    + rewrite IH; [|exact HJ|exact Hsub'|exact HT]. cbn. rewrite app_nil_r. reflexivity.
  - assert (E1 : filter (unnamed Tf) (if p_on x && logs x then [p_id x] else []) = []).
    { destruct (p_on x && logs x); [rewrite filter_one, Eu|]; reflexivity. }
    rewrite E1, app_nil_r. cbn [walk] in HT.
    destruct (find_id (p_id x) (s_chain st)) as [q|]; [destruct (p_on q)|].
    + rewrite IH; [|apply J_turn; exact HJ|exact Hsub'|exact HT]. f_equal.
      destruct (logs x); [|reflexivity]. rewrite filter_app, filter_one, Eu, app_nil_r. reflexivity.
    + rewrite IH; [|exact HJ|exact Hsub'|exact HT]. reflexivity.
    + rewrite IH; [|exact HJ|exact Hsub'|exact HT]. reflexivity.
Qed.

(* memory and table over a walk: with an empty table nothing changes *)
Lemma turn_mem_nil b x st : s_tbl st = [] -> s_mem (turn b x st) = s_mem st /\ s_tbl (turn b x st) = [].
Proof.
  intro H. unfold turn. rewrite do_acts_mem. split.
  - destruct (b && is_sp x); [|reflexivity]. cbn [sp_restore set_mt s_mem]. rewrite H. reflexivity.
  - apply do_acts_tbl_nil. destruct (b && is_sp x); [reflexivity|exact H].
Qed.

Lemma walk_mem_nil b sn : forall st lg, s_tbl st = [] ->
  s_mem (fst (walk b sn st lg)) = s_mem st /\ s_tbl (fst (walk b sn st lg)) = [].
Proof.
  induction sn as [|x r IH]; intros st lg H; cbn [walk fst]; [split; [reflexivity|exact H]|].
  destruct (find_id (p_id x) (s_chain st)) as [q|]; [destruct (p_on q)|]; try (apply IH; exact H).
  destruct (turn_mem_nil b x st H) as [E1 E2]. destruct (IH (turn b x st) (if logs x then lg ++ [p_id x] else lg) E2) as [E3 E4].
  split; [rewrite E3; exact E1|exact E4].
Qed.

(* the post walk with a pointer plugin that nothing names: whatever else happens, the pointers are restored once *)
Definition no_isp (post : bool) (sn : chain) : Prop := forall x, In x sn -> existsb installs_sp (sel_acts post x) = false.

Lemma turn_restored x st M : existsb installs_sp (sel_acts true x) = false -> s_mem st = M -> s_tbl st = [] ->
  s_mem (turn true x st) = M /\ s_tbl (turn true x st) = [].
Proof. intros _ Hm Ht. destruct (turn_mem_nil true x st Ht) as [E1 E2]. split; [rewrite E1; exact Hm|exact E2]. Qed.

Lemma walk_restores sn : forall st lg m tb s,
  ((s_mem st = m /\ s_tbl st = tb) \/ (s_mem st = restore tb m /\ s_tbl st = [])) ->
  wf (s_reg st) -> NoDup (map p_id sn) -> no_isp true sn ->
  In s sn -> In s (s_chain st) -> p_on s = true -> is_sp s = true ->
  (forall y, In y sn -> forallb (fun a => keeps a s) (sel_acts true y) = true) ->
  s_mem (fst (walk true sn st lg)) = restore tb m /\ s_tbl (fst (walk true sn st lg)) = [].
Proof.
  induction sn as [|x r IH]; intros st lg m tb s HQ Hw Hnd Hni Hs Hin Hon Hsp Hk; [destruct Hs|].
  cbn [map] in Hnd. inversion Hnd as [|i is Hnx Hnd']; subst. cbn [walk].
  assert (Hni' : no_isp true r) by (intros z Hz; apply Hni; right; exact Hz).
  assert (Hk' : forall y, In y r -> forallb (fun a => keeps a s) (sel_acts true y) = true) by (intros y Hy; apply Hk; right; exact Hy).
  (* the state after x's turn, if x takes it *)
  assert (Hturn : ((s_mem (turn true x st) = m /\ s_tbl (turn true x st) = tb) \/
                   (s_mem (turn true x st) = restore tb m /\ s_tbl (turn true x st) = [])) /\
                  (is_sp x = true -> s_mem (turn true x st) = restore tb m /\ s_tbl (turn true x st) = [])).
  { unfold turn. rewrite do_acts_mem, do_acts_tbl_keep by (apply Hni; left; reflexivity). cbn [andb].
    destruct (is_sp x); cbn [sp_restore set_mt s_mem s_tbl].
    - assert (E : restore (s_tbl st) (s_mem st) = restore tb m).
      { destruct HQ as [[-> ->]|[-> ->]]; reflexivity. }
      rewrite E. split; [right; split; reflexivity|intros _; split; reflexivity].
    - split; [exact HQ|intro H; discriminate H]. }
  assert (Hwt : wf (s_reg (turn true x st))).
  { change (s_reg (turn true x st)) with (fst (proj (turn true x st))). rewrite proj_turn. apply wf_acts. exact Hw. }
  destruct Hs as [->|Hs].
  - (* the pointer plugin's own turn *)
    unfold s_chain in *. rewrite (find_id_in _ _ (wf_nodup _ Hw) Hin), Hon.
    destruct (proj2 Hturn Hsp) as [E1 E2].
    destruct (walk_mem_nil true r (turn true s st) (if logs s then lg ++ [p_id s] else lg) E2) as [E3 E4].
    split; [rewrite E3; exact E1|exact E4].
  - assert (Hin' : In s (s_chain (turn true x st))).
    { unfold s_chain. change (s_reg (turn true x st)) with (fst (proj (turn true x st))). rewrite proj_turn.
      apply keeps_in_acts; [exact Hin|]. apply Hk. left. reflexivity. }
    destruct (find_id (p_id x) (s_chain st)) as [q|]; [destruct (p_on q)|].
    + apply (IH _ _ m tb s); try assumption. apply Hturn.
    + apply (IH _ _ m tb s); assumption.
    + apply (IH _ _ m tb s); assumption.
Qed.

(* ================================================================= the statements of a test *)
Lemma J_xexec c0 ss : forall st, J c0 st -> J c0 (fst (xexec st ss)).
Proof.
  induction ss as [|s r IH]; intros st H; cbn [xexec]; [exact H|]. destruct s as [s|a].
  - destruct (exec_stmt (s_mem st) (s_tbl st) s) as [[m1 tb1] [|]]; [apply IH; apply J_set_mt; exact H|exact H].
  - apply IH. apply J_do_act. exact H.
Qed.
Lemma T_xexec ss : forall st, incl (s_T st) (s_T (fst (xexec st ss))).
Proof.
  induction ss as [|s r IH]; intro st; cbn [xexec]; [apply incl_refl|]. destruct s as [s|a].
  - destruct (exec_stmt (s_mem st) (s_tbl st) s) as [[m1 tb1] [|]]; [apply (IH (set_mt st m1 tb1))|apply incl_refl].
  - eapply incl_tran; [apply T_do_act|apply IH].
Qed.

Lemma ref_xacts_sub ss : forall n a, In a (fst (fst (ref_xacts n ss))) -> In a (xacts ss).
Proof.
  induction ss as [|s r IH]; intros n a H; cbn [ref_xacts xacts] in *; [exact H|]. destruct s as [[l v|l v|]|a0].
  - destruct (max_set <=? n); [destruct H|apply (IH _ _ H)].
  - apply (IH _ _ H).
  - destruct H.
  - specialize (IH n). destruct (ref_xacts n r) as [[l0 n1] ok]. cbn [fst] in *. destruct H as [<-|H]; [left; reflexivity|right; apply (IH _ H)].
Qed.

(* one phase: the registry actions in front of the statement that leaves the phase are performed, the pointer statements
   run as if the actions were not there (no SetPointerPlugin is constructed while entries are in the table) *)
Lemma xexec_spec ss : forall st n, length (s_tbl st) = n ->
  (existsb installs_sp (xacts ss) = false \/ (s_tbl st = [] /\ existsb is_set (strip_stmts ss) = false)) ->
  proj (fst (xexec st ss)) = tb_acts (proj st) (fst (fst (ref_xacts n ss))) /\
  snd (xexec st ss) = snd (ref_xacts n ss) /\
  (s_mem (fst (xexec st ss)), s_tbl (fst (xexec st ss)), snd (xexec st ss)) = exec_stmts (s_mem st) (s_tbl st) (strip_stmts ss) /\
  length (s_tbl (fst (xexec st ss))) = snd (fst (ref_xacts n ss)).
Proof.
  induction ss as [|s r IH]; intros st n Hn Hd.
  - cbn. repeat split. exact Hn.
  - destruct s as [s|a].
    + destruct s as [l v|l v|]; cbn [xexec ref_xacts strip_stmts exec_stmts xacts exec_stmt] in *.
      * rewrite Hn. destruct (max_set <=? n) eqn:El.
        -- cbn [fst snd set_mt s_mem s_tbl]. repeat split. exact Hn.
        -- assert (Hd' : existsb installs_sp (xacts r) = false \/
                         (s_tbl (set_mt st (upd (s_mem st) l v) ((l, rd (s_mem st) l) :: s_tbl st)) = [] /\ existsb is_set (strip_stmts r) = false)).
           { destruct Hd as [Hd|[_ Hd]]; [left; exact Hd|cbn in Hd; discriminate Hd]. }
           specialize (IH (set_mt st (upd (s_mem st) l v) ((l, rd (s_mem st) l) :: s_tbl st)) (S n)).
           destruct IH as [I1 [I2 [I3 I4]]]; [cbn [set_mt s_tbl length]; rewrite Hn; reflexivity|exact Hd'|].
           cbn [set_mt s_tbl s_mem] in I3. repeat split; assumption.
      * assert (Hd' : existsb installs_sp (xacts r) = false \/
                      (s_tbl (set_mt st (upd (s_mem st) l v) (s_tbl st)) = [] /\ existsb is_set (strip_stmts r) = false)).
        { destruct Hd as [Hd|[H1 Hd]]; [left; exact Hd|right; split; [exact H1|exact Hd]]. }
        specialize (IH (set_mt st (upd (s_mem st) l v) (s_tbl st)) n Hn Hd'). exact IH.
      * cbn [fst snd set_mt s_mem s_tbl]. repeat split. exact Hn.
    + cbn [xexec ref_xacts strip_stmts xacts] in *.
      assert (Ht : s_tbl (do_act st a) = s_tbl st).
      { cbn [do_act s_tbl]. destruct (installs_sp a) eqn:Ei; [|reflexivity].
        destruct Hd as [Hd|[H1 _]]; [cbn [existsb] in Hd; rewrite Ei in Hd; discriminate Hd|rewrite H1; reflexivity]. }
      assert (Hd' : existsb installs_sp (xacts r) = false \/ (s_tbl (do_act st a) = [] /\ existsb is_set (strip_stmts r) = false)).
      { destruct Hd as [Hd|[H1 Hd]]; [left; cbn [existsb] in Hd; apply orb_false_iff in Hd; apply Hd|right; split; [rewrite Ht; exact H1|exact Hd]]. }
      assert (Hn' : length (s_tbl (do_act st a)) = n) by (rewrite Ht; exact Hn).
      specialize (IH (do_act st a) n Hn' Hd'). rewrite Ht in IH. change (s_mem (do_act st a)) with (s_mem st) in IH.
      destruct IH as [I1 [I2 [I3 I4]]].
      destruct (ref_xacts n r) as [[l0 n1] ok0]. cbn [fst snd] in *.
      repeat split; try assumption.
      rewrite I1, proj_do_act. reflexivity.
Qed.
