(* C15: what the C allocation wrappers of /repo/src/CppUTest/TestHarness_c.cpp do, proved about their TRANSLATION
   (gen/Gen_LoopC15.v, regenerated from /repo by tools/cxx2gal.py on every run): countdown,
   cpputest_malloc_set_out_of_memory_countdown, cpputest_malloc_location, test_harness_c_strlen, strdup_alloc,
   cpputest_strdup_location, cpputest_strndup_location, cpputest_calloc_location.
   Every statement is against TEXTBOOK functions defined here (t_tick, t_trace, firstn / repeat ...), for every memory of
   bytes < 256, every oracle stream of allocation answers and every sufficient fuel.  `FOk v` says: the translated function
   terminated within the fuel, made no access outside a block, and returned v with the final memory / ghost statics / events.
   What the translation abstracts is listed in the header of gen/Gen_LoopC15.v (file statics = ghost variables, the allocator
   behind the wrappers = the oracle stream `blocks`, cpputest_malloc_set_out_of_memory() = the event COutOfMemoryOn).
   This file does not depend on C15_Model.v / C05_Model.v except in its last (link) section. *)
From Coq Require Import ZArith NArith Bool List Lia.
From CppUVerif Require Import lib.CSem lib.CMem lib.CMemFacts lib.CMemOps gen.Gen_LoopC15.
Import ListNotations.
Local Open Scope Z_scope.

Definition M64 : Z := 2 ^ 64.     (* size_t wraps here *)
Definition I31 : Z := 2 ^ 31.     (* INT_MAX + 1 *)

(* ================================================================== textbook functions *)
(* countdown() on the counter: <= -1 no countdown, 0 already out of memory, >= 1 one less *)
Definition t_tick (c : Z) : Z := if c <=? -1 then c else if c =? 0 then c else c - 1.
(* it switches to out-of-memory exactly when the counter goes from 1 to 0 *)
Definition t_fires (c : Z) : bool := c =? 1.
Definition t_tick_evs (c : Z) : list hcev := if t_fires c then [COutOfMemoryOn] else [].

(* an oracle answer fits a request of `size` bytes *)
Definition wf_ans (size : Z) (o : option (list N)) : Prop :=
  match o with None => True | Some b => Z.of_nat (length b) = size end.
Definition t_ptr (mem : memory) (o : option (list N)) : ptr := match o with None => Null | Some _ => Ptr (length mem) 0 end.
Definition t_mem (mem : memory) (o : option (list N)) : memory := match o with None => mem | Some b => mem ++ [b] end.
Definition t_ans (o : option (list N)) : Z := match o with None => 0 | Some _ => 1 end.

(* a run of cpputest_malloc_location calls: request = (size, the oracle's answer) *)
Definition req := (Z * option (list N))%type.
Definition cm (r : req) : hcev := CMalloc (fst r) (t_ans (snd r)).
Definition wf_req (r : req) : Prop := wf_ans (fst r) (snd r).
Fixpoint t_trace (c : Z) (reqs : list req) : list hcev :=
  match reqs with
  | [] => []
  | r :: rest => t_tick_evs c ++ cm r :: t_trace (t_tick c) rest
  end.
Fixpoint t_ptrs (mem : memory) (os : list (option (list N))) : list ptr :=
  match os with [] => [] | o :: rest => t_ptr mem o :: t_ptrs (t_mem mem o) rest end.
Definition t_mems (mem : memory) (os : list (option (list N))) : memory := fold_left t_mem os mem.
Fixpoint iter {A} (k : nat) (f : A -> A) (x : A) : A := match k with O => x | S k' => f (iter k' f x) end.
Definition t_count (mc : Z) (k : nat) : Z := iter k (fun x => cw 32 true (x + 1)) mc.     (* malloc_count++ k times, as an int *)
Definition t_ticks (c : Z) (k : nat) : Z := iter k t_tick c.

(* no NUL byte *)
Definition NN (s : list N) : Prop := Forall (fun c => c <> 0%N) s.

(* the overflow test of calloc *)
Definition t_calloc_overflows (num size : Z) : bool := negb (size =? 0) && ((M64 - 1) / size <? num).

(* ================================================================== list / memory helpers *)
Lemma block_app_last (mem : memory) x : block (mem ++ [x]) (length mem) = x.
Proof. unfold block. rewrite app_nth2 by lia. rewrite Nat.sub_diag. reflexivity. Qed.

Lemma block_app_old (mem : memory) x b : (b < length mem)%nat -> block (mem ++ [x]) b = block mem b.
Proof. intro H. unfold block. apply app_nth1. exact H. Qed.

Lemma upd_app_last (mem : memory) x y : upd (mem ++ [x]) (length mem) y = mem ++ [y].
Proof. apply upd_app_mid. Qed.

Lemma view_app_old (mem : memory) x b o : (b < length mem)%nat -> view (mem ++ [x]) (Ptr b o) = view mem (Ptr b o).
Proof. intro H. cbn [view]. rewrite block_app_old by exact H. reflexivity. Qed.

(* a pointer with something to read points into an existing block, at an offset inside it *)
Lemma view_inside (mem : memory) b o v : view mem (Ptr b o) = v -> v <> [] ->
  (b < length mem)%nat /\ 0 <= o /\ v = skipn (Z.to_nat o) (block mem b) /\
  Z.of_nat (length v) = Z.of_nat (length (block mem b)) - o.
Proof.
  intros Hv Hn. cbn [view] in Hv. destruct (0 <=? o) eqn:Ho; [|congruence]. apply Z.leb_le in Ho.
  assert (Hb : (b < length mem)%nat).
  { destruct (Nat.lt_ge_cases b (length mem)) as [L|L]; [exact L|]. exfalso. apply Hn. rewrite <- Hv. unfold block.
    rewrite nth_overflow by exact L. destruct (Z.to_nat o); reflexivity. }
  assert (Hl : (Z.to_nat o < length (block mem b))%nat).
  { destruct (Nat.lt_ge_cases (Z.to_nat o) (length (block mem b))) as [L|L]; [exact L|]. exfalso. apply Hn. rewrite <- Hv.
    apply skipn_all2. exact L. }
  split; [exact Hb|]. split; [exact Ho|]. split; [symmetry; exact Hv|]. rewrite <- Hv, skipn_length. lia.
Qed.

Lemma mem_write_fresh (mem : memory) x bs : length bs = length x ->
  mem_write (mem ++ [x]) (Ptr (length mem) 0) bs = Some (mem ++ [bs]).
Proof.
  intro H. cbn [mem_write]. rewrite block_app_last.
  replace (0 + Z.of_nat (length bs) <=? Z.of_nat (length x)) with true by (symmetry; apply Z.leb_le; lia).
  replace (Nat.ltb (length mem) (length (mem ++ [x]))) with true
    by (symmetry; apply Nat.ltb_lt; rewrite app_length; cbn [length]; lia).
  cbn [Z.leb Z.compare andb Z.to_nat firstn app Nat.add]. rewrite upd_app_last.
  rewrite skipn_all2 by lia. rewrite app_nil_r. reflexivity.
Qed.

Lemma mem_read_old (mem : memory) x b o v n : view mem (Ptr b o) = v -> v <> [] -> 0 <= n <= Z.of_nat (length v) ->
  mem_read (mem ++ [x]) (Ptr b o) n = Some (firstn (Z.to_nat n) v).
Proof.
  intros Hv Hne Hn. destruct (view_inside mem b o v Hv Hne) as [Hb [Ho [Hs Hl]]].
  cbn [mem_read]. rewrite block_app_old by exact Hb.
  replace (0 <=? o) with true by (symmetry; apply Z.leb_le; lia).
  replace (0 <=? n) with true by (symmetry; apply Z.leb_le; lia).
  replace (o + n <=? Z.of_nat (length (block mem b))) with true by (symmetry; apply Z.leb_le; lia).
  cbn [andb]. rewrite <- Hs. reflexivity.
Qed.

(* memcpy of n bytes from an old block into the block just allocated (whatever it held) *)
Lemma mem_copy_fresh fuel (mem : memory) x b o v n : view mem (Ptr b o) = v -> v <> [] -> 0 <= n <= Z.of_nat (length v) ->
  Z.of_nat (length x) = n ->
  mem_copy fuel (mem ++ [x]) (Ptr (length mem) 0) (Ptr b o) n = FOk (Ptr (length mem) 0, mem ++ [firstn (Z.to_nat n) v]).
Proof.
  intros Hv Hne Hn Hx. unfold mem_copy. rewrite (mem_read_old mem x b o v n Hv Hne Hn).
  rewrite mem_write_fresh; [reflexivity|]. rewrite firstn_length. lia.
Qed.

(* memset of the whole block just allocated *)
Lemma mem_set_fresh fuel (mem : memory) x n : 0 <= n -> Z.of_nat (length x) = n ->
  mem_set fuel (mem ++ [x]) (Ptr (length mem) 0) 0 n = FOk (Ptr (length mem) 0, mem ++ [repeat 0%N (Z.to_nat n)]).
Proof.
  intros Hn Hx. unfold mem_set. replace (0 <=? n) with true by (symmetry; apply Z.leb_le; lia).
  change (Z.to_N (0 mod 256)) with 0%N. rewrite mem_write_fresh; [reflexivity|]. rewrite repeat_length. lia.
Qed.

Lemma upd_firstn_last {A} : forall (v : list A) k x, (k < length v)%nat -> upd (firstn (S k) v) k x = firstn k v ++ [x].
Proof.
  induction v as [|y v IH]; intros k x H; cbn [length] in H; [lia|]. destruct k as [|k]; [reflexivity|].
  cbn [firstn upd app]. f_equal. apply IH. lia.
Qed.

(* result[size-1] = '\0' on the block just written: size = k + 1 *)
Lemma store_last_fresh (mem : memory) (v : list N) k : (k < length v)%nat ->
  store (mem ++ [firstn (S k) v]) (Ptr (length mem) (Z.of_nat k)) 0%N = Some (mem ++ [firstn k v ++ [0%N]]).
Proof.
  intro H. rewrite store_nat. rewrite block_app_last.
  replace (Nat.ltb k (length (firstn (S k) v))) with true by (symmetry; apply Nat.ltb_lt; rewrite firstn_length; lia).
  replace (Nat.ltb (length mem) (length (mem ++ [firstn (S k) v]))) with true
    by (symmetry; apply Nat.ltb_lt; rewrite app_length; cbn [length]; lia).
  cbn [andb]. rewrite upd_app_last. rewrite upd_firstn_last by exact H. reflexivity.
Qed.

Lemma padd_fresh (mem : memory) (x : list N) k : (k <= length x)%nat ->
  padd (mem ++ [x]) (Ptr (length mem) 0) (Z.of_nat k) = Some (Ptr (length mem) (Z.of_nat k)).
Proof. intro H. apply padd0_nat. rewrite block_app_last. exact H. Qed.

(* ================================================================== 1. countdown *)
Lemma countdown_spec fuel mem c mc evs blocks : c < I31 ->
  src_c_countdown fuel mem c mc evs blocks = FOk (tt, mem, t_tick c, mc, evs ++ t_tick_evs c, blocks).
Proof.
  intro Hc. unfold src_c_countdown, t_tick, t_tick_evs, t_fires, c_le, c_eq. change (cw 32 true (-1)) with (-1).
  destruct (c <=? -1) eqn:E1; cbn [b2z z2b Z.eqb negb].
  - apply Z.leb_le in E1. replace (c =? 1) with false by (symmetry; apply Z.eqb_neq; lia). rewrite app_nil_r. reflexivity.
  - apply Z.leb_gt in E1. destruct (c =? 0) eqn:E2; cbn [b2z z2b Z.eqb negb].
    + apply Z.eqb_eq in E2. replace (c =? 1) with false by (symmetry; apply Z.eqb_neq; lia). rewrite app_nil_r. reflexivity.
    + apply Z.eqb_neq in E2. rewrite cw_s_small by (unfold I31 in Hc; change (2 ^ (32 - 1)) with (2 ^ 31); lia).
      destruct (Z.eqb_spec c 1) as [->|Hn].
      * reflexivity.
      * replace (c - 1 =? 0) with false by (symmetry; apply Z.eqb_neq; lia). cbn [b2z z2b Z.eqb negb].
        rewrite app_nil_r. reflexivity.
Qed.

(* the state machine, case by case *)
Lemma countdown_none fuel mem c mc evs blocks : c <= -1 ->
  src_c_countdown fuel mem c mc evs blocks = FOk (tt, mem, c, mc, evs, blocks).
Proof.
  intro H. rewrite countdown_spec by (unfold I31; lia). unfold t_tick, t_tick_evs, t_fires.
  replace (c <=? -1) with true by (symmetry; apply Z.leb_le; lia).
  replace (c =? 1) with false by (symmetry; apply Z.eqb_neq; lia). rewrite app_nil_r. reflexivity.
Qed.
Lemma countdown_already_out fuel mem mc evs blocks :
  src_c_countdown fuel mem 0 mc evs blocks = FOk (tt, mem, 0, mc, evs, blocks).
Proof. rewrite countdown_spec by (unfold I31; lia). cbn. rewrite app_nil_r. reflexivity. Qed.
Lemma countdown_reaches_zero fuel mem mc evs blocks :
  src_c_countdown fuel mem 1 mc evs blocks = FOk (tt, mem, 0, mc, evs ++ [COutOfMemoryOn], blocks).
Proof. rewrite countdown_spec by (unfold I31; lia). reflexivity. Qed.
Lemma countdown_step fuel mem c mc evs blocks : 2 <= c < I31 ->
  src_c_countdown fuel mem c mc evs blocks = FOk (tt, mem, c - 1, mc, evs, blocks).
Proof.
  intro H. rewrite countdown_spec by lia. unfold t_tick, t_tick_evs, t_fires.
  replace (c <=? -1) with false by (symmetry; apply Z.leb_gt; lia).
  replace (c =? 0) with false by (symmetry; apply Z.eqb_neq; lia).
  replace (c =? 1) with false by (symmetry; apply Z.eqb_neq; lia). rewrite app_nil_r. reflexivity.
Qed.

(* cpputest_malloc_set_out_of_memory_countdown(n): the counter is n; n = 0 switches at once *)
Lemma set_countdown_spec fuel mem c mc evs blocks n :
  src_c_cpputest_malloc_set_out_of_memory_countdown fuel mem c mc evs blocks n =
    FOk (tt, mem, n, mc, evs ++ (if n =? 0 then [COutOfMemoryOn] else []), blocks).
Proof.
  unfold src_c_cpputest_malloc_set_out_of_memory_countdown, c_eq.
  destruct (n =? 0); cbn [b2z z2b Z.eqb negb finish]; [reflexivity|]. rewrite app_nil_r. reflexivity.
Qed.

(* ================================================================== 2. cpputest_malloc_location *)
(* countdown() first, then malloc_count++, then the request: the result is the oracle's answer *)
Lemma malloc_location_spec fuel mem c mc evs o bl size file line : c < I31 -> wf_ans size o ->
  src_c_cpputest_malloc_location fuel mem c mc evs (o :: bl) size file line =
    FOk (t_ptr mem o, t_mem mem o, t_tick c, cw 32 true (mc + 1),
         (evs ++ t_tick_evs c) ++ [CMalloc size (t_ans o)], bl).
Proof.
  intros Hc Ho. unfold src_c_cpputest_malloc_location. rewrite (countdown_spec fuel mem c mc evs (o :: bl) Hc).
  destruct o as [b3|]; cbn [wf_ans] in Ho; cbn [t_ptr t_mem t_ans].
  - replace (Z.of_nat (length b3) =? size) with true by (symmetry; apply Z.eqb_eq; exact Ho). reflexivity.
  - reflexivity.
Qed.

(* the old blocks are untouched, the new one holds the oracle's bytes *)
Lemma t_mem_old mem o b : (b < length mem)%nat -> block (t_mem mem o) b = block mem b.
Proof. intro H. destruct o as [x|]; cbn [t_mem]; [apply block_app_old; exact H | reflexivity]. Qed.
Lemma t_mem_prefix mem o : firstn (length mem) (t_mem mem o) = mem.
Proof.
  destruct o as [x|]; cbn [t_mem]; [|apply firstn_all]. rewrite firstn_app, firstn_all, Nat.sub_diag. cbn [firstn].
  apply app_nil_r.
Qed.
Lemma t_mem_new mem x : block (t_mem mem (Some x)) (length mem) = x.
Proof. apply block_app_last. Qed.
Lemma t_mem_view_old mem o b off : (b < length mem)%nat -> view (t_mem mem o) (Ptr b off) = view mem (Ptr b off).
Proof. intro H. destruct o as [x|]; cbn [t_mem]; [apply view_app_old; exact H | reflexivity]. Qed.

(* the failures of the oracle's side: a stream that has run dry, or an answer of the wrong size, is outside the abstraction *)
Lemma malloc_location_no_answer fuel mem c mc evs size file line : c < I31 ->
  src_c_cpputest_malloc_location fuel mem c mc evs [] size file line = FOob.
Proof. intro Hc. unfold src_c_cpputest_malloc_location. rewrite (countdown_spec fuel mem c mc evs [] Hc). reflexivity. Qed.
Lemma malloc_location_wrong_size fuel mem c mc evs b3 bl size file line : c < I31 -> Z.of_nat (length b3) <> size ->
  src_c_cpputest_malloc_location fuel mem c mc evs (Some b3 :: bl) size file line = FOob.
Proof.
  intros Hc Hs. unfold src_c_cpputest_malloc_location. rewrite (countdown_spec fuel mem c mc evs _ Hc).
  cbv beta iota zeta. replace (Z.of_nat (length b3) =? size) with false by (symmetry; apply Z.eqb_neq; exact Hs). reflexivity.
Qed.

(* malloc_count + 1, as long as the int does not wrap *)
Lemma count_succ mc : - I31 <= mc -> mc + 1 < I31 -> cw 32 true (mc + 1) = mc + 1.
Proof. unfold I31. intros H1 H2. apply cw_s_small; [lia|]. change (2 ^ (32 - 1)) with (2 ^ 31). lia. Qed.

(* ---- a run of cpputest_malloc_location calls *)
Definition cret (A : Type) := (A * memory * Z * Z * list hcev * list (option (list N)))%type.
Fixpoint src_mallocs (fuel : nat) (mem : memory) (c mc : Z) (evs : list hcev) (blocks : list (option (list N)))
    (sizes : list Z) (file : ptr) (line : Z) : fres (cret (list ptr)) :=
  match sizes with
  | [] => FOk ([], mem, c, mc, evs, blocks)
  | size :: rest =>
      match src_c_cpputest_malloc_location fuel mem c mc evs blocks size file line with
      | FOk (p, mem1, c1, mc1, evs1, blocks1) =>
          match src_mallocs fuel mem1 c1 mc1 evs1 blocks1 rest file line with
          | FOk (ps, mem2, c2, mc2, evs2, blocks2) => FOk (p :: ps, mem2, c2, mc2, evs2, blocks2)
          | FOob => FOob | FNoFuel => FNoFuel
          end
      | FOob => FOob | FNoFuel => FNoFuel
      end
  end.

Lemma t_tick_lt c : c < I31 -> t_tick c < I31.
Proof.
  unfold t_tick. intro H. destruct (c <=? -1); [exact H|]. destruct (c =? 0); [exact H|]. lia.
Qed.

Lemma iter_shift {A} (f : A -> A) k x : iter k f (f x) = f (iter k f x).
Proof. induction k as [|k IH]; cbn [iter]; [reflexivity|]. rewrite IH. reflexivity. Qed.

Lemma mallocs_spec fuel file line : forall (reqs : list req) mem c mc evs rest, c < I31 -> Forall wf_req reqs ->
  src_mallocs fuel mem c mc evs (map snd reqs ++ rest) (map fst reqs) file line =
    FOk (t_ptrs mem (map snd reqs), t_mems mem (map snd reqs), t_ticks c (length reqs), t_count mc (length reqs),
         evs ++ t_trace c reqs, rest).
Proof.
  induction reqs as [|[size o] reqs IH]; intros mem c mc evs rest Hc Hw.
  - cbn. rewrite app_nil_r. reflexivity.
  - cbn [map fst snd app src_mallocs].
    rewrite (malloc_location_spec fuel mem c mc evs o _ size file line Hc (Forall_inv Hw)).
    rewrite (IH (t_mem mem o) (t_tick c) (cw 32 true (mc + 1)) _ rest (t_tick_lt c Hc) (Forall_inv_tail Hw)).
    cbn [t_ptrs t_mems fold_left length t_trace]. unfold t_ticks, t_count. cbn [iter]. rewrite iter_shift.
    change (cw 32 true (mc + 1)) with ((fun x => cw 32 true (x + 1)) mc) at 1. rewrite iter_shift.
    unfold cm, t_mems. cbn [fst snd]. rewrite <- !app_assoc. reflexivity.
Qed.

(* ---- the closed forms *)
Lemma t_ticks_pos : forall k c, 0 <= c -> t_ticks c k = Z.max 0 (c - Z.of_nat k).
Proof.
  unfold t_ticks. induction k as [|k IH]; intros c Hc; [cbn [iter]; lia|].
  cbn [iter]. rewrite <- iter_shift. unfold t_tick at 2.
  replace (c <=? -1) with false by (symmetry; apply Z.leb_gt; lia).
  destruct (Z.eqb_spec c 0) as [->|Hn]; [rewrite IH by lia; lia|]. rewrite IH by lia. lia.
Qed.
Lemma t_ticks_neg : forall k c, c <= -1 -> t_ticks c k = c.
Proof.
  unfold t_ticks. induction k as [|k IH]; intros c Hc; [reflexivity|]. cbn [iter]. rewrite IH by exact Hc.
  unfold t_tick. replace (c <=? -1) with true by (symmetry; apply Z.leb_le; lia). reflexivity.
Qed.
Lemma t_count_small : forall k mc, - I31 <= mc -> mc + Z.of_nat k < I31 -> t_count mc k = mc + Z.of_nat k.
Proof.
  unfold t_count. induction k as [|k IH]; intros mc H1 H2; [cbn [iter]; lia|]. cbn [iter]. rewrite IH by lia.
  rewrite count_succ by lia. lia.
Qed.

(* no countdown armed (c <= -1) or already out of memory (c = 0): no switch ever *)
Lemma t_trace_idle : forall reqs c, c <= 0 -> t_trace c reqs = map cm reqs.
Proof.
  induction reqs as [|r reqs IH]; intros c Hc; [reflexivity|]. cbn [t_trace map]. unfold t_tick_evs, t_fires.
  replace (c =? 1) with false by (symmetry; apply Z.eqb_neq; lia). cbn [app]. f_equal. apply IH.
  unfold t_tick. destruct (c <=? -1); [exact Hc|]. destruct (c =? 0); [exact Hc|]. lia.
Qed.
(* counter n >= 1: the first n - 1 requests pass, the switch comes with the n-th call BEFORE its request, never again *)
Lemma t_trace_armed : forall reqs n, 1 <= n ->
  t_trace n reqs = map cm (firstn (Z.to_nat n - 1) reqs) ++
                   match skipn (Z.to_nat n - 1) reqs with [] => [] | r :: rest => COutOfMemoryOn :: cm r :: map cm rest end.
Proof.
  induction reqs as [|r reqs IH]; intros n Hn.
  - rewrite firstn_nil, skipn_nil. reflexivity.
  - cbn [t_trace]. unfold t_tick_evs, t_fires, t_tick.
    replace (n <=? -1) with false by (symmetry; apply Z.leb_gt; lia).
    replace (n =? 0) with false by (symmetry; apply Z.eqb_neq; lia).
    destruct (Z.eqb_spec n 1) as [->|Hn1].
    + change (Z.to_nat 1 - 1)%nat with 0%nat. cbn [firstn skipn map app]. rewrite t_trace_idle by lia. reflexivity.
    + replace (Z.to_nat n - 1)%nat with (S (Z.to_nat (n - 1) - 1)) by lia. cbn [firstn skipn map app].
      rewrite IH by lia. reflexivity.
Qed.

(* ---- the three uses of cpputest_malloc_set_out_of_memory_countdown(n), then any run of cpputest_malloc_location *)
Definition src_countdown_then_mallocs fuel mem c mc evs blocks n sizes file line : fres (cret (list ptr)) :=
  match src_c_cpputest_malloc_set_out_of_memory_countdown fuel mem c mc evs blocks n with
  | FOk (_, mem1, c1, mc1, evs1, blocks1) => src_mallocs fuel mem1 c1 mc1 evs1 blocks1 sizes file line
  | FOob => FOob | FNoFuel => FNoFuel
  end.

Theorem countdown_n_allocations fuel mem c0 mc evs (reqs : list req) rest n file line :
  1 <= n < I31 -> Forall wf_req reqs ->
  src_countdown_then_mallocs fuel mem c0 mc evs (map snd reqs ++ rest) n (map fst reqs) file line =
    FOk (t_ptrs mem (map snd reqs), t_mems mem (map snd reqs), Z.max 0 (n - Z.of_nat (length reqs)), t_count mc (length reqs),
         evs ++ map cm (firstn (Z.to_nat n - 1) reqs) ++
                match skipn (Z.to_nat n - 1) reqs with [] => [] | r :: more => COutOfMemoryOn :: cm r :: map cm more end,
         rest).
Proof.
  intros Hn Hw. unfold src_countdown_then_mallocs. rewrite set_countdown_spec.
  replace (n =? 0) with false by (symmetry; apply Z.eqb_neq; lia). rewrite app_nil_r.
  rewrite mallocs_spec by (try assumption; lia). rewrite t_ticks_pos by lia. rewrite t_trace_armed by lia. reflexivity.
Qed.

Theorem countdown_zero_at_once fuel mem c0 mc evs (reqs : list req) rest file line : Forall wf_req reqs ->
  src_countdown_then_mallocs fuel mem c0 mc evs (map snd reqs ++ rest) 0 (map fst reqs) file line =
    FOk (t_ptrs mem (map snd reqs), t_mems mem (map snd reqs), 0, t_count mc (length reqs),
         evs ++ COutOfMemoryOn :: map cm reqs, rest).
Proof.
  intro Hw. unfold src_countdown_then_mallocs. rewrite set_countdown_spec. cbn [Z.eqb].
  rewrite mallocs_spec by (try assumption; unfold I31; lia). rewrite t_ticks_pos by lia. rewrite t_trace_idle by lia.
  rewrite <- app_assoc. cbn [app]. replace (Z.max 0 (0 - Z.of_nat (length reqs))) with 0 by lia. reflexivity.
Qed.

Theorem countdown_negative_never fuel mem c0 mc evs (reqs : list req) rest n file line : n <= -1 -> Forall wf_req reqs ->
  src_countdown_then_mallocs fuel mem c0 mc evs (map snd reqs ++ rest) n (map fst reqs) file line =
    FOk (t_ptrs mem (map snd reqs), t_mems mem (map snd reqs), n, t_count mc (length reqs), evs ++ map cm reqs, rest).
Proof.
  intros Hn Hw. unfold src_countdown_then_mallocs. rewrite set_countdown_spec.
  replace (n =? 0) with false by (symmetry; apply Z.eqb_neq; lia). rewrite app_nil_r.
  rewrite mallocs_spec by (try assumption; unfold I31; lia). rewrite t_ticks_neg by lia. rewrite t_trace_idle by lia. reflexivity.
Qed.

(* ================================================================== 3. test_harness_c_strlen *)
Lemma strlen_loop_spec : forall (s : list N) fuel0 fuel m b o r n, bytes_ok s -> NN s ->
  view m (Ptr b o) = s ++ 0%N :: r -> (length s < fuel)%nat -> 0 <= n -> n + Z.of_nat (length s) < M64 ->
  src_c_test_harness_c_strlen_loop1 fuel0 fuel m (Ptr b o) n = Go (Ptr b (o + Z.of_nat (length s) + 1), n + Z.of_nat (length s)).
Proof.
  induction s as [|c s IH]; intros fuel0 fuel m b o r n Hb Hnn Hv Hf Hn Hl.
  - destruct fuel as [|fuel]; [cbn in Hf; lia|]. cbn [src_c_test_harness_c_strlen_loop1]. cbn [app] in Hv.
    destruct (view_padd1 _ _ _ _ _ Hv) as [Hp _]. rewrite Hp. rewrite (view_cons_load _ _ _ _ _ Hv).
    unfold c_ne. rewrite schar_zero by reflexivity. cbn [N.eqb negb b2z z2b Z.eqb length Z.of_nat].
    f_equal. f_equal; [f_equal; lia | lia].
  - destruct fuel as [|fuel]; [cbn in Hf; lia|]. cbn [src_c_test_harness_c_strlen_loop1]. cbn [app] in Hv.
    destruct (view_padd1 _ _ _ _ _ Hv) as [Hp Hv']. rewrite Hp. rewrite (view_cons_load _ _ _ _ _ Hv).
    pose proof (Forall_inv Hb) as Hc. cbn beta in Hc. pose proof (Forall_inv Hnn) as Hc0. cbn beta in Hc0.
    unfold c_ne. rewrite (schar_zero c Hc). replace (c =? 0)%N with false by (symmetry; apply N.eqb_neq; exact Hc0).
    cbn [negb b2z z2b Z.eqb]. cbn [length] in Hf, Hl. rewrite Nat2Z.inj_succ in Hl.
    rewrite cw_u_small by (unfold M64 in Hl; lia).
    rewrite (IH fuel0 fuel m b (o + 1) r (n + 1) (Forall_inv_tail Hb) (Forall_inv_tail Hnn) Hv') by lia.
    cbn [length]. rewrite Nat2Z.inj_succ. f_equal. f_equal; [f_equal; lia | lia].
Qed.

(* the length of the C string at p; the memory, the ghost statics, the events and the oracle are untouched *)
Theorem strlen_spec fuel mem c mc evs blocks p s r : mem_ok mem -> view mem p = s ++ 0%N :: r -> NN s ->
  (length s < fuel)%nat -> Z.of_nat (length s) < M64 ->
  src_c_test_harness_c_strlen fuel mem c mc evs blocks p = FOk (Z.of_nat (length s), mem, c, mc, evs, blocks).
Proof.
  intros Hm Hv Hnn Hf Hl. destruct p as [|b o]; [destruct s; discriminate Hv|].
  assert (Hb : bytes_ok s).
  { pose proof (view_ok mem (Ptr b o) Hm) as H. rewrite Hv in H. unfold bytes_ok in *. apply Forall_app in H. apply H. }
  unfold src_c_test_harness_c_strlen. rewrite (strlen_loop_spec s fuel fuel mem b o r 0 Hb Hnn Hv Hf) by lia. reflexivity.
Qed.

(* no terminator from p to the end of its block (NULL and pointers outside a block included): the read leaves the block *)
Lemma strlen_loop_oob : forall (s : list N) fuel0 fuel m p n, bytes_ok s -> NN s -> view m p = s -> (length s < fuel)%nat ->
  src_c_test_harness_c_strlen_loop1 fuel0 fuel m p n = CMem.Oob.
Proof.
  induction s as [|c s IH]; intros fuel0 fuel m p n Hb Hnn Hv Hf.
  - destruct fuel as [|fuel]; [cbn in Hf; lia|]. cbn [src_c_test_harness_c_strlen_loop1].
    rewrite (view_nil_load _ _ Hv). destruct (padd m p 1); reflexivity.
  - destruct p as [|b o]; [discriminate Hv|].
    destruct fuel as [|fuel]; [cbn in Hf; lia|]. cbn [src_c_test_harness_c_strlen_loop1].
    destruct (view_padd1 _ _ _ _ _ Hv) as [Hp Hv']. rewrite Hp. rewrite (view_cons_load _ _ _ _ _ Hv).
    pose proof (Forall_inv Hb) as Hc. cbn beta in Hc. pose proof (Forall_inv Hnn) as Hc0. cbn beta in Hc0.
    unfold c_ne. rewrite (schar_zero c Hc). replace (c =? 0)%N with false by (symmetry; apply N.eqb_neq; exact Hc0).
    cbn [negb b2z z2b Z.eqb]. cbn [length] in Hf.
    apply (IH fuel0 fuel m (Ptr b (o + 1)) _ (Forall_inv_tail Hb) (Forall_inv_tail Hnn) Hv'). lia.
Qed.

Theorem strlen_unterminated_oob fuel mem c mc evs blocks p : mem_ok mem -> NN (view mem p) ->
  (length (view mem p) < fuel)%nat -> src_c_test_harness_c_strlen fuel mem c mc evs blocks p = FOob.
Proof.
  intros Hm Hnn Hf. unfold src_c_test_harness_c_strlen.
  rewrite (strlen_loop_oob (view mem p) fuel fuel mem p 0 (view_ok mem p Hm) Hnn eq_refl Hf). reflexivity.
Qed.

(* ================================================================== 4. strdup_alloc, cpputest_strdup_location, cpputest_strndup_location *)
(* refused: NULL, nothing written *)
Lemma strdup_alloc_refused fuel mem c mc evs bl str size file line : c < I31 ->
  src_c_strdup_alloc fuel mem c mc evs (None :: bl) str size file line =
    FOk (Null, mem, t_tick c, cw 32 true (mc + 1), (evs ++ t_tick_evs c) ++ [CMalloc size 0], bl).
Proof.
  intro Hc. unfold src_c_strdup_alloc. rewrite (malloc_location_spec fuel mem c mc evs None bl size file line Hc I). reflexivity.
Qed.

(* answered with a block of size = k + 1 bytes b3 (arbitrary contents), at least k + 1 bytes readable at str:
   the new block is the first k bytes at str, then 0 *)
Lemma strdup_alloc_answered fuel mem c mc evs b3 bl b o v k file line : c < I31 ->
  view mem (Ptr b o) = v -> (k < length v)%nat -> Z.of_nat (S k) < M64 -> length b3 = S k ->
  src_c_strdup_alloc fuel mem c mc evs (Some b3 :: bl) (Ptr b o) (Z.of_nat (S k)) file line =
    FOk (Ptr (length mem) 0, mem ++ [firstn k v ++ [0%N]], t_tick c, cw 32 true (mc + 1),
         (evs ++ t_tick_evs c) ++ [CMalloc (Z.of_nat (S k)) 1], bl).
Proof.
  intros Hc Hv Hk Hl Hb3. unfold src_c_strdup_alloc.
  assert (Hw : wf_ans (Z.of_nat (S k)) (Some b3)) by (cbn [wf_ans]; lia).
  rewrite (malloc_location_spec fuel mem c mc evs (Some b3) bl _ file line Hc Hw). cbn [t_ptr t_mem t_ans].
  cbv beta iota zeta. change (z2b (p_eq (Ptr (length mem) 0) Null)) with false. cbv iota.
  assert (Hne : v <> []) by (intro E; rewrite E in Hk; cbn in Hk; lia).
  rewrite (mem_copy_fresh fuel mem b3 b o v (Z.of_nat (S k)) Hv Hne) by lia. rewrite Nat2Z.id.
  replace (Z.of_nat (S k) - 1) with (Z.of_nat k) by lia. rewrite cw_u_small by (unfold M64 in Hl; lia).
  rewrite padd_fresh by (rewrite firstn_length; lia). change (byte_of 0) with 0%N.
  rewrite store_last_fresh by exact Hk. reflexivity.
Qed.

Lemma firstn_app_le {A} (s t : list A) k : (k <= length s)%nat -> firstn k (s ++ t) = firstn k s.
Proof. intro H. rewrite firstn_app. replace (k - length s)%nat with 0%nat by lia. cbn [firstn]. apply app_nil_r. Qed.

(* cpputest_strdup_location *)
Theorem strdup_refused fuel mem c mc evs bl p s r file line : mem_ok mem -> c < I31 ->
  view mem p = s ++ 0%N :: r -> NN s -> (length s < fuel)%nat -> Z.of_nat (length (s ++ 0%N :: r)) < M64 ->
  src_c_cpputest_strdup_location fuel mem c mc evs (None :: bl) p file line =
    FOk (Null, mem, t_tick c, cw 32 true (mc + 1), (evs ++ t_tick_evs c) ++ [CMalloc (Z.of_nat (length s) + 1) 0], bl).
Proof.
  intros Hm Hc Hv Hnn Hf Hl. rewrite app_length in Hl. cbn [length] in Hl. unfold src_c_cpputest_strdup_location.
  rewrite (strlen_spec fuel mem c mc evs _ p s r Hm Hv Hnn Hf) by lia.
  rewrite cw_u_small by (unfold M64 in Hl; lia). rewrite strdup_alloc_refused by exact Hc.
  replace (1 + Z.of_nat (length s)) with (Z.of_nat (length s) + 1) by lia. reflexivity.
Qed.

(* strdup copies exactly the string: the new block is s ++ [0] whatever bytes the oracle's block held; the old blocks
   (the source among them) are untouched: the memory is the old one with one block appended *)
Theorem strdup_copies_exactly_the_string fuel mem c mc evs b3 bl p s r file line : mem_ok mem -> c < I31 ->
  view mem p = s ++ 0%N :: r -> NN s -> (length s < fuel)%nat -> Z.of_nat (length (s ++ 0%N :: r)) < M64 ->
  length b3 = S (length s) ->
  src_c_cpputest_strdup_location fuel mem c mc evs (Some b3 :: bl) p file line =
    FOk (Ptr (length mem) 0, mem ++ [s ++ [0%N]], t_tick c, cw 32 true (mc + 1),
         (evs ++ t_tick_evs c) ++ [CMalloc (Z.of_nat (length s) + 1) 1], bl).
Proof.
  intros Hm Hc Hv Hnn Hf Hl Hb3. pose proof Hl as Hl'. rewrite app_length in Hl. cbn [length] in Hl.
  unfold src_c_cpputest_strdup_location.
  rewrite (strlen_spec fuel mem c mc evs _ p s r Hm Hv Hnn Hf) by lia.
  rewrite cw_u_small by (unfold M64 in Hl; lia).
  destruct p as [|b o]; [destruct s; discriminate Hv|].
  replace (1 + Z.of_nat (length s)) with (Z.of_nat (S (length s))) by lia.
  rewrite (strdup_alloc_answered fuel mem c mc evs b3 bl b o _ (length s) file line Hc Hv)
    by (try assumption; rewrite ?app_length; cbn [length]; lia).
  rewrite firstn_app_le by lia. rewrite firstn_all.
  replace (Z.of_nat (S (length s))) with (Z.of_nat (length s) + 1) by lia. reflexivity.
Qed.

(* cpputest_strndup_location(str, n): k = min (strlen str) n, k + 1 bytes asked (no wrap for any n < 2^64), firstn k s ++ [0] *)
Lemma strndup_size fuel mem c mc evs blocks p s r n file line : mem_ok mem ->
  view mem p = s ++ 0%N :: r -> NN s -> (length s < fuel)%nat -> Z.of_nat (length (s ++ 0%N :: r)) < M64 -> 0 <= n < M64 ->
  src_c_cpputest_strndup_location fuel mem c mc evs blocks p n file line =
    match src_c_strdup_alloc fuel mem c mc evs blocks p (Z.of_nat (S (Nat.min (length s) (Z.to_nat n)))) file line with
    | FOk r => FOk r | FOob => FOob | FNoFuel => FNoFuel end.
Proof.
  intros Hm Hv Hnn Hf Hl Hn. rewrite app_length in Hl. cbn [length] in Hl. unfold src_c_cpputest_strndup_location.
  rewrite (strlen_spec fuel mem c mc evs _ p s r Hm Hv Hnn Hf) by lia. cbv beta iota zeta. unfold c_lt.
  destruct (Z.ltb_spec (Z.of_nat (length s)) n) as [L|L]; cbn [b2z z2b Z.eqb negb].
  - rewrite cw_u_small by (unfold M64 in Hl; lia).
    replace (Z.of_nat (length s) + 1) with (Z.of_nat (S (Nat.min (length s) (Z.to_nat n)))) by lia.
    destruct (src_c_strdup_alloc _ _ _ _ _ _ _ _ _ _) as [[[[[[? ?] ?] ?] ?] ?]| |]; reflexivity.
  - rewrite cw_u_small by (unfold M64 in Hl; lia).
    replace (n + 1) with (Z.of_nat (S (Nat.min (length s) (Z.to_nat n)))) by lia.
    destruct (src_c_strdup_alloc _ _ _ _ _ _ _ _ _ _) as [[[[[[? ?] ?] ?] ?] ?]| |]; reflexivity.
Qed.

Theorem strndup_refused fuel mem c mc evs bl p s r n file line : mem_ok mem -> c < I31 ->
  view mem p = s ++ 0%N :: r -> NN s -> (length s < fuel)%nat -> Z.of_nat (length (s ++ 0%N :: r)) < M64 -> 0 <= n < M64 ->
  src_c_cpputest_strndup_location fuel mem c mc evs (None :: bl) p n file line =
    FOk (Null, mem, t_tick c, cw 32 true (mc + 1),
         (evs ++ t_tick_evs c) ++ [CMalloc (Z.of_nat (Nat.min (length s) (Z.to_nat n)) + 1) 0], bl).
Proof.
  intros Hm Hc Hv Hnn Hf Hl Hn. rewrite (strndup_size fuel mem c mc evs _ p s r n file line Hm Hv Hnn Hf Hl Hn).
  rewrite strdup_alloc_refused by exact Hc. rewrite Nat2Z.inj_succ. unfold Z.succ. reflexivity.
Qed.

Theorem strndup_spec fuel mem c mc evs b3 bl p s r n file line : mem_ok mem -> c < I31 ->
  view mem p = s ++ 0%N :: r -> NN s -> (length s < fuel)%nat -> Z.of_nat (length (s ++ 0%N :: r)) < M64 -> 0 <= n < M64 ->
  length b3 = S (Nat.min (length s) (Z.to_nat n)) ->
  src_c_cpputest_strndup_location fuel mem c mc evs (Some b3 :: bl) p n file line =
    FOk (Ptr (length mem) 0, mem ++ [firstn (Nat.min (length s) (Z.to_nat n)) s ++ [0%N]], t_tick c, cw 32 true (mc + 1),
         (evs ++ t_tick_evs c) ++ [CMalloc (Z.of_nat (Nat.min (length s) (Z.to_nat n)) + 1) 1], bl).
Proof.
  intros Hm Hc Hv Hnn Hf Hl Hn Hb3. rewrite (strndup_size fuel mem c mc evs _ p s r n file line Hm Hv Hnn Hf Hl Hn).
  destruct p as [|b o]; [destruct s; discriminate Hv|]. rewrite app_length in Hl. cbn [length] in Hl.
  rewrite (strdup_alloc_answered fuel mem c mc evs b3 bl b o _ (Nat.min (length s) (Z.to_nat n)) file line Hc Hv)
    by (try assumption; rewrite ?app_length; cbn [length]; lia).
  rewrite firstn_app_le by lia. rewrite Nat2Z.inj_succ. unfold Z.succ. reflexivity.
Qed.

(* the size asked for never wraps, n = 2^64 - 1 included: it is at most strlen + 1, which is at most the size of the block *)
Lemma strndup_size_no_wrap (s r : list N) n : Z.of_nat (length (s ++ 0%N :: r)) < M64 -> 0 <= n < M64 ->
  cw 64 false (Z.of_nat (Nat.min (length s) (Z.to_nat n)) + 1) = Z.of_nat (Nat.min (length s) (Z.to_nat n)) + 1 /\
  Z.of_nat (Nat.min (length s) (Z.to_nat n)) + 1 <= Z.of_nat (length (s ++ 0%N :: r)).
Proof.
  intros Hl Hn. rewrite app_length in *. cbn [length] in *. split; [|lia]. apply cw_u_small. unfold M64 in Hl. lia.
Qed.

(* ================================================================== 5. cpputest_calloc_location *)
Lemma calloc_overflows_iff num size : 0 <= num -> 0 <= size -> t_calloc_overflows num size = true <-> M64 <= num * size.
Proof.
  intros Hn Hs. unfold t_calloc_overflows. destruct (Z.eqb_spec size 0) as [->|Hz]; cbn [negb andb].
  - split; [discriminate|]. unfold M64. lia.
  - rewrite Z.ltb_lt. split; intro H.
    + destruct (Z_lt_le_dec (num * size) M64) as [L|L]; [|exact L]. exfalso.
      assert (num <= (M64 - 1) / size) by (apply Z.div_le_lower_bound; lia). lia.
    + apply Z.div_lt_upper_bound; lia.
Qed.

(* the test as the translated source writes it *)
Lemma calloc_test num size : 0 <= num -> 0 <= size < M64 ->
  (if z2b (c_ne size 0) then c_gt num (cw 64 false (c_div (cw 64 false (cw 32 true (- 1))) size)) else 0) =
  b2z (t_calloc_overflows num size).
Proof.
  intros Hn Hs. unfold t_calloc_overflows, c_ne, c_gt, c_div. destruct (Z.eqb_spec size 0) as [->|Hz]; cbn [negb b2z z2b Z.eqb andb].
  - reflexivity.
  - change (cw 64 false (cw 32 true (- 1))) with (M64 - 1). rewrite Z.quot_div_nonneg by (unfold M64; lia).
    rewrite cw_u_small; [reflexivity|]. split; [apply Z.div_pos; unfold M64; lia|].
    apply Z.div_lt_upper_bound; [lia|]. unfold M64 in *. nia.
Qed.

(* num * size does not fit in size_t: NULL, and nothing else happens (no countdown tick, no count, no request) *)
Theorem calloc_overflow_refused fuel mem c mc evs blocks num size file line : 0 <= num -> 0 <= size < M64 ->
  M64 <= num * size ->
  src_c_cpputest_calloc_location fuel mem c mc evs blocks num size file line = FOk (Null, mem, c, mc, evs, blocks).
Proof.
  intros Hn Hs Ho. unfold src_c_cpputest_calloc_location.
  assert (E : t_calloc_overflows num size = true) by (apply calloc_overflows_iff; lia).
  pose proof (calloc_test num size Hn Hs) as T. rewrite E in T. cbn [b2z] in T.
  destruct (z2b (c_ne size 0)); [rewrite T|discriminate T]. reflexivity.
Qed.

(* otherwise exactly num * size bytes are asked for; answered: the new block is all zeros whatever it held *)
Theorem calloc_spec fuel mem c mc evs o bl num size file line : c < I31 -> 0 <= num -> 0 <= size < M64 ->
  num * size < M64 -> wf_ans (num * size) o ->
  src_c_cpputest_calloc_location fuel mem c mc evs (o :: bl) num size file line =
    FOk (t_ptr mem o, match o with None => mem | Some _ => mem ++ [repeat 0%N (Z.to_nat (num * size))] end,
         t_tick c, cw 32 true (mc + 1), (evs ++ t_tick_evs c) ++ [CMalloc (num * size) (t_ans o)], bl).
Proof.
  intros Hc Hn Hs Hf Hw. unfold src_c_cpputest_calloc_location.
  assert (E : t_calloc_overflows num size = false).
  { destruct (t_calloc_overflows num size) eqn:E; [|reflexivity]. apply calloc_overflows_iff in E; lia. }
  pose proof (calloc_test num size Hn Hs) as T. rewrite E in T. cbn [b2z] in T.
  assert (Hp : 0 <= num * size) by nia.
  assert (G : forall (R : Type) (k : Z -> cres R unit),
     match (if z2b (c_ne size 0) then Go (c_gt num (cw 64 false (c_div (cw 64 false (cw 32 true (- 1))) size))) else Go 0)
           : cres R Z with Go b1 => k b1 | Done r => Done r | CMem.Oob => CMem.Oob | CMem.NoFuel => CMem.NoFuel end = k 0).
  { intros R k. destruct (z2b (c_ne size 0)); [rewrite T|]; reflexivity. }
  rewrite G. clear G. change (z2b 0) with false. cbv iota.
  rewrite cw_u_small by (unfold M64 in Hf; lia).
  rewrite (malloc_location_spec fuel mem c mc evs o bl _ file line Hc Hw).
  destruct o as [b3|]; cbn [t_ptr t_mem t_ans wf_ans] in *.
  - cbv beta iota zeta. change (z2b (p_bool (Ptr (length mem) 0))) with true. cbv iota.
    rewrite (mem_set_fresh fuel mem b3 (num * size) Hp Hw). reflexivity.
  - reflexivity.
Qed.

(* calloc(0, size) and calloc(num, 0) ask for 0 bytes *)
Corollary calloc_zero fuel mem c mc evs o bl num size file line : c < I31 -> 0 <= num -> 0 <= size < M64 ->
  num = 0 \/ size = 0 -> wf_ans 0 o ->
  src_c_cpputest_calloc_location fuel mem c mc evs (o :: bl) num size file line =
    FOk (t_ptr mem o, match o with None => mem | Some _ => mem ++ [[]] end,
         t_tick c, cw 32 true (mc + 1), (evs ++ t_tick_evs c) ++ [CMalloc 0 (t_ans o)], bl).
Proof.
  intros Hc Hn Hs Hz Hw. assert (E : num * size = 0) by (destruct Hz as [-> | ->]; lia).
  rewrite calloc_spec; try assumption; rewrite E; [reflexivity | unfold M64; lia | exact Hw].
Qed.

(* ================================================================== examples (non-vacuity): the translated functions, evaluated *)
Definition hello : list N := [104; 101; 108; 108; 111]%N.
Definition mem_hello : memory := [hello ++ [0; 7; 7]%N].
Definition CD (k : nat) : list N := repeat 205%N k.      (* a block of 0xCD bytes *)

Example ex_strlen_hello :
  src_c_test_harness_c_strlen 6 mem_hello (-1) 0 [] [] (Ptr 0 0) = FOk (5, mem_hello, -1, 0, [], []).
Proof. vm_compute. reflexivity. Qed.
Example ex_strlen_unterminated : src_c_test_harness_c_strlen 9 [[1; 2; 3]%N] (-1) 0 [] [] (Ptr 0 0) = FOob.
Proof. vm_compute. reflexivity. Qed.

Example ex_strdup_hello :
  src_c_cpputest_strdup_location 6 mem_hello (-1) 0 [] [Some (CD 6)] (Ptr 0 0) Null 0 =
    FOk (Ptr 1 0, mem_hello ++ [hello ++ [0%N]], -1, 1, [CMalloc 6 1], []).
Proof. vm_compute. reflexivity. Qed.
Example ex_strdup_refused :
  src_c_cpputest_strdup_location 6 mem_hello 0 0 [] [None] (Ptr 0 0) Null 0 = FOk (Null, mem_hello, 0, 1, [CMalloc 6 0], []).
Proof. vm_compute. reflexivity. Qed.

Example ex_strndup_max :       (* n = SIZE_MAX: the whole string, 6 bytes asked *)
  src_c_cpputest_strndup_location 6 mem_hello (-1) 0 [] [Some (CD 6)] (Ptr 0 0) (2 ^ 64 - 1) Null 0 =
    FOk (Ptr 1 0, mem_hello ++ [hello ++ [0%N]], -1, 1, [CMalloc 6 1], []).
Proof. vm_compute. reflexivity. Qed.
Example ex_strndup_2 :
  src_c_cpputest_strndup_location 6 mem_hello (-1) 0 [] [Some (CD 3)] (Ptr 0 0) 2 Null 0 =
    FOk (Ptr 1 0, mem_hello ++ [[104; 101; 0]%N], -1, 1, [CMalloc 3 1], []).
Proof. vm_compute. reflexivity. Qed.

Example ex_calloc_3x4 :
  src_c_cpputest_calloc_location 0 mem_hello (-1) 0 [] [Some (CD 12)] 3 4 Null 0 =
    FOk (Ptr 1 0, mem_hello ++ [repeat 0%N 12], -1, 1, [CMalloc 12 1], []).
Proof. vm_compute. reflexivity. Qed.
Example ex_calloc_overflow :    (* 2^32 * 2^32 = 2^64: refused, the oracle is not consulted, nothing is counted *)
  src_c_cpputest_calloc_location 0 mem_hello 1 0 [] [Some (CD 0)] (2 ^ 32) (2 ^ 32) Null 0 =
    FOk (Null, mem_hello, 1, 0, [], [Some (CD 0)]).
Proof. vm_compute. reflexivity. Qed.
Example ex_calloc_largest_fit : (* (2^64 - 1) * 1 fits: asked for *)
  src_c_cpputest_calloc_location 0 mem_hello (-1) 0 [] [None] (2 ^ 64 - 1) 1 Null 0 =
    FOk (Null, mem_hello, -1, 1, [CMalloc (2 ^ 64 - 1) 0], []).
Proof. vm_compute. reflexivity. Qed.
Example ex_calloc_zero :
  src_c_cpputest_calloc_location 0 mem_hello (-1) 0 [] [Some []] 0 8 Null 0 =
    FOk (Ptr 1 0, mem_hello ++ [[]], -1, 1, [CMalloc 0 1], []).
Proof. vm_compute. reflexivity. Qed.

(* countdown 2 over three mallocs: the first passes, the switch comes with the second call before its request; an environment
   honouring the event answers NULL from then on *)
Example ex_countdown_2 :
  src_countdown_then_mallocs 0 [] (-1) 0 [] [Some [1%N]; None; None] 2 [1; 2; 3] Null 0 =
    FOk ([Ptr 0 0; Null; Null], [[1%N]], 0, 3, [CMalloc 1 1; COutOfMemoryOn; CMalloc 2 0; CMalloc 3 0], []).
Proof. vm_compute. reflexivity. Qed.
Example ex_countdown_0 :
  src_countdown_then_mallocs 0 [] (-1) 0 [] [None] 0 [4] Null 0 = FOk ([Null], [], 0, 1, [COutOfMemoryOn; CMalloc 4 0], []).
Proof. vm_compute. reflexivity. Qed.
Example ex_countdown_neg :
  src_countdown_then_mallocs 0 [] 5 0 [] [Some [9%N]; Some [9%N]] (-3) [1; 1] Null 0 =
    FOk ([Ptr 0 0; Ptr 1 0], [[9%N]; [9%N]], -3, 2, [CMalloc 1 1; CMalloc 1 1], []).
Proof. vm_compute. reflexivity. Qed.
(* the theorem instantiated on the same run *)
Example ex_countdown_2_thm :
  src_countdown_then_mallocs 0 [] (-1) 0 [] (map snd [(1, Some [1%N]); (2, None); (3, None)] ++ []) 2
      (map fst [(1, Some [1%N]); (2, None); (3, None)]) Null 0 =
    FOk ([Ptr 0 0; Null; Null], [[1%N]], 0, 3, [] ++ [CMalloc 1 1] ++ [COutOfMemoryOn; CMalloc 2 0; CMalloc 3 0], []).
Proof.
  rewrite countdown_n_allocations; [vm_compute; reflexivity | unfold I31; lia |].
  repeat constructor.
Qed.

(* ================================================================== links to the hand-written models (read-only) *)
(* The countdown of C15_Model.v and the calloc / strdup / strndup clauses of C05_Model.v use the same textbook functions
   as the theorems above: what those models assume about TestHarness_c.cpp is what its translation does. *)
From CppUVerif Require C15_Model C05_Model.
From CppUVerif Require Import lib.Str.

(* C15_Model.c_tick = countdown(): the counter moves by t_tick, the switch (c_set_oom) happens exactly when t_fires *)
Lemma link_C15_c_tick (s : C15_Model.cst) :
  C15_Model.c_tick s =
    let s1 := {| C15_Model.c_counter := t_tick (C15_Model.c_counter s);
                 C15_Model.c_orig := C15_Model.c_orig s; C15_Model.c_cur := C15_Model.c_cur s |} in
    if t_fires (C15_Model.c_counter s) then C15_Model.c_set_oom s1 else s1.
Proof.
  destruct s as [c o cu]. unfold C15_Model.c_tick, t_tick, t_fires. cbn [C15_Model.c_counter C15_Model.c_orig C15_Model.c_cur].
  destruct (Z.leb_spec c (-1)) as [L|L].
  - replace (c =? 1) with false by (symmetry; apply Z.eqb_neq; lia). reflexivity.
  - destruct (Z.eqb_spec c 0) as [->|Hz]; [reflexivity|].
    destruct (Z.eqb_spec c 1) as [->|H1]; [reflexivity|].
    replace (c - 1 =? 0) with false by (symmetry; apply Z.eqb_neq; lia). reflexivity.
Qed.
Lemma link_C15_counter (s : C15_Model.cst) : C15_Model.c_counter (C15_Model.c_tick s) = t_tick (C15_Model.c_counter s).
Proof. rewrite link_C15_c_tick. cbv zeta. destruct (t_fires (C15_Model.c_counter s)); reflexivity. Qed.
(* C15_Model.c_countdown_arm = cpputest_malloc_set_out_of_memory_countdown: the counter is n, n = 0 switches at once *)
Lemma link_C15_arm (s : C15_Model.cst) n :
  C15_Model.c_counter (C15_Model.c_countdown_arm s n) = n /\
  (C15_Model.c_countdown_arm s n =
     let s1 := {| C15_Model.c_counter := n; C15_Model.c_orig := C15_Model.c_orig s; C15_Model.c_cur := C15_Model.c_cur s |} in
     if n =? 0 then C15_Model.c_set_oom s1 else s1).
Proof. unfold C15_Model.c_countdown_arm. cbv zeta. destruct (n =? 0); split; reflexivity. Qed.

(* C05_Model.calloc_mem (repaired variant): the refusal test is t_calloc_overflows; otherwise num * size bytes, all zero *)
Lemma link_C05_calloc_guard (num size : N) :
  (negb (size =? 0) && ((C05_Model.W - 1) / size <? num))%N = t_calloc_overflows (Z.of_N num) (Z.of_N size).
Proof.
  unfold t_calloc_overflows. destruct (N.eqb_spec size 0) as [->|Hz]; [reflexivity|].
  replace (Z.of_N size =? 0) with false by (symmetry; apply Z.eqb_neq; lia). cbn [negb andb].
  change (M64 - 1) with (Z.of_N (C05_Model.W - 1)). rewrite <- N2Z.inj_div.
  destruct (N.ltb_spec ((C05_Model.W - 1) / size) num) as [L|L]; symmetry; [apply Z.ltb_lt | apply Z.ltb_ge]; lia.
Qed.
Lemma link_C05_calloc_refuses c f s idx num size : t_calloc_overflows (Z.of_N num) (Z.of_N size) = true ->
  C05_Model.calloc_mem C05_Model.fixed c f s idx num size = (C05_Model.ANull, s, []).
Proof.
  intro H. unfold C05_Model.calloc_mem. change (C05_Model.v_calloc C05_Model.fixed) with true. cbn [andb].
  rewrite link_C05_calloc_guard, H. reflexivity.
Qed.
Lemma link_C05_calloc_asks c f s idx num size : t_calloc_overflows (Z.of_N num) (Z.of_N size) = false ->
  C05_Model.calloc_mem C05_Model.fixed c f s idx num size =
    C05_Model.alloc_mem C05_Model.fixed c f s idx 0 true (C05_Model.wrap (num * size))
      (fun _ => repeat 0%N (N.to_nat (C05_Model.wrap (num * size)))).
Proof.
  intro H. unfold C05_Model.calloc_mem. change (C05_Model.v_calloc C05_Model.fixed) with true. cbn [andb].
  rewrite link_C05_calloc_guard, H. reflexivity.
Qed.

(* C05_Model.strdup_alloc / strdup_mem / strndup_mem: the length is that of the C string, the bytes are firstn k s ++ [0] *)
Lemma cut_nul_cstr (s r : list N) : NN s -> cut_nul (s ++ 0%N :: r) = s.
Proof.
  induction s as [|c s IH]; intro H; [reflexivity|]. cbn [app cut_nul].
  replace (c =? 0)%N with false by (symmetry; apply N.eqb_neq; exact (Forall_inv H)). f_equal. apply IH. exact (Forall_inv_tail H).
Qed.
Lemma link_C05_strlen (s r : list N) : NN s -> C05_Model.strlen (s ++ 0%N :: r) = N.of_nat (length s).
Proof. intro H. unfold C05_Model.strlen. rewrite cut_nul_cstr by exact H. reflexivity. Qed.
Lemma firstn_S_snoc {A} (d : A) : forall (v : list A) k, (k < length v)%nat -> firstn (S k) v = firstn k v ++ [nth k v d].
Proof.
  induction v as [|y v IH]; intros k H; cbn [length] in H; [lia|]. destruct k as [|k]; [reflexivity|].
  cbn [firstn nth app]. f_equal. apply IH. lia.
Qed.
Lemma link_C05_strdup_bytes (s r : list N) k : NN s -> (k <= length s)%nat ->
  C05_Model.set_last (firstn (S k) (cut_nul (s ++ 0%N :: r) ++ [0%N])) 0%N = firstn k s ++ [0%N].
Proof.
  intros H Hk. rewrite cut_nul_cstr by exact H.
  rewrite (firstn_S_snoc 0%N) by (rewrite app_length; cbn [length]; lia). rewrite firstn_app_le by exact Hk.
  unfold C05_Model.set_last. destruct (firstn k s ++ [nth k (s ++ [0%N]) 0%N]) eqn:E; [destruct (firstn k s); discriminate E|].
  rewrite <- E. rewrite removelast_last. reflexivity.
Qed.
