(* C13 -- allocation pairing for SEVERAL objects whose lives interleave: a pool of SimpleString objects (arguments, results,
   temporaries) sharing ONE string allocator and therefore one chronological event log.  An operation of the public interface
   is a list of (object, buffer-management primitive) pairs (C13_Alloc.v: step); the objects still alive at the end are
   destroyed inside the log.  Definitions only; the theorems are in C13_PoolProofs.v. *)
From Coq Require Import NArith Arith Bool List.
From CppUVerif Require Import C13_Alloc.
Import ListNotations.

Definition pool := (list sobj * list ev)%type.        (* the log newest first, as in C13_Alloc.st *)
Definition blank : sobj := {| held := None; bsz := 0 |}.      (* a slot whose object is not constructed yet / already destroyed *)
Fixpoint upd_obj (i : nat) (o : sobj) (l : list sobj) : list sobj :=
  match l with [] => [] | x :: r => match i with O => o :: r | S i' => x :: upd_obj i' o r end end.
(* one primitive executed by object number i (a number outside the pool: nothing happens) *)
Definition pstep (p : pool) (ip : nat * prim) : pool :=
  let (objs, log) := p in
  match nth_error objs (fst ip) with
  | None => p
  | Some o => let (o', log') := step (o, log) (snd ip) in (upd_obj (fst ip) o' objs, log')
  end.
(* the destructors of every object of the pool, last constructed slot first *)
Definition destroy_all (objs : list sobj) (log : list ev) : list ev :=
  fold_left (fun lg o => snd (deallocateInternalBuffer (o, lg))) (rev objs) log.
Definition pool_run (n : nat) (ops : list (nat * prim)) : pool := fold_left pstep ops (repeat blank n, []).
(* chronological log of a whole scenario on n objects *)
Definition pool_log (n : nat) (ops : list (nat * prim)) : list ev :=
  let (objs, log) := pool_run n ops in rev (destroy_all objs log).

(* ---------------------------------------------------------------- padStringsToSameLength(str1, str2, ch) on two strings of
   la and lb bytes, as executed by the harness scenario `:pad`: both arguments are constructed, padded, destroyed.
     slot 0 = str1, slot 1 = str2, slot 2 = SimpleString(pad, n), slot 3 = the local t of operator+ (returned in place)
   `str1 = SimpleString(pad, n) + str1` on the shorter one (the call swaps its arguments when str1 is the longer):
     SimpleString(pad, n)         setInternalBufferToNewBuffer(1 * n + 1)
     operator+ : t(getBuffer())   copyBufferToNewInternalBuffer(n + 1)
                 t += rhs         a block of n + m + 1 bytes handed over with setInternalBufferTo(tbuffer, n + m + 1)
     shorter = t                  copyBufferToNewInternalBuffer(n + m + 1)
     ~t, ~SimpleString(pad, n) *)
Definition pad_ops (la lb : nat) : list (nat * prim) :=
  let m := Nat.min la lb in let n := (Nat.max la lb - m)%nat in
  let shorter := if Nat.ltb lb la then 1%nat else 0%nat in
  [(0, PCopy (la + 1)); (1, PCopy (lb + 1));
   (2, PNew (1 * n + 1)); (3, PCopy (n + 1)); (3, PHandOver (n + m + 1)); (shorter, PCopy (n + m + 1)); (3, PDealloc); (2, PDealloc)]%nat.
Definition pad_log (la lb : nat) : list ev := pool_log 4 (pad_ops la lb).
(* seeded variant (red-team C13-3 / seeded C13-7): the padded block of M + 1 bytes is requested directly and adopted with
   setInternalBufferTo(padded, M), so the shorter string's next release names M instead of M + 1 *)
Definition pad_log_wrong (la lb : nat) : list ev :=
  let M := Nat.max la lb in
  if Nat.eqb la lb then [EA (la + 1); EA (lb + 1); EF (lb + 1); EF (la + 1)]%nat
  else if Nat.ltb lb la then [EA (la + 1); EA (lb + 1); EA (M + 1); EF (lb + 1); EF M; EF (la + 1)]%nat
  else [EA (la + 1); EA (lb + 1); EA (M + 1); EF (la + 1); EF (lb + 1); EF M]%nat.
