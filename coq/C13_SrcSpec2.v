(* C13: what the TRANSLATED SimpleString METHODS without a loop of their own (size, isEmpty, at, contains, startsWith, endsWith,
   operator==; gen/Gen_LoopC13.v, regenerated from SimpleString.cpp on every run) compute on well-formed C strings: the
   textbook functions of lib/Str.v and C13_Text.v, from the specification lemmas of the primitives (C13_SrcSpec.v).
   `FOk v`: terminated within the fuel, no access outside the blocks of the arguments, returned v. *)
From Coq Require Import ZArith NArith Bool List Lia.
From CppUVerif Require Import lib.CSem lib.CMem lib.CMemFacts lib.Str gen.Gen_LeafC13 gen.Gen_LoopC13
  C13_Text C13_Model C13_Proofs C13_LeafTie C13_SrcTie C13_SrcTie2 C13_SrcSpec.
Import ListNotations.
Local Open Scope Z_scope.

(* ------------------------------------------------------------------ list and view helpers *)
Lemma skipn_skipn' {A} (l : list A) : forall x y, skipn x (skipn y l) = skipn (y + x) l.
Proof.
  induction l as [|c l IH]; intros x y.
  - rewrite !skipn_nil. reflexivity.
  - destruct y as [|y]; [reflexivity|]. cbn [skipn Nat.add]. apply IH.
Qed.

Lemma nth_error_skipn' {A} (l : list A) : forall n k, nth_error (skipn n l) k = nth_error l (n + k).
Proof.
  induction l as [|c l IH]; intros n k.
  - rewrite skipn_nil. destruct k; destruct (n + _)%nat; reflexivity.
  - destruct n as [|n]; [reflexivity|]. cbn [skipn Nat.add nth_error]. apply IH.
Qed.

(* p + k, for a p inside its block and k >= 0, sees the cells of p after the first k *)
Lemma view_shift m b o k : 0 <= o -> 0 <= k -> view m (Ptr b (o + k)) = skipn (Z.to_nat k) (view m (Ptr b o)).
Proof.
  intros Ho Hk. cbn [view].
  replace (0 <=? o + k) with true by (symmetry; apply Z.leb_le; lia).
  replace (0 <=? o) with true by (symmetry; apply Z.leb_le; lia).
  rewrite skipn_skipn'. f_equal. lia.
Qed.

(* a non-empty view starts inside its block *)
Lemma view_cons_bounds m b o c r : view m (Ptr b o) = c :: r ->
  0 <= o /\ Z.of_nat (length (block m b)) = o + Z.of_nat (length (c :: r)).
Proof.
  intro Hv. pose proof (view_cons_nonneg _ _ _ _ _ Hv) as Ho. split; [exact Ho|].
  rewrite <- Hv. cbn [view]. replace (0 <=? o) with true by (symmetry; apply Z.leb_le; lia).
  rewrite skipn_length.
  assert (L : (Z.to_nat o < length (block m b))%nat).
  { destruct (Nat.lt_ge_cases (Z.to_nat o) (length (block m b))) as [L|L]; [exact L|].
    cbn [view] in Hv. replace (0 <=? o) with true in Hv by (symmetry; apply Z.leb_le; lia).
    rewrite skipn_all2 in Hv by exact L. discriminate Hv. }
  lia.
Qed.

Lemma cstr_bounds m b o s r : cstr_at m (Ptr b o) s r ->
  0 <= o /\ Z.of_nat (length (block m b)) = o + Z.of_nat (length (s ++ 0%N :: r)).
Proof.
  intros [Hv _]. destruct (s ++ 0%N :: r) as [|c t] eqn:E; [destruct s; discriminate E|].
  exact (view_cons_bounds _ _ _ _ _ Hv).
Qed.

(* the tail of a C string is a C string *)
Lemma cstr_at_shift m b o s r k : cstr_at m (Ptr b o) s r -> (k <= length s)%nat ->
  cstr_at m (Ptr b (o + Z.of_nat k)) (skipn k s) r.
Proof.
  intros Hc Hk. pose proof (cstr_bounds _ _ _ _ _ Hc) as [Ho _]. destruct Hc as [Hv Hn]. split.
  - rewrite view_shift by lia. rewrite Nat2Z.id, Hv, skipn_app.
    replace (k - length s)%nat with 0%nat by lia. reflexivity.
  - apply NN_skipn. exact Hn.
Qed.

(* ------------------------------------------------------------------ size, isEmpty *)
Lemma src_size_spec fuel m b o s r : mem_ok m -> cstr_at m (Ptr b o) s r ->
  (length (s ++ 0%N :: r) < fuel)%nat -> Z.of_nat (length (s ++ 0%N :: r)) < M64 ->
  src_size fuel m (Ptr b o) = FOk (Z.of_nat (length s)).
Proof.
  intros Hm Hc Hf Hl. unfold src_size. rewrite (src_StrLen_spec fuel m b o s r Hm Hc Hf Hl). reflexivity.
Qed.

Lemma src_isEmpty_spec fuel m b o s r : mem_ok m -> cstr_at m (Ptr b o) s r ->
  (length (s ++ 0%N :: r) < fuel)%nat -> Z.of_nat (length (s ++ 0%N :: r)) < M64 ->
  src_isEmpty fuel m (Ptr b o) = FOk (b2z (Nat.eqb (length s) 0)).
Proof.
  intros Hm Hc Hf Hl. unfold src_isEmpty. rewrite (src_size_spec fuel m b o s r Hm Hc Hf Hl). cbn [finish].
  f_equal. unfold c_eq. f_equal. destruct s; reflexivity.
Qed.

(* ------------------------------------------------------------------ at *)
(* exact behaviour of `buffer_[pos]` (no hypothesis): the pointer buffer_ + pos is formed (one past the end allowed) and read *)
Lemma src_at_eq fuel m b o pos :
  src_at fuel m (Ptr b o) pos =
    if 0 <=? o + pos
    then match nth_error (block m b) (Z.to_nat (o + pos)) with Some c => FOk (schar c) | None => FOob end
    else FOob.
Proof.
  unfold src_at. cbn [padd]. destruct (0 <=? o + pos) eqn:E; cbn [andb]; [|reflexivity].
  destruct (o + pos <=? Z.of_nat (length (block m b))) eqn:E2.
  - cbn [load]. rewrite E. destruct (nth_error (block m b) (Z.to_nat (o + pos))); reflexivity.
  - cbn [finish]. apply Z.leb_gt in E2. apply Z.leb_le in E.
    rewrite (proj2 (nth_error_None (block m b) (Z.to_nat (o + pos)))) by lia. reflexivity.
Qed.

Lemma src_at_spec fuel m b o pos l : mem_ok m -> view m (Ptr b o) = l ->
  (Z.to_nat pos < length l)%nat -> 0 <= pos ->
  src_at fuel m (Ptr b o) pos = FOk (schar (nth (Z.to_nat pos) l 0%N)).
Proof.
  intros _ Hv Hl Hp. rewrite src_at_eq. cbn [view] in Hv.
  destruct (0 <=? o) eqn:Ho; [|subst l; cbn in Hl; lia]. apply Z.leb_le in Ho.
  replace (0 <=? o + pos) with true by (symmetry; apply Z.leb_le; lia).
  replace (Z.to_nat (o + pos)) with (Z.to_nat o + Z.to_nat pos)%nat by lia.
  rewrite <- nth_error_skipn', Hv. rewrite (nth_error_nth' l 0%N Hl). reflexivity.
Qed.

(* every position from the length of the view on is refused (pos = length forms the one-past-the-end pointer, the load fails),
   and so is every negative pos that leads before the block.  A negative pos that stays inside the block is NOT refused
   (src_at_neg_inside below): `pos` is a size_t in the source, so this only concerns callers of the Gallina function. *)
Lemma src_at_oob fuel m b o pos l : mem_ok m -> view m (Ptr b o) = l -> 0 <= o ->
  ((length l <= Z.to_nat pos)%nat /\ 0 <= pos) \/ o + pos < 0 ->
  src_at fuel m (Ptr b o) pos = FOob.
Proof.
  intros _ Hv Ho H. rewrite src_at_eq. destruct H as [[Hl Hp] | Hneg].
  - replace (0 <=? o + pos) with true by (symmetry; apply Z.leb_le; lia).
    rewrite (proj2 (nth_error_None (block m b) (Z.to_nat (o + pos)))); [reflexivity|].
    subst l. cbn [view] in Hl. replace (0 <=? o) with true in Hl by (symmetry; apply Z.leb_le; lia).
    rewrite skipn_length in Hl. lia.
  - replace (0 <=? o + pos) with false by (symmetry; apply Z.leb_gt; lia). reflexivity.
Qed.

(* ------------------------------------------------------------------ contains, operator== *)
Lemma src_contains_spec fuel m b1 o1 b2 o2 a ra c rc : mem_ok m ->
  cstr_at m (Ptr b1 o1) a ra -> cstr_at m (Ptr b2 o2) c rc ->
  (length (a ++ 0%N :: ra) < fuel)%nat -> (length (c ++ 0%N :: rc) < fuel)%nat ->
  Z.of_nat (length (c ++ 0%N :: rc)) < M64 ->
  src_contains fuel m (Ptr b1 o1) (Ptr b2 o2) = FOk (b2z (contains a c)).
Proof.
  intros Hm Ha Hc Hfa Hfc Hlc. unfold src_contains.
  rewrite (src_StrStr_spec fuel m b1 o1 b2 o2 a ra c rc Hm Ha Hc Hfa Hfc Hlc). cbn [finish].
  rewrite contains_find. destruct (find_sub a c); reflexivity.
Qed.

Lemma src_equal_spec fuel m b1 o1 b2 o2 a ra c rc : mem_ok m ->
  cstr_at m (Ptr b1 o1) a ra -> cstr_at m (Ptr b2 o2) c rc ->
  (length (a ++ 0%N :: ra) < fuel)%nat ->
  src_equal fuel m (Ptr b1 o1) (Ptr b2 o2) = FOk (b2z (bytes_eqb a c)).
Proof.
  intros Hm Ha Hc Hfa. unfold src_equal.
  destruct (src_StrCmp_spec fuel m b1 o1 b2 o2 a ra c rc Hm Ha Hc Hfa) as [d [Hd Hs]]. rewrite Hd. cbn [finish].
  unfold c_eq. rewrite Z.eqb_sym, (sgn_zero _ _ Hs), str_cmp_eqb. reflexivity.
Qed.

(* ------------------------------------------------------------------ startsWith *)
Lemma len_cons_ne0 (x : N) s : z2b (c_eq (Z.of_nat (length (x :: s))) 0) = false.
Proof. unfold c_eq. rewrite b2z_z2b. apply Z.eqb_neq. cbn [length]. lia. Qed.

Lemma src_startsWith_spec fuel m b1 o1 b2 o2 a ra c rc : mem_ok m ->
  cstr_at m (Ptr b1 o1) a ra -> cstr_at m (Ptr b2 o2) c rc ->
  (length (a ++ 0%N :: ra) < fuel)%nat -> (length (c ++ 0%N :: rc) < fuel)%nat ->
  Z.of_nat (length (a ++ 0%N :: ra)) < M64 -> Z.of_nat (length (c ++ 0%N :: rc)) < M64 ->
  src_startsWith fuel m (Ptr b1 o1) (Ptr b2 o2) = FOk (b2z (is_prefix c a)).
Proof.
  intros Hm Ha Hc Hfa Hfc Hla Hlc. unfold src_startsWith.
  rewrite (src_size_spec fuel m b2 o2 c rc Hm Hc Hfc Hlc).
  destruct c as [|y c]; [reflexivity|].
  rewrite len_cons_ne0.
  rewrite (src_size_spec fuel m b1 o1 a ra Hm Ha Hfa Hla).
  destruct a as [|x a]; [reflexivity|].
  rewrite len_cons_ne0.
  rewrite (src_StrStr_spec fuel m b1 o1 b2 o2 (x :: a) ra (y :: c) rc Hm Ha Hc Hfa Hfc Hlc). cbn [finish].
  rewrite <- find_sub_zero. f_equal. unfold p_eq. f_equal.
  destruct (find_sub (x :: a) (y :: c)) as [[|k]|]; cbn [ptr_eqb].
  - rewrite Nat.eqb_refl. cbn [andb]. apply Z.eqb_eq. cbn. lia.
  - rewrite Nat.eqb_refl. cbn [andb]. apply Z.eqb_neq. lia.
  - reflexivity.
Qed.

(* ------------------------------------------------------------------ endsWith *)
Lemma src_endsWith_spec fuel m b1 o1 b2 o2 a ra c rc : mem_ok m ->
  cstr_at m (Ptr b1 o1) a ra -> cstr_at m (Ptr b2 o2) c rc ->
  (length (a ++ 0%N :: ra) < fuel)%nat -> (length (c ++ 0%N :: rc) < fuel)%nat ->
  Z.of_nat (length (a ++ 0%N :: ra)) < M64 -> Z.of_nat (length (c ++ 0%N :: rc)) < M64 ->
  src_endsWith fuel m (Ptr b1 o1) (Ptr b2 o2) = FOk (b2z (t_ends_with a c)).
Proof.
  intros Hm Ha Hc Hfa Hfc Hla Hlc. unfold src_endsWith.
  rewrite (src_size_spec fuel m b1 o1 a ra Hm Ha Hfa Hla).
  rewrite (src_size_spec fuel m b2 o2 c rc Hm Hc Hfc Hlc).
  unfold c_eq, c_lt. rewrite !b2z_z2b.
  destruct (Z.eqb_spec (Z.of_nat (length c)) 0) as [Ec|Ec].
  { destruct c; [reflexivity | cbn [length] in Ec; lia]. }
  destruct (Z.eqb_spec (Z.of_nat (length a)) 0) as [Ea|Ea].
  { destruct a; [|cbn [length] in Ea; lia]. cbn [finish]. f_equal. f_equal.
    unfold t_ends_with. cbn [rev]. rewrite is_prefix_nil_r.
    destruct c as [|y c]; [cbn [length] in Ec; lia|]. cbn [rev]. destruct (rev c); reflexivity. }
  destruct (Z.ltb_spec (Z.of_nat (length a)) (Z.of_nat (length c))) as [L|L].
  { cbn [finish]. f_equal. f_equal. unfold t_ends_with. symmetry.
    destruct (is_prefix (rev c) (rev a)) eqn:P; [|reflexivity].
    apply is_prefix_spec in P. destruct P as [q Hq]. apply (f_equal (@length N)) in Hq.
    rewrite app_length, !rev_length in Hq. lia. }
  pose proof (cstr_bounds _ _ _ _ _ Ha) as [Ho Hblk]. rewrite app_length in Hblk. cbn [length] in Hblk.
  cbn [padd].
  replace (0 <=? o1 + Z.of_nat (length a)) with true by (symmetry; apply Z.leb_le; lia).
  replace (o1 + Z.of_nat (length a) <=? Z.of_nat (length (block m b1))) with true by (symmetry; apply Z.leb_le; lia).
  cbn [andb padd].
  replace (0 <=? o1 + Z.of_nat (length a) + - Z.of_nat (length c)) with true by (symmetry; apply Z.leb_le; lia).
  replace (o1 + Z.of_nat (length a) + - Z.of_nat (length c) <=? Z.of_nat (length (block m b1))) with true
    by (symmetry; apply Z.leb_le; lia).
  cbn [andb].
  replace (o1 + Z.of_nat (length a) + - Z.of_nat (length c)) with (o1 + Z.of_nat (length a - length c)) by lia.
  assert (Hs : cstr_at m (Ptr b1 (o1 + Z.of_nat (length a - length c))) (skipn (length a - length c) a) ra)
    by (apply cstr_at_shift; [exact Ha | lia]).
  assert (Hfs : (length (skipn (length a - length c) a ++ 0%N :: ra) < fuel)%nat).
  { rewrite app_length, skipn_length. rewrite app_length in Hfa. lia. }
  destruct (src_StrCmp_spec fuel m b1 _ b2 o2 _ ra c rc Hm Hs Hc Hfs) as [d [Hd Hsg]]. rewrite Hd. cbn [finish].
  rewrite (sgn_zero _ _ Hsg), str_cmp_eqb. f_equal. f_equal. symmetry. apply ends_with_skipn. lia.
Qed.

(* ------------------------------------------------------------------ non-vacuity: the translated methods run *)
(* block 0 = "abcab\0" followed by one unrelated byte, block 1 = "ab\0", block 2 = "\0", block 3 = "cb\0" *)
Definition ex_mem : memory := [[97; 98; 99; 97; 98; 0; 7]; [97; 98; 0]; [0]; [99; 98; 0]]%N.

Example src_size_ex : src_size 8 ex_mem (Ptr 0 0) = FOk 5.
Proof. vm_compute. reflexivity. Qed.
Example src_isEmpty_ex : src_isEmpty 8 ex_mem (Ptr 0 0) = FOk 0 /\ src_isEmpty 8 ex_mem (Ptr 2 0) = FOk 1.
Proof. vm_compute. split; reflexivity. Qed.
Example src_at_ex : src_at 0 ex_mem (Ptr 0 0) 2 = FOk 99.
Proof. vm_compute. reflexivity. Qed.
Example src_at_oob_ex : src_at 0 ex_mem (Ptr 1 0) 3 = FOob /\ src_at 0 ex_mem (Ptr 1 0) 4 = FOob /\ src_at 0 ex_mem (Ptr 1 1) (-2) = FOob.
Proof. vm_compute. repeat split; reflexivity. Qed.
(* the counterexample to "every pos < 0 is refused": buffer_ = block 1 + 1, pos = -1 reads the first byte of the block *)
Example src_at_neg_inside : src_at 0 ex_mem (Ptr 1 1) (-1) = FOk 97.
Proof. vm_compute. reflexivity. Qed.
Example src_contains_ex : src_contains 8 ex_mem (Ptr 0 0) (Ptr 1 0) = FOk 1 /\ src_contains 8 ex_mem (Ptr 1 0) (Ptr 0 0) = FOk 0.
Proof. vm_compute. split; reflexivity. Qed.
Example src_startsWith_ex : src_startsWith 8 ex_mem (Ptr 0 0) (Ptr 1 0) = FOk 1 /\ src_startsWith 8 ex_mem (Ptr 0 1) (Ptr 1 0) = FOk 0.
Proof. vm_compute. split; reflexivity. Qed.
Example src_endsWith_ex : src_endsWith 8 ex_mem (Ptr 0 0) (Ptr 1 0) = FOk 1 /\ src_endsWith 8 ex_mem (Ptr 0 0) (Ptr 3 0) = FOk 0 /\
  src_endsWith 8 ex_mem (Ptr 1 0) (Ptr 0 0) = FOk 0.
Proof. vm_compute. repeat split; reflexivity. Qed.
Example src_equal_ex : src_equal 8 ex_mem (Ptr 0 3) (Ptr 1 0) = FOk 1 /\ src_equal 8 ex_mem (Ptr 0 0) (Ptr 1 0) = FOk 0.
Proof. vm_compute. split; reflexivity. Qed.
