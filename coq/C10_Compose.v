(* C10 -- a thread's whole script is its scripts of the epochs one after another (on the test thread: joined by a test
   boundary).  The textbook reading (lrun) and the well-formedness of scripts (script_ok) decompose along that join;
   a scenario that is valid as a whole is valid epoch by epoch. *)
From Coq Require Import NArith Arith Bool List Lia.
From CppUVerif Require Import C10_Wiring gen.Gen_C10 C10_Model C10_Steps C10_Lock C10_Data C10_Sched C10_Proofs C10_Main.
Import ListNotations.

(* ---------------------------------------------------------------- the test thread: scripts joined by a boundary *)
Lemma lrun_join0 : forall a b sk L, lrun (a ++ OBoundary :: b) sk L = lrun b false (next_test (lrun a sk L)).
Proof.
  induction a as [|o a IH]; intros b sk L.
  - simpl. destruct sk; reflexivity.
  - simpl. destruct sk.
    + destruct o; apply IH.
    + destruct (lstep o L) as [L' f]. destruct f; apply IH.
Qed.

Lemma script_ok_join0 : forall a b sk L, script_ok (a ++ OBoundary :: b) sk L true = true ->
  script_ok a sk L true = true /\ script_ok b false (next_test (lrun a sk L)) true = true.
Proof.
  induction a as [|o a IH]; intros b sk L H.
  - simpl in H. simpl. split; auto. destruct sk; simpl in H; auto.
  - simpl in H. apply andb_true_iff in H. destruct H as (Hshape & H). simpl. rewrite Hshape. simpl.
    destruct sk.
    + destruct o; apply IH in H; exact H.
    + apply andb_true_iff in H. destruct H as (Hfresh & H). rewrite Hfresh. simpl.
      destruct (lstep o L) as [L' f]. destruct f.
      * simpl in H. simpl. apply IH in H. exact H.
      * apply IH in H. exact H.
Qed.

(* ---------------------------------------------------------------- the other threads: scripts appended; they never misuse *)
Lemma lrun_app_w : forall a b L, script_ok a false L false = true -> lrun (a ++ b) false L = lrun b false (lrun a false L).
Proof.
  induction a as [|o a IH]; intros b L H; [reflexivity|].
  simpl in H. apply andb_true_iff in H. destruct H as (_ & H). apply andb_true_iff in H. destruct H as (_ & H).
  simpl. destruct (lstep o L) as [L' f]. destruct f; [discriminate|]. apply IH; auto.
Qed.

Lemma script_ok_app_w : forall a b L, script_ok (a ++ b) false L false = true ->
  script_ok a false L false = true /\ script_ok b false (lrun a false L) false = true.
Proof.
  induction a as [|o a IH]; intros b L H; [simpl; auto|].
  simpl in H. apply andb_true_iff in H. destruct H as (Hshape & H). apply andb_true_iff in H. destruct H as (Hfresh & H).
  simpl. rewrite Hshape, Hfresh. simpl.
  destruct (lstep o L) as [L' f]. destruct f; [discriminate|]. apply IH; auto.
Qed.

(* ---------------------------------------------------------------- lists in step *)
Lemma nth_error_combine : forall A B (a : list A) (b : list B) i x y,
  nth_error (combine a b) i = Some (x, y) <-> nth_error a i = Some x /\ nth_error b i = Some y.
Proof.
  induction a as [|a0 a IH]; intros b i x y.
  - simpl. destruct i; simpl; split; [discriminate|intros (H & _); discriminate|discriminate|intros (H & _); discriminate].
  - destruct b as [|b0 b].
    + simpl. destruct i; simpl; split; try discriminate; intros (_ & H); discriminate.
    + destruct i; simpl.
      * split; [intros H; inversion H; auto|intros (H1 & H2); congruence].
      * apply IH.
Qed.

Lemma combine_length_eq : forall A B (a : list A) (b : list B), length a = length b -> length (combine a b) = length a.
Proof. intros. rewrite combine_length. lia. Qed.

Lemma extend_length : forall cum segs, length (extend cum segs) = length cum \/ length segs <> length cum.
Proof.
  intros cum segs. destruct (Nat.eq_dec (length segs) (length cum)) as [E|E]; [left|right; auto].
  destruct cum as [|c0 cr]; destruct segs as [|s0 sr]; simpl in *; auto; try discriminate.
  rewrite map_length, combine_length_eq; lia.
Qed.

Lemma extend_length_eq : forall cum segs, length segs = length cum -> length (extend cum segs) = length cum.
Proof. intros cum segs E. destruct (extend_length cum segs); auto. congruence. Qed.

(* ---------------------------------------------------------------- scripts_ok decomposes *)
(* what an epoch's scripts have to satisfy, each from where the thread's earlier scripts leave it *)
Definition segs_ok (cum segs : list (list op)) : Prop :=
  match cum, segs with
  | c0 :: cr, s0 :: sr =>
      script_ok s0 false (next_test (final_local c0)) true = true
      /\ (forall i c sg, nth_error cr i = Some c -> nth_error sr i = Some sg -> script_ok sg false (final_local c) false = true)
  | _, _ => True
  end.

Lemma scripts_ok_extend : forall cum segs, length segs = length cum -> scripts_ok (extend cum segs) = true ->
  scripts_ok cum = true /\ segs_ok cum segs.
Proof.
  intros cum segs Hl H. destruct cum as [|c0 cr]; [discriminate|]. destruct segs as [|s0 sr]; [discriminate|].
  simpl in Hl. injection Hl as Hl.
  simpl in H. apply andb_true_iff in H. destruct H as (H0 & Hr).
  apply script_ok_join0 in H0. destruct H0 as (H0a & H0b).
  rewrite forallb_forall in Hr.
  assert (Hw : forall i c sg, nth_error cr i = Some c -> nth_error sr i = Some sg ->
                script_ok c false l0 false = true /\ script_ok sg false (final_local c) false = true).
  { intros i c sg Hc Hs. apply script_ok_app_w. apply Hr. apply in_map_iff. exists (c, sg). split; auto.
    eapply nth_error_In. apply nth_error_combine. split; eauto. }
  split.
  - simpl. rewrite H0a. simpl. apply forallb_forall. intros c Hc. apply In_nth_error in Hc. destruct Hc as (i & Hc).
    assert (Hi : i < length sr). { rewrite Hl. apply nth_error_Some. congruence. }
    destruct (nth_error sr i) as [sg|] eqn:Hs; [|apply nth_error_None in Hs; lia].
    apply (Hw i c sg Hc Hs).
  - simpl. split; auto. intros i c sg Hc Hs. apply (Hw i c sg Hc Hs).
Qed.

Lemma fold_extend_length : forall segss cum, Forall (fun segs => length segs = length cum) segss ->
  length (fold_left extend segss cum) = length cum.
Proof.
  induction segss as [|segs r IH]; simpl; intros cum H; auto.
  inversion H; subst. rewrite IH.
  - apply extend_length_eq; auto.
  - rewrite extend_length_eq by auto. auto.
Qed.

Lemma scripts_ok_fold_first : forall segss cum, Forall (fun segs => length segs = length cum) segss ->
  scripts_ok (fold_left extend segss cum) = true -> scripts_ok cum = true.
Proof.
  induction segss as [|segs r IH]; simpl; intros cum H Hok; auto.
  inversion H; subst.
  assert (Hr : Forall (fun segs0 => length segs0 = length (extend cum segs)) r) by (rewrite extend_length_eq by auto; auto).
  apply IH in Hok; auto. apply scripts_ok_extend in Hok; tauto.
Qed.

(* ---------------------------------------------------------------- validity, unfolded *)
Lemma more_ok_lengths : forall eps n h, more_ok n h eps = true -> Forall (fun segs => length segs = n) (map ep_scripts eps).
Proof.
  induction eps as [|e r IH]; simpl; intros n h H; constructor.
  - repeat (apply andb_true_iff in H; destruct H as (H & ?)). apply Nat.eqb_eq; auto.
  - apply andb_true_iff in H. destruct H as (_ & H). eapply IH; eauto.
Qed.

Lemma valid_parts : forall s, valid s = true ->
  more_ok (length (sc_scripts s)) [] (sc_more s) = true /\ scripts_ok (whole_scripts s) = true.
Proof.
  intros s H. unfold valid in H. apply andb_true_iff in H. destruct H as (H & H2). apply andb_true_iff in H. destruct H as (_ & H1). auto.
Qed.

(* the first epoch of a valid scenario is a valid scenario of the old kind *)
Lemma valid_first : forall s, valid s = true -> scripts_ok (sc_scripts s) = true.
Proof.
  intros s H. destruct (valid_parts s H) as (Hm & Hw).
  apply (scripts_ok_fold_first (map ep_scripts (sc_more s)) (sc_scripts s)); auto. eapply more_ok_lengths; eauto.
Qed.
