(* C04: the READ-ONLY member functions of the TRANSLATED MemoryLeakDetectorTable (gen/Gen_HeapC04.v), run on a heap that represents
   a model table (C04_HeapRep.v: table_at), return FOk of the pointer / number that represents the result of the model function
   (C04_Model.v).  hash, retrieveNode, getTotalLeaks, getFirstLeak, getFirstLeakForAllocationStage, getNextLeak,
   getNextLeakForAllocationStage.  The loops over the 73 buckets are proved by induction on the number of buckets still to visit.
   The facts about the table block (table_padd, table_list, table_chain, table_chains, ...) and about lists of buckets
   (skipn_cons_nth, Forall2_of_nth, Forall2_skipn) are exported for the proofs about the storing functions. *)
From Coq Require Import ZArith NArith Bool List Lia.
From CppUVerif Require Import lib.CSem lib.CMem lib.CMemFacts lib.CHeap gen.Gen_Common gen.Gen_HeapC04 C04_Model C04_HeapRep C04_HeapList.
Import ListNotations.
Local Open Scope Z_scope.

(* ------------------------------------------------------------------ lists of buckets *)
Lemma skipn_cons_nth {A} (d : A) : forall l j, (j < length l)%nat -> skipn j l = nth j l d :: skipn (S j) l.
Proof.
  induction l as [|x l IH]; intros j Hj; [cbn [length] in Hj; lia|]. destruct j as [|j]; [reflexivity|].
  cbn [length] in Hj. change (skipn j l = nth j l d :: skipn (S j) l). apply IH. lia.
Qed.
Lemma in_skipn {A} (x : A) : forall n l, In x (skipn n l) -> In x l.
Proof.
  induction n as [|n IH]; intros l H; [exact H|]. destruct l as [|y l]; [exact H|]. right. apply IH. exact H.
Qed.
Lemma Forall2_of_nth {A B} (R : A -> B -> Prop) da db : forall l1 l2, length l1 = length l2 ->
  (forall i, (i < length l1)%nat -> R (nth i l1 da) (nth i l2 db)) -> Forall2 R l1 l2.
Proof.
  induction l1 as [|x l1 IH]; intros l2 Hl Hn; destruct l2 as [|y l2]; try discriminate Hl; constructor.
  - apply (Hn 0%nat). cbn [length]. lia.
  - apply IH; [cbn [length] in Hl; lia|]. intros i Hi. apply (Hn (S i)). cbn [length]. lia.
Qed.
Lemma Forall2_skipn {A B} (R : A -> B -> Prop) : forall n l1 l2, Forall2 R l1 l2 -> Forall2 R (skipn n l1) (skipn n l2).
Proof.
  induction n as [|n IH]; intros l1 l2 H; [exact H|]. destruct H as [|x y l1 l2 Hxy H]; cbn [skipn]; [constructor|].
  apply IH. exact H.
Qed.

(* ------------------------------------------------------------------ the table block *)
Lemma nbuckets_73 : nbuckets = 73%nat. Proof. reflexivity. Qed.
Lemma hashN_lt a : (hashN a < nbuckets)%nat.
Proof.
  unfold hashN, nbuckets. change hash_prime with 73%N. pose proof (N.mod_lt a 73). lia.
Qed.
(* &table_[i] : any index up to one past the array *)
Lemma table_padd h bt bss t i : table_at h bt bss t -> (i <= nbuckets)%nat ->
  hpadd h (HPtr bt 0) (Z.of_nat i) = Some (HPtr bt (Z.of_nat i)).
Proof.
  intros [_ [_ [Hlen _]]] Hi. apply (hpadd_cell h bt 0 i). rewrite Hlen. lia.
Qed.
Lemma table_list h bt bss t i : table_at h bt bss t -> (i < nbuckets)%nat ->
  list_at h (HPtr bt (Z.of_nat i)) (nth i bss []) (nth i t []).
Proof. intros [_ [_ [_ [_ [_ [_ Hall]]]]]] Hi. exact (Hall i Hi). Qed.
Lemma table_chain h bt bss t i : table_at h bt bss t -> (i < nbuckets)%nat ->
  exists p, chain h p (nth i bss []) (nth i t []).
Proof. intros Ht Hi. destruct (table_list h bt bss t i Ht Hi) as [hd [_ [Hc _]]]. exists hd. exact Hc. Qed.
Lemma table_nodes_ok h bt bss t i : table_at h bt bss t -> (i < nbuckets)%nat -> Forall node_ok (nth i t []).
Proof. intros Ht Hi. destruct (table_list h bt bss t i Ht Hi) as [hd [_ [_ [_ [Hok _]]]]]. exact Hok. Qed.
Lemma table_chains h bt bss t : table_at h bt bss t -> Forall2 (fun bs b => exists p, chain h p bs b) bss t.
Proof.
  intro Ht. pose proof Ht as [Hlt [Hlb _]]. apply (Forall2_of_nth _ [] []); [exact (eq_trans Hlb (eq_sym Hlt))|].
  intros i Hi. apply (table_chain h bt bss t i Ht). lia.
Qed.
Lemma chains_lengths h bss t : Forall2 (fun bs b => exists p, chain h p bs b) bss t ->
  Forall2 (fun (bs : list nat) (b : bucket) => length bs = length b) bss t.
Proof.
  intro H. induction H as [|bs b bss t [p Hc] H IH]; constructor; [exact (chain_length h b p bs Hc) | exact IH].
Qed.
Lemma in_bucket_in_table (bss : list (list nat)) i b : In b (nth i bss []) -> In b (concat bss).
Proof.
  intro H. destruct (Nat.lt_ge_cases i (length bss)) as [L|L].
  - apply in_concat. exists (nth i bss []). split; [apply nth_In; exact L | exact H].
  - rewrite nth_overflow in H by exact L. destruct H.
Qed.
Lemma in_rest_in_table (bss : list (list nat)) i b : In b (concat (skipn i bss)) -> In b (concat bss).
Proof.
  intro H. apply in_concat in H. destruct H as [l [Hl Hb]]. apply in_concat. exists l. split; [|exact Hb].
  exact (in_skipn l i bss Hl).
Qed.

(* the loop tests and increments of the bucket loops: `int i` and `unsigned long i` stay in 0..73 *)
Lemma lt73_true j : (j < 73)%nat -> z2b (c_lt (Z.of_nat j) 73) = true.
Proof. intro H. unfold c_lt. destruct (Z.ltb_spec (Z.of_nat j) 73) as [_|C]; [reflexivity | lia]. Qed.
Lemma lt73_false : z2b (c_lt (Z.of_nat 73) 73) = false.
Proof. reflexivity. Qed.
Lemma inc_s j : (j < 73)%nat -> cw 32 true (Z.of_nat j + 1) = Z.of_nat (S j).
Proof. intro H. rewrite cw_s_small; [lia | lia|]. change (2 ^ (32 - 1)) with 2147483648. lia. Qed.
Lemma inc_u j : (j < 73)%nat -> cw 64 false (Z.of_nat j + 1) = Z.of_nat (S j).
Proof. intro H. rewrite cw_u_small; [lia|]. change (2 ^ 64) with 18446744073709551616. lia. Qed.

(* ------------------------------------------------------------------ 1: hash *)
Theorem src_table_hash_spec : forall fuel h this a, (a < 2 ^ 64)%N ->
  src_table_hash fuel h this (Z.of_N a) = FOk (Z.of_nat (hashN a)).
Proof.
  intros fuel h this a Ha. unfold src_table_hash, finish, c_rem, hashN.
  assert (Ha' : 0 <= Z.of_N a < 2 ^ 64).
  { split; [lia|]. change (2 ^ 64) with (Z.of_N (2 ^ 64)). lia. }
  rewrite (cw_u_small 64 (Z.of_N a)) by exact Ha'.
  rewrite Z.rem_mod_nonneg by lia. rewrite N_nat_Z. change hash_prime with 73%N. rewrite N2Z.inj_mod.
  change (Z.of_N 73) with 73. rewrite cw_u_small; [reflexivity|].
  pose proof (Z.mod_pos_bound (Z.of_N a) 73). change (2 ^ 64) with 18446744073709551616. lia.
Qed.

(* ------------------------------------------------------------------ 2: retrieveNode *)
Theorem src_table_retrieveNode_spec : forall fuel h bt bss t a, table_at h bt bss t -> (a < 2 ^ 64)%N ->
  (forall i, (i < nbuckets)%nat -> (length (nth i t []) < fuel)%nat) ->
  src_table_retrieveNode fuel h (HPtr bt 0) (Z.of_N a) = FOk (ptr_of a (nth (hashN a) bss []) (nth (hashN a) t [])).
Proof.
  intros fuel h bt bss t a Ht Ha Hf. unfold src_table_retrieveNode.
  rewrite (src_table_hash_spec fuel h (HPtr bt 0) a Ha). pose proof (hashN_lt a) as Hi.
  rewrite (table_padd h bt bss t (hashN a) Ht) by lia.
  rewrite (src_list_retrieveNode_spec fuel h _ _ _ a (table_list h bt bss t (hashN a) Ht Hi) (Hf _ Hi)). reflexivity.
Qed.
(* that pointer is the model's t_retrieve a t = l_retrieve a (get_b (hashN a) t), get_b i t = nth i t [] *)
Theorem table_retrieve_none : forall h bt bss t a, table_at h bt bss t ->
  (ptr_of a (nth (hashN a) bss []) (nth (hashN a) t []) = HNull <-> t_retrieve a t = None).
Proof.
  intros h bt bss t a Ht. unfold t_retrieve, get_b. destruct (table_chain h bt bss t (hashN a) Ht (hashN_lt a)) as [p Hc].
  apply ptr_of_none. exact (chain_length h _ p _ Hc).
Qed.
Theorem table_retrieve_some : forall h bt bss t a n, table_at h bt bss t -> t_retrieve a t = Some n ->
  exists b nxt, ptr_of a (nth (hashN a) bss []) (nth (hashN a) t []) = HPtr b 0 /\ In b (nth (hashN a) bss []) /\
                In b (concat bss) /\ hblock h b = node_cells n nxt.
Proof.
  intros h bt bss t a n Ht Hr. unfold t_retrieve, get_b in Hr.
  destruct (table_chain h bt bss t (hashN a) Ht (hashN_lt a)) as [p Hc].
  destruct (ptr_of_some h a _ p _ n Hc Hr) as [b [nxt [Hp [Hin Hb]]]]. exists b, nxt.
  split; [exact Hp|]. split; [exact Hin|]. split; [exact (in_bucket_in_table bss _ b Hin) | exact Hb].
Qed.

(* ------------------------------------------------------------------ 3: getTotalLeaks *)
Lemma src_table_getTotalLeaks_loop1_spec : forall per h bt bss t fuel0, table_at h bt bss t ->
  (forall i, (i < nbuckets)%nat -> (length (nth i t []) < fuel0)%nat) ->
  forall r j fuel acc, (j + r = 73)%nat -> (r < fuel)%nat -> 0 <= acc -> acc + Z.of_nat (t_count (skipn j t)) < 2 ^ 64 ->
  src_table_getTotalLeaks_loop1 fuel0 fuel h (HPtr bt 0) (period_code per) acc (Z.of_nat j) =
  Go (acc + Z.of_N (t_total per (skipn j t)), 73).
Proof.
  intros per h bt bss t fuel0 Ht Hf0. pose proof Ht as [Hlt _]. rewrite nbuckets_73 in Hlt.
  induction r as [|r IH]; intros j fuel acc Hj Hf Ha Hr.
  - assert (Hj' : j = 73%nat) by lia. subst j. destruct fuel as [|fuel]; [lia|]. cbn [src_table_getTotalLeaks_loop1].
    rewrite lt73_false. rewrite (skipn_all2 (n := 73) t) by lia. cbn [t_total]. change (Z.of_N 0) with 0. rewrite Z.add_0_r.
    reflexivity.
  - assert (Hj' : (j < 73)%nat) by lia. assert (Hjn : (j < nbuckets)%nat) by (rewrite nbuckets_73; exact Hj').
    destruct fuel as [|fuel]; [lia|]. cbn [src_table_getTotalLeaks_loop1].
    rewrite (lt73_true j Hj'). rewrite (table_padd h bt bss t j Ht) by lia.
    rewrite (skipn_cons_nth (A := bucket) [] t j) in Hr |- * by lia. cbn [t_count t_total] in Hr |- *.
    rewrite (src_list_getTotalLeaks_spec fuel0 h _ _ _ per (table_list h bt bss t j Ht Hjn) (Hf0 j Hjn)) by lia.
    pose proof (l_total_le per (nth j t [])) as Hle.
    rewrite !(cw_u_small 64 (acc + Z.of_N (l_total per (nth j t [])))) by lia.
    rewrite (inc_s j Hj').
    rewrite (IH (S j) fuel (acc + Z.of_N (l_total per (nth j t [])))) by lia.
    f_equal. f_equal. rewrite N2Z.inj_add. lia.
Qed.
Theorem src_table_getTotalLeaks_spec : forall fuel h bt bss t per, table_at h bt bss t ->
  (forall i, (i < nbuckets)%nat -> (length (nth i t []) < fuel)%nat) -> Z.of_nat (t_count t) < 2 ^ 64 -> (73 < fuel)%nat ->
  src_table_getTotalLeaks fuel h (HPtr bt 0) (period_code per) = FOk (Z.of_N (t_total per t)).
Proof.
  intros fuel h bt bss t per Ht Hf Hr Hfl. unfold src_table_getTotalLeaks. cbv zeta.
  pose proof (src_table_getTotalLeaks_loop1_spec per h bt bss t fuel Ht Hf 73 0 fuel 0) as E.
  change (Z.of_nat 0) with 0 in E. change (skipn 0 t) with t in E. rewrite E by lia. rewrite Z.add_0_l. reflexivity.
Qed.
(* the count is at most the number of records (so it fits whenever t_count does) *)
Lemma t_total_le per : forall t, (t_total per t <= N.of_nat (t_count t))%N.
Proof.
  induction t as [|b t IH]; [cbn; lia|]. cbn [t_total t_count]. pose proof (l_total_le per b). lia.
Qed.

(* ------------------------------------------------------------------ 4: getFirstLeak / getFirstLeakForAllocationStage *)
(* the pointer to the first node, in bucket order, satisfying f *)
Fixpoint tptr_first (f : node -> bool) (bss : list (list nat)) (t : table) : hptr :=
  match t, bss with
  | b :: t', bs :: bss' => match ptr_first f bs b with HNull => tptr_first f bss' t' | HPtr blk c => HPtr blk c end
  | _, _ => HNull
  end.
(* what the bucket loops hand back: the loop state st when no bucket has such a node, the `return node` otherwise *)
Definition tfound {A} (st : A) (q : hptr) : cres hptr A := if hptr_eqb q HNull then Go st else Done q.

Lemma src_table_getFirstLeak_loop1_spec : forall per h bt bss t fuel0, table_at h bt bss t ->
  (forall i, (i < nbuckets)%nat -> (length (nth i t []) < fuel0)%nat) ->
  forall r j fuel, (j + r = 73)%nat -> (r < fuel)%nat ->
  src_table_getFirstLeak_loop1 fuel0 fuel h (HPtr bt 0) (period_code per) (Z.of_nat j) =
  tfound 73 (tptr_first (fun n => is_in_period n per) (skipn j bss) (skipn j t)).
Proof.
  intros per h bt bss t fuel0 Ht Hf0. pose proof Ht as [Hlt [Hlb _]]. rewrite nbuckets_73 in Hlt, Hlb.
  induction r as [|r IH]; intros j fuel Hj Hf.
  - assert (Hj' : j = 73%nat) by lia. subst j. destruct fuel as [|fuel]; [lia|]. cbn [src_table_getFirstLeak_loop1].
    rewrite lt73_false. rewrite (skipn_all2 (n := 73) t), (skipn_all2 (n := 73) bss) by lia. reflexivity.
  - assert (Hj' : (j < 73)%nat) by lia. assert (Hjn : (j < nbuckets)%nat) by (rewrite nbuckets_73; exact Hj').
    destruct fuel as [|fuel]; [lia|]. cbn [src_table_getFirstLeak_loop1].
    rewrite (lt73_true j Hj'). rewrite (table_padd h bt bss t j Ht) by lia.
    rewrite (src_list_getFirstLeak_spec fuel0 h _ _ _ per (table_list h bt bss t j Ht Hjn) (Hf0 j Hjn)).
    rewrite (skipn_cons_nth (A := bucket) [] t j), (skipn_cons_nth [] bss j) by lia. cbn [tptr_first]. cbv beta iota zeta.
    destruct (ptr_first (fun n => is_in_period n per) (nth j bss []) (nth j t [])) as [|blk c].
    + rewrite z2b_false_null. rewrite (inc_s j Hj'). apply IH; lia.
    + rewrite z2b_true_ptr. reflexivity.
Qed.
Theorem src_table_getFirstLeak_spec : forall fuel h bt bss t per, table_at h bt bss t ->
  (forall i, (i < nbuckets)%nat -> (length (nth i t []) < fuel)%nat) -> (73 < fuel)%nat ->
  src_table_getFirstLeak fuel h (HPtr bt 0) (period_code per) = FOk (tptr_first (fun n => is_in_period n per) bss t).
Proof.
  intros fuel h bt bss t per Ht Hf Hfl. unfold src_table_getFirstLeak. cbv zeta.
  pose proof (src_table_getFirstLeak_loop1_spec per h bt bss t fuel Ht Hf 73 0 fuel) as E.
  change (Z.of_nat 0) with 0 in E. change (skipn 0 t) with t in E. change (skipn 0 bss) with bss in E. rewrite E by lia.
  unfold tfound. destruct (tptr_first (fun n => is_in_period n per) bss t); reflexivity.
Qed.

Lemma src_table_getFirstLeakForAllocationStage_loop1_spec : forall s h bt bss t fuel0, table_at h bt bss t ->
  (forall i, (i < nbuckets)%nat -> (length (nth i t []) < fuel0)%nat) ->
  forall r j fuel, (j + r = 73)%nat -> (r < fuel)%nat ->
  src_table_getFirstLeakForAllocationStage_loop1 fuel0 fuel h (HPtr bt 0) (Z.of_N s) (Z.of_nat j) =
  tfound 73 (tptr_first (fun n => is_in_stage n s) (skipn j bss) (skipn j t)).
Proof.
  intros s h bt bss t fuel0 Ht Hf0. pose proof Ht as [Hlt [Hlb _]]. rewrite nbuckets_73 in Hlt, Hlb.
  induction r as [|r IH]; intros j fuel Hj Hf.
  - assert (Hj' : j = 73%nat) by lia. subst j. destruct fuel as [|fuel]; [lia|].
    cbn [src_table_getFirstLeakForAllocationStage_loop1].
    rewrite lt73_false. rewrite (skipn_all2 (n := 73) t), (skipn_all2 (n := 73) bss) by lia. reflexivity.
  - assert (Hj' : (j < 73)%nat) by lia. assert (Hjn : (j < nbuckets)%nat) by (rewrite nbuckets_73; exact Hj').
    destruct fuel as [|fuel]; [lia|]. cbn [src_table_getFirstLeakForAllocationStage_loop1].
    rewrite (lt73_true j Hj'). rewrite (table_padd h bt bss t j Ht) by lia.
    rewrite (src_list_getFirstLeakForAllocationStage_spec fuel0 h _ _ _ s (table_list h bt bss t j Ht Hjn) (Hf0 j Hjn)).
    rewrite (skipn_cons_nth (A := bucket) [] t j), (skipn_cons_nth [] bss j) by lia. cbn [tptr_first]. cbv beta iota zeta.
    destruct (ptr_first (fun n => is_in_stage n s) (nth j bss []) (nth j t [])) as [|blk c].
    + rewrite z2b_false_null. rewrite (inc_s j Hj'). apply IH; lia.
    + rewrite z2b_true_ptr. reflexivity.
Qed.
Theorem src_table_getFirstLeakForAllocationStage_spec : forall fuel h bt bss t s, table_at h bt bss t ->
  (forall i, (i < nbuckets)%nat -> (length (nth i t []) < fuel)%nat) -> (73 < fuel)%nat ->
  src_table_getFirstLeakForAllocationStage fuel h (HPtr bt 0) (Z.of_N s) = FOk (tptr_first (fun n => is_in_stage n s) bss t).
Proof.
  intros fuel h bt bss t s Ht Hf Hfl. unfold src_table_getFirstLeakForAllocationStage. cbv zeta.
  pose proof (src_table_getFirstLeakForAllocationStage_loop1_spec s h bt bss t fuel Ht Hf 73 0 fuel) as E.
  change (Z.of_nat 0) with 0 in E. change (skipn 0 t) with t in E. change (skipn 0 bss) with bss in E. rewrite E by lia.
  unfold tfound. destruct (tptr_first (fun n => is_in_stage n s) bss t); reflexivity.
Qed.

(* what tptr_first means: the model's t_first_from, as ptr_first_none / ptr_first_some for one bucket *)
Theorem tptr_first_none : forall f bss t, Forall2 (fun (bs : list nat) (b : bucket) => length bs = length b) bss t ->
  (tptr_first f bss t = HNull <-> t_first_from f t = None).
Proof.
  intros f bss t H. induction H as [|bs b bss t Hl H IH]; [cbn; tauto|].
  cbn [tptr_first t_first_from]. pose proof (ptr_first_none f bs b Hl) as Hn.
  destruct (ptr_first f bs b) as [|blk c].
  - destruct Hn as [Hn _]. rewrite (Hn eq_refl). exact IH.
  - destruct (l_leak_from f b) as [n|].
    + split; discriminate.
    + destruct Hn as [_ Hn]. discriminate (Hn eq_refl).
Qed.
Theorem tptr_first_some : forall h f bss t n, Forall2 (fun bs b => exists p, chain h p bs b) bss t ->
  t_first_from f t = Some n ->
  exists b nxt, tptr_first f bss t = HPtr b 0 /\ In b (concat bss) /\ hblock h b = node_cells n nxt.
Proof.
  intros h f bss t n H. induction H as [|bs b bss t [p Hc] H IH]; intro Hs; [discriminate Hs|].
  cbn [tptr_first t_first_from concat] in *. destruct (l_leak_from f b) as [n0|] eqn:E.
  - inversion Hs; subst n0. destruct (ptr_first_some h f b p bs n Hc E) as [blk [nxt [Hp [Hin Hb]]]].
    exists blk, nxt. rewrite Hp. split; [reflexivity|]. split; [apply in_or_app; left; exact Hin | exact Hb].
  - assert (Hn : ptr_first f bs b = HNull) by (apply ptr_first_none; [exact (chain_length h b p bs Hc) | exact E]).
    rewrite Hn. destruct (IH Hs) as [blk [nxt [Hp [Hin Hb]]]]. exists blk, nxt.
    split; [exact Hp|]. split; [apply in_or_app; right; exact Hin | exact Hb].
Qed.
(* for a represented table: against t_first *)
Theorem table_first_none : forall h bt bss t f, table_at h bt bss t -> (tptr_first f bss t = HNull <-> t_first f t = None).
Proof. intros h bt bss t f Ht. apply tptr_first_none. exact (chains_lengths h bss t (table_chains h bt bss t Ht)). Qed.
Theorem table_first_some : forall h bt bss t f n, table_at h bt bss t -> t_first f t = Some n ->
  exists b nxt, tptr_first f bss t = HPtr b 0 /\ In b (concat bss) /\ hblock h b = node_cells n nxt.
Proof. intros h bt bss t f n Ht Hs. exact (tptr_first_some h f bss t n (table_chains h bt bss t Ht) Hs). Qed.

(* ------------------------------------------------------------------ 5: getNextLeak / getNextLeakForAllocationStage *)
(* the successor of the k-th node of bucket i: the next node satisfying f in the rest of that bucket, else the first one of the
   buckets after i *)
Definition tptr_next (f : node -> bool) (i k : nat) (bss : list (list nat)) (t : table) : hptr :=
  match ptr_first f (skipn (S k) (nth i bss [])) (skipn (S k) (nth i t [])) with
  | HNull => tptr_first f (skipn (S i) bss) (skipn (S i) t)
  | HPtr blk c => HPtr blk c
  end.

Lemma src_table_getNextLeak_loop1_spec : forall per h bt bss t fuel0, table_at h bt bss t ->
  (forall i, (i < nbuckets)%nat -> (length (nth i t []) < fuel0)%nat) ->
  forall r j fuel nd, (j + r = 73)%nat -> (r < fuel)%nat ->
  exists st, src_table_getNextLeak_loop1 fuel0 fuel h (HPtr bt 0) (period_code per) (Z.of_nat j) nd =
  tfound st (tptr_first (fun n => is_in_period n per) (skipn j bss) (skipn j t)).
Proof.
  intros per h bt bss t fuel0 Ht Hf0. pose proof Ht as [Hlt [Hlb _]]. rewrite nbuckets_73 in Hlt, Hlb.
  induction r as [|r IH]; intros j fuel nd Hj Hf.
  - assert (Hj' : j = 73%nat) by lia. subst j. destruct fuel as [|fuel]; [lia|]. cbn [src_table_getNextLeak_loop1].
    rewrite lt73_false. rewrite (skipn_all2 (n := 73) t), (skipn_all2 (n := 73) bss) by lia. eexists. reflexivity.
  - assert (Hj' : (j < 73)%nat) by lia. assert (Hjn : (j < nbuckets)%nat) by (rewrite nbuckets_73; exact Hj').
    destruct fuel as [|fuel]; [lia|]. cbn [src_table_getNextLeak_loop1].
    rewrite (lt73_true j Hj'). rewrite (table_padd h bt bss t j Ht) by lia.
    rewrite (src_list_getFirstLeak_spec fuel0 h _ _ _ per (table_list h bt bss t j Ht Hjn) (Hf0 j Hjn)).
    rewrite (skipn_cons_nth (A := bucket) [] t j), (skipn_cons_nth [] bss j) by lia. cbn [tptr_first]. cbv beta iota zeta.
    destruct (ptr_first (fun n => is_in_period n per) (nth j bss []) (nth j t [])) as [|blk c].
    + rewrite z2b_false_null. rewrite (inc_u j Hj'). apply IH; lia.
    + rewrite z2b_true_ptr. exists (0, HNull). reflexivity.
Qed.
Lemma src_table_getNextLeakForAllocationStage_loop1_spec : forall s h bt bss t fuel0, table_at h bt bss t ->
  (forall i, (i < nbuckets)%nat -> (length (nth i t []) < fuel0)%nat) ->
  forall r j fuel nd, (j + r = 73)%nat -> (r < fuel)%nat ->
  exists st, src_table_getNextLeakForAllocationStage_loop1 fuel0 fuel h (HPtr bt 0) (Z.of_N s) (Z.of_nat j) nd =
  tfound st (tptr_first (fun n => is_in_stage n s) (skipn j bss) (skipn j t)).
Proof.
  intros s h bt bss t fuel0 Ht Hf0. pose proof Ht as [Hlt [Hlb _]]. rewrite nbuckets_73 in Hlt, Hlb.
  induction r as [|r IH]; intros j fuel nd Hj Hf.
  - assert (Hj' : j = 73%nat) by lia. subst j. destruct fuel as [|fuel]; [lia|].
    cbn [src_table_getNextLeakForAllocationStage_loop1].
    rewrite lt73_false. rewrite (skipn_all2 (n := 73) t), (skipn_all2 (n := 73) bss) by lia. eexists. reflexivity.
  - assert (Hj' : (j < 73)%nat) by lia. assert (Hjn : (j < nbuckets)%nat) by (rewrite nbuckets_73; exact Hj').
    destruct fuel as [|fuel]; [lia|]. cbn [src_table_getNextLeakForAllocationStage_loop1].
    rewrite (lt73_true j Hj'). rewrite (table_padd h bt bss t j Ht) by lia.
    rewrite (src_list_getFirstLeakForAllocationStage_spec fuel0 h _ _ _ s (table_list h bt bss t j Ht Hjn) (Hf0 j Hjn)).
    rewrite (skipn_cons_nth (A := bucket) [] t j), (skipn_cons_nth [] bss j) by lia. cbn [tptr_first]. cbv beta iota zeta.
    destruct (ptr_first (fun n => is_in_stage n s) (nth j bss []) (nth j t [])) as [|blk c].
    + rewrite z2b_false_null. rewrite (inc_u j Hj'). apply IH; lia.
    + rewrite z2b_true_ptr. exists (0, HNull). reflexivity.
Qed.

(* the key of every record of a represented table is a C pointer value *)
Lemma table_key_small h bt bss t i k d : table_at h bt bss t -> (i < nbuckets)%nat -> (k < length (nth i t []))%nat ->
  (n_addr (nth k (nth i t []) d) < 2 ^ 64)%N.
Proof.
  intros Ht Hi Hk. pose proof (table_nodes_ok h bt bss t i Ht Hi) as Hok. rewrite Forall_forall in Hok.
  destruct (Hok (nth k (nth i t []) d) (nth_In _ d Hk)) as [Ha _]. exact Ha.
Qed.

(* leak = the k-th record of bucket i, which is the bucket of its key *)
Theorem src_table_getNextLeak_spec : forall fuel h bt bss t i k per d, table_at h bt bss t -> (i < nbuckets)%nat ->
  (k < length (nth i t []))%nat -> hashN (n_addr (nth k (nth i t []) d)) = i ->
  (forall j, (j < nbuckets)%nat -> (length (nth j t []) < fuel)%nat) -> (72 - i < fuel)%nat ->
  src_table_getNextLeak fuel h (HPtr bt 0) (HPtr (nth k (nth i bss []) 0%nat) 0) (period_code per) =
  FOk (tptr_next (fun n => is_in_period n per) i k bss t).
Proof.
  intros fuel h bt bss t i k per d Ht Hi Hk Hh Hf Hfl. unfold src_table_getNextLeak.
  pose proof Hi as Hi'. rewrite nbuckets_73 in Hi'.
  destruct (table_chain h bt bss t i Ht Hi) as [p Hc].
  destruct (chain_nth h d _ p _ k Hc Hk) as [nxt [Hb Hc']].
  assert (Hp2 : hpadd h (HPtr (nth k (nth i bss []) 0%nat) 0) 2 = Some (HPtr (nth k (nth i bss []) 0%nat) 2))
    by (apply (node_padd h _ _ nxt 2 Hb); lia).
  rewrite Hp2, (node_memory h _ _ nxt Hb).
  rewrite (src_table_hash_spec fuel h (HPtr bt 0) _ (table_key_small h bt bss t i k d Ht Hi Hk)), Hh. cbv beta iota zeta.
  rewrite (table_padd h bt bss t i Ht) by lia.
  rewrite (src_list_getNextLeak_spec fuel h (HPtr bt (Z.of_nat i)) p _ _ k per Hc Hk (Hf i Hi)). cbv beta iota zeta.
  unfold tptr_next.
  destruct (ptr_first (fun n => is_in_period n per) (skipn (S k) (nth i bss [])) (skipn (S k) (nth i t []))) as [|blk c].
  - rewrite z2b_false_null. rewrite (inc_u i Hi').
    destruct (src_table_getNextLeak_loop1_spec per h bt bss t fuel Ht Hf (72 - i) (S i) fuel HNull) as [[st1 st2] E]; [lia | lia|].
    rewrite E. unfold tfound.
    destruct (tptr_first (fun n => is_in_period n per) (skipn (S i) bss) (skipn (S i) t)); reflexivity.
  - rewrite z2b_true_ptr. reflexivity.
Qed.
Theorem src_table_getNextLeakForAllocationStage_spec : forall fuel h bt bss t i k s d, table_at h bt bss t ->
  (i < nbuckets)%nat -> (k < length (nth i t []))%nat -> hashN (n_addr (nth k (nth i t []) d)) = i ->
  (forall j, (j < nbuckets)%nat -> (length (nth j t []) < fuel)%nat) -> (72 - i < fuel)%nat ->
  src_table_getNextLeakForAllocationStage fuel h (HPtr bt 0) (HPtr (nth k (nth i bss []) 0%nat) 0) (Z.of_N s) =
  FOk (tptr_next (fun n => is_in_stage n s) i k bss t).
Proof.
  intros fuel h bt bss t i k s d Ht Hi Hk Hh Hf Hfl. unfold src_table_getNextLeakForAllocationStage.
  pose proof Hi as Hi'. rewrite nbuckets_73 in Hi'.
  destruct (table_chain h bt bss t i Ht Hi) as [p Hc].
  destruct (chain_nth h d _ p _ k Hc Hk) as [nxt [Hb Hc']].
  assert (Hp2 : hpadd h (HPtr (nth k (nth i bss []) 0%nat) 0) 2 = Some (HPtr (nth k (nth i bss []) 0%nat) 2))
    by (apply (node_padd h _ _ nxt 2 Hb); lia).
  rewrite Hp2, (node_memory h _ _ nxt Hb).
  rewrite (src_table_hash_spec fuel h (HPtr bt 0) _ (table_key_small h bt bss t i k d Ht Hi Hk)), Hh. cbv beta iota zeta.
  rewrite (table_padd h bt bss t i Ht) by lia.
  rewrite (src_list_getNextLeakForAllocationStage_spec fuel h (HPtr bt (Z.of_nat i)) p _ _ k s Hc Hk (Hf i Hi)).
  cbv beta iota zeta. unfold tptr_next.
  destruct (ptr_first (fun n => is_in_stage n s) (skipn (S k) (nth i bss [])) (skipn (S k) (nth i t []))) as [|blk c].
  - rewrite z2b_false_null. rewrite (inc_u i Hi').
    destruct (src_table_getNextLeakForAllocationStage_loop1_spec s h bt bss t fuel Ht Hf (72 - i) (S i) fuel HNull)
      as [[st1 st2] E]; [lia | lia|].
    rewrite E. unfold tfound.
    destruct (tptr_first (fun n => is_in_stage n s) (skipn (S i) bss) (skipn (S i) t)); reflexivity.
  - rewrite z2b_true_ptr. reflexivity.
Qed.

(* what tptr_next means: the model's t_next of that record, when the keys of its bucket are distinct (l_after_skipn) *)
Lemma t_next_skipn f i k d (t : table) : (k < length (nth i t []))%nat -> hashN (n_addr (nth k (nth i t []) d)) = i ->
  NoDup (map n_addr (nth i t [])) ->
  t_next f (nth k (nth i t []) d) t =
  match l_leak_from f (skipn (S k) (nth i t [])) with Some n => Some n | None => t_first_from f (skipn (S i) t) end.
Proof.
  intros Hk Hh Hnd. unfold t_next, get_b. cbv zeta. rewrite Hh. rewrite (l_after_skipn d _ k Hnd Hk). reflexivity.
Qed.
Theorem tptr_next_none : forall h bt bss t f i k d, table_at h bt bss t -> (i < nbuckets)%nat ->
  (k < length (nth i t []))%nat -> hashN (n_addr (nth k (nth i t []) d)) = i -> NoDup (map n_addr (nth i t [])) ->
  (tptr_next f i k bss t = HNull <-> t_next f (nth k (nth i t []) d) t = None).
Proof.
  intros h bt bss t f i k d Ht Hi Hk Hh Hnd. rewrite (t_next_skipn f i k d t Hk Hh Hnd). unfold tptr_next.
  destruct (table_chain h bt bss t i Ht Hi) as [p Hc]. destruct (chain_nth h d _ p _ k Hc Hk) as [nxt [_ Hc']].
  pose proof (ptr_first_none f _ _ (chain_length h _ nxt _ Hc')) as Hn.
  pose proof (tptr_first_none f _ _ (chains_lengths h _ _ (Forall2_skipn _ (S i) _ _ (table_chains h bt bss t Ht)))) as Ht'.
  destruct (ptr_first f (skipn (S k) (nth i bss [])) (skipn (S k) (nth i t []))) as [|blk c].
  - destruct Hn as [Hn _]. rewrite (Hn eq_refl). exact Ht'.
  - destruct (l_leak_from f (skipn (S k) (nth i t []))) as [n|].
    + split; discriminate.
    + destruct Hn as [_ Hn]. discriminate (Hn eq_refl).
Qed.
Theorem tptr_next_some : forall h bt bss t f i k d n, table_at h bt bss t -> (i < nbuckets)%nat ->
  (k < length (nth i t []))%nat -> hashN (n_addr (nth k (nth i t []) d)) = i -> NoDup (map n_addr (nth i t [])) ->
  t_next f (nth k (nth i t []) d) t = Some n ->
  exists b nxt, tptr_next f i k bss t = HPtr b 0 /\ In b (concat bss) /\ hblock h b = node_cells n nxt.
Proof.
  intros h bt bss t f i k d n Ht Hi Hk Hh Hnd. rewrite (t_next_skipn f i k d t Hk Hh Hnd). unfold tptr_next. intro Hs.
  destruct (table_chain h bt bss t i Ht Hi) as [p Hc]. destruct (chain_nth h d _ p _ k Hc Hk) as [nxt [_ Hc']].
  destruct (l_leak_from f (skipn (S k) (nth i t []))) as [n0|] eqn:E.
  - inversion Hs; subst n0. destruct (ptr_first_some h f _ nxt _ n Hc' E) as [blk [nxt' [Hp [Hin Hb]]]].
    exists blk, nxt'. rewrite Hp. split; [reflexivity|]. split; [|exact Hb].
    apply (in_bucket_in_table bss i). exact (in_skipn blk (S k) _ Hin).
  - assert (Hn : ptr_first f (skipn (S k) (nth i bss [])) (skipn (S k) (nth i t [])) = HNull)
      by (apply ptr_first_none; [exact (chain_length h _ nxt _ Hc') | exact E]).
    rewrite Hn.
    destruct (tptr_first_some h f _ _ n (Forall2_skipn _ (S i) _ _ (table_chains h bt bss t Ht)) Hs) as [blk [nxt' [Hp [Hin Hb]]]].
    exists blk, nxt'. split; [exact Hp|]. split; [exact (in_rest_in_table bss (S i) blk Hin) | exact Hb].
Qed.

(* ------------------------------------------------------------------ the statements are not vacuous: a concrete table *)
(* block 0: the table object (73 head cells); bucket 27 = records 173 -> 100 (blocks 2 -> 1), bucket 30 = record 103 (block 3) *)
Definition ext_n3 : node := mkNode 103 4 3 7 30 1 SEnabled 2.
Definition ext_block : list val :=
  repeat (VPtr HNull) 27 ++ [VPtr (HPtr 2 0)] ++ repeat (VPtr HNull) 2 ++ [VPtr (HPtr 3 0)] ++ repeat (VPtr HNull) 42.
Definition ext_heap : heap := [ext_block; node_cells ex_n1 HNull; node_cells ex_n2 (HPtr 1 0); node_cells ext_n3 HNull].
Definition ext_bss : list (list nat) := repeat [] 27 ++ [[2; 1]%nat] ++ repeat [] 2 ++ [[3%nat]] ++ repeat [] 42.
Definition ext_t : table := repeat [] 27 ++ [[ex_n2; ex_n1]] ++ repeat [] 2 ++ [[ext_n3]] ++ repeat [] 42.

Ltac ext_rest :=
  split; [repeat constructor; cbn; intuition discriminate|]; split; [repeat constructor; cbv; reflexivity|];
  split; [repeat constructor; cbn; lia|]; split; [cbn; intuition discriminate | cbn; lia].
Ltac ext_bucket :=
  first
  [ solve [ exists HNull; split; [reflexivity|]; split; [reflexivity|]; split; [constructor|]; split; [constructor|];
            split; [constructor|]; split; [vm_compute; tauto | cbn [ext_heap length]; lia] ]
  | solve [ exists (HPtr 2 0); split; [reflexivity|]; split;
            [ change (chain ext_heap (HPtr 2 0) [2; 1]%nat [ex_n2; ex_n1]); cbn; split; [reflexivity|]; exists (HPtr 1 0);
              split; [reflexivity|]; split; [reflexivity|]; exists HNull; split; reflexivity
            | change (nth 27 ext_bss []) with [2; 1]%nat; change (nth 27 ext_t []) with [ex_n2; ex_n1]; ext_rest ] ]
  | solve [ exists (HPtr 3 0); split; [reflexivity|]; split;
            [ change (chain ext_heap (HPtr 3 0) [3%nat] [ext_n3]); cbn; split; [reflexivity|]; exists HNull; split; reflexivity
            | change (nth 30 ext_bss []) with [3%nat]; change (nth 30 ext_t []) with [ext_n3]; ext_rest ] ] ].
(* the heap represents the table: the hypothesis of every theorem above is satisfiable *)
Example ext_table_at : table_at ext_heap 0 ext_bss ext_t.
Proof.
  split; [reflexivity|]. split; [reflexivity|]. split; [reflexivity|]. split; [cbn [ext_heap length]; lia|].
  change (concat ext_bss) with [2; 1; 3]%nat.
  split; [repeat constructor; cbn; intuition discriminate|]. split; [cbn; intuition discriminate|].
  intros i Hi. rewrite nbuckets_73 in Hi.
  do 73 (destruct i as [|i]; [ext_bucket|]). lia.
Qed.
Example ext_fuel : forall i, (i < nbuckets)%nat -> (length (nth i ext_t []) < 100)%nat.
Proof.
  intros i Hi. rewrite nbuckets_73 in Hi. do 73 (destruct i as [|i]; [vm_compute; repeat constructor|]). lia.
Qed.

Example ext_hash : src_table_hash 100 ext_heap (HPtr 0 0) 173 = FOk 27.
Proof. vm_compute. reflexivity. Qed.
Example ext_hash_big : src_table_hash 100 ext_heap (HPtr 0 0) 18446744073709551615 = FOk 1.
Proof. vm_compute. reflexivity. Qed.
Example ext_retrieveNode : src_table_retrieveNode 100 ext_heap (HPtr 0 0) 100 = FOk (HPtr 1 0).
Proof. vm_compute. reflexivity. Qed.
Example ext_retrieveNode_other_bucket : src_table_retrieveNode 100 ext_heap (HPtr 0 0) 103 = FOk (HPtr 3 0).
Proof. vm_compute. reflexivity. Qed.
Example ext_retrieveNode_none : src_table_retrieveNode 100 ext_heap (HPtr 0 0) 27 = FOk HNull.
Proof. vm_compute. reflexivity. Qed.
Example ext_getTotalLeaks_all : src_table_getTotalLeaks 100 ext_heap (HPtr 0 0) (period_code PAll) = FOk 3.
Proof. vm_compute. reflexivity. Qed.
Example ext_getTotalLeaks_enabled : src_table_getTotalLeaks 100 ext_heap (HPtr 0 0) (period_code PEnabled) = FOk 2.
Proof. vm_compute. reflexivity. Qed.
Example ext_getFirstLeak : src_table_getFirstLeak 100 ext_heap (HPtr 0 0) (period_code PEnabled) = FOk (HPtr 1 0).
Proof. vm_compute. reflexivity. Qed.
Example ext_getFirstLeak_second_bucket : src_table_getFirstLeak 100 ext_heap (HPtr 0 0) (period_code PDisabled) = FOk (HPtr 2 0).
Proof. vm_compute. reflexivity. Qed.
Example ext_getFirstLeakForAllocationStage : src_table_getFirstLeakForAllocationStage 100 ext_heap (HPtr 0 0) 2 = FOk (HPtr 1 0).
Proof. vm_compute. reflexivity. Qed.
Example ext_getFirstLeakForAllocationStage_none : src_table_getFirstLeakForAllocationStage 100 ext_heap (HPtr 0 0) 5 = FOk HNull.
Proof. vm_compute. reflexivity. Qed.
(* within the bucket, then across buckets, then the end *)
Example ext_getNextLeak_same_bucket : src_table_getNextLeak 100 ext_heap (HPtr 0 0) (HPtr 2 0) (period_code PAll) = FOk (HPtr 1 0).
Proof. vm_compute. reflexivity. Qed.
Example ext_getNextLeak_next_bucket : src_table_getNextLeak 100 ext_heap (HPtr 0 0) (HPtr 1 0) (period_code PEnabled) = FOk (HPtr 3 0).
Proof. vm_compute. reflexivity. Qed.
Example ext_getNextLeak_last : src_table_getNextLeak 100 ext_heap (HPtr 0 0) (HPtr 3 0) (period_code PAll) = FOk HNull.
Proof. vm_compute. reflexivity. Qed.
Example ext_getNextLeakForAllocationStage : src_table_getNextLeakForAllocationStage 100 ext_heap (HPtr 0 0) (HPtr 1 0) 2 = FOk (HPtr 3 0).
Proof. vm_compute. reflexivity. Qed.
Example ext_getNextLeakForAllocationStage_skip : src_table_getNextLeakForAllocationStage 100 ext_heap (HPtr 0 0) (HPtr 2 0) 2 = FOk (HPtr 1 0).
Proof. vm_compute. reflexivity. Qed.
(* the same results through the theorems: the model's answers on ext_t *)
Example ext_model_total : Z.of_N (t_total PEnabled ext_t) = 2. Proof. reflexivity. Qed.
Example ext_model_first : tptr_first (fun n => is_in_period n PEnabled) ext_bss ext_t = HPtr 1 0 /\
                          t_first (fun n => is_in_period n PEnabled) ext_t = Some ex_n1.
Proof. split; reflexivity. Qed.
Example ext_model_next : tptr_next (fun n => is_in_period n PEnabled) 27 1 ext_bss ext_t = HPtr 3 0 /\
                         t_next (fun n => is_in_period n PEnabled) ex_n1 ext_t = Some ext_n3.
Proof. split; reflexivity. Qed.
Example ext_model_retrieve : ptr_of 103 (nth (hashN 103) ext_bss []) (nth (hashN 103) ext_t []) = HPtr 3 0 /\
                             t_retrieve 103 ext_t = Some ext_n3.
Proof. split; reflexivity. Qed.
(* one instance obtained from the theorem rather than by evaluation: leak = record 1 of bucket 27 *)
Example ext_getNextLeak_by_theorem :
  src_table_getNextLeak 100 ext_heap (HPtr 0 0) (HPtr 1 0) (period_code PEnabled) =
  FOk (tptr_next (fun n => is_in_period n PEnabled) 27 1 ext_bss ext_t).
Proof.
  apply (src_table_getNextLeak_spec 100 ext_heap 0 ext_bss ext_t 27 1 PEnabled ex_n1 ext_table_at);
    [rewrite nbuckets_73; lia | cbn; lia | reflexivity | exact ext_fuel | lia].
Qed.
(* too little fuel is reported, not turned into an answer: 73 buckets need 74 rounds of the outer loop *)
Example ext_getTotalLeaks_nofuel : src_table_getTotalLeaks 73 ext_heap (HPtr 0 0) (period_code PAll) = FNoFuel.
Proof. vm_compute. reflexivity. Qed.
Example ext_getTotalLeaks_fuel74 : src_table_getTotalLeaks 74 ext_heap (HPtr 0 0) (period_code PAll) = FOk 3.
Proof. vm_compute. reflexivity. Qed.
