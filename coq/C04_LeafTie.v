(* C04: the leaf functions of the allocation table model are EQUAL to the definitions tools/cxx2coq.py regenerates from
   /repo's MemoryLeakDetector.cpp on every run (gen/Gen_Leaf.v): bucket hash, isInPeriod, isInAllocationStage. *)
From Coq Require Import ZArith NArith Bool List Lia.
From CppUVerif Require Import lib.CSem gen.Gen_Common gen.Gen_LeafC04 C04_Model.
Local Open Scope Z_scope.

(* enum MemLeakPeriod { all = 0, disabled, enabled, checking } -- the enumerator values are read from the source by the translator *)
Definition enc_period (p : period) : Z := match p with PAll => 0 | PDisabled => 1 | PEnabled => 2 | PChecking => 3 end.
Definition enc_stamp (s : stamp) : Z := match s with SDisabled => 1 | SEnabled => 2 | SChecking => 3 end.

Lemma tie_isInPeriod n p : leaf_isInPeriod (enc_period p) (enc_stamp (n_period n)) = b2z (is_in_period n p).
Proof. unfold is_in_period. destruct p, (n_period n); vm_compute; reflexivity. Qed.

Lemma tie_isInStage n s : (n_stage n < 256)%N -> (s < 256)%N ->
  leaf_isInAllocationStage (Z.of_N s) (Z.of_N (n_stage n)) = b2z (is_in_stage n s).
Proof.
  intros _ _. unfold leaf_isInAllocationStage, is_in_stage, c_eq. f_equal.
  destruct (N.eqb_spec (n_stage n) s) as [E|E]; [rewrite E; apply Z.eqb_refl|].
  apply Z.eqb_neq. intro H. apply E. apply N2Z.inj. exact H.
Qed.

Lemma tie_hash a : (a < 18446744073709551616)%N -> leaf_hash (Z.of_N a) = Z.of_nat (hashN a).
Proof.
  intro H. unfold leaf_hash, hashN, c_rem. rewrite Z.rem_mod_nonneg by lia.
  assert (Hp : hash_prime = 73%N) by reflexivity. rewrite Hp.
  rewrite N_nat_Z, N2Z.inj_mod. change (Z.of_N 73) with 73.
  apply cw_id; [lia|]. assert (0 <= Z.of_N a mod 73 < 73) by (apply Z.mod_pos_bound; lia). lia.
Qed.

Definition C04_leaf_functions_are_the_source_stmt : Prop :=
  (forall n p, leaf_isInPeriod (enc_period p) (enc_stamp (n_period n)) = b2z (is_in_period n p)) /\
  (forall n s, (n_stage n < 256)%N -> (s < 256)%N -> leaf_isInAllocationStage (Z.of_N s) (Z.of_N (n_stage n)) = b2z (is_in_stage n s)) /\
  (forall a, (a < 18446744073709551616)%N -> leaf_hash (Z.of_N a) = Z.of_nat (hashN a)).
Lemma C04_leaf_functions_are_the_source : C04_leaf_functions_are_the_source_stmt.
Proof. split; [exact tie_isInPeriod | split; [exact tie_isInStage | exact tie_hash]]. Qed.
