From Coq Require Import ZArith Bool List Lia.
From CppUVerif Require Import lib.CInt lib.Dbl lib.Str C09_Model.
Import ListNotations.
Local Open Scope Z_scope.

Ltac cast_ok :=
  repeat match goal with
  | |- context [cast ?T ?e] => rewrite (cast_id' T e) by (cbn [lo hi]; lia)
  end.

Lemma int_equals_math t1 t2 z1 z2 :
  in_range t1 z1 = true -> in_range t2 z2 = true -> int_equals t1 z1 t2 z2 = (z1 =? z2).
Proof.
  intros H1 H2. apply in_range_iff in H1. apply in_range_iff in H2.
  destruct t1, t2; cbn [lo hi] in H1, H2; cbn [int_equals]; unfold c_eq;
    repeat match goal with |- context [common ?a ?b] => let v := eval vm_compute in (common a b) in change (common a b) with v end.
  all: try (cast_ok; reflexivity).
  all: match goal with
       | |- (0 <=? ?z) && _ = _ => destruct (Z.leb_spec 0 z) as [Hs|Hs]; cbn [andb];
                                   [ cast_ok; reflexivity | symmetry; apply Z.eqb_neq; lia ]
       end.
Qed.

Lemma int_equals_sym t1 t2 z1 z2 :
  in_range t1 z1 = true -> in_range t2 z2 = true -> int_equals t1 z1 t2 z2 = int_equals t2 z2 t1 z1.
Proof. intros H1 H2. rewrite !int_equals_math by assumption. apply Z.eqb_sym. Qed.

Lemma bytes_eqb_len a : forall b, bytes_eqb a b = true -> length a = length b.
Proof. intros b H. apply bytes_eqb_eq in H. subst. reflexivity. Qed.

(* symmetry for every non-double pair; doubles: symmetric when both carry the same tolerance is C03's business *)
Definition is_double (v : value) : bool := match v with VDouble _ _ => true | _ => false end.

Lemma equals_sym a b :
  valid a = true -> valid b = true -> is_double a = false -> equals a b = equals b a.
Proof.
  intros Ha Hb Hd.
  destruct a, b; cbn in *; try reflexivity; try discriminate Hd.
  - destruct b0, b; reflexivity.
  - apply int_equals_sym; assumption.
  - apply bytes_eqb_sym.
  - apply Z.eqb_sym.
  - apply Z.eqb_sym.
  - apply Z.eqb_sym.
  - rewrite (bytes_eqb_sym bytes bytes0), Z.eqb_sym. reflexivity.
Qed.

Lemma cross_type_false a b : same_kind a b = false -> equals a b = false.
Proof. destruct a, b; cbn; intro H; try reflexivity; discriminate H. Qed.

(* what the property fixes about doubles *)
Lemma deq_nan d1 d2 t : d_is_nan d1 || d_is_nan d2 = true -> doubles_equal d1 d2 t = false.
Proof.
  unfold doubles_equal. intro H. apply orb_true_iff in H. destruct H as [H|H]; rewrite H; cbn; try reflexivity.
  rewrite orb_true_r. reflexivity.
Qed.

Lemma equals_math a b e :
  valid a = true -> valid b = true -> math_equal a b = Some e -> equals a b = e.
Proof.
  intros Ha Hb.
  destruct a as [x|t1 z1|d1 tol1|s1|p1|p1|p1|m1], b as [y|t2 z2|d2 tol2|s2|p2|p2|p2|m2];
    cbn [math_equal equals valid] in *; intro H.
  all: try (inversion H; subst; reflexivity).
  all: try (destruct s1; inversion H; subst; reflexivity).
  all: try (destruct s2; inversion H; subst; reflexivity).
  - inversion H; subst. apply int_equals_math; assumption.
  - destruct (d_is_nan d1 || d_is_nan d2) eqn:En.
    + inversion H; subst. apply deq_nan. exact En.
    + inversion H; subst. reflexivity.
  - destruct s1, s2; try discriminate H; inversion H; subst; reflexivity.
  - inversion H; subst. destruct (bytes_eqb m1 m2) eqn:E.
    + apply bytes_eqb_len in E. rewrite E, Z.eqb_refl. reflexivity.
    + apply andb_false_r.
Qed.

(* ---- getters ---- *)
Lemma getter_exact g t z z' :
  in_range t z = true -> get g (VInt t z) = Some z' -> z' = z.
Proof.
  intros Hr. apply in_range_iff in Hr.
  destruct g, t; cbn [get get_int get_uint get_long get_ulong get_llong get_ullong lo hi] in *; intro H;
    try discriminate H; try (inversion H; subst; reflexivity).
  all: try (inversion H; subst; apply cast_id'; cbn [lo hi]; lia).
  all: try (destruct (Z.leb_spec 0 z); [inversion H; subst; apply cast_id'; cbn [lo hi]; lia | discriminate H]).
  (* unsigned long read as long long: taken only when the converted value is non-negative *)
  pose proof (cast_in_range TLLong z) as Hc. cbn [lo hi] in Hc.
  destruct (Z.leb_spec 0 (cast TLLong z)) as [Hs|Hs]; [|discriminate H].
  inversion H; subst. clear H.
  destruct (Z.le_gt_cases z 9223372036854775807) as [Hle|Hgt].
  - apply cast_id'. cbn [lo hi]. lia.
  - exfalso. revert Hs. unfold cast. cbn [signed width andb].
    change (2 ^ 64) with 18446744073709551616. change (2 ^ (64 - 1)) with 9223372036854775808.
    rewrite Z.mod_small by lia.
    destruct (Z.leb_spec 9223372036854775808 z); lia.
Qed.

(* the code before the D18 repair returned a different number *)
Lemma getter_exact_old_refuted :
  ~ (forall t z z', in_range t z = true -> get_llong_old (VInt t z) = Some z' -> z' = z).
Proof.
  intro H. specialize (H TULong 9223372036854775813 (-9223372036854775803) eq_refl eq_refl). discriminate H.
Qed.

(* which stored types each getter accepts (the documented widening reads) *)
Definition accepts (g : getter) (t : ity) : bool :=
  match g, t with
  | GInt, TInt => true
  | GUInt, (TInt | TUInt) => true
  | GLong, (TInt | TUInt | TLong) => true
  | GULong, (TInt | TUInt | TLong | TULong) => true
  | GLLong, (TInt | TUInt | TLong | TULong | TLLong) => true
  | GULLong, _ => true
  | _, _ => false end.
Definition gty (g : getter) : ity :=
  match g with GInt => TInt | GUInt => TUInt | GLong => TLong | GULong => TULong | GLLong => TLLong | GULLong => TULLong end.

Lemma getter_total_on_fit g t z :
  in_range t z = true -> accepts g t = true -> in_range (gty g) z = true -> get g (VInt t z) = Some z.
Proof.
  intros Hr Ha Hf. apply in_range_iff in Hr. apply in_range_iff in Hf.
  destruct g, t; cbn [accepts] in Ha; try discriminate Ha;
    cbn [get get_int get_uint get_long get_ulong get_llong get_ullong lo hi gty] in *; try reflexivity.
  all: try (rewrite cast_id' by (cbn [lo hi]; lia); reflexivity).
  all: try (destruct (Z.leb_spec 0 z); [rewrite cast_id' by (cbn [lo hi]; lia); reflexivity | lia]).
  rewrite cast_id' by (cbn [lo hi]; lia). destruct (Z.leb_spec 0 z); [reflexivity | lia].
Qed.

Lemma getter_rejects_unfit g t z :
  in_range t z = true -> in_range (gty g) z = false -> get g (VInt t z) = None.
Proof.
  intros Hr Hf.
  destruct (get g (VInt t z)) as [z'|] eqn:E; [|reflexivity].
  pose proof (getter_exact g t z z' Hr E) as ->.
  exfalso.
  assert (Hin : in_range (gty g) z = true); [|congruence].
  apply in_range_iff. apply in_range_iff in Hr.
  destruct g, t; cbn [get get_int get_uint get_long get_ulong get_llong get_ullong lo hi gty] in *;
    try discriminate E; try lia.
  all: try (destruct (Z.leb_spec 0 z); [lia | discriminate E]).
  pose proof (cast_in_range TLLong z) as Hc. cbn [lo hi] in Hc.
  destruct (Z.leb_spec 0 (cast TLLong z)) as [Hs|Hs]; [|discriminate E].
  inversion E as [E']. lia.
Qed.

Lemma run_meets_spec a b : valid a = true -> valid b = true -> spec a b (run a b) = true.
Proof.
  intros Ha Hb. unfold spec, run. cbn [o_ab o_ba o_get].
  assert (H1 : match math_equal a b with Some e => Bool.eqb (equals a b) e | None => true end = true).
  { destruct (math_equal a b) eqn:E; [|reflexivity]. rewrite (equals_math a b b0 Ha Hb E). apply eqb_reflx. }
  assert (H2 : match math_equal b a with Some e => Bool.eqb (equals b a) e | None => true end = true).
  { destruct (math_equal b a) eqn:E; [|reflexivity]. rewrite (equals_math b a b0 Hb Ha E). apply eqb_reflx. }
  rewrite H1, H2. cbn [andb map all_getters length Nat.eqb forallb].
  assert (Hg : forall g, getter_ok a (get g a) = true).
  { intro g. unfold getter_ok. destruct (get g a) as [z'|] eqn:E; [|reflexivity].
    destruct a as [x|t1 z1|d1 tol1|s1|p1|p1|p1|m1]; try (destruct g; discriminate E).
    rewrite (getter_exact g t1 z1 z' Ha E). apply Z.eqb_refl. }
  rewrite !Hg. reflexivity.
Qed.

(* non-vacuity: concrete values meeting the hypotheses, on the interesting side of each case split *)
Example ex_mixed_sign : int_equals TUInt 4294967295 TInt (-1) = false /\ int_equals TInt (-1) TULLong 18446744073709551615 = false.
Proof. split; reflexivity. Qed.
Example ex_mixed_equal : int_equals TLLong 4294967296 TULong 4294967296 = true.
Proof. reflexivity. Qed.
Example ex_getter_reject : get GLLong (VInt TULong 9223372036854775813) = None /\ get GLLong (VInt TULong 5) = Some 5.
Proof. split; reflexivity. Qed.
