(* C03 -- each check macro fails exactly when the predicate it names is false, and is counted once.
   Only statements; every proof is `exact <lemma>` into C03_Proofs.v / C03_DblProofs.v / C03_Main.v.
   (Related statements are grouped into one conjunction per family: Print Assumptions costs about a second per theorem.) *)
From Coq Require Import ZArith NArith Bool List Reals.
From Flocq Require Import Core.Core IEEE754.BinarySingleNaN.
From CppUVerif Require Import lib.CInt lib.Dbl lib.Str lib.CSem gen.Gen_LeafC03 C03_Model C03_Proofs C03_DblProofs C03_Main C03_LeafTie C03_SideFx C03_SideFxProofs.
Import ListNotations.
Local Open Scope Z_scope.

(* every check of the model: a failure is recorded iff the named predicate (C03_Model.holds, written without reference
   to the code's algorithm) is false; counted once, except a passing CHECK_COMPARE *)
Theorem C03_fails_iff_predicate_false : forall c, valid c = true ->
  run_check c = (negb (holds c), if holds c && is_compare c then 0%N else 1%N).
Proof. exact run_check_holds. Qed.
Print Assumptions C03_fails_iff_predicate_false.

(* integer checks.
   (1) checks naming a type (LONGS_EQUAL, UNSIGNED_LONGS_EQUAL, LONGLONGS_EQUAL, UNSIGNED_LONGLONGS_EQUAL, BYTES_EQUAL,
       SIGNED_BYTES_EQUAL, CHECK_EQUAL_C_INT/UINT/LONG/ULONG/LONGLONG/ULONGLONG/CHAR/UBYTE/SBYTE): operands of any of the ten
       integer types whose values are in range of the named type compare by mathematical equality;
   (2) outside the named range the documented conversion applies: BYTES_EQUAL compares modulo 256;
   (3) CHECK_EQUAL on integers is mathematical equality whenever the language's != converts nothing away
       (same signedness after promotion, or both operands non-negative);
   (4) CHECK / CHECK_TRUE / CHECK_C fail iff the operand is zero, CHECK_FALSE iff it is not *)
Theorem C03_int_checks :
  (forall k t ta za tb zb,
     named k = Some t -> o_in_range ta za = true -> o_in_range tb zb = true ->
     o_in_range t za = true -> o_in_range t zb = true ->
     run_k2 k ta za tb zb = (negb (za =? zb), 1%N)) /\
  (forall ta za tb zb, o_in_range ta za = true -> o_in_range tb zb = true ->
     run_k2 BYTES_EQUAL ta za tb zb = (negb (za mod 256 =? zb mod 256), 1%N)) /\
  (forall ta za tb zb,
     o_in_range ta za = true -> o_in_range tb zb = true -> math_compare_ok ta za tb zb = true ->
     run_k2 CHECK_EQUAL ta za tb zb = (negb (za =? zb), 1%N)) /\
  (forall k t z, o_in_range t z = true -> o_in_range (OI TInt) z = true ->
     run_k1 k t z = (match k with K_CHECK_FALSE => negb (z =? 0) | _ => z =? 0 end, 1%N)).
Proof. exact int_checks_all. Qed.
Print Assumptions C03_int_checks.

(* CHECK_COMPARE fails iff the relation is false; a passing comparison is not counted, a failing one is counted once;
   every other check counts exactly once on both outcomes; no check counts more than once *)
Theorem C03_compare_count :
  (forall op ta za tb zb,
     o_in_range ta za = true -> o_in_range tb zb = true -> math_compare_ok ta za tb zb = true ->
     run_compare op ta za tb zb = (negb (rel op za zb), if rel op za zb then 0%N else 1%N)) /\
  (forall c, valid c = true -> is_compare c = false -> snd (run_check c) = 1%N) /\
  (forall c, valid c = true -> (snd (run_check c) <= 1)%N).
Proof. exact compare_count_all. Qed.
Print Assumptions C03_compare_count.

(* strings: NULL equals only NULL for every string check; STRCMP_EQUAL / CHECK_EQUAL_C_STRING by content; STRNCMP_EQUAL on the
   first n bytes of the contents; NOCASE with ASCII A-Z folding; CONTAINS iff no  pre ++ expected ++ post  decomposition *)
Theorem C03_str_checks :
  (forall k n, run_str k None None n = (false, 1%N) /\
     (forall s, run_str k None (Some s) n = (true, 1%N)) /\ (forall s, run_str k (Some s) None n = (true, 1%N))) /\
  (forall e a n, fst (run_str K_STRCMP (Some e) (Some a) n) = true <-> cut_nul e <> cut_nul a) /\
  (forall e a n, fst (run_str K_C_STRING (Some e) (Some a) n) = true <-> cut_nul e <> cut_nul a) /\
  (forall e a n, fst (run_str K_STRNCMP (Some e) (Some a) n) = true <->
     firstn (N.to_nat n) (cut_nul e) <> firstn (N.to_nat n) (cut_nul a)) /\
  (forall e a n, fst (run_str K_NOCASE (Some e) (Some a) n) = true <-> lower (cut_nul e) <> lower (cut_nul a)) /\
  (forall e a n, fst (run_str K_CONTAINS (Some e) (Some a) n) = true <->
     ~ exists pre post, cut_nul a = pre ++ cut_nul e ++ post) /\
  (forall e a n, fst (run_str K_NOCASE_CONTAINS (Some e) (Some a) n) = true <->
     ~ exists pre post, lower (cut_nul a) = pre ++ lower (cut_nul e) ++ post) /\
  (forall c : N, to_lower c = if ((65 <=? c) && (c <=? 90))%N then (c + 32)%N else c).
Proof. exact str_checks_all. Qed.
Print Assumptions C03_str_checks.

(* memory blocks: fails iff the length is non-zero and (exactly one block is NULL or the first n bytes differ) *)
Theorem C03_memcmp : forall e a n, block_ok e n = true -> block_ok a n = true ->
  (fst (assertBinaryEqual e a n) = true <->
   n <> 0%N /\ match e, a with
               | None, None => False
               | Some e, Some a => firstn (N.to_nat n) e <> firstn (N.to_nat n) a
               | _, _ => True end).
Proof. exact memcmp_fails_iff. Qed.
Print Assumptions C03_memcmp.

(* masked bits, C++ (unsigned long) and C (unsigned int) entry points; the byte count never matters *)
Theorem C03_bits :
  (forall te ze ta za zm,
     o_in_range OULong ze = true -> o_in_range OULong za = true -> o_in_range OULong zm = true ->
     (fst (run_bits false te ze ta za zm) = true <-> Z.land ze zm <> Z.land za zm)) /\
  (forall te ze ta za zm,
     o_in_range (OI TUInt) ze = true -> o_in_range (OI TUInt) za = true -> o_in_range (OI TUInt) zm = true ->
     (fst (run_bits true te ze ta za zm) = true <-> Z.land ze zm <> Z.land za zm)) /\
  (forall c te ze ta ta' za zm, run_bits c te ze ta za zm = run_bits c te ze ta' za zm).
Proof. exact bits_all. Qed.
Print Assumptions C03_bits.

(* CHECK_THROWS: fails unless the expected type was thrown; counted once either way *)
Theorem C03_throws : forall w, run_throws w = (match w with ThrowsExpected => false | _ => true end, 1%N).
Proof. exact throws_fails_iff. Qed.
Print Assumptions C03_throws.

(* doubles: DOUBLES_EQUAL / CHECK_EQUAL_C_REAL fail iff doubles_equal is false, and NaN equals nothing *)
Theorem C03_double_nan :
  (forall c e a t, run_check (Dbl c e a t) = (negb (doubles_equal e a t), 1%N)) /\
  (forall d1 d2 t, d_is_nan d1 || d_is_nan d2 || d_is_nan t = true -> doubles_equal d1 d2 t = false).
Proof. exact double_nan_all. Qed.
Print Assumptions C03_double_nan.
(* the same infinity is equal for every tolerance that is a number *)
Theorem C03_double_same_inf : forall s t, d_is_nan t = false ->
  doubles_equal (B754_infinity s) (B754_infinity s) t = true.
Proof. exact deq_same_inf. Qed.
Print Assumptions C03_double_same_inf.
(* opposite infinities are not equal for a finite tolerance (false of the code before commit 92783a6: next theorem) *)
Theorem C03_double_opposite_inf : forall s t, d_finite t = true ->
  doubles_equal (B754_infinity s) (B754_infinity (negb s)) t = false.
Proof. exact deq_opposite_inf. Qed.
Print Assumptions C03_double_opposite_inf.
Theorem C03_double_opposite_inf_old_refuted :
  ~ (forall s t, d_finite t = true -> doubles_equal_old (B754_infinity s) (B754_infinity (negb s)) t = false).
Proof. exact deq_old_refuted. Qed.
Print Assumptions C03_double_opposite_inf_old_refuted.
(* finite operands and tolerance: equal iff |round_to_nearest_even(d1 - d2)| <= t over the reals.  Corollaries: a real
   difference within the tolerance is always accepted; the same value is accepted for every non-negative tolerance; the
   order of the operands does not matter; a negative tolerance accepts nothing *)
Theorem C03_double_finite : forall d1 d2 t, d_finite d1 = true -> d_finite d2 = true -> d_finite t = true ->
  (doubles_equal d1 d2 t = true <-> (Rabs (rnd (dR d1 - dR d2)) <= dR t)%R) /\
  ((Rabs (dR d1 - dR d2) <= dR t)%R -> doubles_equal d1 d2 t = true) /\
  (dR d1 = dR d2 -> (0 <= dR t)%R -> doubles_equal d1 d2 t = true) /\
  doubles_equal d1 d2 t = doubles_equal d2 d1 t /\
  ((dR t < 0)%R -> doubles_equal d1 d2 t = false).
Proof. exact double_finite_all. Qed.
Print Assumptions C03_double_finite.

(* the executable oracle used on the implementation's observations accepts every model observation -- for every valid
   scenario of the extended language (C03_SideFx.v): XOld c is a check on operand VALUES, where x_valid / x_spec / x_run are
   valid c / spec c / run c; XSe c is a check whose operands are expressions with side effects (scripts of values) *)
Theorem C03_run_meets_spec : forall x, x_valid x = true -> x_spec x (x_run x) = true.
Proof. exact x_run_meets_spec. Qed.
Print Assumptions C03_run_meets_spec.

(* operand expressions with side effects in the macros that evaluate an operand more than once (CHECK_EQUAL_LOCATION behind
   CHECK_EQUAL / _TEXT / _ZERO / _ZERO_TEXT, CHECK_COMPARE_LOCATION): what is recorded, counted and whether the test goes on
   is exactly what the same check records for operands that keep the values of the FIRST comparison; hence two checks that
   agree on the kind, the type and the first value of each operand give the same verdict whatever later evaluations yield *)
Theorem C03_sidefx_verdict_of_first_comparison :
  (forall c, xo (se_run c) = run (first_check c)) /\
  (forall c c', first_check c = first_check c' -> xo (se_run c) = xo (se_run c')).
Proof. exact (conj se_verdict_first se_later_reads_irrelevant). Qed.
Print Assumptions C03_sidefx_verdict_of_first_comparison.

(* in mathematical terms (both operand expressions of one integer type, all script values in its range): CHECK_EQUAL records
   exactly one failure and leaves the test iff the first values differ, records nothing and goes on iff they are equal, and is
   counted once; CHECK_EQUAL_ZERO likewise against 0; CHECK_COMPARE fails (counted once) iff the relation is false of the
   first values and is not counted when it passes *)
Theorem C03_sidefx_fails_iff_first_values_differ :
  (forall t se sa, se_valid (SeEqual t se sa) = true ->
     (o_failures (xo (se_run (SeEqual t se sa))) = 1%N <-> s_first se <> s_first sa) /\
     (o_failures (xo (se_run (SeEqual t se sa))) = 0%N <-> s_first se = s_first sa) /\
     o_checks (xo (se_run (SeEqual t se sa))) = 1%N /\
     (o_after (xo (se_run (SeEqual t se sa))) = true <-> s_first se = s_first sa)) /\
  (forall t sa, se_valid (SeZero t sa) = true ->
     (o_failures (xo (se_run (SeZero t sa))) = 1%N <-> s_first sa <> 0) /\
     (o_failures (xo (se_run (SeZero t sa))) = 0%N <-> s_first sa = 0) /\
     o_checks (xo (se_run (SeZero t sa))) = 1%N) /\
  (forall op t sf ss, se_valid (SeCompare op t sf ss) = true ->
     let o := xo (se_run (SeCompare op t sf ss)) in
     let r := rel op (s_first sf) (s_first ss) in
     o_failures o = (if r then 0%N else 1%N) /\ o_checks o = (if r then 0%N else 1%N) /\ o_after o = r).
Proof. exact (conj se_equal_fails_iff (conj se_zero_fails_iff se_compare_fails_iff)). Qed.
Print Assumptions C03_sidefx_fails_iff_first_values_differ.

(* the evaluation counts of the modelled (unchanged) macros -- compared with the implementation, not read by the oracle: a
   passing check reads each operand once; a failing CHECK_EQUAL four times, a failing CHECK_COMPARE twice *)
Theorem C03_sidefx_evaluations : forall c,
  let o := se_run c in
  let k := match c with SeCompare _ _ _ _ => 2%N | _ => 4%N end in
  xo_na o = (if o_after (xo o) then 1%N else k) /\
  xo_ne o = match c with SeZero _ _ => 0%N | _ => if o_after (xo o) then 1%N else k end.
Proof. exact se_evaluations. Qed.
Print Assumptions C03_sidefx_evaluations.

(* the macro shape of seeded change C03-18 (verdict = a later evaluation of expected != actual) does NOT meet the spec:
   CHECK_EQUAL(0, next()) with next() yielding 1, 0, 0, ... records no failure *)
Theorem C03_sidefx_reread_verdict_refuted : ~ reread_meets_spec_stmt.
Proof. exact reread_meets_spec_refuted. Qed.
Print Assumptions C03_sidefx_reread_verdict_refuted.

(* doubles_equal of the model IS the source: equal to the definition tools/cxx2coq.py regenerates from clang's AST of
   Utest.cpp on every run (gen/Gen_LeafDbl.v; IsNan/IsInf/Fabs, -, <=, == mapped to Flocq's binary64 operations) *)
Theorem C03_doubles_equal_is_the_source : forall d1 d2 t, leaf_doubles_equal d1 d2 t = b2z (doubles_equal d1 d2 t).
Proof. exact C03_LeafTie.C03_doubles_equal_is_the_source. Qed.
Print Assumptions C03_doubles_equal_is_the_source.

(* --------------------------------------------------------------------------------------------------------------
   The check functions of the model ARE the source: the assert entry points of UtestShell as tools/cxx2gal.py regenerates them from Utest.cpp on every run (gen/Gen_LoopC03.v; countCheck() is the ghost event ACount, failWith(XFailure(this, file, line, ...)) the ghost event AFail "XFailure" file line after which the function is left; StrCmp / StrNCmp / MemCmp are the translated, proved functions of gen/Gen_LoopC13.v) produce exactly the events of the model's verdict: ONE count, and ONE failure of the named class carrying the file and line passed in exactly when the model's predicate is false (events_of); memory unchanged. (assertDoublesEqual: its predicate doubles_equal is tied in C03_leaf_functions_are_the_source)
   -------------------------------------------------------------------------------------------------------------- *)
From Coq Require Import String. From CppUVerif Require Import lib.CSem lib.CMem lib.CMemFacts lib.CEmit gen.Gen_LoopC13 gen.Gen_LoopC03 C13_SrcSpec C03_SrcTie. Import CppUVerif.lib.CMem.
Local Open Scope Z_scope.
Theorem C03_src_assertTrue_tie :
  forall (fuel : nat) (m : memory) (evs : list aev) (condition : Z)
  (checkString conditionString text file : ptr) (line : Z),
  src_assertTrue fuel m evs condition checkString conditionString text file line =
  FOk (tt, m, evs ++ events_of "CheckFailure" file line (assertTrue (z2b condition))).
Proof. exact src_assertTrue_tie. Qed.
Print Assumptions C03_src_assertTrue_tie.

Theorem C03_src_fail_tie :
  forall (fuel : nat) (m : memory) (evs : list aev) (text file : ptr) (line : Z),
  src_fail fuel m evs text file line = FOk (tt, m, evs ++ events_of "FailFailure" file line shell_fail).
Proof. exact src_fail_tie. Qed.
Print Assumptions C03_src_fail_tie.

Theorem C03_src_assertLongsEqual_tie :
  forall (fuel : nat) (m : memory) (evs : list aev) (e a : Z) (text file : ptr) (line : Z),
  src_assertLongsEqual fuel m evs e a text file line =
  FOk (tt, m, evs ++ events_of "LongsEqualFailure" file line (assertLongsEqual e a)).
Proof. exact src_assertLongsEqual_tie. Qed.
Print Assumptions C03_src_assertLongsEqual_tie.

Theorem C03_src_assertUnsignedLongsEqual_tie :
  forall (fuel : nat) (m : memory) (evs : list aev) (e a : Z) (text file : ptr) (line : Z),
  src_assertUnsignedLongsEqual fuel m evs e a text file line =
  FOk (tt, m, evs ++ events_of "UnsignedLongsEqualFailure" file line (assertUnsignedLongsEqual e a)).
Proof. exact src_assertUnsignedLongsEqual_tie. Qed.
Print Assumptions C03_src_assertUnsignedLongsEqual_tie.

Theorem C03_src_assertLongLongsEqual_tie :
  forall (fuel : nat) (m : memory) (evs : list aev) (e a : Z) (text file : ptr) (line : Z),
  src_assertLongLongsEqual fuel m evs e a text file line =
  FOk (tt, m, evs ++ events_of "LongLongsEqualFailure" file line (assertLongLongsEqual e a)).
Proof. exact src_assertLongLongsEqual_tie. Qed.
Print Assumptions C03_src_assertLongLongsEqual_tie.

Theorem C03_src_assertUnsignedLongLongsEqual_tie :
  forall (fuel : nat) (m : memory) (evs : list aev) (e a : Z) (text file : ptr) (line : Z),
  src_assertUnsignedLongLongsEqual fuel m evs e a text file line =
  FOk (tt, m, evs ++ events_of "UnsignedLongLongsEqualFailure" file line (assertUnsignedLongLongsEqual e a)).
Proof. exact src_assertUnsignedLongLongsEqual_tie. Qed.
Print Assumptions C03_src_assertUnsignedLongLongsEqual_tie.

Theorem C03_src_assertSignedBytesEqual_tie :
  forall (fuel : nat) (m : memory) (evs : list aev) (e a : Z) (text file : ptr) (line : Z),
  src_assertSignedBytesEqual fuel m evs e a text file line =
  FOk (tt, m, evs ++ events_of "SignedBytesEqualFailure" file line (assertSignedBytesEqual e a)).
Proof. exact src_assertSignedBytesEqual_tie. Qed.
Print Assumptions C03_src_assertSignedBytesEqual_tie.

Theorem C03_src_assertBitsEqual_tie :
  forall (fuel : nat) (m : memory) (evs : list aev) (e a mask byteCount : Z) (text file : ptr) (line : Z),
  src_assertBitsEqual fuel m evs e a mask byteCount text file line =
  FOk (tt, m, evs ++ events_of "BitsEqualFailure" file line (assertBitsEqual e a mask byteCount)).
Proof. exact src_assertBitsEqual_tie. Qed.
Print Assumptions C03_src_assertBitsEqual_tie.

Theorem C03_src_assertEquals_tie :
  forall (fuel : nat) (m : memory) (evs : list aev) (failed : Z) (expected actual text file : ptr) (line : Z),
  src_assertEquals fuel m evs failed expected actual text file line =
  FOk (tt, m, evs ++ events_of "CheckEqualFailure" file line (assertEquals (z2b failed))).
Proof. exact src_assertEquals_tie. Qed.
Print Assumptions C03_src_assertEquals_tie.

Theorem C03_src_assertCompare_tie :
  forall (fuel : nat) (m : memory) (evs : list aev) (comparison : Z)
  (checkString comparisonString text file : ptr) (line : Z),
  src_assertCompare fuel m evs comparison checkString comparisonString text file line =
  FOk (tt, m, evs ++ events_of "ComparisonFailure" file line (assertCompare (z2b comparison))).
Proof. exact src_assertCompare_tie. Qed.
Print Assumptions C03_src_assertCompare_tie.

Theorem C03_src_assertPointersEqual_direct :
  forall (fuel : nat) (m : memory) (evs : list aev) (e a text file : ptr) (line : Z),
  src_assertPointersEqual fuel m evs e a text file line =
  FOk (tt, m, evs ++ events_of "EqualsFailure" file line (negb (ptr_eqb e a), 1%N)).
Proof. exact src_assertPointersEqual_direct. Qed.
Print Assumptions C03_src_assertPointersEqual_direct.

Theorem C03_src_assertFunctionPointersEqual_direct :
  forall (fuel : nat) (m : memory) (evs : list aev) (e a text file : ptr) (line : Z),
  src_assertFunctionPointersEqual fuel m evs e a text file line =
  FOk (tt, m, evs ++ events_of "EqualsFailure" file line (negb (ptr_eqb e a), 1%N)).
Proof. exact src_assertFunctionPointersEqual_direct. Qed.
Print Assumptions C03_src_assertFunctionPointersEqual_direct.

Theorem C03_src_assertPointersEqual_tie :
  forall (enc : ptr -> Z) (fuel : nat) (m : memory) (evs : list aev) (e a text file : ptr) (line : Z),
  (enc e = enc a -> e = a) ->
  src_assertPointersEqual fuel m evs e a text file line =
  FOk (tt, m, evs ++ events_of "EqualsFailure" file line (assertPointersEqual (enc e) (enc a))).
Proof. exact src_assertPointersEqual_tie. Qed.
Print Assumptions C03_src_assertPointersEqual_tie.

Theorem C03_src_assertCstrEqual_tie :
  forall (fuel : nat) (m : memory) (evs : list aev) (e a text file : ptr) (line : Z),
  mem_ok m ->
  cstr_ok m e ->
  cstr_ok m a ->
  (e <> Null -> a <> Null -> (Datatypes.length (view m e) < fuel)%nat) ->
  src_assertCstrEqual fuel m evs e a text file line =
  FOk (tt, m, evs ++ events_of "StringEqualFailure" file line (assertCstrEqual (carg m e) (carg m a))).
Proof. exact src_assertCstrEqual_tie. Qed.
Print Assumptions C03_src_assertCstrEqual_tie.

Theorem C03_src_assertCstrNEqual_tie :
  forall (fuel : nat) (m : memory) (evs : list aev) (e a : ptr) (n : Z) (text file : ptr) (line : Z),
  mem_ok m ->
  cstr_ok m e ->
  cstr_ok m a ->
  0 <= n < C13_SrcTie.M64 ->
  (e <> Null -> a <> Null -> (Datatypes.length (view m e) < fuel)%nat) ->
  src_assertCstrNEqual fuel m evs e a n text file line =
  FOk
  (tt, m, evs ++ events_of "StringEqualFailure" file line (assertCstrNEqual (carg m e) (carg m a) (Z.to_N n))).
Proof. exact src_assertCstrNEqual_tie. Qed.
Print Assumptions C03_src_assertCstrNEqual_tie.

Theorem C03_src_assertCstrNoCaseEqual_tie :
  forall (fuel : nat) (m : memory) (evs : list aev) (e a text file : ptr) (line : Z),
  src_assertCstrNoCaseEqual fuel m evs e a text file line =
  FOk
  (tt, m, evs ++ events_of "StringEqualNoCaseFailure" file line (assertCstrNoCaseEqual (carg m e) (carg m a))).
Proof. exact src_assertCstrNoCaseEqual_tie. Qed.
Print Assumptions C03_src_assertCstrNoCaseEqual_tie.

Theorem C03_src_assertCstrContains_tie :
  forall (fuel : nat) (m : memory) (evs : list aev) (e a text file : ptr) (line : Z),
  src_assertCstrContains fuel m evs e a text file line =
  FOk (tt, m, evs ++ events_of "ContainsFailure" file line (assertCstrContains (carg m e) (carg m a))).
Proof. exact src_assertCstrContains_tie. Qed.
Print Assumptions C03_src_assertCstrContains_tie.

Theorem C03_src_assertCstrNoCaseContains_tie :
  forall (fuel : nat) (m : memory) (evs : list aev) (e a text file : ptr) (line : Z),
  src_assertCstrNoCaseContains fuel m evs e a text file line =
  FOk (tt, m, evs ++ events_of "ContainsFailure" file line (assertCstrNoCaseContains (carg m e) (carg m a))).
Proof. exact src_assertCstrNoCaseContains_tie. Qed.
Print Assumptions C03_src_assertCstrNoCaseContains_tie.

Theorem C03_src_assertBinaryEqual_tie :
  forall (fuel : nat) (m : memory) (evs : list aev) (e a : ptr) (n : Z) (text file : ptr) (line : Z),
  mem_ok m ->
  0 <= n < C13_SrcTie.M64 ->
  (n <> 0 ->
  e <> Null ->
  a <> Null ->
  (Z.to_nat n <= Datatypes.length (view m e))%nat /\
  (Z.to_nat n <= Datatypes.length (view m a))%nat /\ (Datatypes.length (view m e) < fuel)%nat) ->
  src_assertBinaryEqual fuel m evs e a n text file line =
  FOk
  (tt, m, evs ++ events_of "BinaryEqualFailure" file line (assertBinaryEqual (carg m e) (carg m a) (Z.to_N n))).
Proof. exact src_assertBinaryEqual_tie. Qed.
Print Assumptions C03_src_assertBinaryEqual_tie.
