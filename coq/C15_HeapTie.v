(* C15: the member functions of LocationToFailAllocNode and the list-walking member functions of FailableMemoryAllocator, as
   translated from source on every run (gen/Gen_HeapC15.v), run on a heap that represents a model state (C15_HeapRep.v:
   node_cells, chain, fail_at) return FOk, the value of the model function (C15_Model.v: should_fail, walk, mstep) and a heap
   that represents the model's new state; every block outside the structure is unchanged; the ghost events record the node
   obtained / released and the allocation let through.
   The encoding fc of file names (an opaque integer in the translation) is injective and never 0. *)
From Coq Require Import ZArith NArith Bool List Lia.
From CppUVerif Require Import lib.CSem lib.CMem lib.CMemFacts lib.CHeap lib.Str gen.Gen_HeapC15 C15_Model.
From CppUVerif Require Import C15_HeapRep.
Import ListNotations.
Local Open Scope Z_scope.

(* ------------------------------------------------------------------ small facts (independent of the encoding) *)
Lemma t_z2b_ptr b i : z2b (hp_bool (HPtr b i)) = true. Proof. reflexivity. Qed.
Lemma t_z2b_null : z2b (hp_bool HNull) = false. Proof. reflexivity. Qed.
Lemma t_ne_ne a b : z2b (c_ne (c_ne a b) 0) = negb (a =? b).
Proof. unfold c_ne. destruct (a =? b); reflexivity. Qed.
Lemma t_ne_N a b : z2b (c_ne (Z.of_N a) (Z.of_N b)) = negb (a =? b)%N.
Proof.
  unfold c_ne. rewrite b2z_z2b. f_equal. destruct (N.eqb_spec a b) as [E|E].
  - subst. apply Z.eqb_refl.
  - apply Z.eqb_neq. intro H. apply E. apply N2Z.inj. exact H.
Qed.
Lemma t_ne_0 a : a <> 0 -> z2b (c_ne a 0) = true.
Proof. intro H. unfold c_ne. rewrite b2z_z2b. apply Z.eqb_neq in H. rewrite H. reflexivity. Qed.

(* a store into a cell of a block whose content is known *)
Lemma t_store h b cells i v : hblock h b = cells -> (b < length h)%nat -> 0 <= i < Z.of_nat (length cells) ->
  exists h', hstore h (HPtr b i) v = Some h' /\ hblock h' b = upd cells (Z.to_nat i) v /\ length h' = length h /\
             (forall b', b' <> b -> hblock h' b' = hblock h b').
Proof.
  intros Hb L Hi. exists (upd h b (upd cells (Z.to_nat i) v)). split; [|split; [|split]].
  - unfold hstore. rewrite Hb. replace (0 <=? i) with true by (symmetry; apply Z.leb_le; lia).
    replace (i <? Z.of_nat (length cells)) with true by (symmetry; apply Z.ltb_lt; lia).
    replace (Nat.ltb b (length h)) with true by (symmetry; apply Nat.ltb_lt; exact L). reflexivity.
  - apply hblock_upd_same. exact L.
  - apply heap_upd_length.
  - intros b' Hne. apply hblock_upd_other. intro E. apply Hne. symmetry. exact E.
Qed.
Lemma t_padd h b cells k : hblock h b = cells -> 0 <= k <= Z.of_nat (length cells) -> hpadd h (HPtr b 0) k = Some (HPtr b k).
Proof.
  intros Hb Hk. unfold hpadd. rewrite Hb. cbn [Z.add].
  replace (0 <=? k) with true by (symmetry; apply Z.leb_le; lia).
  replace (k <=? Z.of_nat (length cells)) with true by (symmetry; apply Z.leb_le; lia). reflexivity.
Qed.

(* the allocator object [head_; currentAllocNumber_] *)
Section Obj.
  Variables (h : heap) (bt : nat) (hd : hptr) (c : Z).
  Hypothesis Hb : hblock h bt = [VPtr hd; VInt c].
  Lemma t_obj_padd1 : hpadd h (HPtr bt 0) 1 = Some (HPtr bt 1). Proof. unfold hpadd. rewrite Hb. reflexivity. Qed.
  Lemma t_obj_head : hload_ptr h (HPtr bt 0) = Some hd. Proof. unfold hload_ptr, hload. rewrite Hb. reflexivity. Qed.
  Lemma t_obj_cur : hload_int h (HPtr bt 1) = Some c. Proof. unfold hload_int, hload. rewrite Hb. reflexivity. Qed.
  Lemma t_obj_store_head q : (bt < length h)%nat ->
    exists h', hstore h (HPtr bt 0) (VPtr q) = Some h' /\ hblock h' bt = [VPtr q; VInt c] /\ length h' = length h /\
               (forall b', b' <> bt -> hblock h' b' = hblock h b').
  Proof. intro L. exact (t_store h bt _ 0 (VPtr q) Hb L ltac:(cbn; lia)). Qed.
  Lemma t_obj_store_cur z : (bt < length h)%nat ->
    exists h', hstore h (HPtr bt 1) (VInt z) = Some h' /\ hblock h' bt = [VPtr hd; VInt z] /\ length h' = length h /\
               (forall b', b' <> bt -> hblock h' b' = hblock h b').
  Proof. intro L. exact (t_store h bt _ 1 (VInt z) Hb L ltac:(cbn; lia)). Qed.
End Obj.

(* ------------------------------------------------------------------ the model walk without the flag *)
(* what one node does with the allocation (g, l) *)
Definition t_upd (g : Z) (l : loc) (nd : node) : node := fst (should_fail g l nd).
Definition t_fires (g : Z) (l : loc) (nd : node) : bool := snd (should_fail g l nd).
(* every node sees the allocation, the first that fires is taken out *)
Fixpoint t_rem (g : Z) (l : loc) (ns : list node) : list node :=
  match ns with
  | [] => []
  | nd :: r => if t_fires g l nd then map (t_upd g l) r else t_upd g l nd :: t_rem g l r
  end.
(* the blocks that stay, and the pointer to the node taken out (NULL if none fires) *)
Fixpoint t_brem (g : Z) (l : loc) (bs : list nat) (ns : list node) : list nat :=
  match ns, bs with
  | nd :: r, b :: bs' => if t_fires g l nd then bs' else b :: t_brem g l bs' r
  | _, _ => bs
  end.
Fixpoint t_ptr (g : Z) (l : loc) (bs : list nat) (ns : list node) : hptr :=
  match ns, bs with
  | nd :: r, b :: bs' => if t_fires g l nd then HPtr b 0 else t_ptr g l bs' r
  | _, _ => HNull
  end.
(* toFail / beforeToFail as block numbers, prev = the block before the first one *)
Fixpoint t_find (g : Z) (l : loc) (prev : option nat) (bs : list nat) (ns : list node) : option (nat * option nat) :=
  match ns, bs with
  | nd :: r, b :: bs' => if t_fires g l nd then Some (b, prev) else t_find g l (Some b) bs' r
  | _, _ => None
  end.
Definition t_optr (o : option nat) : hptr := match o with Some b => HPtr b 0 | None => HNull end.

Lemma t_walk_true g l : forall ns, walk g l true ns = (map (t_upd g l) ns, true).
Proof.
  induction ns as [|nd r IH]; cbn [walk map]; [reflexivity|].
  change (t_upd g l nd) with (fst (should_fail g l nd)).
  destruct (should_fail g l nd) as [nd' f]. cbn [negb fst]. rewrite andb_false_r. rewrite IH. reflexivity.
Qed.
Lemma t_walk_false g l : forall ns, walk g l false ns = (t_rem g l ns, existsb (t_fires g l) ns).
Proof.
  induction ns as [|nd r IH]; cbn [walk t_rem existsb]; [reflexivity|].
  change (t_upd g l nd) with (fst (should_fail g l nd)). change (t_fires g l nd) with (snd (should_fail g l nd)).
  destruct (should_fail g l nd) as [nd' f]. cbn [negb fst snd]. rewrite andb_true_r. destruct f; cbn [orb].
  - apply t_walk_true.
  - rewrite IH. reflexivity.
Qed.
Lemma t_ptr_exists g l : forall ns bs, length bs = length ns ->
  t_ptr g l bs ns = HNull <-> existsb (t_fires g l) ns = false.
Proof.
  induction ns as [|nd r IH]; intros [|b bs] Hlen; cbn [length] in Hlen; try discriminate Hlen; cbn [t_ptr existsb].
  - split; reflexivity.
  - destruct (t_fires g l nd); cbn [orb]; [split; discriminate|]. apply IH. lia.
Qed.
Lemma t_find_ptr g l : forall ns bs prev,
  match t_find g l prev bs ns with Some (bf, _) => HPtr bf 0 | None => HNull end = t_ptr g l bs ns.
Proof.
  induction ns as [|nd r IH]; intros [|b bs] prev; cbn [t_find t_ptr]; try reflexivity.
  destruct (t_fires g l nd); [reflexivity|]. apply IH.
Qed.
Lemma t_rem_none g l : forall ns, existsb (t_fires g l) ns = false -> t_rem g l ns = map (t_upd g l) ns.
Proof.
  induction ns as [|nd r IH]; cbn [existsb t_rem map]; [reflexivity|]. destruct (t_fires g l nd); cbn [orb]; [discriminate|].
  intro H. rewrite IH by exact H. reflexivity.
Qed.
Lemma t_brem_none g l : forall ns bs, existsb (t_fires g l) ns = false -> t_brem g l bs ns = bs.
Proof.
  induction ns as [|nd r IH]; intros [|b bs]; cbn [existsb t_brem]; try reflexivity. destruct (t_fires g l nd); cbn [orb]; [discriminate|].
  intro H. rewrite IH by exact H. reflexivity.
Qed.
Lemma t_rem_incl g l x : forall ns, In x (t_rem g l ns) -> In x (map (t_upd g l) ns).
Proof.
  induction ns as [|nd r IH]; cbn [t_rem map]; [intros []|]. destruct (t_fires g l nd); intro H.
  - right. exact H.
  - destruct H as [H|H]; [left; exact H | right; exact (IH H)].
Qed.
Lemma t_brem_incl g l x : forall ns bs, In x (t_brem g l bs ns) -> In x bs.
Proof.
  induction ns as [|nd r IH]; intros [|b bs]; cbn [t_brem]; try (intro H; exact H).
  destruct (t_fires g l nd); intro H.
  - right. exact H.
  - destruct H as [H|H]; [left; exact H | right; exact (IH _ H)].
Qed.
Lemma t_brem_NoDup g l : forall ns bs, NoDup bs -> NoDup (t_brem g l bs ns).
Proof.
  induction ns as [|nd r IH]; intros [|b bs] H; cbn [t_brem]; try exact H.
  inversion H as [|? ? Hn Hd]; subst. destruct (t_fires g l nd); [exact Hd|].
  constructor; [|exact (IH _ Hd)]. intro Hin. apply Hn. exact (t_brem_incl _ _ _ _ _ Hin).
Qed.
Lemma t_ptr_in g l b i : forall ns bs, t_ptr g l bs ns = HPtr b i -> In b bs /\ i = 0.
Proof.
  induction ns as [|nd r IH]; intros [|b0 bs]; cbn [t_ptr]; try discriminate.
  destruct (t_fires g l nd); intro H.
  - inversion H; subst. split; [left; reflexivity | reflexivity].
  - destruct (IH _ H) as [H1 H2]. split; [right; exact H1 | exact H2].
Qed.
Lemma t_ptr_gone g l b i : forall ns bs, NoDup bs -> t_ptr g l bs ns = HPtr b i -> ~ In b (t_brem g l bs ns).
Proof.
  induction ns as [|nd r IH]; intros [|b0 bs] Hd; cbn [t_ptr t_brem]; try discriminate.
  inversion Hd as [|? ? Hn Hd']; subst. destruct (t_fires g l nd); intro H.
  - inversion H; subst. exact Hn.
  - intros [E|Hin]; [|exact (IH _ Hd' H Hin)]. subst. apply Hn. exact (proj1 (t_ptr_in _ _ _ _ _ _ H)).
Qed.

(* one store into a block of known content, naming the new heap and its facts *)
Ltac t_step Hb L i v h' S B Ln F :=
  destruct (t_store _ _ _ i v Hb L ltac:(cbn; lia)) as [h' [S [B [Ln F]]]]; rewrite S; cbv beta iota;
  cbn [upd Z.to_nat Pos.to_nat Pos.iter_op Nat.add] in B.

(* LocationToFailAllocNode::init on any 5-cell block *)
Lemma t_init fuel h evs nx b c0 c1 c2 c3 c4 next : hblock h b = [c0; c1; c2; c3; c4] -> (b < length h)%nat ->
  exists h', src_fnode_init fuel h evs nx (HPtr b 0) next = FOk (tt, h', evs, nx) /\
    hblock h' b = [VInt 0; VInt 0; VInt 0; VInt 0; VPtr next] /\ length h' = length h /\
    (forall b', b' <> b -> hblock h' b' = hblock h b').
Proof.
  intros Hb L. unfold src_fnode_init.
  t_step Hb L 0 (VInt 0) h1 S1 B1 L1 F1.
  rewrite (t_padd h1 b _ 1 B1 ltac:(cbn; lia)). cbv beta iota.
  assert (L1' : (b < length h1)%nat) by lia. t_step B1 L1' 1 (VInt 0) h2 S2 B2 L2 F2.
  rewrite (t_padd h2 b _ 2 B2 ltac:(cbn; lia)). cbv beta iota.
  assert (L2' : (b < length h2)%nat) by lia. t_step B2 L2' 2 (VInt 0) h3 S3 B3 L3 F3.
  rewrite (t_padd h3 b _ 3 B3 ltac:(cbn; lia)). cbv beta iota.
  assert (L3' : (b < length h3)%nat) by lia. t_step B3 L3' 3 (VInt 0) h4 S4 B4 L4 F4.
  rewrite (t_padd h4 b _ 4 B4 ltac:(cbn; lia)). cbv beta iota.
  assert (L4' : (b < length h4)%nat) by lia. t_step B4 L4' 4 (VPtr next) h5 S5 B5 L5 F5.
  exists h5. split; [reflexivity|]. split; [exact B5|]. split; [lia|].
  intros b' Hne. rewrite (F5 b' Hne), (F4 b' Hne), (F3 b' Hne), (F2 b' Hne). exact (F1 b' Hne).
Qed.

(* a fresh block appended to the heap *)
Lemma t_app_old (h : heap) x b : (b < length h)%nat -> hblock (h ++ [x]) b = hblock h b.
Proof. intro L. unfold hblock. apply app_nth1. exact L. Qed.
Lemma t_app_new (h : heap) x : hblock (h ++ [x]) (length h) = x.
Proof. unfold hblock. rewrite app_nth2 by lia. rewrite Nat.sub_diag. reflexivity. Qed.

Lemma t_eq_null_null : z2b (hp_eq HNull HNull) = true. Proof. reflexivity. Qed.
Lemma t_eq_ptr_null b i : z2b (hp_eq (HPtr b i) HNull) = false. Proof. reflexivity. Qed.
(* toFail / beforeToFail after the walk: kept if toFail was already set, otherwise what the walk finds *)
Definition t_tf (tf : hptr) (r : option (nat * option nat)) : hptr :=
  match tf with HNull => match r with Some (bf, _) => HPtr bf 0 | None => HNull end | _ => tf end.
Definition t_bef (tf bef : hptr) (r : option (nat * option nat)) : hptr :=
  match tf with HNull => match r with Some (_, p) => t_optr p | None => bef end | _ => bef end.
Lemma t_find_prev g l : forall ns bs p bf o, t_find g l (Some p) bs ns = Some (bf, o) -> exists bb, o = Some bb.
Proof.
  induction ns as [|nd r IH]; intros [|b bs] p bf o; cbn [t_find]; try discriminate.
  destruct (t_fires g l nd); intro H.
  - inversion H; subst. exists p. reflexivity.
  - exact (IH _ _ _ _ H).
Qed.

Section Tie.
  Variable fc : list N -> Z.
  Hypothesis fc_inj : forall a b, fc a = fc b -> a = b.
  Hypothesis fc_nz : forall a, fc a <> 0.

  Notation node_cells := (node_cells fc).
  Notation chain := (chain fc).
  Notation fail_at := (fail_at fc).

  Lemma t_fc_eqb a b : (fc a =? fc b) = bytes_eqb a b.
  Proof.
    destruct (bytes_eqb a b) eqn:E.
    - apply bytes_eqb_eq in E. subst. apply Z.eqb_refl.
    - apply Z.eqb_neq. intro H. apply bytes_eqb_neq in E. apply E. apply fc_inj. exact H.
  Qed.

  (* cell access in a block that holds a node *)
  Section Cells.
    Variables (h : heap) (b : nat) (nd : node) (nxt : hptr).
    Hypothesis Hb : hblock h b = node_cells nd nxt.
    Lemma t_padd1 : hpadd h (HPtr b 0) 1 = Some (HPtr b 1). Proof. unfold hpadd. rewrite Hb. reflexivity. Qed.
    Lemma t_padd2 : hpadd h (HPtr b 0) 2 = Some (HPtr b 2). Proof. unfold hpadd. rewrite Hb. reflexivity. Qed.
    Lemma t_padd3 : hpadd h (HPtr b 0) 3 = Some (HPtr b 3). Proof. unfold hpadd. rewrite Hb. reflexivity. Qed.
    Lemma t_padd4 : hpadd h (HPtr b 0) 4 = Some (HPtr b 4). Proof. unfold hpadd. rewrite Hb. reflexivity. Qed.
    Lemma t_load_num : hload_int h (HPtr b 0) = Some (n_num nd). Proof. unfold hload_int, hload. rewrite Hb. reflexivity. Qed.
    Lemma t_load_act : hload_int h (HPtr b 1) = Some (n_act nd). Proof. unfold hload_int, hload. rewrite Hb. reflexivity. Qed.
    Lemma t_load_file : hload_int h (HPtr b 2) = Some (file_code fc (n_loc nd)).
    Proof. unfold hload_int, hload. rewrite Hb. reflexivity. Qed.
    Lemma t_load_line : hload_int h (HPtr b 3) = Some (line_code (n_loc nd)).
    Proof. unfold hload_int, hload. rewrite Hb. reflexivity. Qed.
    Lemma t_load_next : hload_ptr h (HPtr b 4) = Some nxt. Proof. unfold hload_ptr, hload. rewrite Hb. reflexivity. Qed.
    (* node->next_ = q *)
    Lemma t_store_next q : (b < length h)%nat ->
      exists h', hstore h (HPtr b 4) (VPtr q) = Some h' /\ hblock h' b = node_cells nd q /\ length h' = length h /\
                 (forall b', b' <> b -> hblock h' b' = hblock h b').
    Proof. intro L. exact (t_store h b _ 4 (VPtr q) Hb L ltac:(cbn; lia)). Qed.
    (* node->actualAllocNumber_ = z *)
    Lemma t_store_act z : (b < length h)%nat ->
      exists h', hstore h (HPtr b 1) (VInt z) = Some h' /\
                 hblock h' b = node_cells {| n_num := n_num nd; n_act := z; n_loc := n_loc nd |} nxt /\ length h' = length h /\
                 (forall b', b' <> b -> hblock h' b' = hblock h b').
    Proof. intro L. exact (t_store h b _ 1 (VInt z) Hb L ltac:(cbn; lia)). Qed.
  End Cells.

  (* the hypothesis under which actualAllocNumber_++ does not wrap: only the nodes bound to the allocation's location count *)
  Definition no_wrap (l : loc) (nd : node) : Prop :=
    match n_loc nd with Some l' => loc_eqb l l' = true -> n_act nd + 1 < 2 ^ 31 | None => True end.

  (* ------------------------------------------------------------------ (1) LocationToFailAllocNode::shouldFail *)
  Theorem src_fnode_shouldFail_spec : forall fuel h evs nx b nd nxt g l,
    hblock h b = node_cells nd nxt -> (b < length h)%nat -> node_ok nd -> no_wrap l nd ->
    exists h',
      src_fnode_shouldFail fuel h evs nx (HPtr b 0) g (fc (fst l)) (Z.of_N (snd l)) =
        FOk (b2z (snd (should_fail g l nd)), h', evs, nx) /\
      hblock h' b = node_cells (fst (should_fail g l nd)) nxt /\ node_ok (fst (should_fail g l nd)) /\
      length h' = length h /\ (forall b', b' <> b -> hblock h' b' = hblock h b').
  Proof.
    intros fuel h evs nx b nd nxt g l Hb L Hok Hnw.
    unfold src_fnode_shouldFail. rewrite (t_padd2 _ _ _ _ Hb). cbv beta iota. rewrite (t_load_file _ _ _ _ Hb). cbv beta iota.
    destruct nd as [num act [[f' ln']|]]; unfold should_fail; cbn [n_loc n_num n_act file_code fst snd].
    - rewrite (t_ne_0 _ (fc_nz f')). cbv beta iota.
      rewrite t_ne_ne, t_fc_eqb. unfold loc_eqb. cbn [fst snd]. destruct (bytes_eqb (fst l) f') eqn:Ef; cbn [negb andb].
      + cbv beta iota. rewrite (t_padd3 _ _ _ _ Hb). cbv beta iota. rewrite (t_load_line _ _ _ _ Hb). cbn [n_loc line_code snd].
        cbv beta iota. rewrite t_ne_N. destruct (N.eqb (snd l) ln') eqn:El; cbn [negb].
        * cbv beta iota. rewrite (t_padd1 _ _ _ _ Hb). cbv beta iota. rewrite (t_load_act _ _ _ _ Hb). cbn [n_act]. cbv beta iota zeta.
          assert (Hw : act + 1 < 2 ^ 31).
          { apply Hnw. unfold loc_eqb. cbn [fst snd]. rewrite Ef, El. reflexivity. }
          destruct Hok as [Hnum [Hact Hln]]. cbn [n_num n_act n_loc] in Hnum, Hact, Hln.
          destruct (int_ok_incr act Hact Hw) as [Hcw Hact']. rewrite Hcw.
          destruct (t_store_act _ _ _ _ Hb (act + 1) L) as [h' [Hs [Hb' [Hlen Hfr]]]]. cbn [n_num n_loc] in Hb'.
          rewrite Hs. cbv beta iota. rewrite (t_padd1 _ _ _ _ Hb'). cbv beta iota. rewrite (t_load_act _ _ _ _ Hb'). cbv beta iota.
          rewrite (t_load_num _ _ _ _ Hb'). cbn [n_num n_act fst snd finish]. exists h'.
          split; [reflexivity|]. split; [exact Hb'|]. split; [|split; [exact Hlen | exact Hfr]].
          split; [exact Hnum|]. split; [exact Hact' | exact Hln].
        * exists h. cbn [fst snd finish b2z]. split; [reflexivity|]. split; [exact Hb|]. split; [exact Hok|]. split; intros; reflexivity.
      + exists h. cbn [fst snd finish b2z]. split; [reflexivity|]. split; [exact Hb|]. split; [exact Hok|]. split; intros; reflexivity.
    - cbv beta iota. rewrite (t_load_num _ _ _ _ Hb). cbn [n_num fst snd finish]. exists h.
      split; [reflexivity|]. split; [exact Hb|]. split; [exact Hok|]. split; intros; reflexivity.
  Qed.

  (* ------------------------------------------------------------------ LocationToFailAllocNode::failAtAllocNumber / failNthAllocAt *)
  Theorem src_fnode_failAtAllocNumber_spec : forall fuel h evs nx b c0 c1 c2 c3 c4 n next,
    hblock h b = [c0; c1; c2; c3; c4] -> (b < length h)%nat ->
    exists h', src_fnode_failAtAllocNumber fuel h evs nx (HPtr b 0) n next = FOk (tt, h', evs, nx) /\
      hblock h' b = node_cells (new_node n None) next /\ length h' = length h /\
      (forall b', b' <> b -> hblock h' b' = hblock h b').
  Proof.
    intros fuel h evs nx b c0 c1 c2 c3 c4 n next Hb L. unfold src_fnode_failAtAllocNumber.
    destruct (t_init fuel h evs nx b c0 c1 c2 c3 c4 next Hb L) as [h0 [R0 [B0 [L0 F0]]]]. rewrite R0. cbv beta iota.
    assert (L0' : (b < length h0)%nat) by lia. t_step B0 L0' 0 (VInt n) h1 S1 B1 L1 F1.
    exists h1. split; [reflexivity|]. split; [exact B1|]. split; [lia|].
    intros b' Hne. rewrite (F1 b' Hne). exact (F0 b' Hne).
  Qed.

  Theorem src_fnode_failNthAllocAt_spec : forall fuel h evs nx b c0 c1 c2 c3 c4 n l next,
    hblock h b = [c0; c1; c2; c3; c4] -> (b < length h)%nat ->
    exists h', src_fnode_failNthAllocAt fuel h evs nx (HPtr b 0) n (fc (fst l)) (Z.of_N (snd l)) next = FOk (tt, h', evs, nx) /\
      hblock h' b = node_cells (new_node n (Some l)) next /\ length h' = length h /\
      (forall b', b' <> b -> hblock h' b' = hblock h b').
  Proof.
    intros fuel h evs nx b c0 c1 c2 c3 c4 n l next Hb L. unfold src_fnode_failNthAllocAt.
    destruct (t_init fuel h evs nx b c0 c1 c2 c3 c4 next Hb L) as [h0 [R0 [B0 [L0 F0]]]]. rewrite R0. cbv beta iota.
    assert (L0' : (b < length h0)%nat) by lia. t_step B0 L0' 0 (VInt n) h1 S1 B1 L1 F1.
    rewrite (t_padd h1 b _ 2 B1 ltac:(cbn; lia)). cbv beta iota.
    assert (L1' : (b < length h1)%nat) by lia. t_step B1 L1' 2 (VInt (fc (fst l))) h2 S2 B2 L2 F2.
    rewrite (t_padd h2 b _ 3 B2 ltac:(cbn; lia)). cbv beta iota.
    assert (L2' : (b < length h2)%nat) by lia. t_step B2 L2' 3 (VInt (Z.of_N (snd l))) h3 S3 B3 L3 F3.
    exists h3. split; [reflexivity|]. split; [exact B3|]. split; [lia|].
    intros b' Hne. rewrite (F3 b' Hne), (F2 b' Hne), (F1 b' Hne). exact (F0 b' Hne).
  Qed.

  (* ------------------------------------------------------------------ (2) FailableMemoryAllocator::failAllocNumber / failNthAllocAt *)
  (* head insertion of the node held by the new last block *)
  Lemma t_push h h2 bt bs s hd nd : fail_at h bt bs s -> hblock h bt = [VPtr hd; VInt (s_cur s)] -> node_ok nd ->
    length h2 = S (length h) -> hblock h2 (length h) = node_cells nd hd ->
    hblock h2 bt = [VPtr (HPtr (length h) 0); VInt (s_cur s)] ->
    (forall b', b' <> bt -> (b' < length h)%nat -> hblock h2 b' = hblock h b') ->
    fail_at h2 bt (length h :: bs) {| s_nodes := nd :: s_nodes s; s_cur := s_cur s |}.
  Proof.
    intros [hd0 [Hbt [Hc [Hd [Hok [Hcur [Hlt [Htn Htl]]]]]]]] Hbt' Hnd Hlen Hnew Hobj Hfr.
    assert (E : hd0 = hd) by (rewrite Hbt in Hbt'; inversion Hbt'; reflexivity). subst hd0.
    assert (Hnin : ~ In (length h) bs).
    { intro Hin. pose proof (proj1 (Forall_forall _ _) Hlt _ Hin) as Hx. cbv beta in Hx. lia. }
    exists (HPtr (length h) 0). cbn [s_nodes s_cur]. split; [exact Hobj|]. split; [|split; [|split; [|split; [|split; [|split]]]]].
    - cbn [C15_HeapRep.chain]. split; [reflexivity|]. exists hd. split; [exact Hnew|]. apply chain_frame with (h := h); [|exact Hc].
      intros x Hx. apply Hfr; [intro E; subst; exact (Htn Hx)|]. exact (proj1 (Forall_forall _ _) Hlt _ Hx).
    - constructor; assumption.
    - constructor; assumption.
    - exact Hcur.
    - constructor; [lia|]. apply Forall_forall. intros x Hx. pose proof (proj1 (Forall_forall _ _) Hlt _ Hx) as Hy. cbv beta in Hy. lia.
    - intros [E|Hin]; [lia | exact (Htn Hin)].
    - lia.
  Qed.

  Theorem src_fail_failAllocNumber_spec : forall fuel h evs nx bt bs s n,
    fail_at h bt bs s -> int_ok n ->
    exists h',
      src_fail_failAllocNumber fuel h evs nx (HPtr bt 0) n =
        FOk (tt, h', evs ++ [HAllocRec nx (HPtr (length h) 0) sizeof_LocationToFailAllocNode], nx + 1) /\
      fail_at h' bt (length h :: bs) (fst (mstep s (FailG n))) /\ length h' = S (length h) /\
      (forall b', b' <> bt -> (b' < length h)%nat -> hblock h' b' = hblock h b').
  Proof.
    intros fuel h evs nx bt bs s n Hrep Hn. pose proof Hrep as [hd [Hbt [Hc [Hd [Hok [Hcur [Hlt [Htn Htl]]]]]]]].
    unfold src_fail_failAllocNumber. cbv zeta.
    set (m0 := h ++ [repeat (VInt 0) 5]).
    assert (Hbt0 : hblock m0 bt = [VPtr hd; VInt (s_cur s)]) by (unfold m0; rewrite t_app_old by exact Htl; exact Hbt).
    assert (Hnew0 : hblock m0 (length h) = [VInt 0; VInt 0; VInt 0; VInt 0; VInt 0]) by (unfold m0; apply t_app_new).
    assert (Hlen0 : length m0 = S (length h)) by (unfold m0; rewrite app_length; cbn [length]; lia).
    rewrite (t_obj_head _ _ _ _ Hbt0). cbv beta iota.
    destruct (src_fnode_failAtAllocNumber_spec fuel m0 (evs ++ [HAllocRec nx (HPtr (length h) 0) sizeof_LocationToFailAllocNode])
                (nx + 1) (length h) _ _ _ _ _ n hd Hnew0 ltac:(lia)) as [m1 [R1 [B1 [L1 F1]]]].
    rewrite R1. cbv beta iota.
    assert (Hbt1 : hblock m1 bt = [VPtr hd; VInt (s_cur s)]) by (rewrite F1 by lia; exact Hbt0).
    destruct (t_obj_store_head m1 bt hd (s_cur s) Hbt1 (HPtr (length h) 0) ltac:(lia)) as [m2 [S2 [B2 [L2 F2]]]].
    rewrite S2. cbv beta iota. exists m2. split; [reflexivity|]. split; [|split; [lia|]].
    - cbn [mstep fst]. apply (t_push h m2 bt bs s hd (new_node n None) Hrep Hbt).
      + split; [exact Hn|]. split; [unfold int_ok; cbn [new_node n_act]; lia | exact I].
      + lia.
      + rewrite F2 by lia. exact B1.
      + exact B2.
      + intros b' H1 H2. rewrite F2 by exact H1. rewrite F1 by lia. unfold m0. apply t_app_old. exact H2.
    - intros b' H1 H2. rewrite F2 by exact H1. rewrite F1 by lia. unfold m0. apply t_app_old. exact H2.
  Qed.

  Theorem src_fail_failNthAllocAt_spec : forall fuel h evs nx bt bs s n l,
    fail_at h bt bs s -> int_ok n -> (snd l < 2 ^ 64)%N ->
    exists h',
      src_fail_failNthAllocAt fuel h evs nx (HPtr bt 0) n (fc (fst l)) (Z.of_N (snd l)) =
        FOk (tt, h', evs ++ [HAllocRec nx (HPtr (length h) 0) sizeof_LocationToFailAllocNode], nx + 1) /\
      fail_at h' bt (length h :: bs) (fst (mstep s (FailAt n l))) /\ length h' = S (length h) /\
      (forall b', b' <> bt -> (b' < length h)%nat -> hblock h' b' = hblock h b').
  Proof.
    intros fuel h evs nx bt bs s n l Hrep Hn Hl. pose proof Hrep as [hd [Hbt [Hc [Hd [Hok [Hcur [Hlt [Htn Htl]]]]]]]].
    unfold src_fail_failNthAllocAt. cbv zeta.
    set (m0 := h ++ [repeat (VInt 0) 5]).
    assert (Hbt0 : hblock m0 bt = [VPtr hd; VInt (s_cur s)]) by (unfold m0; rewrite t_app_old by exact Htl; exact Hbt).
    assert (Hnew0 : hblock m0 (length h) = [VInt 0; VInt 0; VInt 0; VInt 0; VInt 0]) by (unfold m0; apply t_app_new).
    assert (Hlen0 : length m0 = S (length h)) by (unfold m0; rewrite app_length; cbn [length]; lia).
    rewrite (t_obj_head _ _ _ _ Hbt0). cbv beta iota.
    destruct (src_fnode_failNthAllocAt_spec fuel m0 (evs ++ [HAllocRec nx (HPtr (length h) 0) sizeof_LocationToFailAllocNode])
                (nx + 1) (length h) _ _ _ _ _ n l hd Hnew0 ltac:(lia)) as [m1 [R1 [B1 [L1 F1]]]].
    rewrite R1. cbv beta iota.
    assert (Hbt1 : hblock m1 bt = [VPtr hd; VInt (s_cur s)]) by (rewrite F1 by lia; exact Hbt0).
    destruct (t_obj_store_head m1 bt hd (s_cur s) Hbt1 (HPtr (length h) 0) ltac:(lia)) as [m2 [S2 [B2 [L2 F2]]]].
    rewrite S2. cbv beta iota. exists m2. split; [reflexivity|]. split; [|split; [lia|]].
    - cbn [mstep fst]. apply (t_push h m2 bt bs s hd (new_node n (Some l)) Hrep Hbt).
      + split; [exact Hn|]. split; [unfold int_ok; cbn [new_node n_act]; lia | exact Hl].
      + lia.
      + rewrite F2 by lia. exact B1.
      + exact B2.
      + intros b' H1 H2. rewrite F2 by exact H1. rewrite F1 by lia. unfold m0. apply t_app_old. exact H2.
    - intros b' H1 H2. rewrite F2 by exact H1. rewrite F1 by lia. unfold m0. apply t_app_old. exact H2.
  Qed.

  (* ------------------------------------------------------------------ (3) FailableMemoryAllocator::alloc_memory *)
  (* the walk: every node is updated in place (same blocks, same links); toFail / beforeToFail are set at the first node that
     fires and kept from then on *)
  Lemma t_alloc_loop fuel0 bt g l : forall ns fuel h hd0 cur bs prev tf bef evs nx,
    hblock h bt = [VPtr hd0; VInt g] -> chain h cur bs ns -> NoDup bs -> ~ In bt bs ->
    Forall (fun b => (b < length h)%nat) bs -> Forall node_ok ns -> Forall (no_wrap l) ns -> (length ns < fuel)%nat ->
    exists h' last,
      src_fail_alloc_memory_loop1 fuel0 fuel (HPtr bt 0) (fc (fst l)) (Z.of_N (snd l)) h evs nx cur (t_optr prev) tf bef =
        Go (h', evs, nx, HNull, last, t_tf tf (t_find g l prev bs ns), t_bef tf bef (t_find g l prev bs ns)) /\
      chain h' cur bs (map (t_upd g l) ns) /\ Forall node_ok (map (t_upd g l) ns) /\ length h' = length h /\
      (forall b', ~ In b' bs -> hblock h' b' = hblock h b').
  Proof.
    induction ns as [|nd r IH]; intros fuel h hd0 cur bs prev tf bef evs nx Hbt Hc Hd Htn Hlt Hok Hnw Hf.
    - apply chain_nil_inv in Hc. destruct Hc as [-> ->]. destruct fuel as [|fuel]; [cbn in Hf; lia|].
      cbn [src_fail_alloc_memory_loop1]. rewrite t_z2b_null. cbv beta iota. exists h, (t_optr prev). cbn [t_find map].
      split; [destruct tf; reflexivity|]. split; [reflexivity|]. split; [constructor|]. split; intros; reflexivity.
    - apply chain_cons_inv in Hc. destruct Hc as [b [bs' [nxt [-> [-> [Hb Hc]]]]]].
      destruct fuel as [|fuel]; [cbn in Hf; lia|]. cbn [length] in Hf.
      inversion Hd as [|? ? Hn1 Hd1]; subst. inversion Hlt as [|? ? Hl1 Hlt1]; subst.
      inversion Hok as [|? ? Hok1 Hok2]; subst. inversion Hnw as [|? ? Hnw1 Hnw2]; subst.
      cbn [src_fail_alloc_memory_loop1]. rewrite t_z2b_ptr. cbv beta iota.
      rewrite (t_obj_padd1 _ _ _ _ Hbt). cbv beta iota. rewrite (t_obj_cur _ _ _ _ Hbt). cbv beta iota.
      destruct (src_fnode_shouldFail_spec fuel0 h evs nx b nd nxt g l Hb Hl1 Hok1 Hnw1) as [h1 [R1 [B1 [Hok1' [L1 F1]]]]].
      rewrite R1. cbv beta iota zeta. rewrite b2z_z2b.
      change (snd (should_fail g l nd)) with (t_fires g l nd). change (fst (should_fail g l nd)) with (t_upd g l nd) in B1, Hok1'.
      assert (Hbt1 : hblock h1 bt = [VPtr hd0; VInt g]).
      { rewrite F1; [exact Hbt|]. intro E. subst. apply Htn. left. reflexivity. }
      assert (Hc1 : chain h1 nxt bs' r).
      { apply chain_frame with (h := h); [|exact Hc]. intros x Hx. apply F1. intro E. subst. exact (Hn1 Hx). }
      assert (Htn1 : ~ In bt bs') by (intro Hin; apply Htn; right; exact Hin).
      assert (Hlt1' : Forall (fun b => (b < length h1)%nat) bs') by (rewrite L1; exact Hlt1).
      cbn [t_find map].
      assert (Hpost : forall tf' bef',
        (exists h' last,
          src_fail_alloc_memory_loop1 fuel0 fuel (HPtr bt 0) (fc (fst l)) (Z.of_N (snd l)) h1 evs nx nxt (HPtr b 0) tf' bef' =
            Go (h', evs, nx, HNull, last, t_tf tf' (t_find g l (Some b) bs' r), t_bef tf' bef' (t_find g l (Some b) bs' r)) /\
          chain h' (HPtr b 0) (b :: bs') (t_upd g l nd :: map (t_upd g l) r) /\
          Forall node_ok (t_upd g l nd :: map (t_upd g l) r) /\ length h' = length h /\
          (forall b', ~ In b' (b :: bs') -> hblock h' b' = hblock h b'))).
      { intros tf' bef'.
        destruct (IH fuel h1 hd0 nxt bs' (Some b) tf' bef' evs nx Hbt1 Hc1 Hd1 Htn1 Hlt1' Hok2 Hnw2 ltac:(lia))
          as [h' [last [Hr [Hch [Hok' [Hlen Hfr]]]]]]. cbn [t_optr] in Hr.
        exists h', last. split; [exact Hr|]. split; [|split; [|split]].
        - cbn [C15_HeapRep.chain]. split; [reflexivity|]. exists nxt. split; [rewrite (Hfr b Hn1); exact B1 | exact Hch].
        - constructor; assumption.
        - rewrite Hlen. exact L1.
        - intros b' Hb'. rewrite Hfr by (intro Hin; apply Hb'; right; exact Hin). apply F1. intro E. apply Hb'. left. symmetry. exact E. }
      rewrite (t_padd4 _ _ _ _ B1). cbv beta iota. rewrite (t_load_next _ _ _ _ B1).
      destruct (t_fires g l nd) eqn:Ef; cbv beta iota.
      + destruct tf as [|tb ti].
        * rewrite t_eq_null_null. cbv beta iota zeta.
          destruct (Hpost (HPtr b 0) (t_optr prev)) as [h' [last [Hr Hrest]]]. exists h', last. split; [|exact Hrest].
          rewrite Hr. reflexivity.
        * rewrite t_eq_ptr_null. cbv beta iota zeta.
          destruct (Hpost (HPtr tb ti) bef) as [h' [last [Hr Hrest]]]. exists h', last. split; [|exact Hrest].
          rewrite Hr. reflexivity.
      + cbv zeta.
        destruct (Hpost tf bef) as [h' [last [Hr Hrest]]]. exists h', last. split; [|exact Hrest]. exact Hr.
  Qed.

  (* the unlinking after the walk, when the node taken out has a predecessor: one store into beforeToFail->next_ *)
  Lemma t_unlink_prev g l : forall r h bp np cur bs bf obb,
    hblock h bp = node_cells np cur -> chain h cur bs (map (t_upd g l) r) -> NoDup (bp :: bs) ->
    t_find g l (Some bp) bs r = Some (bf, obb) ->
    exists bb nf nxtf nb nxb, obb = Some bb /\ hblock h bf = node_cells nf nxtf /\ hblock h bb = node_cells nb nxb /\
      In bf bs /\ In bb (bp :: bs) /\ bb <> bf /\
      forall h2, hblock h2 bb = node_cells nb nxtf -> (forall b', b' <> bb -> hblock h2 b' = hblock h b') ->
        chain h2 (HPtr bp 0) (bp :: t_brem g l bs r) (np :: t_rem g l r).
  Proof.
    induction r as [|nd r IH]; intros h bp np cur bs bf obb Hbp Hc Hd Hf.
    - destruct bs; discriminate Hf.
    - cbn [map] in Hc. apply chain_cons_inv in Hc. destruct Hc as [bc [bs' [nxt [-> [-> [Hbc Hc]]]]]].
      inversion Hd as [|? ? Hn1 Hd1]; subst. cbn [t_find] in Hf. cbn [t_brem t_rem]. destruct (t_fires g l nd) eqn:Ef.
      + inversion Hf; subst bf obb. exists bp, (t_upd g l nd), nxt, np, (HPtr bc 0).
        split; [reflexivity|]. split; [exact Hbc|]. split; [exact Hbp|]. split; [left; reflexivity|]. split; [left; reflexivity|].
        split; [intro E; apply Hn1; left; symmetry; exact E|].
        intros h2 A B. cbn [C15_HeapRep.chain]. split; [reflexivity|]. exists nxt. split; [exact A|].
        apply chain_frame with (h := h); [|exact Hc]. intros x Hx. apply B. intro E. subst. apply Hn1. right. exact Hx.
      + destruct (IH h bc (t_upd g l nd) nxt bs' bf obb Hbc Hc Hd1 Hf) as [bb [nf [nxtf [nb [nxb [E [H1 [H2 [H3 [H4 [H5 H6]]]]]]]]]]].
        exists bb, nf, nxtf, nb, nxb. split; [exact E|]. split; [exact H1|]. split; [exact H2|]. split; [right; exact H3|].
        split; [right; exact H4|]. split; [exact H5|].
        intros h2 A B. cbn [C15_HeapRep.chain]. split; [reflexivity|]. exists (HPtr bc 0). split.
        * rewrite B; [exact Hbp|]. intro E'. subst. exact (Hn1 H4).
        * exact (H6 h2 A B).
  Qed.

  Theorem src_fail_alloc_memory_spec : forall fuel h evs nx bt bs s size l,
    fail_at h bt bs s -> s_cur s + 1 < 2 ^ 31 -> Forall (no_wrap l) (s_nodes s) -> (length (s_nodes s) < fuel)%nat ->
    let g := s_cur s + 1 in
    let ns' := fst (walk g l false (s_nodes s)) in
    let failed := snd (walk g l false (s_nodes s)) in
    exists h',
      src_fail_alloc_memory fuel h evs nx (HPtr bt 0) size (fc (fst l)) (Z.of_N (snd l)) =
        FOk (if failed then 0 else nx, h',
             evs ++ [if failed then HFreeRec (t_ptr g l bs (s_nodes s)) size else HAllocBuf nx size],
             if failed then nx else nx + 1) /\
      fail_at h' bt (t_brem g l bs (s_nodes s)) {| s_nodes := ns'; s_cur := g |} /\
      length h' = length h /\
      (forall b', b' <> bt -> ~ In b' bs -> hblock h' b' = hblock h b') /\
      (failed = true <-> t_ptr g l bs (s_nodes s) <> HNull).
  Proof.
    intros fuel h evs nx bt bs s size l [hd [Hbt [Hc [Hd [Hok [Hcur [Hlt [Htn Htl]]]]]]]] Hg Hnw Hf g ns' failed.
    subst ns' failed. rewrite t_walk_false. cbn [fst snd]. destruct s as [ns cur]. cbn [s_nodes s_cur] in *.
    unfold src_fail_alloc_memory. rewrite (t_obj_padd1 _ _ _ _ Hbt). cbv beta iota. rewrite (t_obj_cur _ _ _ _ Hbt). cbv beta iota zeta.
    destruct (int_ok_incr cur Hcur Hg) as [Hcw Hcur']. rewrite Hcw. fold g. fold g in Hcur'.
    destruct (t_obj_store_cur _ _ _ _ Hbt g Htl) as [h0 [S0 [B0 [L0 F0]]]]. rewrite S0. cbv beta iota.
    rewrite (t_obj_head _ _ _ _ B0). cbv beta iota.
    assert (Hc0 : chain h0 hd bs ns).
    { apply chain_frame with (h := h); [|exact Hc]. intros x Hx. apply F0. intro E. subst. exact (Htn Hx). }
    assert (Hlt0 : Forall (fun b => (b < length h0)%nat) bs) by (rewrite L0; exact Hlt).
    destruct (t_alloc_loop fuel bt g l ns fuel h0 hd hd bs None HNull HNull evs nx B0 Hc0 Hd Htn Hlt0 Hok Hnw Hf)
      as [h1 [last [Hr [Hc1 [Hok1 [L1 F1]]]]]]. cbn [t_optr] in Hr. rewrite Hr. cbv beta iota.
    assert (B1 : hblock h1 bt = [VPtr hd; VInt g]) by (rewrite (F1 bt Htn); exact B0).
    assert (Hlen : length bs = length ns) by exact (chain_length _ _ _ _ _ Hc).
    pose proof (t_find_ptr g l ns bs None) as Hptr. unfold t_tf, t_bef.
    destruct (t_find g l None bs ns) as [[bf obb]|] eqn:Efind.
    - (* some node fires *)
      assert (Hex : existsb (t_fires g l) ns = true).
      { destruct (existsb (t_fires g l) ns) eqn:E; [reflexivity|]. apply (t_ptr_exists g l ns bs Hlen) in E.
        rewrite E in Hptr. discriminate Hptr. }
      rewrite Hex, <- Hptr. rewrite t_z2b_ptr. cbv beta iota.
      assert (Hfinal : forall h2 : heap, length h2 = length h1 ->
                fail_at h2 bt (t_brem g l bs ns) {| s_nodes := t_rem g l ns; s_cur := g |} ->
                (forall b', b' <> bt -> ~ In b' bs -> hblock h2 b' = hblock h1 b') ->
                fail_at h2 bt (t_brem g l bs ns) {| s_nodes := t_rem g l ns; s_cur := g |} /\ length h2 = length h /\
                (forall b', b' <> bt -> ~ In b' bs -> hblock h2 b' = hblock h b') /\ (true = true <-> HPtr bf 0 <> HNull)).
      { intros h2 A B C. split; [exact B|]. split; [lia|]. split.
        - intros b' H1 H2. rewrite (C b' H1 H2), (F1 b' H2). apply F0. exact H1.
        - split; [discriminate | reflexivity]. }
      destruct ns as [|nd r]; [destruct bs; discriminate Efind|]. destruct bs as [|b bs']; [discriminate Hlen|].
      cbn [map] in Hc1, Hok1. apply chain_cons_inv in Hc1. destruct Hc1 as [b0 [bs0 [nxt [Eb [Ehd [Hb1 Hc1]]]]]].
      inversion Eb; subst b0 bs0. clear Eb. subst hd.
      inversion Hd as [|? ? Hn1 Hd1]; subst. inversion Hok1 as [|? ? Hok1a Hok1b]; subst.
      inversion Hlt as [|? ? Hl1 Hlt1]; subst.
      cbn [t_find] in Efind. cbn [t_brem t_rem] in Hfinal |- *. destruct (t_fires g l nd) eqn:Ef.
      + (* the first node fires: head_ = toFail->next_ *)
        inversion Efind; subst bf obb. cbn [t_optr]. rewrite t_z2b_null. cbv beta iota.
        rewrite (t_padd4 _ _ _ _ Hb1). cbv beta iota. rewrite (t_load_next _ _ _ _ Hb1). cbv beta iota.
        destruct (t_obj_store_head _ _ _ _ B1 nxt ltac:(lia)) as [h2 [S2 [B2 [L2 F2]]]]. rewrite S2. cbv beta iota zeta.
        exists h2. split; [reflexivity|]. apply Hfinal; [exact L2| |].
        * exists nxt. cbn [s_nodes s_cur]. split; [exact B2|]. split; [|split; [exact Hd1|split; [exact Hok1b|split; [exact Hcur'|split; [|split]]]]].
          -- apply chain_frame with (h := h1); [|exact Hc1]. intros x Hx. apply F2. intro E. subst. apply Htn. right. exact Hx.
          -- rewrite L2, L1, L0. exact Hlt1.
          -- intro Hin. apply Htn. right. exact Hin.
          -- lia.
        * intros b' H1 _. apply F2. exact H1.
      + (* a later node fires: beforeToFail->next_ = toFail->next_ *)
        destruct (t_unlink_prev g l r h1 b (t_upd g l nd) nxt bs' bf obb Hb1 Hc1 Hd Efind)
          as [bb [nf [nxtf [nb [nxb [E [H1 [H2 [H3 [H4 [H5 H6]]]]]]]]]]]. subst obb. cbn [t_optr]. rewrite t_z2b_ptr. cbv beta iota.
        rewrite (t_padd4 _ _ _ _ H1). cbv beta iota. rewrite (t_load_next _ _ _ _ H1). cbv beta iota.
        rewrite (t_padd4 _ _ _ _ H2). cbv beta iota.
        assert (Lbb : (bb < length h1)%nat).
        { rewrite L1, L0. exact (proj1 (Forall_forall _ _) Hlt bb H4). }
        destruct (t_store_next _ _ _ _ H2 nxtf Lbb) as [h2 [S2 [B2 [L2 F2]]]]. rewrite S2. cbv beta iota zeta.
        exists h2. split; [reflexivity|]. apply Hfinal; [exact L2| |].
        * exists (HPtr b 0). cbn [s_nodes s_cur]. split; [|split; [exact (H6 h2 B2 F2)|split; [|split; [|split; [exact Hcur'|split; [|split]]]]]].
          -- rewrite F2; [exact B1|]. intro E. subst. exact (Htn H4).
          -- constructor; [|exact (t_brem_NoDup g l r bs' Hd1)]. intro Hin. apply Hn1. exact (t_brem_incl _ _ _ _ _ Hin).
          -- constructor; [exact Hok1a|]. apply Forall_forall. intros x Hx.
             exact (proj1 (Forall_forall _ _) Hok1b x (t_rem_incl g l x r Hx)).
          -- constructor; [lia|]. apply Forall_forall. intros x Hx. rewrite L2, L1, L0.
             exact (proj1 (Forall_forall _ _) Hlt1 x (t_brem_incl _ _ _ _ _ Hx)).
          -- intros [E|Hin]; [apply Htn; left; exact E | apply Htn; right; exact (t_brem_incl _ _ _ _ _ Hin)].
          -- lia.
        * intros b' _ Hb'. apply F2. intro E. subst. exact (Hb' H4).
    - (* no node fires: the allocation is let through *)
      assert (Hex : existsb (t_fires g l) ns = false) by (apply (t_ptr_exists g l ns bs Hlen); symmetry; exact Hptr).
      rewrite Hex, <- Hptr. rewrite t_z2b_null. cbv beta iota zeta. rewrite (t_rem_none g l ns Hex), (t_brem_none g l ns bs Hex).
      exists h1. split; [reflexivity|]. split; [|split; [lia|split]].
      + exists hd. cbn [s_nodes s_cur]. split; [exact B1|]. split; [exact Hc1|]. split; [exact Hd|]. split; [exact Hok1|].
        split; [exact Hcur'|]. split; [rewrite L1, L0; exact Hlt|]. split; [exact Htn | lia].
      + intros b' H1 H2. rewrite (F1 b' H2). apply F0. exact H1.
      + split; [discriminate | intro H; exfalso; apply H; reflexivity].
  Qed.

  (* ------------------------------------------------------------------ (4) FailableMemoryAllocator::clearFailedAllocs *)
  Lemma t_clear_loop fuel0 bt c : forall ns fuel h hd bs evs nx,
    hblock h bt = [VPtr hd; VInt c] -> chain h hd bs ns -> ~ In bt bs -> (bt < length h)%nat -> (length ns < fuel)%nat ->
    exists h',
      src_fail_clearFailedAllocs_loop1 fuel0 fuel (HPtr bt 0) h evs nx hd =
        Go (h', evs ++ map (fun b => HFreeRec (HPtr b 0) 0) bs, nx, HNull) /\
      hblock h' bt = [VPtr HNull; VInt c] /\ length h' = length h /\ (forall b', b' <> bt -> hblock h' b' = hblock h b').
  Proof.
    induction ns as [|nd r IH]; intros fuel h hd bs evs nx Hbt Hc Htn Htl Hf.
    - apply chain_nil_inv in Hc. destruct Hc as [-> ->]. destruct fuel as [|fuel]; [cbn in Hf; lia|].
      cbn [src_fail_clearFailedAllocs_loop1]. rewrite t_z2b_null. cbv beta iota. exists h. cbn [map]. rewrite app_nil_r.
      split; [reflexivity|]. split; [exact Hbt|]. split; intros; reflexivity.
    - apply chain_cons_inv in Hc. destruct Hc as [b [bs' [nxt [-> [-> [Hb Hc]]]]]].
      destruct fuel as [|fuel]; [cbn in Hf; lia|]. cbn [length] in Hf.
      cbn [src_fail_clearFailedAllocs_loop1]. rewrite t_z2b_ptr. cbv beta iota.
      rewrite (t_padd4 _ _ _ _ Hb). cbv beta iota. rewrite (t_load_next _ _ _ _ Hb). cbv beta iota.
      destruct (t_obj_store_head _ _ _ _ Hbt nxt Htl) as [h1 [S1 [B1 [L1 F1]]]]. rewrite S1. cbv beta iota zeta.
      rewrite (t_obj_head _ _ _ _ B1). cbv beta iota.
      assert (Hc1 : chain h1 nxt bs' r).
      { apply chain_frame with (h := h); [|exact Hc]. intros x Hx. apply F1. intro E. subst. apply Htn. right. exact Hx. }
      assert (Htn1 : ~ In bt bs') by (intro Hin; apply Htn; right; exact Hin).
      destruct (IH fuel h1 nxt bs' (evs ++ [HFreeRec (HPtr b 0) 0]) nx B1 Hc1 Htn1 ltac:(lia) ltac:(lia)) as [h' [Hr [B' [L' F']]]].
      exists h'. split; [|split; [exact B'|split; [lia|]]].
      + rewrite Hr. cbn [map]. rewrite <- app_assoc. reflexivity.
      + intros b' Hne. rewrite (F' b' Hne). exact (F1 b' Hne).
  Qed.

  Theorem src_fail_clearFailedAllocs_spec : forall fuel h evs nx bt bs s,
    fail_at h bt bs s -> (length (s_nodes s) < fuel)%nat ->
    exists h',
      src_fail_clearFailedAllocs fuel h evs nx (HPtr bt 0) =
        FOk (tt, h', evs ++ map (fun b => HFreeRec (HPtr b 0) 0) bs, nx) /\
      fail_at h' bt [] (fst (mstep s Clear)) /\ length h' = length h /\
      (forall b', b' <> bt -> hblock h' b' = hblock h b').
  Proof.
    intros fuel h evs nx bt bs s [hd [Hbt [Hc [Hd [Hok [Hcur [Hlt [Htn Htl]]]]]]]] Hf.
    unfold src_fail_clearFailedAllocs. rewrite (t_obj_head _ _ _ _ Hbt). cbv beta iota zeta.
    destruct (t_clear_loop fuel bt (s_cur s) (s_nodes s) fuel h hd bs evs nx Hbt Hc Htn Htl Hf) as [h1 [Hr [B1 [L1 F1]]]].
    rewrite Hr. cbv beta iota. rewrite (t_obj_padd1 _ _ _ _ B1). cbv beta iota.
    destruct (t_obj_store_cur _ _ _ _ B1 0 ltac:(lia)) as [h2 [S2 [B2 [L2 F2]]]]. rewrite S2. cbv beta iota.
    exists h2. split; [reflexivity|]. split; [|split; [lia|]].
    - cbn [mstep fst]. exists HNull. cbn [st0 s_nodes s_cur]. split; [exact B2|]. split; [reflexivity|]. split; [constructor|].
      split; [constructor|]. split; [unfold int_ok; lia|]. split; [constructor|]. split; [intros [] | lia].
    - intros b' Hne. rewrite (F2 b' Hne). exact (F1 b' Hne).
  Qed.

  (* the same with the model's own step: exactly mstep s (Alloc f l) up to `deliver`; with 0 < nx a NULL result is a failed one *)
  Corollary src_fail_alloc_memory_mstep : forall fuel h evs nx bt bs s size f l,
    fail_at h bt bs s -> s_cur s + 1 < 2 ^ 31 -> Forall (no_wrap l) (s_nodes s) -> (length (s_nodes s) < fuel)%nat -> 0 < nx ->
    exists r h' evs' nx' bs',
      src_fail_alloc_memory fuel h evs nx (HPtr bt 0) size (fc (fst l)) (Z.of_N (snd l)) = FOk (r, h', evs', nx') /\
      fail_at h' bt bs' (fst (mstep s (Alloc f l))) /\
      snd (mstep s (Alloc f l)) = Some (OAlloc (deliver f (r =? 0))) /\
      length h' = length h /\
      (forall b', b' <> bt -> ~ In b' bs -> hblock h' b' = hblock h b') /\ (forall x, In x bs' -> In x bs).
  Proof.
    intros fuel h evs nx bt bs s size f l Hrep Hg Hnw Hf Hnx.
    destruct (src_fail_alloc_memory_spec fuel h evs nx bt bs s size l Hrep Hg Hnw Hf) as [h' [A [B [C [D _]]]]].
    cbn [mstep]. destruct (walk (s_cur s + 1) l false (s_nodes s)) as [ns failed]. cbn [fst snd] in *.
    eexists _, h', _, _, (t_brem (s_cur s + 1) l bs (s_nodes s)). split; [exact A|]. split; [exact B|]. split; [|split; [exact C|split; [exact D|]]].
    - destruct failed; [reflexivity|]. replace (nx =? 0) with false by (symmetry; apply Z.eqb_neq; lia). reflexivity.
    - intros x Hx. exact (t_brem_incl _ _ _ _ _ Hx).
  Qed.

End Tie.

(* ------------------------------------------------------------------ the hypotheses on the encoding are satisfiable *)
Fixpoint t_enc (f : list N) : positive := match f with [] => xH | c :: r => N.iter c xO (xI (t_enc r)) end.
Definition fc_ex (f : list N) : Z := Z.pos (t_enc f).
Lemma t_iter_ne_1 : forall c p, N.iter c xO (xI p) <> xH.
Proof. induction c as [|c _] using N.peano_ind; intro p; [discriminate|]. rewrite N.iter_succ. discriminate. Qed.
Lemma t_iter_inj : forall c c' p p', N.iter c xO (xI p) = N.iter c' xO (xI p') -> c = c' /\ p = p'.
Proof.
  induction c as [|c IH] using N.peano_ind; intros c' p p' H.
  - induction c' as [|c' _] using N.peano_ind.
    + inversion H. split; reflexivity.
    + rewrite N.iter_succ in H. discriminate H.
  - rewrite N.iter_succ in H. induction c' as [|c' _] using N.peano_ind.
    + discriminate H.
    + rewrite N.iter_succ in H. inversion H as [H1]. apply IH in H1. destruct H1 as [-> ->]. split; reflexivity.
Qed.
Lemma fc_ex_inj : forall a b, fc_ex a = fc_ex b -> a = b.
Proof.
  intros a b H. unfold fc_ex in H. inversion H as [H1]. clear H. revert b H1.
  induction a as [|x a IH]; intros [|y b] H; cbn [t_enc] in H.
  - reflexivity.
  - exfalso. exact (t_iter_ne_1 _ _ (eq_sym H)).
  - exfalso. exact (t_iter_ne_1 _ _ H).
  - apply t_iter_inj in H. destruct H as [-> H]. f_equal. exact (IH _ H).
Qed.
Lemma fc_ex_nz : forall a, fc_ex a <> 0. Proof. intro a. discriminate. Qed.

(* ------------------------------------------------------------------ examples (vm_compute on a concrete heap) *)
(* block 0: the allocator (head_ = block 2, currentAllocNumber_ = 4); block 2: "fail the 2nd allocation at a.c:10", one seen so
   far; block 1: "fail allocation number 6" *)
Definition ex_file : list N := [97; 46; 99]%N.
Definition ex_loc : loc := (ex_file, 10%N).
Definition ex_F : Z := fc_ex ex_file.
Definition ex_b1 : list val := [VInt 6; VInt 0; VInt 0; VInt 0; VPtr HNull].
Definition ex_b2 : list val := [VInt 2; VInt 1; VInt ex_F; VInt 10; VPtr (HPtr 1 0)].
Definition ex_heap (cur : Z) : heap := [[VPtr (HPtr 2 0); VInt cur]; ex_b1; ex_b2].
Definition ex_st (cur : Z) : st :=
  {| s_nodes := [{| n_num := 2; n_act := 1; n_loc := Some ex_loc |}; {| n_num := 6; n_act := 0; n_loc := None |}]; s_cur := cur |}.

Example ex_rep : fail_at fc_ex (ex_heap 4) 0 [2; 1]%nat (ex_st 4).
Proof.
  exists (HPtr 2 0). split; [reflexivity|]. split; [|split; [|split; [|split; [|split; [|split]]]]].
  - cbn [C15_HeapRep.chain ex_st s_nodes]. split; [reflexivity|]. exists (HPtr 1 0). split; [reflexivity|].
    split; [reflexivity|]. exists HNull. split; reflexivity.
  - constructor; [intros [E|[]]; discriminate E|]. constructor; [intros []|]. constructor.
  - constructor; [|constructor; [|constructor]]; (split; [unfold int_ok; cbn; lia|]); (split; [unfold int_ok; cbn; lia|]).
    + cbn. reflexivity.
    + exact I.
  - unfold int_ok. cbn. lia.
  - constructor; [cbn; lia|]. constructor; [cbn; lia|]. constructor.
  - intros [E|[E|[]]]; discriminate E.
  - cbn. lia.
Qed.

(* (1) shouldFail: the location node counts the allocation at its location and fires at the 2nd; the global node compares the index *)
Example ex_shouldFail_loc :
  src_fnode_shouldFail 5 (ex_heap 4) [] 1 (HPtr 2 0) 5 ex_F 10 =
  FOk (1, [[VPtr (HPtr 2 0); VInt 4]; ex_b1; [VInt 2; VInt 2; VInt ex_F; VInt 10; VPtr (HPtr 1 0)]], [], 1).
Proof. vm_compute. reflexivity. Qed.
Example ex_shouldFail_loc_other_line : src_fnode_shouldFail 5 (ex_heap 4) [] 1 (HPtr 2 0) 5 ex_F 11 = FOk (0, ex_heap 4, [], 1).
Proof. vm_compute. reflexivity. Qed.
Example ex_shouldFail_glob_no : src_fnode_shouldFail 5 (ex_heap 4) [] 1 (HPtr 1 0) 5 ex_F 10 = FOk (0, ex_heap 4, [], 1).
Proof. vm_compute. reflexivity. Qed.
Example ex_shouldFail_glob_yes : src_fnode_shouldFail 5 (ex_heap 4) [] 1 (HPtr 1 0) 6 ex_F 10 = FOk (1, ex_heap 4, [], 1).
Proof. vm_compute. reflexivity. Qed.

(* (2) failAllocNumber / failNthAllocAt: the new node is the new last block 3, linked in front *)
Example ex_failAllocNumber :
  src_fail_failAllocNumber 5 (ex_heap 4) [] 1 (HPtr 0 0) 9 =
  FOk (tt, [[VPtr (HPtr 3 0); VInt 4]; ex_b1; ex_b2; [VInt 9; VInt 0; VInt 0; VInt 0; VPtr (HPtr 2 0)]],
       [HAllocRec 1 (HPtr 3 0) 32], 2).
Proof. vm_compute. reflexivity. Qed.
Example ex_failNthAllocAt :
  src_fail_failNthAllocAt 5 (ex_heap 4) [] 1 (HPtr 0 0) 3 ex_F 20 =
  FOk (tt, [[VPtr (HPtr 3 0); VInt 4]; ex_b1; ex_b2; [VInt 3; VInt 0; VInt ex_F; VInt 20; VPtr (HPtr 2 0)]],
       [HAllocRec 1 (HPtr 3 0) 32], 2).
Proof. vm_compute. reflexivity. Qed.

(* (3) alloc_memory *)
(* allocation 5 at a.c:10: the first node fires and is unlinked through head_ *)
Example ex_alloc_fail_head :
  src_fail_alloc_memory 5 (ex_heap 4) [] 1 (HPtr 0 0) 100 ex_F 10 =
  FOk (0, [[VPtr (HPtr 1 0); VInt 5]; ex_b1; [VInt 2; VInt 2; VInt ex_F; VInt 10; VPtr (HPtr 1 0)]], [HFreeRec (HPtr 2 0) 100], 1).
Proof. vm_compute. reflexivity. Qed.
Example ex_alloc_fail_head_model :
  mstep (ex_st 4) (Alloc FDirect ex_loc) =
  ({| s_nodes := [{| n_num := 6; n_act := 0; n_loc := None |}]; s_cur := 5 |}, Some (OAlloc RNull)).
Proof. vm_compute. reflexivity. Qed.
(* allocation 5 elsewhere: let through, its address is the ordinal 1 *)
Example ex_alloc_ok :
  src_fail_alloc_memory 5 (ex_heap 4) [] 1 (HPtr 0 0) 100 ex_F 11 = FOk (1, ex_heap 5, [HAllocBuf 1 100], 2).
Proof. vm_compute. reflexivity. Qed.
(* allocation 6 elsewhere: the second node fires and is unlinked through beforeToFail->next_ *)
Example ex_alloc_fail_later :
  src_fail_alloc_memory 5 (ex_heap 5) [] 1 (HPtr 0 0) 100 ex_F 11 =
  FOk (0, [[VPtr (HPtr 2 0); VInt 6]; ex_b1; [VInt 2; VInt 1; VInt ex_F; VInt 10; VPtr HNull]], [HFreeRec (HPtr 1 0) 100], 1).
Proof. vm_compute. reflexivity. Qed.
Example ex_alloc_fail_later_model :
  mstep (ex_st 5) (Alloc FDirect (ex_file, 11%N)) =
  ({| s_nodes := [{| n_num := 2; n_act := 1; n_loc := Some ex_loc |}]; s_cur := 6 |}, Some (OAlloc RNull)).
Proof. vm_compute. reflexivity. Qed.
(* allocation 6 at a.c:10: both nodes fire in the same call; only the first is taken out, source and model alike *)
Example ex_alloc_two_fire :
  src_fail_alloc_memory 5 (ex_heap 5) [] 1 (HPtr 0 0) 100 ex_F 10 =
  FOk (0, [[VPtr (HPtr 1 0); VInt 6]; ex_b1; [VInt 2; VInt 2; VInt ex_F; VInt 10; VPtr (HPtr 1 0)]], [HFreeRec (HPtr 2 0) 100], 1).
Proof. vm_compute. reflexivity. Qed.
Example ex_alloc_two_fire_model :
  mstep (ex_st 5) (Alloc FDirect ex_loc) =
  ({| s_nodes := [{| n_num := 6; n_act := 0; n_loc := None |}]; s_cur := 6 |}, Some (OAlloc RNull)).
Proof. vm_compute. reflexivity. Qed.

(* (4) clearFailedAllocs: one HFreeRec per pending node in list order; the node blocks are not written *)
Example ex_clear :
  src_fail_clearFailedAllocs 5 (ex_heap 4) [] 1 (HPtr 0 0) =
  FOk (tt, [[VPtr HNull; VInt 0]; ex_b1; ex_b2], [HFreeRec (HPtr 2 0) 0; HFreeRec (HPtr 1 0) 0], 1).
Proof. vm_compute. reflexivity. Qed.
(* fuel = length of the list is not enough (the last iteration sees NULL) *)
Example ex_clear_nofuel : src_fail_clearFailedAllocs 2 (ex_heap 4) [] 1 (HPtr 0 0) = FNoFuel.
Proof. vm_compute. reflexivity. Qed.

(* ------------------------------------------------------------------ why the two no-wrap hypotheses are there *)
(* the translation wraps the two int counters at 32 bits, the model counts in Z: on these represented states (node_ok holds)
   the translated source fires and the model does not *)
Example ex_wrap_node :
  let nd := {| n_num := -2147483648; n_act := 2147483647; n_loc := Some ex_loc |} in
  node_ok nd /\
  src_fnode_shouldFail 5 [[VPtr (HPtr 1 0); VInt 0]; node_cells fc_ex nd HNull] [] 1 (HPtr 1 0) 1 ex_F 10 =
    FOk (1, [[VPtr (HPtr 1 0); VInt 0]; [VInt (-2147483648); VInt (-2147483648); VInt ex_F; VInt 10; VPtr HNull]], [], 1) /\
  should_fail 1 ex_loc nd = ({| n_num := -2147483648; n_act := 2147483648; n_loc := Some ex_loc |}, false).
Proof.
  cbv zeta. split; [|split; vm_compute; reflexivity].
  split; [unfold int_ok; cbn; lia|]. split; [unfold int_ok; cbn; lia|]. cbn. reflexivity.
Qed.
Example ex_wrap_cur :
  let s := {| s_nodes := [{| n_num := -2147483648; n_act := 0; n_loc := None |}]; s_cur := 2147483647 |} in
  let h := [[VPtr (HPtr 1 0); VInt 2147483647]; [VInt (-2147483648); VInt 0; VInt 0; VInt 0; VPtr HNull]] in
  fail_at fc_ex h 0 [1%nat] s /\
  src_fail_alloc_memory 5 h [] 1 (HPtr 0 0) 100 ex_F 10 =
    FOk (0, [[VPtr HNull; VInt (-2147483648)]; [VInt (-2147483648); VInt 0; VInt 0; VInt 0; VPtr HNull]], [HFreeRec (HPtr 1 0) 100], 1) /\
  mstep s (Alloc FDirect ex_loc) =
    ({| s_nodes := [{| n_num := -2147483648; n_act := 0; n_loc := None |}]; s_cur := 2147483648 |}, Some (OAlloc ROk)).
Proof.
  cbv zeta. split; [|split; vm_compute; reflexivity].
  exists (HPtr 1 0). split; [reflexivity|]. split; [|split; [|split; [|split; [|split; [|split]]]]].
  - cbn [C15_HeapRep.chain s_nodes]. split; [reflexivity|]. exists HNull. split; reflexivity.
  - constructor; [intros []|constructor].
  - constructor; [|constructor]. split; [unfold int_ok; cbn; lia|]. split; [unfold int_ok; cbn; lia | exact I].
  - unfold int_ok. cbn. lia.
  - constructor; [cbn; lia|constructor].
  - intros [E|[]]. discriminate E.
  - cbn. lia.
Qed.
