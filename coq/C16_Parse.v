(* C16 -- the XML parser run on what the writer prints yields the erased tree (round trip). *)
From Coq Require Import NArith Bool List Lia Arith.
From CppUVerif Require Import lib.Str gen.Gen_C16 C16_Events C16_Model C16_Escape.
Import ListNotations.
Local Open Scope N_scope.

(* the linear reversal used for long texts is List.rev *)
Lemma frev_rev l : frev l = rev l.
Proof. unfold frev. symmetry. apply rev_alt. Qed.

Lemma run_sm_app a : forall st b,
  run_sm st (a ++ b) = match run_sm st a with Some st' => run_sm st' b | None => None end.
Proof.
  induction a as [|c a IH]; intros st b; [reflexivity|].
  cbn [app run_sm]. destruct (step st c); [apply IH | reflexivity].
Qed.

(* ---- facts about every byte below 128, by exhaustive computation ---- *)
Definition byte_range : list N := map N.of_nat (seq 0 128).
Lemma in_byte_range c : c < 128 -> In c byte_range.
Proof.
  intro H. unfold byte_range. rewrite <- (N2Nat.id c). apply in_map. apply in_seq. lia.
Qed.
Lemma forall_bytes (P : N -> bool) : forallb P byte_range = true -> forall c, c < 128 -> P c = true.
Proof. intros H c Hc. rewrite forallb_forall in H. apply H. apply in_byte_range. exact Hc. Qed.

Definition plainc (c : N) : bool := okchar c && negb (xml_special c).
Definition plain_cls (k : cls) : bool :=
  match k with KLt | KGt | KAmp | KDq | KTab | KLf | KCr | KBad => false | _ => true end.
Lemma okchar_lt c : okchar c = true -> c < 128.
Proof. unfold okchar. rewrite !orb_true_iff, andb_true_iff, !N.leb_le, !N.eqb_eq. lia. Qed.
Lemma plainc_cls c : plainc c = true -> plain_cls (classify c) = true.
Proof.
  intro H. assert (Hc : c < 128) by (apply okchar_lt; unfold plainc in H; apply andb_true_iff in H; tauto).
  pose proof (forall_bytes (fun c => implb (plainc c) (plain_cls (classify c))) eq_refl c Hc) as X.
  cbv beta in X. rewrite H in X. exact X.
Qed.
Lemma plainc_not_dq c : plainc c = true -> (c =? 34) = false.
Proof.
  unfold plainc, xml_special. rewrite andb_true_iff, negb_true_iff, !orb_false_iff. tauto.
Qed.

(* ---- single transitions ---- *)
Ltac stepc E := unfold step; cbn [p_mode p_stack p_root]; rewrite ?E; cbn.

(* attribute value; the closing quote is the double quote (34) *)
Lemma val_plain S R nm A an acc cr c : plainc c = true ->
  step (mk S R (MAttrVal nm A an 34 acc cr)) c = Some (mk S R (MAttrVal nm A an 34 (c :: acc) false)).
Proof.
  intro H. pose proof (plainc_cls _ H) as Hk. pose proof (plainc_not_dq _ H) as Hq.
  unfold step. cbn [p_mode p_stack p_root]. rewrite Hq.
  destruct (classify c); try discriminate Hk; reflexivity.
Qed.
Lemma val_esc S R nm A an acc cr c : okchar c = true ->
  run_sm (mk S R (MAttrVal nm A an 34 acc cr)) (xml_esc c) = Some (mk S R (MAttrVal nm A an 34 (c :: acc) false)).
Proof.
  intro H. destruct (xml_special c) eqn:E.
  - apply xml_esc_special in E. destruct E as [->|[->|[->|[->|[->| ->]]]]]; reflexivity.
  - rewrite (xml_esc_plain _ E). cbn [run_sm]. rewrite val_plain; [reflexivity|].
    unfold plainc. rewrite H, E. reflexivity.
Qed.
Lemma val_esc_text s : forall S R nm A an acc cr, oktext s = true ->
  run_sm (mk S R (MAttrVal nm A an 34 acc cr)) (flat_map xml_esc s)
  = Some (mk S R (MAttrVal nm A an 34 (rev s ++ acc) (match s with [] => cr | _ => false end))).
Proof.
  induction s as [|c s IH]; intros S R nm A an acc cr H; [reflexivity|].
  cbn [oktext forallb] in H. apply andb_true_iff in H. destruct H as [Hc Hs].
  cbn [flat_map]. rewrite run_sm_app, val_esc by exact Hc. rewrite IH by exact Hs.
  cbn [rev]. rewrite <- app_assoc. cbn [app]. destruct s; reflexivity.
Qed.

Definition seg_ok (x : seg) : bool := match x with Raw s => forallb plainc s | Esc s => oktext s end.
Lemma plain_esc s : forallb plainc s = true -> flat_map xml_esc s = s /\ oktext s = true.
Proof.
  induction s as [|c s IH]; intro H; [split; reflexivity|].
  cbn [forallb] in H. apply andb_true_iff in H. destruct H as [Hc Hs]. destruct (IH Hs) as [E1 E2].
  unfold plainc in Hc. apply andb_true_iff in Hc. destruct Hc as [Ho Hn]. apply negb_true_iff in Hn.
  cbn [flat_map]. rewrite (xml_esc_plain _ Hn), E1. split; [reflexivity|]. cbn [oktext forallb]. rewrite Ho. exact E2.
Qed.
Lemma seg_print_esc x : seg_ok x = true ->
  seg_print encodeXmlText x = flat_map xml_esc (seg_dec x) /\ oktext (seg_dec x) = true.
Proof.
  destruct x as [s|s]; cbn [seg_ok seg_print seg_dec]; intro H.
  - destruct (plain_esc _ H) as [E1 E2]. rewrite E1. split; [reflexivity | exact E2].
  - split; [apply encodeXmlText_table | exact H].
Qed.
Lemma val_segs segs : forall S R nm A an acc cr, forallb seg_ok segs = true ->
  exists cr', run_sm (mk S R (MAttrVal nm A an 34 acc cr)) (segs_print encodeXmlText segs)
              = Some (mk S R (MAttrVal nm A an 34 (rev (segs_dec segs) ++ acc) cr')).
Proof.
  induction segs as [|x segs IH]; intros S R nm A an acc cr H.
  - exists cr. reflexivity.
  - cbn [forallb] in H. apply andb_true_iff in H. destruct H as [Hx Hs].
    destruct (seg_print_esc _ Hx) as [E1 E2].
    unfold segs_print, segs_dec. cbn [flat_map]. rewrite run_sm_app, E1, val_esc_text by exact E2.
    destruct (IH S R nm A an (rev (seg_dec x) ++ acc) (match seg_dec x with [] => cr | _ => false end) Hs) as [cr' E].
    exists cr'. unfold segs_print, segs_dec in E. rewrite E. rewrite rev_app_distr, <- app_assoc. reflexivity.
Qed.

(* names *)
Definition namec (c : N) : bool := name_cls (classify c).
Definition name_ok (n : bytes) : bool :=
  match n with c :: r => match classify c with KLetter => forallb namec r | _ => false end | [] => false end.
Lemma open_name_chars n : forall S R acc, forallb namec n = true ->
  run_sm (mk S R (MOpenName acc)) n = Some (mk S R (MOpenName (rev n ++ acc))).
Proof.
  induction n as [|c n IH]; intros S R acc H; [reflexivity|].
  cbn [forallb] in H. apply andb_true_iff in H. destruct H as [Hc Hn].
  cbn [run_sm]. unfold namec in Hc.
  assert (E : step (mk S R (MOpenName acc)) c = Some (mk S R (MOpenName (c :: acc)))).
  { unfold step. cbn [p_mode p_stack p_root]. destruct (classify c); try discriminate Hc; reflexivity. }
  rewrite E, IH by exact Hn. cbn [rev]. rewrite <- app_assoc. reflexivity.
Qed.
Lemma attr_name_chars n : forall S R nm A acc, forallb namec n = true ->
  run_sm (mk S R (MAttrName nm A acc)) n = Some (mk S R (MAttrName nm A (rev n ++ acc))).
Proof.
  induction n as [|c n IH]; intros S R nm A acc H; [reflexivity|].
  cbn [forallb] in H. apply andb_true_iff in H. destruct H as [Hc Hn].
  cbn [run_sm]. unfold namec in Hc.
  assert (E : step (mk S R (MAttrName nm A acc)) c = Some (mk S R (MAttrName nm A (c :: acc)))).
  { unfold step. cbn [p_mode p_stack p_root]. destruct (classify c); try discriminate Hc; reflexivity. }
  rewrite E, IH by exact Hn. cbn [rev]. rewrite <- app_assoc. reflexivity.
Qed.
Lemma close_name_chars n : forall S R acc, forallb namec n = true ->
  run_sm (mk S R (MCloseName acc)) n = Some (mk S R (MCloseName (rev n ++ acc))).
Proof.
  induction n as [|c n IH]; intros S R acc H; [reflexivity|].
  cbn [forallb] in H. apply andb_true_iff in H. destruct H as [Hc Hn].
  cbn [run_sm]. unfold namec in Hc.
  assert (E : step (mk S R (MCloseName acc)) c = Some (mk S R (MCloseName (c :: acc)))).
  { unfold step. cbn [p_mode p_stack p_root]. destruct (classify c); try discriminate Hc; reflexivity. }
  rewrite E, IH by exact Hn. cbn [rev]. rewrite <- app_assoc. reflexivity.
Qed.
Lemma name_ok_split n : name_ok n = true -> exists c r, n = c :: r /\ classify c = KLetter /\ forallb namec r = true /\ forallb namec n = true.
Proof.
  destruct n as [|c r]; [discriminate|]. cbn [name_ok]. destruct (classify c) eqn:E; try discriminate. intro H.
  exists c, r. repeat split; try assumption. cbn [forallb]. unfold namec at 1. rewrite E. exact H.
Qed.

(* one attribute: space, name, =, quote, value, quote; the element is either still at its name or between attributes *)
Definition attrs_mode (m : mode) (nm : bytes) (A : list (bytes * bytes)) : Prop :=
  (exists sp, m = MAttrs nm A sp) \/ (A = [] /\ exists acc, m = MOpenName acc /\ rev acc = nm).
Lemma attrs_mode_space S R m nm A : attrs_mode m nm A -> step (mk S R m) 32 = Some (mk S R (MAttrs nm A true)).
Proof.
  intros [[sp ->] | [-> [acc [-> <-]]]]; reflexivity.
Qed.
Lemma attrs_mode_gt S R m nm A : attrs_mode m nm A -> step (mk S R m) 62 = Some (mk ((nm, rev A, []) :: S) R (MText [] 0)).
Proof.
  intros [[sp ->] | [-> [acc [-> <-]]]]; reflexivity.
Qed.
Lemma attr_one S R m nm A k segs :
  attrs_mode m nm A -> name_ok k = true -> has_attr k A = false -> forallb seg_ok segs = true ->
  run_sm (mk S R m) (attr_print encodeXmlText (k, segs)) = Some (mk S R (MAttrs nm ((k, segs_dec segs) :: A) false)).
Proof.
  intros Hm Hk Hd Hs. unfold attr_print. cbn [fst snd].
  change ([32] ++ k ++ [61; 34] ++ segs_print encodeXmlText segs ++ [34])
    with (32 :: (k ++ [61; 34] ++ segs_print encodeXmlText segs ++ [34])).
  cbn [run_sm]. rewrite (attrs_mode_space S R m nm A Hm).
  destruct (name_ok_split _ Hk) as [c [r [-> [Ec [Hr _]]]]].
  cbn [app run_sm].
  assert (E1 : step (mk S R (MAttrs nm A true)) c = Some (mk S R (MAttrName nm A [c]))).
  { unfold step. cbn [p_mode p_stack p_root]. rewrite Ec. reflexivity. }
  rewrite E1, run_sm_app, attr_name_chars by exact Hr.
  change ([61; 34] ++ segs_print encodeXmlText segs ++ [34]) with (61 :: 34 :: (segs_print encodeXmlText segs ++ [34])).
  cbn [run_sm].
  assert (E2 : step (mk S R (MAttrName nm A (rev r ++ [c]))) 61 = Some (mk S R (MAttrQuote nm A (c :: r)))).
  { unfold step. cbn [p_mode p_stack p_root classify N.eqb Pos.eqb]. rewrite rev_app_distr, rev_involutive. cbn [rev app]. rewrite Hd. reflexivity. }
  rewrite E2.
  assert (E3 : step (mk S R (MAttrQuote nm A (c :: r))) 34 = Some (mk S R (MAttrVal nm A (c :: r) 34 [] false))) by reflexivity.
  rewrite E3, run_sm_app.
  destruct (val_segs segs S R nm A (c :: r) [] false Hs) as [cr' E4]. rewrite E4. rewrite app_nil_r.
  cbn [run_sm]. unfold step. cbn [p_mode p_stack p_root]. rewrite N.eqb_refl, frev_rev, rev_involutive. reflexivity.
Qed.

Fixpoint attrs_ok (attrs : list (bytes * list seg)) : bool :=
  match attrs with
  | [] => true
  | (k, segs) :: r => name_ok k && forallb seg_ok segs && negb (existsb (fun a => bytes_eqb (fst a) k) r) && attrs_ok r
  end.
Lemma has_attr_decA k r : has_attr k (decA r) = existsb (fun a : bytes * list seg => bytes_eqb (fst a) k) r.
Proof. unfold has_attr, decA. induction r as [|a r IH]; [reflexivity|]. cbn. rewrite IH. reflexivity. Qed.
Lemma has_attr_app k a b : has_attr k (a ++ b) = has_attr k a || has_attr k b.
Proof. unfold has_attr. apply existsb_app. Qed.


(* all attributes: A grows (newest first) by the decoded attributes; no later name may already be in A *)
Lemma attrs_all attrs : forall S R m nm A,
  attrs_mode m nm A -> attrs_ok attrs = true -> (forall a, In a attrs -> has_attr (fst a) A = false) ->
  exists m', attrs_mode m' nm (rev (decA attrs) ++ A) /\
             run_sm (mk S R m) (flat_map (attr_print encodeXmlText) attrs) = Some (mk S R m').
Proof.
  induction attrs as [|[k segs] attrs IH]; intros S R m nm A Hm Hok Hfresh.
  - exists m. split; [exact Hm | reflexivity].
  - cbn [attrs_ok] in Hok. apply andb_true_iff in Hok. destruct Hok as [Hok Hrest].
    apply andb_true_iff in Hok. destruct Hok as [Hok Hnd]. apply andb_true_iff in Hok. destruct Hok as [Hk Hs].
    apply negb_true_iff in Hnd.
    cbn [flat_map]. rewrite run_sm_app.
    rewrite (attr_one S R m nm A k segs Hm Hk (Hfresh (k, segs) (or_introl eq_refl)) Hs).
    destruct (IH S R (MAttrs nm ((k, segs_dec segs) :: A) false) nm ((k, segs_dec segs) :: A)) as [m' [Hm' E]].
    + left. exists false. reflexivity.
    + exact Hrest.
    + intros a Ha. unfold has_attr. cbn [existsb fst]. fold (has_attr (fst a) A).
      rewrite (Hfresh a (or_intror Ha)), orb_false_r.
      destruct (bytes_eqb k (fst a)) eqn:Ek; [|reflexivity].
      apply bytes_eqb_eq in Ek. subst k. exfalso.
      assert (X : existsb (fun a0 : bytes * list seg => bytes_eqb (fst a0) (fst a)) attrs = true).
      { apply existsb_exists. exists a. split; [exact Ha | apply bytes_eqb_refl]. }
      unfold bytes in *. rewrite X in Hnd. discriminate Hnd.
    + exists m'. split; [|exact E].
      cbn [decA map rev fst snd]. fold (decA attrs). rewrite <- app_assoc. exact Hm'.
Qed.

(* ---- character data ---- *)
Definition tseg_ok (x : seg) : bool := match x with Raw s => forallb (N.eqb 10) s | Esc s => oktext s end.

Lemma text_plain f S R acc br c : plainc c = true -> br <> 3%nat ->
  exists br', br' <> 3%nat /\ step (mk (f :: S) R (MText acc br)) c = Some (mk (f :: S) R (MText (c :: acc) br')).
Proof.
  intros H Hbr. pose proof (plainc_cls _ H) as Hk.
  unfold step. cbn [p_mode p_stack p_root].
  destruct (classify c); try discriminate Hk; try (exists 0%nat; split; [discriminate | reflexivity]).
  eexists. split; [|reflexivity]. destruct (Nat.eqb br 1 || Nat.eqb br 2); discriminate.
Qed.
Lemma text_esc f S R acc br c : okchar c = true -> br <> 3%nat ->
  exists br', br' <> 3%nat /\ run_sm (mk (f :: S) R (MText acc br)) (xml_esc c) = Some (mk (f :: S) R (MText (c :: acc) br')).
Proof.
  intros H Hbr. destruct (xml_special c) eqn:E.
  - apply xml_esc_special in E. exists 0%nat. split; [discriminate|].
    destruct E as [->|[->|[->|[->|[->| ->]]]]]; reflexivity.
  - rewrite (xml_esc_plain _ E). cbn [run_sm].
    destruct (text_plain f S R acc br c) as [br' [Hb' E']]; [unfold plainc; rewrite H, E; reflexivity | exact Hbr |].
    exists br'. split; [exact Hb'|]. rewrite E'. reflexivity.
Qed.
Lemma text_esc_text s : forall f S R acc br, oktext s = true -> br <> 3%nat ->
  exists br', br' <> 3%nat /\
    run_sm (mk (f :: S) R (MText acc br)) (flat_map xml_esc s) = Some (mk (f :: S) R (MText (rev s ++ acc) br')).
Proof.
  induction s as [|c s IH]; intros f S R acc br H Hbr.
  - exists br. split; [exact Hbr | reflexivity].
  - cbn [oktext forallb] in H. apply andb_true_iff in H. destruct H as [Hc Hs].
    destruct (text_esc f S R acc br c Hc Hbr) as [b1 [Hb1 E1]].
    destruct (IH f S R (c :: acc) b1 Hs Hb1) as [b2 [Hb2 E2]].
    exists b2. split; [exact Hb2|]. cbn [flat_map]. rewrite run_sm_app, E1, E2. cbn [rev]. rewrite <- app_assoc. reflexivity.
Qed.
Lemma text_lfs s : forall f S R acc br, forallb (N.eqb 10) s = true -> br <> 3%nat ->
  run_sm (mk (f :: S) R (MText acc br)) s = Some (mk (f :: S) R (MText (rev s ++ acc) (match s with [] => br | _ => 0%nat end))).
Proof.
  induction s as [|c s IH]; intros f S R acc br H Hbr; [reflexivity|].
  cbn [forallb] in H. apply andb_true_iff in H. destruct H as [Hc Hs]. apply N.eqb_eq in Hc. subst c.
  cbn [run_sm].
  assert (E : step (mk (f :: S) R (MText acc br)) 10 = Some (mk (f :: S) R (MText (10 :: acc) 0))).
  { unfold step. cbn [p_mode p_stack p_root]. cbn. destruct (Nat.eqb_spec br 3); [contradiction | reflexivity]. }
  rewrite E, IH by (try exact Hs; discriminate). cbn [rev]. rewrite <- app_assoc. destruct s; reflexivity.
Qed.
Lemma text_segs segs : forall f S R acc br, forallb tseg_ok segs = true -> br <> 3%nat ->
  exists br', br' <> 3%nat /\
    run_sm (mk (f :: S) R (MText acc br)) (segs_print encodeXmlText segs) = Some (mk (f :: S) R (MText (rev (segs_dec segs) ++ acc) br')).
Proof.
  induction segs as [|x segs IH]; intros f S R acc br H Hbr.
  - exists br. split; [exact Hbr | reflexivity].
  - cbn [forallb] in H. apply andb_true_iff in H. destruct H as [Hx Hs].
    unfold segs_print, segs_dec. cbn [flat_map]. rewrite run_sm_app.
    assert (X : exists b1, b1 <> 3%nat /\ run_sm (mk (f :: S) R (MText acc br)) (seg_print encodeXmlText x)
                                        = Some (mk (f :: S) R (MText (rev (seg_dec x) ++ acc) b1))).
    { destruct x as [s|s]; cbn [tseg_ok seg_print seg_dec] in *.
      - rewrite text_lfs by assumption. eexists. split; [|reflexivity]. destruct s; [exact Hbr | discriminate].
      - rewrite encodeXmlText_table. apply text_esc_text; assumption. }
    destruct X as [b1 [Hb1 E1]]. rewrite E1.
    destruct (IH f S R (rev (seg_dec x) ++ acc) b1 Hs Hb1) as [b2 [Hb2 E2]].
    exists b2. split; [exact Hb2|]. unfold segs_print, segs_dec in E2. rewrite E2, rev_app_distr, <- app_assoc. reflexivity.
Qed.

(* ---- elements ---- *)
Fixpoint ptree_ok (p : ptree) : bool :=
  match p with
  | PText segs => forallb tseg_ok segs
  | PElem n attrs sc kids =>
      name_ok n && attrs_ok attrs && (if sc then match kids with [] => true | _ => false end else true) && forallb ptree_ok kids
  end.

Fixpoint ptree_ind' (P : ptree -> Prop)
  (HT : forall segs, P (PText segs))
  (HE : forall n a sc kids, Forall P kids -> P (PElem n a sc kids)) (p : ptree) : P p :=
  match p with
  | PText segs => HT segs
  | PElem n a sc kids =>
      HE n a sc kids ((fix go (l : list ptree) : Forall P l :=
                         match l with [] => Forall_nil P | x :: r => Forall_cons x (ptree_ind' P HT HE x) (go r) end) kids)
  end.

Lemma flush_in_frame fn fa K S R acc :
  flush_text ((fn, fa, K) :: S) R acc = Some ((fn, fa, flushK K acc) :: S, R).
Proof. destruct acc; [reflexivity|]. unfold flush_text, add_node, flushK. rewrite frev_rev. reflexivity. Qed.

Definition parses (p : ptree) : Prop :=
  forall fn fa K S R acc br, br <> 3%nat ->
  exists br', br' <> 3%nat /\
    run_sm (mk ((fn, fa, K) :: S) R (MText acc br)) (print encodeXmlText p)
    = Some (mk ((fn, fa, fst (absorb erase (K, acc) p)) :: S) R (MText (snd (absorb erase (K, acc) p)) br')).

Lemma parses_kids kids : Forall parses kids ->
  forall fn fa K S R acc br, br <> 3%nat ->
  exists br', br' <> 3%nat /\
    run_sm (mk ((fn, fa, K) :: S) R (MText acc br)) (flat_map (print encodeXmlText) kids)
    = Some (mk ((fn, fa, fst (fold_left (absorb erase) kids (K, acc))) :: S) R (MText (snd (fold_left (absorb erase) kids (K, acc))) br')).
Proof.
  induction 1 as [|p kids Hp _ IH]; intros fn fa K S R acc br Hbr.
  - exists br. split; [exact Hbr | reflexivity].
  - destruct (Hp fn fa K S R acc br Hbr) as [b1 [Hb1 E1]].
    destruct (IH fn fa (fst (absorb erase (K, acc) p)) S R (snd (absorb erase (K, acc) p)) b1 Hb1) as [b2 [Hb2 E2]].
    exists b2. split; [exact Hb2|]. cbn [flat_map fold_left]. rewrite run_sm_app, E1, E2.
    rewrite <- surjective_pairing. reflexivity.
Qed.

Lemma open_lt fn fa K S R acc br :
  step (mk ((fn, fa, K) :: S) R (MText acc br)) 60 = Some (mk ((fn, fa, flushK K acc) :: S) R MLt).
Proof. unfold step. cbn [p_mode p_stack p_root]. cbn [classify N.eqb Pos.eqb]. rewrite flush_in_frame. reflexivity. Qed.

Theorem parses_all p : ptree_ok p = true -> parses p.
Proof.
  induction p as [segs | n attrs sc kids IHk] using ptree_ind'; intro Hok.
  - intros fn fa K S R acc br Hbr. cbn [ptree_ok] in Hok.
    destruct (text_segs segs (fn, fa, K) S R acc br Hok Hbr) as [b [Hb E]].
    exists b. split; [exact Hb|]. cbn [print absorb fst snd]. exact E.
  - cbn [ptree_ok] in Hok. apply andb_true_iff in Hok. destruct Hok as [Hok Hkids].
    apply andb_true_iff in Hok. destruct Hok as [Hok Hsc]. apply andb_true_iff in Hok. destruct Hok as [Hn Ha].
    assert (Hk : Forall parses kids).
    { rewrite forallb_forall in Hkids. rewrite Forall_forall in IHk. apply Forall_forall. intros x Hx. apply IHk; auto. }
    intros fn fa K S R acc br Hbr. exists 0%nat. split; [discriminate|].
    cbn [absorb fst snd].
    destruct (name_ok_split _ Hn) as [c [r [En [Ec [Hr Hall]]]]].
    cbn [print].
    change ([60] ++ n ++ flat_map (attr_print encodeXmlText) attrs ++ (if sc then [32; 47; 62] else [62] ++ flat_map (print encodeXmlText) kids ++ [60; 47] ++ n ++ [62]))
      with (60 :: (n ++ flat_map (attr_print encodeXmlText) attrs ++ (if sc then [32; 47; 62] else [62] ++ flat_map (print encodeXmlText) kids ++ [60; 47] ++ n ++ [62]))).
    cbn [run_sm]. rewrite open_lt.
    set (F := (fn, fa, flushK K acc)).
    rewrite run_sm_app.
    assert (E1 : run_sm (mk (F :: S) R MLt) n = Some (mk (F :: S) R (MOpenName (rev n)))).
    { rewrite En. cbn [run_sm].
      assert (E : step (mk (F :: S) R MLt) c = Some (mk (F :: S) R (MOpenName [c]))).
      { unfold step. cbn [p_mode p_stack p_root]. rewrite Ec. reflexivity. }
      rewrite E, open_name_chars by exact Hr. reflexivity. }
    rewrite E1, run_sm_app.
    destruct (attrs_all attrs (F :: S) R (MOpenName (rev n)) n []) as [m' [Hm' E2]].
    { right. split; [reflexivity|]. exists (rev n). split; [reflexivity | apply rev_involutive]. }
    { exact Ha. }
    { intros; reflexivity. }
    rewrite E2. rewrite app_nil_r in Hm'.
    destruct sc.
    + destruct kids; [|discriminate Hsc].
      change [32; 47; 62] with (32 :: [47; 62]). cbn [run_sm].
      rewrite (attrs_mode_space (F :: S) R m' n _ Hm'). cbn [run_sm].
      unfold step at 1. cbn [p_mode p_stack p_root]. cbn [classify N.eqb Pos.eqb].
      unfold step. cbn [p_mode p_stack p_root]. cbn [classify N.eqb Pos.eqb]. unfold F. cbn [add_node].
      rewrite rev_involutive. reflexivity.
    + change ([62] ++ flat_map (print encodeXmlText) kids ++ [60; 47] ++ n ++ [62])
        with (62 :: (flat_map (print encodeXmlText) kids ++ [60; 47] ++ n ++ [62])).
      cbn [run_sm]. rewrite (attrs_mode_gt (F :: S) R m' n _ Hm'). rewrite rev_involutive.
      rewrite run_sm_app.
      destruct (parses_kids kids Hk n (decA attrs) [] (F :: S) R [] 0%nat) as [b [Hb E3]]; [discriminate|].
      rewrite E3.
      set (st := fold_left (absorb erase) kids ([], [])).
      change ([60; 47] ++ n ++ [62]) with (60 :: 47 :: (n ++ [62])).
      cbn [run_sm]. rewrite open_lt. cbn [run_sm].
      assert (E4 : forall X, step (mk X R MLt) 47 = Some (mk X R (MCloseName []))) by reflexivity.
      rewrite E4, run_sm_app, close_name_chars by exact Hall. rewrite app_nil_r. cbn [run_sm].
      unfold step. cbn [p_mode p_stack p_root]. cbn [classify N.eqb Pos.eqb]. rewrite rev_involutive.
      unfold close_elem. rewrite bytes_eqb_refl. unfold F. cbn [add_node]. reflexivity.
Qed.
