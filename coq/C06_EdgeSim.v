(* C06 -- the edge language (C06_Edge.v: sizes at the edges of size_t, blocks far larger than a slot of the small arena)
   meets its oracle: forall valid scenarios, espec s (erun s) = true.  Simulation between the detector state and the
   property's own bookkeeping as in C06_Sim.v, with the geometry of the big arena (slots of 18 MiB, blocks up to 16 MiB + 4 KiB);
   the poison fill covers every user byte whatever the size; a realloc that fails leaves the block exactly as it was. *)
From Coq Require Import NArith List Bool Arith Lia.
From CppUVerif Require Import gen.Gen_Common gen.Gen_C06 lib.Str C04_Model C04_Lists C04_Table C06_Model C06_Proofs C06_Sim
  C06_Plug C06_PlugProofs C06_Edge.
Import ListNotations.
Local Open Scope N_scope.
Arguments pat : simpl never.
Arguments G : simpl never.
Arguments pattern : simpl never.
Arguments poison : simpl never.
Arguments leaves_room : simpl never.
Arguments fits : simpl never.

(* ------------------------------------------------------------------ (A) runs *)
Lemma surv_beyond_l : forall rs off lim, lim <= off -> surv rs off lim = (0, 0).
Proof.
  induction rs as [|[v c] r IH]; intros off lim H; [reflexivity|].
  cbn [surv]. cbv zeta. replace (lim - off) with 0 by lia. rewrite N.min_0_r, N.eqb_refl, orb_true_r.
  apply IH. lia.
Qed.
Lemma surv_poisoned_l : forall rs sz, surv (overlay poison sz rs) 0 sz = (0, 0).
Proof.
  intros rs sz. unfold overlay. cbn [surv]. cbv zeta. rewrite N.eqb_refl. cbn [orb]. apply surv_beyond_l. lia.
Qed.
Definition surv_beyond_stmt : Prop := forall rs off lim, lim <= off -> surv rs off lim = (0, 0).
Lemma surv_beyond : surv_beyond_stmt.
Proof. exact surv_beyond_l. Qed.
Definition surv_poisoned_stmt : Prop := forall rs sz, surv (overlay poison sz rs) 0 sz = (0, 0).
Lemma surv_poisoned : surv_poisoned_stmt.
Proof. exact surv_poisoned_l. Qed.

(* ------------------------------------------------------------------ geometry of the big arena *)
Lemma big_G_fits : big_max + N.of_nat G + 1 <= big_slot.
Proof. vm_compute. intro H. discriminate H. Qed.
Lemma big_addr_ok_spec a : big_addr_ok a = true -> big_base <= a /\ (a - big_base) mod big_slot = 0.
Proof. unfold big_addr_ok. rewrite !andb_true_iff, N.leb_le, N.eqb_eq. tauto. Qed.
Lemma big_sep a b : big_addr_ok a = true -> big_addr_ok b = true -> a <> b -> a + big_slot <= b \/ b + big_slot <= a.
Proof.
  intros Ha Hb Hn. apply big_addr_ok_spec in Ha. apply big_addr_ok_spec in Hb. destruct Ha as [La Ma]. destruct Hb as [Lb Mb].
  unfold big_slot in *.
  pose proof (N.div_mod (a - big_base) 18874368 ltac:(discriminate)) as D1.
  pose proof (N.div_mod (b - big_base) 18874368 ltac:(discriminate)) as D2.
  rewrite Ma in D1. rewrite Mb in D2.
  destruct (N.lt_trichotomy ((a - big_base) / 18874368) ((b - big_base) / 18874368)) as [L|[L|L]]; lia.
Qed.

(* ------------------------------------------------------------------ the relation *)
Definition big_ok (n : node) : Prop := big_addr_ok (n_addr n) = true /\ n_size n <= big_max.
Record RelE (ds : list adesc) (st : estate) (ss : sstate) : Prop := mkRelE {
  re_inv : Inv (s_tbl (e_d st));
  re_big : Forall big_ok (flat (s_tbl (e_d st)));
  re_tc : s_tc (e_d st) = ss_tc ss;
  re_find : forall a, find_blk a (ss_blks ss) = option_map (blk_of ds (e_d st)) (l_retrieve a (flat (s_tbl (e_d st))));
  re_len : length (ss_blks ss) = length (flat (s_tbl (e_d st)));
  re_nodup : NoDup (map b_addr (ss_blks ss)) }.

Lemma relE_init ds : RelE ds e_init ss_init.
Proof.
  assert (F : flat empty_table = []).
  { unfold flat, empty_table. induction nbuckets; cbn; auto. }
  constructor; cbn; rewrite ?F; try reflexivity.
  - apply inv_empty.
  - constructor.
  - constructor.
Qed.
(* the user bytes are not part of the relation *)
Lemma relE_ext ds st st' ss : e_d st' = e_d st -> RelE ds st ss -> RelE ds st' ss.
Proof. intros E [I SO Tc Fd Ln ND]. constructor; rewrite ?E; assumption. Qed.

Lemma big_agree l m a size : Forall big_ok l -> (forall k, In k l -> n_addr k <> a) -> big_addr_ok a = true -> size <= big_max ->
  guards_agree l (mwrite m (a + size) pattern) m.
Proof.
  intros SO Hne Ha Hs k i Hk Hi. apply mread_outside. rewrite pattern_length.
  rewrite Forall_forall in SO. destruct (SO k Hk) as [Mk Sk]. pose proof big_G_fits as GF.
  destruct (big_sep _ _ Mk Ha (Hne k Hk)) as [S|S]; [left|right]; lia.
Qed.

Lemma relE_alloc ds st ss a size al c : RelE ds st ss -> big_addr_ok a = true -> size <= big_max -> live a (ss_blks ss) = false ->
  RelE ds (mkE (d_store (e_d st) a size al) c) (add_blk ss a size (fam_of ds al)).
Proof.
  intros [I SO Tc Fd Ln ND] Ha Hs Hl. set (d := e_d st) in *.
  assert (Fn : find_blk a (ss_blks ss) = None) by (unfold live in Hl; destruct (find_blk a (ss_blks ss)); [discriminate|reflexivity]).
  assert (Ho : ~ outstanding d a).
  { unfold outstanding. apply retrieve_none. specialize (Fd a). rewrite Fn in Fd. destruct (l_retrieve a (flat (s_tbl d))); [discriminate|reflexivity]. }
  destruct (store_facts d a size al I Ho) as (I1 & R1 & In1 & L1 & Tc1 & M1).
  assert (Hne : forall k, In k (flat (s_tbl d)) -> n_addr k <> a).
  { intros k Hk E. apply Ho. unfold outstanding. rewrite <- E. apply in_map. assumption. }
  assert (Ag : guards_agree (flat (s_tbl d)) (s_mem (d_store d a size al)) (s_mem d)).
  { rewrite M1. apply big_agree; assumption. }
  constructor; unfold add_blk; cbn [e_d ss_blks ss_tc].
  - assumption.
  - rewrite Forall_forall. intros x Hx. apply In1 in Hx. destruct Hx as [->|Hx]; [split; assumption|].
    rewrite Forall_forall in SO. auto.
  - rewrite Tc1. assumption.
  - intros a'. cbn [find_blk b_addr]. rewrite R1. destruct (N.eqb_spec a a') as [<-|E].
    + cbn. f_equal. unfold blk_of. cbn [n_addr n_size mk_node]. f_equal.
      * unfold node_alloc. cbn. rewrite Nat2N.id. reflexivity.
      * rewrite M1. rewrite <- pattern_length. symmetry. apply mrange_written.
    + rewrite Fd. destruct (l_retrieve a' (flat (s_tbl d))) as [k|] eqn:Ek; [|reflexivity]. cbn. f_equal.
      destruct (retrieve_some _ _ _ Ek) as (A & B & EA & _).
      apply blk_of_ext. intros i Hi. symmetry. apply Ag; [|assumption]. rewrite EA. apply in_or_app. right. left. reflexivity.
  - cbn [length]. rewrite L1, Ln. reflexivity.
  - cbn [map b_addr]. constructor; [apply find_none_notin; assumption|assumption].
Qed.

Lemma relE_remove ds st ss a n t' c : RelE ds st ss ->
  l_retrieve a (flat (s_tbl (e_d st))) = Some n -> flat t' = rm a (flat (s_tbl (e_d st))) -> Inv t' ->
  RelE ds (mkE (with_tbl (e_d st) t') c) (release ss (Some a)).
Proof.
  intros [I SO Tc Fd Ln ND] E R I'. pose proof I as (_ & _ & NDn). set (d := e_d st) in *.
  constructor; cbn [e_d s_tbl s_tc s_mem with_tbl release ss_blks ss_tc].
  - assumption.
  - rewrite Forall_forall in *. intros x Hx. apply SO. rewrite R in Hx. eapply rm_incl. eassumption.
  - assumption.
  - intros a'. rewrite find_drop, R, retrieve_rm by assumption. destruct (a =? a'); [reflexivity|]. rewrite Fd. reflexivity.
  - rewrite R. pose proof (rm_length a _ n E) as L1.
    assert (Fb : find_blk a (ss_blks ss) = Some (blk_of ds d n)) by (rewrite Fd, E; reflexivity).
    pose proof (drop_length a _ _ ND Fb) as L2. lia.
  - apply nodup_drop. assumption.
Qed.
Lemma relE_release_none ds st ss a : RelE ds st ss -> l_retrieve a (flat (s_tbl (e_d st))) = None -> release ss (Some a) = ss.
Proof.
  intros [I SO Tc Fd Ln ND] E. unfold release. rewrite drop_none; [destruct ss; reflexivity|]. rewrite Fd, E. reflexivity.
Qed.
Lemma lookup_expect_e ds st ss al p : RelE ds st ss -> lookup_cat ds (e_d st) al p = expect ss (fam_of ds al) p.
Proof.
  intros [I SO Tc Fd Ln ND]. unfold lookup_cat, expect. destruct p as [a|]; [|reflexivity].
  rewrite Fd. destruct (l_retrieve a (flat (s_tbl (e_d st)))) as [n|]; [|reflexivity]. cbn [option_map].
  rewrite check_expect. unfold blk_of. cbn [b_fam b_guard]. rewrite Tc. reflexivity.
Qed.
Lemma total_relE ds st ss : RelE ds st ss -> (total_of (e_d st) =? N.of_nat (length (ss_blks ss))) = true.
Proof. intros RL. apply N.eqb_eq. unfold total_of. rewrite total_all. f_equal. symmetry. apply (re_len _ _ _ RL). Qed.
Lemma relE_tc ds st ss b : RelE ds st ss -> RelE ds (mkE (with_tc (e_d st) b) (e_c st)) (mkSS (ss_blks ss) b).
Proof. intros [I SO Tc Fd Ln ND]. constructor; cbn [e_d s_tbl s_tc s_mem with_tc ss_blks ss_tc]; auto. Qed.

Lemma afam_fam ds f al : afam ds f al = fam_of ds al.
Proof. destruct f; reflexivity. Qed.
Lemma rfam_fam ds f al : rfam ds f al = fam_of ds al.
Proof. destruct f; reflexivity. Qed.

(* ------------------------------------------------------------------ a record that is taken out and put back *)
Lemma reinsert_facts (d : dstate) a n t' : Inv (s_tbl d) -> l_retrieve a (flat (s_tbl d)) = Some n ->
  t_remove a (s_tbl d) = (Some n, t') ->
  Inv (t_add n t') /\
  (forall a', l_retrieve a' (flat (t_add n t')) = l_retrieve a' (flat (s_tbl d))) /\
  length (flat (t_add n t')) = length (flat (s_tbl d)) /\
  (forall x, In x (flat (t_add n t')) -> In x (flat (s_tbl d))).
Proof.
  intros I E TR. pose proof I as (_ & _ & ND).
  destruct (remove_cases a (s_tbl d) I) as [(E0 & _)|(n' & E' & Ha & Hin & F & R & I' & Hout)]; [congruence|].
  rewrite E in E'. inversion E'; subst n'. clear E'. rewrite TR in F, R, I', Hout. cbn [fst snd] in F, R, I', Hout.
  assert (Hn : ~ In (n_addr n) (addrs (flat t'))) by (rewrite Ha; exact Hout).
  destruct (add_flat n t' I' Hn) as (I2 & A & B & EF & EF2).
  split; [assumption|]. split; [|split].
  - intros a'. rewrite EF2. rewrite retrieve_insert by (rewrite <- EF; exact Hn).
    rewrite <- EF, R, retrieve_rm by assumption. rewrite Ha.
    destruct (N.eqb_spec a a') as [<-|Hne]; [symmetry; exact E|reflexivity].
  - pose proof (rm_length a _ n E) as L1. rewrite <- R, EF in L1. rewrite EF2. rewrite app_length in *. cbn [length]. lia.
  - intros x Hx. rewrite EF2 in Hx. apply in_app_iff in Hx. cbn [In] in Hx.
    assert (HAB : In x (A ++ B) -> In x (flat (s_tbl d))).
    { intros H. rewrite <- EF, R in H. eapply rm_incl. eassumption. }
    destruct Hx as [Hx|[<-|Hx]]; [apply HAB, in_or_app; left; assumption | assumption | apply HAB, in_or_app; right; assumption].
Qed.

Lemma relE_reinsert ds st ss a n t' : RelE ds st ss -> l_retrieve a (flat (s_tbl (e_d st))) = Some n ->
  t_remove a (s_tbl (e_d st)) = (Some n, t') ->
  RelE ds (mkE (with_tbl (with_tbl (e_d st) t') (t_add n t')) (e_c st)) ss.
Proof.
  intros [I SO Tc Fd Ln ND] E TR. destruct (reinsert_facts (e_d st) a n t' I E TR) as (I2 & R2 & L2 & In2).
  constructor; cbn [e_d s_tbl s_tc s_mem with_tbl].
  - assumption.
  - rewrite Forall_forall in *. intros x Hx. apply SO. apply In2. assumption.
  - assumption.
  - intros a'. rewrite R2, Fd. reflexivity.
  - rewrite L2. assumption.
  - assumption.
Qed.

(* ------------------------------------------------------------------ the shapes of the operations *)
Lemma granted_spec size : granted size = leaves_room size && fits size.
Proof. reflexivity. Qed.
Lemma fits_le size : fits size = true -> size <= big_max.
Proof. unfold fits. apply N.leb_le. Qed.
Lemma e_alloc_granted st al a size : e_alloc st al a size =
  if granted size then (mkE (d_store (e_d st) a size al) (c_set (e_c st) a [(fill_alloc, size)]), true) else (st, false).
Proof. unfold e_alloc, granted. destruct (leaves_room size), (fits size); reflexivity. Qed.
Lemma e_realloc_noroom ds jump st al p na size : leaves_room size = false -> e_realloc ds jump st al p na size = (st, CNone, false).
Proof. intros H. unfold e_realloc. rewrite H. reflexivity. Qed.
Lemma e_realloc_room ds jump st al p na size : leaves_room size = true ->
  e_realloc ds jump st al p na size =
    match p with
    | None => if fits size then (mkE (d_store (e_d st) na size al) (c_set (e_c st) na [(fill_realloc, size)]), CNone, true)
              else (st, CNone, false)
    | Some a =>
        match t_remove a (s_tbl (e_d st)) with
        | (None, _) => (st, CNonAlloc, false)
        | (Some n, t') =>
            let d' := with_tbl (e_d st) t' in
            let c := check ds d' n al in
            if (match c with CNone => false | _ => jump end) then (mkE d' (e_c st), c, false)
            else if fits size then (mkE (d_store d' na size al) (c_set (e_c st) na [(fill_realloc, size)]), c, true)
            else (mkE (with_tbl d' (t_add n t')) (e_c st), c, false)
        end
    end.
Proof. intros H. unfold e_realloc. rewrite H. reflexivity. Qed.
Lemma estep_realloc ds jump st al p na size st2 c res : e_realloc ds jump st al p na size = (st2, c, res) ->
  e_step ds jump st (ERealloc al p na size) = (st2, Some (mkEI (calls_of c) (cat_code c) [] (total_of (e_d st2)) res)).
Proof. intros H. unfold e_step. rewrite H. reflexivity. Qed.
Lemma invalidate_d st p : e_d (e_invalidate st p) = e_d st.
Proof. unfold e_invalidate. destruct p as [a|]; [|reflexivity]. destruct (t_retrieve a (s_tbl (e_d st))); reflexivity. Qed.
Lemma estep_free ds jump st f al p d2 c fr : d_dealloc ds jump (e_d st) al p = (d2, c, fr) ->
  e_step ds jump st (EFree f al p) =
    (mkE d2 (e_c (e_invalidate st p)),
     Some (mkEI (calls_of c) (cat_code c) (e_seen (e_c (e_invalidate st p)) fr) (total_of d2) false)).
Proof. intros H. unfold e_step. cbv zeta. rewrite invalidate_d, H. reflexivity. Qed.
Lemma efree_some ds jump st f al p : exists st2 x, e_step ds jump st (EFree f al p) = (st2, Some x).
Proof.
  destruct (d_dealloc ds jump (e_d st) al p) as [[d2 c] fr] eqn:H. rewrite (estep_free _ _ _ f _ _ _ _ _ H).
  eexists. eexists. reflexivity.
Qed.
Lemma invalidate_surv st a n : Inv (s_tbl (e_d st)) -> l_retrieve a (flat (s_tbl (e_d st))) = Some n ->
  surv (c_get (e_c (e_invalidate st (Some a))) a) 0 (n_size n) = (0, 0).
Proof.
  intros I E. unfold e_invalidate. rewrite (retrieve_flat _ _ I), E. cbn [e_c c_set c_get]. rewrite N.eqb_refl.
  apply surv_poisoned_l.
Qed.
Lemma seen_clean C a sz : surv (c_get C a) 0 sz = (0, 0) -> forall fr, (forall y, In y fr -> y = (a, sz)) ->
  no_survivor a (e_seen C fr) = true /\ (forall y, In y (e_seen C fr) -> y = (a, (0, 0))).
Proof.
  intros S. induction fr as [|y r IH]; intros H; [split; [reflexivity|intros y []]|].
  assert (Ey : y = (a, sz)) by (apply H; left; reflexivity). subst y.
  destruct IH as [IH1 IH2]; [intros y Hy; apply H; right; assumption|].
  unfold no_survivor, e_seen in *. cbn [map forallb fst snd]. rewrite S. cbn [fst]. rewrite N.eqb_refl, orb_true_r. cbn [andb].
  split; [assumption|]. intros y [<-|Hy]; [reflexivity|apply IH2; assumption].
Qed.
Lemma item_ok ds st2 ss' c fr res : RelE ds st2 ss' ->
  verdict_ok (mkEI (calls_of c) (cat_code c) fr (total_of (e_d st2)) res) c &&
  total_ok (mkEI (calls_of c) (cat_code c) fr (total_of (e_d st2)) res) ss' = true.
Proof.
  intros RL. unfold verdict_ok, total_ok. cbn [x_cat x_calls x_total]. rewrite !N.eqb_refl, (total_relE _ _ _ RL). reflexivity.
Qed.

(* ------------------------------------------------------------------ (B) every user byte is poison when the block is handed back *)
Definition C06_all_user_bytes_poisoned_stmt : Prop :=
  forall ds jump st f al a n st2 x,
    Inv (s_tbl (e_d st)) -> l_retrieve a (flat (s_tbl (e_d st))) = Some n ->
    e_step ds jump st (EFree f al (Some a)) = (st2, Some x) ->
    surv (c_get (e_c (e_invalidate st (Some a))) a) 0 (n_size n) = (0, 0) /\
    no_survivor a (x_freed x) = true /\
    (forall y, In y (x_freed x) -> y = (a, (0, 0))) /\
    ~ In a (addrs (flat (s_tbl (e_d st2)))).
Lemma free_fr_shape (c : cat) (jump : bool) (a sz : N) :
  forall y : N * N, In y (match c with CNone => [(a, sz)] | _ => if jump then [] else [(a, sz)] end) -> y = (a, sz).
Proof. intros y H. destruct c, jump; cbn in H; try contradiction; (destruct H as [H|H]; [symmetry; exact H|contradiction]). Qed.
Lemma all_user_bytes_poisoned : C06_all_user_bytes_poisoned_stmt.
Proof.
  intros ds jump st f al a n st2 x I E Hs.
  pose proof (invalidate_surv st a n I E) as S. split; [exact S|].
  destruct (remove_cases a (s_tbl (e_d st)) I) as [(E0 & _)|(n' & E' & Ha & Hin & F & R & I' & Hout)]; [congruence|].
  rewrite E in E'. inversion E'; subst n'. clear E'.
  destruct (t_remove a (s_tbl (e_d st))) as [r t'] eqn:TR. cbn [fst snd] in F, R, I', Hout. subst r.
  pose proof (dealloc_shape ds jump (e_d st) al a n t' I E TR) as DS. cbv zeta in DS.
  rewrite (estep_free _ _ _ f _ _ _ _ _ DS) in Hs. inversion Hs; subst st2 x. clear Hs.
  cbn [x_freed e_d s_tbl with_tbl].
  destruct (seen_clean (e_c (e_invalidate st (Some a))) a (n_size n) S _ (free_fr_shape (check ds (e_d st) n al) jump a (n_size n)))
    as [S1 S2].
  split; [exact S1|]. split; [exact S2|exact Hout].
Qed.

(* ------------------------------------------------------------------ (C) a realloc that cannot be granted *)
Definition C06_failed_realloc_keeps_block_stmt : Prop :=
  forall ds jump st al a n na size,
    Inv (s_tbl (e_d st)) -> l_retrieve a (flat (s_tbl (e_d st))) = Some n ->
    granted size = false -> check ds (e_d st) n al = CNone ->
    exists st2, e_realloc ds jump st al (Some a) na size = (st2, CNone, false) /\
      Inv (s_tbl (e_d st2)) /\
      (forall a', l_retrieve a' (flat (s_tbl (e_d st2))) = l_retrieve a' (flat (s_tbl (e_d st)))) /\
      length (flat (s_tbl (e_d st2))) = length (flat (s_tbl (e_d st))) /\
      s_mem (e_d st2) = s_mem (e_d st) /\ s_tc (e_d st2) = s_tc (e_d st) /\ e_c st2 = e_c st /\
      (forall al' p, lookup_cat ds (e_d st2) al' p = lookup_cat ds (e_d st) al' p).
Lemma failed_realloc_keeps_block : C06_failed_realloc_keeps_block_stmt.
Proof.
  intros ds jump st al a n na size I E Gr Ck.
  destruct (leaves_room size) eqn:LR.
  2:{ exists st. split; [apply e_realloc_noroom; exact LR|]. split; [exact I|]. split; [reflexivity|]. split; [reflexivity|].
      split; [reflexivity|]. split; [reflexivity|]. split; reflexivity. }
  assert (FT : fits size = false) by (unfold granted in Gr; rewrite LR in Gr; exact Gr).
  destruct (remove_cases a (s_tbl (e_d st)) I) as [(E0 & _)|(n' & E' & Ha & Hin & F & R & I' & Hout)]; [congruence|].
  rewrite E in E'. inversion E'; subst n'. clear E'.
  destruct (t_remove a (s_tbl (e_d st))) as [r t'] eqn:TR. cbn [fst snd] in F, R, I', Hout. subst r.
  destruct (reinsert_facts (e_d st) a n t' I E TR) as (I2 & R2 & L2 & In2).
  exists (mkE (with_tbl (with_tbl (e_d st) t') (t_add n t')) (e_c st)).
  split.
  { rewrite e_realloc_room by exact LR. rewrite TR. cbv zeta.
    change (check ds (with_tbl (e_d st) t') n al) with (check ds (e_d st) n al). rewrite Ck, FT. reflexivity. }
  cbn [e_d e_c s_tbl s_mem s_tc with_tbl].
  split; [exact I2|]. split; [exact R2|]. split; [exact L2|]. split; [reflexivity|]. split; [reflexivity|]. split; [reflexivity|].
  intros al' p. unfold lookup_cat. destruct p as [q|]; [|reflexivity]. cbn [s_tbl with_tbl]. rewrite R2. reflexivity.
Qed.

(* ------------------------------------------------------------------ (D) one operation *)
Lemma ealloc_step ds jump st ss f al a size : RelE ds st ss ->
  big_addr_ok a = true -> live a (ss_blks ss) = false ->
  exists st2 x, e_step ds jump st (EAlloc f al a size) = (st2, Some x) /\
    let ss' := if x_res x then add_blk ss a size (afam ds f al) else ss in
    RelE ds st2 ss' /\ verdict_ok x CNone && total_ok x ss' = true /\ ss' = ea_step ds jump ss (EAlloc f al a size).
Proof.
  intros RL Ha Hl. unfold e_step, ea_step. rewrite e_alloc_granted, afam_fam.
  destruct (granted size) eqn:Gr.
  - eexists. eexists. split; [reflexivity|]. cbv zeta. cbn [x_res].
    assert (RL2 : RelE ds (mkE (d_store (e_d st) a size al) (c_set (e_c st) a [(fill_alloc, size)])) (add_blk ss a size (fam_of ds al))).
    { apply relE_alloc; try assumption. apply fits_le. unfold granted in Gr. apply andb_true_iff in Gr. tauto. }
    split; [exact RL2|]. split; [|reflexivity].
    apply (item_ok ds _ _ CNone [] true RL2).
  - eexists. eexists. split; [reflexivity|]. cbv zeta. cbn [x_res].
    split; [exact RL|]. split; [|reflexivity]. apply (item_ok ds _ _ CNone [] false RL).
Qed.

Lemma efree_step ds jump st ss f al p : RelE ds st ss ->
  exists st2 x, e_step ds jump st (EFree f al p) = (st2, Some x) /\
    RelE ds st2 (release ss p) /\
    verdict_ok x (expect ss (rfam ds f al) p) && total_ok x (release ss p) &&
    match p, size_at ss p with Some a, Some _ => no_survivor a (x_freed x) | _, _ => true end = true.
Proof.
  intros RL. pose proof RL as [I SO Tc Fd Ln ND]. rewrite rfam_fam. rewrite <- (lookup_expect_e ds st ss al p RL).
  destruct p as [a|].
  - destruct (l_retrieve a (flat (s_tbl (e_d st)))) as [n|] eqn:E.
    + destruct (remove_cases a (s_tbl (e_d st)) I) as [(E0 & _)|(n' & E' & Ha & Hin & F & R & I' & Hout)]; [congruence|].
      rewrite E in E'. inversion E'; subst n'. clear E'.
      destruct (t_remove a (s_tbl (e_d st))) as [r t'] eqn:TR. cbn [fst snd] in F, R, I', Hout. subst r.
      pose proof (dealloc_shape ds jump (e_d st) al a n t' I E TR) as DS. cbv zeta in DS.
      eexists. eexists. split; [apply (estep_free _ _ _ f _ _ _ _ _ DS)|].
      assert (RL2 : RelE ds (mkE (with_tbl (e_d st) t') (e_c (e_invalidate st (Some a)))) (release ss (Some a)))
        by (eapply relE_remove; eassumption).
      split; [exact RL2|].
      assert (Lk : lookup_cat ds (e_d st) al (Some a) = check ds (e_d st) n al) by (unfold lookup_cat; rewrite E; reflexivity).
      rewrite Lk.
      pose proof (item_ok ds _ _ (check ds (e_d st) n al)
                    (e_seen (e_c (e_invalidate st (Some a)))
                       (match check ds (e_d st) n al with CNone => [(a, n_size n)] | _ => if jump then [] else [(a, n_size n)] end))
                    false RL2) as IO.
      cbn [e_d] in IO. rewrite IO. cbn [andb].
      assert (Sz : size_at ss (Some a) = Some (n_size n)) by (unfold size_at; rewrite Fd, E; reflexivity).
      rewrite Sz. cbn [x_freed].
      apply (seen_clean _ a (n_size n) (invalidate_surv st a n I E) _ (free_fr_shape (check ds (e_d st) n al) jump a (n_size n))).
    + destruct (remove_cases a (s_tbl (e_d st)) I) as [(E0 & Hn & F)|(n' & E' & _)]; [|congruence].
      assert (DS : d_dealloc ds jump (e_d st) al (Some a) = (e_d st, CNonAlloc, [])).
      { unfold d_dealloc. destruct (t_remove a (s_tbl (e_d st))) as [r t'] eqn:TR. cbn [fst] in F. subst r. reflexivity. }
      eexists. eexists. split; [apply (estep_free _ _ _ f _ _ _ _ _ DS)|].
      rewrite (relE_release_none ds st ss a RL E).
      assert (RL2 : RelE ds (mkE (e_d st) (e_c (e_invalidate st (Some a)))) ss) by (eapply relE_ext; [|exact RL]; reflexivity).
      split; [exact RL2|].
      assert (Lk : lookup_cat ds (e_d st) al (Some a) = CNonAlloc) by (unfold lookup_cat; rewrite E; reflexivity).
      rewrite Lk. pose proof (item_ok ds _ _ CNonAlloc (e_seen (e_c (e_invalidate st (Some a))) []) false RL2) as IO.
      cbn [e_d] in IO. rewrite IO. cbn [andb]. unfold size_at. rewrite Fd, E. reflexivity.
  - assert (DS : d_dealloc ds jump (e_d st) al None = (e_d st, CNone, [])) by reflexivity.
    eexists. eexists. split; [apply (estep_free _ _ _ f _ _ _ _ _ DS)|].
    cbn [release e_invalidate lookup_cat].
    assert (RL2 : RelE ds (mkE (e_d st) (e_c st)) ss) by (eapply relE_ext; [|exact RL]; reflexivity).
    split; [exact RL2|].
    pose proof (item_ok ds _ _ CNone (e_seen (e_c st) []) false RL2) as IO. cbn [e_d] in IO. rewrite IO. reflexivity.
Qed.

Lemma erealloc_step ds jump st ss al p na size : RelE ds st ss ->
  big_addr_ok na = true -> live na (ss_blks (release ss p)) = false ->
  granted size || cat_eqb (expect ss (fam_of ds al) p) CNone = true ->
  exists st2 x, e_step ds jump st (ERealloc al p na size) = (st2, Some x) /\
    let ss' := if x_res x then add_blk (release ss p) na size (fam_of ds al)
               else match expect ss (fam_of ds al) p with CNone => ss | _ => release ss p end in
    RelE ds st2 ss' /\ verdict_ok x (expect ss (fam_of ds al) p) && total_ok x ss' = true /\
    ss' = ea_step ds jump ss (ERealloc al p na size).
Proof.
  intros RL Hna Hl Hv. pose proof RL as [I SO Tc Fd Ln ND].
  pose proof (lookup_expect_e ds st ss al p RL) as LE.
  unfold ea_step. change (family ds EMalloc al) with (fam_of ds al). cbv zeta.
  remember (expect ss (fam_of ds al) p) as cs eqn:Hcs.
  unfold granted in *.
  destruct (leaves_room size) eqn:LR.
  2:{ cbn [andb orb] in *. assert (Ec : cs = CNone) by (destruct cs; try discriminate; reflexivity). subst cs. rewrite Ec.
      eexists. eexists. split; [apply estep_realloc; apply e_realloc_noroom; exact LR|].
      cbn [x_res]. split; [exact RL|]. split; [apply (item_ok ds); exact RL|reflexivity]. }
  cbn [andb] in *.
  destruct p as [a|].
  - destruct (l_retrieve a (flat (s_tbl (e_d st)))) as [n|] eqn:E.
    + destruct (remove_cases a (s_tbl (e_d st)) I) as [(E0 & _)|(n' & E' & Ha & Hin & F & R & I' & Hout)]; [congruence|].
      rewrite E in E'. inversion E'; subst n'. clear E'.
      destruct (t_remove a (s_tbl (e_d st))) as [r t'] eqn:TR. cbn [fst snd] in F, R, I', Hout. subst r.
      unfold lookup_cat in LE. rewrite E in LE.
      assert (Nn : cs <> CNonAlloc) by (rewrite <- LE; apply (check_exact ds (e_d st) n al)).
      assert (RL1 : RelE ds (mkE (with_tbl (e_d st) t') (e_c st)) (release ss (Some a))) by (eapply relE_remove; eassumption).
      assert (ER : e_realloc ds jump st al (Some a) na size =
                   if (match cs with CNone => false | _ => jump end) then (mkE (with_tbl (e_d st) t') (e_c st), cs, false)
                   else if fits size
                        then (mkE (d_store (with_tbl (e_d st) t') na size al) (c_set (e_c st) na [(fill_realloc, size)]), cs, true)
                        else (mkE (with_tbl (with_tbl (e_d st) t') (t_add n t')) (e_c st), cs, false)).
      { rewrite e_realloc_room by exact LR. rewrite TR. cbv zeta.
        change (check ds (with_tbl (e_d st) t') n al) with (check ds (e_d st) n al). rewrite LE. reflexivity. }
      assert (RLs : fits size = true ->
                    RelE ds (mkE (d_store (with_tbl (e_d st) t') na size al) (c_set (e_c st) na [(fill_realloc, size)]))
                         (add_blk (release ss (Some a)) na size (fam_of ds al))).
      { intros FT. apply (relE_alloc ds (mkE (with_tbl (e_d st) t') (e_c st))); try assumption. apply fits_le. exact FT. }
      clear Hcs.
      destruct cs; [|contradiction| |].
      * (* no report *)
        destruct (fits size) eqn:FT.
        -- eexists. eexists. split; [apply estep_realloc; exact ER|]. cbn [x_res].
           split; [apply RLs; reflexivity|]. split; [apply (item_ok ds); apply RLs; reflexivity|reflexivity].
        -- eexists. eexists. split; [apply estep_realloc; exact ER|]. cbn [x_res].
           assert (RLr : RelE ds (mkE (with_tbl (with_tbl (e_d st) t') (t_add n t')) (e_c st)) ss) by (eapply relE_reinsert; eassumption).
           split; [exact RLr|]. split; [apply (item_ok ds); exact RLr|reflexivity].
      * (* mismatch: the request was one that can be granted *)
        cbn [cat_eqb] in Hv. rewrite orb_false_r in Hv. rewrite Hv in *.
        destruct jump; (eexists; eexists; split; [apply estep_realloc; exact ER|]); cbn [x_res negb].
        -- split; [exact RL1|]. split; [apply (item_ok ds); exact RL1|reflexivity].
        -- split; [apply RLs; reflexivity|]. split; [apply (item_ok ds); apply RLs; reflexivity|reflexivity].
      * cbn [cat_eqb] in Hv. rewrite orb_false_r in Hv. rewrite Hv in *.
        destruct jump; (eexists; eexists; split; [apply estep_realloc; exact ER|]); cbn [x_res negb].
        -- split; [exact RL1|]. split; [apply (item_ok ds); exact RL1|reflexivity].
        -- split; [apply RLs; reflexivity|]. split; [apply (item_ok ds); apply RLs; reflexivity|reflexivity].
    + destruct (remove_cases a (s_tbl (e_d st)) I) as [(E0 & Hn & F)|(n' & E' & _)]; [|congruence].
      unfold lookup_cat in LE. rewrite E in LE. subst cs. rewrite <- LE in *.
      cbn [cat_eqb] in Hv. rewrite orb_false_r in Hv. rewrite Hv.
      assert (ER : e_realloc ds jump st al (Some a) na size = (st, CNonAlloc, false)).
      { rewrite e_realloc_room by exact LR. destruct (t_remove a (s_tbl (e_d st))) as [r t'] eqn:TR. cbn [fst] in F. subst r. reflexivity. }
      eexists. eexists. split; [apply estep_realloc; exact ER|]. cbn [x_res].
      rewrite (relE_release_none ds st ss a RL E).
      split; [exact RL|]. split; [apply (item_ok ds); exact RL|reflexivity].
  - cbn [lookup_cat] in LE. subst cs. rewrite <- LE in *. cbn [release] in *.
    destruct (fits size) eqn:FT.
    + assert (ER : e_realloc ds jump st al None na size =
                   (mkE (d_store (e_d st) na size al) (c_set (e_c st) na [(fill_realloc, size)]), CNone, true)).
      { rewrite e_realloc_room by exact LR. rewrite FT. reflexivity. }
      assert (RLs : RelE ds (mkE (d_store (e_d st) na size al) (c_set (e_c st) na [(fill_realloc, size)])) (add_blk ss na size (fam_of ds al))).
      { apply relE_alloc; try assumption. apply fits_le. exact FT. }
      eexists. eexists. split; [apply estep_realloc; exact ER|]. cbn [x_res].
      split; [exact RLs|]. split; [apply (item_ok ds); exact RLs|reflexivity].
    + assert (ER : e_realloc ds jump st al None na size = (st, CNone, false)).
      { rewrite e_realloc_room by exact LR. rewrite FT. reflexivity. }
      eexists. eexists. split; [apply estep_realloc; exact ER|]. cbn [x_res].
      split; [exact RL|]. split; [apply (item_ok ds); exact RL|reflexivity].
Qed.

(* ------------------------------------------------------------------ (D) the theorem *)
Lemma erun_spec ds jump : forall ops st ss, RelE ds st ss -> evalid_from ds jump ss ops = true ->
  espec_from ds ss ops (erun_from ds jump st ops) = true.
Proof.
  induction ops as [|o r IH]; intros st ss RL V; [reflexivity|].
  cbn [evalid_from] in V. apply andb_true_iff in V. destruct V as [Vo Vr].
  destruct o as [f al a size|f al p|al p na size|b].
  - cbn [eop_ok] in Vo. rewrite !andb_true_iff, negb_true_iff in Vo. destruct Vo as [[[[_ _] Ha] _] Hl].
    destruct (ealloc_step ds jump st ss f al a size RL Ha Hl) as (st2 & x & Hs & RL2 & CR & EA). cbv zeta in RL2, CR, EA.
    cbn [erun_from]. rewrite Hs. cbn [espec_from]. rewrite CR. cbn [andb]. apply IH; [assumption|]. rewrite EA. exact Vr.
  - destruct (efree_step ds jump st ss f al p RL) as (st2 & x & Hs & RL2 & CR).
    cbn [erun_from]. rewrite Hs. cbn [espec_from]. rewrite CR. cbn [andb]. apply IH; assumption.
  - cbn [eop_ok] in Vo. rewrite !andb_true_iff, negb_true_iff in Vo. destruct Vo as [[[[[_ _] Hna] _] Hl] Hv].
    change (family ds EMalloc al) with (fam_of ds al) in Hv.
    destruct (erealloc_step ds jump st ss al p na size RL Hna Hl Hv) as (st2 & x & Hs & RL2 & CR & EA). cbv zeta in RL2, CR, EA.
    cbn [erun_from]. rewrite Hs. cbn [espec_from]. change (family ds EMalloc al) with (fam_of ds al).
    rewrite CR. cbn [andb]. apply IH; [assumption|]. rewrite EA. exact Vr.
  - cbn [erun_from e_step espec_from]. apply IH; [|exact Vr]. apply relE_tc. assumption.
Qed.

Definition C06_erun_meets_espec_stmt : Prop := forall s, evalid s = true -> espec s (erun s) = true.
Lemma erun_meets_espec : C06_erun_meets_espec_stmt.
Proof.
  intros s V. unfold evalid in V. apply andb_true_iff in V. destruct V as [_ V].
  unfold espec, erun. apply erun_spec; [apply relE_init|assumption].
Qed.

Definition C06_yrun_meets_yspec_stmt : Prop := forall s, yvalid s = true -> yspec s (yrun s) = true.
Lemma yrun_meets_yspec : C06_yrun_meets_yspec_stmt.
Proof.
  intros [p|e] V; cbn [yvalid yrun yspec] in *.
  - apply prun_meets_spec. exact V.
  - apply erun_meets_espec. exact V.
Qed.

(* ------------------------------------------------------------------ the hypotheses can be met: a block of 1 MiB + 1 byte *)
Definition ex_ds : list adesc := [APlain [110]].
Definition ex_st : estate := fst (e_alloc e_init 0 big_base 1048577).
Lemma ex_st_store : ex_st = mkE (d_store d_init big_base 1048577 0) (c_set [] big_base [(fill_alloc, 1048577)]).
Proof. vm_compute. reflexivity. Qed.
Lemma ex_inv : Inv (s_tbl (e_d ex_st)).
Proof.
  rewrite ex_st_store. cbn [e_d].
  assert (F : flat empty_table = []) by (unfold flat, empty_table; induction nbuckets; cbn; auto).
  apply (store_facts d_init big_base 1048577 0 inv_empty).
  unfold outstanding. cbn [d_init s_tbl]. rewrite F. intros [].
Qed.
Lemma ex_tracked : exists n, l_retrieve big_base (flat (s_tbl (e_d ex_st))) = Some n /\ n_size n = 1048577.
Proof. eexists. split; vm_compute; reflexivity. Qed.

Example ex_all_user_bytes_poisoned :
  exists n st2 x,
    Inv (s_tbl (e_d ex_st)) /\ l_retrieve big_base (flat (s_tbl (e_d ex_st))) = Some n /\ n_size n = 1048577 /\
    e_step ex_ds false ex_st (EFree RFree 0 (Some big_base)) = (st2, Some x) /\
    surv (c_get (e_c (e_invalidate ex_st (Some big_base))) big_base) 0 1048577 = (0, 0) /\
    no_survivor big_base (x_freed x) = true /\
    (forall y, In y (x_freed x) -> y = (big_base, (0, 0))) /\
    ~ In big_base (addrs (flat (s_tbl (e_d st2)))) /\
    x_freed x = [(big_base, (0, 0))] /\ x_cat x = 0.
Proof.
  destruct ex_tracked as (n & E & Sz).
  destruct (efree_some ex_ds false ex_st RFree 0 (Some big_base)) as (st2 & x & Hs).
  exists n, st2, x.
  destruct (all_user_bytes_poisoned ex_ds false ex_st RFree 0%nat big_base n st2 x ex_inv E Hs) as (P1 & P2 & P3 & P4).
  rewrite Sz in P1.
  split; [exact ex_inv|]. split; [exact E|]. split; [exact Sz|]. split; [exact Hs|].
  split; [exact P1|]. split; [exact P2|]. split; [exact P3|]. split; [exact P4|].
  vm_compute in Hs. inversion Hs. split; reflexivity.
Qed.

Example ex_failed_realloc_keeps_block :
  let size := 2 ^ 64 - 1 in
  exists n st2,
    Inv (s_tbl (e_d ex_st)) /\ l_retrieve big_base (flat (s_tbl (e_d ex_st))) = Some n /\
    granted size = false /\ check ex_ds (e_d ex_st) n 0 = CNone /\
    e_realloc ex_ds false ex_st 0 (Some big_base) (big_base + big_slot) size = (st2, CNone, false) /\
    Inv (s_tbl (e_d st2)) /\
    (forall a', l_retrieve a' (flat (s_tbl (e_d st2))) = l_retrieve a' (flat (s_tbl (e_d ex_st)))) /\
    length (flat (s_tbl (e_d st2))) = 1%nat /\
    s_mem (e_d st2) = s_mem (e_d ex_st) /\ e_c st2 = e_c ex_st /\
    lookup_cat ex_ds (e_d st2) 0 (Some big_base) = CNone.
Proof.
  intros size. destruct ex_tracked as (n & E & Sz).
  assert (Gr : granted size = false) by (vm_compute; reflexivity).
  assert (Ck : check ex_ds (e_d ex_st) n 0 = CNone).
  { assert (H : lookup_cat ex_ds (e_d ex_st) 0 (Some big_base) = CNone) by (vm_compute; reflexivity).
    unfold lookup_cat in H. rewrite E in H. exact H. }
  destruct (failed_realloc_keeps_block ex_ds false ex_st 0%nat big_base n (big_base + big_slot) size ex_inv E Gr Ck)
    as (st2 & ER & I2 & R2 & L2 & M2 & T2 & C2 & K2).
  exists n, st2.
  split; [exact ex_inv|]. split; [exact E|]. split; [exact Gr|]. split; [exact Ck|]. split; [exact ER|].
  split; [exact I2|]. split; [exact R2|]. split; [rewrite L2; vm_compute; reflexivity|]. split; [exact M2|]. split; [exact C2|].
  rewrite K2. unfold lookup_cat. rewrite E. exact Ck.
Qed.

(* a whole scenario of the edge language: a request beyond the bound, a 16 MiB block, a realloc that cannot be granted, the release *)
Definition ex_edge : escenario :=
  mkES false ex_ds
    [EAlloc AMalloc 0 big_base (2 ^ 64 - 1);
     EAlloc ANew 0 big_base 16777216;
     ERealloc 0 (Some big_base) (big_base + big_slot) (2 ^ 64 - 80);
     EFree RFree 0 (Some big_base);
     EFree RDel 0 (Some big_base)].
Example ex_edge_valid : evalid ex_edge = true /\ espec ex_edge (erun ex_edge) = true.
Proof. split; [vm_compute; reflexivity|]. apply erun_meets_espec. vm_compute. reflexivity. Qed.
