From Coq Require Import ExtrOcamlBasic ZArith.
From CppUVerif Require Import C06_Model C06_Plug.
Extraction "c06_model.ml" C06_Plug.prun C06_Plug.pspec C06_Plug.pvalid BinInt.Z.of_N.
