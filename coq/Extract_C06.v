From Coq Require Import ExtrOcamlBasic ZArith.
From CppUVerif Require Import C06_Model.
Extraction "c06_model.ml" C06_Model.run C06_Model.spec C06_Model.valid BinInt.Z.of_N.
