From Coq Require Import ExtrOcamlBasic ZArith.
From CppUVerif Require Import C06_Model C06_Plug C06_Edge.
Extraction "c06_model.ml" C06_Plug.prun C06_Plug.pspec C06_Plug.pvalid C06_Edge.erun C06_Edge.espec C06_Edge.evalid C06_Edge.yrun C06_Edge.yspec C06_Edge.yvalid BinInt.Z.of_N.
