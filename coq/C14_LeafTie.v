(* C14: the SimpleStringBuffer state machine of the model is EQUAL to the methods tools/cxx2coq.py regenerates from /repo's
   MemoryLeakDetector.cpp on every run (gen/Gen_Leaf.v), read as state transformers over (positions_filled_, write_limit_):
   add (with the size handed to vsnprintf), clear, setWriteLimit, resetWriteLimit, reachedItsCapacity. *)
From Coq Require Import ZArith NArith Bool List Lia String.
From CppUVerif Require Import lib.CSem gen.Gen_Common gen.Gen_LeafC14 C14_Model.
Import ListNotations.
Local Open Scope Z_scope.

Lemma cw64 x : cw 64 false x = x mod 18446744073709551616.
Proof. unfold cw. cbn [andb]. reflexivity. Qed.
Lemma buf_len_val : buf_len = 4096%N. Proof. reflexivity. Qed.
Lemma lim_const : cw 64 false (cw 32 true (4096 - 1)) = 4095. Proof. reflexivity. Qed.

Lemma tie_reached b : leaf_buf_reachedItsCapacity (Z.of_N (filled b)) (Z.of_N (limit b)) = b2z (reached_capacity b).
Proof.
  unfold leaf_buf_reachedItsCapacity, reached_capacity, c_ge. f_equal.
  destruct (Z.leb_spec (Z.of_N (limit b)) (Z.of_N (filled b))); destruct (N.leb_spec (limit b) (filled b)); try reflexivity; lia.
Qed.

Lemma tie_set_limit b l : (l < 18446744073709551616)%N ->
  leaf_buf_setWriteLimit (Z.of_N l) (Z.of_N (limit b)) = ([], Z.of_N (limit (set_limit b l))).
Proof.
  intro Hl. unfold leaf_buf_setWriteLimit, set_limit. cbn [limit]. rewrite lim_const, buf_len_val.
  unfold c_gt, z2b, b2z. change (4096 - 1)%N with 4095%N.
  destruct (Z.ltb_spec 4095 (Z.of_N l)); destruct (N.ltb_spec 4095 l); cbn; try reflexivity; lia.
Qed.

Lemma tie_reset_limit b : leaf_buf_resetWriteLimit (Z.of_N (limit b)) = ([], Z.of_N (limit (reset_limit b))).
Proof. unfold leaf_buf_resetWriteLimit, reset_limit. cbn [limit]. rewrite lim_const. reflexivity. Qed.

(* clear: positions_filled_ := 0 and a NUL stored at index 0 of buffer_ (the model's slen := 0) *)
Lemma tie_clear b : leaf_buf_clear (Z.of_N (filled b)) = ([("store:buffer_"%string, [0; 0])], Z.of_N (filled (buf_clear b))) /\ slen (buf_clear b) = 0%N.
Proof. split; reflexivity. Qed.

(* add: `count` = what vsnprintf returns (the formatted length, an int >= 0).  The new fill position is the model's, and
   vsnprintf is called iff the fill position is below the limit, with size exactly (limit - filled) + 1, i.e. it may store at
   most `limit - filled` characters and the terminator: the model's write of min(count, left) characters at [filled, ...). *)
Lemma tie_add b count : (filled b < 9223372036854775808)%N -> (limit b < 9223372036854775808)%N -> (count < 2147483648)%N ->
  leaf_buf_add (Z.of_N (filled b)) (Z.of_N (limit b)) (Z.of_N count) =
    (if reached_capacity b then [] else [("PlatformSpecificVSNprintf"%string, [Z.of_N (limit b - filled b) + 1])],
     Z.of_N (filled (add b count))).
Proof.
  intros Hf Hl Hc. unfold leaf_buf_add, add, reached_capacity.
  unfold c_ge at 1. destruct (N.leb_spec (limit b) (filled b)) as [L|L].
  - destruct (Z.leb_spec (Z.of_N (limit b)) (Z.of_N (filled b))); [|lia]. cbn. reflexivity.
  - destruct (Z.leb_spec (Z.of_N (limit b)) (Z.of_N (filled b))); [lia|]. cbn [z2b b2z Z.eqb negb].
    rewrite !cw64.
    assert (E1 : (Z.of_N (limit b) - Z.of_N (filled b)) mod 18446744073709551616 = Z.of_N (limit b - filled b)).
    { rewrite Z.mod_small by lia. lia. }
    rewrite E1.
    assert (E2 : (Z.of_N (limit b - filled b) + 1) mod 18446744073709551616 = Z.of_N (limit b - filled b) + 1).
    { apply Z.mod_small. lia. }
    rewrite E2. cbn [app].
    unfold write. cbn [filled].
    unfold c_gt, z2b, b2z.
    destruct (Z.ltb_spec 0 (Z.of_N count)) as [P|P]; cbn [Z.eqb negb].
    + rewrite (Z.mod_small (Z.of_N count)) by lia.
      rewrite (Z.mod_small (Z.of_N (filled b) + Z.of_N count)) by lia.
      rewrite (Z.mod_small (Z.of_N (filled b) + Z.of_N count)) by lia.
      destruct (Z.ltb_spec (Z.of_N (limit b)) (Z.of_N (filled b) + Z.of_N count));
        destruct (N.ltb_spec (limit b) (filled b + count)); cbn; try (f_equal; lia); lia.
    + assert (count = 0%N) by lia. subst count. rewrite N.add_0_r.
      destruct (Z.ltb_spec (Z.of_N (limit b)) (Z.of_N (filled b))); [lia|].
      destruct (N.ltb_spec (limit b) (filled b)); [lia|]. cbn. reflexivity.
Qed.

Definition C14_buffer_methods_are_the_source_stmt : Prop :=
  (forall b, leaf_buf_reachedItsCapacity (Z.of_N (filled b)) (Z.of_N (limit b)) = b2z (reached_capacity b)) /\
  (forall b l, (l < 18446744073709551616)%N -> leaf_buf_setWriteLimit (Z.of_N l) (Z.of_N (limit b)) = ([], Z.of_N (limit (set_limit b l)))) /\
  (forall b, leaf_buf_resetWriteLimit (Z.of_N (limit b)) = ([], Z.of_N (limit (reset_limit b)))) /\
  (forall b, leaf_buf_clear (Z.of_N (filled b)) = ([("store:buffer_"%string, [0; 0])], Z.of_N (filled (buf_clear b))) /\ slen (buf_clear b) = 0%N) /\
  (forall b count, (filled b < 9223372036854775808)%N -> (limit b < 9223372036854775808)%N -> (count < 2147483648)%N ->
     leaf_buf_add (Z.of_N (filled b)) (Z.of_N (limit b)) (Z.of_N count) =
       (if reached_capacity b then [] else [("PlatformSpecificVSNprintf"%string, [Z.of_N (limit b - filled b) + 1])],
        Z.of_N (filled (add b count)))).
Lemma C14_buffer_methods_are_the_source : C14_buffer_methods_are_the_source_stmt.
Proof.
  split; [exact tie_reached|]. split; [exact tie_set_limit|]. split; [exact tie_reset_limit|]. split; [exact tie_clear|]. exact tie_add.
Qed.
