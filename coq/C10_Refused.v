(* C10 -- a realloc that is turned down (size refused by the overflow guard, or the underlying realloc returning NULL) under the
   thread-safe overloads: the outstanding set, the sequence counter and the lock are what they were; the thread keeps its
   block.  Stated for the write step alone (any reachable state) and for the whole operation run without interruption. *)
From Coq Require Import NArith Arith Bool List Lia.
From CppUVerif Require Import C10_Wiring gen.Gen_C10 C10_Model C10_Steps C10_Lock C10_Data C10_Sched C10_Proofs C10_Main C10_Theorems.
Import ListNotations.

Lemma set_nth_set_nth : forall A (l : list A) i x y, set_nth (set_nth l i x) i y = set_nth l i y.
Proof. induction l; destruct i; simpl; intros; auto. f_equal. auto. Qed.

Lemma reached_app : forall s sched l, reached s (sched ++ l) = exec (the_cfg s) l (reached s sched).
Proof. intros. unfold reached, exec. apply fold_left_app. Qed.

Section Refused.
Variable c : cfg.
Hypothesis Hw : wiring_good c.
Variable scripts : list (list op).

(* what the script promises at the point where the operation starts *)
Lemma refused_op_ok : forall st t th k rf rest,
  DataInv scripts st -> nth_error (st_threads st) t = Some th ->
  th_pc th = ORefused k rf :: rest -> th_skip th = false ->
  (th_phase th = PIdle \/ th_phase th = PLocked \/ exists snap, th_phase th = PRead snap) ->
  op_ok (ORefused k rf) (th_loc th).
Proof.
  intros st t th k rf rest D Hn Hpc Hsk Hph.
  destruct (di_ok _ _ D _ _ Hn) as (may & Hm). unfold ok_from, cont in Hm.
  assert (Hs : script_ok (ORefused k rf :: rest) false (th_loc th) may = true).
  { destruct Hph as [E|[E|(snap & E)]]; rewrite E, Hpc, Hsk in Hm; exact Hm. }
  simpl in Hs. apply andb_true_iff in Hs. destruct Hs as (_ & Hs). apply andb_true_iff in Hs. destruct Hs as (Hfresh & _).
  simpl. destruct (slot_get k (l_slots (th_loc th))) as [si|]; auto.
  apply andb_true_iff in Hfresh. destruct Hfresh as (F1 & F2). split.
  - apply fam_eqb_eq; auto.
  - destruct (s_bad si); auto; discriminate.
Qed.

(* the write step of a refused realloc *)
Lemma refused_commit_step : forall st t th k rf rest snap,
  LockInv st -> DataInv scripts st ->
  nth_error (st_threads st) t = Some th -> th_pc th = ORefused k rf :: rest -> th_phase th = PRead snap ->
  let st' := step c t st in
  (forall x, In x (sh_table (st_sh st')) <-> In x (sh_table (st_sh st)))
  /\ sh_seq (st_sh st') = sh_seq (st_sh st)
  /\ st_lock st' = st_lock st
  /\ st_outallocs st' = st_outallocs st
  /\ st_threads st' = set_nth (st_threads st) t (mk_thread (ORefused k rf :: rest) PExit (th_loc th) false).
Proof.
  intros st t th k rf rest snap I D Hn Hpc Hph st'.
  pose proof (li_snap _ I _ _ _ Hn Hph) as Hsnap. subst snap.
  destruct (li_shape _ I _ _ Hn) as (Hsk & _). { rewrite Hph; discriminate. }
  assert (Hok : op_ok (ORefused k rf) (th_loc th)) by (eapply refused_op_ok; eauto 6).
  subst st'. unfold step. rewrite Hn, Hpc, Hph.
  destruct (detector c t (ORefused k rf) (th_loc th) (st_sh st)) as [sh' failed] eqn:Hd.
  destruct (detector_refused c Hw _ _ _ _ _ _ _ _ Hok (di_tbl _ _ D) (di_agree _ _ D _ _ Hn) Hd) as (-> & Hin & Hsq & _).
  simpl. repeat split; auto; apply Hin.
Qed.

(* the whole operation, run without interruption from a state in which the lock is free *)
Lemma refused_whole_op : forall st t th k rf rest,
  LockInv st -> DataInv scripts st ->
  nth_error (st_threads st) t = Some th -> th_pc th = ORefused k rf :: rest -> th_phase th = PIdle -> th_skip th = false ->
  st_lock st = LFree ->
  let st' := exec c [t; t; t; t] st in
  (forall x, In x (sh_table (st_sh st')) <-> In x (sh_table (st_sh st)))
  /\ sh_seq (st_sh st') = sh_seq (st_sh st)
  /\ st_lock st' = LFree
  /\ st_outallocs st' = st_outallocs st
  /\ st_threads st' = set_nth (st_threads st) t (mk_thread rest PIdle (th_loc th) false).
Proof.
  intros st t th k rf rest I D Hn Hpc Hph Hsk Hfree st'.
  set (o := ORefused k rf) in *.
  assert (Hlk : op_locks c o = true) by (apply (wiring_good_all_lock _ Hw o ERealloc); reflexivity).
  assert (Hok : op_ok o (th_loc th)) by (eapply refused_op_ok; eauto).
  (* acquire *)
  set (th1 := mk_thread (o :: rest) PLocked (th_loc th) false).
  assert (E1 : step c t st = mk_state (st_sh st) (LHeld t) (set_nth (st_threads st) t th1) (st_outallocs st)).
  { unfold step. rewrite Hn, Hpc, Hph, Hsk. change (op_entry o) with (Some ERealloc). rewrite Hlk, Hfree. reflexivity. }
  (* read *)
  set (st1 := mk_state (st_sh st) (LHeld t) (set_nth (st_threads st) t th1) (st_outallocs st)) in *.
  assert (Hn1 : nth_error (st_threads st1) t = Some th1) by (simpl; eapply nth_error_set_nth_same; eauto).
  set (th2 := mk_thread (o :: rest) (PRead (st_sh st)) (th_loc th) false).
  assert (E2 : step c t st1 = mk_state (st_sh st) (LHeld t) (set_nth (st_threads st) t th2) (st_outallocs st)).
  { unfold step. rewrite Hn1. unfold th1. cbn [mk_thread th_pc th_phase th_loc th_skip].
    unfold upd_thread, st1, mk_state. cbn [st_sh st_lock st_threads st_outallocs]. rewrite set_nth_set_nth. reflexivity. }
  (* write *)
  set (st2 := mk_state (st_sh st) (LHeld t) (set_nth (st_threads st) t th2) (st_outallocs st)) in *.
  assert (Hn2 : nth_error (st_threads st2) t = Some th2) by (simpl; eapply nth_error_set_nth_same; eauto).
  destruct (detector c t o (th_loc th) (st_sh st)) as [sh' failed] eqn:Hd.
  destruct (detector_refused c Hw _ _ _ _ _ _ _ _ Hok (di_tbl _ _ D) (di_agree _ _ D _ _ Hn) Hd) as (-> & Hin & Hsq & _).
  set (th3 := mk_thread (o :: rest) PExit (th_loc th) false).
  assert (E3 : step c t st2 = mk_state sh' (LHeld t) (set_nth (st_threads st) t th3) (st_outallocs st)).
  { unfold step. rewrite Hn2. unfold th2. cbn [mk_thread th_pc th_phase th_loc th_skip]. rewrite Hd.
    change (fst (lstep o (th_loc th))) with (th_loc th).
    unfold st2, mk_state. cbn [st_sh st_lock st_threads st_outallocs]. rewrite set_nth_set_nth. reflexivity. }
  (* release *)
  set (st3 := mk_state sh' (LHeld t) (set_nth (st_threads st) t th3) (st_outallocs st)) in *.
  assert (Hn3 : nth_error (st_threads st3) t = Some th3) by (simpl; eapply nth_error_set_nth_same; eauto).
  assert (E4 : step c t st3 = mk_state sh' LFree (set_nth (st_threads st) t (mk_thread rest PIdle (th_loc th) false)) (st_outallocs st)).
  { unfold step. rewrite Hn3. unfold th3. cbn [mk_thread th_pc th_phase th_loc th_skip]. rewrite Hlk.
    unfold st3, mk_state. cbn [st_sh st_lock st_threads st_outallocs]. rewrite held_by_refl. cbn [andb].
    rewrite set_nth_set_nth. reflexivity. }
  subst st'. unfold exec. simpl. rewrite E1, E2, E3, E4. simpl.
  repeat split; auto; apply Hin.
Qed.

End Refused.

(* ---------------- over the executions of a scenario *)
Lemma refused_commit : forall s sched t th k rf rest snap, valid s = true ->
  nth_error (st_threads (reached s sched)) t = Some th -> th_pc th = ORefused k rf :: rest -> th_phase th = PRead snap ->
  let st := reached s sched in
  let st' := reached s (sched ++ [t]) in
  (forall x, In x (sh_table (st_sh st')) <-> In x (sh_table (st_sh st)))
  /\ sh_seq (st_sh st') = sh_seq (st_sh st)
  /\ st_lock st' = st_lock st
  /\ st_outallocs st' = st_outallocs st
  /\ st_threads st' = set_nth (st_threads st) t (mk_thread (ORefused k rf :: rest) PExit (th_loc th) false).
Proof.
  intros s sched t th k rf rest snap Hv Hn Hpc Hph st st'. subst st'. rewrite reached_app.
  apply (refused_commit_step (the_cfg s) (the_cfg_good s) (sc_scripts s) _ t th k rf rest snap
           (reached_lockinv s sched) (reached_datainv s sched Hv) Hn Hpc Hph).
Qed.

Lemma refused_operation : forall s sched t th k rf rest, valid s = true ->
  nth_error (st_threads (reached s sched)) t = Some th -> th_pc th = ORefused k rf :: rest ->
  th_phase th = PIdle -> th_skip th = false -> st_lock (reached s sched) = LFree ->
  let st := reached s sched in
  let st' := reached s (sched ++ [t; t; t; t]) in
  (forall x, In x (sh_table (st_sh st')) <-> In x (sh_table (st_sh st)))
  /\ sh_seq (st_sh st') = sh_seq (st_sh st)
  /\ st_lock st' = LFree
  /\ st_outallocs st' = st_outallocs st
  /\ st_threads st' = set_nth (st_threads st) t (mk_thread rest PIdle (th_loc th) false).
Proof.
  intros s sched t th k rf rest Hv Hn Hpc Hph Hsk Hfree st st'. subst st'. rewrite reached_app.
  apply (refused_whole_op (the_cfg s) (the_cfg_good s) (sc_scripts s) _ t th k rf rest
           (reached_lockinv s sched) (reached_datainv s sched Hv) Hn Hpc Hph Hsk Hfree).
Qed.

(* ---------------- examples *)
(* thread 0: malloc 16 into slot 0, a realloc of it that fails underneath, one that the guard refuses, a refused realloc of
   NULL, then free; thread 1: new 8 *)
Definition refused_scenario : scenario :=
  {| sc_outalloc := false;
     sc_scripts := [ [OAlloc 0 16 EMalloc; ORefused 0 RUnderlying; ORefused 0 RGuard; ORefused 1 RUnderlying; OFree 0 EFree];
                     [OAlloc 0 8 ENew] ];
     sc_sched := [0; 1; 0; 0; 1; 0; 0; 0; 1; 0; 1; 0; 0];
     sc_more := [] |}.

Lemma refused_valid : valid refused_scenario = true.
Proof. vm_compute. reflexivity. Qed.

Lemma refused_ex_commit : exists sched t th k rf rest snap,
  nth_error (st_threads (reached refused_scenario sched)) t = Some th /\ th_pc th = ORefused k rf :: rest /\ th_phase th = PRead snap.
Proof. exists [0; 0; 0; 0; 0; 0], 0. eexists. eexists. eexists. eexists. eexists. vm_compute. repeat split; reflexivity. Qed.

Lemma refused_ex_operation : exists sched t th k rf rest,
  nth_error (st_threads (reached refused_scenario sched)) t = Some th /\ th_pc th = ORefused k rf :: rest
  /\ th_phase th = PIdle /\ th_skip th = false /\ st_lock (reached refused_scenario sched) = LFree.
Proof. exists [0; 0; 0; 0], 0. eexists. eexists. eexists. eexists. vm_compute. repeat split; reflexivity. Qed.

Lemma refused_ex_run : o_done (run refused_scenario) = true /\ o_adv (run refused_scenario) = 2%N
                       /\ o_overlap (run refused_scenario) = 0%N /\ o_entries (run refused_scenario) = [(1, 0, 8%N)].
Proof. vm_compute. repeat split; reflexivity. Qed.
