(* C09 -- payloads that share one allocation: the address-level comparison (offsets into one arena, as the code sees it)
   equals the comparison of the contents, whatever the offsets are. *)
From Coq Require Import ZArith NArith Bool List Lia.
From CppUVerif Require Import lib.CInt lib.Dbl lib.Str C09_Model C09_Proofs.
Import ListNotations.

Lemma skipn_cons_nth (mem : list N) : forall p, (p < length mem)%nat -> skipn p mem = nth p mem 0%N :: skipn (S p) mem.
Proof.
  induction mem as [|c r IH]; intros p H; cbn [length] in H; [lia|].
  destruct p as [|p]; [reflexivity|].
  cbn [skipn nth]. rewrite IH by lia. reflexivity.
Qed.

Lemma slice_S mem p n : (p < length mem)%nat -> slice p (S n) mem = nth p mem 0%N :: slice (S p) n mem.
Proof. intro H. unfold slice. rewrite (skipn_cons_nth mem p H). reflexivity. Qed.

Lemma slice_length mem p n : (p + n <= length mem)%nat -> length (slice p n mem) = n.
Proof. intro H. unfold slice. rewrite firstn_length, skipn_length. lia. Qed.

(* MemCmp over n bytes at two addresses of one memory = equality of the two windows *)
Lemma memcmp_eq_slices mem : forall n p q,
  (p + n <= length mem)%nat -> (q + n <= length mem)%nat ->
  memcmp_eq mem p q n = bytes_eqb (slice p n mem) (slice q n mem).
Proof.
  induction n as [|n IH]; intros p q Hp Hq.
  - reflexivity.
  - rewrite (slice_S mem p n) by lia. rewrite (slice_S mem q n) by lia.
    cbn [memcmp_eq bytes_eqb].
    destruct (N.eqb (nth p mem 0%N) (nth q mem 0%N)); cbn [andb]; [apply IH; lia | reflexivity].
Qed.

Lemma mem_equals_at_content mem pa la pb lb :
  (pa + la <= length mem)%nat -> (pb + lb <= length mem)%nat ->
  mem_equals_at mem pa la pb lb = equals (VMem (slice pa la mem)) (VMem (slice pb lb mem)).
Proof.
  intros Ha Hb. unfold mem_equals_at. cbn [equals].
  rewrite (slice_length mem pa la Ha), (slice_length mem pb lb Hb).
  destruct (Z.eqb_spec (Z.of_nat la) (Z.of_nat lb)) as [E|E]; cbn [negb andb]; [|reflexivity].
  apply Nat2Z.inj in E. subst lb. apply memcmp_eq_slices; assumption.
Qed.

(* a C string read in an arena followed by one NUL = the arena's bytes from that address up to the first NUL *)
Lemma cut_nul_app_nul l : cut_nul (l ++ [0%N]) = cut_nul l.
Proof.
  induction l as [|c r IH]; [reflexivity|].
  cbn [app cut_nul]. destruct (N.eqb c 0); [reflexivity | rewrite IH; reflexivity].
Qed.

Lemma skipn_app_le (l t : list N) : forall p, (p <= length l)%nat -> skipn p (l ++ t) = skipn p l ++ t.
Proof.
  induction l as [|c r IH]; intros p H; cbn [length] in H.
  - assert (p = 0)%nat by lia. subst. reflexivity.
  - destruct p as [|p]; [reflexivity|]. cbn [app skipn]. apply IH. lia.
Qed.

Lemma cstr_at_content ar p : (p <= length ar)%nat -> cstr_at (ar ++ [0%N]) p = sstr (Some (skipn p ar)).
Proof. intro H. unfold cstr_at, sstr. rewrite skipn_app_le by assumption. apply cut_nul_app_nul. Qed.

Lemma str_equals_at_content ar pa pb :
  (pa <= length ar)%nat -> (pb <= length ar)%nat ->
  str_equals_at (ar ++ [0%N]) pa pb = equals (VStr (Some (skipn pa ar))) (VStr (Some (skipn pb ar))).
Proof. intros Ha Hb. unfold str_equals_at. rewrite !cstr_at_content by assumption. reflexivity. Qed.

(* the placement is irrelevant: an aliased scenario is answered exactly as the pair of its contents placed apart *)
Lemma sc_run_content s : sc_valid s = true -> sc_run s = run (fst (sc_values s)) (snd (sc_values s)).
Proof.
  destruct s as [a b|ar oa la ob lb|ar oa ob]; cbn [sc_valid sc_run sc_values fst snd]; intro H.
  - reflexivity.
  - apply andb_true_iff in H. destruct H as [Ha Hb]. apply Nat.leb_le in Ha. apply Nat.leb_le in Hb.
    unfold run. rewrite !mem_equals_at_content by assumption. reflexivity.
  - apply andb_true_iff in H. destruct H as [Ha Hb]. apply Nat.leb_le in Ha. apply Nat.leb_le in Hb.
    unfold run. rewrite !str_equals_at_content by assumption. reflexivity.
Qed.

(* two scenarios (any placements, any arenas) denoting the same contents get the same observation *)
Lemma sc_run_layout_irrelevant s1 s2 :
  sc_valid s1 = true -> sc_valid s2 = true -> sc_values s1 = sc_values s2 -> sc_run s1 = sc_run s2.
Proof. intros H1 H2 E. rewrite (sc_run_content s1 H1), (sc_run_content s2 H2), E. reflexivity. Qed.

Lemma sc_values_valid s : sc_valid s = true -> valid (fst (sc_values s)) = true /\ valid (snd (sc_values s)) = true.
Proof.
  destruct s; cbn [sc_valid sc_values fst snd valid]; intro H; [apply andb_true_iff in H; exact H | split; reflexivity ..].
Qed.

Lemma sc_run_meets_spec s : sc_valid s = true -> sc_spec s (sc_run s) = true.
Proof.
  intro H. unfold sc_spec. rewrite (sc_run_content s H).
  destruct (sc_values_valid s H) as [Ha Hb]. apply run_meets_spec; assumption.
Qed.

(* memory buffers in one allocation: equal iff same length and same bytes -- in particular the same address with two
   different lengths is unequal, and two windows at different addresses with the same bytes are equal *)
Lemma alias_mem_equal_iff ar oa la ob lb :
  (oa + la <= length ar)%nat -> (ob + lb <= length ar)%nat ->
  o_ab (sc_run (SAliasMem ar oa la ob lb)) = true <-> (la = lb /\ slice oa la ar = slice ob lb ar).
Proof.
  intros Ha Hb. cbn [sc_run o_ab]. rewrite mem_equals_at_content by assumption. cbn [equals].
  rewrite (slice_length ar oa la Ha), (slice_length ar ob lb Hb).
  rewrite andb_true_iff, Z.eqb_eq, bytes_eqb_eq. split; intros [E1 E2]; split; try assumption; lia.
Qed.

Lemma alias_same_address_different_length ar o la lb :
  (o + la <= length ar)%nat -> (o + lb <= length ar)%nat -> la <> lb ->
  o_ab (sc_run (SAliasMem ar o la o lb)) = false.
Proof.
  intros Ha Hb Hn. destruct (o_ab (sc_run (SAliasMem ar o la o lb))) eqn:E; [|reflexivity].
  apply alias_mem_equal_iff in E; try assumption. destruct E as [E _]. contradiction.
Qed.

(* non-vacuity *)
Example ex_alias_same_address : sc_valid (SAliasMem [1;2;3;4;5;6;7;8]%N 0 8 0 4) = true
  /\ o_ab (sc_run (SAliasMem [1;2;3;4;5;6;7;8]%N 0 8 0 4)) = false /\ o_ba (sc_run (SAliasMem [1;2;3;4;5;6;7;8]%N 0 8 0 4)) = false.
Proof. repeat split; reflexivity. Qed.
Example ex_alias_overlap_equal : o_ab (sc_run (SAliasMem [97;98;97;98;97]%N 0 3 2 3)) = true
  /\ o_ab (sc_run (SAliasMem [97;98;97;98;97]%N 0 3 1 3)) = false.
Proof. split; reflexivity. Qed.
Example ex_alias_str : o_ab (sc_run (SAliasStr [97;98;0;97;98]%N 0 3)) = true /\ o_ab (sc_run (SAliasStr [97;97;97]%N 0 1)) = false
  /\ sc_values (SAliasStr [97;98;0;97;98]%N 0 3) <> sc_values (SPair (VStr (Some [97;98]%N)) (VStr (Some [97;98]%N)))
  /\ sc_run (SAliasStr [97;98;0;97;98]%N 0 3) = sc_run (SPair (VStr (Some [97;98]%N)) (VStr (Some [97;98]%N))).
Proof. repeat split; try reflexivity. intro H. discriminate H. Qed.
