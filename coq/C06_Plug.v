(* C06 -- the plugin layer in front of the detector (src/CppUTest/MemoryLeakWarningPlugin.cpp, src/CppUTest/TestHarness_c.cpp):
     every global entry point (all forms of operator new / new[] / delete / delete[], the malloc wrappers) calls one of eleven
     function pointers; turnOff / turnOnDefaultNotThreadSafe / turnOnThreadSafe / saveAndDisable / restore NewDeleteOverloads
     assign those pointers; the function a pointer holds decides which detector call is made and WITH WHICH current allocator
     (getCurrentNewAllocator / getCurrentNewArrayAllocator / getCurrentMallocAllocator) -- that is: which family the block is
     booked with, and which family a release is compared against.
   The layer is a state machine over the switch history (pointer table now, saved pointer table, save counter, the three
   current allocators); it turns every plugin-level operation into the detector-level operation of C06_Model.v that the
   installed function performs.  `prun` = the detector model run on that lowering.
   `pspec` is the property, model-free: it knows the table `form -> family` the property's words fix (delete, delete[], free and
   what allocates for them) and nothing of pointers, handlers or switch histories.  No proofs in this file. *)
From Coq Require Import NArith ZArith List Bool Arith.
From CppUVerif Require Import C04_Model C06_Model.
Import ListNotations.

(* ------------------------------------------------------------------ families and the eleven function pointers *)
Inductive fam := FNew | FArr | FMal.           (* getCurrentNewAllocator / getCurrentNewArrayAllocator / getCurrentMallocAllocator *)
Definition fam_eqb (a b : fam) : bool := match a, b with FNew, FNew | FArr, FArr | FMal, FMal => true | _, _ => false end.
Definition entry_of (f : fam) : entry := match f with FNew => ENew | FArr => ENewArr | FMal => EMalloc end.

(* operator_new_fptr, operator_new_nothrow_fptr, operator_new_debug_fptr, operator_new_array_fptr, operator_new_array_nothrow_fptr,
   operator_new_array_debug_fptr, operator_delete_fptr, operator_delete_array_fptr, malloc_fptr, realloc_fptr, free_fptr *)
Inductive slot := SNew | SNewNothrow | SNewDebug | SNewArr | SNewArrNothrow | SNewArrDebug | SDel | SDelArr | SMalloc | SRealloc | SFree.

(* the three sets of functions a pointer can hold: normal_<x> (platform malloc/free, the detector is not involved),
   mem_leak_<x>, threadsafe_mem_leak_<x> (the same body behind MemLeakScopedMutex).  A function = (set, the pointer it is named for) *)
Inductive hgroup := HNormal | HLeak | HSafe.
Definition handler := (hgroup * slot)%type.
Definition wiring := slot -> handler.

(* what the function does *)
Inductive action :=
| AUntracked                (* PlatformSpecificMalloc / Realloc / Free *)
| AAlloc (f : fam)          (* detector->allocMemory(getCurrent<f>Allocator(), size ...) *)
| ARelease (f : fam)        (* detector->invalidateMemory(p); detector->deallocMemory(getCurrent<f>Allocator(), p ...) *)
| ARealloc (f : fam).       (* detector->reallocMemory(getCurrent<f>Allocator(), p, size ...) *)

(* bodies of mem_leak_operator_new, .._new_nothrow, .._new_debug (getCurrentNewAllocator), .._new_array, .._new_array_nothrow,
   .._new_array_debug (getCurrentNewArrayAllocator), .._operator_delete, .._operator_delete_array, mem_leak_malloc / realloc / free
   (getCurrentMallocAllocator), and of their threadsafe_ twins *)
Definition handler_act (h : handler) : action :=
  match fst h with
  | HNormal => AUntracked
  | HLeak | HSafe =>
      match snd h with
      | SNew => AAlloc FNew
      | SNewNothrow => AAlloc FNew
      | SNewDebug => AAlloc FNew
      | SNewArr => AAlloc FArr
      | SNewArrNothrow => AAlloc FArr
      | SNewArrDebug => AAlloc FArr
      | SDel => ARelease FNew
      | SDelArr => ARelease FArr
      | SMalloc => AAlloc FMal
      | SRealloc => ARealloc FMal
      | SFree => ARelease FMal
      end
  end.

(* ------------------------------------------------------------------ the pointer tables the source writes down *)
(* static initialisers of the eleven pointers (CPPUTEST_USE_MEM_LEAK_DETECTION): the default overloads are on from the start *)
Definition wire_initial : wiring := fun s =>
  match s with
  | SNew => (HLeak, SNew)
  | SNewNothrow => (HLeak, SNewNothrow)
  | SNewDebug => (HLeak, SNewDebug)
  | SNewArr => (HLeak, SNewArr)
  | SNewArrNothrow => (HLeak, SNewArrNothrow)
  | SNewArrDebug => (HLeak, SNewArrDebug)
  | SDel => (HLeak, SDel)
  | SDelArr => (HLeak, SDelArr)
  | SMalloc => (HLeak, SMalloc)
  | SRealloc => (HLeak, SRealloc)
  | SFree => (HLeak, SFree)
  end.
(* static initialisers of the eleven saved_ pointers *)
Definition wire_saved_initial : wiring := fun s =>
  match s with
  | SNew => (HLeak, SNew)
  | SNewNothrow => (HLeak, SNewNothrow)
  | SNewDebug => (HLeak, SNewDebug)
  | SNewArr => (HLeak, SNewArr)
  | SNewArrNothrow => (HLeak, SNewArrNothrow)
  | SNewArrDebug => (HLeak, SNewArrDebug)
  | SDel => (HLeak, SDel)
  | SDelArr => (HLeak, SDelArr)
  | SMalloc => (HLeak, SMalloc)
  | SRealloc => (HLeak, SRealloc)
  | SFree => (HLeak, SFree)
  end.
(* MemoryLeakWarningPlugin::turnOffNewDeleteOverloads *)
Definition wire_off : wiring := fun s =>
  match s with
  | SNew => (HNormal, SNew)
  | SNewNothrow => (HNormal, SNewNothrow)
  | SNewDebug => (HNormal, SNewDebug)
  | SNewArr => (HNormal, SNewArr)
  | SNewArrNothrow => (HNormal, SNewArrNothrow)
  | SNewArrDebug => (HNormal, SNewArrDebug)
  | SDel => (HNormal, SDel)
  | SDelArr => (HNormal, SDelArr)
  | SMalloc => (HNormal, SMalloc)
  | SRealloc => (HNormal, SRealloc)
  | SFree => (HNormal, SFree)
  end.
(* MemoryLeakWarningPlugin::turnOnDefaultNotThreadSafeNewDeleteOverloads *)
Definition wire_default : wiring := fun s =>
  match s with
  | SNew => (HLeak, SNew)
  | SNewNothrow => (HLeak, SNewNothrow)
  | SNewDebug => (HLeak, SNewDebug)
  | SNewArr => (HLeak, SNewArr)
  | SNewArrNothrow => (HLeak, SNewArrNothrow)
  | SNewArrDebug => (HLeak, SNewArrDebug)
  | SDel => (HLeak, SDel)
  | SDelArr => (HLeak, SDelArr)
  | SMalloc => (HLeak, SMalloc)
  | SRealloc => (HLeak, SRealloc)
  | SFree => (HLeak, SFree)
  end.
(* MemoryLeakWarningPlugin::turnOnThreadSafeNewDeleteOverloads *)
Definition wire_safe : wiring := fun s =>
  match s with
  | SNew => (HSafe, SNew)
  | SNewNothrow => (HSafe, SNewNothrow)
  | SNewDebug => (HSafe, SNewDebug)
  | SNewArr => (HSafe, SNewArr)
  | SNewArrNothrow => (HSafe, SNewArrNothrow)
  | SNewArrDebug => (HSafe, SNewArrDebug)
  | SDel => (HSafe, SDel)
  | SDelArr => (HSafe, SDelArr)
  | SMalloc => (HSafe, SMalloc)
  | SRealloc => (HSafe, SRealloc)
  | SFree => (HSafe, SFree)
  end.

(* ------------------------------------------------------------------ the switch history as a state machine *)
Inductive swop :=
| SwOff             (* turnOffNewDeleteOverloads *)
| SwDefault         (* turnOnDefaultNotThreadSafeNewDeleteOverloads *)
| SwSafe            (* turnOnThreadSafeNewDeleteOverloads *)
| SwSave            (* saveAndDisableNewDeleteOverloads *)
| SwRestore.        (* restoreNewDeleteOverloads *)

(* the eleven pointers, the eleven saved_ pointers, save_counter (an int: restore without save takes it below zero) *)
Record ovs := mkOv { ov_cur : wiring; ov_saved : wiring; ov_count : Z }.
Definition ov_init : ovs := mkOv wire_initial wire_saved_initial 0%Z.

Definition sw_step (o : ovs) (k : swop) : ovs :=
  match k with
  | SwOff => mkOv wire_off (ov_saved o) (ov_count o)
  | SwDefault => mkOv wire_default (ov_saved o) (ov_count o)
  | SwSafe => mkOv wire_safe (ov_saved o) (ov_count o)
  | SwSave =>                                             (* if (++save_counter > 1) return; saved_x = x (eleven times); turnOff *)
      let c := (ov_count o + 1)%Z in
      if (1 <? c)%Z then mkOv (ov_cur o) (ov_saved o) c
      else mkOv wire_off (ov_cur o) c
  | SwRestore =>                                          (* if (--save_counter > 0) return; x = saved_x (eleven times) *)
      let c := (ov_count o - 1)%Z in
      if (0 <? c)%Z then mkOv (ov_cur o) (ov_saved o) c
      else mkOv (ov_saved o) (ov_saved o) c
  end.

(* ------------------------------------------------------------------ the global entry points *)
(* allocating forms: operator new (size) / (size, nothrow) / (size, file, int line) / (size, file, size_t line), the same four of
   operator new[], cpputest_malloc, cpputest_malloc_location, cpputest_calloc, cpputest_strdup, cpputest_strndup *)
Inductive aform := ANew | ANewNothrow | ANewFileInt | ANewFileSize | AArr | AArrNothrow | AArrFileInt | AArrFileSize
                 | AMalloc | AMallocLoc | ACalloc | AStrdup | AStrndup.
(* releasing forms: operator delete (p) / (p, size_t) / (p, nothrow) / (p, file, int) / (p, file, size_t), the same five of
   operator delete[], cpputest_free, cpputest_free_location *)
Inductive rform := RDel | RDelSized | RDelNothrow | RDelFileInt | RDelFileSize | RArr | RArrSized | RArrNothrow | RArrFileInt | RArrFileSize
                 | RFree | RFreeLoc.

(* the pointer each global definition calls *)
Definition aform_slot (f : aform) : slot :=
  match f with
  | ANew => SNew                       (* void* operator new(size_t)                      { return operator_new_fptr(size); } *)
  | ANewNothrow => SNewNothrow         (* void* operator new(size_t, const std::nothrow_t&) { return operator_new_nothrow_fptr(size); } *)
  | ANewFileInt => SNewDebug           (* void* operator new(size_t, const char*, int)    { return operator_new_debug_fptr(...); } *)
  | ANewFileSize => SNewDebug          (* void* operator new(size_t, const char*, size_t) *)
  | AArr => SNewArr
  | AArrNothrow => SNewArrNothrow
  | AArrFileInt => SNewArrDebug
  | AArrFileSize => SNewArrDebug
  | AMalloc | AMallocLoc | ACalloc | AStrdup | AStrndup => SMalloc   (* all end in cpputest_malloc_location_with_leak_detection: malloc_fptr *)
  end.
Definition rform_slot (f : rform) : slot :=
  match f with
  | RDel | RDelSized | RDelNothrow | RDelFileInt | RDelFileSize => SDel          (* operator_delete_fptr(mem) *)
  | RArr | RArrSized | RArrNothrow | RArrFileInt | RArrFileSize => SDelArr       (* operator_delete_array_fptr(mem) *)
  | RFree | RFreeLoc => SFree                                                    (* free_fptr *)
  end.

(* ------------------------------------------------------------------ scenario of the plugin level *)
Inductive xop :=
| XAlloc (f : aform) (al : nat) (a size : N)       (* make object al the current allocator of the family form f belongs to, call form f *)
| XFree (f : rform) (al : nat) (p : option N)      (* the same on the releasing side *)
| XRealloc (al : nat) (p : option N) (na size : N) (* setCurrentMallocAllocator(al); cpputest_realloc *)
| XSwitch (k : swop)
| XDet (o : op).                                   (* an operation that does not pass the pointers: write, type checking, period, stage,
                                                      MemoryLeakAllocator and the detector's own entry points *)
Record pscenario := mkPS { ps_jump : bool; ps_allocs : list adesc; ps_ops : list xop }.

(* the three current allocators (object indices) *)
Record curs := mkC { c_new : nat; c_arr : nat; c_mal : nat }.
Definition get_cur (c : curs) (f : fam) : nat := match f with FNew => c_new c | FArr => c_arr c | FMal => c_mal c end.
Definition set_cur (c : curs) (f : fam) (al : nat) : curs :=
  match f with FNew => mkC al (c_arr c) (c_mal c) | FArr => mkC (c_new c) al (c_mal c) | FMal => mkC (c_new c) (c_arr c) al end.

(* the family the PROPERTY speaks of: what the language pairs with delete, with delete[] and with free *)
Definition aform_fam (f : aform) : fam :=
  match f with
  | ANew | ANewNothrow | ANewFileInt | ANewFileSize => FNew
  | AArr | AArrNothrow | AArrFileInt | AArrFileSize => FArr
  | AMalloc | AMallocLoc | ACalloc | AStrdup | AStrndup => FMal
  end.
Definition rform_fam (f : rform) : fam :=
  match f with
  | RDel | RDelSized | RDelNothrow | RDelFileInt | RDelFileSize => FNew
  | RArr | RArrSized | RArrNothrow | RArrFileInt | RArrFileSize => FArr
  | RFree | RFreeLoc => FMal
  end.

Record pstate := mkP { p_ov : ovs; p_cur : curs }.
Definition p_init : pstate := mkP ov_init (mkC 0 0 0).

(* one plugin-level operation: new plugin state, and the detector-level operations it amounts to *)
Definition lower_step (st : pstate) (x : xop) : pstate * list op :=
  match x with
  | XAlloc f al a size =>
      let c := set_cur (p_cur st) (aform_fam f) al in
      (mkP (p_ov st) c,
       match handler_act (ov_cur (p_ov st) (aform_slot f)) with
       | AAlloc g => [OpAlloc (entry_of g) (get_cur c g) a size]
       | _ => []
       end)
  | XFree f al p =>
      let c := set_cur (p_cur st) (rform_fam f) al in
      (mkP (p_ov st) c,
       match handler_act (ov_cur (p_ov st) (rform_slot f)) with
       | ARelease g => [OpFree (entry_of g) (get_cur c g) p]
       | _ => []
       end)
  | XRealloc al p na size =>
      let c := set_cur (p_cur st) FMal al in
      (mkP (p_ov st) c,
       match handler_act (ov_cur (p_ov st) SRealloc) with
       | ARealloc g => [OpRealloc (get_cur c g) p na size]
       | _ => []
       end)
  | XSwitch k => (mkP (sw_step (p_ov st) k) (p_cur st), [])
  | XDet o => (st, [o])
  end.
Fixpoint lower_from (st : pstate) (xs : list xop) : list op :=
  match xs with
  | [] => []
  | x :: r => let (st', os) := lower_step st x in os ++ lower_from st' r
  end.
Definition lower (xs : list xop) : list op := lower_from p_init xs.

Definition prun (s : pscenario) : list oitem := run_from (ps_allocs s) (ps_jump s) d_init (lower (ps_ops s)).

(* ------------------------------------------------------------------ the property over the plugin-level scenario *)
(* what each operation is in the property's words: an allocation / release of family aform_fam / rform_fam with the allocator object
   named in the operation; switches of the overloads are nothing the property knows of *)
Definition prop_ops (x : xop) : list op :=
  match x with
  | XAlloc f al a size => [OpAlloc (entry_of (aform_fam f)) al a size]
  | XFree f al p => [OpFree (entry_of (rform_fam f)) al p]
  | XRealloc al p na size => [OpRealloc al p na size]
  | XSwitch _ => []
  | XDet o => [o]
  end.
Definition prop_view (xs : list xop) : list op := flat_map prop_ops xs.
Definition pspec (s : pscenario) (obs : list oitem) : bool := spec_from (ps_allocs s) ss_init (prop_view (ps_ops s)) obs.

(* ------------------------------------------------------------------ preconditions *)
(* which overloads are installed, told from the documented meaning of the five switches (no pointer in sight): off / default /
   thread-safe now, what a restore would bring back, how deep the saves are nested *)
Inductive flav := FlOff | FlDefault | FlSafe.
Record aov := mkA { a_cur : flav; a_saved : flav; a_count : Z }.
Definition a_init : aov := mkA FlDefault FlDefault 0%Z.
Definition a_sw (o : aov) (k : swop) : aov :=
  match k with
  | SwOff => mkA FlOff (a_saved o) (a_count o)
  | SwDefault => mkA FlDefault (a_saved o) (a_count o)
  | SwSafe => mkA FlSafe (a_saved o) (a_count o)
  | SwSave => let c := (a_count o + 1)%Z in if (1 <? c)%Z then mkA (a_cur o) (a_saved o) c else mkA FlOff (a_cur o) c
  | SwRestore => let c := (a_count o - 1)%Z in if (0 <? c)%Z then mkA (a_cur o) (a_saved o) c else mkA (a_saved o) (a_saved o) c
  end.
Definition is_on (o : aov) : bool := match a_cur o with FlOff => false | _ => true end.

(* XDet carries only operations that do not go through the pointers *)
Definition det_ok (o : op) : bool :=
  match o with
  | OpAlloc e _ _ _ | OpFree e _ _ => negb (poisons e)          (* MemoryLeakAllocator, detector called directly *)
  | OpRealloc _ _ _ _ => false
  | OpOverloads _ => false
  | OpWrite _ _ | OpTypeCheck _ | OpPeriod _ | OpStage _ => true
  end.
(* the block sizes the forms can produce: strdup / strndup copy at least the terminating NUL *)
Definition form_size_ok (f : aform) (size : N) : bool :=
  match f with AStrdup | AStrndup => (1 <=? size)%N | _ => true end.
(* an entry point is used while the overloads are on (with the overloads off the detector sees nothing: not a tracked block) *)
Fixpoint on_ok (o : aov) (xs : list xop) : bool :=
  match xs with
  | [] => true
  | XAlloc f _ _ size :: r => is_on o && form_size_ok f size && on_ok o r
  | XFree _ _ _ :: r | XRealloc _ _ _ _ :: r => is_on o && on_ok o r
  | XSwitch k :: r => on_ok (a_sw o k) r
  | XDet d :: r => det_ok d && on_ok o r
  end.
Definition pvalid (s : pscenario) : bool :=
  descs_ok (ps_allocs s) 0 && on_ok a_init (ps_ops s) &&
  valid_from (ps_allocs s) (ps_jump s) ss_init (prop_view (ps_ops s)).
