(* C13 -- the value clause of the remaining life-cycle scenarios: StringFromBinary, subStringFromTill, StringFromMaskedBits and
   split return the textbook value on every valid input (the split part reuses the lemmas of C12_Safe.v, read-only). *)
From Coq Require Import NArith ZArith Bool List Lia ZifyBool.
From CppUVerif Require Import lib.Str C13_Text C13_Alloc C13_Model C13_Proofs C13_Main C13_Pool C13_Life C13_LifeProofs.
Import ListNotations.
Local Open Scope N_scope.

(* ---------------- StringFromBinary *)
Lemma hexdig_hex d : d < 16 -> hexdig d = t_hex d.
Proof. intro H. destruct d as [|p]; [reflexivity|]. do 4 (destruct p as [p|p|]; try reflexivity; try lia). Qed.
Definition hex3 (c : N) : list N := [hexdig (c / 16); hexdig (c mod 16); 32].
Lemma binary_loop_ok : forall bytes tail acc, binary_loop (bytes ++ tail) (length bytes) acc = Ok (acc ++ flat_map hex3 bytes).
Proof.
  induction bytes as [|c bytes IH]; intros tail acc; [cbn; rewrite app_nil_r; reflexivity|].
  cbn [length binary_loop app rd bind tl flat_map]. rewrite IH. unfold hex3 at 2. rewrite <- app_assoc. reflexivity.
Qed.
Lemma hex3_text bytes : Forall (fun c => c < 256) bytes ->
  flat_map hex3 bytes = flat_map (fun c => [t_hex (c / 16); t_hex (c mod 16); 32]) bytes.
Proof.
  induction 1 as [|c bytes Hc F IH]; [reflexivity|]. cbn [flat_map]. rewrite IH. unfold hex3.
  rewrite !hexdig_hex; [reflexivity | apply N.mod_lt; lia | apply N.div_lt_upper_bound; lia].
Qed.
Lemma binary_ok bytes : Forall (fun c => c < 256) bytes -> binary_m bytes (length bytes) = Ok (t_binary bytes).
Proof.
  intro F. unfold binary_m, t_binary. rewrite <- (app_nil_r bytes) at 1. rewrite binary_loop_ok. cbn [bind app].
  rewrite hex3_text by exact F. reflexivity.
Qed.

(* ---------------- subStringFromTill *)
Lemma index_from ch : forall s, match t_index ch s with
                                | None => t_from ch s = None
                                | Some i => t_from ch s = Some (skipn i s) /\ (i < length s)%nat end.
Proof.
  induction s as [|c s IH]; [reflexivity|]. cbn [t_index t_from]. destruct (c =? ch); [split; [reflexivity | cbn; lia]|].
  destruct (t_index ch s) as [i|]; cbn [option_map]; [|exact IH]. destruct IH as [E L]. split; [exact E | cbn; lia].
Qed.
Lemma index_until ch : forall s, match t_index ch s with
                                 | None => t_until ch s = s
                                 | Some k => t_until ch s = firstn k s /\ (k < length s)%nat end.
Proof.
  induction s as [|c s IH]; [reflexivity|]. cbn [t_index t_until]. destruct (c =? ch); [split; [reflexivity | cbn; lia]|].
  destruct (t_index ch s) as [k|]; cbn [option_map]; [|rewrite IH; reflexivity]. destruct IH as [E L]. split; [cbn [firstn]; rewrite E; reflexivity | cbn; lia].
Qed.
Lemma skipN0 s : t_skipN 0 s = s.
Proof. unfold t_skipN. destruct s; reflexivity. Qed.
Lemma fromTill_ok a c1 c2 : NN a -> N.of_nat (length a) < NPOS ->
  vstr (subStringFromTill_m (cs a) c1 c2) = VB (t_from_till a c1 c2).
Proof.
  intros Ha Hl. unfold subStringFromTill_m, find_m, cs, t_from_till. rewrite findFrom_ok by exact Ha. cbn [bind].
  unfold t_find_from at 1. rewrite skipN0. pose proof (index_from c1 a) as IF. destruct (t_index c1 a) as [i|]; cbn [option_map].
  - destruct IF as [EF Li]. rewrite EF. rewrite findFrom_ok by exact Ha. cbn [bind]. unfold t_find_from.
    assert (SK : t_skipN (0 + N.of_nat i) a = skipn i a).
    { unfold t_skipN. replace (N.of_nat (length a) <=? 0 + N.of_nat i) with false by lia. f_equal. lia. }
    rewrite SK. pose proof (index_until c2 (skipn i a)) as IU. destruct (t_index c2 (skipn i a)) as [k|]; cbn [option_map].
    + destruct IU as [EU Lk]. destruct (subString_ok a [] (0 + N.of_nat i) (0 + N.of_nat i + N.of_nat k - (0 + N.of_nat i)) Ha) as [buf [E C]].
      rewrite E. cbn [vstr]. rewrite C. f_equal. unfold t_substr. rewrite SK, EU. unfold t_takeN.
      replace (N.of_nat (length (skipn i a)) <=? 0 + N.of_nat i + N.of_nat k - (0 + N.of_nat i)) with false by lia. f_equal. lia.
    + destruct (subString_ok a [] (0 + N.of_nat i) NPOS Ha) as [buf [E C]]. rewrite E. cbn [vstr]. rewrite C. f_equal.
      unfold t_substr. rewrite SK, IU. unfold t_takeN. rewrite skipn_length.
      replace (N.of_nat (length a - i) <=? NPOS) with true by lia. reflexivity.
  - rewrite IF. change emptyString with (@nil N ++ 0 :: []). rewrite (newFrom_ok [] []) by constructor. reflexivity.
Qed.

(* ---------------- StringFromMaskedBits *)
Lemma land_pow2 a k : (N.land a (2 ^ k) =? 0) = negb (N.testbit a k).
Proof.
  destruct (N.testbit a k) eqn:T.
  - assert (E : N.land a (2 ^ k) = 2 ^ k).
    { apply N.bits_inj. intro j. rewrite N.land_spec, N.pow2_bits_eqb.
      destruct (k =? j) eqn:E; [apply N.eqb_eq in E; subst; rewrite T; reflexivity | apply andb_false_r]. }
    rewrite E. cbn [negb]. apply N.eqb_neq. apply N.pow_nonzero. lia.
  - assert (E : N.land a (2 ^ k) = 0).
    { apply N.bits_inj. intro j. rewrite N.land_spec, N.pow2_bits_eqb, N.bits_0.
      destruct (k =? j) eqn:E; [apply N.eqb_eq in E; subst; rewrite T; reflexivity | apply andb_false_r]. }
    rewrite E. reflexivity.
Qed.
Definition sh (x j : N) : N := (x * 2 ^ j) mod 2 ^ 64.
Lemma sh_bit x j b : j <= b -> b < 64 -> N.testbit (sh x j) b = N.testbit x (b - j).
Proof. intros H1 H2. unfold sh. rewrite N.mod_pow2_bits_low by exact H2. apply N.mul_pow2_bits_high. exact H1. Qed.
Lemma sh_step x j : (sh x j * 2) mod ULONG_MOD = sh x (j + 1).
Proof.
  change ULONG_MOD with (2 ^ 64). unfold sh. rewrite N.mul_mod_idemp_l by (apply N.pow_nonzero; lia). f_equal.
  rewrite N.pow_add_r, N.pow_1_r, N.mul_assoc. reflexivity.
Qed.
Lemma sh_0 x : x < ULONG_MOD -> sh x 0 = x.
Proof. intro H. unfold sh. rewrite N.pow_0_r, N.mul_1_r. apply N.mod_small. exact H. Qed.
Lemma mod8 j : (N.of_nat j mod 8 =? 7) = Nat.eqb (j mod 8) 7.
Proof. change 8 with (N.of_nat 8). rewrite <- Nat2N.inj_mod. generalize (j mod 8)%nat. intro x. lia. Qed.
Definition mchars (v m bc : N) (i : nat) : list N :=
  t_bit_char v m (bc - 1 - N.of_nat i) :: (if (Nat.eqb (i mod 8) 7) && negb (N.of_nat i =? bc - 1) then [32] else []).
Lemma masked_loop_ok v m bc : 0 < bc -> bc <= 64 -> forall k j acc, (j + k = N.to_nat bc)%nat ->
  masked_loop k (N.of_nat j) bc (sh v (N.of_nat j)) (sh m (N.of_nat j)) (2 ^ (bc - 1)) acc = acc ++ flat_map (mchars v m bc) (seq j k).
Proof.
  intros B0 B1. induction k as [|k IH]; intros j acc E; [cbn; rewrite app_nil_r; reflexivity|].
  cbn [masked_loop seq flat_map]. cbv zeta. rewrite !sh_step. replace (N.of_nat j + 1) with (N.of_nat (S j)) by lia.
  rewrite IH by lia. rewrite !land_pow2, !sh_bit by lia. rewrite mod8. unfold mchars at 2. unfold t_bit_char.
  destruct (N.testbit m (bc - 1 - N.of_nat j)); cbn [negb];
    [destruct (N.testbit v (bc - 1 - N.of_nat j)); cbn [negb]|];
    destruct ((Nat.eqb (j mod 8) 7) && negb (N.of_nat j =? bc - 1)); rewrite <- ?app_assoc; reflexivity.
Qed.
Lemma masked_ok v m byteCount : v < ULONG_MOD -> m < ULONG_MOD -> maskedBits_m v m byteCount = Ok (t_masked v m byteCount).
Proof.
  intros Hv Hm. unfold maskedBits_m, t_masked. set (bc := if 8 <? byteCount then 64 else byteCount * 8).
  assert (B1 : bc <= 64) by (unfold bc; destruct (8 <? byteCount) eqn:E; lia).
  destruct (bc =? 0) eqn:Z; [apply N.eqb_eq in Z; rewrite Z; reflexivity|]. apply N.eqb_neq in Z. f_equal.
  rewrite N.shiftl_1_l. rewrite <- (sh_0 v Hv) at 1. rewrite <- (sh_0 m Hm) at 1.
  pose proof (masked_loop_ok v m bc ltac:(lia) B1 (N.to_nat bc) 0%nat [] eq_refl) as L. change (N.of_nat 0) with 0 in L.
  rewrite L. reflexivity.
Qed.
