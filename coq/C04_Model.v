(* C04 -- executable mirror of the allocation table of MemoryLeakDetector
   (src/CppUTest/MemoryLeakDetector.cpp: MemoryLeakDetectorList / MemoryLeakDetectorTable / MemoryLeakDetector),
   the abstract (model-free) accounting it has to implement, and the oracle `spec`.
   No proofs in this file. *)
From Coq Require Import NArith List Bool.
From CppUVerif Require Import gen.Gen_Common.
Import ListNotations.
Local Open Scope N_scope.

(* ------------------------------------------------------------------ data *)
(* current_period_ / node->period_ only ever hold one of these three (startChecking, stopChecking, enable, disable) *)
Inductive stamp := SDisabled | SEnabled | SChecking.
(* the period argument of a query: enum MemLeakPeriod *)
Inductive period := PAll | PDisabled | PEnabled | PChecking.

Record node := mkNode {
  n_addr : N;       (* memory_ : the key *)
  n_size : N; n_number : N; n_file : N; n_line : N;
  n_kind : N;       (* allocator_: 0 new, 1 new [], 2 malloc *)
  n_period : stamp; n_stage : N }.

Definition stamp_eqb (a b : stamp) : bool :=
  match a, b with SDisabled, SDisabled | SEnabled, SEnabled | SChecking, SChecking => true | _, _ => false end.
Definition period_eqb (a b : period) : bool :=
  match a, b with PAll, PAll | PDisabled, PDisabled | PEnabled, PEnabled | PChecking, PChecking => true | _, _ => false end.
(* node->period_ == period *)
Definition period_is (p : period) (s : stamp) : bool :=
  match p, s with PDisabled, SDisabled | PEnabled, SEnabled | PChecking, SChecking => true | _, _ => false end.

(* MemoryLeakDetectorList::isInPeriod, as written *)
Definition is_in_period (n : node) (p : period) : bool :=
  period_eqb p PAll || period_is p (n_period n) || (negb (stamp_eqb (n_period n) SDisabled) && period_eqb p PEnabled).
Definition is_in_stage (n : node) (s : N) : bool := n_stage n =? s.

(* ------------------------------------------------------------------ MemoryLeakDetectorList (one bucket, head = first element) *)
Definition bucket := list node.

Definition l_add (n : node) (b : bucket) : bucket := n :: b.       (* node->next_ = head_; head_ = node *)

(* removeNode: prev/cur walk; `acc` = the nodes already passed (reversed), prev = its head *)
Fixpoint l_remove_walk (a : N) (acc cur : list node) : option node * bucket :=
  match cur with
  | [] => (None, rev acc)
  | c :: nxt => if n_addr c =? a then (Some c, rev acc ++ nxt)    (* prev->next_ = cur->next_  /  head_ = cur->next_ *)
                else l_remove_walk a (c :: acc) nxt
  end.
Definition l_remove (a : N) (b : bucket) := l_remove_walk a [] b.

Fixpoint l_retrieve (a : N) (b : bucket) : option node :=
  match b with [] => None | c :: nxt => if n_addr c =? a then Some c else l_retrieve a nxt end.

(* clearAllAccounting: the walk with its two unlink branches *)
Fixpoint l_clear_walk (p : period) (acc cur : list node) : bucket :=
  match cur with
  | [] => rev acc
  | c :: nxt =>
      if is_in_period c p then
        match acc with
        | _ :: _ => l_clear_walk p acc nxt       (* prev->next_ = cur->next_; cur = prev; then prev = cur; cur = cur->next_ *)
        | [] => l_clear_walk p [] nxt            (* head_ = cur->next_; cur = head_; continue *)
        end
      else l_clear_walk p (c :: acc) nxt         (* prev = cur; cur = cur->next_ *)
  end.
Definition l_clear (p : period) (b : bucket) := l_clear_walk p [] b.

(* getLeakFrom / getLeakForAllocationStageFrom: first node from `cur` on satisfying the predicate *)
Fixpoint l_leak_from (f : node -> bool) (cur : list node) : option node :=
  match cur with [] => None | c :: nxt => if f c then Some c else l_leak_from f nxt end.
(* node->next_ of the node with key a (the list is searched because nodes are values here, not pointers) *)
Fixpoint l_after (a : N) (b : list node) : list node :=
  match b with [] => [] | c :: nxt => if n_addr c =? a then nxt else l_after a nxt end.

Fixpoint l_total (p : period) (b : list node) : N :=
  match b with [] => 0 | c :: nxt => (if is_in_period c p then 1 else 0) + l_total p nxt end.

(* ------------------------------------------------------------------ MemoryLeakDetectorTable *)
Definition table := list bucket.
Definition nbuckets : nat := N.to_nat hash_prime.
Definition hashN (a : N) : nat := N.to_nat (a mod hash_prime).
Definition empty_table : table := repeat [] nbuckets.

Definition get_b (i : nat) (t : table) : bucket := nth i t [].
Fixpoint set_b (i : nat) (b : bucket) (t : table) : table :=
  match t with
  | [] => []
  | x :: r => match i with O => b :: r | S j => x :: set_b j b r end
  end.

Definition t_add (n : node) (t : table) : table :=
  let i := hashN (n_addr n) in set_b i (l_add n (get_b i t)) t.
Definition t_remove (a : N) (t : table) : option node * table :=
  let i := hashN a in let (r, b') := l_remove a (get_b i t) in (r, set_b i b' t).
Definition t_retrieve (a : N) (t : table) : option node := l_retrieve a (get_b (hashN a) t).
(* for (i = 0; i < hash_prime; i++) table_[i].clearAllAccounting(period) *)
Definition t_clear (p : period) (t : table) : table := map (l_clear p) t.
Fixpoint t_total (p : period) (t : table) : N :=
  match t with [] => 0 | b :: r => l_total p b + t_total p r end.
(* getFirstLeak / getFirstLeakForAllocationStage over the buckets i, i+1, ... *)
Fixpoint t_first_from (f : node -> bool) (bs : list bucket) : option node :=
  match bs with
  | [] => None
  | b :: r => match l_leak_from f b with Some n => Some n | None => t_first_from f r end
  end.
Definition t_first (f : node -> bool) (t : table) := t_first_from f t.
(* getNextLeak / getNextLeakForAllocationStage *)
Definition t_next (f : node -> bool) (leak : node) (t : table) : option node :=
  let i := hashN (n_addr leak) in
  match l_leak_from f (l_after (n_addr leak) (get_b i t)) with
  | Some n => Some n
  | None => t_first_from f (skipn (S i) t)
  end.
(* leak->period_ = mem_leak_period_enabled through the pointer held by the caller *)
Definition demote (n : node) : node :=
  match n_period n with
  | SChecking => mkNode (n_addr n) (n_size n) (n_number n) (n_file n) (n_line n) (n_kind n) SEnabled (n_stage n)
  | _ => n
  end.
Definition l_demote (a : N) (b : bucket) : bucket := map (fun c => if n_addr c =? a then demote c else c) b.
Definition t_demote (a : N) (t : table) : table :=
  let i := hashN a in set_b i (l_demote a (get_b i t)) t.
Fixpoint t_count (t : table) : nat := match t with [] => O | b :: r => (length b + t_count r)%nat end.

(* ------------------------------------------------------------------ MemoryLeakDetector *)
Record det := mkDet { d_tbl : table; d_period : stamp; d_stage : N; d_seq : N }.
Definition d_init : det := mkDet empty_table SDisabled 0 1.
Definition with_tbl (st : det) (t : table) := mkDet t (d_period st) (d_stage st) (d_seq st).
Definition with_period (st : det) (s : stamp) := mkDet (d_tbl st) s (d_stage st) (d_seq st).
Definition with_stage (st : det) (s : N) := mkDet (d_tbl st) (d_period st) s (d_seq st).

(* storeLeakInformation *)
Definition d_store (st : det) (a size kind file line : N) : det :=
  let n := mkNode a size (d_seq st) file line kind (d_period st) (d_stage st) in
  mkDet (t_add n (d_tbl st)) (d_period st) (d_stage st) (d_seq st + 1).
(* deallocMemory (non-NULL): true = "Deallocating non-allocated memory" was reported *)
Definition d_dealloc (st : det) (a : N) : det * bool :=
  match t_remove a (d_tbl st) with
  | (None, _) => (st, true)
  | (Some _, t') => (with_tbl st t', false)
  end.
(* reallocMemory of a tracked block when reallocateMemoryAndLeakInformation returns NULL (PlatformSpecificRealloc failed, or the
   separate record could not be allocated): the record taken out by removeNode is handed back by memoryTable_.addNewNode(node)
   -- the same record (number, size, location, period, stage), now at the head of its bucket; nothing else is touched, the
   sequence counter included.  true = "Deallocating non-allocated memory" was reported *)
Definition d_realloc_failed (st : det) (a : N) : det * bool :=
  match t_remove a (d_tbl st) with
  | (None, _) => (st, true)
  | (Some n, t') => (with_tbl st (t_add n t'), false)
  end.
(* the code before the repair 3db681c: the record of the still valid block stayed removed *)
Definition d_realloc_failed_old (st : det) (a : N) : det * bool := d_dealloc st a.
(* unsigned char current_allocation_stage_ *)
Definition stage_inc (s : N) : N := (s + 1) mod 256.
Definition stage_dec (s : N) : N := (s + 255) mod 256.

(* deallocAllMemoryInCurrentAllocationStage: the successor is fetched before the node is released *)
Fixpoint stage_loop (fuel : nat) (cur : option node) (st : det) (fails : N) : option (det * N) :=
  match fuel with
  | O => None
  | S k => match cur with
           | None => Some (st, fails)
           | Some n =>
               let nxt := t_next (fun c => is_in_stage c (d_stage st)) n (d_tbl st) in
               let (st', na) := d_dealloc st (n_addr n) in
               stage_loop k nxt st' (if na then fails + 1 else fails)
           end
  end.
Definition d_stage_free (st : det) : option (det * N) :=
  stage_loop (S (t_count (d_tbl st))) (t_first (fun c => is_in_stage c (d_stage st)) (d_tbl st)) st 0.

(* markCheckingPeriodLeaksAsNonCheckingPeriod *)
Fixpoint mark_loop (fuel : nat) (cur : option node) (t : table) : option table :=
  match fuel with
  | O => None
  | S k => match cur with
           | None => Some t
           | Some n =>
               let t' := if stamp_eqb (n_period n) SChecking then t_demote (n_addr n) t else t in
               mark_loop k (t_next (fun c => is_in_period c PChecking) n t') t'
           end
  end.
Definition d_mark (st : det) : option det :=
  match mark_loop (S (t_count (d_tbl st))) (t_first (fun c => is_in_period c PChecking) (d_tbl st)) (d_tbl st) with
  | Some t => Some (with_tbl st t) | None => None end.

(* ConstructMemoryLeakReport: the nodes handed to reportMemoryLeak, in order *)
Fixpoint report_loop (fuel : nat) (p : period) (t : table) (cur : option node) : option (list node) :=
  match fuel with
  | O => None
  | S k => match cur with
           | None => Some []
           | Some n => match report_loop k p t (t_next (fun c => is_in_period c p) n t) with
                       | Some l => Some (n :: l) | None => None end
           end
  end.
Definition d_report (p : period) (st : det) : option (list node) :=
  report_loop (S (t_count (d_tbl st))) p (d_tbl st) (t_first (fun c => is_in_period c p) (d_tbl st)).

(* ------------------------------------------------------------------ scenario, observation *)
Inductive op :=
| OpAlloc (a size kind file line : N)
| OpFree (a : option N) (kind : N)                       (* None = NULL *)
| OpRealloc (a : option N) (na size kind file line : N)
| OpDisable | OpEnable | OpStart | OpStop
| OpInc | OpDec
| OpStageFree
| OpMark
| OpClear (p : period)
| OpTotals
| OpReport (p : period)
(* requests whose underlying allocator call fails (the failure is scenario input: an oracle for the allocator).
   w names the call that fails: 1 = the block itself (TestMemoryAllocator::alloc_memory / PlatformSpecificRealloc returns NULL),
   2 = the separate bookkeeping record (allocMemoryLeakNode returns NULL; with the inline layout, where there is no such call,
   the block).  The accounting must not depend on w: the model ignores it. *)
| OpAllocFail (size kind file line w : N)
| OpReallocFail (a : option N) (size kind file line w : N).

Record entry := mkEntry { e_addr : N; e_size : N; e_number : N; e_file : N; e_line : N; e_kind : N }.
Definition entry_of (n : node) : entry := mkEntry (n_addr n) (n_size n) (n_number n) (n_file n) (n_line n) (n_kind n).

Inductive oitem :=
| OF (nonalloc other : bool)                       (* free/realloc: "non-allocated" reported? any other failure reported? *)
| OT (t_all t_dis t_en t_chk : N)                  (* totalMemoryLeaks of the four periods *)
| OR (noleaks toomany : bool) (total : N) (entries : list entry) (mnote : bool)   (* mnote: the note about malloc/free is printed *)
| OS (nonalloc other : N)                          (* stage release: failures reported while releasing *)
| OErr.                                            (* a loop ran out of fuel: never happens (proved) *)

(* StrCmp(leak->allocator_->alloc_name(), "malloc") == 0 *)
Definition is_malloc (n : node) : bool := n_kind n =? 2.
Definition c_step (st : det) (o : op) : det * option oitem :=
  match o with
  | OpAlloc a sz k f l => (d_store st a sz k f l, None)
  | OpFree None _ => (st, Some (OF false false))
  | OpFree (Some a) _ => let (st', na) := d_dealloc st a in (st', Some (OF na false))
  | OpRealloc None na sz k f l => (d_store st na sz k f l, Some (OF false false))
  | OpRealloc (Some a) na sz k f l =>
      let (st', nal) := d_dealloc st a in
      if nal then (st', Some (OF true false)) else (d_store st' na sz k f l, Some (OF false false))
  | OpDisable => (with_period st SDisabled, None)
  | OpEnable => (with_period st SEnabled, None)
  | OpStart => (with_period st SChecking, None)
  | OpStop => (with_period st SEnabled, None)
  | OpInc => (with_stage st (stage_inc (d_stage st)), None)
  | OpDec => (with_stage st (stage_dec (d_stage st)), None)
  | OpStageFree => match d_stage_free st with Some (st', k) => (st', Some (OS k 0)) | None => (st, Some OErr) end
  | OpMark => match d_mark st with Some st' => (st', None) | None => (st, Some OErr) end
  | OpClear p => (with_tbl st (t_clear p (d_tbl st)), None)
  | OpTotals => (st, Some (OT (t_total PAll (d_tbl st)) (t_total PDisabled (d_tbl st))
                              (t_total PEnabled (d_tbl st)) (t_total PChecking (d_tbl st))))
  | OpReport p => match d_report p st with
                  | Some l => (st, Some (OR (match l with [] => true | _ => false end) false (N.of_nat (length l)) (map entry_of l)
                                            (existsb is_malloc l)))     (* giveWarningOnUsingMalloc_ *)
                  | None => (st, Some OErr) end
  (* allocMemory: alloc_memory returned NULL, or the record could not be had and the block was given back: return NULLPTR *)
  | OpAllocFail _ _ _ _ _ => (st, Some (OF false false))
  (* reallocMemory(NULL, ...): nothing was removed, reallocateMemoryAndLeakInformation returned NULL *)
  | OpReallocFail None _ _ _ _ _ => (st, Some (OF false false))
  | OpReallocFail (Some a) _ _ _ _ _ => let (st', nal) := d_realloc_failed st a in (st', Some (OF nal false))
  end.

Fixpoint c_run (st : det) (ops : list op) : list oitem :=
  match ops with
  | [] => []
  | o :: r => let (st', x) := c_step st o in
              match x with Some i => i :: c_run st' r | None => c_run st' r end
  end.
Definition run (ops : list op) : list oitem := c_run d_init ops.

(* ------------------------------------------------------------------ the abstract accounting (what the property says) *)
(* a finite map address -> record kept as a list without duplicate addresses; every operation is one line *)
Record astate := mkA { a_recs : list node; a_period : stamp; a_stage : N; a_seq : N }.
Definition a_init : astate := mkA [] SDisabled 0 1.

(* does a block stamped s count for a query of period p? *)
Definition applies (p : period) (n : node) : bool :=
  match p, n_period n with
  | PAll, _ => true
  | PDisabled, SDisabled => true
  | PEnabled, SEnabled | PEnabled, SChecking => true
  | PChecking, SChecking => true
  | _, _ => false
  end.
Definition has_addr (a : N) (n : node) : bool := n_addr n =? a.
Definition live (a : N) (l : list node) : bool := existsb (has_addr a) l.
Definition drop (a : N) (l : list node) : list node := filter (fun n => negb (has_addr a n)) l.
Definition a_with_recs (s : astate) (l : list node) := mkA l (a_period s) (a_stage s) (a_seq s).
Definition a_store (s : astate) (a sz k f l : N) : astate :=
  mkA (mkNode a sz (a_seq s) f l k (a_period s) (a_stage s) :: a_recs s) (a_period s) (a_stage s) (a_seq s + 1).
Definition count (p : period) (l : list node) : N := N.of_nat (length (filter (applies p) l)).

Definition a_step (s : astate) (o : op) : astate * option oitem :=
  match o with
  | OpAlloc a sz k f l => (a_store s a sz k f l, None)
  | OpFree None _ => (s, Some (OF false false))
  | OpFree (Some a) _ => (a_with_recs s (drop a (a_recs s)), Some (OF (negb (live a (a_recs s))) false))
  | OpRealloc None na sz k f l => (a_store s na sz k f l, Some (OF false false))
  | OpRealloc (Some a) na sz k f l =>
      if live a (a_recs s) then (a_store (a_with_recs s (drop a (a_recs s))) na sz k f l, Some (OF false false))
      else (s, Some (OF true false))
  | OpDisable => (mkA (a_recs s) SDisabled (a_stage s) (a_seq s), None)
  | OpEnable | OpStop => (mkA (a_recs s) SEnabled (a_stage s) (a_seq s), None)
  | OpStart => (mkA (a_recs s) SChecking (a_stage s) (a_seq s), None)
  | OpInc => (mkA (a_recs s) (a_period s) ((a_stage s + 1) mod 256) (a_seq s), None)
  | OpDec => (mkA (a_recs s) (a_period s) ((a_stage s + 255) mod 256) (a_seq s), None)
  | OpStageFree => (a_with_recs s (filter (fun n => negb (n_stage n =? a_stage s)) (a_recs s)), Some (OS 0 0))
  | OpMark => (a_with_recs s (map demote (a_recs s)), None)
  | OpClear p => (a_with_recs s (filter (fun n => negb (applies p n)) (a_recs s)), None)
  | OpTotals => (s, Some (OT (count PAll (a_recs s)) (count PDisabled (a_recs s)) (count PEnabled (a_recs s)) (count PChecking (a_recs s))))
  | OpReport p => let out := filter (applies p) (a_recs s) in
                  (s, Some (OR (match out with [] => true | _ => false end) false (N.of_nat (length out)) (map entry_of out)
                               (existsb is_malloc out)))
  (* a request the underlying allocator refuses hands out nothing and releases nothing: the map stays as it is *)
  | OpAllocFail _ _ _ _ _ => (s, Some (OF false false))
  | OpReallocFail None _ _ _ _ _ => (s, Some (OF false false))
  | OpReallocFail (Some a) _ _ _ _ _ => (s, Some (OF (negb (live a (a_recs s))) false))
  end.

(* preconditions: the underlying allocator hands out addresses that are not in use (its contract); a block is
   released with the allocator kind it was obtained with (mismatches are property C06) *)
Definition kind_ok (a k : N) (l : list node) : bool :=
  forallb (fun n => negb (has_addr a n) || (n_kind n =? k)) l.
Definition op_ok (s : astate) (o : op) : bool :=
  match o with
  | OpAlloc a _ _ _ _ => negb (live a (a_recs s))
  | OpFree None _ => true
  | OpFree (Some a) k => kind_ok a k (a_recs s)
  | OpRealloc None na _ _ _ _ => negb (live na (a_recs s))
  | OpRealloc (Some a) na _ k _ _ => kind_ok a k (a_recs s) && (negb (live a (a_recs s)) || negb (live na (drop a (a_recs s))))
  | OpReallocFail (Some a) _ k _ _ _ => kind_ok a k (a_recs s)
  | _ => true
  end.
Fixpoint valid_from (s : astate) (ops : list op) : bool :=
  match ops with [] => true | o :: r => op_ok s o && valid_from (fst (a_step s o)) r end.
Definition valid (ops : list op) : bool := valid_from a_init ops.

(* ------------------------------------------------------------------ spec: the oracle applied to an observation *)
Definition entry_eqb (x y : entry) : bool :=
  (e_addr x =? e_addr y) && (e_size x =? e_size y) && (e_number x =? e_number y) &&
  (e_file x =? e_file y) && (e_line x =? e_line y) && (e_kind x =? e_kind y).
Definition mem_e (x : entry) (l : list entry) : bool := existsb (entry_eqb x) l.
Definition subset_e (l m : list entry) : bool := forallb (fun x => mem_e x m) l.
Fixpoint nodup_e (l : list entry) : bool :=
  match l with [] => true | x :: r => negb (mem_e x r) && nodup_e r end.

(* expected item (from the abstract accounting) against an observed item *)
Definition check_item (e x : oitem) : bool :=
  match e, x with
  | OF na _, OF na' oth' => Bool.eqb na na' && negb oth'
  | OT a b c d, OT a' b' c' d' => (a =? a') && (b =? b') && (c =? c') && (d =? d')
  (* whether or not the report was cut short, "no leaks" and the footer "Total number of leaks" are those of the outstanding
     set of the period, and the malloc note is there iff a malloc block is in that set *)
  | OR nl _ tot out mn, OR nl' many' tot' ents' mn' =>
      Bool.eqb nl nl' && (tot =? tot') && Bool.eqb mn mn' &&
      (if many' then subset_e ents' out && nodup_e ents' &&               (* report cut short by the 4096-byte buffer (C14): *)
                     negb (Nat.eqb (length ents') 0)                       (* distinct outstanding blocks, at least the first *)
       else subset_e ents' out && subset_e out ents' && Nat.eqb (length ents') (length out))
  | OS _ _, OS na' oth' => (na' =? 0) && (oth' =? 0)
  | _, _ => false
  end.

Fixpoint spec_from (s : astate) (ops : list op) (obs : list oitem) : bool :=
  match ops with
  | [] => match obs with [] => true | _ => false end
  | o :: r =>
      let (s', e) := a_step s o in
      match e with
      | None => spec_from s' r obs
      | Some ex => match obs with [] => false | x :: obs' => check_item ex x && spec_from s' r obs' end
      end
  end.
Definition spec (ops : list op) (obs : list oitem) : bool := spec_from a_init ops obs.
