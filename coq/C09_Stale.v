(* C09 -- value objects whose EARLIER life was a custom-type object (model part, no proofs).
   setObjectPointer / setConstObjectPointer (mock().setDataObject / setDataConstObject, the C table's setDataObject) write the
   type name, the eight bytes of the object pointer AND the two members comparator_ / copier_ (what the repository holds for
   the type name).  setValue / setMemoryBuffer write the type name and one member of the union -- comparator_ and copier_ stay
   what they were.  So an object that once carried a "Config" and now carries int 5 still has the Config comparator and copier
   in it.  The model keeps them: an `ocell` is the cell of C09_Reuse.v (type tag, the sixteen bytes, size_) plus `oc_obj` (the
   type name is a custom one, which), `oc_cmp` and `oc_cop` (the comparator / copier members: of which custom type they are,
   None = NULL).  `oequals` mirrors MockNamedValue::equals: the mixed integer pairs, `type_ != p.type_`, the built-in types,
   and only then comparator_.  What a test may rely on is the last stored type and value; C09_StaleProofs.v proves that every
   read and both comparisons are functions of it, whatever oc_cmp / oc_cop hold. *)
From Coq Require Import ZArith Bool List.
From CppUVerif Require Import lib.CInt lib.Dbl lib.Str C09_Model C09_Access C09_Reuse C09_Edge.
Import ListNotations.
Local Open Scope Z_scope.

(* what a test hands over: a built-in value (as in C09_Reuse.v) or the obj-th object of the ty-th custom type, as a
   "void*" object (setObjectPointer) or a "const void*" one (setConstObjectPointer) *)
Inductive ostore := OVal (s : sval) | OObj (ty : nat) (cst : bool) (obj : nat).
(* the same as the setter sees it *)
Inductive ocstore := OCVal (s : cstore) | OCObj (ty : nat) (cst : bool) (a : Z).

Record ocell := { oc_cell : cell; oc_obj : option nat; oc_cmp : option nat; oc_cop : option nat }.

(* the repository: for the ty-th custom type name, is a comparator installed, is a copier installed *)
Definition repo := list (bool * bool).
Definition repo_at (rp : repo) (ty : nat) : bool * bool := nth ty rp (false, false).

(* setValue(T) / setMemoryBuffer: type_ and one union member; comparator_ and copier_ are not touched.
   set[Const]ObjectPointer(type, p): type_ = type; value_.[const]ObjectPointerValue_ = p (the eight bytes a "const void*" value
   occupies; the built-in tag of the cell is not looked at while oc_obj names a custom type);
   comparator_ = repository->getComparatorForType(type); copier_ = repository->getCopierForType(type) *)
Definition ocell_store (rp : repo) (c : ocell) (s : ocstore) : ocell :=
  match s with
  | OCVal s => {| oc_cell := cell_store (oc_cell c) s; oc_obj := None; oc_cmp := oc_cmp c; oc_cop := oc_cop c |}
  | OCObj ty _ a =>
      {| oc_cell := cell_store (oc_cell c) (CConstPtr a); oc_obj := Some ty;
         oc_cmp := if fst (repo_at rp ty) then Some ty else None;
         oc_cop := if snd (repo_at rp ty) then Some ty else None |}
  end.
Definition ocell_after (rp : repo) (c : ocell) (l : list ocstore) : ocell := fold_left (ocell_store rp) l c.
(* MockNamedValue(name): type "int", comparator_(NULLPTR), copier_(NULLPTR) *)
Definition ocell_zero : ocell := {| oc_cell := cell_zero; oc_obj := None; oc_cmp := None; oc_cop := None |}.

(* a user comparator: isEqual(o1, o2) of the comparator installed for custom type ty, on two raw addresses *)
Definition cmpfn := nat -> Z -> Z -> bool.
Definition raw (c : ocell) : Z := lowb 64 (k_w0 (oc_cell c)).

(* this->equals(p) as the code has it: built-in type names are decided by the built-in branches; comparator_ is consulted
   only when the (equal) type names are not built-in ones *)
Definition oequals (cf : cmpfn) (h : Z -> list N) (a p : ocell) : bool :=
  match oc_obj a, oc_obj p with
  | None, None => equals (decode h (oc_cell a)) (decode h (oc_cell p))
  | Some ta, Some tp =>
      Nat.eqb ta tp && match oc_cmp a with Some t => cf t (raw a) (raw p) | None => false end
  | _, _ => false
  end.

(* red-team change C09-1 of round 7: after `type_ != p.type_`, comparator_ is consulted BEFORE the built-in types *)
Definition tag_eqb (x y : tag) : bool :=
  match x, y with
  | KBool, KBool | KDouble, KDouble | KStr, KStr | KPtr, KPtr | KConstPtr, KConstPtr | KFun, KFun | KMem, KMem => true
  | KInt t1, KInt t2 => ity_eqb t1 t2
  | _, _ => false end.
Definition oequals_cmp_first (cf : cmpfn) (h : Z -> list N) (a p : ocell) : bool :=
  match oc_obj a, oc_obj p with
  | None, None =>
      if tag_eqb (k_tag (oc_cell a)) (k_tag (oc_cell p))
      then match oc_cmp a with Some t => cf t (raw a) (raw p) | None => equals (decode h (oc_cell a)) (decode h (oc_cell p)) end
      else equals (decode h (oc_cell a)) (decode h (oc_cell p))
  | _, _ => oequals cf h a p
  end.
(* a harmless rewrite: `if (!comparator_) return false; return comparator_->isEqual(...)` at the same place *)
Definition oequals_guard_first (cf : cmpfn) (h : Z -> list N) (a p : ocell) : bool :=
  match oc_obj a, oc_obj p with
  | Some ta, Some tp =>
      match oc_cmp a with None => false | Some t => Nat.eqb ta tp && cf t (raw a) (raw p) end
  | _, _ => oequals cf h a p
  end.

(* -------- scenarios -------- *)
Definition n_types : nat := 3.
Definition n_objs : nat := 4.
(* where the model puts the objects of the custom types (never looked at by a run whose last stores are built-in values) *)
Definition obj_addr (ty obj : nat) : Z := 4096 + 64 * Z.of_nat ty + 8 * Z.of_nat obj.
(* the eight bytes an object store leaves in the union are those of a "const void*" value at that address *)
Definition erase (o : ostore) : sval := match o with OVal s => s | OObj ty _ obj => SCPtr (obj_addr ty obj) end.
Definition ostore_ok (o : ostore) : bool :=
  match o with OVal _ => true | OObj ty _ obj => Nat.ltb ty n_types && Nat.ltb obj n_objs end.

(* object A (in the box: a MockNamedValue / one slot of mock().setData[Object] / of the C table's) receives st_before in order and
   then the built-in value st_last; object B (a MockNamedValue) st_obefore and then the built-in value st_other; the repository holds
   st_repo while all that happens.  A is read through the 13 getters and compared with B, both ways. *)
Record stale := { st_box : box; st_repo : repo; st_before : list ostore; st_last : sval; st_obefore : list ostore; st_other : sval }.

Definition st_erase (r : stale) : reuse :=
  {| ru_box := st_box r; ru_fam := FNamed; ru_before := map erase (st_before r); ru_last := st_last r;
     ru_obefore := map erase (st_obefore r); ru_other := st_other r |}.
Definition st_box_ok (b : box) : bool := match b with BNamed | BData | BDataC => true | _ => false end.
(* every built-in store is one the box has a setter for (ru_valid of the erased scenario), every object one of the table *)
Definition st_valid (r : stale) : bool :=
  st_box_ok (st_box r) && Nat.eqb (length (st_repo r)) n_types
  && forallb ostore_ok (st_before r ++ st_obefore r) && ru_valid (st_erase r).

Definition oplace (i : nat) (o : ostore) : ocstore :=
  match o with OVal s => OCVal (place i s) | OObj ty c obj => OCObj ty c (obj_addr ty obj) end.
Fixpoint oplace_from (i : nat) (l : list ostore) : list ocstore :=
  match l with [] => [] | o :: r => oplace i o :: oplace_from (S i) r end.

Definition st_ocell_a (r : stale) : ocell :=
  ocell_store (st_repo r) (ocell_after (st_repo r) ocell_zero (oplace_from 0 (st_before r)))
              (OCVal (place (length (st_before r)) (st_last r))).
Definition st_ocell_b (r : stale) : ocell :=
  let n := S (length (st_before r)) in
  ocell_store (st_repo r) (ocell_after (st_repo r) ocell_zero (oplace_from n (st_obefore r)))
              (OCVal (place (n + length (st_obefore r)) (st_other r))).

Definition eqfn := (Z -> list N) -> ocell -> ocell -> bool.
(* the getters look at type_ and the union only (a built-in type name after the last store) *)
Definition st_run_with (eqf : eqfn) (r : stale) : robs :=
  let h := heap_of (ru_objects (st_erase r)) in
  let a := st_ocell_a r in
  let b := st_ocell_b r in
  {| q_ab := eqf h a b; q_ba := eqf h b a;
     q_get := q_get (ru_obs FNamed (decode h (oc_cell a)) (decode h (oc_cell b))) |}.
(* the harness's comparators answer `false` when handed an address that is not one of their objects *)
Definition cf_foreign : cmpfn := fun _ _ _ => false.
Definition st_run : stale -> robs := st_run_with (oequals cf_foreign).

(* spec: the property's sentences about the LAST stored values; neither the earlier stores nor the repository occur in it *)
Definition st_spec (r : stale) (o : robs) : bool := ru_spec (st_erase r) o.

(* -------- the whole scenario language -------- *)
Inductive vscenario := VOld (s : wscenario) | VStale (r : stale).
Inductive vobs := UOld (o : wobs) | UStale (o : robs).
Definition v_valid (s : vscenario) : bool := match s with VOld s => w_valid s | VStale r => st_valid r end.
Definition v_run (s : vscenario) : vobs := match s with VOld s => UOld (w_run s) | VStale r => UStale (st_run r) end.
Definition v_spec (s : vscenario) (o : vobs) : bool :=
  match s, o with
  | VOld s, UOld o => w_spec s o
  | VStale r, UStale o => st_spec r o
  | _, _ => false end.
