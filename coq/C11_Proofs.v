(* C11 -- the wait loop, failure accounting, composition over the test list *)
From Coq Require Import NArith ZArith List Bool Arith Lia ZifyBool.
From CppUVerif Require Import gen.Gen_C11 C11_Model C11_Words.
Import ListNotations.
Local Open Scope N_scope.

(* ---- the retry counter as a budget ---- *)
Definition budget_of (r : N) : nat := (tolerated - N.to_nat r)%nat.
Lemma gives_up_budget r : gives_up r = (budget_of r =? 0)%nat.
Proof.
  unfold gives_up, budget_of, tolerated. destruct eintr_bound_strict.
  - destruct (N.ltb_spec eintr_bound r); symmetry; [apply Nat.eqb_eq | apply Nat.eqb_neq]; lia.
  - destruct (N.leb_spec eintr_bound r); symmetry; [apply Nat.eqb_eq | apply Nat.eqb_neq]; lia.
Qed.
Lemma budget_succ r b : budget_of r = S b -> budget_of (r + 1) = b.
Proof. unfold budget_of. rewrite N2Nat.inj_add. change (N.to_nat 1) with 1%nat. lia. Qed.
Lemma budget_0 : budget_of 0 = tolerated.
Proof. unfold budget_of. change (N.to_nat 0) with 0%nat. lia. Qed.

(* ---- one step of the loop on the word of an event ---- *)
Lemma loop_step_ev r e tl : ev_ok e = true ->
  parent_loop r (WStat (encode e) :: tl) =
  match e with
  | EvExit k => {| lr_fails := if k =? 0 then [] else [FExit]; lr_calls := 1; lr_conts := 0; lr_end := EndReaped |}
  | EvKill s _ => {| lr_fails := [FKilled s]; lr_calls := 1; lr_conts := 0; lr_end := EndReaped |}
  | EvStop _ => step_res [FStopped] 1 (parent_loop r tl)
  | EvCont => step_res [] 0 (parent_loop r tl)
  end.
Proof.
  intro H. simpl. rewrite (set_failure_encode e H). destruct (ends_encode e H) as [-> ->].
  destruct e; reflexivity.
Qed.

(* ---- the loop against the property's accounting ---- *)
Definition reaped_end (e : ending) : bool := match e with EndReaped => true | _ => false end.

Lemma loop_expect : forall ws r,
  forallb sout_ok ws = true ->
  let lr := parent_loop r (map conc ws) in
  expect (budget_of r) ws = (length (lr_fails lr), lr_calls lr, reaped_end (lr_end lr)).
Proof.
  induction ws as [|o tl IH]; intros r Hok; [reflexivity|].
  simpl in Hok. apply andb_prop in Hok. destruct Hok as [Ho Htl].
  destruct o as [| |e].
  - (* EINTR *) cbn [map conc parent_loop expect]. rewrite gives_up_budget.
    destruct (budget_of r) as [|b] eqn:B; [reflexivity|]. cbn [Nat.eqb].
    specialize (IH (r + 1) Htl). cbv zeta in IH. rewrite (budget_succ _ _ B) in IH. rewrite IH. reflexivity.
  - reflexivity.
  - cbn [map conc]. rewrite (loop_step_ev r e _ Ho). specialize (IH r Htl). cbv zeta in IH.
    destruct e as [k|s c|s|]; cbn [expect].
    + destruct (k =? 0); reflexivity.
    + reflexivity.
    + rewrite IH. reflexivity.
    + rewrite IH. reflexivity.
Qed.

(* ---- real children: the trace is made of well-formed events ---- *)
Definition fate_ok (f : fate) : bool :=
  match f with FateKilled s => (1 <=? s) && (s <=? 126) | FateExit k => k <? 256 | FateDone _ => true end.
Definition pstate_ok (r : pstate) : bool := match r with Dead f => fate_ok f | Alive _ _ => true end.
Definition stops_ok (st : list N) : bool := forallb (fun s => s <? 256) st.

Lemma run_acts_ok : forall l plugin failed, forallb act_ok l = true ->
  stops_ok (fst (run_acts plugin failed l)) = true /\ pstate_ok (snd (run_acts plugin failed l)) = true.
Proof.
  induction l as [|a tl IH]; intros plugin failed H; [split; reflexivity|].
  simpl in H. apply andb_prop in H. destruct H as [Ha Htl].
  destruct a as [s|k|]; simpl.
  - simpl in Ha. destruct (disposition s).
    + split; [reflexivity|]. simpl. lia.
    + specialize (IH plugin failed Htl). destruct (run_acts plugin failed tl) as [st r]. simpl in *.
      destruct IH as [I1 I2]. split; [|exact I2]. rewrite I1. lia.
    + apply IH. exact Htl.
  - split; [reflexivity|]. exact Ha.
  - destruct plugin; [apply IH; exact Htl|split; reflexivity].
Qed.

Lemma stops_ok_app a b : stops_ok (a ++ b) = stops_ok a && stops_ok b.
Proof. apply forallb_app. Qed.

Lemma then_phase_ok acc skip f :
  stops_ok (fst acc) = true -> pstate_ok (snd acc) = true ->
  (forall n, stops_ok (fst (f n)) = true /\ pstate_ok (snd (f n)) = true) ->
  stops_ok (fst (then_phase acc skip f)) = true /\ pstate_ok (snd (then_phase acc skip f)) = true.
Proof.
  intros H1 H2 Hf. destruct acc as [st [x|n early]]; simpl in *.
  - split; assumption.
  - destruct (skip && early); [split; [assumption|reflexivity]|].
    specialize (Hf n). destruct (f n) as [st2 r]. simpl in *. destruct Hf as [F1 F2].
    rewrite stops_ok_app, H1, F1. split; [reflexivity|exact F2].
Qed.

Lemma child_trace_ok p : prog_ok p = true ->
  stops_ok (fst (child_trace p)) = true /\ fate_ok (snd (child_trace p)) = true.
Proof.
  unfold prog_ok. intro H. repeat (apply andb_prop in H; destruct H as [H ?]).
  unfold child_trace.
  set (a1 := run_acts true 0 (p_pre p)).
  set (a2 := then_phase a1 false _). set (a3 := then_phase a2 true _). set (a4 := then_phase a3 false _).
  set (a5 := then_phase a4 false _).
  assert (O1 : stops_ok (fst a1) = true /\ pstate_ok (snd a1) = true) by (apply run_acts_ok; assumption).
  assert (O2 : stops_ok (fst a2) = true /\ pstate_ok (snd a2) = true)
    by (apply then_phase_ok; try tauto; intro n; apply run_acts_ok; assumption).
  assert (O3 : stops_ok (fst a3) = true /\ pstate_ok (snd a3) = true)
    by (apply then_phase_ok; try tauto; intro n; apply run_acts_ok; assumption).
  assert (O4 : stops_ok (fst a4) = true /\ pstate_ok (snd a4) = true)
    by (apply then_phase_ok; try tauto; intro n; apply run_acts_ok; assumption).
  assert (O5 : stops_ok (fst a5) = true /\ pstate_ok (snd a5) = true)
    by (apply then_phase_ok; try tauto; intro n; apply run_acts_ok; assumption).
  destruct a5 as [st [x|n e]]; simpl in *; tauto.
Qed.

Lemma smerge_ok : forall inject evs, forallb sout_ok evs = true -> forallb sout_ok (smerge inject evs) = true.
Proof.
  induction inject as [|i tl IH]; intros evs H; [exact H|].
  destruct i; simpl; try (apply IH; exact H).
  destruct evs as [|e r]; [reflexivity|]. simpl in *. apply andb_prop in H. destruct H as [-> H]. apply IH. exact H.
Qed.

Lemma real_stream_ok p inject : prog_ok p = true -> forallb sout_ok (real_stream p inject) = true.
Proof.
  intro H. destruct (child_trace_ok p H) as [S F]. unfold real_stream. destruct (child_trace p) as [st f]. simpl in *.
  apply smerge_ok. rewrite forallb_app. apply andb_true_intro. split.
  - unfold stops_ok in S. rewrite forallb_forall in *. intros x Hx. apply in_map_iff in Hx. destruct Hx as [s [<- Hs]].
    simpl. apply S. exact Hs.
  - simpl. rewrite andb_true_r. destruct f as [s|k|n]; simpl in *; try assumption. destruct (n =? 0); reflexivity.
Qed.

(* the child's verdict does not depend on how many failures the parent already had *)
Lemma child_final_fate count f : SEv (child_final count f) = fate_sout f.
Proof.
  destruct f as [s|k|n]; simpl; try reflexivity.
  destruct (N.ltb_spec count (count + n)); destruct (N.eqb_spec n 0); try reflexivity; lia.
Qed.

Lemma merge_smerge : forall inject evs, map conc (smerge inject (map SEv evs)) = merge inject evs.
Proof.
  induction inject as [|i tl IH]; intros evs.
  - simpl. rewrite map_map. reflexivity.
  - destruct i; simpl; try (rewrite IH; reflexivity).
    destruct evs as [|e r]; [reflexivity|]. simpl. rewrite IH. reflexivity.
Qed.

Lemma real_stream_merge count p inject : map conc (real_stream p inject) = merge inject (child_events count p).
Proof.
  unfold real_stream, child_events. destruct (child_trace p) as [st f].
  rewrite <- merge_smerge. f_equal. f_equal. rewrite map_app, map_map. simpl. rewrite child_final_fate. reflexivity.
Qed.

(* ---- each test meets the property, whatever the failure count before it ---- *)
Lemma run_real_ok count p inject : prog_ok p = true ->
  let it := run_real count p inject in
  let '(f, c, reaped) := expect tolerated (real_stream p inject) in
  i_started it = true /\ length (i_fails it) = f /\ i_calls it = c /\ (reaped = true -> i_lost it = false).
Proof.
  intro H. unfold run_real. rewrite <- (real_stream_merge count p inject).
  pose proof (loop_expect (real_stream p inject) 0 (real_stream_ok p inject H)) as L. cbv zeta in L.
  rewrite budget_0 in L. rewrite L. cbv zeta. simpl.
  repeat split. intro R. destruct (lr_end _); simpl in *; congruence.
Qed.

(* ---- zero failures in the property's accounting: only behind an exit status 0 ---- *)
Definition squiet (o : sout) : bool := match o with SEintr | SEv EvCont => true | _ => false end.
Lemma expect_zero : forall l b c r, expect b l = (0%nat, c, r) -> In (SEv (EvExit 0)) l \/ forallb squiet l = true.
Proof.
  induction l as [|o tl IH]; intros b c r H; [right; reflexivity|].
  destruct o as [| |[k|s co|s|]]; cbn [expect] in H.
  - destruct b as [|b]; [discriminate|]. destruct (expect b tl) as [[f c'] r'] eqn:E. inversion H; subst.
    destruct (IH _ _ _ E) as [I|I]; [left; right; exact I|right; simpl; exact I].
  - discriminate.
  - destruct (N.eqb_spec k 0) as [->|]; [left; left; reflexivity|discriminate].
  - discriminate.
  - destruct (expect b tl) as [[f c'] r']. discriminate.
  - destruct (expect b tl) as [[f c'] r'] eqn:E. inversion H; subst.
    destruct (IH _ _ _ E) as [I|I]; [left; right; exact I|right; simpl; exact I].
Qed.
Lemma In_smerge x : forall inject evs, In x evs -> In x (smerge inject evs).
Proof.
  induction inject as [|i tl IH]; intros evs H; [exact H|].
  destruct i; simpl; try (right; apply IH; exact H).
  destruct evs as [|e r]; [destruct H|]. destruct H as [->|H]; [left; reflexivity|right; apply IH; exact H].
Qed.
Lemma smerge_In x : forall inject evs, In x (smerge inject evs) -> In x evs \/ x = SEintr \/ x = SErr 5.
Proof.
  induction inject as [|i tl IH]; intros evs H; [left; exact H|].
  destruct i; simpl in H.
  - destruct H as [<-|H]; [right; left; reflexivity|apply IH; exact H].
  - destruct H as [<-|H]; [right; right; reflexivity|apply IH; exact H].
  - destruct evs as [|e r]; [destruct H|]. destruct H as [<-|H]; [left; left; reflexivity|].
    destruct (IH r H) as [I|I]; [left; right; exact I|right; exact I].
Qed.
(* a stream "events, then the end of the child", with injected faults: no failure expected only if the end is exit status 0 *)
Lemma stream_zero_clean inject pre final b c r :
  (forall x, In x pre -> x <> SEv (EvExit 0)) -> squiet final = false ->
  expect b (smerge inject (pre ++ [final])) = (0%nat, c, r) -> final = SEv (EvExit 0).
Proof.
  intros P Q H. destruct (expect_zero _ _ _ _ H) as [I|I].
  - destruct (smerge_In _ _ _ I) as [J|[J|J]]; try discriminate.
    apply in_app_or in J. destruct J as [J|[J|[]]]; [destruct (P _ J eq_refl)|exact J].
  - rewrite forallb_forall in I. rewrite (I final) in Q; [discriminate|]. apply In_smerge. apply in_or_app. right. left. reflexivity.
Qed.
Lemma fate_clean p st f : child_trace p = (st, f) -> fate_sout f = SEv (EvExit 0) -> unclean p = false.
Proof.
  intros CT H. unfold unclean. rewrite CT. simpl. destruct f as [s|k|n]; simpl in H; [discriminate| |].
  - inversion H. reflexivity.
  - destruct (N.eqb_spec n 0) as [->|]; [reflexivity|discriminate].
Qed.
Lemma stops_not_exit0 (st : list N) x : In x (map (fun s => SEv (EvStop s)) st) -> x <> SEv (EvExit 0).
Proof. intro H. apply in_map_iff in H. destruct H as [s [<- _]]. discriminate. Qed.
Lemma fate_not_quiet f : squiet (fate_sout f) = false.
Proof. destruct f; reflexivity. Qed.

Lemma never_real p inject fe c r : expect tolerated (real_stream p inject) = (fe, c, r) -> unclean p = true -> (fe =? 0)%nat = false.
Proof.
  intros E U. destruct fe; [|reflexivity]. exfalso. unfold real_stream in E. destruct (child_trace p) as [st f] eqn:CT.
  pose proof (stream_zero_clean _ _ _ _ _ _ (stops_not_exit0 st) (fate_not_quiet f) E) as F.
  rewrite (fate_clean p st f CT F) in U. discriminate.
Qed.
Lemma never_env e p inject fe c r : expect tolerated (env_stream e p inject) = (fe, c, r) -> unclean p = true -> (fe =? 0)%nat = false.
Proof.
  intros E U. destruct fe; [|reflexivity]. exfalso. unfold env_stream in E. destruct (child_trace p) as [st f] eqn:CT.
  rewrite app_assoc in E.
  assert (P : forall x, In x (repeat SEintr (e_eintr e) ++ map (fun s => SEv (EvStop s)) st) -> x <> SEv (EvExit 0)).
  { intros x Hx. apply in_app_or in Hx. destruct Hx as [Hx|Hx]; [apply repeat_spec in Hx; subst; discriminate|apply (stops_not_exit0 st); exact Hx]. }
  destruct (auto_reaped (e_chld e)).
  - pose proof (stream_zero_clean inject _ (SErr c_ECHILD) _ _ _ P eq_refl E) as F. discriminate.
  - pose proof (stream_zero_clean _ _ _ _ _ _ P (fate_not_quiet f) E) as F.
    rewrite (fate_clean p st f CT F) in U. discriminate.
Qed.

(* ---- a real child under a process-level configuration: the model's answers are the words of the symbolic stream ---- *)
Lemma wmerge_smerge : forall inject l, map conc (smerge inject l) = wmerge inject (map conc l).
Proof.
  induction inject as [|i tl IH]; intro l; [reflexivity|].
  destruct i; simpl; try (rewrite IH; reflexivity).
  destruct l as [|o r]; [reflexivity|]. simpl. rewrite IH. reflexivity.
Qed.
Lemma map_conc_repeat n : map conc (repeat SEintr n) = repeat WEintr n.
Proof. induction n as [|n IH]; [reflexivity|]. simpl. rewrite IH. reflexivity. Qed.
Lemma run_env_stream count e p inject :
  run_env count e p inject = env_item e (parent_loop 0 (map conc (env_stream e p inject))).
Proof.
  unfold run_env, env_stream. destruct (child_trace p) as [st f]. rewrite wmerge_smerge. f_equal. f_equal. f_equal.
  unfold env_answers, kernel_answers. rewrite !map_app, map_conc_repeat, map_map. cbn [map]. f_equal. f_equal. f_equal.
  destruct (auto_reaped (e_chld e)); [reflexivity|]. rewrite <- (child_final_fate count f). reflexivity.
Qed.
Lemma env_stream_ok e p inject : prog_ok p = true -> forallb sout_ok (env_stream e p inject) = true.
Proof.
  intro H. destruct (child_trace_ok p H) as [S F]. unfold env_stream. destruct (child_trace p) as [st f]. simpl in *.
  apply smerge_ok. rewrite !forallb_app. apply andb_true_intro. split; [|apply andb_true_intro; split].
  - apply forallb_forall. intros x Hx. apply repeat_spec in Hx. subst. reflexivity.
  - unfold stops_ok in S. rewrite forallb_forall in *. intros x Hx. apply in_map_iff in Hx. destruct Hx as [s [<- Hs]].
    simpl. apply S. exact Hs.
  - simpl. rewrite andb_true_r. destruct (auto_reaped (e_chld e)); [reflexivity|].
    destruct f as [s|k|n]; simpl in *; try assumption. destruct (n =? 0); reflexivity.
Qed.
Lemma run_env_ok count e p inject : prog_ok p = true ->
  let it := run_env count e p inject in
  let '(f, c, reaped) := expect tolerated (env_stream e p inject) in
  i_started it = true /\ length (i_fails it) = f /\ i_calls it = c /\ (reaped = true -> i_lost it = false).
Proof.
  intro H. rewrite run_env_stream.
  pose proof (loop_expect (env_stream e p inject) 0 (env_stream_ok e p inject H)) as L. cbv zeta in L.
  rewrite budget_0 in L. rewrite L. cbv zeta. unfold env_item. simpl.
  repeat split. intro R. destruct (auto_reaped (e_chld e)); [reflexivity|]. destruct (lr_end _); simpl in *; congruence.
Qed.

Lemma plain_prog_ok f : prog_ok (plain_prog f) = true.
Proof. destruct f; reflexivity. Qed.

Lemma conc_exit0 ws : map conc ws ++ [WStat 0] = map conc (ws ++ [SEv (EvExit 0)]).
Proof. rewrite map_app. reflexivity. Qed.

Lemma item_ok_run all_sep count t : test_ok t = true -> item_ok all_sep t (run_test all_sep count t) = true.
Proof.
  intro H. unfold item_ok, expected, run_test, never_passed_ok. destruct t as [f|ok ws|p inject|e p inject].
  - destruct all_sep.
    + pose proof (run_real_ok count (plain_prog f) [] (plain_prog_ok f)) as R. cbv zeta in R.
      destruct (expect tolerated (real_stream (plain_prog f) [])) as [[fe c] reaped].
      destruct R as [-> [-> [-> RL]]]. rewrite !Nat.eqb_refl.
      destruct reaped; [rewrite (RL eq_refl)|]; reflexivity.
    + destruct f; reflexivity.
  - destruct ok; [|reflexivity].
    rewrite conc_exit0.
    assert (OK : forallb sout_ok (ws ++ [SEv (EvExit 0)]) = true) by (rewrite forallb_app; simpl in H; rewrite H; reflexivity).
    pose proof (loop_expect (ws ++ [SEv (EvExit 0)]) 0 OK) as L. cbv zeta in L. rewrite budget_0 in L. rewrite L.
    simpl. rewrite !Nat.eqb_refl. reflexivity.
  - pose proof (run_real_ok count p inject H) as R. cbv zeta in R.
    destruct (expect tolerated (real_stream p inject)) as [[fe c] reaped] eqn:EX.
    destruct R as [-> [-> [-> RL]]]. rewrite !Nat.eqb_refl.
    assert (NP : (if unclean p then negb (fe =? 0)%nat else true) = true)
      by (destruct (unclean p) eqn:U; [rewrite (never_real p inject fe c reaped EX U)|]; reflexivity).
    rewrite NP. destruct reaped; [rewrite (RL eq_refl)|]; reflexivity.
  - simpl in H. apply andb_prop in H. destruct H as [_ H].
    pose proof (run_env_ok count e p inject H) as R. cbv zeta in R.
    destruct (expect tolerated (env_stream e p inject)) as [[fe c] reaped] eqn:EX.
    destruct R as [-> [-> [-> RL]]]. rewrite !Nat.eqb_refl.
    assert (NP : (if unclean p then negb (fe =? 0)%nat else true) = true)
      by (destruct (unclean p) eqn:U; [rewrite (never_env e p inject fe c reaped EX U)|]; reflexivity).
    rewrite NP. destruct reaped; [rewrite (RL eq_refl)|]; reflexivity.
Qed.

(* ---- ignored tests ---- *)
Lemma case_item_ok_run all_sep run_ign count tc : case_ok tc = true ->
  case_item_ok all_sep run_ign tc (run_case all_sep run_ign count tc) = true.
Proof.
  intro H. unfold case_item_ok, run_case, skipped. destruct tc as [ign t]. simpl in *. unfold case_ok in H. simpl in H.
  destruct ign, run_ign; simpl; try (apply item_ok_run; exact H). reflexivity.
Qed.

(* under run-ignored the marker is not looked at *)
Lemma run_ignored_as_normal all_sep count t :
  run_case all_sep true count {| c_ign := true; c_test := t |} = run_case all_sep true count {| c_ign := false; c_test := t |} /\
  run_case all_sep true count {| c_ign := true; c_test := t |} = run_test all_sep count t /\
  (forall it, case_item_ok all_sep true {| c_ign := true; c_test := t |} it = item_ok all_sep t it).
Proof. repeat split. Qed.

(* without it an ignored test leaves no trace, whatever it is (no validity asked) *)
Lemma ignored_not_run all_sep count t :
  let it := run_case all_sep false count {| c_ign := true; c_test := t |} in
  i_started it = false /\ i_fails it = [] /\ i_calls it = 0%nat /\ i_conts it = 0%nat /\ i_lost it = false.
Proof. repeat split. Qed.
Lemma ignored_not_run_tests all_sep count t tl :
  run_tests all_sep false count ({| c_ign := true; c_test := t |} :: tl) =
  (skip_item :: fst (run_tests all_sep false count tl), snd (run_tests all_sep false count tl)).
Proof.
  simpl. rewrite N.add_0_r. destruct (run_tests all_sep false count tl). reflexivity.
Qed.

(* the two counters: every test is counted exactly once, as run or as ignored *)
Lemma count_cases_spec run_ign : forall ts nrun nign,
  count_cases run_ign nrun nign ts =
  (nrun + N.of_nat (length (filter (fun tc => negb (skipped run_ign tc)) ts)), nign + N.of_nat (length (filter (skipped run_ign) ts))).
Proof.
  induction ts as [|t tl IH]; intros nrun nign; [simpl; f_equal; lia|].
  simpl. destruct (skipped run_ign t); simpl; rewrite IH; f_equal; lia.
Qed.
Lemma filter_partition_length {A} (f : A -> bool) : forall l,
  (length (filter (fun x => negb (f x)) l) + length (filter f l) = length l)%nat.
Proof. induction l as [|x tl IH]; [reflexivity|]. simpl. destruct (f x); simpl; lia. Qed.

(* ---- the whole run ---- *)
Lemma run_tests_ok all_sep run_ign : forall ts count, forallb case_ok ts = true ->
  items_ok all_sep run_ign ts (fst (run_tests all_sep run_ign count ts)) = true /\
  snd (run_tests all_sep run_ign count ts) = count + total_fails (fst (run_tests all_sep run_ign count ts)) /\
  length (fst (run_tests all_sep run_ign count ts)) = length ts.
Proof.
  induction ts as [|t tl IH]; intros count H.
  - simpl. unfold total_fails. simpl. repeat split. lia.
  - simpl in H. apply andb_prop in H. destruct H as [Ht Htl]. simpl.
    specialize (IH (count + N.of_nat (length (i_fails (run_case all_sep run_ign count t)))) Htl).
    destruct (run_tests all_sep run_ign _ tl) as [its c]. simpl in *. destruct IH as [I1 [I2 I3]].
    rewrite (case_item_ok_run all_sep run_ign count t Ht), I1. repeat split; [|lia].
    rewrite I2. unfold total_fails. simpl. lia.
Qed.

Lemma run_meets_spec : forall s, valid s = true -> spec s (run s) = true.
Proof.
  intros s V. unfold valid in V. apply andb_prop in V. destruct V as [Vn Vt].
  destruct (run_tests_ok (s_all_sep s) (s_run_ign s) (s_tests s) 0 Vt) as [I1 [I2 I3]].
  unfold spec, run. destruct (run_tests (s_all_sep s) (s_run_ign s) 0 (s_tests s)) as [its total].
  rewrite count_cases_spec. simpl in *.
  rewrite I1. subst total. change (0 + total_fails its) with (total_fails its). rewrite !N.eqb_refl.
  cbn [andb negb]. rewrite andb_true_r.
  pose proof (filter_partition_length (skipped (s_run_ign s)) (s_tests s)) as P.
  destruct (s_tests s) as [|t tl]; [discriminate|].
  assert (E : (N.of_nat (length (filter (fun tc => negb (skipped (s_run_ign s) tc)) (t :: tl))) +
               N.of_nat (length (filter (skipped (s_run_ign s)) (t :: tl))) =? 0) = false)
    by (apply N.eqb_neq; change (length (t :: tl)) with (S (length tl)) in P; lia).
  rewrite E, orb_false_r, eqb_reflx. reflexivity.
Qed.
