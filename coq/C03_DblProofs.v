(* C03 -- doubles_equal (lib/Dbl.v, mirror of Utest.cpp after the D1 repair) against the reals *)
From Coq Require Import ZArith Bool Reals Lia Lra.
From Flocq Require Import Core.Core IEEE754.BinarySingleNaN IEEE754.Binary IEEE754.Bits.
From CppUVerif Require Import lib.CInt lib.Dbl lib.Str C03_Model.
Local Open Scope Z_scope.

Definition d_finite (d : dbl) : bool := BinarySingleNaN.is_finite d.
Definition rnd (x : R) : R := round radix2 (SpecFloat.fexp 53 1024) ZnearestE x.     (* round to nearest even, binary64 *)
Definition dR (d : dbl) : R := BinarySingleNaN.B2R d.

(* ---- NaN, infinities ---- *)
Lemma deq_nan d1 d2 t : d_is_nan d1 || d_is_nan d2 || d_is_nan t = true -> doubles_equal d1 d2 t = false.
Proof. unfold doubles_equal. intros ->. reflexivity. Qed.

Lemma deq_same_inf s t : d_is_nan t = false ->
  doubles_equal (BinarySingleNaN.B754_infinity s) (BinarySingleNaN.B754_infinity s) t = true.
Proof. unfold doubles_equal. intros ->. destruct s; reflexivity. Qed.

Lemma deq_opposite_inf s t : d_finite t = true ->
  doubles_equal (BinarySingleNaN.B754_infinity s) (BinarySingleNaN.B754_infinity (negb s)) t = false.
Proof. destruct t as [st| | |st m e B]; intro H; try discriminate H; destruct s, st; reflexivity. Qed.

Lemma deq_old_refuted :
  ~ (forall s t, d_finite t = true ->
       doubles_equal_old (BinarySingleNaN.B754_infinity s) (BinarySingleNaN.B754_infinity (negb s)) t = false).
Proof.
  intro H. specialize (H false (dbl_of_bits 0x3ff0000000000000) eq_refl). vm_compute in H. discriminate H.
Qed.
(* the refuting operands as the bit patterns the harness replays: +inf, -inf, 1.0 *)
Lemma deq_old_witness :
  doubles_equal_old (dbl_of_bits 0x7ff0000000000000) (dbl_of_bits 0xfff0000000000000) (dbl_of_bits 0x3ff0000000000000) = true /\
  doubles_equal (dbl_of_bits 0x7ff0000000000000) (dbl_of_bits 0xfff0000000000000) (dbl_of_bits 0x3ff0000000000000) = false.
Proof. split; vm_compute; reflexivity. Qed.

(* ---- the spec formula of C03_Model.holds agrees with doubles_equal on every input ---- *)
Lemma inf_minus_finite s (b : dbl) : d_finite b = true -> d_minus (BinarySingleNaN.B754_infinity s) b = BinarySingleNaN.B754_infinity s.
Proof. destruct b; intro H; try discriminate H; reflexivity. Qed.
Lemma finite_minus_inf s (a : dbl) : d_finite a = true -> d_minus a (BinarySingleNaN.B754_infinity s) = BinarySingleNaN.B754_infinity (negb s).
Proof. destruct a; intro H; try discriminate H; reflexivity. Qed.
Lemma le_inf_abs s (t : dbl) : d_is_nan t = false ->
  d_le (d_abs (BinarySingleNaN.B754_infinity s)) t = d_is_inf t && negb (d_sign t).
Proof. destruct t as [st|st| |st m e B]; intro H; try discriminate H; try reflexivity; destruct st; reflexivity. Qed.

Lemma deq_holds e a t : doubles_equal e a t = holds_dbl e a t.
Proof.
  unfold holds_dbl, doubles_equal.
  destruct (d_is_nan e || d_is_nan a || d_is_nan t) eqn:En; [reflexivity|].
  apply orb_false_iff in En. destruct En as [En Ht]. apply orb_false_iff in En. destruct En as [He Ha].
  destruct e as [se|se| |se me ee Be]; try discriminate He; destruct a as [sa|sa| |sa ma ea Ba]; try discriminate Ha;
    cbn [d_is_inf andb orb]; try reflexivity.
  - (* zero, inf *) rewrite finite_minus_inf by reflexivity. rewrite le_inf_abs by exact Ht. reflexivity.
  - (* inf, zero *) rewrite inf_minus_finite by reflexivity. rewrite le_inf_abs by exact Ht. reflexivity.
  - (* inf, inf *)
    destruct se, sa; cbn [d_eq d_cmp d_sign Bool.eqb orb]; try reflexivity.
    + change (d_minus (BinarySingleNaN.B754_infinity true) (BinarySingleNaN.B754_infinity false)) with (BinarySingleNaN.B754_infinity true : dbl).
      rewrite le_inf_abs by exact Ht. reflexivity.
    + change (d_minus (BinarySingleNaN.B754_infinity false) (BinarySingleNaN.B754_infinity true)) with (BinarySingleNaN.B754_infinity false : dbl).
      rewrite le_inf_abs by exact Ht. reflexivity.
  - (* inf, finite *) rewrite inf_minus_finite by reflexivity. rewrite le_inf_abs by exact Ht. reflexivity.
  - (* finite, inf *) rewrite finite_minus_inf by reflexivity. rewrite le_inf_abs by exact Ht. reflexivity.
Qed.

(* ---- finite operands and tolerance: the comparison over the reals ---- *)
Lemma d_le_finite (x t : dbl) : d_finite x = true -> d_finite t = true -> (d_le x t = true <-> (dR x <= dR t)%R).
Proof.
  intros Hx Ht. unfold d_le, d_cmp. rewrite (BinarySingleNaN.Bcompare_correct 53 1024 x t Hx Ht).
  fold (dR x) (dR t). destruct (Rcompare_spec (dR x) (dR t)) as [Hc|Hc|Hc]; split; intro H; try reflexivity; try discriminate H; lra.
Qed.

Lemma deq_finite d1 d2 t : d_finite d1 = true -> d_finite d2 = true -> d_finite t = true ->
  (doubles_equal d1 d2 t = true <-> (Rabs (rnd (dR d1 - dR d2)) <= dR t)%R).
Proof.
  intros H1 H2 Ht. unfold doubles_equal.
  assert (N1 : d_is_nan d1 = false) by (destruct d1; try reflexivity; discriminate H1).
  assert (N2 : d_is_nan d2 = false) by (destruct d2; try reflexivity; discriminate H2).
  assert (Nt : d_is_nan t = false) by (destruct t; try reflexivity; discriminate Ht).
  assert (I1 : d_is_inf d1 = false) by (destruct d1; try reflexivity; discriminate H1).
  rewrite N1, N2, Nt, I1. cbn [orb andb].
  pose proof (BinarySingleNaN.Bminus_correct 53 1024 Hprec64 Hmax64 mode_NE d1 d2 H1 H2) as C.
  cbn [round_mode] in C. fold (dR d1) (dR d2) in C. fold (rnd (dR d1 - dR d2)) in C. fold (d_minus d1 d2) in C.
  destruct (Rlt_bool_spec (Rabs (rnd (dR d1 - dR d2))) (bpow radix2 1024)) as [Hlt|Hge].
  - destruct C as [CR [CF _]].
    rewrite d_le_finite; [| unfold d_finite, d_abs; rewrite BinarySingleNaN.is_finite_Babs; exact CF | exact Ht].
    unfold dR at 1, d_abs. rewrite BinarySingleNaN.B2R_Babs, CR. tauto.
  - destruct C as [CS _]. cbn in CS.
    assert (E : exists s, d_minus d1 d2 = BinarySingleNaN.B754_infinity s).
    { destruct (d_minus d1 d2) as [s|s| |s m e B]; cbn in CS; try discriminate CS. exists s. reflexivity. }
    destruct E as [s E]. rewrite E.
    split; intro H.
    + exfalso. destruct t as [st|st| |st m e B]; try discriminate Ht; destruct st; discriminate H.
    + exfalso. pose proof (BinarySingleNaN.abs_B2R_lt_emax 53 1024 t) as Hb. fold (dR t) in Hb.
      assert (dR t <= Rabs (dR t))%R by apply Rle_abs. lra.
Qed.

(* |d1 - d2| <= t over the reals (no rounding) is enough *)
Lemma deq_exact_diff d1 d2 t : d_finite d1 = true -> d_finite d2 = true -> d_finite t = true ->
  (Rabs (dR d1 - dR d2) <= dR t)%R -> doubles_equal d1 d2 t = true.
Proof.
  intros H1 H2 Ht Hd. apply deq_finite; try assumption.
  unfold rnd.
  apply (abs_round_le_generic radix2 (SpecFloat.fexp 53 1024) (valid_exp_ := BinarySingleNaN.fexp_correct 53 1024 Hprec64) ZnearestE).
  - apply BinarySingleNaN.generic_format_B2R.
  - exact Hd.
Qed.

Lemma deq_same_value d1 d2 t : d_finite d1 = true -> d_finite d2 = true -> d_finite t = true ->
  dR d1 = dR d2 -> (0 <= dR t)%R -> doubles_equal d1 d2 t = true.
Proof.
  intros H1 H2 Ht E Hp. apply deq_exact_diff; try assumption. rewrite E.
  replace (dR d2 - dR d2)%R with 0%R by lra. rewrite Rabs_R0. exact Hp.
Qed.

Lemma deq_finite_sym d1 d2 t : d_finite d1 = true -> d_finite d2 = true -> d_finite t = true ->
  doubles_equal d1 d2 t = doubles_equal d2 d1 t.
Proof.
  intros H1 H2 Ht.
  assert (E : (Rabs (rnd (dR d1 - dR d2)) = Rabs (rnd (dR d2 - dR d1)))%R).
  { replace (dR d2 - dR d1)%R with (- (dR d1 - dR d2))%R by lra. unfold rnd. rewrite round_NE_opp, Rabs_Ropp. reflexivity. }
  pose proof (deq_finite d1 d2 t H1 H2 Ht) as A. pose proof (deq_finite d2 d1 t H2 H1 Ht) as B. rewrite E in A.
  destruct (doubles_equal d1 d2 t), (doubles_equal d2 d1 t); try reflexivity.
  - symmetry. apply B. apply A. reflexivity.
  - apply A. apply B. reflexivity.
Qed.

(* a finite tolerance below zero (other than -0) accepts nothing *)
Lemma deq_negative_tol d1 d2 t : d_finite d1 = true -> d_finite d2 = true -> d_finite t = true ->
  (dR t < 0)%R -> doubles_equal d1 d2 t = false.
Proof.
  intros H1 H2 Ht Hn. destruct (doubles_equal d1 d2 t) eqn:E; [|reflexivity].
  apply deq_finite in E; try assumption. pose proof (Rabs_pos (rnd (dR d1 - dR d2))). lra.
Qed.
