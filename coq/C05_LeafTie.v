(* C05: the size arithmetic of the model is EQUAL to the definitions tools/cxx2coq.py regenerates from /repo's
   MemoryLeakDetector.cpp on every run (gen/Gen_Leaf.v), for the default build (guard bytes on):
   calculateVoidPointerAlignedSize, sizeOfMemoryWithCorruptionInfo, sizeLeavesRoomForAccountingInformation. *)
From Coq Require Import ZArith NArith Bool List Lia.
From CppUVerif Require Import lib.CSem gen.Gen_Common gen.Gen_C05 gen.Gen_LeafC05 C05_Model.
Local Open Scope Z_scope.

Lemma cw64 x : cw 64 false x = x mod 18446744073709551616.
Proof. unfold cw. cbn [andb]. reflexivity. Qed.

Lemma W_Z : Z.of_N W = 18446744073709551616. Proof. reflexivity. Qed.
Lemma wrap_Z x : Z.of_N (wrap x) = Z.of_N x mod 18446744073709551616.
Proof. unfold wrap. rewrite N2Z.inj_mod. rewrite W_Z. reflexivity. Qed.

Lemma tie_aligned c n : guard_on c = true -> (n < W)%N -> leaf_alignedSize (Z.of_N n) = Z.of_N (aligned c n).
Proof.
  intros Hg Hn. unfold leaf_alignedSize, aligned, c_rem. rewrite Hg.
  assert (Hp : c05_ptr_size = 8%N) by reflexivity. rewrite Hp.
  rewrite Z.rem_mod_nonneg by lia. rewrite !cw64, wrap_Z.
  assert (0 <= Z.of_N n mod 8 < 8) by (apply Z.mod_pos_bound; lia).
  assert (Hn' : Z.of_N n < 18446744073709551616) by (unfold W in Hn; lia).
  rewrite (Z.mod_small (Z.of_N n mod 8)) by lia.
  rewrite (Z.mod_small (8 - Z.of_N n mod 8)) by lia.
  rewrite N2Z.inj_add, N2Z.inj_sub.
  2:{ apply N.lt_le_incl. apply N.mod_upper_bound. discriminate. }
  rewrite N2Z.inj_mod. reflexivity.
Qed.

Lemma tie_with_guard c n : guard_on c = true -> (n < W)%N -> leaf_sizeWithCorruptionInfo (Z.of_N n) = Z.of_N (with_guard c n).
Proof.
  intros Hg Hn. unfold leaf_sizeWithCorruptionInfo, with_guard.
  assert (HG : G c = 3%N) by (unfold G; rewrite Hg; reflexivity). rewrite HG.
  rewrite cw64. replace ((Z.of_N n + 3) mod 18446744073709551616) with (Z.of_N (wrap (n + 3))).
  2:{ rewrite wrap_Z, N2Z.inj_add. reflexivity. }
  apply tie_aligned; [exact Hg|]. unfold wrap. apply N.mod_upper_bound. discriminate.
Qed.

Lemma tie_fits c n : guard_on c = true -> (n < W)%N -> (node_size c < 65536)%N ->
  leaf_sizeLeavesRoom (Z.of_N n) (Z.of_N (node_size c)) = b2z (fits c n).
Proof.
  intros Hg Hn Hs. unfold leaf_sizeLeavesRoom, fits, c_le.
  assert (HG : G c = 3%N) by (unfold G; rewrite Hg; reflexivity). rewrite HG.
  assert (Hp : c05_ptr_size = 8%N) by reflexivity. rewrite Hp.
  rewrite !cw64. f_equal.
  assert (E1 : cw 32 true (-1) = -1) by reflexivity. rewrite E1.
  change (3 + 8) with 11. rewrite (Z.mod_small 11) by lia.
  rewrite (Z.mod_small (11 + Z.of_N (node_size c))) by lia.
  change ((-1) mod 18446744073709551616) with 18446744073709551615.
  rewrite (Z.mod_small (18446744073709551615 - (11 + Z.of_N (node_size c)))) by lia.
  unfold W.
  destruct (Z.leb_spec (Z.of_N n) (18446744073709551615 - (11 + Z.of_N (node_size c)))) as [L|L];
    destruct (N.leb_spec n (18446744073709551616 - 1 - (3 + 8 + node_size c))%N) as [L'|L']; try reflexivity; lia.
Qed.

Definition C05_size_arithmetic_is_the_source_stmt : Prop :=
  forall c n, guard_on c = true -> (n < W)%N -> (node_size c < 65536)%N ->
    leaf_alignedSize (Z.of_N n) = Z.of_N (aligned c n) /\
    leaf_sizeWithCorruptionInfo (Z.of_N n) = Z.of_N (with_guard c n) /\
    leaf_sizeLeavesRoom (Z.of_N n) (Z.of_N (node_size c)) = b2z (fits c n).
Lemma C05_size_arithmetic_is_the_source : C05_size_arithmetic_is_the_source_stmt.
Proof. intros c n Hg Hn Hs. repeat split; [apply tie_aligned | apply tie_with_guard | apply tie_fits]; assumption. Qed.
