(* C13: what the TRANSLATED SOURCE computes on well-formed C strings -- the tie lemmas of C13_SrcTie*.v composed with the
   specification lemmas of the model.  `FOk v` says: the function regenerated from SimpleString.cpp terminated within the fuel,
   made no access outside the blocks of its arguments, and returned v (written with the textbook functions). *)
From Coq Require Import ZArith NArith Bool List Lia.
From CppUVerif Require Import lib.CSem lib.CMem lib.CMemFacts lib.Str gen.Gen_LeafC13 gen.Gen_LoopC13
  C13_Text C13_Model C13_Proofs C13_Printable C13_Atoi C13_LeafTie C13_SrcTie C13_SrcTie2 C13_SrcTie3 C13_SrcTie4.
Import ListNotations.
Local Open Scope Z_scope.

(* a C string s (no NUL inside) stored at p, followed by anything *)
Definition cstr_at (m : memory) (p : ptr) (s r : list N) : Prop := view m p = s ++ 0%N :: r /\ NN s.

Lemma len_app_lt (s r : list N) fuel : (length (s ++ 0%N :: r) < fuel)%nat -> (length (s ++ 0%N :: r) < fuel)%nat.
Proof. exact (fun H => H). Qed.

Lemma src_StrLen_spec fuel m b o s r : mem_ok m -> cstr_at m (Ptr b o) s r ->
  (length (s ++ 0%N :: r) < fuel)%nat -> Z.of_nat (length (s ++ 0%N :: r)) < M64 ->
  src_StrLen fuel m (Ptr b o) = FOk (Z.of_nat (length s)).
Proof.
  intros Hm [Hv Hn] Hf Hl. rewrite src_StrLen_tie; rewrite ?Hv; try assumption.
  rewrite (StrLen_ok s r Hn). reflexivity.
Qed.

Lemma src_StrCmp_spec fuel m b1 o1 b2 o2 a ra c rc : mem_ok m -> cstr_at m (Ptr b1 o1) a ra -> cstr_at m (Ptr b2 o2) c rc ->
  (length (a ++ 0%N :: ra) < fuel)%nat ->
  exists d, src_StrCmp fuel m (Ptr b1 o1) (Ptr b2 o2) = FOk d /\ Z.sgn d = cmp_z (str_cmp a c).
Proof.
  intros Hm [Hv1 Hn1] [Hv2 Hn2] Hf. rewrite src_StrCmp_tie; rewrite ?Hv1, ?Hv2; try assumption.
  destruct (StrCmp_ok a c ra rc Hn1 Hn2) as [d [Hd Hs]]. rewrite Hd. exists d. split; [reflexivity | exact Hs].
Qed.

Lemma src_StrNCmp_spec fuel m b1 o1 b2 o2 a ra c rc n : mem_ok m -> cstr_at m (Ptr b1 o1) a ra -> cstr_at m (Ptr b2 o2) c rc ->
  0 <= n < M64 -> (length (a ++ 0%N :: ra) < fuel)%nat ->
  exists d, src_StrNCmp fuel m (Ptr b1 o1) (Ptr b2 o2) n = FOk d /\ Z.sgn d = cmp_z (t_ncmp (Z.to_nat n) a c).
Proof.
  intros Hm [Hv1 Hn1] [Hv2 Hn2] Hn Hf. rewrite src_StrNCmp_tie; rewrite ?Hv1, ?Hv2; try assumption.
  destruct (StrNCmp_ok (Z.to_nat n) a c ra rc Hn1 Hn2) as [d [Hd Hs]]. rewrite Hd. exists d. split; [reflexivity | exact Hs].
Qed.

Lemma src_MemCmp_spec fuel m b1 o1 b2 o2 n : mem_ok m -> 0 <= n < M64 ->
  (Z.to_nat n <= length (view m (Ptr b1 o1)))%nat -> (Z.to_nat n <= length (view m (Ptr b2 o2)))%nat ->
  (length (view m (Ptr b1 o1)) < fuel)%nat ->
  exists d, src_MemCmp fuel m (Ptr b1 o1) (Ptr b2 o2) n = FOk d /\
            Z.sgn d = cmp_z (t_ncmp (Z.to_nat n) (view m (Ptr b1 o1)) (view m (Ptr b2 o2))).
Proof.
  intros Hm Hn H1 H2 Hf. rewrite src_MemCmp_tie by assumption.
  destruct (MemCmp_ok (Z.to_nat n) _ _ H1 H2) as [d [Hd Hs]]. rewrite Hd. exists d. split; [reflexivity | exact Hs].
Qed.

(* StrStr returns the pointer to the first occurrence of the needle, or NULL *)
Lemma src_StrStr_spec fuel m b1 o1 b2 o2 a ra c rc : mem_ok m -> cstr_at m (Ptr b1 o1) a ra -> cstr_at m (Ptr b2 o2) c rc ->
  (length (a ++ 0%N :: ra) < fuel)%nat -> (length (c ++ 0%N :: rc) < fuel)%nat -> Z.of_nat (length (c ++ 0%N :: rc)) < M64 ->
  src_StrStr fuel m (Ptr b1 o1) (Ptr b2 o2) =
    FOk (match find_sub a c with Some k => Ptr b1 (o1 + Z.of_nat k) | None => Null end).
Proof.
  intros Hm [Hv1 Hn1] [Hv2 Hn2] Hf1 Hf2 Hl. rewrite src_StrStr_tie; rewrite ?Hv1, ?Hv2; try assumption.
  - rewrite (StrStr_ok a c ra rc Hn1 Hn2). reflexivity.
  - intros r _ Ho. rewrite (StrLen_ok c rc Hn2) in Ho. discriminate Ho.
Qed.

Lemma src_AtoU_spec fuel m b o s r : mem_ok m -> view m (Ptr b o) = s ++ 0%N :: r -> BY s ->
  (length (s ++ 0%N :: r) < fuel)%nat -> src_AtoU fuel m (Ptr b o) = FOk (t_atou s).
Proof.
  intros Hm Hv Hb Hf. rewrite src_AtoU_tie; rewrite ?Hv; try assumption. rewrite (AtoU_ok s r Hb). reflexivity.
Qed.

Lemma src_AtoI_spec fuel m b o s r : mem_ok m -> view m (Ptr b o) = s ++ 0%N :: r -> BY s ->
  t_dec_value (t_atoi_digits s) <= 2147483647 ->
  (length (s ++ 0%N :: r) < fuel)%nat -> src_AtoI fuel m (Ptr b o) = FOk (t_atoi s).
Proof.
  intros Hm Hv Hb Hd Hf. pose proof (AtoI_ok s r Hb Hd) as E.
  rewrite src_AtoI_tie; rewrite ?Hv; try assumption; rewrite E; [reflexivity | discriminate].
Qed.

(* StrNCpy(dst, src, n), n >= 1, destination and source in different blocks: exactly min(n, strlen+1) cells of the destination
   block change, every other block and cell stays; the result is the destination pointer *)
Lemma src_StrNCpy_spec fuel m bd bs os n s r pre mid post : mem_ok m -> bd <> bs -> (bd < length m)%nat ->
  1 <= n < M64 -> cstr_at m (Ptr bs os) s r -> block m bd = pre ++ mid ++ post ->
  length mid = Nat.min (Z.to_nat n) (S (length s)) -> (length (s ++ 0%N :: r) < fuel)%nat ->
  src_StrNCpy fuel m (Ptr bd (Z.of_nat (length pre))) (Ptr bs os) n =
    FOk (Ptr bd (Z.of_nat (length pre)), upd m bd (pre ++ firstn (length mid) (s ++ [0%N]) ++ post)).
Proof.
  intros Hm Hd Hb Hn [Hv Hnn] Hblk Hl Hf.
  rewrite src_StrNCpy_tie; rewrite ?Hv; try assumption; try lia.
  rewrite Nat2Z.id, Hblk. unfold StrNCpy.
  destruct (Nat.eqb_spec (Z.to_nat n) 0) as [E|_]; [lia|].
  rewrite (StrNCpy_loop_ok (Z.to_nat n) s r pre mid post) by (try assumption; lia). reflexivity.
Qed.
