(* C02 -- every selected test runs exactly once per repetition; selection follows the filters; reversing and shuffling
   only permute the order.

   Executable mirror of
     TestRegistry::addTest / runAllTests / endOfGroup / testShouldRun / shuffleTests / reverseTests   (TestRegistry.cpp)
     UtestShell::match / shouldRun, IgnoredUtestShell::runOneTest / setRunIgnored,
     UtestShellPointerArray (constructor, swap, shuffle, reverse, relinkTestsInOrder, getFirstTest)  (Utest.cpp)
     TestFilter::match                                                                               (TestFilter.cpp)
     TestResult's four counters                                                                      (TestResult.cpp)
     the reverse / shuffle / repeat part of CommandLineTestRunner::runAllTests                       (CommandLineTestRunner.cpp)
   The singly linked list of tests is the Coq list it denotes (addTest = cons); the pointer array is a list with
   bounds-checked indexing (an access outside it makes the whole run `None`); SimpleString::contains and operator== are
   the C13 models of StrStr / StrCmp on NUL-terminated buffers.  The rand() stream is scenario input.
   No proofs in this file. *)
From Coq Require Import NArith Arith Bool List.
From CppUVerif Require Import lib.Str C13_Model.
Import ListNotations.
Local Open Scope N_scope.

(* ------------------------------------------------------------------ data *)
Record test := mkTest { t_id : nat; t_group : list N; t_name : list N; t_ignored : bool }.
Record tfilter := mkFilter { f_pat : list N; f_strict : bool; f_invert : bool }.

Record scenario := mkScn {
  s_tests : list test;          (* in order of registration (addTest); ids are 0,1,2,... *)
  s_gf : list tfilter;           (* group filters, [] = NULL list *)
  s_nf : list tfilter;           (* name filters *)
  s_ri : bool;                  (* -ri / setRunIgnored *)
  s_rev : bool;                 (* -b / reverseTests *)
  s_shuffle : bool;             (* -s<seed> / shuffleTests(seed) before every repetition *)
  s_seed : N;
  s_rands : list N;             (* values rand() returns after srand(seed), in order *)
  s_repeat : nat;               (* -r<n> *)
  s_route : N;                  (* 0 direct API, 1 argv, 2 argv with -t/-st/-xt/-xst pairs: how the harness configures; not used by run *)
  s_real : bool                 (* the harness lets the platform's srand/rand through (and records them) instead of scripting them *)
}.

Inductive event :=
| ETestsStarted | EGroupStarted (id : nat) | ETestStarted (id : nat) | EBody (id : nat)
| ETestEnded | EGroupEnded | ETestsEnded.

Record counters := mkCnt { c_tests : N; c_run : N; c_ign : N; c_filt : N }.

Record rep_obs := mkRep {
  r_order : list nat;           (* ids in list order when the repetition starts (after reverse / shuffle) *)
  r_srand : list N;             (* M-obs: arguments of srand during the shuffle of this repetition *)
  r_rands : list N;             (* M-obs: values rand() returned during the shuffle of this repetition *)
  r_word : list event;          (* callback word of this repetition *)
  r_cnt : counters              (* counters of this repetition's TestResult when testsEnded is printed *)
}.
Record obs := mkObs { o_reps : list rep_obs; o_totals : list N (* executions of each test's body over the whole run, by id *) }.

(* ------------------------------------------------------------------ TestFilter::match, UtestShell::match / shouldRun *)
Definition ok_or_false (r : res bool) : bool := match r with Ok b => b | _ => false end.
Definition sstr_contains (a b : list N) : bool := ok_or_false (contains_m (cs a) (cs b)).   (* name.contains(filter_) *)
Definition sstr_equal (a b : list N) : bool := ok_or_false (equal_m (cs a) (cs b)).         (* name == filter_ *)

Definition filter_match (f : tfilter) (name : list N) : bool :=
  let matches := if f_strict f then sstr_equal name (f_pat f) else sstr_contains name (f_pat f) in
  if f_invert f then negb matches else matches.

Fixpoint match_loop (target : list N) (fs : list tfilter) : bool :=
  match fs with
  | [] => false
  | f :: rest => if filter_match f target then true else match_loop target rest
  end.
Definition shell_match (target : list N) (fs : list tfilter) : bool :=
  match fs with [] => true | _ => match_loop target fs end.
Definition should_run (gf nf : list tfilter) (t : test) : bool :=
  shell_match (t_group t) gf && shell_match (t_name t) nf.

(* ------------------------------------------------------------------ the registry list *)
Definition add_test (reg : list test) (t : test) : list test := t :: reg.
Definition registry_of (ts : list test) : list test := fold_left add_test ts [].

(* ------------------------------------------------------------------ UtestShellPointerArray *)
Fixpoint upd {A} (a : list A) (i : nat) (v : A) : list A :=
  match a, i with
  | [], _ => []
  | _ :: r, O => v :: r
  | x :: r, S i' => x :: upd r i' v
  end.
(* swap(index1, index2): e2 = a[index2]; e1 = a[index1]; a[index1] = e2; a[index2] = e1 *)
Definition swap {A} (a : list A) (i1 i2 : nat) : option (list A) :=
  match nth_error a i2, nth_error a i1 with
  | Some e2, Some e1 => Some (upd (upd a i1 e2) i2 e1)
  | _, _ => None
  end.

(* constructor: count_ = firstTest->countTests(); for (i = 0; i < count_; i++) { array[i] = current; current = current->getNext(); } *)
Fixpoint count_tests {A} (l : list A) : nat := match l with [] => 0 | _ :: r => count_tests r + 1 end.
Fixpoint array_fill {A} (n : nat) (cur : list A) : list A :=
  match n with
  | O => []
  | S n' => match cur with [] => [] | t :: r => t :: array_fill n' r end
  end.
Definition pointer_array {A} (first : list A) : list A := array_fill (count_tests first) first.

(* relinkTestsInOrder: for (i = 0; i < count; i++) tests = a[count - i - 1]->addTest(tests) *)
Fixpoint relink_loop {A} (n i count : nat) (a : list A) (tests : list A) : option (list A) :=
  match n with
  | O => Some tests
  | S n' => match nth_error a (count - i - 1) with
            | Some t => relink_loop n' (S i) count a (t :: tests)
            | None => None
            end
  end.
Definition relink {A} (a : list A) : option (list A) := relink_loop (length a) 0 (length a) a [].

Definition next_rand (rs : list N) : N * list N := match rs with [] => (0, []) | r :: rs' => (r, rs') end.

(* for (i = count - 1; i >= 1; --i) { j = rand() % (i + 1); swap(i, j); }   -- returns the array and the values drawn *)
Fixpoint shuffle_loop {A} (i : nat) (rs : list N) (a : list A) (drawn : list N) : option (list A * list N) :=
  match i with
  | O => Some (a, rev drawn)
  | S i' => let (r, rs') := next_rand rs in
            let j := N.to_nat (r mod N.of_nat (i + 1)) in
            match swap a i j with
            | Some a' => shuffle_loop i' rs' a' (r :: drawn)
            | None => None
            end
  end.
Definition UINT_MOD : N := 4294967296.
(* shuffle(seed): result list, srand arguments, rand values *)
Definition shuffle {A} (seed : N) (rs : list N) (a : list A) : option (list A * list N * list N) :=
  match length a with
  | O => Some (a, [], [])
  | S k => match shuffle_loop k rs a [] with
           | Some (a', drawn) => match relink a' with Some l => Some (l, [seed mod UINT_MOD], drawn) | None => None end
           | None => None
           end
  end.

(* for (i = 0; i < count / 2; i++) swap(i, count - i - 1) *)
Fixpoint reverse_loop {A} (n i count : nat) (a : list A) : option (list A) :=
  match n with
  | O => Some a
  | S n' => match swap a i (count - i - 1) with
            | Some a' => reverse_loop n' (S i) count a'
            | None => None
            end
  end.
Definition reverse {A} (a : list A) : option (list A) :=
  match length a with
  | O => Some a
  | count => match reverse_loop (Nat.div2 count) 0 count a with Some a' => relink a' | None => None end
  end.

(* TestRegistry::shuffleTests / reverseTests: array from the list, permute, relink, tests_ = array.getFirstTest() *)
Definition shuffle_tests (seed : N) (rs : list N) (reg : list test) := shuffle seed rs (pointer_array reg).
Definition reverse_tests (reg : list test) := reverse (pointer_array reg).

(* ------------------------------------------------------------------ runAllTests *)
Definition count_test (k : counters) := mkCnt (c_tests k + 1) (c_run k) (c_ign k) (c_filt k).
Definition count_run (k : counters) := mkCnt (c_tests k) (c_run k + 1) (c_ign k) (c_filt k).
Definition count_ignored (k : counters) := mkCnt (c_tests k) (c_run k) (c_ign k + 1) (c_filt k).
Definition count_filtered (k : counters) := mkCnt (c_tests k) (c_run k) (c_ign k) (c_filt k + 1).
Definition cnt0 : counters := mkCnt 0 0 0 0.

(* IgnoredUtestShell::runOneTest / UtestShell::runOneTest: events of the body and the counter *)
Definition run_one_test (ri : bool) (t : test) (k : counters) : list event * counters :=
  if t_ignored t && negb ri then ([], count_ignored k) else ([EBody (t_id t)], count_run k).

Definition end_of_group (t : test) (next : list test) : bool :=
  match next with [] => true | n :: _ => negb (sstr_equal (t_group t) (t_group n)) end.

Fixpoint run_loop (gf nf : list tfilter) (ri : bool) (tests : list test) (group_start : bool) (k : counters)
  : list event * counters :=
  match tests with
  | [] => ([], k)
  | t :: rest =>
      let ev1 := if group_start then [EGroupStarted (t_id t)] else [] in
      let k1 := count_test k in
      let '(ev2, k2) := if should_run gf nf t
                        then let '(e, k') := run_one_test ri t k1 in (ETestStarted (t_id t) :: e ++ [ETestEnded], k')
                        else ([], count_filtered k1) in
      let eog := end_of_group t rest in
      let ev3 := if eog then [EGroupEnded] else [] in
      let '(evs, k3) := run_loop gf nf ri rest eog k2 in
      (ev1 ++ ev2 ++ ev3 ++ evs, k3)
  end.
Definition run_all_tests (gf nf : list tfilter) (ri : bool) (tests : list test) : list event * counters :=
  let '(evs, k) := run_loop gf nf ri tests true cnt0 in (ETestsStarted :: evs ++ [ETestsEnded], k).

(* ------------------------------------------------------------------ the runner: reverse, then (shuffle; run)* *)
Fixpoint repeat_loop (s : scenario) (n : nat) (reg : list test) : option (list rep_obs) :=
  match n with
  | O => Some []
  | S n' =>
      match (if s_shuffle s then shuffle_tests (s_seed s) (s_rands s) reg else Some (reg, [], [])) with
      | None => None
      | Some (reg', seeds, drawn) =>
          let '(w, k) := run_all_tests (s_gf s) (s_nf s) (s_ri s) reg' in
          match repeat_loop s n' reg' with
          | Some reps => Some (mkRep (map t_id reg') seeds drawn w k :: reps)
          | None => None
          end
      end
  end.

Definition count_body (id : nat) (w : list event) : N :=
  N.of_nat (length (filter (fun e => match e with EBody i => Nat.eqb i id | _ => false end) w)).
Definition totals (n : nat) (reps : list rep_obs) : list N :=
  map (fun id => fold_right (fun r acc => count_body id (r_word r) + acc) 0 reps) (seq 0 n).

Definition run_opt (s : scenario) : option obs :=
  let reg0 := registry_of (s_tests s) in
  match (if s_rev s then reverse_tests reg0 else Some reg0) with
  | None => None
  | Some reg1 => match repeat_loop s (s_repeat s) reg1 with
                 | Some reps => Some (mkObs reps (totals (length (s_tests s)) reps))
                 | None => None
                 end
  end.
(* an access outside the pointer array would give the empty observation, which `spec` rejects whenever repeat > 0 *)
Definition run (s : scenario) : obs := match run_opt s with Some o => o | None => mkObs [] [] end.

(* ------------------------------------------------------------------ the property as a model-free oracle *)
(* a filter accepts by substring, by exact match, or by the negation of either *)
Definition accepts (f : tfilter) (x : list N) : bool :=
  xorb (f_invert f) (if f_strict f then bytes_eqb x (f_pat f) else contains x (f_pat f)).
Definition accepted (fs : list tfilter) (x : list N) : bool :=
  match fs with [] => true | _ => existsb (fun f => accepts f x) fs end.
Definition selected (s : scenario) (t : test) : bool := accepted (s_gf s) (t_group t) && accepted (s_nf s) (t_name t).
Definition executes (s : scenario) (t : test) : bool := selected s t && (negb (t_ignored t) || s_ri s).
Definition counted_ignored (s : scenario) (t : test) : bool := selected s t && t_ignored t && negb (s_ri s).

Definition b2n (b : bool) : N := if b then 1 else 0.
Definition count_if {A} (p : A -> bool) (l : list A) : N := N.of_nat (length (filter p l)).
Definition ev_eqb (a b : event) : bool :=
  match a, b with
  | ETestsStarted, ETestsStarted | ETestEnded, ETestEnded | EGroupEnded, EGroupEnded | ETestsEnded, ETestsEnded => true
  | EGroupStarted i, EGroupStarted j | ETestStarted i, ETestStarted j | EBody i, EBody j => Nat.eqb i j
  | _, _ => false
  end.
Definition occurrences (e : event) (w : list event) : N := count_if (ev_eqb e) w.

(* the order is a permutation of the n registered tests: nothing lost, nothing duplicated *)
Definition is_perm_ids (n : nat) (ord : list nat) : bool :=
  Nat.eqb (length ord) n && forallb (fun i => count_if (Nat.eqb i) ord =? 1) (seq 0 n).

(* (GS (TS B? TE)* GE)* where B names the started test and every test started inside a group segment has the group string of
   the test the segment was opened with.  grp: group string of a test id. *)
Inductive wstate := WOut | WGroup (g : nat) | WTest (g id : nat) | WBody (g id : nat).
Fixpoint balanced_from (n : nat) (grp : nat -> list N) (st : wstate) (w : list event) : bool :=
  match w with
  | [] => match st with WOut => true | _ => false end
  | e :: r =>
      match st, e with
      | WOut, EGroupStarted g => Nat.ltb g n && balanced_from n grp (WGroup g) r
      | WGroup g, ETestStarted i => Nat.ltb i n && bytes_eqb (grp i) (grp g) && balanced_from n grp (WTest g i) r
      | WGroup _, EGroupEnded => balanced_from n grp WOut r
      | WTest g i, EBody j => Nat.eqb i j && balanced_from n grp (WBody g i) r
      | WTest g _, ETestEnded => balanced_from n grp (WGroup g) r
      | WBody g _, ETestEnded => balanced_from n grp (WGroup g) r
      | _, _ => false
      end
  end.
Definition word_shape (n : nat) (grp : nat -> list N) (w : list event) : bool :=
  match w with
  | ETestsStarted :: r =>
      match rev r with
      | ETestsEnded :: m => balanced_from n grp WOut (rev m)
      | _ => false
      end
  | _ => false
  end.
Definition group_of (ts : list test) (i : nat) : list N := match nth_error ts i with Some t => t_group t | None => [] end.

Definition cnt_eqb (a b : counters) : bool :=
  (c_tests a =? c_tests b) && (c_run a =? c_run b) && (c_ign a =? c_ign b) && (c_filt a =? c_filt b).

Fixpoint natlist_eqb (a b : list nat) : bool :=
  match a, b with [], [] => true | x :: a', y :: b' => Nat.eqb x y && natlist_eqb a' b' | _, _ => false end.

Definition rep_ok (s : scenario) (r : rep_obs) : bool :=
  let ts := s_tests s in
  let n := length ts in
  is_perm_ids n (r_order r)
  && (s_shuffle s || natlist_eqb (r_order r) (if s_rev s then seq 0 n else rev (seq 0 n)))
  && word_shape n (group_of ts) (r_word r)
  && forallb (fun t => (occurrences (ETestStarted (t_id t)) (r_word r) =? b2n (selected s t))
                       && (occurrences (EBody (t_id t)) (r_word r) =? b2n (executes s t))) ts
  && (c_tests (r_cnt r) =? N.of_nat n)
  && (c_tests (r_cnt r) =? c_run (r_cnt r) + c_ign (r_cnt r) + c_filt (r_cnt r))
  && (c_run (r_cnt r) =? count_if (executes s) ts)
  && (c_ign (r_cnt r) =? count_if (counted_ignored s) ts)
  && (c_filt (r_cnt r) =? count_if (fun t => negb (selected s t)) ts).

Fixpoint nlist_eqb (a b : list N) : bool :=
  match a, b with [], [] => true | x :: a', y :: b' => (x =? y) && nlist_eqb a' b' | _, _ => false end.

Definition spec (s : scenario) (o : obs) : bool :=
  Nat.eqb (length (o_reps o)) (s_repeat s)
  && forallb (rep_ok s) (o_reps o)
  && nlist_eqb (o_totals o) (map (fun t => N.of_nat (s_repeat s) * b2n (executes s t)) (s_tests s)).

(* ------------------------------------------------------------------ scenarios the property speaks about *)
Definition nonul (x : list N) : bool := forallb (fun c => negb (c =? 0) && (c <? 256)) x.
Definition filter_ok (f : tfilter) : bool := nonul (f_pat f).
Definition test_ok (t : test) : bool := nonul (t_group t) && nonul (t_name t).
Definition valid (s : scenario) : bool :=
  natlist_eqb (map t_id (s_tests s)) (seq 0 (length (s_tests s)))
  && forallb test_ok (s_tests s) && forallb filter_ok (s_gf s) && forallb filter_ok (s_nf s)
  && forallb (fun r => r <? 2147483648) (s_rands s)                    (* rand() returns 0..RAND_MAX *)
  && ((s_route s =? 0)                                                  (* what the command line can express *)
      || (Nat.leb 1 (s_repeat s) && (negb (s_shuffle s) || ((0 <? s_seed s) && (s_seed s <? UINT_MOD))))).
